/-
  FalconProofs.C08.ExprState — evaluation in an executor state (`State::symbolize_and_eval`, the way falcon
  itself evaluates an expression loaded from a symbolic memory): it is the compositional evaluation on
  well-sorted expressions, and it is a `ValueRel` on its own, so the homomorphism theorems hold for it
  without any well-sortedness assumption on what `load` builds.
-/
import FalconProofs.C08.ExprHom
import FalconProofs.C05.Sorted
namespace Falcon
namespace Paged

/-! ### `State::symbolize_and_eval` is the compositional evaluation on well-sorted expressions -/

/-- the valuation a state gives to the scalars (by name, as `State::get_scalar`) -/
def valuationOf (σ : State) : Scalar → Res Const := fun s =>
  match σ.get s.name with
  | some c => .ok c
  | none => .err .scalar

theorem symbolize_evalWith (σ : State) (e : Expr) (hw : e.wellSorted = true)
    (hd : ∀ s ∈ e.scalars, σ.Defines s) :
    ∃ e', σ.symbolize e = .ok e' ∧ e'.bits = e.bits ∧ e'.eval = evalWith (valuationOf σ) e := by
  induction e with
  | scalar s =>
    obtain ⟨c, hget, hg, hb⟩ := hd s (by simp [Expr.scalars])
    exact ⟨.const c, by simp [State.symbolize, hget], by simpa [Expr.bits] using hb,
      by simp [Expr.eval, evalWith, valuationOf, hget]⟩
  | const c => exact ⟨.const c, rfl, rfl, rfl⟩
  | bin op l r ihl ihr =>
    simp only [Expr.wellSorted, Bool.and_eq_true, decide_eq_true_eq] at hw
    obtain ⟨l', hl, hlb, hle⟩ := ihl hw.1.1 (fun s hs => hd s (by simp [Expr.scalars, hs]))
    obtain ⟨r', hr, hrb, hre⟩ := ihr hw.1.2 (fun s hs => hd s (by simp [Expr.scalars, hs]))
    have hbits : l'.bits = r'.bits := by rw [hlb, hrb]; exact hw.2
    refine ⟨.bin op l' r', ?_, ?_, ?_⟩
    · simp [State.symbolize, hl, hr, Expr.mkBin, hbits]
    · simp only [Expr.bits, hlb]
    · simp only [Expr.eval, evalWith, hle, hre]
  | ext op m e ih =>
    have hbe : e.wellSorted = true := by
      cases op <;> simp only [Expr.wellSorted, Bool.and_eq_true] at hw
      · exact hw.1.1
      · exact hw.1.1
      · exact hw.1.1
    obtain ⟨e', he, heb, hee⟩ := ih hbe (fun s hs => hd s (by simpa [Expr.scalars] using hs))
    have hpos := Expr.wellSorted_bits hbe
    refine ⟨.ext op m e', ?_, rfl, by simp only [Expr.eval, evalWith, hee]⟩
    cases op
    case zext =>
      simp only [Expr.wellSorted, Bool.and_eq_true, decide_eq_true_eq] at hw
      have : ¬ (e'.bits ≥ m ∨ e'.bits = 0) := by rw [heb]; omega
      simp [State.symbolize, he, Expr.mkExt, this]
    case sext =>
      simp only [Expr.wellSorted, Bool.and_eq_true, decide_eq_true_eq] at hw
      have : ¬ (e'.bits ≥ m ∨ e'.bits = 0) := by rw [heb]; omega
      simp [State.symbolize, he, Expr.mkExt, this]
    case trun =>
      simp only [Expr.wellSorted, Bool.and_eq_true, decide_eq_true_eq] at hw
      have : ¬ (e'.bits ≤ m ∨ e'.bits = 0) := by rw [heb]; omega
      simp [State.symbolize, he, Expr.mkExt, this]
  | ite c t e ihc iht ihe =>
    simp only [Expr.wellSorted, Bool.and_eq_true, decide_eq_true_eq] at hw
    obtain ⟨c', hc, hcb, hce⟩ := ihc hw.1.1.1.1 (fun s hs => hd s (by simp [Expr.scalars, hs]))
    obtain ⟨t', ht, htb, hte⟩ := iht hw.1.1.1.2 (fun s hs => hd s (by simp [Expr.scalars, hs]))
    obtain ⟨e', he, heb, hee⟩ := ihe hw.1.1.2 (fun s hs => hd s (by simp [Expr.scalars, hs]))
    have h1 : c'.bits = 1 := by rw [hcb]; exact hw.1.2
    have h2 : t'.bits = e'.bits := by rw [htb, heb]; exact hw.2
    refine ⟨.ite c' t' e', ?_, ?_, ?_⟩
    · simp [State.symbolize, hc, ht, he, Expr.mkIte, h1, h2]
    · simp only [Expr.bits, htb]
    · simp only [Expr.eval, evalWith, hce, hte, hee]

/-- on a well-sorted expression whose scalars the state defines, `State::symbolize_and_eval` is the
    compositional evaluation under the state's valuation -/
theorem evalIn_eq_evalWith (σ : State) (e : Expr) (hw : e.wellSorted = true)
    (hd : ∀ s ∈ e.scalars, σ.Defines s) : σ.evalIn e = evalWith (valuationOf σ) e := by
  obtain ⟨e', hs, _, he⟩ := symbolize_evalWith σ e hw hd
  simp only [State.evalIn, hs, Res.bind_ok, he]

/-- a well-sorted expression that evaluates (no division by zero) in a state defining its scalars is
    related to its value: the hypothesis `VR` of the homomorphism theorems -/
theorem vr_of_wellSorted (σ : State) (e : Expr) (hw : e.wellSorted = true)
    (hd : ∀ s ∈ e.scalars, σ.Defines s) {c : Const} (hc : σ.evalIn e = .ok c) :
    VR (evalWith (valuationOf σ)) e c := by
  refine ⟨by rw [← evalIn_eq_evalWith σ e hw hd]; exact hc, ?_⟩
  rcases evalIn_wellSorted σ e hw hd with ⟨c', h1, h2, _⟩ | h
  · rw [hc] at h1; cases h1; exact h2
  · rw [hc] at h; cases h

/-! ### `State::symbolize_and_eval` as a value relation -/

/-- `e` symbolises (in `σ`) to an expression of the same width which evaluates to `c`, of that width -/
def VRσ (σ : State) (e : Expr) (c : Const) : Prop :=
  ∃ e0, σ.symbolize e = .ok e0 ∧ e0.bits = e.bits ∧ e0.eval = .ok c ∧ c.bits = e.bits

theorem VRσ.sound {σ : State} {e : Expr} {c : Const} (h : VRσ σ e c) : σ.evalIn e = .ok c := by
  obtain ⟨e0, hs, _, he, _⟩ := h
  simp only [State.evalIn, hs, Res.bind_ok, he]

/-- every well-sorted expression that evaluates in a state defining its scalars is related to its value -/
theorem vrσ_of_wellSorted (σ : State) (e : Expr) (hw : e.wellSorted = true)
    (hd : ∀ s ∈ e.scalars, σ.Defines s) {c : Const} (hc : σ.evalIn e = .ok c) : VRσ σ e c := by
  obtain ⟨e0, hs, hb, _⟩ := symbolize_evalWith σ e hw hd
  have he : e0.eval = .ok c := by simpa only [State.evalIn, hs, Res.bind_ok] using hc
  refine ⟨e0, hs, hb, he, ?_⟩
  rcases evalIn_wellSorted σ e hw hd with ⟨c', h1, h2, _⟩ | h
  · rw [hc] at h1; cases h1; exact h2
  · rw [hc] at h; cases h

theorem valueRel_state (σ : State) : ValueRel (VRσ σ) := by
  refine ⟨fun ⟨_, _, _, _, hb⟩ => hb, fun c => ⟨.const c, rfl, rfl, rfl, rfl⟩, ?_, ?_, ?_, ?_, ?_⟩
  · -- trun
    rintro e c ⟨e0, hs, hb0, he, hb⟩ n
    rw [vtrun_eq, hb]
    unfold etrun Expr.mkExt
    by_cases hc : e.bits ≤ n ∨ e.bits = 0
    · simp only [hc, if_true]; exact RelRes.err
    · simp only [hc, if_false]
      refine RelRes.ok ⟨.ext .trun n e0, ?_, rfl, ?_, rfl⟩
      · have : ¬ (e0.bits ≤ n ∨ e0.bits = 0) := by rw [hb0]; exact hc
        simp [State.symbolize, hs, Expr.mkExt, this]
      · have : ¬ n ≥ c.bits := by omega
        simp [Expr.eval, he, ExtOp.apply, Const.trun, this]
  · -- zext
    rintro e c ⟨e0, hs, hb0, he, hb⟩ n
    rw [vzext_eq, hb]
    unfold ezext Expr.mkExt
    by_cases hc : e.bits ≥ n ∨ e.bits = 0
    · simp only [hc, if_true]; exact RelRes.err
    · simp only [hc, if_false]
      refine RelRes.ok ⟨.ext .zext n e0, ?_, rfl, ?_, rfl⟩
      · have : ¬ (e0.bits ≥ n ∨ e0.bits = 0) := by rw [hb0]; exact hc
        simp [State.symbolize, hs, Expr.mkExt, this]
      · have : ¬ n ≤ c.bits := by omega
        simp [Expr.eval, he, ExtOp.apply, Const.zext, this]
  · -- shr
    rintro e c ⟨e0, hs, hb0, he, hb⟩ n
    rw [vshr_eq]
    have h1 : eshr e n = .ok (.bin .shr e (Expr.ec n e.bits)) := by
      simp [eshr, Expr.mkBin, Expr.bits, Expr.ec, Const.new]
    rw [h1]
    obtain ⟨r, h2⟩ : ∃ r, Const.shr c (Const.new (n % 2 ^ 64) c.bits) = .ok (Const.new r c.bits) := by
      unfold Const.shr
      rw [if_neg (by simp [Const.new])]
      exact ⟨_, rfl⟩
    rw [h2]
    refine RelRes.ok ⟨.bin .shr e0 (Expr.ec n e.bits), ?_, ?_, ?_, ?_⟩
    · simp [State.symbolize, hs, Expr.ec, Expr.mkBin, Expr.bits, hb0, Const.new]
    · simp only [Expr.bits, BinOp.isCmp, hb0]; rfl
    · simp only [Expr.eval, he, Res.bind_ok, Expr.ec, ← hb]
      exact h2
    · simp [Const.new, Expr.bits, BinOp.isCmp, hb]
  · -- shl
    rintro e c ⟨e0, hs, hb0, he, hb⟩ n
    rw [vshl_eq]
    have h1 : eshl e n = .ok (.bin .shl e (Expr.ec n e.bits)) := by
      simp [eshl, Expr.mkBin, Expr.bits, Expr.ec, Const.new]
    rw [h1]
    obtain ⟨r, h2⟩ : ∃ r, Const.shl c (Const.new (n % 2 ^ 64) c.bits) = .ok (Const.new r c.bits) := by
      unfold Const.shl
      rw [if_neg (by simp [Const.new])]
      exact ⟨_, rfl⟩
    rw [h2]
    refine RelRes.ok ⟨.bin .shl e0 (Expr.ec n e.bits), ?_, ?_, ?_, ?_⟩
    · simp [State.symbolize, hs, Expr.ec, Expr.mkBin, Expr.bits, hb0, Const.new]
    · simp only [Expr.bits, BinOp.isCmp, hb0]; rfl
    · simp only [Expr.eval, he, Res.bind_ok, Expr.ec, ← hb]
      exact h2
    · simp [Const.new, Expr.bits, BinOp.isCmp, hb]
  · -- or
    rintro a b c d ⟨a0, has, hab0, hae, hab⟩ ⟨b0, hbs, hbb0, hbe, hbb⟩
    rw [vor_eq]
    unfold eor Expr.mkBin Const.or
    rw [hab, hbb]
    by_cases hc : a.bits = b.bits
    · simp only [hc, ne_eq, not_true_eq_false, if_false]
      refine RelRes.ok ⟨.bin .or a0 b0, ?_, ?_, ?_, ?_⟩
      · simp [State.symbolize, has, hbs, Expr.mkBin, hab0, hbb0, hc]
      · simp only [Expr.bits, BinOp.isCmp, hab0]; rfl
      · simp only [Expr.eval, hae, hbe, Res.bind_ok]
        simp [BinOp.apply, Const.or, hab, hbb, hc]
      · show b.bits = a.bits; exact hc.symm
    · simp only [ne_eq, hc, not_false_eq_true, if_true]; exact RelRes.err

/-! ### histories of well-sorted stores, evaluated in a state -/

/-- the operations the Expression-memory history theorem speaks about: stored expressions are
    well-sorted, read only scalars the state defines, evaluate (no division by zero), and have widths and
    ranges inside the property's domain -/
def EOp.okIn (σ : State) : EOp → Prop
  | .store a e => e.wellSorted = true ∧ (∀ s ∈ e.scalars, σ.Defines s) ∧ (∃ c, σ.evalIn e = .ok c) ∧
      e.bits < 2 ^ 63 ∧ a + e.bits / 8 ≤ U64
  | .load a n => n % 8 = 0 ∧ 0 < n ∧ n < 2 ^ 63 ∧ a + n / 8 ≤ U64
  | .setPerm _ _ _ => True

theorem exists_ops (σ : State) : ∀ (eops : List EOp), (∀ o ∈ eops, o.okIn σ) →
    ∃ ops, OpsRel (VRσ σ) eops ops ∧ ∀ op ∈ ops, op.inDomain := by
  intro eops
  induction eops with
  | nil => intro _; exact ⟨[], OpsRel.nil, fun _ h => by cases h⟩
  | cons o t ih =>
    intro h
    obtain ⟨ops, hr, hd⟩ := ih (fun o' ho' => h o' (List.mem_cons_of_mem _ ho'))
    have ho := h o (List.mem_cons_self ..)
    cases o with
    | store a e =>
      obtain ⟨hw, hdef, ⟨c, hc⟩, hsm, hfit⟩ := ho
      have hv := vrσ_of_wellSorted σ e hw hdef hc
      have hb : c.bits = e.bits := (valueRel_state σ).bits hv
      have hg : c.Good := by
        rcases evalIn_wellSorted σ e hw hdef with ⟨c', h1, _, h3⟩ | h'
        · rw [hc] at h1; cases h1; exact h3
        · rw [hc] at h'; cases h'
      refine ⟨.store a c :: ops, OpsRel.store hv hr, ?_⟩
      intro op hop
      simp only [List.mem_cons] at hop
      rcases hop with rfl | hop
      · exact ⟨hg.wf, by rw [hb]; exact hsm, by rw [hb]; exact hfit⟩
      · exact hd op hop
    | load a n =>
      refine ⟨.load a n :: ops, OpsRel.load hr, ?_⟩
      intro op hop
      simp only [List.mem_cons] at hop
      rcases hop with rfl | hop
      · exact ho
      · exact hd op hop
    | setPerm a len p =>
      refine ⟨.setPerm a len p :: ops, OpsRel.setPerm hr, ?_⟩
      intro op hop
      simp only [List.mem_cons] at hop
      rcases hop with rfl | hop
      · trivial
      · exact hd op hop

end Paged
end Falcon
