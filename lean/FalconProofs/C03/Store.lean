/-
  FalconProofs.C03.Store — str/strb/strh (integer) with an immediate addressing mode: the block the lifter
  emits against the pseudocode body `A64.ldstInt … .store …`, and the class theorem.
-/
import FalconProofs.C03.MemW

namespace Falcon
namespace C03
open Const A64Lift
open A64 (fld bit)

theorem abs_store {σ : State} {s : A64.St} (ha : Abs σ s) (a : Nat) (c : Const) :
    Abs { σ with mem := σ.mem.write a (bytesOf σ.endian c) }
        { s with mem := s.mem.write a (bytesOf (if s.big then Endian.big else Endian.little) c) } where
  x := ha.x
  sp := ha.sp
  n := ha.n
  z := ha.z
  c := ha.c
  v := ha.v
  mem := by show σ.mem.write a _ = s.mem.write a _; rw [ha.mem, ha.endian]
  endian := ha.endian

theorem X_setWidth (s : A64.St) (t N M : Nat) (h : M ≤ N) (hN : N ≤ 64) :
    (A64.X s t N).setWidth M = A64.X s t M := by
  unfold A64.X
  by_cases h31 : t = 31
  · simp [h31]
  · simp only [h31, ↓reduceIte]
    apply BitVec.eq_of_toNat_eq
    simp only [BitVec.toNat_setWidth]
    exact Nat.mod_mod_of_dvd _ (Nat.pow_dvd_pow 2 h)

/-- the stored value: `rz regsize t` for str, `trun bits (rz 32 t)` for strb/strh -/
theorem ev_store_value {σ : State} {s : A64.St} (ha : Abs σ s) (size t : Nat) (hs : size < 4) (ht : t < 32) :
    Ev σ (if size ≥ 2 then rz (if size = 3 then 64 else 32) t else .ext .trun (8 <<< size) (rz 32 t))
      (8 * (1 <<< size)) (A64.X s t (8 * (1 <<< size))) := by
  have : size = 0 ∨ size = 1 ∨ size = 2 ∨ size = 3 := by omega
  rcases this with rfl | rfl | rfl | rfl
  · have e := Ev.trun 8 (by decide) (by decide) (ev_rz ha (Or.inl rfl : (32 : Nat) = 32 ∨ 32 = 64) ht)
    rw [show (A64.X s t 32).truncate 8 = A64.X s t 8 from X_setWidth s t 32 8 (by decide) (by decide)] at e
    exact e
  · have e := Ev.trun 16 (by decide) (by decide) (ev_rz ha (Or.inl rfl : (32 : Nat) = 32 ∨ 32 = 64) ht)
    rw [show (A64.X s t 32).truncate 16 = A64.X s t 16 from X_setWidth s t 32 16 (by decide) (by decide)] at e
    exact e
  · exact ev_rz ha (Or.inl rfl : (32 : Nat) = 32 ∨ 32 = 64) ht
  · exact ev_rz ha (Or.inr rfl : (64 : Nat) = 32 ∨ 64 = 64) ht

theorem store_tail {σ : State} {s : A64.St} (ha : Abs σ s) (addr n t off sz : Nat) (hsz : 0 < sz)
    (hn : n < 32) (hoff : off < 2 ^ 64) (hpc : s.pc = BitVec.ofNat 64 addr) (haddr : addr + 4 < 2 ^ 64)
    (ve : Expr) (hv : Ev σ ve (8 * sz) (A64.X s t (8 * sz)))
    (av : BitVec 64) (ae : Expr) (hae : Ev σ ae 64 av) (hnowrap : av.toNat + sz ≤ 2 ^ 64)
    (s1 : A64.St) (hw : A64.memWrite s av sz (A64.X s t (8 * sz)) = some s1) (s' : A64.St) (wb : Bool)
    (hs : s' = A64.next (if wb = true then A64.setXSP s1 n (A64.XSP s n 64 + BitVec.ofNat 64 off) else s1)) :
    ∃ σ', runBTR (straight addr
        ([.store ae ve] ++ (if wb = true then [Op.assign (sc (sName n) 64)
               (.bin .add (.scalar (sc (sName n) 64)) (A64Lift.k off 64))] else []))) σ
        = .next σ' [s'.pc.toNat] ∧ Abs σ' s' := by
  have hs1 := memWrite_mem s av sz _ s1 hnowrap hw
  have hex := exec_store hsz hae hv hnowrap
  have a1 := abs_store ha av.toNat (ofBV (A64.X s t (8 * sz)))
  rw [← hs1] at a1
  have hpc1 : s1.pc = s.pc := by rw [hs1]
  cases hwb : wb
  · subst hs
    simp only [hwb, Bool.false_eq_true, ↓reduceIte, List.append_nil]
    refine ⟨_, ?_, abs_next a1⟩
    rw [runBTR_straight _ _ _ (by simp)]
    simp only [execOps]
    rw [hex]; dsimp only
    show _ = LiftOut.next _ [(s1.pc + 4).toNat]
    rw [hpc1, pc_next s addr hpc haddr]
  · subst hs
    simp only [hwb, ↓reduceIte]
    have hbase : Ev { σ with mem := σ.mem.write av.toNat (bytesOf σ.endian (ofBV (A64.X s t (8 * sz)))) }
        (.scalar (sc (sName n) 64)) 64 (A64.XSP s n 64) := by
      have := get_sName a1 hn
      have hx : A64.XSP s1 n 64 = A64.XSP s n 64 := by rw [hs1]; rfl
      rw [hx] at this
      exact Ev.scalar this
    have ewb : Ev _ (.bin .add (.scalar (sc (sName n) 64)) (A64Lift.k off 64)) 64 _ :=
      Ev.add hbase (Ev.lit hoff)
    have a2 := abs_setS a1 hn (A64.XSP s n 64 + BitVec.ofNat 64 off)
    rw [BitVec.setWidth_eq] at a2
    refine ⟨_, ?_, abs_next a2⟩
    rw [runBTR_straight _ _ _ (by simp)]
    simp only [execOps, List.cons_append, List.nil_append]
    rw [hex]; dsimp only
    rw [exec_assign _ ewb]
    show _ = LiftOut.next _ [((A64.setXSP s1 n _).pc + 4).toNat]
    rw [pc_setXSP, hpc1, pc_next s addr hpc haddr]
    rfl

theorem store_block_agrees (σ : State) (s : A64.St) (ha : Abs σ s) (addr mode n t off sz rs : Nat) (sg : Bool)
    (hsz : 0 < sz) (hn : n < 32) (hoff : off < 2 ^ 64) (hmode : mode = 0 ∨ mode = 1 ∨ mode = 3 ∨ mode = 4)
    (hpc : s.pc = BitVec.ofNat 64 addr) (haddr : addr + 4 < 2 ^ 64)
    (ve : Expr) (hv : Ev σ ve (8 * sz) (A64.X s t (8 * sz)))
    (s' : A64.St)
    (hs : A64.ldstInt s .store sg sz rs n t (BitVec.ofNat 64 off)
            (decide (mode = 1 ∨ mode = 3)) (decide (mode = 1)) = .ok s')
    (hnowrap : (if mode = 1 then A64.XSP s n 64 else A64.XSP s n 64 + BitVec.ofNat 64 off).toNat + sz ≤ 2 ^ 64) :
    ∃ σ', runBTR (straight addr ([.store (memOperand mode n off).1 ve] ++ (memOperand mode n off).2)) σ
        = .next σ' [s'.pc.toNat] ∧ Abs σ' s' := by
  have hbase : Ev σ (.scalar (sc (sName n) 64)) 64 (A64.XSP s n 64) := Ev.scalar (get_sName ha hn)
  have hidx : Ev σ (.bin .add (.scalar (sc (sName n) 64)) (A64Lift.k off 64)) 64 (A64.XSP s n 64 + BitVec.ofNat 64 off) :=
    Ev.add hbase (Ev.lit hoff)
  unfold A64.ldstInt at hs
  split at hs
  · cases hs
  simp only [] at hs
  by_cases hpost : mode = 1
  · subst hpost
    simp only [decide_true, ↓reduceIte, Nat.reduceEqDiff, or_false] at hs hnowrap
    cases hwr : A64.memWrite s (A64.XSP s n 64) sz (A64.X s t (8 * sz)) with
    | none => rw [hwr] at hs; cases hs
    | some s1 =>
      rw [hwr] at hs
      exact store_tail ha addr n t off sz hsz hn hoff hpc haddr ve hv _ _ hbase hnowrap s1 hwr s' true
        (by injection hs with hs; rw [← hs]; simp)
  · have hm1 : ¬ mode = 1 := hpost
    simp only [hm1, decide_false, Bool.false_eq_true, ↓reduceIte, false_or] at hs hnowrap
    cases hwr : A64.memWrite s (A64.XSP s n 64 + BitVec.ofNat 64 off) sz (A64.X s t (8 * sz)) with
    | none => rw [hwr] at hs; cases hs
    | some s1 =>
      rw [hwr] at hs
      by_cases hpre : mode = 3
      · subst hpre
        exact store_tail ha addr n t off sz hsz hn hoff hpc haddr ve hv _ _ hidx hnowrap s1 hwr s' true
          (by injection hs with hs; rw [← hs]; simp)
      · have hm : mode = 0 ∨ mode = 4 := by omega
        have hmo : (memOperand mode n off) = (Expr.bin .add (.scalar (sc (sName n) 64)) (A64Lift.k off 64), []) := by
          rcases hm with rfl | rfl <;> rfl
        rw [hmo]
        exact store_tail ha addr n t off sz hsz hn hoff hpc haddr ve hv _ _ hidx hnowrap s1 hwr s' false
          (by injection hs with hs; rw [← hs]; simp [hpre])

theorem ldstImm_store (w : BitVec 32) (addr : Nat) (h26 : bit w 26 = false) (himm : ImmForm w) (sg : Bool) (rs : Nat)
    (hdec : A64.decodeSizeOpc (fld w 31 30) (fld w 23 22) = some (.store, sg, rs)) :
    ldstImm w addr = some (straight addr
      ([.store (memOperand (immMode w) (fld w 9 5) (immOff w)).1
          (if fld w 31 30 ≥ 2 then rz rs (fld w 4 0) else .ext .trun (8 <<< fld w 31 30) (rz 32 (fld w 4 0)))]
       ++ (memOperand (immMode w) (fld w 9 5) (immOff w)).2)) := by
  have hg := ldstImm_guard w himm
  unfold ldstImm immMode immOff
  simp only [h26, Bool.false_eq_true, ↓reduceIte, hdec, hg, decide_eq_true_eq]

theorem decode_store_rs (size opc : Nat) (sg : Bool) (rs : Nat)
    (h : A64.decodeSizeOpc size opc = some (.store, sg, rs)) : rs = if size = 3 then 64 else 32 := by
  unfold A64.decodeSizeOpc at h
  by_cases h2 : opc < 2 <;> by_cases h1 : opc = 1 <;> by_cases h3 : size = 3 <;> by_cases h4 : opc = 3 <;>
    simp [h2, h1, h3, h4] at h <;> (try omega) <;> (try (obtain ⟨_, rfl⟩ := h; simp [h3]))

theorem strImm_agrees (w : BitVec 32) (addr : Nat) (r : BTR) (hc : fld w 29 27 = 0b111) (h25 : bit w 25 = false)
    (h26 : bit w 26 = false) (himm : ImmForm w) (sg : Bool) (rs : Nat)
    (hdec : A64.decodeSizeOpc (fld w 31 30) (fld w 23 22) = some (.store, sg, rs))
    (h : lift w addr = some r) (σ : State) (s : A64.St) (ha : Abs σ s)
    (hpc : s.pc = BitVec.ofNat 64 addr) (haddr : addr + 4 < 2 ^ 64)
    (s' : A64.St) (hs : A64.step w s = .ok s')
    (hnowrap : (immAddr w s).toNat + 1 <<< fld w 31 30 ≤ 2 ^ 64) :
    ∃ σ', runBTR r σ = .next σ' [s'.pc.toNat] ∧ Abs σ' s' := by
  rw [lift_ldstImm w addr hc h25 himm, ldstImm_store w addr h26 himm sg rs hdec] at h
  injection h with h; subst h
  rw [step_ldstSingle w s hc h25, ldstSingle_imm s w h26 himm .store sg rs hdec (by decide)] at hs
  have hsz : fld w 31 30 < 4 := fld_lt w 31 30
  have hrs := decode_store_rs _ _ sg rs hdec
  have hn : fld w 9 5 < 32 := fld_lt w 9 5
  have ht : fld w 4 0 < 32 := fld_lt w 4 0
  have hv := ev_store_value ha (fld w 31 30) (fld w 4 0) hsz ht
  rw [← hrs] at hv
  unfold immAddr at hnowrap
  exact store_block_agrees σ s ha addr (immMode w) _ _ (immOff w) _ rs sg (Nat.pos_of_ne_zero (by
      have : fld w 31 30 = 0 ∨ fld w 31 30 = 1 ∨ fld w 31 30 = 2 ∨ fld w 31 30 = 3 := by omega
      rcases this with h | h | h | h <;> simp [h])) hn (immOff_lt w)
    (immMode_cases w himm) hpc haddr _ hv s' hs hnowrap

end C03
end Falcon
