/-
  FalconProofs.C03.Mov — MOV (register) [ORR alias], MOV (wide immediate) [MOVZ], MOV (inverted wide
  immediate) [MOVN], and NOP.
-/
import FalconProofs.C03.AddSubShift

namespace Falcon
namespace C03
open Const A64Lift
open A64 (fld bit)

theorem nop_agrees (addr : Nat) (σ : State) (s : A64.St) (ha : Abs σ s)
    (hpc : s.pc = BitVec.ofNat 64 addr) (haddr : addr + 4 < 2 ^ 64) :
    ∃ r, lift (0xd503201f#32) addr = some r ∧ Agrees r σ (0xd503201f#32) s := by
  refine ⟨straight addr [.nop], by simp [lift], _, A64.next s, ?_, by simp [A64.step], abs_next ha⟩
  rw [runBTR_straight _ _ _ (by simp)]
  simp only [execOps, execute]
  show LiftOut.next σ [addr + 4] = LiftOut.next σ [(s.pc + 4).toNat]
  rw [pc_next s addr hpc haddr]

theorem step_orrShift (w : BitVec 32) (s : A64.St) (hc : fld w 28 24 = 0b01010) (h29 : fld w 30 29 = 1)
    (h21 : bit w 21 = false) : A64.step w s = A64.orrShift s w (if bit w 31 = true then 64 else 32) := by
  have hnop := nop_not_class hc (by decide)
  have h1 : fld w 28 23 ≠ 0b100010 := by intro h; unfold A64.fld at h hc; omega
  have h2 : fld w 28 23 ≠ 0b100100 := by intro h; unfold A64.fld at h hc; omega
  have h3 : fld w 28 23 ≠ 0b100101 := by intro h; unfold A64.fld at h hc; omega
  unfold A64.step
  simp only [hnop, h1, h2, h3, hc, h29, h21, ↓reduceIte, Bool.false_eq_true, Bool.not_false, and_self,
    show ¬ ((10 : Nat) = 11) by decide]

theorem lift_movReg (w : BitVec 32) (addr : Nat) (hc : fld w 28 24 = 0b01010) : lift w addr = movReg w addr := by
  have hnop := nop_not_class hc (by decide)
  have h1 : fld w 28 23 ≠ 0b100010 := by intro h; unfold A64.fld at h hc; omega
  unfold lift
  simp only [hnop, h1, hc, ↓reduceIte, false_and, show ¬ ((10 : Nat) = 11) by decide]

theorem movReg_agrees (w : BitVec 32) (addr : Nat) (r : BTR) (hc : fld w 28 24 = 0b01010)
    (h : lift w addr = some r) (σ : State) (s : A64.St) (ha : Abs σ s)
    (hpc : s.pc = BitVec.ofNat 64 addr) (haddr : addr + 4 < 2 ^ 64) : Agrees r σ w s := by
  rw [lift_movReg w addr hc] at h
  unfold movReg at h
  simp only [] at h
  split at h
  · rename_i hcond
    obtain ⟨h29, h21, hsh, hi6, hn31⟩ := hcond
    injection h with h; subst h
    unfold Agrees
    have h21' : bit w 21 = false := by simpa using h21
    rw [step_orrShift w s hc h29 h21']
    have hN := width_cases w
    have hd : fld w 4 0 < 32 := fld_lt w 4 0
    have hm : fld w 20 16 < 32 := fld_lt w 20 16
    unfold A64.orrShift
    simp only [hi6, hsh, hn31]
    generalize (if bit w 31 = true then 64 else 32) = N at *
    have h32 : ¬ (N = 32 ∧ 0 ≥ 32) := by omega
    simp only [h32, ↓reduceIte]
    have hval : (A64.X s 31 N ||| A64.shiftReg (A64.X s (fld w 20 16) N) (A64.decodeShift 0) 0) =
        A64.X s (fld w 20 16) N := by
      simp [A64.X, A64.shiftReg, A64.decodeShift]
    rw [hval]
    refine ⟨_, _, ?_, rfl, abs_next (abs_setZ ha hd _)⟩
    rw [run_setZ (s := s) addr hN _ (ev_rz ha hN hm)]
    show _ = LiftOut.next _ [((A64.setX s (fld w 4 0) (A64.X s (fld w 20 16) N)).pc + 4).toNat]
    rw [pc_setX, pc_next s addr hpc haddr]
  · cases h

theorem step_moveWide (w : BitVec 32) (s : A64.St) (hc : fld w 28 23 = 0b100101) :
    A64.step w s = A64.moveWide s w (if bit w 31 = true then 64 else 32) := by
  have hnop := nop_not_class hc (by decide)
  unfold A64.step
  simp only [hnop, hc, ↓reduceIte, show ¬ ((37 : Nat) = 34) by decide, show ¬ ((37 : Nat) = 36) by decide]

theorem lift_movWide (w : BitVec 32) (addr : Nat) (hc : fld w 28 23 = 0b100101) : lift w addr = movWide w addr := by
  have hnop := nop_not_class hc (by decide)
  have h2 : fld w 28 24 ≠ 0b01011 := by intro h; unfold A64.fld at h hc; omega
  have h3 : fld w 28 24 ≠ 0b01010 := by intro h; unfold A64.fld at h hc; omega
  unfold lift
  simp only [hnop, hc, h2, h3, ↓reduceIte, show ¬ ((37 : Nat) = 34) by decide, false_and]

theorem movWide_agrees (w : BitVec 32) (addr : Nat) (r : BTR) (hc : fld w 28 23 = 0b100101)
    (h : lift w addr = some r) (σ : State) (s : A64.St) (ha : Abs σ s)
    (hpc : s.pc = BitVec.ofNat 64 addr) (haddr : addr + 4 < 2 ^ 64) : Agrees r σ w s := by
  rw [lift_movWide w addr hc] at h
  unfold Agrees
  rw [step_moveWide w s hc]
  have hN := width_cases w
  have hd : fld w 4 0 < 32 := fld_lt w 4 0
  have hi : fld w 20 5 < 65536 := fld_lt w 20 5
  have hhw : fld w 22 21 < 4 := fld_lt w 22 21
  unfold movWide at h
  unfold A64.moveWide
  simp only [] at h ⊢
  generalize (if bit w 31 = true then 64 else 32) = N at *
  generalize fld w 4 0 = d at *
  generalize fld w 20 5 = imm16 at *
  generalize fld w 22 21 = hw at *
  generalize fld w 30 29 = opc at *
  have hfin : ∀ (v : BitVec N) (a : Nat), a < 2 ^ N → BitVec.ofNat N a = v →
      ∃ σ' s', runBTR (straight addr [setZ N d (k a N)]) σ = LiftOut.next σ' [s'.pc.toNat] ∧
        A64.Outcome.ok (A64.next (A64.setX s d v)) = A64.Outcome.ok s' ∧ Abs σ' s' := by
    intro v a hlt hv
    subst hv
    refine ⟨_, _, ?_, rfl, abs_next (abs_setZ ha hd _)⟩
    rw [show k a N = Expr.const ⟨N, a⟩ from rfl, run_setZ (s := s) addr hN d (Ev.lit hlt)]
    show _ = LiftOut.next _ [((A64.setX s d (BitVec.ofNat N a)).pc + 4).toNat]
    rw [pc_setX, pc_next s addr hpc haddr]
  have hshl : imm16 <<< (16 * hw) < 2 ^ N ∨ (N = 32 ∧ hw ≥ 2) := by
    rcases hN with rfl | rfl
    · by_cases h2 : hw ≥ 2
      · exact Or.inr ⟨rfl, h2⟩
      · left
        have : hw = 0 ∨ hw = 1 := by omega
        rcases this with rfl | rfl <;> simp [Nat.shiftLeft_eq] <;> omega
    · left
      have : hw = 0 ∨ hw = 1 ∨ hw = 2 ∨ hw = 3 := by omega
      rcases this with rfl | rfl | rfl | rfl <;> simp [Nat.shiftLeft_eq] <;> omega
  split at h
  · cases h
  · rename_i h32
    have hlt : imm16 <<< (16 * hw) < 2 ^ N := by
      rcases hshl with h' | h'
      · exact h'
      · exact absurd h' h32
    have hshv : BitVec.ofNat N (imm16 <<< (16 * hw)) = BitVec.ofNat N imm16 <<< (hw * 16) := by
      apply BitVec.eq_of_toNat_eq
      simp only [BitVec.toNat_shiftLeft, BitVec.toNat_ofNat, Nat.shiftLeft_eq, Nat.mul_comm 16 hw]
      rw [Nat.mod_mul_mod]
    split at h
    · cases h
    · split at h
      · -- movz
        rename_i hopc
        injection h with h; subst h
        have h1 : ¬ opc = 1 := by omega
        have h0 : ¬ opc = 0 := by omega
        simp only [h1, h32, h0, hopc, ↓reduceIte]
        exact hfin _ _ hlt hshv
      · split at h
        · rename_i hopc
          split at h
          · cases h
          · -- movn
            injection h with h; subst h
            have h1 : ¬ opc = 1 := by omega
            simp only [h1, h32, hopc, ↓reduceIte]
            have hpos := Nat.two_pow_pos N
            generalize imm16 <<< (16 * hw) = A at *
            refine hfin _ _ (by omega) ?_
            rw [← hshv]
            apply BitVec.eq_of_toNat_eq
            rw [BitVec.toNat_not, BitVec.toNat_ofNat, BitVec.toNat_ofNat, Nat.mod_eq_of_lt hlt,
              Nat.mod_eq_of_lt (by omega)]
        · cases h

end C03
end Falcon
