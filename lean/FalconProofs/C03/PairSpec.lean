/-
  FalconProofs.C03.PairSpec — preliminaries for the pair theorems: temporaries of different addresses have
  different names, single-bit fields, and the integer part of `A64.ldstPair` in parametrised form.
-/
import FalconProofs.C03.AddSubExt2

namespace Falcon
namespace C03
open Const A64Lift
open A64 (fld bit)

/-! ### `temp_0x<HEX>` is injective in the address -/

def hexValU (c : Char) : Nat := if c.isDigit then c.toNat - 48 else c.toNat - 55

def ofHexU (l : List Char) : Nat := l.foldl (fun acc c => acc * 16 + hexValU c) 0

theorem hexValU_digit : ∀ d, d < 16 → hexValU (Nat.digitChar d).toUpper = d := by decide

theorem ofHexU_toDigits (n : Nat) : ofHexU ((Nat.toDigits 16 n).map Char.toUpper) = n := by
  induction n using Nat.strongRecOn with
  | _ n ih =>
    rw [Nat.toDigits_eq_if (by decide : 1 < 16)]
    split
    · rename_i h
      simp [ofHexU, hexValU_digit n h]
    · rename_i h
      have hlt : n / 16 < n := Nat.div_lt_self (by omega) (by decide)
      have := ih (n / 16) hlt
      simp only [List.map_append, List.map_cons, List.map_nil, ofHexU, List.foldl_append, List.foldl_cons,
        List.foldl_nil] at this ⊢
      rw [this, hexValU_digit _ (Nat.mod_lt n (by decide))]
      try omega

theorem temp_name_inj {a a' b b' : Nat} (h : (temp a b).name = (temp a' b').name) : a = a' := by
  have h1 := congrArg String.toList h
  rw [temp_name_toList, temp_name_toList] at h1
  have h2 : (Nat.toDigits 16 a).map Char.toUpper = (Nat.toDigits 16 a').map Char.toUpper := by
    simpa using h1
  have := congrArg ofHexU h2
  rwa [ofHexU_toDigits, ofHexU_toDigits] at this

theorem temp_succ_ne (a b b' : Nat) : (temp a b).name ≠ (temp (a + 1) b').name :=
  fun h => by have := temp_name_inj h; omega

/-! ### one-bit fields -/

theorem fld_bit (w : BitVec 32) (i : Nat) : fld w i i = if bit w i = true then 1 else 0 := by
  unfold A64.fld A64.bit
  rw [Nat.testBit_eq_decide_div_mod_eq, Nat.shiftRight_eq_div_pow]
  have : 2 ^ (i + 1 - i) = 2 := by rw [show i + 1 - i = 1 by omega]
  rw [this]
  by_cases h : w.toNat / 2 ^ i % 2 = 1
  · simp [h]
  · have : w.toNat / 2 ^ i % 2 = 0 := by omega
    simp [this]

theorem bit_false_of_fld {w : BitVec 32} {i : Nat} (h : fld w i i = 0) : bit w i = false := by
  rw [fld_bit] at h
  cases hb : bit w i
  · rfl
  · simp [hb] at h

theorem bit_true_of_fld {w : BitVec 32} {i : Nat} (h : fld w i i = 1) : bit w i = true := by
  rw [fld_bit] at h
  cases hb : bit w i
  · simp [hb] at h
  · rfl

/-! ### the integer part of `A64.ldstPair` -/

def pairBody (s : A64.St) (load signed : Bool) (sz n t t2 : Nat) (offset : BitVec 64) (wback postindex : Bool) :
    A64.Outcome :=
  if wback = true ∧ (t = n ∨ t2 = n) ∧ n ≠ 31 then .unpredictable "writeback-base-is-transfer-register"
  else if load = true ∧ t = t2 then .unpredictable "ldp-rt-equals-rt2"
  else
    let base : BitVec 64 := A64.XSP s n 64
    let address := if postindex = true then base else base + offset
    let wb (s' : A64.St) : A64.St :=
      if wback = true then A64.setXSP s' n (if postindex = true then address + offset else address) else s'
    if load = true then
      match A64.memRead s address sz, A64.memRead s (address + BitVec.ofNat 64 sz) sz with
      | some d1, some d2 =>
        .ok (A64.next (wb (if signed = true then A64.setX (A64.setX s t (d1.signExtend 64)) t2 (d2.signExtend 64)
                           else A64.setX (A64.setX s t d1) t2 d2)))
      | _, _ => .fault "translation"
    else
      if A64.mapped s.mem address (2 * sz) = true then
        match A64.memWrite s address sz (A64.X s t (8 * sz)) with
        | none => .fault "translation"
        | some s1 =>
          match A64.memWrite s1 (address + BitVec.ofNat 64 sz) sz (A64.X s t2 (8 * sz)) with
          | none => .fault "translation"
          | some s2 => .ok (A64.next (wb s2))
      else .fault "translation"

/-- is the word an integer pair the pseudocode defines (not STGP, not the unallocated `opc`) -/
def PairOK (w : BitVec 32) : Prop :=
  fld w 31 30 ≠ 3 ∧ ¬ (fld w 31 30 = 1 ∧ (bit w 22 = false ∨ fld w 25 23 = 0))

theorem ldstPair_int (s : A64.St) (w : BitVec 32) (h26 : bit w 26 = false) (hm : fld w 25 23 ≤ 3) (hok : PairOK w) :
    A64.ldstPair s w =
      pairBody s (bit w 22) (decide (fld w 31 30 = 1)) (1 <<< (2 + fld w 31 30 / 2)) (fld w 9 5) (fld w 4 0)
        (fld w 14 10) (A64.sext64 (fld w 21 15) 7 (2 + fld w 31 30 / 2))
        (decide (fld w 25 23 = 1 ∨ fld w 25 23 = 3)) (decide (fld w 25 23 = 1)) := by
  obtain ⟨hopc, hsig⟩ := hok
  have h1 : ¬ (fld w 25 23 > 3 ∨ fld w 31 30 = 3) := by omega
  have h2 : ¬ (fld w 31 30 = 1 ∧ ((!bit w 22) = true ∨ fld w 25 23 = 0)) := by
    intro hh; apply hsig; refine ⟨hh.1, ?_⟩
    rcases hh.2 with h | h
    · left; simpa using h
    · right; exact h
  unfold A64.ldstPair pairBody
  revert h26
  generalize bit w 26 = v
  intro h26
  subst h26
  simp only [h1, h2, ↓reduceIte, Bool.not_false, Bool.false_eq_true, true_and, decide_eq_true_eq]
  rfl

end C03
end Falcon
