/-
  FalconProofs.C03.PairStore — STP/STNP (integer): the block the lifter emits against the pseudocode body.
-/
import FalconProofs.C03.PairLoad

namespace Falcon
namespace C03
open Const A64Lift
open A64 (fld bit)

theorem pair_store_tail {σ : State} {s : A64.St} (ha : Abs σ s) (addr n t t2 off sz : Nat)
    (hsz : sz = 4 ∨ sz = 8) (hn : n < 32) (ht : t < 32) (ht2 : t2 < 32) (hoff : off < 2 ^ 64)
    (hpc : s.pc = BitVec.ofNat 64 addr) (haddr : addr + 4 < 2 ^ 64)
    (av : BitVec 64) (ae : Expr) (hae : RegExpr s ae 64 av)
    (hw1 : av.toNat + sz ≤ 2 ^ 64) (hw2 : (av + BitVec.ofNat 64 sz).toNat + sz ≤ 2 ^ 64)
    (s1 s2 : A64.St) (hm1 : A64.memWrite s av sz (A64.X s t (8 * sz)) = some s1)
    (hm2 : A64.memWrite s1 (av + BitVec.ofNat 64 sz) sz (A64.X s t2 (8 * sz)) = some s2)
    (s' : A64.St) (wb : Bool)
    (hs : s' = A64.next (if wb = true then A64.setXSP s2 n (A64.XSP s n 64 + BitVec.ofNat 64 off) else s2)) :
    ∃ σ', runBTR (straight addr
        ([.store ae (rz (8 * sz) t), .store (.bin .add ae (A64Lift.k sz 64)) (rz (8 * sz) t2)]
         ++ (if wb = true then [Op.assign (sc (sName n) 64)
               (.bin .add (.scalar (sc (sName n) 64)) (A64Lift.k off 64))] else []))) σ
        = .next σ' [s'.pc.toNat] ∧ Abs σ' s' := by
  have hk0 : 0 < sz := by omega
  have hN : 8 * sz = 32 ∨ 8 * sz = 64 := by omega
  have hszlt : sz < 2 ^ 64 := by omega
  -- first store
  have hs1 := memWrite_mem s av sz _ s1 hw1 hm1
  have hex1 := exec_store hk0 (hae σ s ha rfl rfl) (ev_rz ha hN ht) hw1
  have a1 := abs_store ha av.toNat (ofBV (A64.X s t (8 * sz)))
  rw [← hs1] at a1
  have hx1 : s1.x = s.x := by rw [hs1]
  have hsp1 : s1.sp = s.sp := by rw [hs1]
  -- second store
  have hs2 := memWrite_mem s1 (av + BitVec.ofNat 64 sz) sz _ s2 hw2 hm2
  have e2 : Ev _ (.bin .add ae (A64Lift.k sz 64)) 64 (av + BitVec.ofNat 64 sz) :=
    Ev.add (hae _ s1 a1 hx1 hsp1) (Ev.lit hszlt)
  have ev2 := ev_rz a1 hN ht2
  rw [X_congr hx1] at ev2
  have hex2 := exec_store hk0 e2 ev2 hw2
  have a2 := abs_store a1 (av + BitVec.ofNat 64 sz).toNat (ofBV (A64.X s t2 (8 * sz)))
  rw [← hs2] at a2
  have hpc2 : s2.pc = s.pc := by rw [hs2, hs1]
  cases hwb : wb
  · subst hs
    simp only [hwb, Bool.false_eq_true, ↓reduceIte, List.append_nil]
    refine ⟨_, ?_, abs_next a2⟩
    rw [runBTR_straight _ _ _ (by simp)]
    simp only [execOps]
    rw [hex1]; dsimp only
    rw [hex2]; dsimp only
    show _ = LiftOut.next _ [(s2.pc + 4).toNat]
    rw [hpc2, pc_next s addr hpc haddr]
  · subst hs
    simp only [hwb, ↓reduceIte]
    have hbase := Ev.scalar (s := sc (sName n) 64) (get_sName a2 hn)
    have hx : A64.XSP s2 n 64 = A64.XSP s n 64 := by rw [hs2, hs1]; rfl
    rw [hx] at hbase
    have ewb : Ev _ (.bin .add (.scalar (sc (sName n) 64)) (A64Lift.k off 64)) 64 _ :=
      Ev.add hbase (Ev.lit hoff)
    have a3 := abs_setS a2 hn (A64.XSP s n 64 + BitVec.ofNat 64 off)
    rw [BitVec.setWidth_eq] at a3
    refine ⟨_, ?_, abs_next a3⟩
    rw [runBTR_straight _ _ _ (by simp)]
    simp only [execOps, List.cons_append, List.nil_append]
    rw [hex1]; dsimp only
    rw [hex2]; dsimp only
    rw [exec_assign _ ewb]
    show _ = LiftOut.next _ [((A64.setXSP s2 n _).pc + 4).toNat]
    rw [pc_setXSP, hpc2, pc_next s addr hpc haddr]
    rfl

end C03
end Falcon
