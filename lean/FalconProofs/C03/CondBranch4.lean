/-
  FalconProofs.C03.CondBranch4 — class theorem for TBZ/TBNZ.
-/
import FalconProofs.C03.CondBranch3

namespace Falcon
namespace C03
open Const A64Lift
open A64 (fld bit)

theorem fld31 (w : BitVec 32) : fld w 31 31 = if bit w 31 = true then 1 else 0 := by
  unfold A64.fld A64.bit
  rw [Nat.testBit_eq_decide_div_mod_eq, Nat.shiftRight_eq_div_pow]
  have : w.toNat / 2 ^ 31 % 2 ^ (31 + 1 - 31) = w.toNat / 2 ^ 31 % 2 := rfl
  rw [this]
  by_cases h : w.toNat / 2 ^ 31 % 2 = 1
  · simp [h]
  · have : w.toNat / 2 ^ 31 % 2 = 0 := by omega
    simp [this]

/-- `(x AND 2^i) == 0` is the negated bit test -/
theorem and_pow_test {N : Nat} (x : BitVec N) (i : Nat) (hi : i < N) :
    ((x &&& BitVec.ofNat N (2 ^ i)) == 0) = !x.getLsbD i := by
  have htp : BitVec.ofNat N (2 ^ i) = BitVec.twoPow N i := by
    apply BitVec.eq_of_toNat_eq; simp [BitVec.toNat_twoPow]
  rw [htp, BitVec.and_twoPow]
  cases hb : x.getLsbD i
  · simp
  · simp only [↓reduceIte, Bool.not_true]
    have : BitVec.twoPow N i ≠ 0#N := by
      intro h0
      have := congrArg (fun v => v.getLsbD i) h0
      simp [BitVec.getLsbD_twoPow, hi] at this
    simpa using this

theorem step_tbz (w : BitVec 32) (s : A64.St) (hc : fld w 30 25 = 0b011011) : A64.step w s = A64.tbz s w := by
  have hnop := nop_not_class hc (by decide)
  have h1 : fld w 28 23 ≠ 0b100010 := by intro h; unfold A64.fld at h hc; omega
  have h2 : fld w 28 23 ≠ 0b100100 := by intro h; unfold A64.fld at h hc; omega
  have h3 : fld w 28 23 ≠ 0b100101 := by intro h; unfold A64.fld at h hc; omega
  have h5 : fld w 28 24 ≠ 0b01011 := by intro h; unfold A64.fld at h hc; omega
  have h6 : fld w 28 24 ≠ 0b01010 := by intro h; unfold A64.fld at h hc; omega
  have h7 : fld w 30 26 ≠ 0b00101 := by intro h; unfold A64.fld at h hc; omega
  have h8 : fld w 31 25 ≠ 0b0101010 := by intro h; unfold A64.fld at h hc; omega
  unfold A64.step
  simp only [hnop, h1, h2, h3, h5, h6, h7, h8, hc, ↓reduceIte, show ¬ ((27 : Nat) = 26) by decide]

theorem tbz_agrees (w : BitVec 32) (addr : Nat) (r : BTR) (hc : fld w 30 25 = 0b011011)
    (h : lift w addr = some r) (σ : State) (s : A64.St) (ha : Abs σ s)
    (hpc : s.pc = BitVec.ofNat 64 addr) (haddr : addr + 4 < 2 ^ 64) : Agrees r σ w s := by
  have b1 : fld w 30 26 ≠ 0b00101 := by intro h; unfold A64.fld at h hc; omega
  have b2 : fld w 31 25 ≠ 0b0101010 := by intro h; unfold A64.fld at h hc; omega
  rw [lift_branches_30_25 w addr hc (Or.inr rfl)] at h
  unfold branches at h
  simp only [b1, b2, hc, ↓reduceIte, show ¬ ((27 : Nat) = 26) by decide] at h
  rw [target_eq s addr _ _ hpc] at h
  unfold Agrees
  rw [step_tbz w s hc]
  unfold A64.tbz
  simp only []
  have hN := width_cases w
  have ht : fld w 4 0 < 32 := fld_lt w 4 0
  have hb40 : fld w 23 19 < 32 := fld_lt w 23 19
  have hpos : fld w 31 31 * 32 + fld w 23 19 < (if bit w 31 = true then 64 else 32) := by
    rw [fld31]; cases bit w 31 <;> simp <;> omega
  generalize (fld w 31 31 * 32 + fld w 23 19) = pos at *
  generalize (if bit w 31 = true then 64 else 32) = N at *
  generalize (s.pc + A64.sext64 (fld w 18 5) 14 2) = T at *
  have hlt : 2 ^ pos < 2 ^ N := Nat.pow_lt_pow_right (by decide) hpos
  have ev : Ev σ (.bin .and (rz N (fld w 4 0)) (k (2 ^ pos) N)) N
      (A64.X s (fld w 4 0) N &&& BitVec.ofNat N (2 ^ pos)) := Ev.and (ev_rz ha hN ht) (Ev.lit hlt)
  obtain ⟨hr1, hr2⟩ := run_zero_guards (σ := σ) addr T.toNat (addr + 4) N _ _ ev
  rw [and_pow_test _ _ hpos] at hr1 hr2
  cases h24 : bit w 24 <;> simp only [h24, Bool.false_eq_true, ↓reduceIte] at h ⊢
  · -- tbz
    injection h with h; subst h
    cases hz : (A64.X s (fld w 4 0) N).getLsbD pos
    · simp only [hz, Bool.not_false, ↓reduceIte] at hr2 ⊢
      exact ⟨σ, _, hr2, by simp [A64.branchTo], abs_pc ha _⟩
    · simp only [hz, Bool.not_true, Bool.false_eq_true, ↓reduceIte] at hr2 ⊢
      refine ⟨σ, _, ?_, by simp, abs_next ha⟩
      rw [hr2, next_pc s addr hpc haddr]
  · -- tbnz
    injection h with h; subst h
    cases hz : (A64.X s (fld w 4 0) N).getLsbD pos
    · simp only [hz, Bool.not_false, ↓reduceIte] at hr1 ⊢
      refine ⟨σ, _, ?_, by simp, abs_next ha⟩
      rw [hr1, next_pc s addr hpc haddr]
    · simp only [hz, Bool.not_true, Bool.false_eq_true, ↓reduceIte] at hr1 ⊢
      exact ⟨σ, _, hr1, by simp [A64.branchTo], abs_pc ha _⟩

end C03
end Falcon
