/-
  FalconProofs.C03.LoadImm — the class theorem for the integer loads with an immediate addressing mode.
-/
import FalconProofs.C03.LdStDecode

namespace Falcon
namespace C03
open Const A64Lift
open A64 (fld bit)

theorem ldstImm_guard (w : BitVec 32) (himm : ImmForm w) :
    ¬ (¬ fld w 25 24 = 1 ∧ (fld w 25 24 ≠ 0 ∨ bit w 21 = true ∨ (if fld w 25 24 = 1 then 4 else fld w 11 10) = 2)) := by
  rcases himm with h | ⟨h, h21, h2⟩
  · simp [h]
  · simp [h, h21, h2]

theorem ldstImm_load (w : BitVec 32) (addr : Nat) (h26 : bit w 26 = false) (himm : ImmForm w) (sg : Bool) (rs : Nat)
    (hdec : A64.decodeSizeOpc (fld w 31 30) (fld w 23 22) = some (.load, sg, rs)) :
    ldstImm w addr = some (straight addr
      ([.load (temp addr (8 <<< fld w 31 30)) (memOperand (immMode w) (fld w 9 5) (immOff w)).1,
        setZ (if sg = true then rs else 8 <<< fld w 31 30) (fld w 4 0)
          (if sg = true then Expr.ext .sext rs (.scalar (temp addr (8 <<< fld w 31 30)))
           else .scalar (temp addr (8 <<< fld w 31 30)))]
       ++ (memOperand (immMode w) (fld w 9 5) (immOff w)).2)) := by
  have hg := ldstImm_guard w himm
  unfold ldstImm immMode immOff
  simp only [h26, Bool.false_eq_true, ↓reduceIte, hdec, hg, decide_eq_true_eq]

/-- facts about a `size`/`opc` pair that decodes to a load -/
theorem decode_load_facts (size opc : Nat) (hs : size < 4) (sg : Bool) (rs : Nat)
    (h : A64.decodeSizeOpc size opc = some (.load, sg, rs)) :
    (rs = 32 ∨ rs = 64) ∧ 8 * (1 <<< size) ≤ rs ∧ (sg = true → 8 * (1 <<< size) < rs) := by
  have : size = 0 ∨ size = 1 ∨ size = 2 ∨ size = 3 := by omega
  unfold A64.decodeSizeOpc at h
  rcases this with rfl | rfl | rfl | rfl <;>
    (by_cases h2 : opc < 2 <;> by_cases h1 : opc = 1 <;> by_cases h3 : opc = 3 <;>
      simp [h2, h1, h3] at h <;> (try omega) <;>
      (obtain ⟨rfl, rfl⟩ := h; simp))

/-- the effective address of the access -/
def immAddr (w : BitVec 32) (s : A64.St) : BitVec 64 :=
  if immMode w = 1 then A64.XSP s (fld w 9 5) 64 else A64.XSP s (fld w 9 5) 64 + BitVec.ofNat 64 (immOff w)

theorem ldrImm_agrees (w : BitVec 32) (addr : Nat) (r : BTR) (hc : fld w 29 27 = 0b111) (h25 : bit w 25 = false)
    (h26 : bit w 26 = false) (himm : ImmForm w) (sg : Bool) (rs : Nat)
    (hdec : A64.decodeSizeOpc (fld w 31 30) (fld w 23 22) = some (.load, sg, rs))
    (h : lift w addr = some r) (σ : State) (s : A64.St) (ha : Abs σ s)
    (hpc : s.pc = BitVec.ofNat 64 addr) (haddr : addr + 4 < 2 ^ 64)
    (s' : A64.St) (hs : A64.step w s = .ok s')
    (hnowrap : (immAddr w s).toNat + 1 <<< fld w 31 30 ≤ 2 ^ 64) :
    ∃ σ', runBTR r σ = .next σ' [s'.pc.toNat] ∧ Abs σ' s' := by
  rw [lift_ldstImm w addr hc h25 himm, ldstImm_load w addr h26 himm sg rs hdec] at h
  injection h with h; subst h
  rw [step_ldstSingle w s hc h25, ldstSingle_imm s w h26 himm .load sg rs hdec (by decide)] at hs
  have hsz : fld w 31 30 < 4 := fld_lt w 31 30
  obtain ⟨hreg, hkr, hsr⟩ := decode_load_facts _ _ hsz sg rs hdec
  have hn : fld w 9 5 < 32 := fld_lt w 9 5
  have ht : fld w 4 0 < 32 := fld_lt w 4 0
  have hbits : 8 <<< fld w 31 30 = 8 * (1 <<< fld w 31 30) := by
    simp [Nat.shiftLeft_eq]
  have hk : (1 <<< fld w 31 30 = 1 ∨ 1 <<< fld w 31 30 = 2 ∨ 1 <<< fld w 31 30 = 4 ∨ 1 <<< fld w 31 30 = 8) := by
    have : fld w 31 30 = 0 ∨ fld w 31 30 = 1 ∨ fld w 31 30 = 2 ∨ fld w 31 30 = 3 := by omega
    rcases this with h | h | h | h <;> simp [h]
  rw [hbits]
  unfold immAddr at hnowrap
  exact load_block_agrees σ s ha addr (immMode w) _ _ (immOff w) _ rs sg hk hreg hkr hsr hn ht (immOff_lt w)
    (immMode_cases w himm) hpc haddr s' hs hnowrap

end C03
end Falcon
