/-
  FalconProofs.C03.Extend — `ExtendReg` of the pseudocode (`Extend(val<len-1:0> : Zeros(shift), N, unsigned)` with
  `len = Min(len, N - shift)`) is "extend the low `len` bits to N, then shift left" — the form falcon emits.
-/
import FalconProofs.C03.MovBitmask

namespace Falcon
namespace C03
open A64

/-- zero-extension of `y : Zeros(sh)` = shifted zero-extension -/
theorem append_zeros_setWidth {a : Nat} (y : BitVec a) (sh N : Nat) :
    (y ++ (0 : BitVec sh)).setWidth N = y.setWidth N <<< sh := by
  ext i hi
  simp only [BitVec.getElem_setWidth, BitVec.getLsbD_append, BitVec.getLsbD_zero, BitVec.getElem_shiftLeft,
    BitVec.getLsbD_setWidth]
  by_cases h : i < sh <;> simp [h]

/-- sign-extension of `y : Zeros(sh)` = shifted sign-extension (when it fits) -/
theorem append_zeros_signExtend {a : Nat} (y : BitVec a) (sh N : Nat) (ha : 1 ≤ a) (hfit : a + sh ≤ N) :
    (y ++ (0 : BitVec sh)).signExtend N = y.signExtend N <<< sh := by
  ext i hi
  have hmsb : (y ++ (0 : BitVec sh)).msb = y.msb := by
    rw [BitVec.msb_append]; simp [show a ≠ 0 by omega]
  simp only [BitVec.getElem_signExtend, BitVec.getLsbD_append, BitVec.getLsbD_zero, BitVec.getElem_shiftLeft, hmsb,
    BitVec.getLsbD_signExtend]
  by_cases h : i < sh
  · have : i < a + sh := by omega
    simp [h, this, BitVec.getElem_append]
  · by_cases h2 : i < a + sh
    · have : i - sh < a := by omega
      have h3 : i - sh < N := by omega
      simp [h, h2, this, h3, BitVec.getElem_append]
    · have : ¬ (i - sh < a) := by omega
      have h3 : i - sh < N := by omega
      simp [h, h2, this, h3]

/-- the value falcon's `shift()` builds for an extend modifier -/
def extG {N : Nat} (x : BitVec N) (option sh : Nat) : BitVec N :=
  (if 8 <<< (option % 4) < N then
     (if option < 4 then (x.setWidth (8 <<< (option % 4))).setWidth N
      else (x.setWidth (8 <<< (option % 4))).signExtend N)
   else x) <<< sh

theorem shl_of_low {N : Nat} (x : BitVec N) (sh : Nat) (hs : sh ≤ N) :
    (x.setWidth (N - sh)).setWidth N <<< sh = x <<< sh ∧ (x.setWidth (N - sh)).signExtend N <<< sh = x <<< sh := by
  constructor
  · ext i hi
    simp only [BitVec.getElem_shiftLeft, BitVec.getLsbD_setWidth]
    by_cases h : i < sh
    · simp [h]
    · have h1 : i - sh < N := by omega
      have h2 : i - sh < N - sh := by omega
      simp [h, h1, h2]
  · ext i hi
    simp only [BitVec.getElem_shiftLeft, BitVec.getLsbD_signExtend, BitVec.getLsbD_setWidth]
    by_cases h : i < sh
    · simp [h]
    · have h1 : i - sh < N := by omega
      have h2 : i - sh < N - sh := by omega
      simp only [h, decide_false, Bool.not_false, Bool.true_and]
      rw [BitVec.getElem_signExtend, dif_pos h2, BitVec.getElem_setWidth]
      simp [BitVec.getLsbD_eq_getElem h1]

theorem extendReg_eq {N : Nat} (hN : N = 32 ∨ N = 64) (x : BitVec N) (option sh : Nat) (hs : sh ≤ 4) :
    A64.extendReg x option sh = extG x option sh := by
  unfold A64.extendReg extG
  simp only []
  have hl0 : 8 <<< (option % 4) = 8 ∨ 8 <<< (option % 4) = 16 ∨ 8 <<< (option % 4) = 32 ∨ 8 <<< (option % 4) = 64 := by
    have : option % 4 = 0 ∨ option % 4 = 1 ∨ option % 4 = 2 ∨ option % 4 = 3 := by omega
    rcases this with h | h | h | h <;> simp [h]
  generalize 8 <<< (option % 4) = len0 at *
  by_cases hlt : len0 < N
  · have hm : min len0 (N - sh) = len0 := by
      apply Nat.min_eq_left
      rcases hN with rfl | rfl <;> omega
    generalize min len0 (N - sh) = len at *
    subst hm
    simp only [hlt, ↓reduceIte]
    by_cases hu : option < 4
    · simp only [hu, decide_true, ↓reduceIte]
      exact append_zeros_setWidth _ _ _
    · simp only [hu, decide_false, Bool.false_eq_true, ↓reduceIte]
      exact append_zeros_signExtend _ _ _ (by omega) (by rcases hN with rfl | rfl <;> omega)
  · have hm : min len0 (N - sh) = N - sh := by
      apply Nat.min_eq_right; omega
    generalize min len0 (N - sh) = len at *
    subst hm
    simp only [hlt, ↓reduceIte]
    have hsN : sh ≤ N := by rcases hN with rfl | rfl <;> omega
    by_cases hu : option < 4
    · simp only [hu, decide_true, ↓reduceIte]
      rw [append_zeros_setWidth]; exact (shl_of_low x sh hsN).1
    · simp only [hu, decide_false, Bool.false_eq_true, ↓reduceIte]
      rw [append_zeros_signExtend _ _ _ (by rcases hN with rfl | rfl <;> omega) (by omega)]
      exact (shl_of_low x sh hsN).2

end C03
end Falcon
