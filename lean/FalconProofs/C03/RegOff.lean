/-
  FalconProofs.C03.RegOff — register-offset loads and stores `[Xn|SP, Xm{, lsl #s}]`, `[Xn|SP, Wm|Xm, uxtw|sxtw|sxtx {#s}]`.
-/
import FalconProofs.C03.Body

namespace Falcon
namespace C03
open Const A64Lift
open A64 (fld bit)

/-- the word is a register-offset form with an allocated extend option -/
def RegForm (w : BitVec 32) : Prop :=
  fld w 25 24 = 0 ∧ bit w 21 = true ∧ fld w 11 10 = 2 ∧ ¬ fld w 15 13 % 4 < 2

/-- the offset of the access -/
def regOff (w : BitVec 32) (s : A64.St) : BitVec 64 :=
  A64.extendReg (A64.X s (fld w 20 16) 64) (fld w 15 13) (if bit w 12 = true then fld w 31 30 else 0)

theorem ldstSingle_reg (s : A64.St) (w : BitVec 32) (h26 : bit w 26 = false) (hreg : RegForm w)
    (memop : A64.MemOp) (sg : Bool) (rs : Nat)
    (hdec : A64.decodeSizeOpc (fld w 31 30) (fld w 23 22) = some (memop, sg, rs)) (hmem : memop ≠ .prefetch) :
    A64.ldstSingle s w =
      A64.ldstInt s memop sg (1 <<< fld w 31 30) rs (fld w 9 5) (fld w 4 0) (regOff w s) false false := by
  obtain ⟨h24, h21, h10, hopt⟩ := hreg
  unfold A64.ldstSingle regOff
  simp only [h26, Bool.false_eq_true, false_and, ↓reduceIte, hdec, hmem, h24, h21, h10, hopt,
    show ¬ ((0 : Nat) = 1) by decide, ne_eq, not_true_eq_false, Bool.not_true, and_false]

theorem lift_ldstReg (w : BitVec 32) (addr : Nat) (hc : fld w 29 27 = 0b111) (h25 : bit w 25 = false)
    (h26 : bit w 26 = false) (hreg : RegForm w) :
    lift w addr = ldstBody addr (fld w 31 30) (fld w 23 22) (fld w 4 0)
      (Expr.bin .add (.scalar (sc (sName (fld w 9 5)) 64))
        (regOffset (fld w 20 16) (fld w 15 13) (if bit w 12 = true then fld w 31 30 else 0) (bit w 12))) [] := by
  obtain ⟨h24, h21, h10, hopt⟩ := hreg
  rw [lift_ldstSingleM w addr hc h25]
  unfold ldstSingleM ldstReg
  simp only [h24, h21, h10, and_self, ↓reduceIte, h26, Bool.false_eq_true, hopt]

theorem ev_regOffset {σ : State} {s : A64.St} (ha : Abs σ s) (w : BitVec 32) :
    Ev σ (Expr.bin .add (.scalar (sc (sName (fld w 9 5)) 64))
        (regOffset (fld w 20 16) (fld w 15 13) (if bit w 12 = true then fld w 31 30 else 0) (bit w 12))) 64
      (A64.XSP s (fld w 9 5) 64 + regOff w s) := by
  have hn : fld w 9 5 < 32 := fld_lt w 9 5
  have hm : fld w 20 16 < 32 := fld_lt w 20 16
  have ho : fld w 15 13 < 8 := fld_lt w 15 13
  have hsz : fld w 31 30 < 4 := fld_lt w 31 30
  have hamt : (if bit w 12 = true then fld w 31 30 else 0) ≤ 4 := by split <;> omega
  refine Ev.add (regExpr_base s hn σ s ha rfl rfl) ?_
  unfold regOff
  rw [extendReg_eq (Or.inr rfl) _ _ _ hamt]
  unfold regOffset
  by_cases hal : fld w 15 13 = 3 ∧ (!bit w 12) = true
  · simp only [hal, and_self, ↓reduceIte]
    have hb : bit w 12 = false := by simpa using hal.2
    have : extG (A64.X s (fld w 20 16) 64) 3 (if bit w 12 = true then fld w 31 30 else 0) =
        A64.X s (fld w 20 16) 64 := by
      rw [hb]; simp [extG]
    rw [this]
    exact ev_rz ha (Or.inr rfl) hm
  · simp only [hal, ↓reduceIte]
    have := regExpr_ext s (Or.inr rfl : (64 : Nat) = 32 ∨ 64 = 64) hm ho hamt σ s ha rfl rfl
    simpa using this

theorem ldrReg_agrees (w : BitVec 32) (addr : Nat) (r : BTR) (hc : fld w 29 27 = 0b111) (h25 : bit w 25 = false)
    (h26 : bit w 26 = false) (hreg : RegForm w) (sg : Bool) (rs : Nat)
    (hdec : A64.decodeSizeOpc (fld w 31 30) (fld w 23 22) = some (.load, sg, rs))
    (h : lift w addr = some r) (σ : State) (s : A64.St) (ha : Abs σ s)
    (hpc : s.pc = BitVec.ofNat 64 addr) (haddr : addr + 4 < 2 ^ 64)
    (s' : A64.St) (hs : A64.step w s = .ok s')
    (hnowrap : (A64.XSP s (fld w 9 5) 64 + regOff w s).toNat + 1 <<< fld w 31 30 ≤ 2 ^ 64) :
    ∃ σ', runBTR r σ = .next σ' [s'.pc.toNat] ∧ Abs σ' s' := by
  rw [lift_ldstReg w addr hc h25 h26 hreg] at h
  rw [step_ldstSingle w s hc h25, ldstSingle_reg s w h26 hreg .load sg rs hdec (by decide)] at hs
  unfold A64.ldstInt at hs
  simp only [Bool.false_eq_true, false_and, and_false, ↓reduceIte] at hs
  cases hrd : A64.memRead s (A64.XSP s (fld w 9 5) 64 + regOff w s) (1 <<< fld w 31 30) with
  | none => rw [hrd] at hs; cases hs
  | some data =>
    rw [hrd] at hs
    exact body_load ha addr _ _ _ (fld_lt w 31 30) (fld_lt w 4 0) sg rs hdec hpc haddr _ _ (ev_regOffset ha w) hnowrap
      data hrd r h s' (by injection hs with hs; rw [← hs]; simp [loadDest])

theorem strReg_agrees (w : BitVec 32) (addr : Nat) (r : BTR) (hc : fld w 29 27 = 0b111) (h25 : bit w 25 = false)
    (h26 : bit w 26 = false) (hreg : RegForm w) (sg : Bool) (rs : Nat)
    (hdec : A64.decodeSizeOpc (fld w 31 30) (fld w 23 22) = some (.store, sg, rs))
    (h : lift w addr = some r) (σ : State) (s : A64.St) (ha : Abs σ s)
    (hpc : s.pc = BitVec.ofNat 64 addr) (haddr : addr + 4 < 2 ^ 64)
    (s' : A64.St) (hs : A64.step w s = .ok s')
    (hnowrap : (A64.XSP s (fld w 9 5) 64 + regOff w s).toNat + 1 <<< fld w 31 30 ≤ 2 ^ 64) :
    ∃ σ', runBTR r σ = .next σ' [s'.pc.toNat] ∧ Abs σ' s' := by
  rw [lift_ldstReg w addr hc h25 h26 hreg] at h
  rw [step_ldstSingle w s hc h25, ldstSingle_reg s w h26 hreg .store sg rs hdec (by decide)] at hs
  unfold A64.ldstInt at hs
  simp only [Bool.false_eq_true, false_and, and_false, ↓reduceIte] at hs
  cases hwr : A64.memWrite s (A64.XSP s (fld w 9 5) 64 + regOff w s) (1 <<< fld w 31 30)
      (A64.X s (fld w 4 0) (8 * (1 <<< fld w 31 30))) with
  | none => rw [hwr] at hs; cases hs
  | some s1 =>
    rw [hwr] at hs
    exact body_store ha addr _ _ _ (fld_lt w 31 30) (fld_lt w 4 0) sg rs hdec hpc haddr _ _ (ev_regOffset ha w) hnowrap
      s1 hwr r h s' (by injection hs with hs; rw [← hs])

end C03
end Falcon
