/-
  FalconProofs.C03.MemW — the specification's `Mem[] = value` (`A64.memWrite`: per-byte 64-bit address
  arithmetic, little- or big-endian byte order) against the IL's store (`ByteMem.write` of `bytesOf`).
-/
import FalconProofs.C03.LoadImm

namespace Falcon
namespace C03
open Const A64Lift

/-- byte-by-byte write with 64-bit address arithmetic -/
def wl (m : ByteMem) (a : BitVec 64) : List UInt8 → ByteMem
  | [] => m
  | b :: bs => wl (fun i => if i = a.toNat then some b else m i) (a + 1) bs

theorem wl_eq : ∀ (bs : List UInt8) (m : ByteMem) (a : BitVec 64), a.toNat + bs.length ≤ 2 ^ 64 →
    wl m a bs = m.write a.toNat bs
  | [], m, a, _ => by
      funext x
      simp only [wl, ByteMem.write, List.length_nil, Nat.add_zero]
      rw [if_neg (by omega)]
  | b :: bs, m, a, h => by
      cases bs with
      | nil =>
        funext x
        simp only [wl, ByteMem.write, List.length_cons, List.length_nil, Nat.zero_add]
        by_cases hx : x = a.toNat
        · subst hx; simp
        · have : ¬ (a.toNat ≤ x ∧ x < a.toNat + 1) := by omega
          simp [hx, this]
      | cons c cs =>
        simp only [List.length_cons] at h
        have h1 : (a + 1).toNat = a.toNat + 1 := add_one_toNat a (by omega)
        have ih := wl_eq (c :: cs) (fun i => if i = a.toNat then some b else m i) (a + 1)
          (by rw [h1]; simp only [List.length_cons]; omega)
        rw [wl, ih, h1]
        funext x
        simp only [ByteMem.write, List.length_cons]
        by_cases hlt : x < a.toNat
        · have n1 : ¬ (a.toNat + 1 ≤ x ∧ x < a.toNat + 1 + (cs.length + 1)) := by omega
          have n2 : ¬ (a.toNat ≤ x ∧ x < a.toNat + (cs.length + 1 + 1)) := by omega
          have n3 : x ≠ a.toNat := by omega
          simp [n1, n2, n3]
        · by_cases heq : x = a.toNat
          · subst heq
            have n1 : ¬ (a.toNat + 1 ≤ a.toNat ∧ a.toNat < a.toNat + 1 + (cs.length + 1)) := by omega
            simp [n1]
          · by_cases hin : x < a.toNat + 1 + (cs.length + 1)
            · have p1 : a.toNat + 1 ≤ x ∧ x < a.toNat + 1 + (cs.length + 1) := by omega
              have p2 : a.toNat ≤ x ∧ x < a.toNat + (cs.length + 1 + 1) := by omega
              have hsub : x - a.toNat = (x - (a.toNat + 1)) + 1 := by omega
              simp only [p1, p2, and_self, ↓reduceIte]
              rw [hsub, List.getElem?_cons_succ]
            · have n1 : ¬ (a.toNat + 1 ≤ x ∧ x < a.toNat + 1 + (cs.length + 1)) := by omega
              have n2 : ¬ (a.toNat ≤ x ∧ x < a.toNat + (cs.length + 1 + 1)) := by omega
              simp [n1, n2, heq]

theorem writeLE_eq_wl (m : ByteMem) : ∀ (k : Nat) (a : BitVec 64) (v : Nat),
    A64.writeLE m a v k = wl m a (bytesOfLE v k)
  | 0, _, _ => rfl
  | k + 1, a, v => by
      simp only [A64.writeLE, bytesOfLE, wl]
      exact writeLE_eq_wl _ k (a + 1) (v / 256)

/-- most significant byte first -/
def beBytes (v : Nat) : Nat → List UInt8
  | 0 => []
  | k + 1 => UInt8.ofNat ((v >>> (8 * k)) % 256) :: beBytes v k

theorem writeBE_eq_wl (m : ByteMem) : ∀ (k : Nat) (a : BitVec 64) (v : Nat),
    A64.writeBE m a v k = wl m a (beBytes v k)
  | 0, _, _ => rfl
  | k + 1, a, v => by
      simp only [A64.writeBE, beBytes, wl]
      exact writeBE_eq_wl _ k (a + 1) v

theorem beBytes_succ (v : Nat) : ∀ k, beBytes v (k + 1) = beBytes (v / 256) k ++ [UInt8.ofNat (v % 256)]
  | 0 => by simp [beBytes]
  | k + 1 => by
      rw [beBytes, beBytes_succ v k, beBytes]
      simp only [List.cons_append, List.cons.injEq, and_true]
      congr 2
      rw [Nat.shiftRight_eq_div_pow, Nat.shiftRight_eq_div_pow, Nat.div_div_eq_div_mul]
      congr 1
      rw [show 8 * (k + 1) = 8 + 8 * k by omega, Nat.pow_add]

theorem beBytes_eq_reverse : ∀ (k v : Nat), beBytes v k = (bytesOfLE v k).reverse
  | 0, _ => rfl
  | k + 1, v => by
      rw [beBytes_succ, bytesOfLE, List.reverse_cons, beBytes_eq_reverse k (v / 256)]

theorem bytesOfLE_length' (v : Nat) : ∀ k, (bytesOfLE v k).length = k
  | 0 => rfl
  | k + 1 => by simp [bytesOfLE, bytesOfLE_length' (v / 256) k]

/-- the memory after a non-wrapping `Mem[a, k] = val` is the memory after the IL store of the same constant -/
theorem memWrite_mem (s : A64.St) (a : BitVec 64) (k : Nat) (val : BitVec (8 * k)) (s' : A64.St)
    (hw : a.toNat + k ≤ 2 ^ 64) (h : A64.memWrite s a k val = some s') :
    s' = { s with mem := s.mem.write a.toNat (bytesOf (if s.big then Endian.big else Endian.little) (ofBV val)) } := by
  unfold A64.memWrite at h
  split at h
  · injection h with h; subst h
    have h8 : 8 * k / 8 = k := by omega
    cases hb : s.big
    · simp only [Bool.false_eq_true, ↓reduceIte, bytesOf, ofBV_bits, ofBV_val, h8]
      rw [writeLE_eq_wl, wl_eq _ _ _ (by rw [bytesOfLE_length']; exact hw)]
    · simp only [↓reduceIte, bytesOf, ofBV_bits, ofBV_val, h8]
      rw [writeBE_eq_wl, beBytes_eq_reverse, wl_eq _ _ _ (by rw [List.length_reverse, bytesOfLE_length']; exact hw)]
  · cases h

/-- `State::execute` of a store whose operands evaluate to `av` (address) and `v` (value of `8k` bits) -/
theorem exec_store {σ : State} {idx src : Expr} {av : BitVec 64} {k : Nat} {v : BitVec (8 * k)} (hk : 0 < k)
    (hi : Ev σ idx 64 av) (hv : Ev σ src (8 * k) v) (hw : av.toNat + k ≤ 2 ^ 64) :
    execute σ (.store idx src) =
      .ok ({ σ with mem := σ.mem.write av.toNat (bytesOf σ.endian (ofBV v)) }, .fallThrough) := by
  have hlt : av.toNat < 2 ^ 64 := av.isLt
  have h8 : 8 * k / 8 = k := by omega
  have hmod : ¬ (8 * k % 8 ≠ 0 ∨ 8 * k = 0) := by omega
  have hov : ¬ (av.toNat + k > 2 ^ 64) := by omega
  simp only [execute, hi.evalIn, hv.evalIn, Res.bind_ok, addrOf, ofBV_val, ofBV_bits, hlt, ↓reduceIte, hmod, h8, hov]

end C03
end Falcon
