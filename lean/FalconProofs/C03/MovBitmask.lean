/-
  FalconProofs.C03.MovBitmask — MOV (bitmask immediate), the ORR-immediate alias: the constant the lifter assigns
  is `DecodeBitMasks(N, imms, immr)` of the pseudocode, the destination 31 is SP.
-/
import FalconProofs.C03.CondBranch4

namespace Falcon
namespace C03
open Const A64Lift
open A64 (fld bit)

theorem step_orrImm (w : BitVec 32) (s : A64.St) (hc : fld w 28 23 = 0b100100) (h29 : fld w 30 29 = 1) :
    A64.step w s = A64.orrImm s w (if bit w 31 = true then 64 else 32) := by
  have hnop := nop_not_class hc (by decide)
  unfold A64.step
  simp only [hnop, hc, h29, ↓reduceIte, show ¬ ((36 : Nat) = 34) by decide]

theorem lift_movBitmask (w : BitVec 32) (addr : Nat) (hc : fld w 28 23 = 0b100100) :
    lift w addr = movBitmask w addr := by
  have hnop := nop_not_class hc (by decide)
  have h2 : fld w 28 24 ≠ 0b01011 := by intro h; unfold A64.fld at h hc; omega
  have h3 : fld w 28 24 ≠ 0b01010 := by intro h; unfold A64.fld at h hc; omega
  have h4 : ¬ (fld w 29 27 = 0b111 ∧ (!bit w 25) = true) := by intro h; unfold A64.fld at h hc; omega
  unfold lift
  simp only [hnop, hc, h2, h3, h4, ↓reduceIte, show ¬ ((36 : Nat) = 34) by decide, show ¬ ((36 : Nat) = 37) by decide,
    false_and]

theorem movBitmask_agrees (w : BitVec 32) (addr : Nat) (r : BTR) (hc : fld w 28 23 = 0b100100)
    (h : lift w addr = some r) (σ : State) (s : A64.St) (ha : Abs σ s)
    (hpc : s.pc = BitVec.ofNat 64 addr) (haddr : addr + 4 < 2 ^ 64) : Agrees r σ w s := by
  rw [lift_movBitmask w addr hc] at h
  unfold movBitmask at h
  simp only [] at h
  unfold Agrees
  have hstep := step_orrImm w s hc
  have hN := width_cases w
  generalize (if bit w 31 = true then 64 else 32) = N at *
  split at h
  · rename_i hcond
    obtain ⟨h29, hn31, hres, _⟩ := hcond
    rw [hstep h29]
    unfold A64.orrImm
    have hd : fld w 4 0 < 32 := fld_lt w 4 0
    have hres' : ¬ (N = 32 ∧ bit w 22 = true) := by
      intro hh
      simp [hh.1, hh.2] at hres
    simp only [hres', ↓reduceIte]
    cases hdb : A64.decodeBitMasks (fld w 22 22) (fld w 15 10) (fld w 21 16) N with
    | none => rw [hdb] at h; cases h
    | some imm =>
      rw [hdb] at h
      simp only [] at h ⊢
      injection h with h; subst h
      have hval : A64.X s (fld w 9 5) N ||| imm = imm := by
        rw [hn31]; simp [A64.X]
      rw [hval]
      have ev : Ev σ (k imm.toNat N) N imm := by
        have := @Ev.lit σ N imm.toNat imm.isLt
        rwa [BitVec.ofNat_toNat, BitVec.setWidth_eq] at this
      refine ⟨_, _, ?_, rfl, abs_next (abs_setS ha hd imm)⟩
      rw [run_setS (s := s) addr hN _ ev]
      show _ = LiftOut.next _ [((A64.setXSP s (fld w 4 0) imm).pc + 4).toNat]
      rw [pc_setXSP, pc_next s addr hpc haddr]
  · cases h

end C03
end Falcon
