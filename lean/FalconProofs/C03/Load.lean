/-
  FalconProofs.C03.Load — the block the lifter emits for an integer load with an immediate addressing
  mode (`ldr/ldrb/ldrh/ldrsb/ldrsh/ldrsw`, unsigned offset | unscaled | post-index | pre-index) against
  the pseudocode body `A64.ldstInt … .load …`, for every base/transfer register (incl. SP, XZR and
  base = transfer without write-back), offset, size, extension, both data endiannesses, every state in
  which the access neither faults nor wraps around the top of the address space.
-/
import FalconProofs.C03.Mem

namespace Falcon
namespace C03
open Const A64Lift

theorem ev_widen' {σ : State} {N : Nat} (hN1 : 1 ≤ N) (hN : N ≤ 64) {e : Expr} {v : BitVec N} (he : Ev σ e N v) :
    Ev σ (widen N e) 64 (v.setWidth 64) := by
  unfold widen
  by_cases h : N = 64
  · subst h; simpa using he
  · simp only [h, ↓reduceIte]
    exact Ev.zext 64 hN1 (by omega) he

theorem XSP_setX_ne (s : A64.St) (t n : Nat) {N : Nat} (v : BitVec N) (h : n ≠ t ∨ n = 31) :
    A64.XSP (A64.setX s t v) n 64 = A64.XSP s n 64 := by
  unfold A64.XSP A64.SP A64.X A64.setX
  by_cases ht : t = 31
  · simp [ht]
  · by_cases hn : n = 31
    · simp [ht, hn]
    · have : n ≠ t := by rcases h with h | h; exact h; exact absurd h hn
      simp [ht, hn, this]

/-- the value written to the destination, in the two forms -/
theorem load_value (k regsize : Nat) (hk : 8 * k ≤ regsize) (hr : regsize ≤ 64) (data : BitVec (8 * k)) :
    (data.setWidth regsize).setWidth 64 = data.setWidth 64 := by
  apply BitVec.eq_of_toNat_eq
  have hd := data.isLt
  have hp : 2 ^ (8 * k) ≤ 2 ^ regsize := Nat.pow_le_pow_right (by decide) hk
  have hp2 : 2 ^ regsize ≤ 2 ^ 64 := Nat.pow_le_pow_right (by decide) hr
  simp only [BitVec.toNat_setWidth]
  rw [Nat.mod_eq_of_lt (by omega : data.toNat < 2 ^ regsize)]

/-- the destination value of the pseudocode, for both register sizes -/
def loadDest (s : A64.St) (t regsize : Nat) (signed : Bool) {sz : Nat} (data : BitVec (8 * sz)) : A64.St :=
  if regsize = 32 then A64.setX s t (if signed = true then data.signExtend 32 else data.setWidth 32)
  else A64.setX s t (if signed = true then data.signExtend 64 else data.setWidth 64)

theorem load_tail {σ : State} {s : A64.St} (ha : Abs σ s) (addr n t off sz regsize : Nat) (signed : Bool)
    (hsz : sz = 1 ∨ sz = 2 ∨ sz = 4 ∨ sz = 8) (hreg : regsize = 32 ∨ regsize = 64)
    (hszr : 8 * sz ≤ regsize) (hsr : signed = true → 8 * sz < regsize)
    (hn : n < 32) (ht : t < 32) (hoff : off < 2 ^ 64)
    (hpc : s.pc = BitVec.ofNat 64 addr) (haddr : addr + 4 < 2 ^ 64)
    (data : BitVec (8 * sz)) (bs : List UInt8) (av : BitVec 64) (ae : Expr) (hae : Ev σ ae 64 av)
    (hnowrap : av.toNat + sz ≤ 2 ^ 64) (hbs : σ.mem.readBytes av.toNat sz = some bs)
    (hconst : constOfBytes σ.endian bs = ofBV data) (s' : A64.St) (wb : Bool)
    (hwb : wb = false ∨ (n ≠ t ∨ n = 31))
    (hs : s' = A64.next (if wb = true then A64.setXSP (loadDest s t regsize signed data) n
                            (A64.XSP s n 64 + BitVec.ofNat 64 off) else loadDest s t regsize signed data)) :
    ∃ σ', runBTR (straight addr
        ([.load (temp addr (8 * sz)) ae,
          setZ (if signed = true then regsize else 8 * sz) t
            (if signed = true then Expr.ext .sext regsize (.scalar (temp addr (8 * sz))) else .scalar (temp addr (8 * sz)))]
         ++ (if wb = true then [Op.assign (sc (sName n) 64)
               (.bin .add (.scalar (sc (sName n) 64)) (A64Lift.k off 64))] else []))) σ
        = .next σ' [s'.pc.toNat] ∧ Abs σ' s' := by
  have hk0 : 0 < sz := by omega
  have hk8 : 8 * sz ≤ 64 := by omega
  have hk1 : 1 ≤ 8 * sz := by omega
  have hreg64 : regsize ≤ 64 := by omega
  have hreg1 : 1 ≤ regsize := by omega
  -- 1. the load
  have hload := exec_load (temp addr (8 * sz)) sz hk0 rfl hae hnowrap bs hbs
  rw [hconst] at hload
  have a1 := abs_set_temp ha addr (8 * sz) (ofBV data)
  -- 2. the destination
  have etmp : Ev (σ.set (temp addr (8 * sz)).name (ofBV data)) (.scalar (temp addr (8 * sz))) (8 * sz) data :=
    Ev.scalar (C07.get_set_self _ _ _)
  have hdest : ∃ σ2, execute (σ.set (temp addr (8 * sz)).name (ofBV data))
        (setZ (if signed = true then regsize else 8 * sz) t
          (if signed = true then Expr.ext .sext regsize (.scalar (temp addr (8 * sz))) else .scalar (temp addr (8 * sz))))
        = .ok (σ2, .fallThrough) ∧ Abs σ2 (loadDest s t regsize signed data) := by
    cases hsg : signed
    · simp only [Bool.false_eq_true, ↓reduceIte, setZ]
      refine ⟨_, exec_assign _ (ev_widen' hk1 hk8 etmp), ?_⟩
      have := abs_setZ a1 ht data
      unfold loadDest
      simp only [Bool.false_eq_true, ↓reduceIte]
      rcases hreg with rfl | rfl
      · simp only [↓reduceIte]
        have h2 := abs_setZ a1 ht (data.setWidth 32)
        rw [load_value sz 32 hszr (by decide) data] at h2
        exact h2
      · simp only [show ¬ ((64 : Nat) = 32) by decide, ↓reduceIte]
        have h2 := abs_setZ a1 ht (data.setWidth 64)
        rw [BitVec.setWidth_eq] at h2
        exact h2
    · have hlt := hsr hsg
      simp only [↓reduceIte, setZ]
      have es := Ev.sext regsize hk1 hlt etmp
      refine ⟨_, exec_assign _ (ev_widen' hreg1 hreg64 es), ?_⟩
      unfold loadDest
      simp only [↓reduceIte]
      rcases hreg with rfl | rfl
      · simp only [↓reduceIte]; exact abs_setZ a1 ht _
      · simp only [show ¬ ((64 : Nat) = 32) by decide, ↓reduceIte]; exact abs_setZ a1 ht _
  obtain ⟨σ2, hex2, a2⟩ := hdest
  have hpcd : (loadDest s t regsize signed data).pc = s.pc := by
    unfold loadDest; split <;> exact pc_setX _ _ _
  -- 3. write-back
  cases hw : wb
  · subst hs
    simp only [hw, Bool.false_eq_true, ↓reduceIte, List.append_nil]
    refine ⟨σ2, ?_, abs_next a2⟩
    rw [runBTR_straight _ _ _ (by simp)]
    simp only [execOps]
    rw [hload]; dsimp only
    rw [hex2]; dsimp only
    show _ = LiftOut.next σ2 [((loadDest s t regsize signed data).pc + 4).toNat]
    rw [hpcd, pc_next s addr hpc haddr]
  · subst hs
    simp only [hw, ↓reduceIte]
    have hnt : n ≠ t ∨ n = 31 := by rcases hwb with h | h; rw [hw] at h; cases h; exact h
    have hbase2 : Ev σ2 (.scalar (sc (sName n) 64)) 64 (A64.XSP s n 64) := by
      have := get_sName a2 hn
      have hx : A64.XSP (loadDest s t regsize signed data) n 64 = A64.XSP s n 64 := by
        unfold loadDest; split <;> exact XSP_setX_ne _ _ _ _ hnt
      rw [hx] at this
      exact Ev.scalar this
    have ewb : Ev σ2 (.bin .add (.scalar (sc (sName n) 64)) (A64Lift.k off 64)) 64 _ := Ev.add hbase2 (@Ev.lit σ2 64 off hoff)
    have a3 := abs_setS a2 hn (A64.XSP s n 64 + BitVec.ofNat 64 off)
    rw [BitVec.setWidth_eq] at a3
    refine ⟨_, ?_, abs_next a3⟩
    rw [runBTR_straight _ _ _ (by simp)]
    simp only [execOps, List.cons_append, List.nil_append]
    rw [hload]; dsimp only
    rw [hex2]; dsimp only
    rw [exec_assign _ ewb]
    show _ = LiftOut.next _ [((A64.setXSP (loadDest s t regsize signed data) n _).pc + 4).toNat]
    rw [pc_setXSP, hpcd, pc_next s addr hpc haddr]
    rfl

theorem load_block_agrees (σ : State) (s : A64.St) (ha : Abs σ s) (addr mode n t off sz regsize : Nat)
    (signed : Bool) (hk : sz = 1 ∨ sz = 2 ∨ sz = 4 ∨ sz = 8) (hreg : regsize = 32 ∨ regsize = 64)
    (hkr : 8 * sz ≤ regsize) (hsr : signed = true → 8 * sz < regsize)
    (hn : n < 32) (ht : t < 32) (hoff : off < 2 ^ 64) (hmode : mode = 0 ∨ mode = 1 ∨ mode = 3 ∨ mode = 4)
    (hpc : s.pc = BitVec.ofNat 64 addr) (haddr : addr + 4 < 2 ^ 64)
    (s' : A64.St)
    (hs : A64.ldstInt s .load signed sz regsize n t (BitVec.ofNat 64 off)
            (decide (mode = 1 ∨ mode = 3)) (decide (mode = 1)) = .ok s')
    (hnowrap : (if mode = 1 then A64.XSP s n 64 else A64.XSP s n 64 + BitVec.ofNat 64 off).toNat + sz ≤ 2 ^ 64) :
    ∃ σ', runBTR (straight addr
        ([.load (temp addr (8 * sz)) (memOperand mode n off).1,
          setZ (if signed = true then regsize else 8 * sz) t
            (if signed = true then Expr.ext .sext regsize (.scalar (temp addr (8 * sz))) else .scalar (temp addr (8 * sz)))]
         ++ (memOperand mode n off).2)) σ = .next σ' [s'.pc.toNat] ∧ Abs σ' s' := by
  have hk0 : 0 < sz := by omega
  have hk8 : 8 * sz ≤ 64 := by omega
  -- the address expression
  have hbase : Ev σ (.scalar (sc (sName n) 64)) 64 (A64.XSP s n 64) := Ev.scalar (get_sName ha hn)
  have hidx : Ev σ (.bin .add (.scalar (sc (sName n) 64)) (A64Lift.k off 64)) 64 (A64.XSP s n 64 + BitVec.ofNat 64 off) :=
    Ev.add hbase (Ev.lit hoff)
  -- the specification
  unfold A64.ldstInt at hs
  by_cases hcu : (A64.MemOp.load ≠ A64.MemOp.prefetch ∧ decide (mode = 1 ∨ mode = 3) = true ∧ n = t ∧ n ≠ 31)
  · rw [if_pos hcu] at hs; cases hs
  rw [if_neg hcu] at hs
  simp only [] at hs
  have hnt : ¬ (mode = 1 ∨ mode = 3) ∨ (n ≠ t ∨ n = 31) := by
    by_cases hm : mode = 1 ∨ mode = 3
    · right
      by_cases h1 : n = t
      · right
        by_cases h31 : n = 31
        · exact h31
        · exact absurd ⟨by decide, by simpa using hm, h1, h31⟩ hcu
      · left; exact h1
    · left; exact hm
  -- split on post-index or not
  by_cases hpost : mode = 1
  · -- post-index: address = base, write-back base + offset
    subst hpost
    simp only [decide_true, ↓reduceIte, Nat.reduceEqDiff, or_false, true_or] at hs hnowrap
    cases hrd : A64.memRead s (A64.XSP s n 64) sz with
    | none => rw [hrd] at hs; cases hs
    | some data =>
      rw [hrd] at hs
      simp only [] at hs
      obtain ⟨bs, hbs, hconst⟩ := memRead_bytes s σ ha.mem ha.endian _ sz hnowrap data hrd
      have hnt' : n ≠ t ∨ n = 31 := by rcases hnt with h | h; exact absurd (Or.inl rfl) h; exact h
      exact load_tail ha addr n t off sz regsize signed hk hreg hkr hsr hn ht hoff hpc haddr data bs
        (A64.XSP s n 64) (.scalar (sc (sName n) 64)) hbase hnowrap hbs hconst s' true
        (Or.inr hnt') (by injection hs with hs; rw [← hs]; simp [loadDest])
  · -- unsigned offset / unscaled / pre-index: address = base + offset
    have hm1 : ¬ mode = 1 := hpost
    simp only [hm1, decide_false, Bool.false_eq_true, ↓reduceIte, false_or] at hs hnowrap
    cases hrd : A64.memRead s (A64.XSP s n 64 + BitVec.ofNat 64 off) sz with
    | none => rw [hrd] at hs; cases hs
    | some data =>
      rw [hrd] at hs
      simp only [] at hs
      obtain ⟨bs, hbs, hconst⟩ := memRead_bytes s σ ha.mem ha.endian _ sz hnowrap data hrd
      by_cases hpre : mode = 3
      · subst hpre
        have hnt' : n ≠ t ∨ n = 31 := by rcases hnt with h | h; exact absurd (Or.inr rfl) h; exact h
        exact load_tail ha addr n t off sz regsize signed hk hreg hkr hsr hn ht hoff hpc haddr data bs
          (A64.XSP s n 64 + BitVec.ofNat 64 off) _ hidx hnowrap hbs hconst s' true
          (Or.inr hnt') (by injection hs with hs; rw [← hs]; simp [loadDest])
      · have hm : mode = 0 ∨ mode = 4 := by omega
        have hmo : (memOperand mode n off) = (Expr.bin .add (.scalar (sc (sName n) 64)) (A64Lift.k off 64), []) := by
          rcases hm with rfl | rfl <;> rfl
        rw [hmo]
        exact load_tail ha addr n t off sz regsize signed hk hreg hkr hsr hn ht hoff hpc haddr data bs
          (A64.XSP s n 64 + BitVec.ofNat 64 off) _ hidx hnowrap hbs hconst s' false
          (Or.inl rfl) (by injection hs with hs; rw [← hs]; simp [loadDest, hpre])

end C03
end Falcon
