/-
  FalconProofs.C03.Names — the IL scalar names of the AArch64 lifter are pairwise distinct:
  `x0 … x30`, `sp`, `xzr`, `n`, `z`, `c`, `v`, and the temporaries `temp_0x…`.
-/
import Std.Data.String.ToNat
import FalconModel.Isa.A64Lift

namespace Falcon
namespace C03
open A64Lift

theorem xName_inj {i j : Nat} (h : xName i = xName j) : i = j := by
  simpa [xName] using h

theorem xName_toList (i : Nat) : (xName i).toList = 'x' :: Nat.toDigits 10 i := by
  simp [xName]

theorem xName_ne_sp (i : Nat) : xName i ≠ "sp" := by
  intro h; have := congrArg String.toList h; simp [xName] at this

theorem xName_ne_n (i : Nat) : xName i ≠ "n" := by
  intro h; have := congrArg String.toList h; simp [xName] at this

theorem xName_ne_z (i : Nat) : xName i ≠ "z" := by
  intro h; have := congrArg String.toList h; simp [xName] at this

theorem xName_ne_c (i : Nat) : xName i ≠ "c" := by
  intro h; have := congrArg String.toList h; simp [xName] at this

theorem xName_ne_v (i : Nat) : xName i ≠ "v" := by
  intro h; have := congrArg String.toList h; simp [xName] at this

theorem xName_ne_xzr (i : Nat) : xName i ≠ "xzr" := by
  intro h
  have h1 := congrArg String.toList h
  rw [xName_toList] at h1
  have h2 : Nat.toDigits 10 i = ['z', 'r'] := by simpa using h1
  have h3 : 'z' ∈ Nat.toDigits 10 i := by rw [h2]; simp
  have := Nat.isDigit_of_mem_toDigits (by omega) (by omega) h3
  revert this; decide

theorem temp_name_toList (a b : Nat) :
    (temp a b).name.toList = 't' :: 'e' :: 'm' :: 'p' :: '_' :: '0' :: 'x' :: (Nat.toDigits 16 a).map Char.toUpper := by
  simp [temp, sc]

theorem xName_ne_temp (i a b : Nat) : xName i ≠ (temp a b).name := by
  intro h; have := congrArg String.toList h
  rw [xName_toList, temp_name_toList] at this; simp at this

theorem temp_ne_lit {s : String} {c : Char} {cs : List Char} (hs : s.toList = c :: cs) (hc : c ≠ 't') (a b : Nat) :
    (temp a b).name ≠ s := by
  intro h; have := congrArg String.toList h
  rw [temp_name_toList, hs] at this
  simp at this; exact hc this.1.symm

theorem temp_ne_sp (a b : Nat) : (temp a b).name ≠ "sp" := temp_ne_lit (c := 's') (cs := ['p']) (by simp) (by decide) a b
theorem temp_ne_xzr (a b : Nat) : (temp a b).name ≠ "xzr" := temp_ne_lit (c := 'x') (cs := ['z', 'r']) (by simp) (by decide) a b
theorem temp_ne_n (a b : Nat) : (temp a b).name ≠ "n" := temp_ne_lit (c := 'n') (cs := []) (by simp) (by decide) a b
theorem temp_ne_z (a b : Nat) : (temp a b).name ≠ "z" := temp_ne_lit (c := 'z') (cs := []) (by simp) (by decide) a b
theorem temp_ne_c (a b : Nat) : (temp a b).name ≠ "c" := temp_ne_lit (c := 'c') (cs := []) (by simp) (by decide) a b
theorem temp_ne_v (a b : Nat) : (temp a b).name ≠ "v" := temp_ne_lit (c := 'v') (cs := []) (by simp) (by decide) a b

theorem lit_ne : ("sp" : String) ≠ "xzr" ∧ ("sp" : String) ≠ "n" ∧ ("sp" : String) ≠ "z" ∧ ("sp" : String) ≠ "c" ∧ ("sp" : String) ≠ "v"
    ∧ ("xzr" : String) ≠ "n" ∧ ("xzr" : String) ≠ "z" ∧ ("xzr" : String) ≠ "c" ∧ ("xzr" : String) ≠ "v"
    ∧ ("n" : String) ≠ "z" ∧ ("n" : String) ≠ "c" ∧ ("n" : String) ≠ "v" ∧ ("z" : String) ≠ "c" ∧ ("z" : String) ≠ "v"
    ∧ ("c" : String) ≠ "v" := by decide

end C03
end Falcon
