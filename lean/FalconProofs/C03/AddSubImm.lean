/-
  FalconProofs.C03.AddSubImm — ADD/ADDS/SUB/SUBS (immediate), incl. the MOV (to/from SP) alias.
-/
import FalconProofs.C03.AddSub

namespace Falcon
namespace C03
open Const A64Lift
open A64 (fld bit)

/-- the lifted block, run from a state holding `s`, ends in a state holding what `A64.step` yields, at its pc -/
def Agrees (r : BTR) (σ : State) (w : BitVec 32) (s : A64.St) : Prop :=
  ∃ σ' s', runBTR r σ = .next σ' [s'.pc.toNat] ∧ A64.step w s = .ok s' ∧ Abs σ' s'

/-- the same, except that the IL's `c` holds the NEGATION of the architectural carry (falcon's `subs`) -/
def AgreesBorrow (r : BTR) (σ : State) (w : BitVec 32) (s : A64.St) : Prop :=
  ∃ σ' s', runBTR r σ = .next σ' [s'.pc.toNat] ∧ A64.step w s = .ok s' ∧ Abs σ' { s' with c := !s'.c }

theorem width_cases (w : BitVec 32) :
    (if bit w 31 = true then 64 else 32) = 32 ∨ (if bit w 31 = true then 64 else 32) = 64 := by
  by_cases h : bit w 31 = true <;> simp [h]

theorem pc_next (s : A64.St) (addr : Nat) (hpc : s.pc = BitVec.ofNat 64 addr) (haddr : addr + 4 < 2 ^ 64) :
    (s.pc + 4).toNat = addr + 4 := by
  have h4 : (4 : BitVec 64).toNat = 4 := rfl
  rw [hpc, BitVec.toNat_add, BitVec.toNat_ofNat, h4]
  omega

/-! ### the specification's `addSub`, in the shape the IL computes -/

theorem addSub_noflags {N : Nat} (s : A64.St) (sub : Bool) (a b : BitVec N) :
    (A64.addSub s sub false a b).2 = s := by
  unfold A64.addSub; cases sub <;> rfl

theorem addSub_res_add {N : Nat} (s : A64.St) (sf : Bool) (a b : BitVec N) :
    (A64.addSub s false sf a b).1 = a + b := by
  unfold A64.addSub; exact awc_res_add a b

theorem addSub_res_sub {N : Nat} (s : A64.St) (sf : Bool) (a b : BitVec N) :
    (A64.addSub s true sf a b).1 = a - b := by
  unfold A64.addSub; exact awc_res_sub a b

theorem addSub_flags_add {N : Nat} (hN1 : 1 ≤ N) (hN : N ≤ 64) (s : A64.St) (a b : BitVec N) :
    (A64.addSub s false true a b).2 =
      { s with n := (a + b).slt 0, z := (a + b == 0),
               c := ((a + b).zeroExtend 72 != a.zeroExtend 72 + b.zeroExtend 72),
               v := ((a + b).signExtend 72 != a.signExtend 72 + b.signExtend 72) } := by
  have h1 := awc_n a b false
  have h2 := awc_z a b false
  have h3 := awc_c_add hN a b
  have h4 := awc_v_add hN1 hN a b
  rw [awc_res_add] at h1 h2
  simp only [A64.addSub, Bool.false_eq_true, ↓reduceIte, h1, h2, h3, h4]

theorem addSub_flags_sub {N : Nat} (hN1 : 1 ≤ N) (hN : N ≤ 64) (s : A64.St) (a b : BitVec N) :
    (A64.addSub s true true a b).2 =
      { s with n := (a - b).slt 0, z := (a - b == 0),
               c := !((a - b).zeroExtend 72 != a.zeroExtend 72 - b.zeroExtend 72),
               v := ((a - b).signExtend 72 != a.signExtend 72 - b.signExtend 72) } := by
  have h1 := awc_n a (~~~b) true
  have h2 := awc_z a (~~~b) true
  have h3 := awc_c_sub hN a b
  have h4 := awc_v_sub hN1 hN a b
  rw [awc_res_sub] at h1 h2
  simp only [A64.addSub, ↓reduceIte, h1, h2, ← h3, h4, Bool.not_not]

/-! ### running the two block shapes -/

def withNZCV (s : A64.St) (n z c v : Bool) : A64.St := { s with n := n, z := z, c := c, v := v }

theorem run_setS {σ : State} {s : A64.St} (addr : Nat) {N : Nat} (hN : N = 32 ∨ N = 64) (d : Nat)
    {e : Expr} {v : BitVec N} (he : Ev σ e N v) :
    runBTR (straight addr [setS N d e]) σ = .next (σ.set (sName d) (ofBV (v.setWidth 64))) [addr + 4] := by
  rw [runBTR_straight _ _ _ (by simp)]
  simp only [execOps, setS]
  rw [exec_assign _ (ev_widen hN he)]
  rfl

theorem run_setZ {σ : State} {s : A64.St} (addr : Nat) {N : Nat} (hN : N = 32 ∨ N = 64) (d : Nat)
    {e : Expr} {v : BitVec N} (he : Ev σ e N v) :
    runBTR (straight addr [setZ N d e]) σ = .next (σ.set (zName d) (ofBV (v.setWidth 64))) [addr + 4] := by
  rw [runBTR_straight _ _ _ (by simp)]
  simp only [execOps, setZ]
  rw [exec_assign _ (ev_widen hN he)]
  rfl

/-- `adds`/`subs`: flags, then the destination (register 31 = XZR) -/
theorem run_flags_setZ {op : BinOp} {f : {n : Nat} → BitVec n → BitVec n → BitVec n} (hop : ArithOp op f)
    {σ : State} {s : A64.St} (ha : Abs σ s) (addr : Nat) {N : Nat} (hN : N = 32 ∨ N = 64) {d : Nat} (hd : d < 32)
    {l r : Expr} {x y : BitVec N} (hl : RegExpr s l N x) (hr : RegExpr s r N y) :
    ∃ σ', runBTR (straight addr (flagOps N op l r ++ [setZ N d (.bin op l r)])) σ = .next σ' [addr + 4] ∧
      Abs σ' (A64.setX (withNZCV s ((f x y).slt 0) (f x y == 0)
                          ((f x y).zeroExtend 72 != f (x.zeroExtend 72) (y.zeroExtend 72))
                          ((f x y).signExtend 72 != f (x.signExtend 72) (y.signExtend 72))) d (f x y)) := by
  obtain ⟨σ4, a4, hex⟩ := exec_flagOps hop ha hN hl hr [setZ N d (.bin op l r)]
  have he := hop.ev (hl _ _ a4 rfl rfl) (hr _ _ a4 rfl rfl)
  refine ⟨_, ?_, abs_setZ a4 hd (f x y)⟩
  rw [runBTR_straight _ _ _ (by simp [flagOps]), hex]
  simp only [execOps, setZ]
  rw [exec_assign _ (ev_widen hN he)]
  rfl

end C03
end Falcon
