/-
  FalconProofs.C03.Body — the instruction body `A64Lift.ldstBody` (load / store / prefetch at a given address
  expression, no write-back) against a `Mem[]` read or write of the pseudocode at the value of that expression.
-/
import FalconProofs.C03.Pair

namespace Falcon
namespace C03
open Const A64Lift
open A64 (fld bit)

theorem size_facts (size : Nat) (hs : size < 4) :
    8 <<< size = 8 * (1 <<< size) ∧
    (1 <<< size = 1 ∨ 1 <<< size = 2 ∨ 1 <<< size = 4 ∨ 1 <<< size = 8) := by
  have : size = 0 ∨ size = 1 ∨ size = 2 ∨ size = 3 := by omega
  rcases this with h | h | h | h <;> simp [h]

theorem body_load {σ : State} {s : A64.St} (ha : Abs σ s) (addr size opc t : Nat) (hsize : size < 4) (ht : t < 32)
    (sg : Bool) (rs : Nat) (hdec : A64.decodeSizeOpc size opc = some (.load, sg, rs))
    (hpc : s.pc = BitVec.ofNat 64 addr) (haddr : addr + 4 < 2 ^ 64)
    (av : BitVec 64) (ae : Expr) (hae : Ev σ ae 64 av) (hnowrap : av.toNat + 1 <<< size ≤ 2 ^ 64)
    (data : BitVec (8 * (1 <<< size))) (hr : A64.memRead s av (1 <<< size) = some data)
    (r : BTR) (hr' : ldstBody addr size opc t ae [] = some r) (s' : A64.St)
    (hs : s' = A64.next (loadDest s t rs sg data)) :
    ∃ σ', runBTR r σ = .next σ' [s'.pc.toNat] ∧ Abs σ' s' := by
  obtain ⟨hbits, hk⟩ := size_facts size hsize
  obtain ⟨hreg, hkr, hsr⟩ := decode_load_facts size opc hsize sg rs hdec
  unfold ldstBody at hr'
  simp only [hdec] at hr'
  injection hr' with hr'; subst hr'
  rw [hbits]
  obtain ⟨bs, hbs, hconst⟩ := memRead_bytes s σ ha.mem ha.endian av _ hnowrap data hr
  have := load_tail ha addr 0 t 0 (1 <<< size) rs sg hk hreg hkr hsr (by decide) ht (by decide) hpc haddr data bs av ae
    hae hnowrap hbs hconst s' false (Or.inl rfl) (by rw [hs]; simp)
  simpa using this

theorem body_store {σ : State} {s : A64.St} (ha : Abs σ s) (addr size opc t : Nat) (hsize : size < 4) (ht : t < 32)
    (sg : Bool) (rs : Nat) (hdec : A64.decodeSizeOpc size opc = some (.store, sg, rs))
    (hpc : s.pc = BitVec.ofNat 64 addr) (haddr : addr + 4 < 2 ^ 64)
    (av : BitVec 64) (ae : Expr) (hae : Ev σ ae 64 av) (hnowrap : av.toNat + 1 <<< size ≤ 2 ^ 64)
    (s1 : A64.St) (hw : A64.memWrite s av (1 <<< size) (A64.X s t (8 * (1 <<< size))) = some s1)
    (r : BTR) (hr' : ldstBody addr size opc t ae [] = some r) (s' : A64.St) (hs : s' = A64.next s1) :
    ∃ σ', runBTR r σ = .next σ' [s'.pc.toNat] ∧ Abs σ' s' := by
  obtain ⟨_, hk⟩ := size_facts size hsize
  have hrs := decode_store_rs size opc sg rs hdec
  unfold ldstBody at hr'
  simp only [hdec] at hr'
  injection hr' with hr'; subst hr'
  have hv := ev_store_value ha size t hsize ht
  rw [← hrs] at hv
  have := store_tail ha addr 0 t 0 (1 <<< size) (by omega) (by decide) (by decide) hpc haddr _ hv av ae hae hnowrap
    s1 hw s' false (by rw [hs]; simp)
  simpa using this

theorem body_prefetch {σ : State} {s : A64.St} (ha : Abs σ s) (addr size opc t : Nat)
    (sg : Bool) (rs : Nat) (hdec : A64.decodeSizeOpc size opc = some (.prefetch, sg, rs))
    (hpc : s.pc = BitVec.ofNat 64 addr) (haddr : addr + 4 < 2 ^ 64) (ae : Expr)
    (r : BTR) (hr' : ldstBody addr size opc t ae [] = some r) :
    runBTR r σ = .next σ [(A64.next s).pc.toNat] ∧ Abs σ (A64.next s) := by
  unfold ldstBody at hr'
  simp only [hdec] at hr'
  injection hr' with hr'; subst hr'
  refine ⟨?_, abs_next ha⟩
  rw [runBTR_straight _ _ _ (by simp)]
  simp only [execOps, execute]
  show LiftOut.next σ [addr + 4] = LiftOut.next σ [(s.pc + 4).toNat]
  rw [pc_next s addr hpc haddr]

end C03
end Falcon
