/-
  FalconProofs.C03.Abs — the abstraction relation between an IL state and an A64 state, and how the
  lifter's register accessors (`rz`, `rs`, `setZ`, `setS`) read and write through it.
-/
import FalconProofs.C07.Exec
import FalconProofs.C03.Names
import FalconProofs.C03.Eval
import FalconProofs.C03.Run

namespace Falcon
namespace C03
open Const A64Lift
open C07 (get_set get_set_self get_set_ne)

/-- `σ` holds the architectural state `s`: every register under the lifter's scalar name, at its
    architectural width; the same byte memory; the same data endianness.  Other scalars (temporaries,
    `xzr`) are unconstrained. -/
structure Abs (σ : State) (s : A64.St) : Prop where
  x : ∀ i, i < 31 → σ.get (xName i) = some (ofBV (s.x i))
  sp : σ.get "sp" = some (ofBV s.sp)
  n : σ.get "n" = some (ofBV (BitVec.ofBool s.n))
  z : σ.get "z" = some (ofBV (BitVec.ofBool s.z))
  c : σ.get "c" = some (ofBV (BitVec.ofBool s.c))
  v : σ.get "v" = some (ofBV (BitVec.ofBool s.v))
  mem : σ.mem = s.mem
  endian : σ.endian = if s.big then Endian.big else Endian.little

/-! ### reads -/

theorem ev_rz {σ : State} {s : A64.St} (ha : Abs σ s) {N : Nat} (hN : N = 32 ∨ N = 64) {n : Nat} (hn : n < 32) :
    Ev σ (rz N n) N (A64.X s n N) := by
  unfold rz A64.X
  by_cases h31 : n = 31
  · simp only [h31, ↓reduceIte, k]
    have := @Ev.lit σ N 0 (Nat.two_pow_pos N)
    simpa using this
  · simp only [h31, ↓reduceIte]
    have hx := ha.x n (by omega)
    rcases hN with rfl | rfl
    · simp only [show ¬ (32 = 64) by decide, ↓reduceIte]
      exact Ev.trun 32 (by decide) (by decide) (Ev.scalar (s := sc (xName n) 64) hx)
    · simp only [↓reduceIte, BitVec.setWidth_eq]
      exact Ev.scalar (s := sc (xName n) 64) hx

theorem get_sName {σ : State} {s : A64.St} (ha : Abs σ s) {n : Nat} (hn : n < 32) :
    σ.get (sName n) = some (ofBV (A64.XSP s n 64)) := by
  unfold sName A64.XSP A64.SP A64.X
  by_cases h31 : n = 31
  · simp only [h31, ↓reduceIte, BitVec.setWidth_eq]; exact ha.sp
  · simp only [h31, ↓reduceIte, BitVec.setWidth_eq]; exact ha.x n (by omega)

theorem XSP_setWidth (s : A64.St) (n N : Nat) : A64.XSP s n N = (A64.XSP s n 64).setWidth N := by
  unfold A64.XSP A64.SP A64.X
  by_cases h31 : n = 31 <;> simp [h31]

theorem ev_rs {σ : State} {s : A64.St} (ha : Abs σ s) {N : Nat} (hN : N = 32 ∨ N = 64) {n : Nat} (hn : n < 32) :
    Ev σ (rs N n) N (A64.XSP s n N) := by
  unfold rs
  have hx := get_sName ha hn
  rw [XSP_setWidth]
  rcases hN with rfl | rfl
  · simp only [show ¬ (32 = 64) by decide, ↓reduceIte]
    exact Ev.trun 32 (by decide) (by decide) (Ev.scalar (s := sc (sName n) 64) hx)
  · simp only [↓reduceIte, BitVec.setWidth_eq]
    exact Ev.scalar (s := sc (sName n) 64) hx

/-- the value `widen` hands to the 64-bit scalar -/
theorem ev_widen {σ : State} {N : Nat} (hN : N = 32 ∨ N = 64) {e : Expr} {v : BitVec N} (he : Ev σ e N v) :
    Ev σ (widen N e) 64 (v.setWidth 64) := by
  unfold widen
  rcases hN with rfl | rfl
  · simp only [show ¬ (32 = 64) by decide, ↓reduceIte]
    exact Ev.zext 64 (by decide) (by decide) he
  · simpa using he

/-! ### execution of assignments -/

theorem exec_assign {σ : State} {e : Expr} {n : Nat} {v : BitVec n} (dst : Scalar) (h : Ev σ e n v) :
    execute σ (.assign dst e) = .ok (σ.set dst.name (ofBV v), .fallThrough) := by
  simp [execute, h.evalIn]

/-! ### writes -/

theorem abs_set_other {σ : State} {s : A64.St} (ha : Abs σ s) (name : String) (c : Const)
    (hx : ∀ i, xName i ≠ name) (hsp : name ≠ "sp") (hn : name ≠ "n") (hz : name ≠ "z") (hc : name ≠ "c")
    (hv : name ≠ "v") : Abs (σ.set name c) s where
  x i hi := by rw [get_set_ne _ _ (hx i)]; exact ha.x i hi
  sp := by rw [get_set_ne _ _ (Ne.symm hsp)]; exact ha.sp
  n := by rw [get_set_ne _ _ (Ne.symm hn)]; exact ha.n
  z := by rw [get_set_ne _ _ (Ne.symm hz)]; exact ha.z
  c := by rw [get_set_ne _ _ (Ne.symm hc)]; exact ha.c
  v := by rw [get_set_ne _ _ (Ne.symm hv)]; exact ha.v
  mem := ha.mem
  endian := ha.endian

theorem abs_set_xzr {σ : State} {s : A64.St} (ha : Abs σ s) (c : Const) : Abs (σ.set "xzr" c) s :=
  abs_set_other ha "xzr" c xName_ne_xzr (by decide) (by decide) (by decide) (by decide) (by decide)

theorem abs_set_temp {σ : State} {s : A64.St} (ha : Abs σ s) (a b : Nat) (c : Const) :
    Abs (σ.set (temp a b).name c) s :=
  abs_set_other ha _ c (fun i => xName_ne_temp i a b) (temp_ne_sp a b) (temp_ne_n a b) (temp_ne_z a b)
    (temp_ne_c a b) (temp_ne_v a b)

theorem abs_set_x {σ : State} {s : A64.St} (ha : Abs σ s) {d : Nat} (hd : d < 31) (v : BitVec 64) :
    Abs (σ.set (xName d) (ofBV v)) { s with x := fun i => if i = d then v else s.x i } where
  x i hi := by
    by_cases h : i = d
    · subst h; simp [get_set_self]
    · rw [get_set_ne _ _ (fun he => h (xName_inj he))]; simp [h, ha.x i hi]
  sp := by rw [get_set_ne _ _ (Ne.symm (xName_ne_sp d))]; exact ha.sp
  n := by rw [get_set_ne _ _ (Ne.symm (xName_ne_n d))]; exact ha.n
  z := by rw [get_set_ne _ _ (Ne.symm (xName_ne_z d))]; exact ha.z
  c := by rw [get_set_ne _ _ (Ne.symm (xName_ne_c d))]; exact ha.c
  v := by rw [get_set_ne _ _ (Ne.symm (xName_ne_v d))]; exact ha.v
  mem := ha.mem
  endian := ha.endian

theorem abs_set_sp {σ : State} {s : A64.St} (ha : Abs σ s) (v : BitVec 64) :
    Abs (σ.set "sp" (ofBV v)) { s with sp := v } where
  x i hi := by rw [get_set_ne _ _ (xName_ne_sp i)]; exact ha.x i hi
  sp := by simp [get_set_self]
  n := by rw [get_set_ne _ _ (by decide)]; exact ha.n
  z := by rw [get_set_ne _ _ (by decide)]; exact ha.z
  c := by rw [get_set_ne _ _ (by decide)]; exact ha.c
  v := by rw [get_set_ne _ _ (by decide)]; exact ha.v
  mem := ha.mem
  endian := ha.endian

/-- `setZ`: register 31 discards -/
theorem abs_setZ {σ : State} {s : A64.St} (ha : Abs σ s) {d : Nat} (hd : d < 32) {N : Nat} (v : BitVec N) :
    Abs (σ.set (zName d) (ofBV (v.setWidth 64))) (A64.setX s d v) := by
  unfold zName A64.setX
  by_cases h31 : d = 31
  · simp only [h31, ↓reduceIte]; exact abs_set_xzr ha _
  · simp only [h31, ↓reduceIte]; exact abs_set_x ha (by omega) _

/-- `setS`: register 31 is SP -/
theorem abs_setS {σ : State} {s : A64.St} (ha : Abs σ s) {d : Nat} (hd : d < 32) {N : Nat} (v : BitVec N) :
    Abs (σ.set (sName d) (ofBV (v.setWidth 64))) (A64.setXSP s d v) := by
  unfold sName A64.setXSP A64.setSP A64.setX
  by_cases h31 : d = 31
  · simp only [h31, ↓reduceIte]; exact abs_set_sp ha _
  · simp only [h31, ↓reduceIte]; exact abs_set_x ha (by omega) _

theorem abs_next {σ : State} {s : A64.St} (ha : Abs σ s) : Abs σ (A64.next s) :=
  { ha with }

theorem abs_pc {σ : State} {s : A64.St} (ha : Abs σ s) (t : BitVec 64) : Abs σ { s with pc := t } :=
  { ha with }

theorem fld_lt (w : BitVec 32) (hi lo : Nat) : A64.fld w hi lo < 2 ^ (hi + 1 - lo) := by
  unfold A64.fld; exact Nat.mod_lt _ (Nat.two_pow_pos _)

end C03
end Falcon
