/-
  FalconProofs.C03.CondBranch3 — class theorems for CBZ/CBNZ and TBZ/TBNZ.
-/
import FalconProofs.C03.CondBranch2

namespace Falcon
namespace C03
open Const A64Lift
open A64 (fld bit)

theorem ev_zero {σ : State} (N : Nat) : Ev σ (k 0 N) N (0 : BitVec N) :=
  @Ev.lit σ N 0 (Nat.two_pow_pos N)

/-- a value compared with zero: the `cmpneq` / `cmpeq` guard pair -/
theorem run_zero_guards {σ : State} (addr a b N : Nat) (v : Expr) (x : BitVec N) (hv : Ev σ v N x) :
    runBTR (terminator addr [] [(a, some (.bin .cmpneq v (k 0 N))), (b, some (.bin .cmpeq v (k 0 N)))]) σ
        = .next σ [if (x == 0) = true then b else a] ∧
    runBTR (terminator addr [] [(a, some (.bin .cmpeq v (k 0 N))), (b, some (.bin .cmpneq v (k 0 N)))]) σ
        = .next σ [if (x == 0) = true then a else b] := by
  have ene := Ev.cmpneq hv (ev_zero (σ := σ) N)
  have eeq := Ev.cmpeq hv (ev_zero (σ := σ) N)
  have hnn : (x == 0) = !(x != 0) := by simp [bne]
  constructor
  · have eeq' : Ev σ (.bin .cmpeq v (k 0 N)) 1 (BitVec.ofBool (!(x != 0))) := by rw [← hnn]; exact eeq
    rw [run_two_guards addr a b _ _ σ (x != 0) ene eeq']
    have hb : (x != 0) = !(x == 0) := by simp [bne]
    rw [hb]
    cases (x == 0) <;> rfl
  · have ene' : Ev σ (.bin .cmpneq v (k 0 N)) 1 (BitVec.ofBool (!(x == 0))) := by
      have : (!(x == 0)) = (x != 0) := by simp [bne]
      rw [this]; exact ene
    rw [run_two_guards addr a b _ _ σ (x == 0) eeq ene']

theorem step_cbz (w : BitVec 32) (s : A64.St) (hc : fld w 30 25 = 0b011010) :
    A64.step w s = A64.cbz s w (if bit w 31 = true then 64 else 32) := by
  have hnop := nop_not_class hc (by decide)
  have h1 : fld w 28 23 ≠ 0b100010 := by intro h; unfold A64.fld at h hc; omega
  have h2 : fld w 28 23 ≠ 0b100100 := by intro h; unfold A64.fld at h hc; omega
  have h3 : fld w 28 23 ≠ 0b100101 := by intro h; unfold A64.fld at h hc; omega
  have h5 : fld w 28 24 ≠ 0b01011 := by intro h; unfold A64.fld at h hc; omega
  have h6 : fld w 28 24 ≠ 0b01010 := by intro h; unfold A64.fld at h hc; omega
  have h7 : fld w 30 26 ≠ 0b00101 := by intro h; unfold A64.fld at h hc; omega
  have h8 : fld w 31 25 ≠ 0b0101010 := by intro h; unfold A64.fld at h hc; omega
  unfold A64.step
  simp only [hnop, h1, h2, h3, h5, h6, h7, h8, hc, ↓reduceIte]

theorem lift_branches_30_25 (w : BitVec 32) (addr : Nat) {v : Nat} (hc : fld w 30 25 = v) (hv : v = 26 ∨ v = 27) :
    lift w addr = branches w addr := by
  have hnop : w.toNat ≠ 0xd503201f := by
    rcases hv with rfl | rfl <;> exact nop_not_class hc (by decide)
  have h1 : fld w 28 23 ≠ 0b100010 := by intro h; unfold A64.fld at h hc; omega
  have h3 : fld w 28 23 ≠ 0b100101 := by intro h; unfold A64.fld at h hc; omega
  have h4 : fld w 28 24 ≠ 0b01011 := by intro h; unfold A64.fld at h hc; omega
  have h5 : fld w 28 24 ≠ 0b01010 := by intro h; unfold A64.fld at h hc; omega
  have h6 : ¬ (fld w 29 27 = 0b111 ∧ (!bit w 25) = true) := by intro h; unfold A64.fld at h hc; omega
  have h36 : fld w 28 23 ≠ 0b100100 := by intro h; unfold A64.fld at h hc; omega
  have h27 : ¬ (fld w 27 27 = 1 ∧ fld w 25 25 = 0) := by intro h; unfold A64.fld at h hc; omega
  exact lift_branches_of w addr hnop h1 h3 h4 h5 h6 h36 h27

theorem cbz_agrees (w : BitVec 32) (addr : Nat) (r : BTR) (hc : fld w 30 25 = 0b011010)
    (h : lift w addr = some r) (σ : State) (s : A64.St) (ha : Abs σ s)
    (hpc : s.pc = BitVec.ofNat 64 addr) (haddr : addr + 4 < 2 ^ 64) : Agrees r σ w s := by
  have b1 : fld w 30 26 ≠ 0b00101 := by intro h; unfold A64.fld at h hc; omega
  have b2 : fld w 31 25 ≠ 0b0101010 := by intro h; unfold A64.fld at h hc; omega
  rw [lift_branches_30_25 w addr hc (Or.inl rfl)] at h
  unfold branches at h
  simp only [b1, b2, hc, ↓reduceIte] at h
  rw [target_eq s addr _ _ hpc] at h
  unfold Agrees
  rw [step_cbz w s hc]
  unfold A64.cbz
  have hN := width_cases w
  have ht : fld w 4 0 < 32 := fld_lt w 4 0
  generalize (if bit w 31 = true then 64 else 32) = N at *
  generalize (s.pc + A64.sext64 (fld w 23 5) 19 2) = T at *
  have ev := ev_rz ha hN ht
  obtain ⟨hr1, hr2⟩ := run_zero_guards (σ := σ) addr T.toNat (addr + 4) N _ _ ev
  cases h24 : bit w 24 <;> simp only [h24, Bool.false_eq_true, ↓reduceIte, Bool.not_false, Bool.not_true] at h ⊢
  · -- cbz
    injection h with h; subst h
    cases hz : (A64.X s (fld w 4 0) N == 0)
    · simp only [hz, Bool.false_eq_true, ↓reduceIte] at hr2 ⊢
      refine ⟨σ, _, ?_, by simp, abs_next ha⟩
      rw [hr2, next_pc s addr hpc haddr]
    · simp only [hz, ↓reduceIte] at hr2 ⊢
      exact ⟨σ, _, hr2, by simp [A64.branchTo], abs_pc ha _⟩
  · -- cbnz
    injection h with h; subst h
    cases hz : (A64.X s (fld w 4 0) N == 0)
    · simp only [hz, Bool.false_eq_true, ↓reduceIte] at hr1 ⊢
      exact ⟨σ, _, hr1, by simp [A64.branchTo], abs_pc ha _⟩
    · simp only [hz, ↓reduceIte] at hr1 ⊢
      refine ⟨σ, _, ?_, by simp, abs_next ha⟩
      rw [hr1, next_pc s addr hpc haddr]

end C03
end Falcon
