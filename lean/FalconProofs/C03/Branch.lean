/-
  FalconProofs.C03.Branch — B, BL, BR, BLR, RET: the successor / `Operation::Branch` target of the lifted
  block is the architecture's next pc; BL/BLR write the link register (BLR after reading the target).
-/
import FalconProofs.C03.Mov

namespace Falcon
namespace C03
open Const A64Lift
open A64 (fld bit)

theorem exec_branch {σ : State} {e : Expr} {v : BitVec 64} (h : Ev σ e 64 v) :
    execute σ (.branch e) = .ok (σ, .branch v.toNat) := by
  have : v.toNat < 2 ^ 64 := v.isLt
  simp [execute, h.evalIn, addrOf, this]

theorem xName30 : xName 30 = "x30" := by decide

/-- the classes below are not reached by the earlier tests of `A64.step` / `lift` -/
theorem branch_dispatch (w : BitVec 32) (h : fld w 28 26 = 0b101) :
    w.toNat ≠ 0xd503201f ∨ True := Or.inr trivial

theorem step_bImm (w : BitVec 32) (s : A64.St) (hc : fld w 30 26 = 0b00101) : A64.step w s = A64.bImm s w := by
  have hnop := nop_not_class hc (by decide)
  have h1 : fld w 28 23 ≠ 0b100010 := by intro h; unfold A64.fld at h hc; omega
  have h2 : fld w 28 23 ≠ 0b100100 := by intro h; unfold A64.fld at h hc; omega
  have h3 : fld w 28 23 ≠ 0b100101 := by intro h; unfold A64.fld at h hc; omega
  have h4 : fld w 28 24 ≠ 0b01011 := by intro h; unfold A64.fld at h hc; omega
  have h5 : fld w 28 24 ≠ 0b01010 := by intro h; unfold A64.fld at h hc; omega
  unfold A64.step
  simp only [hnop, h1, h2, h3, h4, h5, hc, ↓reduceIte]

theorem lift_branches_of (w : BitVec 32) (addr : Nat) (hnop : w.toNat ≠ 0xd503201f)
    (h1 : fld w 28 23 ≠ 0b100010) (h3 : fld w 28 23 ≠ 0b100101) (h4 : fld w 28 24 ≠ 0b01011)
    (h5 : fld w 28 24 ≠ 0b01010) (h6 : ¬ (fld w 29 27 = 0b111 ∧ (!bit w 25) = true))
    (h7 : fld w 28 23 ≠ 0b100100) (h8 : ¬ (fld w 27 27 = 1 ∧ fld w 25 25 = 0)) :
    lift w addr = branches w addr := by
  unfold lift
  simp only [hnop, h1, h3, h4, h5, h6, h7, h8, ↓reduceIte, false_and]

theorem target_eq (s : A64.St) (addr imm bits : Nat) (hpc : s.pc = BitVec.ofNat 64 addr) :
    target addr imm bits = (s.pc + A64.sext64 imm bits 2).toNat := by
  unfold target; rw [hpc]

theorem bImm_agrees (w : BitVec 32) (addr : Nat) (r : BTR) (hc : fld w 30 26 = 0b00101)
    (h : lift w addr = some r) (σ : State) (s : A64.St) (ha : Abs σ s)
    (hpc : s.pc = BitVec.ofNat 64 addr) (haddr : addr + 4 < 2 ^ 64) : Agrees r σ w s := by
  have hnop := nop_not_class hc (by decide)
  have h1 : fld w 28 23 ≠ 0b100010 := by intro h; unfold A64.fld at h hc; omega
  have h3 : fld w 28 23 ≠ 0b100101 := by intro h; unfold A64.fld at h hc; omega
  have h4 : fld w 28 24 ≠ 0b01011 := by intro h; unfold A64.fld at h hc; omega
  have h5 : fld w 28 24 ≠ 0b01010 := by intro h; unfold A64.fld at h hc; omega
  have h6 : ¬ (fld w 29 27 = 0b111 ∧ (!bit w 25) = true) := by
    intro h; unfold A64.fld at h hc; omega
  have h36 : fld w 28 23 ≠ 0b100100 := by intro h; unfold A64.fld at h hc; omega
  have h27 : ¬ (fld w 27 27 = 1 ∧ fld w 25 25 = 0) := by intro h; unfold A64.fld at h hc; omega
  rw [lift_branches_of w addr hnop h1 h3 h4 h5 h6 h36 h27] at h
  unfold branches at h
  simp only [hc, ↓reduceIte] at h
  unfold Agrees
  rw [step_bImm w s hc]
  unfold A64.bImm
  rw [target_eq s addr _ _ hpc] at h
  cases hl : bit w 31 <;> simp only [hl, Bool.false_eq_true, ↓reduceIte] at h ⊢
  · -- b
    injection h with h; subst h
    refine ⟨σ, _, ?_, rfl, abs_pc ha _⟩
    unfold terminator
    rw [runBTR_one _ _ _ _ _ (by simp)]
    simp only [execOps, afterBlock_single]
    rfl
  · -- bl
    injection h with h; subst h
    have e1 : Ev σ (k ((addr + 4) % 2 ^ 64) 64) 64 (BitVec.ofNat 64 ((addr + 4) % 2 ^ 64)) :=
      Ev.lit (Nat.mod_lt _ (by decide))
    have hlink : BitVec.ofNat 64 ((addr + 4) % 2 ^ 64) = s.pc + 4 := by
      rw [hpc]; apply BitVec.eq_of_toNat_eq
      simp [BitVec.toNat_add, BitVec.toNat_ofNat]
    have a1 := abs_setZ ha (by decide : 30 < 32) (s.pc + 4)
    have hz : zName 30 = "x30" := by simp [zName, xName30]
    rw [hz, BitVec.setWidth_eq] at a1
    refine ⟨_, _, ?_, rfl, abs_pc a1 _⟩
    rw [runBTR_straight _ _ _ (by simp)]
    simp only [execOps]
    rw [exec_assign _ e1]
    simp only [sc]
    have e2 : Ev (σ.set "x30" (ofBV (BitVec.ofNat 64 ((addr + 4) % 2 ^ 64))))
        (k (s.pc + A64.sext64 (fld w 25 0) 26 2).toNat 64) 64
        (BitVec.ofNat 64 (s.pc + A64.sext64 (fld w 25 0) 26 2).toNat) := Ev.lit (BitVec.isLt _)
    rw [exec_branch e2, hlink]
    simp [A64.branchTo]

theorem step_brReg (w : BitVec 32) (s : A64.St) (hc : fld w 31 25 = 0b1101011) : A64.step w s = A64.brReg s w := by
  have hnop := nop_not_class hc (by decide)
  have h1 : fld w 28 23 ≠ 0b100010 := by intro h; unfold A64.fld at h hc; omega
  have h2 : fld w 28 23 ≠ 0b100100 := by intro h; unfold A64.fld at h hc; omega
  have h3 : fld w 28 23 ≠ 0b100101 := by intro h; unfold A64.fld at h hc; omega
  have h4 : fld w 28 24 ≠ 0b01011 := by intro h; unfold A64.fld at h hc; omega
  have h5 : fld w 28 24 ≠ 0b01010 := by intro h; unfold A64.fld at h hc; omega
  have h6 : fld w 30 26 ≠ 0b00101 := by intro h; unfold A64.fld at h hc; omega
  have h7 : fld w 31 25 ≠ 0b0101010 := by rw [hc]; decide
  have h8 : fld w 30 25 ≠ 0b011010 := by intro h; unfold A64.fld at h hc; omega
  have h9 : fld w 30 25 ≠ 0b011011 := by intro h; unfold A64.fld at h hc; omega
  unfold A64.step
  simp only [hnop, h1, h2, h3, h4, h5, h6, h8, h9, hc, ↓reduceIte, show ¬ ((107 : Nat) = 42) by decide]

theorem brReg_agrees (w : BitVec 32) (addr : Nat) (r : BTR) (hc : fld w 31 25 = 0b1101011)
    (h : lift w addr = some r) (σ : State) (s : A64.St) (ha : Abs σ s)
    (hpc : s.pc = BitVec.ofNat 64 addr) (haddr : addr + 4 < 2 ^ 64) : Agrees r σ w s := by
  have hnop := nop_not_class hc (by decide)
  have h1 : fld w 28 23 ≠ 0b100010 := by intro h; unfold A64.fld at h hc; omega
  have h3 : fld w 28 23 ≠ 0b100101 := by intro h; unfold A64.fld at h hc; omega
  have h4 : fld w 28 24 ≠ 0b01011 := by intro h; unfold A64.fld at h hc; omega
  have h5 : fld w 28 24 ≠ 0b01010 := by intro h; unfold A64.fld at h hc; omega
  have h6 : ¬ (fld w 29 27 = 0b111 ∧ (!bit w 25) = true) := by
    intro h; unfold A64.fld at h hc; omega
  have b1 : fld w 30 26 ≠ 0b00101 := by intro h; unfold A64.fld at h hc; omega
  have b2 : fld w 31 25 ≠ 0b0101010 := by rw [hc]; decide
  have b3 : fld w 30 25 ≠ 0b011010 := by intro h; unfold A64.fld at h hc; omega
  have b4 : fld w 30 25 ≠ 0b011011 := by intro h; unfold A64.fld at h hc; omega
  have h36 : fld w 28 23 ≠ 0b100100 := by intro h; unfold A64.fld at h hc; omega
  have h27 : ¬ (fld w 27 27 = 1 ∧ fld w 25 25 = 0) := by intro h; unfold A64.fld at h hc; omega
  rw [lift_branches_of w addr hnop h1 h3 h4 h5 h6 h36 h27] at h
  unfold branches at h
  simp only [b1, b3, b4, hc, ↓reduceIte, show ¬ ((107 : Nat) = 42) by decide] at h
  unfold Agrees
  rw [step_brReg w s hc]
  unfold A64.brReg
  have hn : fld w 9 5 < 32 := fld_lt w 9 5
  split at h
  · cases h
  · rename_i hres
    simp only [hres, ↓reduceIte]
    generalize fld w 9 5 = n at *
    have ev := ev_rz ha (Or.inr rfl : (64 : Nat) = 32 ∨ 64 = 64) hn
    split at h
    · -- br
      rename_i hopc
      injection h with h; subst h
      simp only [hopc, show ¬ (0 > 2) by decide, ↓reduceIte, show ¬ ((0 : Nat) = 1) by decide]
      refine ⟨σ, _, ?_, rfl, abs_pc ha _⟩
      unfold terminator
      rw [runBTR_one _ _ _ _ _ (by simp)]
      simp only [execOps]
      rw [exec_branch ev]
      rfl
    · -- blr
      rename_i hopc
      injection h with h; subst h
      simp only [hopc, show ¬ (1 > 2) by decide, ↓reduceIte]
      have e0 := ev_rz ha (Or.inr rfl : (64 : Nat) = 32 ∨ 64 = 64) hn
      have a0 := abs_set_temp ha addr 64 (ofBV (A64.X s n 64))
      have e1 : Ev (σ.set (temp addr 64).name (ofBV (A64.X s n 64))) (k ((addr + 4) % 2 ^ 64) 64) 64
          (BitVec.ofNat 64 ((addr + 4) % 2 ^ 64)) := Ev.lit (Nat.mod_lt _ (by decide))
      have hlink : BitVec.ofNat 64 ((addr + 4) % 2 ^ 64) = s.pc + 4 := by
        rw [hpc]; apply BitVec.eq_of_toNat_eq
        simp [BitVec.toNat_add, BitVec.toNat_ofNat]
      have a1 := abs_setZ a0 (by decide : 30 < 32) (s.pc + 4)
      have hz : zName 30 = "x30" := by simp [zName, xName30]
      rw [hz, BitVec.setWidth_eq] at a1
      refine ⟨_, _, ?_, rfl, abs_pc a1 _⟩
      rw [runBTR_straight _ _ _ (by simp)]
      simp only [execOps]
      rw [exec_assign _ e0]
      dsimp only
      rw [exec_assign _ e1]
      simp only [sc]
      have e2 : Ev ((σ.set (temp addr 64).name (ofBV (A64.X s n 64))).set "x30" (ofBV (BitVec.ofNat 64 ((addr + 4) % 2 ^ 64))))
          (.scalar (temp addr 64)) 64 (A64.X s n 64) := by
        apply Ev.scalar
        rw [C07.get_set_ne _ _ (by rw [← xName30]; exact Ne.symm (xName_ne_temp 30 addr 64)), C07.get_set_self]
      rw [exec_branch e2, hlink]
      simp [A64.branchTo]
    · -- ret
      rename_i hopc
      injection h with h; subst h
      simp only [hopc, show ¬ (2 > 2) by decide, ↓reduceIte, show ¬ ((2 : Nat) = 1) by decide]
      refine ⟨σ, _, ?_, rfl, abs_pc ha _⟩
      unfold terminator
      rw [runBTR_one _ _ _ _ _ (by simp)]
      simp only [execOps]
      rw [exec_branch ev]
      rfl
    · cases h

end C03
end Falcon
