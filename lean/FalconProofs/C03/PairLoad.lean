/-
  FalconProofs.C03.PairLoad — LDP/LDPSW/LDNP (integer): the block the lifter emits against the pseudocode body.
-/
import FalconProofs.C03.PairSpec

namespace Falcon
namespace C03
open Const A64Lift
open A64 (fld bit)
open C07 (get_set get_set_self get_set_ne)

theorem zName_ne_temp (t a b : Nat) : zName t ≠ (temp a b).name := by
  unfold zName
  by_cases h : t = 31
  · simp only [h, ↓reduceIte]; exact Ne.symm (temp_ne_xzr a b)
  · simp only [h, ↓reduceIte]; exact xName_ne_temp t a b

theorem regExpr_base (s : A64.St) {n : Nat} (hn : n < 32) :
    RegExpr s (.scalar (sc (sName n) 64)) 64 (A64.XSP s n 64) := by
  intro σ' s' ha hx hsp
  have := get_sName ha hn
  rw [XSP_congr hx hsp] at this
  exact Ev.scalar this

theorem regExpr_base_off (s : A64.St) {n off : Nat} (hn : n < 32) (hoff : off < 2 ^ 64) :
    RegExpr s (.bin .add (.scalar (sc (sName n) 64)) (A64Lift.k off 64)) 64 (A64.XSP s n 64 + BitVec.ofNat 64 off) :=
  fun σ' s' ha hx hsp => Ev.add (regExpr_base s hn σ' s' ha hx hsp) (Ev.lit hoff)

/-- the destination value of one element -/
def pairVal (signed : Bool) {sz : Nat} (d : BitVec (8 * sz)) : BitVec 64 :=
  if signed = true then d.signExtend 64 else d.setWidth 64

theorem setX_pairVal (s : A64.St) (t : Nat) (signed : Bool) {sz : Nat} (d : BitVec (8 * sz)) :
    (if signed = true then A64.setX s t (d.signExtend 64) else A64.setX s t d) = A64.setX s t (pairVal signed d) := by
  unfold pairVal A64.setX
  cases signed <;> simp

theorem pair_load_tail {σ : State} {s : A64.St} (ha : Abs σ s) (addr n t t2 off sz : Nat) (signed : Bool)
    (hsz : sz = 4 ∨ sz = 8) (hsr : signed = true → sz = 4)
    (hn : n < 32) (ht : t < 32) (ht2 : t2 < 32) (hoff : off < 2 ^ 64)
    (hpc : s.pc = BitVec.ofNat 64 addr) (haddr : addr + 4 < 2 ^ 64)
    (d1 d2 : BitVec (8 * sz)) (av : BitVec 64) (ae : Expr) (hae : RegExpr s ae 64 av)
    (hw1 : av.toNat + sz ≤ 2 ^ 64) (hw2 : (av + BitVec.ofNat 64 sz).toNat + sz ≤ 2 ^ 64)
    (hr1 : A64.memRead s av sz = some d1) (hr2 : A64.memRead s (av + BitVec.ofNat 64 sz) sz = some d2)
    (s' : A64.St) (wb : Bool) (hwb : wb = false ∨ ((n ≠ t ∨ n = 31) ∧ (n ≠ t2 ∨ n = 31)))
    (hs : s' = A64.next (if wb = true then
              A64.setXSP (A64.setX (A64.setX s t (pairVal signed d1)) t2 (pairVal signed d2)) n
                (A64.XSP s n 64 + BitVec.ofNat 64 off)
            else A64.setX (A64.setX s t (pairVal signed d1)) t2 (pairVal signed d2))) :
    ∃ σ', runBTR (straight addr
        ([.load (temp addr (8 * sz)) ae, .load (temp (addr + 1) (8 * sz)) (.bin .add ae (A64Lift.k sz 64)),
          setZ (if signed = true then 64 else 8 * sz) t
            (if signed = true then Expr.ext .sext 64 (.scalar (temp addr (8 * sz))) else .scalar (temp addr (8 * sz))),
          setZ (if signed = true then 64 else 8 * sz) t2
            (if signed = true then Expr.ext .sext 64 (.scalar (temp (addr + 1) (8 * sz)))
             else .scalar (temp (addr + 1) (8 * sz)))]
         ++ (if wb = true then [Op.assign (sc (sName n) 64)
               (.bin .add (.scalar (sc (sName n) 64)) (A64Lift.k off 64))] else []))) σ
        = .next σ' [s'.pc.toNat] ∧ Abs σ' s' := by
  have hk0 : 0 < sz := by omega
  have hk8 : 8 * sz ≤ 64 := by omega
  have hk1 : 1 ≤ 8 * sz := by omega
  have hszlt : sz < 2 ^ 64 := by omega
  -- first load
  obtain ⟨bs1, hbs1, hc1⟩ := memRead_bytes s σ ha.mem ha.endian av sz hw1 d1 hr1
  have hl1 := exec_load (temp addr (8 * sz)) sz hk0 rfl (hae σ s ha rfl rfl) hw1 bs1 hbs1
  rw [hc1] at hl1
  have a1 := abs_set_temp ha addr (8 * sz) (ofBV d1)
  -- second load
  have e2 : Ev (σ.set (temp addr (8 * sz)).name (ofBV d1)) (.bin .add ae (A64Lift.k sz 64)) 64
      (av + BitVec.ofNat 64 sz) := Ev.add (hae _ s a1 rfl rfl) (Ev.lit hszlt)
  obtain ⟨bs2, hbs2, hc2⟩ := memRead_bytes s _ a1.mem a1.endian (av + BitVec.ofNat 64 sz) sz hw2 d2 hr2
  have hl2 := exec_load (temp (addr + 1) (8 * sz)) sz hk0 rfl e2 hw2 bs2 hbs2
  rw [hc2] at hl2
  have a2 := abs_set_temp a1 (addr + 1) (8 * sz) (ofBV d2)
  -- the two temporaries in σ2
  have g0 : ((σ.set (temp addr (8 * sz)).name (ofBV d1)).set (temp (addr + 1) (8 * sz)).name (ofBV d2)).get
      (temp addr (8 * sz)).name = some (ofBV d1) := by
    rw [get_set_ne _ _ (temp_succ_ne addr _ _), get_set_self]
  have et0 : Ev _ (.scalar (temp addr (8 * sz))) (8 * sz) d1 := Ev.scalar g0
  -- first destination
  have hd1 : ∃ σ3, execute ((σ.set (temp addr (8 * sz)).name (ofBV d1)).set (temp (addr + 1) (8 * sz)).name (ofBV d2))
        (setZ (if signed = true then 64 else 8 * sz) t
          (if signed = true then Expr.ext .sext 64 (.scalar (temp addr (8 * sz))) else .scalar (temp addr (8 * sz))))
        = .ok (σ3, .fallThrough) ∧ Abs σ3 (A64.setX s t (pairVal signed d1)) ∧
        σ3.get (temp (addr + 1) (8 * sz)).name = some (ofBV d2) := by
    cases hsg : signed
    · simp only [Bool.false_eq_true, ↓reduceIte, setZ]
      refine ⟨_, exec_assign _ (ev_widen' hk1 hk8 et0), ?_, ?_⟩
      · have := abs_setZ a2 ht (d1.setWidth 64)
        rw [BitVec.setWidth_eq] at this
        simpa [pairVal, sc] using this
      · simp only [sc]
        rw [get_set_ne _ _ (Ne.symm (zName_ne_temp t _ _)), get_set_self]
    · have hz4 : sz = 4 := hsr hsg
      subst hz4
      simp only [↓reduceIte, setZ]
      have es := Ev.sext 64 (by decide) (by decide) et0
      refine ⟨_, exec_assign _ (ev_widen' (by decide) (by decide) es), ?_, ?_⟩
      · have := abs_setZ a2 ht (d1.signExtend 64)
        simpa [pairVal, sc] using this
      · simp only [sc]
        rw [get_set_ne _ _ (Ne.symm (zName_ne_temp t _ _)), get_set_self]
  obtain ⟨σ3, hex3, a3, g1⟩ := hd1
  have et1 : Ev σ3 (.scalar (temp (addr + 1) (8 * sz))) (8 * sz) d2 := Ev.scalar g1
  -- second destination
  have hd2 : ∃ σ4, execute σ3
        (setZ (if signed = true then 64 else 8 * sz) t2
          (if signed = true then Expr.ext .sext 64 (.scalar (temp (addr + 1) (8 * sz)))
           else .scalar (temp (addr + 1) (8 * sz))))
        = .ok (σ4, .fallThrough) ∧ Abs σ4 (A64.setX (A64.setX s t (pairVal signed d1)) t2 (pairVal signed d2)) := by
    cases hsg : signed
    · simp only [Bool.false_eq_true, ↓reduceIte, setZ]
      refine ⟨_, exec_assign _ (ev_widen' hk1 hk8 et1), ?_⟩
      have := abs_setZ a3 ht2 (d2.setWidth 64)
      rw [BitVec.setWidth_eq] at this
      simpa [pairVal, hsg, sc] using this
    · have hz4 : sz = 4 := hsr hsg
      subst hz4
      simp only [↓reduceIte, setZ]
      have es := Ev.sext 64 (by decide) (by decide) et1
      refine ⟨_, exec_assign _ (ev_widen' (by decide) (by decide) es), ?_⟩
      have := abs_setZ a3 ht2 (d2.signExtend 64)
      simpa [pairVal, hsg, sc] using this
  obtain ⟨σ4, hex4, a4⟩ := hd2
  have hpc4 : (A64.setX (A64.setX s t (pairVal signed d1)) t2 (pairVal signed d2)).pc = s.pc := by
    rw [pc_setX, pc_setX]
  cases hw : wb
  · subst hs
    simp only [hw, Bool.false_eq_true, ↓reduceIte, List.append_nil]
    refine ⟨σ4, ?_, abs_next a4⟩
    rw [runBTR_straight _ _ _ (by simp)]
    simp only [execOps]
    rw [hl1]; dsimp only
    rw [hl2]; dsimp only
    rw [hex3]; dsimp only
    rw [hex4]; dsimp only
    show _ = LiftOut.next σ4 [((A64.setX (A64.setX s t (pairVal signed d1)) t2 (pairVal signed d2)).pc + 4).toNat]
    rw [hpc4, pc_next s addr hpc haddr]
  · subst hs
    simp only [hw, ↓reduceIte]
    have hnt : (n ≠ t ∨ n = 31) ∧ (n ≠ t2 ∨ n = 31) := by
      rcases hwb with h | h
      · rw [hw] at h; cases h
      · exact h
    have hbase4 : Ev σ4 (.scalar (sc (sName n) 64)) 64 (A64.XSP s n 64) := by
      have := get_sName a4 hn
      rw [XSP_setX_ne _ _ _ _ hnt.2, XSP_setX_ne _ _ _ _ hnt.1] at this
      exact Ev.scalar this
    have ewb : Ev σ4 (.bin .add (.scalar (sc (sName n) 64)) (A64Lift.k off 64)) 64 _ :=
      Ev.add hbase4 (@Ev.lit σ4 64 off hoff)
    have a5 := abs_setS a4 hn (A64.XSP s n 64 + BitVec.ofNat 64 off)
    rw [BitVec.setWidth_eq] at a5
    refine ⟨_, ?_, abs_next a5⟩
    rw [runBTR_straight _ _ _ (by simp)]
    simp only [execOps, List.cons_append, List.nil_append]
    rw [hl1]; dsimp only
    rw [hl2]; dsimp only
    rw [hex3]; dsimp only
    rw [hex4]; dsimp only
    rw [exec_assign _ ewb]
    show _ = LiftOut.next _ [((A64.setXSP (A64.setX (A64.setX s t (pairVal signed d1)) t2 (pairVal signed d2)) n _).pc + 4).toNat]
    rw [pc_setXSP, hpc4, pc_next s addr hpc haddr]
    rfl

end C03
end Falcon
