/-
  FalconProofs.C03.Prefetch — PRFM (unsigned offset), PRFUM, PRFM (register offset): lifted as `nop`; the
  pseudocode's `Prefetch()` hint changes no architectural state.
-/
import FalconProofs.C03.Others

namespace Falcon
namespace C03
open Const A64Lift
open A64 (fld bit)

theorem ldstInt_prefetch (s : A64.St) (sg : Bool) (sz rs n t : Nat) (off : BitVec 64) :
    A64.ldstInt s .prefetch sg sz rs n t off false false = .ok (A64.next s) := by
  unfold A64.ldstInt
  simp

theorem nop_block {σ : State} {s : A64.St} (ha : Abs σ s) (addr : Nat) (hpc : s.pc = BitVec.ofNat 64 addr)
    (haddr : addr + 4 < 2 ^ 64) :
    runBTR (straight addr [.nop]) σ = .next σ [(A64.next s).pc.toNat] ∧ Abs σ (A64.next s) := by
  refine ⟨?_, abs_next ha⟩
  rw [runBTR_straight _ _ _ (by simp)]
  simp only [execOps, execute]
  show LiftOut.next σ [addr + 4] = LiftOut.next σ [(s.pc + 4).toNat]
  rw [pc_next s addr hpc haddr]

theorem prfmImm_agrees (w : BitVec 32) (addr : Nat) (r : BTR) (hc : fld w 29 27 = 0b111) (h25 : bit w 25 = false)
    (h26 : bit w 26 = false) (himm : ImmForm w) (sg : Bool) (rs : Nat)
    (hdec : A64.decodeSizeOpc (fld w 31 30) (fld w 23 22) = some (.prefetch, sg, rs))
    (h : lift w addr = some r) (σ : State) (s : A64.St) (ha : Abs σ s)
    (hpc : s.pc = BitVec.ofNat 64 addr) (haddr : addr + 4 < 2 ^ 64) : Agrees r σ w s := by
  rw [lift_ldstImm w addr hc h25 himm] at h
  have hg := ldstImm_guard w himm
  unfold ldstImm at h
  simp only [h26, Bool.false_eq_true, ↓reduceIte, hdec, hg, decide_eq_true_eq] at h
  by_cases hmode : (if fld w 25 24 = 1 then 4 else fld w 11 10) = 4 ∨ (if fld w 25 24 = 1 then 4 else fld w 11 10) = 0
  case neg => simp only [hmode, ↓reduceIte] at h; cases h
  simp only [hmode, ↓reduceIte] at h
  injection h with h; subst h
  unfold Agrees
  rw [step_ldstSingle w s hc h25]
  have hspec : A64.ldstSingle s w = .ok (A64.next s) := by
    unfold A64.ldstSingle
    simp only [h26, Bool.false_eq_true, false_and, ↓reduceIte, hdec]
    rcases himm with h1 | ⟨h0, h21, h2⟩
    · simp only [h1, ↓reduceIte, Bool.false_eq_true, and_false, ldstInt_prefetch]
    · have hmode' : fld w 11 10 = 4 ∨ fld w 11 10 = 0 := by simpa [h0] using hmode
      have h4 : fld w 11 10 < 4 := fld_lt w 11 10
      have hm0 : fld w 11 10 = 0 := by omega
      simp only [h0, show ¬ ((0 : Nat) = 1) by decide, ↓reduceIte, h21, Bool.not_false, ne_eq, not_true_eq_false, hm0,
        Bool.false_eq_true, and_false, ldstInt_prefetch]
  have := nop_block ha addr hpc haddr
  exact ⟨σ, _, this.1, hspec, this.2⟩

theorem prfmReg_agrees (w : BitVec 32) (addr : Nat) (r : BTR) (hc : fld w 29 27 = 0b111) (h25 : bit w 25 = false)
    (h26 : bit w 26 = false) (hreg : RegForm w) (sg : Bool) (rs : Nat)
    (hdec : A64.decodeSizeOpc (fld w 31 30) (fld w 23 22) = some (.prefetch, sg, rs))
    (h : lift w addr = some r) (σ : State) (s : A64.St) (ha : Abs σ s)
    (hpc : s.pc = BitVec.ofNat 64 addr) (haddr : addr + 4 < 2 ^ 64) : Agrees r σ w s := by
  rw [lift_ldstReg w addr hc h25 h26 hreg] at h
  have hb := body_prefetch ha addr _ _ _ sg rs hdec hpc haddr _ r h
  obtain ⟨h24, h21, h10, hopt⟩ := hreg
  unfold Agrees
  rw [step_ldstSingle w s hc h25]
  have hspec : A64.ldstSingle s w = .ok (A64.next s) := by
    unfold A64.ldstSingle
    simp only [h26, Bool.false_eq_true, false_and, ↓reduceIte, hdec, h24, h21, h10, hopt,
      show ¬ ((0 : Nat) = 1) by decide, ne_eq, not_true_eq_false, Bool.not_true, and_false, ldstInt_prefetch]
  exact ⟨σ, _, hb.1, hspec, hb.2⟩

end C03
end Falcon
