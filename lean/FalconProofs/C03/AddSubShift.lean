/-
  FalconProofs.C03.AddSubShift — the class theorem for ADD/ADDS/SUB/SUBS (shifted register).
-/
import FalconProofs.C03.AddSubImm2

namespace Falcon
namespace C03
open Const A64Lift
open A64 (fld bit)

theorem step_addSubShift (w : BitVec 32) (s : A64.St) (hc : fld w 28 24 = 0b01011) (h21 : bit w 21 = false) :
    A64.step w s = A64.addSubShift s w (if bit w 31 = true then 64 else 32) := by
  have hnop := nop_not_class hc (by decide)
  have h1 : fld w 28 23 ≠ 0b100010 := by
    intro h; unfold A64.fld at h hc; omega
  have h2 : fld w 28 23 ≠ 0b100100 := by
    intro h; unfold A64.fld at h hc; omega
  have h3 : fld w 28 23 ≠ 0b100101 := by
    intro h; unfold A64.fld at h hc; omega
  unfold A64.step
  simp only [hnop, h1, h2, h3, hc, h21, ↓reduceIte, Bool.false_eq_true]

theorem lift_addSubShift (w : BitVec 32) (addr : Nat) (hc : fld w 28 24 = 0b01011) (h21 : bit w 21 = false) :
    lift w addr = A64Lift.addSubShift w addr := by
  have hnop := nop_not_class hc (by decide)
  have h1 : fld w 28 23 ≠ 0b100010 := by
    intro h; unfold A64.fld at h hc; omega
  unfold lift
  simp only [hnop, h1, hc, h21, ↓reduceIte, Bool.not_false, and_self]

/-- the shifted-register operand -/
theorem regExpr_shifted (s : A64.St) {N : Nat} (hN : N = 32 ∨ N = 64) {m : Nat} (hm : m < 32)
    {shift amount : Nat} (hs : shift < 3) (ha : amount < N) :
    RegExpr s (shifted N (rz N m) shift amount) N
      (A64.shiftReg (A64.X s m N) (A64.decodeShift shift) amount) := by
  have hp : N < 2 ^ N := by rcases hN with rfl | rfl <;> decide
  have h64 : N < 2 ^ 64 := by rcases hN with rfl | rfl <;> decide
  have hN1 : 1 ≤ N := by rcases hN with rfl | rfl <;> decide
  have hv := regExpr_rz s hN hm
  have hamt : (BitVec.ofNat N amount).toNat = amount := by
    rw [BitVec.toNat_ofNat]; exact Nat.mod_eq_of_lt (by omega)
  intro σ' s' ha' hx hsp
  have hk : Ev σ' (k amount N) N (BitVec.ofNat N amount) := Ev.lit (by omega)
  have hshift : shift = 0 ∨ shift = 1 ∨ shift = 2 := by omega
  rcases hshift with rfl | rfl | rfl
  · simp only [shifted, A64.decodeShift, A64.shiftReg]
    by_cases h0 : amount = 0
    · subst h0; simpa using hv σ' s' ha' hx hsp
    · simp only [h0, ↓reduceIte]
      have := Ev.shl h64 (hv σ' s' ha' hx hsp) hk
      rwa [hamt] at this
  · simp only [shifted, A64.decodeShift, A64.shiftReg]
    have := Ev.shr h64 (hv σ' s' ha' hx hsp) hk
    rwa [hamt] at this
  · simp only [shifted, A64.decodeShift, A64.shiftReg]
    have := Ev.ashr hN1 h64 (hv σ' s' ha' hx hsp) hk
    rwa [hamt] at this

theorem addSubShift_agrees (w : BitVec 32) (addr : Nat) (r : BTR) (hc : fld w 28 24 = 0b01011)
    (h21 : bit w 21 = false) (h : lift w addr = some r) (σ : State) (s : A64.St) (ha : Abs σ s)
    (hpc : s.pc = BitVec.ofNat 64 addr) (haddr : addr + 4 < 2 ^ 64) :
    if bit w 30 = true ∧ bit w 29 = true then AgreesBorrow r σ w s else Agrees r σ w s := by
  rw [lift_addSubShift w addr hc h21] at h
  unfold Agrees AgreesBorrow
  rw [step_addSubShift w s hc h21]
  have hN := width_cases w
  have hd : fld w 4 0 < 32 := fld_lt w 4 0
  have hn : fld w 9 5 < 32 := fld_lt w 9 5
  have hm : fld w 20 16 < 32 := fld_lt w 20 16
  have hi : fld w 15 10 < 64 := fld_lt w 15 10
  have hsh4 : fld w 23 22 < 4 := fld_lt w 23 22
  unfold A64Lift.addSubShift at h
  unfold A64.addSubShift
  simp only [] at h ⊢
  generalize (if bit w 31 = true then 64 else 32) = N at *
  generalize fld w 4 0 = d at *
  generalize fld w 9 5 = n at *
  generalize fld w 20 16 = m at *
  generalize fld w 15 10 = imm6 at *
  generalize fld w 23 22 = shift at *
  have hN1 : 1 ≤ N := by rcases hN with rfl | rfl <;> decide
  have hN64 : N ≤ 64 := by rcases hN with rfl | rfl <;> decide
  have hnext : ∀ s0 : A64.St, s0.pc = s.pc → (A64.next s0).pc.toNat = addr + 4 := fun s0 h0 => by
    show (s0.pc + 4).toNat = addr + 4
    rw [h0]; exact pc_next s addr hpc haddr
  -- the reserved encodings are rejected by both sides
  by_cases hres : shift = 3 ∨ N = 32 ∧ imm6 ≥ 32
  · simp only [hres, ↓reduceIte] at h; cases h
  · simp only [hres, ↓reduceIte] at h
    have hs3 : shift ≠ 3 := fun e => hres (Or.inl e)
    have h32 : ¬ (N = 32 ∧ imm6 ≥ 32) := fun e => hres (Or.inr e)
    simp only [hs3, h32, ↓reduceIte]
    have hshift : shift < 3 := by omega
    have hamt : imm6 < N := by rcases hN with rfl | rfl <;> omega
    have hl := regExpr_rz s hN hn
    have hr := regExpr_shifted s hN hm hshift hamt
    cases hsub : bit w 30 <;> cases hS : bit w 29 <;> simp only [hsub, hS, Bool.false_eq_true, false_and, and_false,
      and_true, true_and, ↓reduceIte] at h ⊢
    · -- add
      injection h with h; subst h
      rw [addSub_noflags, addSub_res_add]
      refine ⟨_, _, ?_, rfl, abs_next (abs_setZ ha hd _)⟩
      rw [run_setZ (s := s) addr hN d (Ev.add (hl σ s ha rfl rfl) (hr σ s ha rfl rfl)), hnext _ (pc_setX s d _)]
    · -- adds
      split at h
      · cases h
      · injection h with h; subst h
        rw [addSub_res_add, addSub_flags_add hN1 hN64]
        obtain ⟨σ', hrun, habs⟩ := run_flags_setZ arith_add ha addr hN hd hl hr
        refine ⟨σ', _, ?_, rfl, abs_next habs⟩
        rw [hrun, hnext _ (by rw [pc_setX])]
    · -- sub
      split at h
      · cases h
      · injection h with h; subst h
        rw [addSub_noflags, addSub_res_sub]
        refine ⟨_, _, ?_, rfl, abs_next (abs_setZ ha hd _)⟩
        rw [run_setZ (s := s) addr hN d (Ev.sub (hl σ s ha rfl rfl) (hr σ s ha rfl rfl)), hnext _ (pc_setX s d _)]
    · -- subs
      split at h
      · cases h
      · split at h
        · cases h
        · rename_i hd31 _
          injection h with h; subst h
          rw [addSub_res_sub, addSub_flags_sub hN1 hN64]
          obtain ⟨σ', hrun, habs⟩ := run_flags_setZ arith_sub ha addr hN hd hl hr
          have hd31' : ¬ d = 31 := hd31
          refine ⟨σ', _, ?_, rfl, ?_⟩
          · rw [hrun, hnext _ (by rw [pc_setX])]
          · have := abs_next habs
            unfold A64.setX at this ⊢
            simp only [hd31', ↓reduceIte, A64.next, withNZCV, Bool.not_not] at this ⊢
            exact this

end C03
end Falcon
