/-
  FalconProofs.C03.CondBranch2 — class theorems for B.cond, CBZ/CBNZ, TBZ/TBNZ.
-/
import FalconProofs.C03.CondBranch

namespace Falcon
namespace C03
open Const A64Lift
open A64 (fld bit)

theorem next_pc (s : A64.St) (addr : Nat) (hpc : s.pc = BitVec.ofNat 64 addr) (haddr : addr + 4 < 2 ^ 64) :
    (A64.next s).pc.toNat = addr + 4 := pc_next s addr hpc haddr

/-! ### B.cond -/

theorem step_bCond (w : BitVec 32) (s : A64.St) (hc : fld w 31 25 = 0b0101010) (h24 : bit w 24 = false)
    (h4 : bit w 4 = false) : A64.step w s = A64.bCond s w := by
  have hnop := nop_not_class hc (by decide)
  have h1 : fld w 28 23 ≠ 0b100010 := by intro h; unfold A64.fld at h hc; omega
  have h2 : fld w 28 23 ≠ 0b100100 := by intro h; unfold A64.fld at h hc; omega
  have h3 : fld w 28 23 ≠ 0b100101 := by intro h; unfold A64.fld at h hc; omega
  have h5 : fld w 28 24 ≠ 0b01011 := by intro h; unfold A64.fld at h hc; omega
  have h6 : fld w 28 24 ≠ 0b01010 := by intro h; unfold A64.fld at h hc; omega
  have h7 : fld w 30 26 ≠ 0b00101 := by intro h; unfold A64.fld at h hc; omega
  unfold A64.step
  simp only [hnop, h1, h2, h3, h5, h6, h7, hc, h24, h4, ↓reduceIte, Bool.false_eq_true, or_self]

theorem bCond_agrees (w : BitVec 32) (addr : Nat) (r : BTR) (hc : fld w 31 25 = 0b0101010)
    (h : lift w addr = some r) (σ : State) (s : A64.St) (ha : Abs σ s)
    (hpc : s.pc = BitVec.ofNat 64 addr) (haddr : addr + 4 < 2 ^ 64) : Agrees r σ w s := by
  have hnop := nop_not_class hc (by decide)
  have h1 : fld w 28 23 ≠ 0b100010 := by intro h; unfold A64.fld at h hc; omega
  have h3 : fld w 28 23 ≠ 0b100101 := by intro h; unfold A64.fld at h hc; omega
  have h4 : fld w 28 24 ≠ 0b01011 := by intro h; unfold A64.fld at h hc; omega
  have h5 : fld w 28 24 ≠ 0b01010 := by intro h; unfold A64.fld at h hc; omega
  have h6 : ¬ (fld w 29 27 = 0b111 ∧ (!bit w 25) = true) := by intro h; unfold A64.fld at h hc; omega
  have b1 : fld w 30 26 ≠ 0b00101 := by intro h; unfold A64.fld at h hc; omega
  have h36 : fld w 28 23 ≠ 0b100100 := by intro h; unfold A64.fld at h hc; omega
  have h27 : ¬ (fld w 27 27 = 1 ∧ fld w 25 25 = 0) := by intro h; unfold A64.fld at h hc; omega
  rw [lift_branches_of w addr hnop h1 h3 h4 h5 h6 h36 h27] at h
  unfold branches at h
  simp only [b1, hc, ↓reduceIte] at h
  split at h
  · cases h
  · rename_i hbits
    have h24 : bit w 24 = false := by
      cases hb : bit w 24
      · rfl
      · exact absurd (Or.inl hb) hbits
    have hb4 : bit w 4 = false := by
      cases hb : bit w 4
      · rfl
      · exact absurd (Or.inr hb) hbits
    unfold Agrees
    rw [step_bCond w s hc h24 hb4]
    unfold A64.bCond
    rw [conditionHolds_eq]
    rw [target_eq s addr _ _ hpc] at h
    have hcond : fld w 3 0 < 16 := fld_lt w 3 0
    generalize fld w 3 0 = cond at *
    generalize hT : (s.pc + A64.sext64 (fld w 23 5) 19 2) = T at *
    split at h
    · -- AL / NV
      rename_i h7
      injection h with h; subst h
      have hb : condBase s (cond / 2) = true := by rw [h7]; rfl
      have hholds : (if cond % 2 = 1 ∧ cond ≠ 15 then !condBase s (cond / 2) else condBase s (cond / 2)) = true := by
        have : ¬ (cond % 2 = 1 ∧ cond ≠ 15) := by omega
        simp only [this, ↓reduceIte, hb]
      simp only [hholds, ↓reduceIte]
      exact ⟨σ, _, run_one_succ addr _ σ, rfl, abs_pc ha _⟩
    · rename_i h7
      have hc7 : cond / 2 < 7 := by omega
      have ect := ev_condExpr ha (cond / 2) hc7
      split at h
      · -- odd condition: (t, !ct), (pc+4, ct)
        rename_i hodd
        injection h with h; subst h
        have hne : cond % 2 = 1 ∧ cond ≠ 15 := ⟨hodd, by omega⟩
        rw [if_pos hne]
        have ect' : Ev σ (condExpr (cond / 2)) 1 (BitVec.ofBool (!!condBase s (cond / 2))) := by
          rw [Bool.not_not]; exact ect
        have hrun := run_two_guards addr T.toNat (addr + 4) _ _ σ (!condBase s (cond / 2)) (ev_notE ect) ect'
        cases hb : condBase s (cond / 2)
        · simp only [hb, Bool.not_false, ↓reduceIte] at hrun ⊢
          exact ⟨σ, _, hrun, rfl, abs_pc ha _⟩
        · simp only [hb, Bool.not_true, Bool.false_eq_true, ↓reduceIte] at hrun ⊢
          refine ⟨σ, _, ?_, rfl, abs_next ha⟩
          rw [hrun, next_pc s addr hpc haddr]
      · rename_i hodd
        injection h with h; subst h
        have hne : ¬ (cond % 2 = 1 ∧ cond ≠ 15) := fun e => hodd e.1
        rw [if_neg hne]
        have hrun := run_two_guards addr T.toNat (addr + 4) _ _ σ (condBase s (cond / 2)) ect (ev_notE ect)
        cases hb : condBase s (cond / 2)
        · simp only [hb, Bool.false_eq_true, ↓reduceIte] at hrun ⊢
          refine ⟨σ, _, ?_, rfl, abs_next ha⟩
          rw [hrun, next_pc s addr hpc haddr]
        · simp only [hb, ↓reduceIte] at hrun ⊢
          exact ⟨σ, _, hrun, rfl, abs_pc ha _⟩

end C03
end Falcon
