/-
  FalconProofs.C03.CondBranch — B.cond, CBZ/CBNZ, TBZ/TBNZ: the pair of guarded successors the lifter emits
  selects exactly the next pc of the pseudocode (`ConditionHolds`, `IsZero`, bit test), for every state.
-/
import FalconProofs.C03.Store

namespace Falcon
namespace C03
open Const A64Lift
open A64 (fld bit)

theorem isOne_ofBool (b : Bool) : (ofBV (BitVec.ofBool b)).isOne = b := by cases b <;> rfl

/-- two guarded successors whose guards evaluate to `b` and `!b` -/
theorem run_two_guards (addr a b : Nat) (g h : Expr) (σ : State) (bg : Bool)
    (hg : Ev σ g 1 (BitVec.ofBool bg)) (hh : Ev σ h 1 (BitVec.ofBool (!bg))) :
    runBTR (terminator addr [] [(a, some g), (b, some h)]) σ = .next σ [if bg = true then a else b] := by
  unfold terminator
  rw [runBTR_one _ _ _ _ _ (by simp)]
  simp only [execOps]
  rw [afterBlock_two a b g h σ _ _ hg.evalIn hh.evalIn, isOne_ofBool, isOne_ofBool]
  cases bg <;> simp

theorem run_one_succ (addr a : Nat) (σ : State) :
    runBTR (terminator addr [] [(a, none)]) σ = .next σ [a] := by
  unfold terminator
  rw [runBTR_one _ _ _ _ _ (by simp)]
  simp only [execOps, afterBlock_single]

theorem ev_notE {σ : State} {e : Expr} {b : Bool} (he : Ev σ e 1 (BitVec.ofBool b)) :
    Ev σ (notE e) 1 (BitVec.ofBool (!b)) := by
  have := Ev.cmpneq he (@Ev.lit σ 1 1 (by decide))
  have hb : (BitVec.ofBool b != BitVec.ofNat 1 1) = !b := by cases b <;> decide
  rw [hb] at this
  exact this

/-- the base condition of `ConditionHolds` (cond<3:1>) -/
def condBase (s : A64.St) (c : Nat) : Bool :=
  match c with
  | 0 => s.z
  | 1 => s.c
  | 2 => s.n
  | 3 => s.v
  | 4 => s.c && !s.z
  | 5 => s.n == s.v
  | 6 => (s.n == s.v) && !s.z
  | _ => true

theorem ev_condExpr {σ : State} {s : A64.St} (ha : Abs σ s) (c : Nat) (hc : c < 7) :
    Ev σ (condExpr c) 1 (BitVec.ofBool (condBase s c)) := by
  have ez : Ev σ (flagE "z") 1 (BitVec.ofBool s.z) := Ev.scalar (s := sc "z" 1) ha.z
  have ec : Ev σ (flagE "c") 1 (BitVec.ofBool s.c) := Ev.scalar (s := sc "c" 1) ha.c
  have en : Ev σ (flagE "n") 1 (BitVec.ofBool s.n) := Ev.scalar (s := sc "n" 1) ha.n
  have ev : Ev σ (flagE "v") 1 (BitVec.ofBool s.v) := Ev.scalar (s := sc "v" 1) ha.v
  have heq : ∀ a b : Bool, (BitVec.ofBool a == BitVec.ofBool b) = (a == b) := by
    intro a b; cases a <;> cases b <;> decide
  have hc' : c = 0 ∨ c = 1 ∨ c = 2 ∨ c = 3 ∨ c = 4 ∨ c = 5 ∨ c = 6 := by omega
  rcases hc' with rfl | rfl | rfl | rfl | rfl | rfl | rfl
  · exact ez
  · exact ec
  · exact en
  · exact ev
  · have := Ev.and ec (ev_notE ez)
    rw [BitVec.ofBool_and_ofBool] at this
    exact this
  · have := Ev.cmpeq en ev
    rw [heq] at this
    exact this
  · have h1 := Ev.cmpeq en ev
    rw [heq] at h1
    have := Ev.and h1 (ev_notE ez)
    rw [BitVec.ofBool_and_ofBool] at this
    exact this

theorem conditionHolds_eq (s : A64.St) (cond : Nat) :
    A64.conditionHolds s cond =
      (if cond % 2 = 1 ∧ cond ≠ 15 then !condBase s (cond / 2) else condBase s (cond / 2)) := by
  have hb : A64.conditionHolds s cond =
      (if (decide (cond % 2 = 1) && decide (cond ≠ 15)) = true then !condBase s (cond / 2)
       else condBase s (cond / 2)) := rfl
  rw [hb]
  by_cases h1 : cond % 2 = 1 <;> by_cases h2 : cond = 15 <;> simp [h1, h2]

end C03
end Falcon
