/-
  FalconProofs.C03.AddSubExt — the class theorem for ADD/ADDS/SUB/SUBS (extended register).
-/
import FalconProofs.C03.Extend

namespace Falcon
namespace C03
open Const A64Lift
open A64 (fld bit)

/-- narrow extend of a W register: `ext N (trun len (rz 32 m))` -/
theorem ev_ext_narrow {σ : State} {s : A64.St} (ha : Abs σ s) {N : Nat} (hN : N = 32 ∨ N = 64) {m : Nat} (hm : m < 32)
    (len : Nat) (hlen : len = 8 ∨ len = 16) :
    Ev σ (.ext .zext N (.ext .trun len (rz 32 m))) N (((A64.X s m N).setWidth len).setWidth N) ∧
    Ev σ (.ext .sext N (.ext .trun len (rz 32 m))) N (((A64.X s m N).setWidth len).signExtend N) := by
  have h32 := ev_rz ha (Or.inl rfl : (32 : Nat) = 32 ∨ 32 = 64) hm
  have hl1 : 1 ≤ len := by omega
  have hl32 : len < 32 := by omega
  have hlN : len < N := by rcases hN with rfl | rfl <;> omega
  have e := Ev.trun len hl1 hl32 h32
  have hx : (A64.X s m 32).truncate len = (A64.X s m N).setWidth len := by
    rw [show (A64.X s m 32).truncate len = (A64.X s m 32).setWidth len from rfl,
      X_setWidth s m 32 len (by omega) (by decide), X_setWidth s m N len (by omega) (by rcases hN with rfl | rfl <;> decide)]
  rw [hx] at e
  exact ⟨Ev.zext N hl1 hlN e, Ev.sext N hl1 hlN e⟩

/-- word extend in the 64-bit form: `ext 64 (rz 32 m)` -/
theorem ev_ext_word {σ : State} {s : A64.St} (ha : Abs σ s) {m : Nat} (hm : m < 32) :
    Ev σ (.ext .zext 64 (rz 32 m)) 64 (((A64.X s m 64).setWidth 32).setWidth 64) ∧
    Ev σ (.ext .sext 64 (rz 32 m)) 64 (((A64.X s m 64).setWidth 32).signExtend 64) := by
  have h32 := ev_rz ha (Or.inl rfl : (32 : Nat) = 32 ∨ 32 = 64) hm
  rw [← X_setWidth s m 64 32 (by decide) (by decide)] at h32
  exact ⟨Ev.zext 64 (by decide) (by decide) h32, Ev.sext 64 (by decide) (by decide) h32⟩

theorem regExpr_ext (s : A64.St) {N : Nat} (hN : N = 32 ∨ N = 64) {m : Nat} (hm : m < 32) {option sh : Nat}
    (ho : option < 8) (hs : sh ≤ 4) :
    RegExpr s (extended N (if N = 64 ∧ option % 4 = 3 then 64 else 32)
        (rz (if N = 64 ∧ option % 4 = 3 then 64 else 32) m) option sh) N (extG (A64.X s m N) option sh) := by
  intro σ' s' ha' hx _
  have hX : ∀ M, A64.X s' m M = A64.X s m M := fun M => X_congr hx m M
  have h64 : N < 2 ^ 64 := by rcases hN with rfl | rfl <;> decide
  have hamt : (BitVec.ofNat N sh).toNat = sh := by
    rw [BitVec.toNat_ofNat]; exact Nat.mod_eq_of_lt (by rcases hN with rfl | rfl <;> omega)
  have hk : Ev σ' (k sh N) N (BitVec.ofNat N sh) := Ev.lit (by rcases hN with rfl | rfl <;> omega)
  have fin : ∀ (e : Expr) (v : BitVec N), Ev σ' e N v → Ev σ' (.bin .shl e (k sh N)) N (v <<< sh) := by
    intro e v he
    have := Ev.shl h64 he hk
    rwa [hamt] at this
  have n8 := ev_ext_narrow ha' hN hm 8 (Or.inl rfl)
  have n16 := ev_ext_narrow ha' hN hm 16 (Or.inr rfl)
  have w32 := ev_ext_word ha' hm
  have p32 := ev_rz ha' (Or.inl rfl : (32 : Nat) = 32 ∨ 32 = 64) hm
  have p64 := ev_rz ha' (Or.inr rfl : (64 : Nat) = 32 ∨ 64 = 64) hm
  simp only [hX] at n8 n16 w32 p32 p64
  have hc : option = 0 ∨ option = 1 ∨ option = 2 ∨ option = 3 ∨ option = 4 ∨ option = 5 ∨ option = 6 ∨ option = 7 := by
    omega
  unfold extended extG
  rcases hN with rfl | rfl <;> rcases hc with rfl | rfl | rfl | rfl | rfl | rfl | rfl | rfl <;>
    simp only [Nat.reduceMod, Nat.reduceShiftLeft, Nat.reduceLT, Nat.reduceEqDiff, and_false, and_true, and_self,
      false_and, ↓reduceIte, Nat.lt_irrefl] <;>
    first
      | exact fin _ _ n8.1 | exact fin _ _ n8.2 | exact fin _ _ n16.1 | exact fin _ _ n16.2
      | exact fin _ _ w32.1 | exact fin _ _ w32.2 | exact fin _ _ p32 | exact fin _ _ p64

end C03
end Falcon
