/-
  FalconProofs.C03.LdStDecode — decode glue for the single-register integer loads/stores with an immediate
  addressing mode: `A64.step w` IS the pseudocode body `A64.ldstInt …`, `A64Lift.lift w` IS `A64Lift.ldstImm w`.
-/
import FalconProofs.C03.Load

namespace Falcon
namespace C03
open Const A64Lift
open A64 (fld bit)

theorem step_ldstSingle (w : BitVec 32) (s : A64.St) (hc : fld w 29 27 = 0b111) (h25 : bit w 25 = false) :
    A64.step w s = A64.ldstSingle s w := by
  have hnop := nop_not_class hc (by decide)
  have h1 : fld w 28 23 ≠ 0b100010 := by intro h; unfold A64.fld at h hc; omega
  have h2 : fld w 28 23 ≠ 0b100100 := by intro h; unfold A64.fld at h hc; omega
  have h3 : fld w 28 23 ≠ 0b100101 := by intro h; unfold A64.fld at h hc; omega
  have h4 : fld w 28 24 ≠ 0b01011 := by intro h; unfold A64.fld at h hc; omega
  have h5 : fld w 28 24 ≠ 0b01010 := by intro h; unfold A64.fld at h hc; omega
  have h6 : fld w 30 26 ≠ 0b00101 := by intro h; unfold A64.fld at h hc; omega
  have h7 : fld w 31 25 ≠ 0b0101010 := by intro h; unfold A64.fld at h hc; omega
  have h8 : fld w 30 25 ≠ 0b011010 := by intro h; unfold A64.fld at h hc; omega
  have h9 : fld w 30 25 ≠ 0b011011 := by intro h; unfold A64.fld at h hc; omega
  have h10 : fld w 31 25 ≠ 0b1101011 := by intro h; unfold A64.fld at h hc; omega
  unfold A64.step
  simp only [hnop, h1, h2, h3, h4, h5, h6, h7, h8, h9, h10, hc, h25, ↓reduceIte, Bool.not_false, and_self]

theorem lift_ldstSingleM (w : BitVec 32) (addr : Nat) (hc : fld w 29 27 = 0b111) (h25 : bit w 25 = false) :
    lift w addr = ldstSingleM w addr := by
  have hnop := nop_not_class hc (by decide)
  have h1 : fld w 28 23 ≠ 0b100010 := by intro h; unfold A64.fld at h hc; omega
  have h3 : fld w 28 23 ≠ 0b100101 := by intro h; unfold A64.fld at h hc; omega
  have h4 : fld w 28 24 ≠ 0b01011 := by intro h; unfold A64.fld at h hc; omega
  have h5 : fld w 28 24 ≠ 0b01010 := by intro h; unfold A64.fld at h hc; omega
  unfold lift
  simp only [hnop, h1, h3, h4, h5, hc, h25, ↓reduceIte, false_and, Bool.not_false, and_self]

/-- the immediate addressing mode of a word: 4 = unsigned offset, else bits 11:10 -/
def immMode (w : BitVec 32) : Nat := if fld w 25 24 = 1 then 4 else fld w 11 10

/-- the byte offset of the immediate forms, as the mirror computes it -/
def immOff (w : BitVec 32) : Nat :=
  if fld w 25 24 = 1 then fld w 21 10 <<< fld w 31 30 else (A64.sext64 (fld w 20 12) 9 0).toNat

/-- is the word one of the four immediate forms (unsigned offset | unscaled | post-index | pre-index)? -/
def ImmForm (w : BitVec 32) : Prop :=
  fld w 25 24 = 1 ∨ (fld w 25 24 = 0 ∧ bit w 21 = false ∧ fld w 11 10 ≠ 2)

theorem lift_ldstImm (w : BitVec 32) (addr : Nat) (hc : fld w 29 27 = 0b111) (h25 : bit w 25 = false)
    (himm : ImmForm w) : lift w addr = ldstImm w addr := by
  rw [lift_ldstSingleM w addr hc h25]
  unfold ldstSingleM
  have : ¬ (fld w 25 24 = 0 ∧ bit w 21 = true ∧ fld w 11 10 = 2) := by
    rcases himm with h | ⟨_, h21, h2⟩
    · intro hh; omega
    · intro hh; exact h2 hh.2.2
  simp only [this, ↓reduceIte]

theorem immOff_lt (w : BitVec 32) : immOff w < 2 ^ 64 := by
  unfold immOff
  split
  · have h1 : fld w 21 10 < 4096 := fld_lt w 21 10
    have h2 : fld w 31 30 < 4 := fld_lt w 31 30
    generalize fld w 21 10 = a at *
    generalize fld w 31 30 = b at *
    have : b = 0 ∨ b = 1 ∨ b = 2 ∨ b = 3 := by omega
    rcases this with rfl | rfl | rfl | rfl <;> simp [Nat.shiftLeft_eq] <;> omega
  · exact BitVec.isLt _

theorem immMode_cases (w : BitVec 32) (h : ImmForm w) :
    immMode w = 0 ∨ immMode w = 1 ∨ immMode w = 3 ∨ immMode w = 4 := by
  unfold immMode
  rcases h with h | ⟨h, _, h2⟩
  · simp [h]
  · have : fld w 11 10 < 4 := fld_lt w 11 10
    simp only [h, show ¬ ((0 : Nat) = 1) by decide, ↓reduceIte]
    omega

/-- the body of `ldstSingle` for an integer word of an immediate form -/
theorem ldstSingle_imm (s : A64.St) (w : BitVec 32) (h26 : bit w 26 = false) (himm : ImmForm w)
    (memop : A64.MemOp) (sg : Bool) (rs : Nat)
    (hdec : A64.decodeSizeOpc (fld w 31 30) (fld w 23 22) = some (memop, sg, rs)) (hmem : memop ≠ .prefetch) :
    A64.ldstSingle s w =
      A64.ldstInt s memop sg (1 <<< fld w 31 30) rs (fld w 9 5) (fld w 4 0) (BitVec.ofNat 64 (immOff w))
        (decide (immMode w = 1 ∨ immMode w = 3)) (decide (immMode w = 1)) := by
  unfold A64.ldstSingle immOff immMode
  simp only [h26, Bool.false_eq_true, false_and, ↓reduceIte, hdec, hmem]
  rcases himm with h | ⟨h, h21, h2⟩
  · simp only [h, ↓reduceIte]
    simp
  · have h4 : fld w 11 10 < 4 := fld_lt w 11 10
    simp only [h, show ¬ ((0 : Nat) = 1) by decide, ↓reduceIte, h21, Bool.not_false, ne_eq, not_true_eq_false]
    have hoff : BitVec.ofNat 64 (A64.sext64 (fld w 20 12) 9 0).toNat = A64.sext64 (fld w 20 12) 9 0 := by
      apply BitVec.eq_of_toNat_eq; simp
    rw [hoff]
    generalize fld w 11 10 = m at *
    have : m = 0 ∨ m = 1 ∨ m = 3 := by omega
    rcases this with rfl | rfl | rfl <;> simp

end C03
end Falcon
