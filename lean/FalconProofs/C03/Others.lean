/-
  FalconProofs.C03.Others — PC-relative literal loads, load-acquire/store-release (lifted as plain accesses:
  ordering is not modelled) and STLUR.
-/
import FalconProofs.C03.RegOff

namespace Falcon
namespace C03
open Const A64Lift
open A64 (fld bit)

/-! ### LDR / LDRSW / PRFM (literal) -/

theorem step_ldLiteral (w : BitVec 32) (s : A64.St) (hc : fld w 29 27 = 0b011) (h24 : fld w 25 24 = 0) :
    A64.step w s = A64.ldLiteral s w := by
  have hnop := nop_not_class hc (by decide)
  have h1 : fld w 28 23 ≠ 0b100010 := by intro h; unfold A64.fld at h hc; omega
  have h2 : fld w 28 23 ≠ 0b100100 := by intro h; unfold A64.fld at h hc; omega
  have h3 : fld w 28 23 ≠ 0b100101 := by intro h; unfold A64.fld at h hc; omega
  have h4 : fld w 28 24 ≠ 0b01011 := by intro h; unfold A64.fld at h hc; omega
  have h5 : fld w 28 24 ≠ 0b01010 := by intro h; unfold A64.fld at h hc; omega
  have h6 : fld w 30 26 ≠ 0b00101 := by intro h; unfold A64.fld at h hc; omega
  have h7 : fld w 31 25 ≠ 0b0101010 := by intro h; unfold A64.fld at h hc; omega
  have h8 : fld w 30 25 ≠ 0b011010 := by intro h; unfold A64.fld at h hc; omega
  have h9 : fld w 30 25 ≠ 0b011011 := by intro h; unfold A64.fld at h hc; omega
  have h10 : fld w 31 25 ≠ 0b1101011 := by intro h; unfold A64.fld at h hc; omega
  unfold A64.step
  simp only [hnop, h1, h2, h3, h4, h5, h6, h7, h8, h9, h10, hc, h24, ↓reduceIte, and_self,
    show ¬ ((3 : Nat) = 7) by decide, false_and]

theorem lift_ldLiteral (w : BitVec 32) (addr : Nat) (hc : fld w 29 27 = 0b011) (h24 : fld w 25 24 = 0) :
    lift w addr = A64Lift.ldLiteral w addr := by
  have h27 : fld w 27 27 = 1 := by unfold A64.fld at hc ⊢; omega
  have h25 : fld w 25 25 = 0 := by unfold A64.fld at h24 ⊢; omega
  rw [lift_ldstOther w addr h27 h25 (by rw [hc]; decide)]
  unfold ldstOther
  simp only [hc, h24, ↓reduceIte, and_self, show ¬ ((3 : Nat) = 5) by decide]

/-- the address a literal load reads -/
def litAddr (w : BitVec 32) (s : A64.St) : BitVec 64 := s.pc + A64.sext64 (fld w 23 5) 19 2

theorem ldLiteral_agrees (w : BitVec 32) (addr : Nat) (r : BTR) (hc : fld w 29 27 = 0b011) (h24 : fld w 25 24 = 0)
    (h26 : fld w 26 26 = 0) (h : lift w addr = some r) (σ : State) (s : A64.St) (ha : Abs σ s)
    (hpc : s.pc = BitVec.ofNat 64 addr) (haddr : addr + 4 < 2 ^ 64)
    (s' : A64.St) (hs : A64.step w s = .ok s') (hnowrap : (litAddr w s).toNat + 8 ≤ 2 ^ 64) :
    ∃ σ', runBTR r σ = .next σ' [s'.pc.toNat] ∧ Abs σ' s' := by
  have hb26 := bit_false_of_fld h26
  rw [lift_ldLiteral w addr hc h24] at h
  rw [step_ldLiteral w s hc h24] at hs
  unfold A64Lift.ldLiteral at h
  unfold A64.ldLiteral at hs
  simp only [hb26, Bool.false_eq_true, ↓reduceIte] at h hs
  rw [target_eq s addr _ _ hpc] at h
  unfold litAddr at hnowrap
  have ht : fld w 4 0 < 32 := fld_lt w 4 0
  have hopc4 : fld w 31 30 < 4 := fld_lt w 31 30
  generalize (s.pc + A64.sext64 (fld w 23 5) 19 2) = A at *
  have hae : Ev σ (A64Lift.k A.toNat 64) 64 A := by
    have := @Ev.lit σ 64 A.toNat A.isLt
    rwa [BitVec.ofNat_toNat, BitVec.setWidth_eq] at this
  generalize fld w 31 30 = opc at *
  have : opc = 0 ∨ opc = 1 ∨ opc = 2 ∨ opc = 3 := by omega
  rcases this with rfl | rfl | rfl | rfl <;> simp only [] at h hs
  · cases hrd : A64.memRead s A 4 with
    | none => rw [hrd] at hs; cases hs
    | some data =>
      rw [hrd] at hs
      exact body_load ha addr 2 1 _ (by decide) ht false 32 (by decide) hpc haddr A _ hae (by omega) data hrd r h s'
        (by injection hs with hs; rw [← hs]; simp [loadDest, A64.setX])
  · cases hrd : A64.memRead s A 8 with
    | none => rw [hrd] at hs; cases hs
    | some data =>
      rw [hrd] at hs
      exact body_load ha addr 3 1 _ (by decide) ht false 64 (by decide) hpc haddr A _ hae (by omega) data hrd r h s'
        (by injection hs with hs; rw [← hs]; simp [loadDest, A64.setX])
  · cases hrd : A64.memRead s A 4 with
    | none => rw [hrd] at hs; cases hs
    | some data =>
      rw [hrd] at hs
      exact body_load ha addr 2 2 _ (by decide) ht true 64 (by decide) hpc haddr A _ hae (by omega) data hrd r h s'
        (by injection hs with hs; rw [← hs]; simp [loadDest])
  · injection hs with hs; subst hs
    have := body_prefetch ha addr 3 2 (fld w 4 0) false 64 (by decide) hpc haddr _ r h
    exact ⟨σ, this.1, this.2⟩

/-! ### LDAR / LDLAR / STLR / STLLR (+ B, H) -/

theorem step_ldstOrdered (w : BitVec 32) (s : A64.St) (hc : fld w 29 24 = 0b001000) :
    A64.step w s = A64.ldstOrdered s w := by
  have hnop := nop_not_class hc (by decide)
  have hb25 : bit w 25 = false := bit_false_of_fld (by unfold A64.fld at hc ⊢; omega)
  have h1 : fld w 28 23 ≠ 0b100010 := by intro h; unfold A64.fld at h hc; omega
  have h2 : fld w 28 23 ≠ 0b100100 := by intro h; unfold A64.fld at h hc; omega
  have h3 : fld w 28 23 ≠ 0b100101 := by intro h; unfold A64.fld at h hc; omega
  have h4 : fld w 28 24 ≠ 0b01011 := by intro h; unfold A64.fld at h hc; omega
  have h5 : fld w 28 24 ≠ 0b01010 := by intro h; unfold A64.fld at h hc; omega
  have h6 : fld w 30 26 ≠ 0b00101 := by intro h; unfold A64.fld at h hc; omega
  have h7 : fld w 31 25 ≠ 0b0101010 := by intro h; unfold A64.fld at h hc; omega
  have h8 : fld w 30 25 ≠ 0b011010 := by intro h; unfold A64.fld at h hc; omega
  have h9 : fld w 30 25 ≠ 0b011011 := by intro h; unfold A64.fld at h hc; omega
  have h10 : fld w 31 25 ≠ 0b1101011 := by intro h; unfold A64.fld at h hc; omega
  have h11 : fld w 29 27 ≠ 0b111 := by intro h; unfold A64.fld at h hc; omega
  have h12 : fld w 29 27 ≠ 0b011 := by intro h; unfold A64.fld at h hc; omega
  have h13 : fld w 29 27 ≠ 0b101 := by intro h; unfold A64.fld at h hc; omega
  unfold A64.step
  simp only [hnop, h1, h2, h3, h4, h5, h6, h7, h8, h9, h10, h11, h12, h13, hc, ↓reduceIte, false_and]

theorem lift_ldstOrdered (w : BitVec 32) (addr : Nat) (hc : fld w 29 24 = 0b001000) :
    lift w addr = A64Lift.ldstOrdered w addr := by
  have h27 : fld w 27 27 = 1 := by unfold A64.fld at hc ⊢; omega
  have h25 : fld w 25 25 = 0 := by unfold A64.fld at hc ⊢; omega
  have h11 : fld w 29 27 ≠ 0b111 := by intro h; unfold A64.fld at h hc; omega
  have h12 : fld w 29 27 ≠ 0b011 := by intro h; unfold A64.fld at h hc; omega
  have h13 : fld w 29 27 ≠ 0b101 := by intro h; unfold A64.fld at h hc; omega
  rw [lift_ldstOther w addr h27 h25 h11]
  unfold ldstOther
  simp only [h12, h13, hc, ↓reduceIte, false_and]

theorem decode_opc01 (size : Nat) :
    A64.decodeSizeOpc size 1 = some (.load, false, if size = 3 then 64 else 32) ∧
    A64.decodeSizeOpc size 0 = some (.store, false, if size = 3 then 64 else 32) := by
  unfold A64.decodeSizeOpc; simp

theorem ev_base0 {σ : State} {s : A64.St} (ha : Abs σ s) {n : Nat} (hn : n < 32) :
    Ev σ (Expr.bin .add (.scalar (sc (sName n) 64)) (A64Lift.k 0 64)) 64 (A64.XSP s n 64) := by
  have := regExpr_base_off s hn (by decide : 0 < 2 ^ 64) σ s ha rfl rfl
  have h0 : A64.XSP s n 64 + BitVec.ofNat 64 0 = A64.XSP s n 64 := BitVec.add_zero _
  rwa [h0] at this

theorem ldstOrdered_agrees (w : BitVec 32) (addr : Nat) (r : BTR) (hc : fld w 29 24 = 0b001000)
    (h : lift w addr = some r) (σ : State) (s : A64.St) (ha : Abs σ s)
    (hpc : s.pc = BitVec.ofNat 64 addr) (haddr : addr + 4 < 2 ^ 64)
    (s' : A64.St) (hs : A64.step w s = .ok s')
    (hnowrap : (A64.XSP s (fld w 9 5) 64).toNat + 1 <<< fld w 31 30 ≤ 2 ^ 64) :
    ∃ σ', runBTR r σ = .next σ' [s'.pc.toNat] ∧ Abs σ' s' := by
  rw [lift_ldstOrdered w addr hc] at h
  rw [step_ldstOrdered w s hc] at hs
  unfold A64Lift.ldstOrdered at h
  unfold A64.ldstOrdered at hs
  have hn : fld w 9 5 < 32 := fld_lt w 9 5
  have ht : fld w 4 0 < 32 := fld_lt w 4 0
  have hsz : fld w 31 30 < 4 := fld_lt w 31 30
  split at hs
  · cases hs
  rename_i hcls
  simp only [hcls, ↓reduceIte] at h
  split at hs
  · cases hs
  simp only [] at hs
  split at hs
  · cases hs
  have hae := ev_base0 ha hn
  obtain ⟨hdl, hds⟩ := decode_opc01 (fld w 31 30)
  cases hL : bit w 22
  · simp only [hL, Bool.false_eq_true, ↓reduceIte] at h hs
    cases hwr : A64.memWrite s (A64.XSP s (fld w 9 5) 64) (1 <<< fld w 31 30)
        (A64.X s (fld w 4 0) (8 * (1 <<< fld w 31 30))) with
    | none => rw [hwr] at hs; cases hs
    | some s1 =>
      rw [hwr] at hs
      exact body_store ha addr _ 0 _ hsz ht false _ hds hpc haddr _ _ hae hnowrap s1 hwr r h s'
        (by injection hs with hs; rw [← hs])
  · simp only [hL, ↓reduceIte] at h hs
    cases hrd : A64.memRead s (A64.XSP s (fld w 9 5) 64) (1 <<< fld w 31 30) with
    | none => rw [hrd] at hs; cases hs
    | some data =>
      rw [hrd] at hs
      exact body_load ha addr _ 1 _ hsz ht false _ hdl hpc haddr _ _ hae hnowrap data hrd r h s'
        (by
          injection hs with hs; rw [← hs]
          by_cases h3 : fld w 31 30 = 3 <;> simp [loadDest, h3])

/-! ### STLUR / STLURB / STLURH -/

theorem step_stlur (w : BitVec 32) (s : A64.St) (hc : fld w 29 24 = 0b011001) : A64.step w s = A64.stlur s w := by
  have hnop := nop_not_class hc (by decide)
  have h1 : fld w 28 23 ≠ 0b100010 := by intro h; unfold A64.fld at h hc; omega
  have h2 : fld w 28 23 ≠ 0b100100 := by intro h; unfold A64.fld at h hc; omega
  have h3 : fld w 28 23 ≠ 0b100101 := by intro h; unfold A64.fld at h hc; omega
  have h4 : fld w 28 24 ≠ 0b01011 := by intro h; unfold A64.fld at h hc; omega
  have h5 : fld w 28 24 ≠ 0b01010 := by intro h; unfold A64.fld at h hc; omega
  have h6 : fld w 30 26 ≠ 0b00101 := by intro h; unfold A64.fld at h hc; omega
  have h7 : fld w 31 25 ≠ 0b0101010 := by intro h; unfold A64.fld at h hc; omega
  have h8 : fld w 30 25 ≠ 0b011010 := by intro h; unfold A64.fld at h hc; omega
  have h9 : fld w 30 25 ≠ 0b011011 := by intro h; unfold A64.fld at h hc; omega
  have h10 : fld w 31 25 ≠ 0b1101011 := by intro h; unfold A64.fld at h hc; omega
  have h11 : fld w 29 27 ≠ 0b111 := by intro h; unfold A64.fld at h hc; omega
  have h12 : ¬ (fld w 29 27 = 0b011 ∧ fld w 25 24 = 0) := by intro h; unfold A64.fld at h hc; omega
  have h13 : fld w 29 27 ≠ 0b101 := by intro h; unfold A64.fld at h hc; omega
  unfold A64.step
  simp only [hnop, h1, h2, h3, h4, h5, h6, h7, h8, h9, h10, h11, h12, h13, hc, ↓reduceIte, false_and,
    show ¬ ((25 : Nat) = 8) by decide]

theorem lift_stlur (w : BitVec 32) (addr : Nat) (hc : fld w 29 24 = 0b011001) : lift w addr = A64Lift.stlur w addr := by
  have h27 : fld w 27 27 = 1 := by unfold A64.fld at hc ⊢; omega
  have h25 : fld w 25 25 = 0 := by unfold A64.fld at hc ⊢; omega
  have h11 : fld w 29 27 ≠ 0b111 := by intro h; unfold A64.fld at h hc; omega
  have h12 : ¬ (fld w 29 27 = 0b011 ∧ fld w 25 24 = 0) := by intro h; unfold A64.fld at h hc; omega
  have h13 : fld w 29 27 ≠ 0b101 := by intro h; unfold A64.fld at h hc; omega
  rw [lift_ldstOther w addr h27 h25 h11]
  unfold ldstOther
  simp only [h12, h13, hc, ↓reduceIte, show ¬ ((25 : Nat) = 8) by decide]

theorem stlur_agrees (w : BitVec 32) (addr : Nat) (r : BTR) (hc : fld w 29 24 = 0b011001)
    (h : lift w addr = some r) (σ : State) (s : A64.St) (ha : Abs σ s)
    (hpc : s.pc = BitVec.ofNat 64 addr) (haddr : addr + 4 < 2 ^ 64)
    (s' : A64.St) (hs : A64.step w s = .ok s')
    (hnowrap : (A64.XSP s (fld w 9 5) 64 + A64.sext64 (fld w 20 12) 9 0).toNat + 1 <<< fld w 31 30 ≤ 2 ^ 64) :
    ∃ σ', runBTR r σ = .next σ' [s'.pc.toNat] ∧ Abs σ' s' := by
  rw [lift_stlur w addr hc] at h
  rw [step_stlur w s hc] at hs
  unfold A64Lift.stlur at h
  unfold A64.stlur at hs
  have hn : fld w 9 5 < 32 := fld_lt w 9 5
  have ht : fld w 4 0 < 32 := fld_lt w 4 0
  have hsz : fld w 31 30 < 4 := fld_lt w 31 30
  split at hs
  · cases hs
  rename_i hcls
  simp only [hcls, ↓reduceIte] at h
  simp only [] at hs
  split at hs
  · cases hs
  have hae : Ev σ (Expr.bin .add (.scalar (sc (sName (fld w 9 5)) 64))
      (A64Lift.k (A64.sext64 (fld w 20 12) 9 0).toNat 64)) 64
      (A64.XSP s (fld w 9 5) 64 + A64.sext64 (fld w 20 12) 9 0) := by
    have := regExpr_base_off s hn (BitVec.isLt (A64.sext64 (fld w 20 12) 9 0)) σ s ha rfl rfl
    rwa [BitVec.ofNat_toNat, BitVec.setWidth_eq] at this
  obtain ⟨_, hds⟩ := decode_opc01 (fld w 31 30)
  cases hwr : A64.memWrite s (A64.XSP s (fld w 9 5) 64 + A64.sext64 (fld w 20 12) 9 0) (1 <<< fld w 31 30)
      (A64.X s (fld w 4 0) (8 * (1 <<< fld w 31 30))) with
  | none => rw [hwr] at hs; cases hs
  | some s1 =>
    rw [hwr] at hs
    exact body_store ha addr _ 0 _ hsz ht false _ hds hpc haddr _ _ hae hnowrap s1 hwr r h s'
      (by injection hs with hs; rw [← hs])

end C03
end Falcon
