/-
  FalconProofs.C03.AddSubImm2 — the class theorem for ADD/ADDS/SUB/SUBS (immediate).
-/
import FalconProofs.C03.AddSubImm

namespace Falcon
namespace C03
open Const A64Lift
open A64 (fld bit)

theorem nop_not_class {w : BitVec 32} {hi lo v : Nat} (hc : fld w hi lo = v)
    (hne : fld (0xd503201f#32) hi lo ≠ v) : w.toNat ≠ 0xd503201f := by
  intro h
  have : w = 0xd503201f#32 := BitVec.eq_of_toNat_eq (by rw [h]; rfl)
  subst this; exact hne hc

theorem step_addSubImm (w : BitVec 32) (s : A64.St) (hc : fld w 28 23 = 0b100010) :
    A64.step w s = A64.addSubImm s w (if bit w 31 = true then 64 else 32) := by
  have hnop := nop_not_class hc (by decide)
  unfold A64.step
  simp only [hnop, hc, ↓reduceIte]

theorem lift_addSubImm (w : BitVec 32) (addr : Nat) (hc : fld w 28 23 = 0b100010) :
    lift w addr = A64Lift.addSubImm w addr := by
  have hnop := nop_not_class hc (by decide)
  unfold lift
  simp only [hnop, hc, ↓reduceIte]

/-- the immediate operand: `#imm12` or `#imm12, lsl #12` -/
theorem regExpr_imm (s : A64.St) {N : Nat} (hN : N = 32 ∨ N = 64) (sh : Bool) {imm12 : Nat} (hi : imm12 < 4096) :
    RegExpr s (if sh = true then Expr.bin .shl (k imm12 N) (k 12 N) else k imm12 N) N
      (BitVec.ofNat N (if sh = true then imm12 <<< 12 else imm12)) := by
  have hp : 2 ^ 32 ≤ 2 ^ N := by rcases hN with rfl | rfl <;> decide
  have h64 : N < 2 ^ 64 := by rcases hN with rfl | rfl <;> decide
  intro σ' s' _ _ _
  cases sh
  · simp only [Bool.false_eq_true, ↓reduceIte]
    exact Ev.lit (by omega)
  · simp only [↓reduceIte]
    have e := Ev.shl h64 (@Ev.lit σ' N imm12 (by omega)) (@Ev.lit σ' N 12 (by omega))
    have h12 : (BitVec.ofNat N 12).toNat = 12 := by
      rw [BitVec.toNat_ofNat]; exact Nat.mod_eq_of_lt (by omega)
    rw [h12] at e
    have : BitVec.ofNat N imm12 <<< 12 = BitVec.ofNat N (imm12 <<< 12) := by
      apply BitVec.eq_of_toNat_eq
      simp only [BitVec.toNat_shiftLeft, BitVec.toNat_ofNat, Nat.shiftLeft_eq]
      rw [Nat.mod_mul_mod]
    rw [this] at e
    exact e

theorem pc_setXSP (s : A64.St) (d : Nat) {N : Nat} (v : BitVec N) : (A64.setXSP s d v).pc = s.pc := by
  unfold A64.setXSP A64.setSP A64.setX; split <;> (try split) <;> rfl

theorem pc_setX (s : A64.St) (d : Nat) {N : Nat} (v : BitVec N) : (A64.setX s d v).pc = s.pc := by
  unfold A64.setX; split <;> rfl

theorem addSubImm_agrees (w : BitVec 32) (addr : Nat) (r : BTR) (hc : fld w 28 23 = 0b100010)
    (h : lift w addr = some r) (σ : State) (s : A64.St) (ha : Abs σ s)
    (hpc : s.pc = BitVec.ofNat 64 addr) (haddr : addr + 4 < 2 ^ 64) :
    if bit w 30 = true ∧ bit w 29 = true then AgreesBorrow r σ w s else Agrees r σ w s := by
  rw [lift_addSubImm w addr hc] at h
  unfold Agrees AgreesBorrow
  rw [step_addSubImm w s hc]
  have hN := width_cases w
  have hd : fld w 4 0 < 32 := fld_lt w 4 0
  have hn : fld w 9 5 < 32 := fld_lt w 9 5
  have hi : fld w 21 10 < 4096 := fld_lt w 21 10
  unfold A64Lift.addSubImm at h
  unfold A64.addSubImm
  simp only [] at h ⊢
  generalize (if bit w 31 = true then 64 else 32) = N at *
  generalize fld w 4 0 = d at *
  generalize fld w 9 5 = n at *
  generalize fld w 21 10 = imm12 at *
  have hN1 : 1 ≤ N := by rcases hN with rfl | rfl <;> decide
  have hN64 : N ≤ 64 := by rcases hN with rfl | rfl <;> decide
  have hl := regExpr_rs s hN hn
  have hr := regExpr_imm s hN (bit w 22) hi
  have hnext : ∀ s0 : A64.St, s0.pc = s.pc → (A64.next s0).pc.toNat = addr + 4 := fun s0 h0 => by
    show (s0.pc + 4).toNat = addr + 4
    rw [h0]; exact pc_next s addr hpc haddr
  cases hsub : bit w 30 <;> cases hS : bit w 29 <;> simp only [hsub, hS, Bool.false_eq_true, false_and, and_false,
    and_true, true_and, ↓reduceIte, Bool.not_false, Bool.not_true, not_false_eq_true, not_true_eq_false] at h ⊢
  · -- add
    rw [addSub_noflags, addSub_res_add]
    have hspec : (if d = 31 then A64.setSP s (A64.XSP s n N + BitVec.ofNat N (if bit w 22 = true then imm12 <<< 12 else imm12))
        else A64.setX s d (A64.XSP s n N + BitVec.ofNat N (if bit w 22 = true then imm12 <<< 12 else imm12))) =
        A64.setXSP s d (A64.XSP s n N + BitVec.ofNat N (if bit w 22 = true then imm12 <<< 12 else imm12)) := rfl
    rw [hspec]
    split at h
    · -- mov (to/from SP): the immediate is zero
      rename_i hal
      injection h with h; subst h
      have hz : BitVec.ofNat N (if bit w 22 = true then imm12 <<< 12 else imm12) = 0 := by
        have h22 : bit w 22 = false := by simpa using hal.1
        simp [h22, hal.2.1]
      have hz0 : A64.XSP s n N + BitVec.ofNat N (if bit w 22 = true then imm12 <<< 12 else imm12) = A64.XSP s n N := by
        rw [hz]; exact BitVec.add_zero _
      rw [hz0]
      refine ⟨_, _, ?_, rfl, abs_next (abs_setS ha hd _)⟩
      rw [run_setS (s := s) addr hN d (hl σ s ha rfl rfl), hnext _ (pc_setXSP s d _)]
    · injection h with h; subst h
      refine ⟨_, _, ?_, rfl, abs_next (abs_setS ha hd _)⟩
      rw [run_setS (s := s) addr hN d (Ev.add (hl σ s ha rfl rfl) (hr σ s ha rfl rfl)), hnext _ (pc_setXSP s d _)]
  · -- adds
    split at h
    · cases h
    · rename_i hd31
      injection h with h; subst h
      rw [addSub_res_add, addSub_flags_add hN1 hN64]
      obtain ⟨σ', hrun, habs⟩ := run_flags_setZ arith_add ha addr hN hd hl hr
      have hd31' : ¬ d = 31 := hd31
      try simp only [hd31', false_and, ↓reduceIte]
      refine ⟨σ', _, ?_, rfl, abs_next habs⟩
      rw [hrun, hnext _ (by rw [pc_setX])]
  · -- sub
    rw [addSub_noflags, addSub_res_sub]
    have hspec : (if d = 31 then A64.setSP s (A64.XSP s n N - BitVec.ofNat N (if bit w 22 = true then imm12 <<< 12 else imm12))
        else A64.setX s d (A64.XSP s n N - BitVec.ofNat N (if bit w 22 = true then imm12 <<< 12 else imm12))) =
        A64.setXSP s d (A64.XSP s n N - BitVec.ofNat N (if bit w 22 = true then imm12 <<< 12 else imm12)) := rfl
    rw [hspec]
    injection h with h; subst h
    refine ⟨_, _, ?_, rfl, abs_next (abs_setS ha hd _)⟩
    rw [run_setS (s := s) addr hN d (Ev.sub (hl σ s ha rfl rfl) (hr σ s ha rfl rfl)), hnext _ (pc_setXSP s d _)]
  · -- subs: everything but `c`, which holds the borrow
    split at h
    · cases h
    · rename_i hd31
      injection h with h; subst h
      rw [addSub_res_sub, addSub_flags_sub hN1 hN64]
      obtain ⟨σ', hrun, habs⟩ := run_flags_setZ arith_sub ha addr hN hd hl hr
      have hd31' : ¬ d = 31 := hd31
      try simp only [hd31', false_and, ↓reduceIte]
      refine ⟨σ', _, ?_, rfl, ?_⟩
      · rw [hrun, hnext _ (by rw [pc_setX])]
      · have := abs_next habs
        unfold A64.setX at this ⊢
        simp only [hd31', ↓reduceIte, A64.next, withNZCV, Bool.not_not] at this ⊢
        exact this

end C03
end Falcon
