/-
  FalconProofs.C03.Flags — `AddWithCarry` (the architecture's definition through unbounded integer sums)
  against the expressions falcon's `adds`/`subs` assign to n, z, c, v (72-bit zero/sign extensions).
  All statements are for every width 1 ≤ N ≤ 64 and all operand values.
-/
import FalconModel.Isa.A64

namespace Falcon
namespace C03
open A64

variable {N : Nat}

theorem awc_res_add (x y : BitVec N) : (addWithCarry x y false).1 = x + y := by
  apply BitVec.eq_of_toNat_eq
  simp [addWithCarry, BitVec.toNat_add]

theorem awc_res_sub (x y : BitVec N) : (addWithCarry x (~~~y) true).1 = x - y := by
  apply BitVec.eq_of_toNat_eq
  have hy := y.isLt
  simp only [addWithCarry, Bool.toNat_true, BitVec.toNat_ofNat, BitVec.toNat_not, BitVec.toNat_sub]
  congr 1; omega

theorem awc_n (x y : BitVec N) (c : Bool) : (addWithCarry x y c).2.1 = ((addWithCarry x y c).1).slt 0 := by
  simp [addWithCarry, BitVec.slt_zero_eq_msb]

theorem awc_z (x y : BitVec N) (c : Bool) : (addWithCarry x y c).2.2.1 = ((addWithCarry x y c).1 == 0) := rfl

theorem awc_c_def (x y : BitVec N) (c : Bool) :
    (addWithCarry x y c).2.2.2.1 = decide ((addWithCarry x y c).1.toNat ≠ x.toNat + y.toNat + c.toNat) := rfl

theorem awc_v_def (x y : BitVec N) (c : Bool) :
    (addWithCarry x y c).2.2.2.2 = decide ((addWithCarry x y c).1.toInt ≠ x.toInt + y.toInt + (c.toNat : Int)) := rfl

theorem bne_toNat {n : Nat} (a b : BitVec n) : (a != b) = decide (a.toNat ≠ b.toNat) := by
  by_cases h : a = b
  · subst h; simp
  · have : a.toNat ≠ b.toNat := fun he => h (BitVec.eq_of_toNat_eq he)
    simp [h, this]

theorem bne_toInt {n : Nat} (a b : BitVec n) : (a != b) = decide (a.toInt ≠ b.toInt) := by
  by_cases h : a = b
  · subst h; simp
  · have : a.toInt ≠ b.toInt := fun he => h (BitVec.toInt_inj.mp he)
    simp [h, this]

theorem zext72_toNat (hN : N ≤ 64) (x : BitVec N) : (x.zeroExtend 72).toNat = x.toNat := by
  have hx := x.isLt
  have hp : 2 ^ N ≤ 2 ^ 64 := Nat.pow_le_pow_right (by decide) hN
  simp only [BitVec.zeroExtend, BitVec.toNat_setWidth]
  exact Nat.mod_eq_of_lt (by omega)

/-- carry of an addition = falcon's `zext72(x + y) != zext72 x + zext72 y` -/
theorem awc_c_add (hN : N ≤ 64) (x y : BitVec N) :
    (addWithCarry x y false).2.2.2.1 = ((x + y).zeroExtend 72 != x.zeroExtend 72 + y.zeroExtend 72) := by
  have hx := x.isLt
  have hy := y.isLt
  have hp : 2 ^ N ≤ 2 ^ 64 := Nat.pow_le_pow_right (by decide) hN
  rw [awc_c_def, awc_res_add, bne_toNat, BitVec.toNat_add (x.zeroExtend 72), zext72_toNat hN, zext72_toNat hN,
    zext72_toNat hN]
  rw [Nat.mod_eq_of_lt (by omega : x.toNat + y.toNat < 2 ^ 72)]
  simp

/-- falcon's `subs` carry is the BORROW: the negation of the architectural carry -/
theorem awc_c_sub (hN : N ≤ 64) (x y : BitVec N) :
    (!(addWithCarry x (~~~y) true).2.2.2.1) = ((x - y).zeroExtend 72 != x.zeroExtend 72 - y.zeroExtend 72) := by
  have hx := x.isLt
  have hy := y.isLt
  have hp : 2 ^ N ≤ 2 ^ 64 := Nat.pow_le_pow_right (by decide) hN
  have hpos : 0 < 2 ^ N := Nat.two_pow_pos N
  rw [awc_c_def, awc_res_sub, bne_toNat, BitVec.toNat_sub (x.zeroExtend 72), zext72_toNat hN, zext72_toNat hN,
    zext72_toNat hN, BitVec.toNat_sub, BitVec.toNat_not]
  by_cases hlt : x.toNat < y.toNat
  · have e1 : (2 ^ N - y.toNat + x.toNat) % 2 ^ N = 2 ^ N - y.toNat + x.toNat := Nat.mod_eq_of_lt (by omega)
    have e2 : (2 ^ 72 - y.toNat + x.toNat) % 2 ^ 72 = 2 ^ 72 - y.toNat + x.toNat := Nat.mod_eq_of_lt (by omega)
    rw [e1, e2]
    simp only [Bool.toNat_true]
    rw [Bool.eq_iff_iff]
    simp only [Bool.not_eq_true', decide_eq_false_iff_not, decide_eq_true_eq, ne_eq, Decidable.not_not]
    clear e1 e2
    generalize 2 ^ N = p at *
    first
      | omega
      | (simp only [not_true_eq_false, iff_false, not_false_eq_true, iff_true]; omega)
  · have e1 : (2 ^ N - y.toNat + x.toNat) % 2 ^ N = x.toNat - y.toNat := by
      have : 2 ^ N - y.toNat + x.toNat = (x.toNat - y.toNat) + 2 ^ N := by omega
      rw [this, Nat.add_mod_right]; exact Nat.mod_eq_of_lt (by omega)
    have e2 : (2 ^ 72 - y.toNat + x.toNat) % 2 ^ 72 = x.toNat - y.toNat := by
      have : 2 ^ 72 - y.toNat + x.toNat = (x.toNat - y.toNat) + 2 ^ 72 := by omega
      rw [this, Nat.add_mod_right]; exact Nat.mod_eq_of_lt (by omega)
    rw [e1, e2]
    simp only [Bool.toNat_true]
    rw [Bool.eq_iff_iff]
    simp only [Bool.not_eq_true', decide_eq_false_iff_not, decide_eq_true_eq, ne_eq, Decidable.not_not]
    clear e1 e2
    generalize 2 ^ N = p at *
    first
      | omega
      | (simp only [not_true_eq_false, iff_false, not_false_eq_true, iff_true]; omega)

theorem toInt_bounds64 (hN1 : 1 ≤ N) (hN : N ≤ 64) (x : BitVec N) :
    -(2 : Int) ^ 63 ≤ x.toInt ∧ x.toInt < (2 : Int) ^ 63 := by
  have h1 := BitVec.le_toInt x
  have h2 := @BitVec.toInt_lt N x
  have hp : (2 : Int) ^ (N - 1) ≤ (2 : Int) ^ 63 := by
    have : (2 : Nat) ^ (N - 1) ≤ 2 ^ 63 := Nat.pow_le_pow_right (by decide) (by omega)
    exact_mod_cast this
  omega

theorem toInt_not' (hN : 0 < N) (y : BitVec N) : (~~~y).toInt = -y.toInt - 1 := by
  have hy := y.isLt
  rw [BitVec.toInt_eq_msb_cond, BitVec.toInt_eq_msb_cond, BitVec.msb_not, BitVec.toNat_not]
  simp only [hN, decide_true, Bool.true_and]
  generalize 2 ^ N = p at *
  cases y.msb <;> simp <;> omega

/-- overflow of an addition = falcon's `sext72(x + y) != sext72 x + sext72 y` -/
theorem awc_v_add (hN1 : 1 ≤ N) (hN : N ≤ 64) (x y : BitVec N) :
    (addWithCarry x y false).2.2.2.2 = ((x + y).signExtend 72 != x.signExtend 72 + y.signExtend 72) := by
  have bx := toInt_bounds64 hN1 hN x
  have by_ := toInt_bounds64 hN1 hN y
  rw [awc_v_def, awc_res_add, bne_toInt, BitVec.toInt_add (x.signExtend 72),
    BitVec.toInt_signExtend_of_le (by omega), BitVec.toInt_signExtend_of_le (by omega),
    BitVec.toInt_signExtend_of_le (by omega)]
  rw [Int.bmod_eq_of_le (by omega) (by omega)]
  simp

/-- overflow of a subtraction = falcon's `sext72(x - y) != sext72 x - sext72 y` -/
theorem awc_v_sub (hN1 : 1 ≤ N) (hN : N ≤ 64) (x y : BitVec N) :
    (addWithCarry x (~~~y) true).2.2.2.2 = ((x - y).signExtend 72 != x.signExtend 72 - y.signExtend 72) := by
  have bx := toInt_bounds64 hN1 hN x
  have by_ := toInt_bounds64 hN1 hN y
  rw [awc_v_def, awc_res_sub, bne_toInt, @BitVec.toInt_sub 72,
    BitVec.toInt_signExtend_of_le (by omega), BitVec.toInt_signExtend_of_le (by omega),
    BitVec.toInt_signExtend_of_le (by omega), toInt_not' (by omega)]
  rw [Int.bmod_eq_of_le (by omega) (by omega)]
  have : x.toInt + (-y.toInt - 1) + ((true.toNat : Nat) : Int) = x.toInt - y.toInt := by
    simp only [Bool.toNat_true]; omega
  rw [this]

end C03
end Falcon
