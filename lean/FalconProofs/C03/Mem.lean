/-
  FalconProofs.C03.Mem — the specification's `Mem[]` read (`A64.memRead`: per-byte 64-bit address
  arithmetic, little- or big-endian assembly) against the IL's load (`ByteMem.readBytes` + `constOfBytes`),
  for accesses that do not wrap around the top of the address space.
-/
import FalconProofs.C03.Branch
import FalconProofs.C07.Typing

namespace Falcon
namespace C03
open Const A64Lift

theorem add_one_toNat (a : BitVec 64) (h : a.toNat + 1 < 2 ^ 64) : (a + 1).toNat = a.toNat + 1 := by
  rw [BitVec.toNat_add]; exact Nat.mod_eq_of_lt (by simpa using h)

theorem readLE_eq (m : ByteMem) : ∀ (k : Nat) (a : BitVec 64), a.toNat + k ≤ 2 ^ 64 →
    A64.readLE m a k = (m.readBytes a.toNat k).map natOfLE
  | 0, a, _ => by simp [A64.readLE, ByteMem.readBytes, natOfLE]
  | k + 1, a, h => by
      simp only [A64.readLE, ByteMem.readBytes]
      cases hb : m a.toNat with
      | none => simp
      | some b =>
        cases k with
        | zero => simp [A64.readLE, ByteMem.readBytes, natOfLE]
        | succ k =>
          have h1 : (a + 1).toNat = a.toNat + 1 := add_one_toNat a (by omega)
          have ih := readLE_eq m (k + 1) (a + 1) (by rw [h1]; omega)
          rw [h1] at ih
          simp only [Option.bind_eq_bind, Option.bind_some, ih]
          cases m.readBytes (a.toNat + 1) (k + 1) <;> simp [natOfLE]

theorem natOfLE_append (xs ys : List UInt8) : natOfLE (xs ++ ys) = natOfLE xs + 256 ^ xs.length * natOfLE ys := by
  induction xs with
  | nil => simp [natOfLE]
  | cons x xs ih =>
    simp only [List.cons_append, natOfLE, ih, List.length_cons, Nat.pow_succ]
    rw [Nat.mul_add, ← Nat.add_assoc, Nat.mul_comm (256 ^ xs.length) 256, Nat.mul_assoc]

theorem readBE_eq (m : ByteMem) : ∀ (k : Nat) (a : BitVec 64) (acc : Nat), a.toNat + k ≤ 2 ^ 64 →
    A64.readBE m a k acc = (m.readBytes a.toNat k).map (fun bs => acc * 256 ^ k + natOfLE bs.reverse)
  | 0, a, acc, _ => by simp [A64.readBE, ByteMem.readBytes, natOfLE]
  | k + 1, a, acc, h => by
      simp only [A64.readBE, ByteMem.readBytes]
      cases hb : m a.toNat with
      | none => simp
      | some b =>
        have fin : ∀ (rest : List UInt8), rest.length = k →
            (acc * 256 + b.toNat) * 256 ^ k + natOfLE rest.reverse =
              acc * 256 ^ (k + 1) + natOfLE (b :: rest).reverse := by
          intro rest hl
          rw [List.reverse_cons, natOfLE_append, List.length_reverse, hl]
          simp only [natOfLE, Nat.mul_zero, Nat.add_zero, Nat.pow_succ]
          rw [Nat.add_mul, Nat.mul_assoc, Nat.mul_comm 256 (256 ^ k), Nat.mul_comm b.toNat]
          omega
        cases k with
        | zero =>
          simp only [A64.readBE, ByteMem.readBytes, Option.bind_eq_bind, Option.bind_some, Option.pure_def,
            Option.map_some]
          have := fin [] rfl
          simp only [Nat.pow_zero, Nat.mul_one] at this ⊢
          rw [← this]; simp [natOfLE]
        | succ k =>
          have h1 : (a + 1).toNat = a.toNat + 1 := add_one_toNat a (by omega)
          have ih := readBE_eq m (k + 1) (a + 1) (acc * 256 + b.toNat) (by rw [h1]; omega)
          rw [h1] at ih
          simp only [Option.bind_eq_bind, Option.bind_some, ih]
          cases hr : m.readBytes (a.toNat + 1) (k + 1) with
          | none => simp
          | some rest =>
            have hl := C07.readBytes_length m (k + 1) (a.toNat + 1) rest hr
            simp only [Option.map_some, Option.pure_def, Option.bind_some]
            rw [fin rest hl]

/-- a non-faulting, non-wrapping `Mem[]` read returns what the IL load builds from the same bytes -/
theorem memRead_bytes (s : A64.St) (σ : State) (hm : σ.mem = s.mem)
    (he : σ.endian = if s.big then Endian.big else Endian.little)
    (a : BitVec 64) (k : Nat) (hw : a.toNat + k ≤ 2 ^ 64) (data : BitVec (8 * k))
    (h : A64.memRead s a k = some data) :
    ∃ bs, σ.mem.readBytes a.toNat k = some bs ∧ constOfBytes σ.endian bs = ofBV data := by
  unfold A64.memRead at h
  rw [hm, he]
  cases hb : s.big
  · simp only [hb, Bool.false_eq_true, ↓reduceIte] at h ⊢
    rw [readLE_eq s.mem k a hw] at h
    cases hr : s.mem.readBytes a.toNat k with
    | none => rw [hr] at h; simp at h
    | some bs =>
      rw [hr] at h
      simp only [Option.map_some, Option.some.injEq] at h
      have hl := C07.readBytes_length s.mem k a.toNat bs hr
      have hlt := C07.natOfLE_lt bs
      refine ⟨bs, rfl, ?_⟩
      subst h
      simp only [constOfBytes, ofBV, BitVec.toNat_ofNat, hl]
      rw [Nat.mod_eq_of_lt (by rw [hl] at hlt; exact hlt)]
  · simp only [hb, ↓reduceIte] at h ⊢
    rw [readBE_eq s.mem k a 0 hw] at h
    cases hr : s.mem.readBytes a.toNat k with
    | none => rw [hr] at h; simp at h
    | some bs =>
      rw [hr] at h
      simp only [Option.map_some, Option.some.injEq, Nat.zero_mul, Nat.zero_add] at h
      have hl := C07.readBytes_length s.mem k a.toNat bs hr
      have hlt := C07.natOfLE_lt bs.reverse
      rw [List.length_reverse, hl] at hlt
      refine ⟨bs, rfl, ?_⟩
      subst h
      simp only [constOfBytes, ofBV, BitVec.toNat_ofNat, hl]
      rw [Nat.mod_eq_of_lt hlt]

/-- `State::execute` of a load whose address expression evaluates to `av` -/
theorem exec_load {σ : State} {idx : Expr} {av : BitVec 64} (dst : Scalar) (k : Nat) (hk : 0 < k)
    (hbits : dst.bits = 8 * k) (hi : Ev σ idx 64 av) (hw : av.toNat + k ≤ 2 ^ 64) (bs : List UInt8)
    (hr : σ.mem.readBytes av.toNat k = some bs) :
    execute σ (.load dst idx) = .ok (σ.set dst.name (constOfBytes σ.endian bs), .fallThrough) := by
  have hlt : av.toNat < 2 ^ 64 := av.isLt
  have h8 : dst.bits / 8 = k := by rw [hbits]; omega
  have hmod : ¬ (dst.bits % 8 ≠ 0 ∨ dst.bits = 0) := by rw [hbits]; omega
  have hov : ¬ (av.toNat + dst.bits / 8 > 2 ^ 64) := by rw [h8]; omega
  have hov' : ¬ (av.toNat + k > 2 ^ 64) := by omega
  simp only [execute, hi.evalIn, Res.bind_ok, addrOf, ofBV_val, hlt, ↓reduceIte, hmod, h8, hr, hov']

end C03
end Falcon
