/-
  FalconProofs.C03.AddSubExt2 — the class theorem for ADD/ADDS/SUB/SUBS (extended register).
-/
import FalconProofs.C03.AddSubExt

namespace Falcon
namespace C03
open Const A64Lift
open A64 (fld bit)

theorem step_addSubExt (w : BitVec 32) (s : A64.St) (hc : fld w 28 24 = 0b01011) (h21 : bit w 21 = true) :
    A64.step w s = A64.addSubExt s w (if bit w 31 = true then 64 else 32) := by
  have hnop := nop_not_class hc (by decide)
  have h1 : fld w 28 23 ≠ 0b100010 := by intro h; unfold A64.fld at h hc; omega
  have h2 : fld w 28 23 ≠ 0b100100 := by intro h; unfold A64.fld at h hc; omega
  have h3 : fld w 28 23 ≠ 0b100101 := by intro h; unfold A64.fld at h hc; omega
  unfold A64.step
  simp only [hnop, h1, h2, h3, hc, h21, ↓reduceIte]

theorem lift_addSubExt (w : BitVec 32) (addr : Nat) (hc : fld w 28 24 = 0b01011) (h21 : bit w 21 = true) :
    lift w addr = A64Lift.addSubExt w addr := by
  have hnop := nop_not_class hc (by decide)
  have h1 : fld w 28 23 ≠ 0b100010 := by intro h; unfold A64.fld at h hc; omega
  have h2 : fld w 28 23 ≠ 0b100100 := by intro h; unfold A64.fld at h hc; omega
  have h3 : fld w 28 23 ≠ 0b100101 := by intro h; unfold A64.fld at h hc; omega
  have h4 : ¬ (fld w 29 27 = 0b111 ∧ (!bit w 25) = true) := by intro h; unfold A64.fld at h hc; omega
  unfold lift
  simp only [hnop, h1, h2, h3, h4, hc, h21, ↓reduceIte, Bool.not_true, Bool.false_eq_true, and_false,
    show ¬ ((11 : Nat) = 10) by decide]

theorem addSubExt_agrees (w : BitVec 32) (addr : Nat) (r : BTR) (hc : fld w 28 24 = 0b01011)
    (h21 : bit w 21 = true) (h : lift w addr = some r) (σ : State) (s : A64.St) (ha : Abs σ s)
    (hpc : s.pc = BitVec.ofNat 64 addr) (haddr : addr + 4 < 2 ^ 64) :
    if bit w 30 = true ∧ bit w 29 = true then AgreesBorrow r σ w s else Agrees r σ w s := by
  rw [lift_addSubExt w addr hc h21] at h
  unfold Agrees AgreesBorrow
  rw [step_addSubExt w s hc h21]
  have hN := width_cases w
  have hd : fld w 4 0 < 32 := fld_lt w 4 0
  have hn : fld w 9 5 < 32 := fld_lt w 9 5
  have hm : fld w 20 16 < 32 := fld_lt w 20 16
  have ho : fld w 15 13 < 8 := fld_lt w 15 13
  unfold A64Lift.addSubExt at h
  unfold A64.addSubExt
  simp only [] at h ⊢
  generalize (if bit w 31 = true then 64 else 32) = N at *
  generalize fld w 4 0 = d at *
  generalize fld w 9 5 = n at *
  generalize fld w 20 16 = m at *
  generalize fld w 15 13 = option at *
  generalize fld w 12 10 = imm3 at *
  have hN1 : 1 ≤ N := by rcases hN with rfl | rfl <;> decide
  have hN64 : N ≤ 64 := by rcases hN with rfl | rfl <;> decide
  have hnext : ∀ s0 : A64.St, s0.pc = s.pc → (A64.next s0).pc.toNat = addr + 4 := fun s0 h0 => by
    show (s0.pc + 4).toNat = addr + 4
    rw [h0]; exact pc_next s addr hpc haddr
  by_cases hres : fld w 23 22 ≠ 0 ∨ imm3 > 4
  · simp only [hres, ↓reduceIte] at h; cases h
  · simp only [hres, ↓reduceIte] at h
    have hr0 : ¬ fld w 23 22 ≠ 0 := fun e => hres (Or.inl e)
    have hi4 : ¬ imm3 > 4 := fun e => hres (Or.inr e)
    simp only [hr0, hi4, ↓reduceIte]
    have hl := regExpr_rs s hN hn
    -- the second operand, in both printed forms
    have hr : RegExpr s (if N = 64 ∧ option = 3 ∧ imm3 = 0 ∧ (d = 31 ∨ n = 31) then rz 64 m
        else extended N (if N = 64 ∧ option % 4 = 3 then 64 else 32)
          (rz (if N = 64 ∧ option % 4 = 3 then 64 else 32) m) option imm3) N
        (A64.extendReg (A64.X s m N) option imm3) := by
      rw [extendReg_eq hN _ _ _ (by omega)]
      by_cases hal : N = 64 ∧ option = 3 ∧ imm3 = 0 ∧ (d = 31 ∨ n = 31)
      · simp only [hal, and_self, ↓reduceIte]
        obtain ⟨rfl, rfl, rfl, _⟩ := hal
        have : extG (A64.X s m 64) 3 0 = A64.X s m 64 := by simp [extG]
        rw [this]
        exact regExpr_rz s (Or.inr rfl) hm
      · simp only [hal, ↓reduceIte]
        exact regExpr_ext s hN hm ho (by omega)
    generalize (if N = 64 ∧ option = 3 ∧ imm3 = 0 ∧ (d = 31 ∨ n = 31) then rz 64 m
        else extended N (if N = 64 ∧ option % 4 = 3 then 64 else 32)
          (rz (if N = 64 ∧ option % 4 = 3 then 64 else 32) m) option imm3) = re at *
    generalize A64.extendReg (A64.X s m N) option imm3 = rv at *
    cases hsub : bit w 30 <;> cases hS : bit w 29 <;> simp only [hsub, hS, Bool.false_eq_true, false_and, and_false,
      and_true, true_and, ↓reduceIte, Bool.not_false, Bool.not_true] at h ⊢
    · -- add
      rw [addSub_noflags, addSub_res_add]
      injection h with h; subst h
      refine ⟨_, _, ?_, rfl, abs_next (abs_setS ha hd _)⟩
      rw [run_setS (s := s) addr hN d (Ev.add (hl σ s ha rfl rfl) (hr σ s ha rfl rfl))]
      exact congrArg (fun p => LiftOut.next _ [p]) (hnext _ (pc_setXSP s d _)).symm
    · -- adds
      split at h
      · cases h
      · rename_i hd31
        injection h with h; subst h
        rw [addSub_res_add, addSub_flags_add hN1 hN64]
        obtain ⟨σ', hrun, habs⟩ := run_flags_setZ arith_add ha addr hN hd hl hr
        refine ⟨σ', _, ?_, rfl, abs_next habs⟩
        rw [hrun, hnext _ (by rw [pc_setX])]
    · -- sub
      rw [addSub_noflags, addSub_res_sub]
      injection h with h; subst h
      refine ⟨_, _, ?_, rfl, abs_next (abs_setS ha hd _)⟩
      rw [run_setS (s := s) addr hN d (Ev.sub (hl σ s ha rfl rfl) (hr σ s ha rfl rfl))]
      exact congrArg (fun p => LiftOut.next _ [p]) (hnext _ (pc_setXSP s d _)).symm
    · -- subs
      split at h
      · cases h
      · rename_i hd31
        injection h with h; subst h
        rw [addSub_res_sub, addSub_flags_sub hN1 hN64]
        obtain ⟨σ', hrun, habs⟩ := run_flags_setZ arith_sub ha addr hN hd hl hr
        have hd31' : ¬ d = 31 := hd31
        refine ⟨σ', _, ?_, rfl, ?_⟩
        · rw [hrun, hnext _ (by rw [pc_setX])]
        · have := abs_next habs
          unfold A64.setX at this ⊢
          simp only [hd31', ↓reduceIte, A64.next, withNZCV, Bool.not_not] at this ⊢
          exact this

end C03
end Falcon
