/-
  FalconProofs.C03.Pair — the class theorem for LDP/STP/LDPSW/LDNP/STNP (integer).
-/
import FalconProofs.C03.PairStore

namespace Falcon
namespace C03
open Const A64Lift
open A64 (fld bit)

/-- the operations of a pair instruction, in the form the tail lemmas use -/
def pairOps (addr : Nat) (load signed : Bool) (sz t t2 : Nat) (am : Expr × List Op) : List Op :=
  if load = true then
    [.load (temp addr (8 * sz)) am.1, .load (temp (addr + 1) (8 * sz)) (.bin .add am.1 (A64Lift.k sz 64)),
      setZ (if signed = true then 64 else 8 * sz) t
        (if signed = true then Expr.ext .sext 64 (.scalar (temp addr (8 * sz))) else .scalar (temp addr (8 * sz))),
      setZ (if signed = true then 64 else 8 * sz) t2
        (if signed = true then Expr.ext .sext 64 (.scalar (temp (addr + 1) (8 * sz)))
         else .scalar (temp (addr + 1) (8 * sz)))] ++ am.2
  else
    [.store am.1 (rz (8 * sz) t), .store (.bin .add am.1 (A64Lift.k sz 64)) (rz (8 * sz) t2)] ++ am.2

/-- the addressing mode number `memOperand` gets for a pair -/
def pairMode (w : BitVec 32) : Nat := if fld w 25 23 = 1 then 1 else if fld w 25 23 = 3 then 3 else 4

def pairOff (w : BitVec 32) : Nat := (A64.sext64 (fld w 21 15) 7 (2 + fld w 31 30 / 2)).toNat

theorem ldstPairInt_eq (w : BitVec 32) (addr : Nat) (h26 : bit w 26 = false) (hm : fld w 25 23 ≤ 3) (hok : PairOK w) :
    ldstPairInt w addr = some (straight addr
      (pairOps addr (bit w 22) (decide (fld w 31 30 = 1)) (1 <<< (2 + fld w 31 30 / 2)) (fld w 4 0) (fld w 14 10)
        (memOperand (pairMode w) (fld w 9 5) (pairOff w)))) := by
  obtain ⟨hopc, hsig⟩ := hok
  have h1 : ¬ (fld w 25 23 > 3 ∨ fld w 31 30 = 3) := by omega
  have h2 : ¬ (fld w 31 30 = 1 ∧ ((!bit w 22) = true ∨ fld w 25 23 = 0)) := by
    intro hh; apply hsig; refine ⟨hh.1, ?_⟩
    rcases hh.2 with h | h
    · left; simpa using h
    · right; exact h
  unfold ldstPairInt pairMode pairOff
  simp only [h26, h1, h2, Bool.false_eq_true, ↓reduceIte, decide_eq_true_eq]
  generalize memOperand (if fld w 25 23 = 1 then 1 else if fld w 25 23 = 3 then 3 else 4) (fld w 9 5)
    (A64.sext64 (fld w 21 15) 7 (2 + fld w 31 30 / 2)).toNat = am
  obtain ⟨a, wb⟩ := am
  have hopc3 : fld w 31 30 < 4 := fld_lt w 31 30
  generalize fld w 31 30 = opc at *
  have : opc = 0 ∨ opc = 1 ∨ opc = 2 := by omega
  rcases this with rfl | rfl | rfl <;> cases bit w 22 <;> simp [pairOps]

theorem step_ldstPair (w : BitVec 32) (s : A64.St) (hc : fld w 29 27 = 0b101) (h25 : fld w 25 25 = 0) :
    A64.step w s = A64.ldstPair s w := by
  have hnop := nop_not_class hc (by decide)
  have hb25 := bit_false_of_fld h25
  have h1 : fld w 28 23 ≠ 0b100010 := by intro h; unfold A64.fld at h hc; omega
  have h2 : fld w 28 23 ≠ 0b100100 := by intro h; unfold A64.fld at h hc; omega
  have h3 : fld w 28 23 ≠ 0b100101 := by intro h; unfold A64.fld at h hc; omega
  have h4 : fld w 28 24 ≠ 0b01011 := by intro h; unfold A64.fld at h hc h25; omega
  have h5 : fld w 28 24 ≠ 0b01010 := by intro h; unfold A64.fld at h hc h25; omega
  have h6 : fld w 30 26 ≠ 0b00101 := by intro h; unfold A64.fld at h hc; omega
  have h7 : fld w 31 25 ≠ 0b0101010 := by intro h; unfold A64.fld at h hc; omega
  have h8 : fld w 30 25 ≠ 0b011010 := by intro h; unfold A64.fld at h hc; omega
  have h9 : fld w 30 25 ≠ 0b011011 := by intro h; unfold A64.fld at h hc; omega
  have h10 : fld w 31 25 ≠ 0b1101011 := by intro h; unfold A64.fld at h hc; omega
  unfold A64.step
  simp only [hnop, h1, h2, h3, h4, h5, h6, h7, h8, h9, h10, hc, hb25, ↓reduceIte, Bool.not_false, and_self,
    show ¬ ((5 : Nat) = 7) by decide, show ¬ ((5 : Nat) = 3) by decide, false_and]

theorem lift_ldstOther (w : BitVec 32) (addr : Nat) (h27 : fld w 27 27 = 1) (h25 : fld w 25 25 = 0)
    (h28 : fld w 29 27 ≠ 0b111) : lift w addr = ldstOther w addr := by
  have hnop : w.toNat ≠ 0xd503201f := by
    intro h
    have : w = 0xd503201f#32 := BitVec.eq_of_toNat_eq (by rw [h]; rfl)
    subst this; revert h27; decide
  have h1 : fld w 28 23 ≠ 0b100010 := by intro h; unfold A64.fld at h h27 h25; omega
  have h2 : fld w 28 23 ≠ 0b100100 := by intro h; unfold A64.fld at h h27 h25; omega
  have h3 : fld w 28 23 ≠ 0b100101 := by intro h; unfold A64.fld at h h27 h25; omega
  have h4 : fld w 28 24 ≠ 0b01011 := by intro h; unfold A64.fld at h h27 h25; omega
  have h5 : fld w 28 24 ≠ 0b01010 := by intro h; unfold A64.fld at h h27 h25; omega
  unfold lift
  simp only [hnop, h1, h2, h3, h4, h5, h28, h27, h25, ↓reduceIte, false_and, and_self]

theorem lift_ldstPair (w : BitVec 32) (addr : Nat) (hc : fld w 29 27 = 0b101) (h25 : fld w 25 25 = 0) :
    lift w addr = ldstPairInt w addr := by
  have h27 : fld w 27 27 = 1 := by unfold A64.fld at hc ⊢; omega
  rw [lift_ldstOther w addr h27 h25 (by rw [hc]; decide)]
  unfold ldstOther
  simp only [hc, ↓reduceIte]

/-- the address of the first element -/
def pairAddr (w : BitVec 32) (s : A64.St) : BitVec 64 :=
  if fld w 25 23 = 1 then A64.XSP s (fld w 9 5) 64
  else A64.XSP s (fld w 9 5) 64 + BitVec.ofNat 64 (pairOff w)

theorem add_ofNat_toNat (a : BitVec 64) (k : Nat) (h : a.toNat + k < 2 ^ 64) :
    (a + BitVec.ofNat 64 k).toNat = a.toNat + k := by
  rw [BitVec.toNat_add, BitVec.toNat_ofNat, Nat.mod_eq_of_lt (by omega : k < 2 ^ 64), Nat.mod_eq_of_lt h]

theorem pair_dest_eq (s : A64.St) (t t2 : Nat) (signed : Bool) {sz : Nat} (d1 d2 : BitVec (8 * sz)) :
    (if signed = true then A64.setX (A64.setX s t (d1.signExtend 64)) t2 (d2.signExtend 64)
     else A64.setX (A64.setX s t d1) t2 d2) =
      A64.setX (A64.setX s t (pairVal signed d1)) t2 (pairVal signed d2) := by
  unfold pairVal A64.setX
  cases signed <;> simp

theorem memOperand4 (n off : Nat) :
    memOperand 4 n off = (Expr.bin .add (.scalar (sc (sName n) 64)) (A64Lift.k off 64), []) := rfl

theorem ite_ok {c : Prop} [Decidable c] {x : A64.Outcome} {m : String} {s' : A64.St}
    (h : (if c then x else A64.Outcome.fault m) = .ok s') : x = .ok s' := by
  split at h
  · exact h
  · cases h

theorem ldpStp_agrees (w : BitVec 32) (addr : Nat) (r : BTR) (hc : fld w 29 27 = 0b101) (h25 : fld w 25 25 = 0)
    (h26 : fld w 26 26 = 0) (hok : PairOK w)
    (h : lift w addr = some r) (σ : State) (s : A64.St) (ha : Abs σ s)
    (hpc : s.pc = BitVec.ofNat 64 addr) (haddr : addr + 4 < 2 ^ 64)
    (s' : A64.St) (hs : A64.step w s = .ok s')
    (hnowrap : (pairAddr w s).toNat + 2 * (1 <<< (2 + fld w 31 30 / 2)) ≤ 2 ^ 64) :
    ∃ σ', runBTR r σ = .next σ' [s'.pc.toNat] ∧ Abs σ' s' := by
  have hb26 := bit_false_of_fld h26
  have hm : fld w 25 23 ≤ 3 := by unfold A64.fld at h25 ⊢; omega
  rw [lift_ldstPair w addr hc h25, ldstPairInt_eq w addr hb26 hm hok] at h
  injection h with h; subst h
  rw [step_ldstPair w s hc h25, ldstPair_int s w hb26 hm hok] at hs
  have hoffeq : A64.sext64 (fld w 21 15) 7 (2 + fld w 31 30 / 2) = BitVec.ofNat 64 (pairOff w) := by
    unfold pairOff; apply BitVec.eq_of_toNat_eq; simp
  have hoff : pairOff w < 2 ^ 64 := BitVec.isLt _
  rw [hoffeq] at hs
  have hn : fld w 9 5 < 32 := fld_lt w 9 5
  have ht : fld w 4 0 < 32 := fld_lt w 4 0
  have ht2 : fld w 14 10 < 32 := fld_lt w 14 10
  have hopc4 : fld w 31 30 < 4 := fld_lt w 31 30
  have hszc : (1 <<< (2 + fld w 31 30 / 2) = 4 ∨ 1 <<< (2 + fld w 31 30 / 2) = 8) ∧
      (decide (fld w 31 30 = 1) = true → 1 <<< (2 + fld w 31 30 / 2) = 4) := by
    have : fld w 31 30 = 0 ∨ fld w 31 30 = 1 ∨ fld w 31 30 = 2 := by have := hok.1; omega
    rcases this with h | h | h <;> simp [h]
  obtain ⟨hsz, hsr⟩ := hszc
  unfold pairAddr at hnowrap
  unfold pairMode
  generalize fld w 9 5 = n at *
  generalize fld w 4 0 = t at *
  generalize fld w 14 10 = t2 at *
  generalize pairOff w = off at *
  generalize (1 <<< (2 + fld w 31 30 / 2)) = sz at *
  generalize decide (fld w 31 30 = 1) = signed at *
  generalize fld w 25 23 = mode at *
  have hb := regExpr_base s hn
  have hbo := regExpr_base_off s hn hoff
  unfold pairBody at hs
  split at hs
  · cases hs
  rename_i hcu
  split at hs
  · cases hs
  simp only [] at hs
  cases hload : bit w 22
  · -- stores
    simp only [hload, Bool.false_eq_true, ↓reduceIte, pairOps] at hs ⊢
    by_cases hpost : mode = 1
    · subst hpost
      simp only [decide_true, ↓reduceIte, Nat.reduceEqDiff, or_false, true_or] at hs hnowrap hcu
      replace hs := ite_ok hs
      cases hw1 : A64.memWrite s (A64.XSP s n 64) sz (A64.X s t (8 * sz)) with
      | none => rw [hw1] at hs; cases hs
      | some s1 =>
        rw [hw1] at hs
        simp only [] at hs
        cases hw2 : A64.memWrite s1 (A64.XSP s n 64 + BitVec.ofNat 64 sz) sz (A64.X s t2 (8 * sz)) with
        | none => rw [hw2] at hs; cases hs
        | some s2 =>
          rw [hw2] at hs
          have e2 := add_ofNat_toNat (A64.XSP s n 64) sz (by omega)
          exact pair_store_tail ha addr n t t2 off sz hsz hn ht ht2 hoff hpc haddr _ _ hb (by omega)
            (by rw [e2]; omega) s1 s2 hw1 hw2 s' true (by injection hs with hs; rw [← hs]; simp)
    · have hm1 : ¬ mode = 1 := hpost
      simp only [hm1, decide_false, Bool.false_eq_true, ↓reduceIte, false_or] at hs hnowrap hcu
      replace hs := ite_ok hs
      cases hw1 : A64.memWrite s (A64.XSP s n 64 + BitVec.ofNat 64 off) sz (A64.X s t (8 * sz)) with
      | none => rw [hw1] at hs; cases hs
      | some s1 =>
        rw [hw1] at hs
        simp only [] at hs
        cases hw2 : A64.memWrite s1 (A64.XSP s n 64 + BitVec.ofNat 64 off + BitVec.ofNat 64 sz) sz
            (A64.X s t2 (8 * sz)) with
        | none => rw [hw2] at hs; cases hs
        | some s2 =>
          rw [hw2] at hs
          have e2 := add_ofNat_toNat (A64.XSP s n 64 + BitVec.ofNat 64 off) sz (by omega)
          by_cases hpre : mode = 3
          · subst hpre
            exact pair_store_tail ha addr n t t2 off sz hsz hn ht ht2 hoff hpc haddr _ _ hbo (by omega)
              (by rw [e2]; omega) s1 s2 hw1 hw2 s' true (by injection hs with hs; rw [← hs]; simp)
          · simp only [hm1, hpre, ↓reduceIte, memOperand4]
            exact pair_store_tail ha addr n t t2 off sz hsz hn ht ht2 hoff hpc haddr _ _ hbo (by omega)
              (by rw [e2]; omega) s1 s2 hw1 hw2 s' false (by injection hs with hs; rw [← hs]; simp [hpre])
  · -- loads
    simp only [hload, ↓reduceIte, pairOps] at hs ⊢
    rename_i hcu2
    have htt : t ≠ t2 := fun e => hcu2 ⟨hload, e⟩
    by_cases hpost : mode = 1
    · subst hpost
      simp only [decide_true, ↓reduceIte, Nat.reduceEqDiff, or_false, true_or] at hs hnowrap hcu
      cases hr1 : A64.memRead s (A64.XSP s n 64) sz with
      | none => rw [hr1] at hs; cases hs
      | some d1 =>
        cases hr2 : A64.memRead s (A64.XSP s n 64 + BitVec.ofNat 64 sz) sz with
        | none => rw [hr1, hr2] at hs; cases hs
        | some d2 =>
          rw [hr1, hr2] at hs
          simp only [pair_dest_eq] at hs
          have e2 := add_ofNat_toNat (A64.XSP s n 64) sz (by omega)
          have hnt : (n ≠ t ∨ n = 31) ∧ (n ≠ t2 ∨ n = 31) := by
            by_cases h31 : n = 31
            · exact ⟨Or.inr h31, Or.inr h31⟩
            · constructor
              · left; intro e; exact hcu ⟨trivial, Or.inl e.symm, h31⟩
              · left; intro e; exact hcu ⟨trivial, Or.inr e.symm, h31⟩
          exact pair_load_tail ha addr n t t2 off sz signed hsz hsr hn ht ht2 hoff hpc haddr d1 d2 _ _ hb (by omega)
            (by rw [e2]; omega) hr1 hr2 s' true (Or.inr hnt) (by injection hs with hs; rw [← hs]; simp)
    · have hm1 : ¬ mode = 1 := hpost
      simp only [hm1, decide_false, Bool.false_eq_true, ↓reduceIte, false_or] at hs hnowrap hcu
      cases hr1 : A64.memRead s (A64.XSP s n 64 + BitVec.ofNat 64 off) sz with
      | none => rw [hr1] at hs; cases hs
      | some d1 =>
        cases hr2 : A64.memRead s (A64.XSP s n 64 + BitVec.ofNat 64 off + BitVec.ofNat 64 sz) sz with
        | none => rw [hr1, hr2] at hs; cases hs
        | some d2 =>
          rw [hr1, hr2] at hs
          simp only [pair_dest_eq] at hs
          have e2 := add_ofNat_toNat (A64.XSP s n 64 + BitVec.ofNat 64 off) sz (by omega)
          by_cases hpre : mode = 3
          · subst hpre
            have hnt : (n ≠ t ∨ n = 31) ∧ (n ≠ t2 ∨ n = 31) := by
              by_cases h31 : n = 31
              · exact ⟨Or.inr h31, Or.inr h31⟩
              · constructor
                · left; intro e; exact hcu ⟨by decide, Or.inl e.symm, h31⟩
                · left; intro e; exact hcu ⟨by decide, Or.inr e.symm, h31⟩
            exact pair_load_tail ha addr n t t2 off sz signed hsz hsr hn ht ht2 hoff hpc haddr d1 d2 _ _ hbo
              (by omega) (by rw [e2]; omega) hr1 hr2 s' true (Or.inr hnt)
              (by injection hs with hs; rw [← hs]; simp)
          · simp only [hm1, hpre, ↓reduceIte, memOperand4]
            exact pair_load_tail ha addr n t t2 off sz signed hsz hsr hn ht ht2 hoff hpc haddr d1 d2 _ _ hbo
              (by omega) (by rw [e2]; omega) hr1 hr2 s' false (Or.inl rfl)
              (by injection hs with hs; rw [← hs]; simp [hpre])

end C03
end Falcon
