/-
  FalconProofs.C03.AddSub — add/adds/sub/subs (immediate) and (shifted register): the IL of the mirror,
  run by `runBTR` from any state holding an A64 state, yields the state `A64.step` yields.
-/
import FalconProofs.C03.Abs
import FalconProofs.C03.Flags

namespace Falcon
namespace C03
open Const A64Lift
open A64 (fld bit)
open C07 (get_set get_set_self get_set_ne)

theorem XSP_congr {s s' : A64.St} (hx : s'.x = s.x) (hsp : s'.sp = s.sp) (n N : Nat) :
    A64.XSP s' n N = A64.XSP s n N := by
  unfold A64.XSP A64.SP A64.X; rw [hx, hsp]

theorem X_congr {s s' : A64.St} (hx : s'.x = s.x) (n N : Nat) : A64.X s' n N = A64.X s n N := by
  unfold A64.X; rw [hx]

/-- an operand expression whose value depends on the X registers and SP only -/
def RegExpr (s : A64.St) (e : Expr) (N : Nat) (v : BitVec N) : Prop :=
  ∀ σ' s', Abs σ' s' → s'.x = s.x → s'.sp = s.sp → Ev σ' e N v

theorem regExpr_rs (s : A64.St) {N : Nat} (hN : N = 32 ∨ N = 64) {n : Nat} (hn : n < 32) :
    RegExpr s (rs N n) N (A64.XSP s n N) := by
  intro σ' s' ha hx hsp
  have := ev_rs ha hN hn
  rwa [XSP_congr hx hsp] at this

theorem regExpr_rz (s : A64.St) {N : Nat} (hN : N = 32 ∨ N = 64) {n : Nat} (hn : n < 32) :
    RegExpr s (rz N n) N (A64.X s n N) := by
  intro σ' s' ha hx _
  have := ev_rz ha hN hn
  rwa [X_congr hx] at this

theorem regExpr_lit (s : A64.St) {N a : Nat} (h : a < 2 ^ N) : RegExpr s (k a N) N (BitVec.ofNat N a) :=
  fun _ _ _ _ _ => Ev.lit h

theorem abs_flag_n {σ : State} {s : A64.St} (ha : Abs σ s) (b : Bool) :
    Abs (σ.set "n" (ofBV (BitVec.ofBool b))) { s with n := b } where
  x i hi := by rw [get_set_ne _ _ (xName_ne_n i)]; exact ha.x i hi
  sp := by rw [get_set_ne _ _ (by decide)]; exact ha.sp
  n := by simp [get_set_self]
  z := by rw [get_set_ne _ _ (by decide)]; exact ha.z
  c := by rw [get_set_ne _ _ (by decide)]; exact ha.c
  v := by rw [get_set_ne _ _ (by decide)]; exact ha.v
  mem := ha.mem
  endian := ha.endian

theorem abs_flag_z {σ : State} {s : A64.St} (ha : Abs σ s) (b : Bool) :
    Abs (σ.set "z" (ofBV (BitVec.ofBool b))) { s with z := b } where
  x i hi := by rw [get_set_ne _ _ (xName_ne_z i)]; exact ha.x i hi
  sp := by rw [get_set_ne _ _ (by decide)]; exact ha.sp
  n := by rw [get_set_ne _ _ (by decide)]; exact ha.n
  z := by simp [get_set_self]
  c := by rw [get_set_ne _ _ (by decide)]; exact ha.c
  v := by rw [get_set_ne _ _ (by decide)]; exact ha.v
  mem := ha.mem
  endian := ha.endian

theorem abs_flag_c {σ : State} {s : A64.St} (ha : Abs σ s) (b : Bool) :
    Abs (σ.set "c" (ofBV (BitVec.ofBool b))) { s with c := b } where
  x i hi := by rw [get_set_ne _ _ (xName_ne_c i)]; exact ha.x i hi
  sp := by rw [get_set_ne _ _ (by decide)]; exact ha.sp
  n := by rw [get_set_ne _ _ (by decide)]; exact ha.n
  z := by rw [get_set_ne _ _ (by decide)]; exact ha.z
  c := by simp [get_set_self]
  v := by rw [get_set_ne _ _ (by decide)]; exact ha.v
  mem := ha.mem
  endian := ha.endian

theorem abs_flag_v {σ : State} {s : A64.St} (ha : Abs σ s) (b : Bool) :
    Abs (σ.set "v" (ofBV (BitVec.ofBool b))) { s with v := b } where
  x i hi := by rw [get_set_ne _ _ (xName_ne_v i)]; exact ha.x i hi
  sp := by rw [get_set_ne _ _ (by decide)]; exact ha.sp
  n := by rw [get_set_ne _ _ (by decide)]; exact ha.n
  z := by rw [get_set_ne _ _ (by decide)]; exact ha.z
  c := by rw [get_set_ne _ _ (by decide)]; exact ha.c
  v := by simp [get_set_self]
  mem := ha.mem
  endian := ha.endian

/-- the arithmetic operator of `adds` / `subs` at widths `N` and 72 -/
structure ArithOp (op : BinOp) (f : {n : Nat} → BitVec n → BitVec n → BitVec n) : Prop where
  ev : ∀ {σ : State} {l r : Expr} {n : Nat} {x y : BitVec n}, Ev σ l n x → Ev σ r n y → Ev σ (.bin op l r) n (f x y)

theorem arith_add : ArithOp .add (fun x y => x + y) := ⟨Ev.add⟩
theorem arith_sub : ArithOp .sub (fun x y => x - y) := ⟨Ev.sub⟩

/-- the four flag assignments, then whatever follows, from a state holding `s` -/
theorem exec_flagOps {op : BinOp} {f : {n : Nat} → BitVec n → BitVec n → BitVec n} (hop : ArithOp op f)
    {σ : State} {s : A64.St} (ha : Abs σ s) {N : Nat} (hN : N = 32 ∨ N = 64) {l r : Expr} {x y : BitVec N}
    (hl : RegExpr s l N x) (hr : RegExpr s r N y) (rest : List Op) :
    ∃ σ', Abs σ' { s with n := (f x y).slt 0, z := (f x y == 0),
                          c := ((f x y).zeroExtend 72 != f (x.zeroExtend 72) (y.zeroExtend 72)),
                          v := ((f x y).signExtend 72 != f (x.signExtend 72) (y.signExtend 72)) } ∧
      execOps (flagOps N op l r ++ rest) σ = execOps rest σ' := by
  have hN1 : 1 ≤ N := by rcases hN with rfl | rfl <;> decide
  have hN72 : N < 72 := by rcases hN with rfl | rfl <;> decide
  have h0 : ∀ σ', Ev σ' (k 0 N) N (0 : BitVec N) := fun σ' => by
    have h := @Ev.lit σ' N 0 (Nat.two_pow_pos N)
    exact h
  -- n
  have e1 := Ev.cmplts hN1 (hop.ev (hl σ s ha rfl rfl) (hr σ s ha rfl rfl)) (h0 σ)
  have a1 := abs_flag_n ha ((f x y).slt 0)
  -- z
  have e2 := Ev.cmpeq (hop.ev (hl _ _ a1 rfl rfl) (hr _ _ a1 rfl rfl)) (h0 _)
  have a2 := abs_flag_z a1 (f x y == 0)
  -- c
  have e3 := Ev.cmpneq (Ev.zext 72 hN1 hN72 (hop.ev (hl _ _ a2 rfl rfl) (hr _ _ a2 rfl rfl)))
    (hop.ev (Ev.zext 72 hN1 hN72 (hl _ _ a2 rfl rfl)) (Ev.zext 72 hN1 hN72 (hr _ _ a2 rfl rfl)))
  have a3 := abs_flag_c a2 ((f x y).zeroExtend 72 != f (x.zeroExtend 72) (y.zeroExtend 72))
  -- v
  have e4 := Ev.cmpneq (Ev.sext 72 hN1 hN72 (hop.ev (hl _ _ a3 rfl rfl) (hr _ _ a3 rfl rfl)))
    (hop.ev (Ev.sext 72 hN1 hN72 (hl _ _ a3 rfl rfl)) (Ev.sext 72 hN1 hN72 (hr _ _ a3 rfl rfl)))
  have a4 := abs_flag_v a3 ((f x y).signExtend 72 != f (x.signExtend 72) (y.signExtend 72))
  refine ⟨_, a4, ?_⟩
  simp only [flagOps, sc, List.cons_append, List.nil_append, execOps]
  rw [exec_assign _ e1]; dsimp only
  rw [exec_assign _ e2]; dsimp only
  rw [exec_assign _ e3]; dsimp only
  rw [exec_assign _ e4]

end C03
end Falcon
