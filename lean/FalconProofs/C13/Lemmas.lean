/-
  FalconProofs.C13.Lemmas — association-list facts, the congruence of `symbolize`, soundness of the order
  `le` and of the checker's abstract step, one lemma per operation.
-/
import FalconModel.ConstCert

namespace Falcon.C13
open Falcon Falcon.ConstCert

-- ------------------------------------------------------------------ abstract states

theorem aget_cons (k : String) (v : AVal) (s : AState) (x : String) :
    AState.get ((k, v) :: s) x = if x = k then some v else AState.get s x := rfl

theorem aget_mem {s : AState} {x : String} {v : AVal} (h : AState.get s x = some v) : (x, v) ∈ s := by
  induction s with
  | nil => simp [AState.get] at h
  | cons p rest ih =>
    obtain ⟨k, w⟩ := p
    rw [aget_cons] at h
    by_cases hx : x = k
    · simp [hx] at h; subst hx; subst h; exact List.mem_cons_self
    · simp [hx] at h; exact List.mem_cons_of_mem _ (ih h)

theorem mem_aget_isSome {s : AState} {x : String} {v : AVal} (h : (x, v) ∈ s) :
    (AState.get s x).isSome = true := by
  induction s with
  | nil => cases h
  | cons p rest ih =>
    obtain ⟨k, w⟩ := p
    rw [aget_cons]
    by_cases hx : x = k
    · simp [hx]
    · simp [hx]
      rcases List.mem_cons.mp h with h | h
      · cases h; exact absurd rfl hx
      · exact ih h

theorem aget_set_same (s : AState) (x : String) (v : AVal) : AState.get (s.set x v) x = some v := by
  simp [AState.set, aget_cons]

theorem aget_set_ne (s : AState) {x y : String} (v : AVal) (h : y ≠ x) :
    AState.get (s.set x v) y = AState.get s y := by
  simp [AState.set, aget_cons, h]

-- ------------------------------------------------------------------ executor states

theorem lookup_filter_ne (l : List (String × Const)) (n x : String) (h : x ≠ n) :
    List.lookup x (l.filter (fun p => p.1 != n)) = List.lookup x l := by
  induction l with
  | nil => rfl
  | cons p rest ih =>
    obtain ⟨k, w⟩ := p
    by_cases hk : k = n
    · subst hk
      have : (x == k) = false := by simp [h]
      simp [List.filter, List.lookup, this, ih]
    · have hk' : (k != n) = true := by simp [hk]
      simp only [List.filter, hk', List.lookup]
      rw [ih]

theorem sget_set_same (σ : State) (n : String) (v : Const) : (σ.set n v).get n = some v := by
  simp [State.get, State.set, List.lookup]

theorem sget_set_ne (σ : State) {n x : String} (v : Const) (h : x ≠ n) : (σ.set n v).get x = σ.get x := by
  have hx : (x == n) = false := by simp [h]
  simp only [State.get, State.set, List.lookup, hx]
  exact lookup_filter_ne _ _ _ h

/-- `symbolize` only looks at the names that occur in the expression -/
theorem symbolize_congr (σ ρ : State) (e : Expr)
    (h : ∀ s ∈ e.scalars, σ.get s.name = ρ.get s.name) : σ.symbolize e = ρ.symbolize e := by
  induction e with
  | scalar s =>
    have := h s (by simp [Expr.scalars])
    simp [State.symbolize, this]
  | const c => rfl
  | bin op l r ihl ihr =>
    have hl := ihl (fun s hs => h s (by simp [Expr.scalars, hs]))
    have hr := ihr (fun s hs => h s (by simp [Expr.scalars, hs]))
    simp [State.symbolize, hl, hr]
  | ext op b e ih =>
    have he := ih (fun s hs => h s (by simp [Expr.scalars, hs]))
    simp [State.symbolize, he]
  | ite c t e ihc iht ihe =>
    have hc := ihc (fun s hs => h s (by simp [Expr.scalars, hs]))
    have ht := iht (fun s hs => h s (by simp [Expr.scalars, hs]))
    have he := ihe (fun s hs => h s (by simp [Expr.scalars, hs]))
    simp [State.symbolize, hc, ht, he]

theorem evalIn_congr (σ ρ : State) (e : Expr)
    (h : ∀ s ∈ e.scalars, σ.get s.name = ρ.get s.name) : σ.evalIn e = ρ.evalIn e := by
  simp [State.evalIn, symbolize_congr σ ρ e h]

-- ------------------------------------------------------------------ the environment of known constants

def knownEntry (F : Fact) (s : Scalar) : Option (String × Const) :=
  match F.vals.get s.name with
  | some (.const c) => some (s.name, c)
  | _ => none

theorem envOf_eq (F : Fact) (e : Expr) : (envOf F e).scalars = e.scalars.filterMap (knownEntry F) := rfl

theorem knownEntry_some {F : Fact} {s : Scalar} {p : String × Const} (h : knownEntry F s = some p) :
    p.1 = s.name ∧ F.vals.get s.name = some (.const p.2) := by
  unfold knownEntry at h
  split at h
  · rename_i c hc; cases h; exact ⟨rfl, hc⟩
  · cases h

theorem lookup_known (F : Fact) (ss : List Scalar) (s : Scalar) (c : Const)
    (hs : s ∈ ss) (hc : F.vals.get s.name = some (.const c)) :
    List.lookup s.name (ss.filterMap (knownEntry F)) = some c := by
  induction ss with
  | nil => cases hs
  | cons s0 rest ih =>
    cases hk : knownEntry F s0 with
    | none =>
      have hne : s ≠ s0 := by
        intro heq; subst heq
        simp [knownEntry, hc] at hk
      have hs' : s ∈ rest := by
        rcases List.mem_cons.mp hs with h | h
        · exact absurd h hne
        · exact h
      simp [List.filterMap, hk, ih hs']
    | some p =>
      obtain ⟨hp1, hp2⟩ := knownEntry_some hk
      obtain ⟨k, w⟩ := p
      simp only at hp1 hp2
      subst hp1
      simp only [List.filterMap, hk, List.lookup]
      by_cases hn : s.name = s0.name
      · have : (s.name == s0.name) = true := by simp [hn]
        simp only [this]
        rw [hn] at hc
        rw [hc] at hp2
        cases hp2; rfl
      · have : (s.name == s0.name) = false := by simp [hn]
        simp only [this]
        have hs' : s ∈ rest := by
          rcases List.mem_cons.mp hs with h | h
          · subst h; exact absurd rfl hn
          · exact h
        exact ih hs'

theorem allKnown_spec {F : Fact} {e : Expr} (h : allKnown F e = true) :
    ∀ s ∈ e.scalars, s.name ∈ F.must ∧ ∃ c, F.vals.get s.name = some (.const c) := by
  intro s hs
  have := (List.all_eq_true.mp h) s hs
  simp only [Bool.and_eq_true] at this
  obtain ⟨h1, h2⟩ := this
  refine ⟨by simpa using h1, ?_⟩
  split at h2
  · rename_i c hc; exact ⟨c, hc⟩
  · cases h2

-- ------------------------------------------------------------------ the order

theorem le_sound {F1 F2 : Fact} {σ : State} {A : List String} (hle : le F1 F2 = true)
    (h : Describes F1 σ A) : Describes F2 σ A := by
  simp only [le, Bool.and_eq_true] at hle
  obtain ⟨⟨hm, hd⟩, hv⟩ := hle
  have hm := List.all_eq_true.mp hm
  have hd := List.all_eq_true.mp hd
  have hv := List.all_eq_true.mp hv
  refine ⟨?_, ?_, ?_⟩
  · intro x hx
    exact h.must x (by simpa using hm x hx)
  · intro x hx
    have h1 := h.dom x hx
    cases hg : AState.get F1.vals x with
    | none => simp [hg] at h1
    | some v => exact hd (x, v) (aget_mem hg)
  · intro x c hx hA
    have h2 := hv (x, .const c) (aget_mem hx)
    simp only at h2
    have h1 := h.dom x hA
    cases hg : AState.get F1.vals x with
    | none => simp [hg] at h1
    | some v =>
      simp only [hg] at h2
      have : v = .const c := by simpa using h2
      subst this
      exact h.vals x c hg hA

-- ------------------------------------------------------------------ the abstract step, per operation

theorem absEval_sound {F : Fact} {σ : State} {A : List String} (h : Describes F σ A) {src : Expr} {c v : Const}
    (habs : absEval F src = .const c) (hev : σ.evalIn src = .ok v) : v = c := by
  unfold absEval at habs
  split at habs
  · rename_i hk
    have hs := allKnown_spec hk
    have hcongr : σ.evalIn src = (envOf F src).evalIn src := by
      apply evalIn_congr
      intro s hsm
      obtain ⟨hmust, c', hc'⟩ := hs s hsm
      have h1 : σ.get s.name = some c' := h.vals _ _ hc' (h.must _ hmust)
      have h2 : (envOf F src).get s.name = some c' := by
        show List.lookup s.name (envOf F src).scalars = some c'
        rw [envOf_eq]; exact lookup_known F _ s c' hsm hc'
      rw [h1, h2]
    rw [hcongr] at hev
    rw [hev] at habs
    simp at habs
    exact habs
  · cases habs

theorem describes_set {F : Fact} {σ : State} {A : List String} (h : Describes F σ A)
    (n : String) (av : AVal) (v : Const) (hav : ∀ c, av = .const c → v = c) :
    Describes { vals := F.vals.set n av, must := n :: F.must } (σ.set n v) (n :: A) := by
  refine ⟨?_, ?_, ?_⟩
  · intro x hx
    rcases List.mem_cons.mp hx with hx | hx
    · subst hx; exact List.mem_cons_self
    · exact List.mem_cons_of_mem _ (h.must x hx)
  · intro x hx
    by_cases hxn : x = n
    · subst hxn; simp [aget_set_same]
    · simp only [aget_set_ne _ _ hxn]
      rcases List.mem_cons.mp hx with hx | hx
      · exact absurd hx hxn
      · exact h.dom x hx
  · intro x c hx hA
    by_cases hxn : x = n
    · subst hxn
      simp only [aget_set_same] at hx
      have := hav c (by simpa using hx)
      subst this
      exact sget_set_same _ _ _
    · simp only [aget_set_ne _ _ hxn] at hx
      rw [sget_set_ne _ _ hxn]
      rcases List.mem_cons.mp hA with hA | hA
      · exact absurd hA hxn
      · exact h.vals x c hx hA

theorem absStep_sound_assign {F : Fact} {σ σ' : State} {A : List String} (h : Describes F σ A)
    {dst : Scalar} {src : Expr} (hex : execute σ (.assign dst src) = .ok (σ', .fallThrough)) :
    Describes (absStep (.assign dst src) F) σ' (dst.name :: A) := by
  cases hev : σ.evalIn src with
  | ok v =>
    have : σ' = σ.set dst.name v := by
      simp [execute, hev] at hex
      exact hex.symm
    subst this
    exact describes_set h dst.name (absEval F src) v (fun c hc => absEval_sound h hc hev)
  | err e => simp [execute, hev] at hex
  | panic => simp [execute, hev] at hex

theorem absStep_sound_load {F : Fact} {σ σ' : State} {A : List String} (h : Describes F σ A)
    {dst : Scalar} {idx : Expr} (hex : execute σ (.load dst idx) = .ok (σ', .fallThrough)) :
    Describes (absStep (.load dst idx) F) σ' (dst.name :: A) := by
  have : ∃ v, σ' = σ.set dst.name v := by
    cases hi : σ.evalIn idx with
    | ok i =>
      cases ha : addrOf i with
      | ok a =>
        simp only [execute, hi, ha, Res.bind_ok] at hex
        split at hex
        · cases hex
        · split at hex
          · cases hex
          · split at hex
            · rename_i bs _
              simp only [Res.ok.injEq, Prod.mk.injEq] at hex
              exact ⟨_, hex.1.symm⟩
            · cases hex
      | err e => simp [execute, hi, ha] at hex
      | panic => simp [execute, hi, ha] at hex
    | err e => simp [execute, hi] at hex
    | panic => simp [execute, hi] at hex
  obtain ⟨v, hv⟩ := this
  subst hv
  exact describes_set h dst.name .top v (fun c hc => by cases hc)

theorem describes_mem {F : Fact} {σ : State} {A : List String} (h : Describes F σ A) (m : ByteMem) :
    Describes F { σ with mem := m } A :=
  ⟨h.must, h.dom, fun x c hx hA => h.vals x c hx hA⟩

theorem absStep_sound_store {F : Fact} {σ σ' : State} {A : List String} (h : Describes F σ A)
    {idx src : Expr} (hex : execute σ (.store idx src) = .ok (σ', .fallThrough)) :
    Describes (absStep (.store idx src) F) σ' A := by
  have : ∃ m, σ' = { σ with mem := m } := by
    cases hv : σ.evalIn src with
    | ok v =>
      cases hi : σ.evalIn idx with
      | ok i =>
        cases ha : addrOf i with
        | ok a =>
          simp only [execute, hv, hi, ha, Res.bind_ok] at hex
          split at hex
          · cases hex
          · split at hex
            · cases hex
            · simp only [Res.ok.injEq, Prod.mk.injEq] at hex
              exact ⟨_, hex.1.symm⟩
        | err e => simp [execute, hv, hi, ha] at hex
        | panic => simp [execute, hv, hi, ha] at hex
      | err e => simp [execute, hv, hi] at hex
      | panic => simp [execute, hv, hi] at hex
    | err e => simp [execute, hv] at hex
    | panic => simp [execute, hv] at hex
  obtain ⟨m, hm⟩ := this
  subst hm
  exact describes_mem h m

theorem absStep_sound_nop {F : Fact} {σ σ' : State} {A : List String} (h : Describes F σ A)
    (hex : execute σ .nop = .ok (σ', .fallThrough)) : Describes (absStep .nop F) σ' A := by
  simp [execute] at hex
  subst hex
  exact h

/-- a branch leaves the fall-through relation: no step of `FStep` executes it -/
theorem branch_no_fallthrough (σ σ' : State) (t : Expr) : execute σ (.branch t) ≠ .ok (σ', .fallThrough) := by
  intro hex
  cases ht : σ.evalIn t with
  | ok v =>
    cases ha : addrOf v with
    | ok a => simp [execute, ht, ha] at hex
    | err e => simp [execute, ht, ha] at hex
    | panic => simp [execute, ht, ha] at hex
  | err e => simp [execute, ht] at hex
  | panic => simp [execute, ht] at hex

/-- the executor has no semantics for intrinsics: no step of `FStep` executes one -/
theorem intrinsic_no_fallthrough (σ σ' : State) (i : Intrinsic) :
    execute σ (.intrinsic i) ≠ .ok (σ', .fallThrough) := by
  simp [execute]

/-- the checker's abstract step over-approximates every operation that executes and falls through -/
theorem absStep_sound {F : Fact} {σ σ' : State} {A : List String} (h : Describes F σ A) (op : Op)
    (hex : execute σ op = .ok (σ', .fallThrough)) : Describes (absStep op F) σ' (opWrites op ++ A) := by
  cases op with
  | assign dst src => exact absStep_sound_assign h hex
  | load dst idx => exact absStep_sound_load h hex
  | store idx src => exact absStep_sound_store h hex
  | nop => exact absStep_sound_nop h hex
  | branch t => exact absurd hex (branch_no_fallthrough _ _ _)
  | intrinsic i => exact absurd hex (intrinsic_no_fallthrough _ _ _)

end Falcon.C13
