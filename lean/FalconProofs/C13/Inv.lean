/-
  FalconProofs.C13.Inv — the inductive invariant behind `constCheck_sound`: at every configuration reached by a
  run from the entry, every primary location of the configuration has a fact in the accepted map that
  describes the state and the names assigned so far.
-/
import FalconProofs.C13.Lemmas

namespace Falcon.C13
open Falcon Falcon.ConstCert

-- ------------------------------------------------------------------ the invariant

/-- at configuration `c` every primary location of `c` has a fact that describes the state -/
def Inv (f : Function) (R : Report) (c : Config) (A : List String) : Prop :=
  ∀ bk, f.block c.block = some bk → ∀ l ∈ primary f bk c.pos, ∃ F, R l = some F ∧ Describes F c.state A

theorem block_mem {f : Function} {i : Nat} {bk : Block} (h : f.block i = some bk) :
    bk ∈ f.cfg.blocks ∧ bk.index = i := by
  unfold Function.block Cfg.block at h
  refine ⟨List.mem_of_find?_eq_some h, ?_⟩
  have := List.find?_some h
  simpa using this

theorem flows_sound {F : Fact} {R : Report} {l' : Loc} {σ : State} {A : List String}
    (hf : flows F R l' = true) (h : Describes F σ A) : ∃ F', R l' = some F' ∧ Describes F' σ A := by
  unfold flows at hf
  split at hf
  · cases hf
  · rename_i F' hR
    exact ⟨F', hR, le_sound hf h⟩

theorem blockOk_of {f : Function} {R : Report} (hc : constCheck f R = true) {i : Nat} {bk : Block}
    (h : f.block i = some bk) : blockOk f R bk = true := by
  simp only [constCheck, Bool.and_eq_true] at hc
  exact List.all_eq_true.mp hc.2 bk (block_mem h).1

/-- the fact of an out-edge holds at the end of its block -/
theorem inv_edge {f : Function} {R : Report} (hc : constCheck f R = true) {c : Config} {A : List String}
    (hinv : Inv f R c A) {bk : Block} (hb : f.block c.block = some bk) (hpos : c.pos = bk.instrs.length)
    {e : Edge} (he : e ∈ f.cfg.edgesOut c.block) :
    ∃ F, R (.edge c.block e.tail) = some F ∧ Describes F c.state A := by
  have hidx := (block_mem hb).2
  have hok := blockOk_of hc hb
  simp only [blockOk, Bool.and_eq_true] at hok
  have hnone : bk.instrs[c.pos]? = none := by rw [hpos]; simp
  have hprim := hinv bk hb
  unfold primary at hprim
  rw [hnone] at hprim
  simp only at hprim
  by_cases hemp : bk.instrs.isEmpty = true
  · rw [if_pos hemp] at hprim
    obtain ⟨F, hR, hD⟩ := hprim (.empty bk.index) (by simp)
    have h2 := hok.1.2
    unfold emptyOk at h2
    simp only [hemp, if_true, hR] at h2
    have h3 := List.all_eq_true.mp h2 e (by rw [hidx]; exact he)
    rw [hidx] at h3
    exact flows_sound h3 hD
  · rw [if_neg hemp] at hprim
    have := hprim (.edge bk.index e.tail) (by
      apply List.mem_map.mpr
      exact ⟨e, by rw [hidx]; exact he, rfl⟩)
    rw [hidx] at this
    exact this

theorem inv_init {f : Function} {R : Report} (hc : constCheck f R = true) {σ0 : State} {c0 : Config}
    (h0 : f.initial σ0 = some c0) : Inv f R c0 [] := by
  unfold Function.initial at h0
  cases hent : f.cfg.entry with
  | none => simp [hent] at h0
  | some e =>
    simp only [hent, Option.map_some, Option.some.injEq] at h0
    subst h0
    intro bk hb l hl
    simp only [constCheck, Bool.and_eq_true] at hc
    have h1 := hc.1
    unfold entryOk at h1
    simp only [hent] at h1
    simp only at hb
    simp only [hb] at h1
    have h2 := List.all_eq_true.mp h1 l hl
    split at h2
    · rename_i F hR
      refine ⟨F, hR, ?_, ?_, ?_⟩
      · intro x hx
        have : F.must = [] := by simpa using h2
        rw [this] at hx; cases hx
      · intro x hx; cases hx
      · intro x c _ hx; cases hx
    · cases h2

theorem inv_step {f : Function} {R : Report} (hc : constCheck f R = true) {b c : Config} {A : List String}
    (hinv : Inv f R b A) (hs : FStep f b c) : Inv f R c (writesAt f b ++ A) := by
  cases hs with
  | @instr bk i _ σ' hb hi hex =>
    have hidx := (block_mem hb).2
    have hw : writesAt f b = opWrites i.op := by simp [writesAt, hb, hi]
    rw [hw]
    obtain ⟨F, hR, hD⟩ := hinv bk hb (.instr bk.index i.index) (by simp [primary, hi])
    have hok := blockOk_of hc hb
    simp only [blockOk, Bool.and_eq_true] at hok
    have hlt : b.pos < bk.instrs.length := by
      rcases Nat.lt_or_ge b.pos bk.instrs.length with h | h
      · exact h
      · rw [List.getElem?_eq_none h] at hi; cases hi
    have h1 := List.all_eq_true.mp hok.1.1 b.pos (List.mem_range.mpr hlt)
    unfold instrOk at h1
    simp only [hi, hR] at h1
    intro bk' hb' l hl
    simp only at hb' hl
    rw [hb] at hb'
    cases hb'
    have h2 := List.all_eq_true.mp h1 l hl
    exact flows_sound h2 (absStep_sound hD i.op hex)
  | @edge bk e _ hb hpos he hg =>
    have hw : writesAt f b = [] := by simp [writesAt, hb, hpos]
    rw [hw, List.nil_append]
    obtain ⟨F, hR, hD⟩ := inv_edge hc hinv hb hpos he
    have hidx := (block_mem hb).2
    have hok := blockOk_of hc hb
    simp only [blockOk, Bool.and_eq_true] at hok
    have h1 := List.all_eq_true.mp hok.2 e (by rw [hidx]; exact he)
    unfold edgeOk at h1
    rw [hidx] at h1
    simp only [hR] at h1
    intro tb htb l hl
    simp only at htb hl
    simp only [htb] at h1
    exact flows_sound (List.all_eq_true.mp h1 l hl) hD

theorem inv_run {f : Function} {R : Report} (hc : constCheck f R = true) {σ0 : State} {c0 c : Config}
    {A : List String} (h0 : f.initial σ0 = some c0) (hrun : ARun f c0 c A) : Inv f R c A := by
  induction hrun with
  | refl => exact inv_init hc h0
  | step _ hs ih => exact inv_step hc ih hs

end Falcon.C13
