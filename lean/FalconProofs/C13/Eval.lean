/-
  FalconProofs.C13.Eval — the model of `Constants::eval` (`substKnown` + `eval`) agrees with the executor's
  `symbolize_and_eval` on every state that holds the substituted constants.
-/
import FalconProofs.C13.Lemmas

namespace Falcon.C13
open Falcon Falcon.ConstCert

theorem mkBin_ok {op : BinOp} {l r e : Expr} (h : Expr.mkBin op l r = .ok e) : e = .bin op l r := by
  unfold Expr.mkBin at h
  split at h
  · cases h
  · cases h; rfl

theorem mkExt_ok {op : ExtOp} {b : Nat} {x e : Expr} (h : Expr.mkExt op b x = .ok e) : e = .ext op b x := by
  unfold Expr.mkExt at h
  split at h <;> split at h <;> first | cases h; rfl | cases h

theorem mkIte_ok {c t x e : Expr} (h : Expr.mkIte c t x = .ok e) : e = .ite c t x := by
  unfold Expr.mkIte at h
  split at h
  · cases h
  · cases h; rfl

theorem bind_ok_inv {α β : Type} {x : Res α} {g : α → Res β} {b : β} (h : (x >>= g) = .ok b) :
    ∃ a, x = .ok a ∧ g a = .ok b := by
  cases x with
  | ok a => exact ⟨a, rfl, h⟩
  | err e => cases h
  | panic => cases h

/-- what one `replace_scalar(x, constant)` does, when it succeeds -/
theorem replace_spec (σ : State) (x : Scalar) (c : Const) (hσ : σ.get x.name = some c) (e : Expr) :
    ∀ e', Expr.replaceScalar x (.const c) e = .ok e' →
      wfExpr e' = true ∧ σ.symbolize e' = σ.symbolize e ∧
      e'.scalars = e.scalars.filter (fun s => decide (s ≠ x)) := by
  induction e with
  | scalar s =>
    intro e' h
    unfold Expr.replaceScalar at h
    by_cases hs : s = x
    · simp only [hs, if_true] at h
      cases h
      subst hs
      refine ⟨rfl, ?_, ?_⟩
      · simp [State.symbolize, hσ]
      · simp [Expr.scalars]
    · simp only [hs, if_false] at h
      cases h
      refine ⟨rfl, rfl, ?_⟩
      simp [Expr.scalars, hs]
  | const k =>
    intro e' h
    unfold Expr.replaceScalar at h
    cases h
    exact ⟨rfl, rfl, rfl⟩
  | bin op l r ihl ihr =>
    intro e' h
    unfold Expr.replaceScalar at h
    obtain ⟨l', hl, h⟩ := bind_ok_inv h
    obtain ⟨r', hr, h⟩ := bind_ok_inv h
    have he := mkBin_ok h
    subst he
    obtain ⟨wl, sl, scl⟩ := ihl l' hl
    obtain ⟨wr, sr, scr⟩ := ihr r' hr
    refine ⟨?_, ?_, ?_⟩
    · simp [wfExpr, wl, wr, h, Res.isOk]
    · simp [State.symbolize, sl, sr]
    · simp [Expr.scalars, scl, scr, List.filter_append]
  | ext op b x' ih =>
    intro e' h
    unfold Expr.replaceScalar at h
    obtain ⟨y, hy, h⟩ := bind_ok_inv h
    have he := mkExt_ok h
    subst he
    obtain ⟨w, s, sc⟩ := ih y hy
    refine ⟨?_, ?_, ?_⟩
    · simp [wfExpr, w, h, Res.isOk]
    · simp [State.symbolize, s]
    · simp [Expr.scalars, sc]
  | ite cc t el ihc iht ihe =>
    intro e' h
    unfold Expr.replaceScalar at h
    obtain ⟨c', hc, h⟩ := bind_ok_inv h
    obtain ⟨t', ht, h⟩ := bind_ok_inv h
    obtain ⟨el', hel, h⟩ := bind_ok_inv h
    have he := mkIte_ok h
    subst he
    obtain ⟨wc, sc, scc⟩ := ihc c' hc
    obtain ⟨wt, st, sct⟩ := iht t' ht
    obtain ⟨we, se, sce⟩ := ihe el' hel
    refine ⟨?_, ?_, ?_⟩
    · simp [wfExpr, wc, wt, we, h, Res.isOk]
    · simp [State.symbolize, sc, st, se]
    · simp [Expr.scalars, scc, sct, sce, List.filter_append]

/-- the whole `try_fold` of `Constants::eval` -/
theorem substKnown_spec (σ : State) (vals : AState) (ss : List Scalar)
    (hσ : ∀ s ∈ ss, ∀ c, vals.get s.name = some (.const c) → σ.get s.name = some c) :
    ∀ e e', substKnown vals ss e = .ok (some e') → wfExpr e = true →
      wfExpr e' = true ∧ σ.symbolize e' = σ.symbolize e ∧
      e'.scalars = e.scalars.filter (fun s => !ss.contains s) := by
  induction ss with
  | nil =>
    intro e e' h hw
    simp only [substKnown, Res.ok.injEq, Option.some.injEq] at h
    subst h
    refine ⟨hw, rfl, ?_⟩
    symm
    apply List.filter_eq_self.mpr
    intro a _
    simp
  | cons s rest ih =>
    intro e e' h hw
    unfold substKnown at h
    split at h
    · rename_i c hc
      split at h
      · rename_i e1 h1
        have hs := hσ s List.mem_cons_self c hc
        obtain ⟨w1, s1, sc1⟩ := replace_spec σ s c hs e e1 h1
        obtain ⟨w2, s2, sc2⟩ := ih (fun s' hs' => hσ s' (List.mem_cons_of_mem _ hs')) e1 e' h w1
        refine ⟨w2, by rw [s2, s1], ?_⟩
        rw [sc2, sc1, List.filter_filter]
        apply List.filter_congr
        intro a _
        by_cases ha : a = s <;> simp [ha]
      · cases h
    · cases h

theorem symbolize_closed (σ : State) (e : Expr) (hw : wfExpr e = true) (hs : e.scalars = []) :
    σ.symbolize e = .ok e := by
  induction e with
  | scalar s => simp [Expr.scalars] at hs
  | const c => rfl
  | bin op l r ihl ihr =>
    simp only [wfExpr, Bool.and_eq_true] at hw
    simp only [Expr.scalars, List.append_eq_nil_iff] at hs
    have hk : ∃ e, Expr.mkBin op l r = .ok e := by
      cases hm : Expr.mkBin op l r with
      | ok e => exact ⟨e, rfl⟩
      | err x => simp [hm, Res.isOk] at hw
      | panic => simp [hm, Res.isOk] at hw
    obtain ⟨e, he⟩ := hk
    have := mkBin_ok he
    subst this
    simp [State.symbolize, ihl hw.1.1 hs.1, ihr hw.1.2 hs.2, he]
  | ext op b x ih =>
    simp only [wfExpr, Bool.and_eq_true] at hw
    simp only [Expr.scalars] at hs
    have hk : ∃ e, Expr.mkExt op b x = .ok e := by
      cases hm : Expr.mkExt op b x with
      | ok e => exact ⟨e, rfl⟩
      | err y => simp [hm, Res.isOk] at hw
      | panic => simp [hm, Res.isOk] at hw
    obtain ⟨e, he⟩ := hk
    have := mkExt_ok he
    subst this
    simp [State.symbolize, ih hw.1 hs, he]
  | ite c t el ihc iht ihe =>
    simp only [wfExpr, Bool.and_eq_true] at hw
    simp only [Expr.scalars, List.append_eq_nil_iff] at hs
    have hk : ∃ e, Expr.mkIte c t el = .ok e := by
      cases hm : Expr.mkIte c t el with
      | ok e => exact ⟨e, rfl⟩
      | err y => simp [hm, Res.isOk] at hw
      | panic => simp [hm, Res.isOk] at hw
    obtain ⟨e, he⟩ := hk
    have := mkIte_ok he
    subst this
    simp [State.symbolize, ihc hw.1.1.1 hs.1.1, iht hw.1.1.2 hs.1.2, ihe hw.1.2 hs.2, he]

/-- `Constants::eval` returned `v`: the executor computes `v` for the expression in every state that holds
    the constants that were substituted -/
theorem constEval_state (σ : State) (vals : AState) (e : Expr) (v : Const) (hw : wfExpr e = true)
    (hσ : ∀ s ∈ e.scalars, ∀ c, vals.get s.name = some (.const c) → σ.get s.name = some c)
    (h : constEval vals e = .ok (some v)) : σ.evalIn e = .ok v := by
  unfold constEval at h
  split at h
  · rename_i e' hsub
    obtain ⟨w', s', sc'⟩ := substKnown_spec σ vals e.scalars hσ e e' hsub hw
    have hnil : e'.scalars = [] := by
      rw [sc']
      apply List.filter_eq_nil_iff.mpr
      intro a ha
      simp [ha]
    have hev : e'.eval = .ok v := by
      split at h
      · rename_i c hc; simp only [Res.ok.injEq, Option.some.injEq] at h; subst h; exact hc
      · cases h
    simp [State.evalIn, ← s', symbolize_closed σ e' w' hnil, hev]
  · cases h
  · cases h
  · cases h

end Falcon.C13
