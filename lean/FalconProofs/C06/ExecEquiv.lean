/-
  FalconProofs.C06.ExecEquiv — execution equivalence of two graphs under a configuration map, its composition,
  and `merge` (rounds, loop) as an execution equivalence.
-/
import FalconProofs.C06.MergeExec

namespace Falcon.C06Asm
open Falcon Falcon.CfgEdit Falcon.Assemble Falcon.C15

/-- the runs of `c` from valid configurations and the runs of `c'` from their images under `μ` are the same -/
structure ExecEquiv (c c' : Cfg) (μ : Config → Config) : Prop where
  valid : ∀ a, CValid c a → CValid c' (μ a)
  state : ∀ a, (μ a).state = a.state
  fwd : ∀ a b, CValid c a → FRun (asFn c) a b → FRun (asFn c') (μ a) (μ b)
  bwd : ∀ a z, CValid c a → FRun (asFn c') (μ a) z → ∃ b, FRun (asFn c) a b ∧ μ b = z
  /-- the beginning of a block other than a merged-away one stays where it is -/
  entry : ∀ en, c.entry = some en → c'.entry = some en ∧ ∀ σ, μ ⟨en, 0, σ⟩ = ⟨en, 0, σ⟩

theorem cvalid_run {c : Cfg} (hw : WF c) {a b : Config} (hv : CValid c a) (h : FRun (asFn c) a b) : CValid c b := by
  induction h with
  | refl => exact hv
  | step _ hs ih => exact cvalid_step hw ih hs

theorem ExecEquiv.id (c : Cfg) : ExecEquiv c c (fun a => a) :=
  ⟨fun _ h => h, fun _ => rfl, fun _ _ _ h => h, fun _ z _ h => ⟨z, h, rfl⟩, fun _ h => ⟨h, fun _ => rfl⟩⟩

theorem ExecEquiv.comp {c c' c'' : Cfg} {μ ν : Config → Config} (_hw : WF c) (h1 : ExecEquiv c c' μ)
    (h2 : ExecEquiv c' c'' ν) : ExecEquiv c c'' (fun a => ν (μ a)) := by
  refine ⟨fun a hv => h2.valid _ (h1.valid a hv), fun a => by rw [h2.state, h1.state], ?_, ?_, ?_⟩
  · intro a b hv hr
    exact h2.fwd _ _ (h1.valid a hv) (h1.fwd a b hv hr)
  · intro a z hv hr
    obtain ⟨b', hr', hb'⟩ := h2.bwd (μ a) z (h1.valid a hv) hr
    obtain ⟨b, hrb, hb⟩ := h1.bwd a b' hv hr'
    exact ⟨b, hrb, by rw [hb, hb']⟩
  · intro en he
    obtain ⟨he1, hm1⟩ := h1.entry en he
    obtain ⟨he2, hm2⟩ := h2.entry en he1
    exact ⟨he2, fun σ => by rw [hm1 σ, hm2 σ]⟩

/-- one merge step of a valid pair is an execution equivalence -/
theorem mergeStep_equiv {c c' : Cfg} {m s : Nat} (hw : WF c) (hv : ValidPair c m s)
    (h : mergeStep c m s = ⟨c', .ok ()⟩) : ∃ μ, ExecEquiv c c' μ := by
  obtain ⟨mb, sb, M⟩ := mergeFacts hw hv h
  refine ⟨mu m s mb, fun a hva => mu_valid M hva, ?_, ?_, ?_, ?_⟩
  · intro a; unfold mu; split <;> rfl
  · intro a b hva hr
    induction hr with
    | refl => exact FRun.refl _
    | step _ hs ih =>
      exact FRun.trans' ih (merge_fwd M hs)
  · intro a z hva hr
    generalize hma : mu m s mb a = a0 at hr
    induction hr with
    | refl => exact ⟨a, FRun.refl _, hma⟩
    | step _ hs ih =>
      obtain ⟨b1, hrb1, hb1⟩ := ih
      have hvb1 : CValid c b1 := cvalid_run hw hva hrb1
      rw [← hb1] at hs
      obtain ⟨b2, hrb2, hb2⟩ := merge_bwd M hvb1 hs
      exact ⟨b2, FRun.trans' hrb1 hrb2, hb2⟩
  · intro en he
    refine ⟨by rw [M.view.entry]; exact he, fun σ => ?_⟩
    have : en ≠ s := fun h => hv.entry (by rw [he, h])
    simp [mu, this]

theorem applyMerges_equiv {c c' : Cfg} (ms : List (Nat × Nat)) (hw : WF c)
    (hv : ∀ p ∈ ms, ValidPair c p.1 p.2) (hd : DisjointPairs ms)
    (h : applyMerges c ms = ⟨c', .ok ()⟩) : ∃ μ, ExecEquiv c c' μ := by
  induction ms generalizing c with
  | nil =>
    simp only [applyMerges, Step.mk.injEq, and_true] at h
    subst h; exact ⟨_, ExecEquiv.id c⟩
  | cons p rest ih =>
    obtain ⟨m, s⟩ := p
    have hvp := hv (m, s) List.mem_cons_self
    unfold applyMerges at h
    split at h
    · rename_i c1 hstep
      obtain ⟨mb, sb, hV⟩ := mergeStep_view hvp.ne hstep
      have hw1 : WF c1 := by
        have := (mergeStep_wf (m := m) (s := s) hw hvp.entry hvp.ne).1
        rw [hstep] at this; exact this
      have hd' := List.pairwise_cons.mp hd
      have hv1 : ∀ q ∈ rest, ValidPair c1 q.1 q.2 := fun q hq =>
        validPair_preserved hV (hv q (List.mem_cons_of_mem _ hq)) (hd'.1 q hq)
      obtain ⟨μ1, e1⟩ := mergeStep_equiv hw hvp hstep
      obtain ⟨μ2, e2⟩ := ih hw1 hv1 hd'.2 h
      exact ⟨_, e1.comp hw e2⟩
    · rename_i hne
      exact absurd h (hne c')

theorem mergeLoop_equiv (fuel : Nat) {c c' : Cfg} (hw : WF c) (h : mergeLoop fuel c = ⟨c', .ok ()⟩) :
    ∃ μ, ExecEquiv c c' μ := by
  induction fuel generalizing c with
  | zero => simp [mergeLoop] at h
  | succ n ih =>
    unfold mergeLoop at h
    split at h
    · simp only [Step.mk.injEq, and_true] at h
      subst h; exact ⟨_, ExecEquiv.id c⟩
    · rename_i ms _ hc
      obtain ⟨hall, hdis⟩ := collect_valid _ _ _ hc
      split at h
      · rename_i c1 happ
        have hw1 : WF c1 := by
          have := applyMerges_wf ms hw (collect_spec _ _ _ hc)
          rw [happ] at this; exact this
        obtain ⟨μ1, e1⟩ := applyMerges_equiv ms hw (fun p hp => (hall p hp).1) hdis happ
        obtain ⟨μ2, e2⟩ := ih hw1 h
        exact ⟨_, e1.comp hw e2⟩
      · rename_i hne
        cases hr : applyMerges c ms with
        | mk c2 r2 =>
          rw [hr] at h
          simp only [Step.mk.injEq] at h
          obtain ⟨rfl, rfl⟩ := h
          exact absurd hr (hne c2)
    · simp at h
    · simp at h

/-- **`merge` preserves executions** -/
theorem merge_equiv {c : Cfg} (hw : WF c) : ∃ μ, ExecEquiv c (merge c).cfg μ := by
  have hm := merge_total hw
  have heq : merge c = ⟨(merge c).cfg, .ok ()⟩ := by
    cases hmm : merge c with
    | mk c' r => rw [hmm] at hm; simp only at hm; subst hm; rfl
  exact mergeLoop_equiv _ hw heq

end Falcon.C06Asm
