/-
  FalconProofs.C06.Refines — composition: the reference machine and the function returned by `assemble` have the
  same executions (IL operational semantics), under the location map Ψ = (merge's map) ∘ φ.
-/
import FalconProofs.C06.ExecEquiv

namespace Falcon.C06Asm
open Falcon Falcon.CfgEdit Falcon.Assemble Falcon.C15

theorem fstep_congr {f f' : Function} (h : f.cfg = f'.cfg) {a b : Config} (hs : FStep f a b) : FStep f' a b := by
  cases hs with
  | instr hb hi hex => exact FStep.instr (f := f') (by show f'.cfg.block _ = _; rw [← h]; exact hb) hi hex
  | edge hb hp he hgd =>
    exact FStep.edge (f := f') (by show f'.cfg.block _ = _; rw [← h]; exact hb) hp (by rw [← h]; exact he) hgd

theorem frun_congr {f f' : Function} (h : f.cfg = f'.cfg) {a b : Config} (hr : FRun f a b) : FRun f' a b := by
  induction hr with
  | refl => exact FRun.refl _
  | step _ hs ih => exact FRun.step ih (fstep_congr h hs)

section
variable {tb : List (Nat × BTR)} {manual : List ManualEdge} {st : AsmState} {ren : Nat → Nat → Nat}

theorem lvalid_run (A : Assembled tb manual st ren) {x y : RConfig} (hv : LValid tb st x) (hr : RRun tb manual x y) :
    LValid tb st y := by
  induction hr with
  | refl => exact hv
  | step _ hs ih => exact lvalid_step A ih hs

theorem core_fwd (A : Assembled tb manual st ren) {F : Function} (hFb : F.cfg.blocks = st.cfg.blocks)
    (hFe : F.cfg.edges = st.cfg.edges) {x y : RConfig} (hv : LValid tb st x) (hr : RRun tb manual x y) :
    FRun F (phi ren x) (phi ren y) := by
  induction hr with
  | refl => exact FRun.refl _
  | step hr' hs ih => exact FRun.step ih (bisim_fwd A hFb hFe (lvalid_run A hv hr') hs)

theorem core_bwd (A : Assembled tb manual st ren) {F : Function} (hFb : F.cfg.blocks = st.cfg.blocks)
    (hFe : F.cfg.edges = st.cfg.edges) {x : RConfig} {z : Config} (hv : LValid tb st x)
    (hr : FRun F (phi ren x) z) : ∃ y, RRun tb manual x y ∧ phi ren y = z := by
  generalize hx : phi ren x = x0 at hr
  induction hr with
  | refl => exact ⟨x, RRun.refl x, hx⟩
  | step _ hs ih =>
    obtain ⟨y1, hr1, hy1⟩ := ih
    rw [← hy1] at hs
    obtain ⟨y2, hs2, hy2⟩ := bisim_bwd A hFb hFe (lvalid_run A hv hr1) hs
    exact ⟨y2, RRun.step hr1 hs2, hy2⟩

theorem lvalid_cvalid (A : Assembled tb manual st ren) {c : Cfg} (hb : c.blocks = st.cfg.blocks) {x : RConfig}
    (hv : LValid tb st x) : CValid c (phi ren x) := by
  obtain ⟨p, G, b, ha, hG, hbb, hpos⟩ := hv
  have := asm_block (F := asFn c) A hb ha hG hbb
  exact ⟨copyBlock (ren x.addr) b, this, hpos⟩

end

/-- a reference configuration inside its instruction graph is at a logged address -/
theorem rvalid_lvalid {tb : List (Nat × BTR)} {manual : List ManualEdge} {st : AsmState}
    (hcore : assembleCore tb manual = .ok st) {x : RConfig} (hv : RValid tb x) : LValid tb st x := by
  obtain ⟨g, b, hG, hb, hpos⟩ := hv
  obtain ⟨_, hkeys, _⟩ := assembleCore_log hcore
  have hmem : x.addr ∈ st.instrIdx.map (·.1) := by
    rw [hkeys]
    unfold graphAt at hG
    cases hf : (allInstrs tb).find? (fun y => y.addr == x.addr) with
    | none => rw [hf] at hG; cases hG
    | some g0 =>
      have h1 : g0 ∈ allInstrs tb := List.mem_of_find?_eq_some hf
      have h2 : g0.addr = x.addr := by simpa using List.find?_some hf
      obtain ⟨p, hp, hg0⟩ := List.mem_flatMap.mp h1
      exact ⟨p, hp, g0, hg0, h2⟩
  obtain ⟨q, hq, hqa⟩ := List.mem_map.mp hmem
  obtain ⟨a, p⟩ := q
  simp only at hqa; subst hqa
  exact ⟨p, g, b, hq, hG, hb, hpos⟩

/-- **the function returned by `assemble` and the reference machine have the same executions** -/
theorem assemble_refines {tb : List (Nat × BTR)} {manual : List ManualEdge} {fnAddr : Nat} {f : Function}
    (hc : Coherent tb manual) (hg : GraphsWF tb) (h : assemble tb manual fnAddr = .ok f) :
    ∃ Ψ : RConfig → Config,
      (∀ x, (Ψ x).state = x.state) ∧
      (∀ g en σ, graphAt tb fnAddr = some g → g.entry = some en →
        ∃ fe, f.cfg.entry = some fe ∧ Ψ ⟨fnAddr, en, 0, σ⟩ = ⟨fe, 0, σ⟩) ∧
      (∀ x y, RValid tb x → RRun tb manual x y → FRun f (Ψ x) (Ψ y)) ∧
      (∀ x z, RValid tb x → FRun f (Ψ x) z → ∃ y, RRun tb manual x y ∧ Ψ y = z) := by
  obtain ⟨st, be, bx, hcore, hl, hbhas, _, rfl⟩ := assemble_ok h
  obtain ⟨ren, G, hbi, hdone⟩ := assembleCore_geo hc hg hcore
  have A : Assembled tb manual st ren := ⟨hc, G, hdone⟩
  have hwe : WF { st.cfg with entry := some be } := wf_entry_set G.wf hbhas
  obtain ⟨μ, E⟩ := merge_equiv hwe
  have hFb : (asFn { st.cfg with entry := some be }).cfg.blocks = st.cfg.blocks := rfl
  have hFe : (asFn { st.cfg with entry := some be }).cfg.edges = st.cfg.edges := rfl
  have toF : ∀ a b, FRun (asFn (merge { st.cfg with entry := some be }).cfg) a b →
      FRun { addr := fnAddr, cfg := (merge { st.cfg with entry := some be }).cfg } a b :=
    fun a b hr => @frun_congr (asFn (merge { st.cfg with entry := some be }).cfg)
      { addr := fnAddr, cfg := (merge { st.cfg with entry := some be }).cfg } rfl a b hr
  have ofF : ∀ a b, FRun { addr := fnAddr, cfg := (merge { st.cfg with entry := some be }).cfg } a b →
      FRun (asFn (merge { st.cfg with entry := some be }).cfg) a b :=
    fun a b hr => @frun_congr { addr := fnAddr, cfg := (merge { st.cfg with entry := some be }).cfg }
      (asFn (merge { st.cfg with entry := some be }).cfg) rfl a b hr
  refine ⟨fun x => μ (phi ren x), fun x => by rw [E.state]; rfl, ?_, ?_, ?_⟩
  · intro g en σ hgr hen
    -- `block_indices[fnAddr].0` is the entry logged for the instruction at `fnAddr`
    obtain ⟨R, a, b, pa, pb, h1, h2, _, h4, _, h6⟩ := hbi _ _ hl
    simp only [Prod.mk.injEq] at h6
    have hkR : (fnAddr, R) ∈ tb := by
      have := List.lookup_eq_some_iff.mp h1
      obtain ⟨l1, l2, hl12, _⟩ := this
      rw [hl12]; simp
    have hfa := hc.first (fnAddr, R) hkR
    simp only at hfa
    rw [h2] at hfa; cases hfa
    obtain ⟨G0, ge, _, hG0, _, hge, _, hpen, _⟩ := G.log fnAddr pa.1 pa.2 (lookup_some_mem h4)
    rw [hgr] at hG0; cases hG0
    rw [hen] at hge; cases hge
    obtain ⟨he, hm⟩ := E.entry be rfl
    refine ⟨be, he, ?_⟩
    show μ ⟨ren fnAddr en, 0, σ⟩ = _
    rw [← hpen, ← h6.1]; exact hm σ
  · intro x y hv hr
    have hlv := rvalid_lvalid hcore hv
    have h1 := core_fwd A hFb hFe hlv hr
    have h2 := E.fwd _ _ (lvalid_cvalid A rfl hlv) h1
    exact toF _ _ h2
  · intro x z hv hr
    have hlv := rvalid_lvalid hcore hv
    have hr' : FRun (asFn (merge { st.cfg with entry := some be }).cfg) (μ (phi ren x)) z := ofF _ _ hr
    obtain ⟨b, hrb, hb⟩ := E.bwd _ _ (lvalid_cvalid A rfl hlv) hr'
    obtain ⟨y, hry, hy⟩ := core_bwd A hFb hFe hlv hrb
    exact ⟨y, hry, by show μ (phi ren y) = z; rw [hy, hb]⟩

end Falcon.C06Asm
