/-
  FalconProofs.C06.Merged — tables in which two transfers between the same pair of instructions carry different
  guards: over states in which the guards are bits, the reference machine of such a table and the reference machine
  of a table that requests the disjunction instead (`MergedOf`) have the same runs; composed with `assemble_refines`
  for the latter.
-/
import FalconProofs.C06.Refines
import FalconProofs.C06.GuardOr

namespace Falcon.C06Asm
open Falcon Falcon.CfgEdit Falcon.Assemble Falcon.C15

theorem orEvaluable_of_bits {σ : State} {c₁ c₂ : Expr} (h₁ : GuardBit σ c₁) (h₂ : GuardBit σ c₂) :
    OrEvaluable σ c₁ c₂ := by
  obtain ⟨e₁, hs1, hb1, a, ha, hab, hav⟩ := h₁
  obtain ⟨e₂, hs2, hb2, b, hb, hbb, hbv⟩ := h₂
  exact ⟨e₁, hs1, a, ha, hav, by omega, e₂, hs2, by rw [hb1, hb2], b, hb, hbv, by rw [hab, hbb]⟩

section
variable {tb tb' : List (Nat × BTR)} {manual : List ManualEdge}

/-- the disjunction of two bits is a bit -/
theorem bit_or {σ : State} {l r : Expr} (h₁ : GuardBit σ l) (h₂ : GuardBit σ r) : GuardBit σ (.bin .or l r) := by
  obtain ⟨e₁, hs1, hb1, a, ha, hab, hav⟩ := h₁
  obtain ⟨e₂, hs2, hb2, b, hb, hbb, hbv⟩ := h₂
  have hsym : σ.symbolize (.bin .or l r) = .ok (.bin .or e₁ e₂) := by
    show (σ.symbolize l >>= fun l' => σ.symbolize r >>= fun r' => Expr.mkBin .or l' r') = _
    rw [hs1]
    show (σ.symbolize r >>= fun r' => Expr.mkBin .or e₁ r') = _
    rw [hs2]
    show Expr.mkBin .or e₁ e₂ = _
    simp [Expr.mkBin, hb1, hb2]
  refine ⟨.bin .or e₁ e₂, hsym, by simp [Expr.bits, BinOp.isCmp, hb1], Const.new (a.val ||| b.val) a.bits, ?_, hab, ?_⟩
  · show (e₁.eval >>= fun x => e₂.eval >>= fun y => BinOp.apply .or x y) = _
    rw [ha]
    show (e₂.eval >>= fun y => BinOp.apply .or a y) = _
    rw [hb]
    show Const.or a b = _
    simp [Const.or, hab, hbb]
  · show (a.val ||| b.val) % 2 ^ a.bits ≤ 1
    rw [hab]
    have := Nat.mod_lt (a.val ||| b.val) (show 0 < 2 ^ 1 by decide)
    omega

/-- a disjunction of bits is a bit, and it is enabled exactly when one of its guards is -/
theorem orTree_sem {σ : State} {R : Expr → Prop} (hR : ∀ c, R c → GuardBit σ c) {g : Expr} {ls : List Expr}
    (h : OrTree R g ls) :
    GuardBit σ g ∧ (∀ c ∈ ls, R c) ∧ (guardHolds σ (some g) ↔ ∃ c ∈ ls, guardHolds σ (some c)) := by
  induction h with
  | @leaf c hc => exact ⟨hR c hc, by simpa using hc, by simp⟩
  | @node l r ls rs _ _ ihl ihr =>
    obtain ⟨bl, rl, sl⟩ := ihl
    obtain ⟨br, rr, sr⟩ := ihr
    refine ⟨bit_or bl br, ?_, ?_⟩
    · intro c hc
      rcases List.mem_append.mp hc with h | h
      · exact rl c h
      · exact rr c h
    · rw [guardHolds_or_iff (orEvaluable_of_bits bl br), sl, sr]
      constructor
      · rintro (⟨c, hc, hg⟩ | ⟨c, hc, hg⟩)
        · exact ⟨c, List.mem_append_left _ hc, hg⟩
        · exact ⟨c, List.mem_append_right _ hc, hg⟩
      · rintro ⟨c, hc, hg⟩
        rcases List.mem_append.mp hc with h | h
        · exact Or.inl ⟨c, h, hg⟩
        · exact Or.inr ⟨c, h, hg⟩

/-- in a typed state the two tables enable the same transfers -/
theorem req_equiv (hM : MergedOf tb tb' manual) {σ : State} (hT : GuardsTyped tb manual σ) (a b : Nat) :
    (∃ c, (a, b, c) ∈ reqList tb manual ∧ guardHolds σ c) ↔ (∃ g, (a, b, g) ∈ reqList tb' manual ∧ guardHolds σ g) := by
  have hR : ∀ c, (a, b, some c) ∈ reqList tb manual → GuardBit σ c := fun c hc => hT _ hc c rfl
  constructor
  · rintro ⟨c, hc, hg⟩
    rcases hM.forth _ hc with h | ⟨c₀, g, ls, hc0, hgm, ht, hmem⟩
    · exact ⟨none, h, trivial⟩
    · simp only at hc0 hgm ht
      subst hc0
      exact ⟨some g, hgm, ((orTree_sem hR ht).2.2).mpr ⟨c₀, hmem, hg⟩⟩
  · rintro ⟨g, hgm, hg⟩
    obtain ⟨hn, hs⟩ := hM.back _ hgm
    cases g with
    | none => exact ⟨none, hn rfl, trivial⟩
    | some g =>
      obtain ⟨ls, ht⟩ := hs g rfl
      simp only at ht
      obtain ⟨_, hall, hiff⟩ := orTree_sem hR ht
      obtain ⟨c, hc, hgc⟩ := hiff.mp hg
      exact ⟨some c, hall c hc, hgc⟩

theorem rstep_transfer {tbA tbB : List (Nat × BTR)} (hG : ∀ a, graphAt tbB a = graphAt tbA a)
    (hreq : ∀ {σ : State} (a b : Nat), GuardsTyped tb manual σ →
      (∃ c, (a, b, c) ∈ reqList tbA manual ∧ guardHolds σ c) → (∃ g, (a, b, g) ∈ reqList tbB manual ∧ guardHolds σ g))
    {x y : RConfig} (hT : GuardsTyped tb manual x.state) (hs : RStep tbA manual x y) : RStep tbB manual x y := by
  cases hs with
  | instr hg hb hi hex => exact RStep.instr (by rw [hG]; exact hg) hb hi hex
  | edge hg hb hp he hgd => exact RStep.edge (by rw [hG]; exact hg) hb hp he hgd
  | @next g g' b a' en c hg hexit hb hp hr hgd hg' hen =>
    obtain ⟨c', hr', hgd'⟩ := hreq x.addr a' hT ⟨c, hr, hgd⟩
    exact RStep.next (by rw [hG]; exact hg) hexit hb hp hr' hgd' (by rw [hG]; exact hg') hen

variable (hG : ∀ a, graphAt tb' a = graphAt tb a) (hM : MergedOf tb tb' manual)
include hG hM

/-- a run of `tb` through typed states is a run of `tb'` -/
theorem rrun_forth {x y : RConfig} (hT : ∀ y', RRun tb manual x y' → GuardsTyped tb manual y'.state)
    (hr : RRun tb manual x y) : RRun tb' manual x y := by
  induction hr with
  | refl => exact RRun.refl _
  | step hr' hs ih =>
    exact RRun.step ih (rstep_transfer (tb := tb) hG (fun a b hT' h => (req_equiv hM hT' a b).mp h) (hT _ hr') hs)

/-- a run of `tb'` is a run of `tb` when the states `tb` reaches are typed -/
theorem rrun_back {x y : RConfig} (hT : ∀ y', RRun tb manual x y' → GuardsTyped tb manual y'.state)
    (hr : RRun tb' manual x y) : RRun tb manual x y := by
  induction hr with
  | refl => exact RRun.refl _
  | step _ hs ih =>
    exact RRun.step ih (rstep_transfer (tb := tb) (fun a => (hG a).symm)
      (fun a b hT' h => (req_equiv hM hT' a b).mpr h) (hT _ ih) hs)

end

/-- **`asm_refines` for a table with differently guarded duplicate transfers, through its normalised table** -/
theorem assemble_refines_merged {tb tb' : List (Nat × BTR)} {manual : List ManualEdge} {fnAddr : Nat} {f : Function}
    (hc : Coherent tb' manual) (hg : GraphsWF tb') (h' : assemble tb' manual fnAddr = .ok f)
    (hG : ∀ a, graphAt tb' a = graphAt tb a) (hM : MergedOf tb tb' manual) :
    ∃ Ψ : RConfig → Config,
      (∀ x, (Ψ x).state = x.state) ∧
      (∀ g en σ, graphAt tb fnAddr = some g → g.entry = some en →
        ∃ fe, f.cfg.entry = some fe ∧ Ψ ⟨fnAddr, en, 0, σ⟩ = ⟨fe, 0, σ⟩) ∧
      (∀ x y, RValid tb x → (∀ y', RRun tb manual x y' → GuardsTyped tb manual y'.state) →
        RRun tb manual x y → FRun f (Ψ x) (Ψ y)) ∧
      (∀ x z, RValid tb x → (∀ y', RRun tb manual x y' → GuardsTyped tb manual y'.state) →
        FRun f (Ψ x) z → ∃ y, RRun tb manual x y ∧ Ψ y = z) := by
  obtain ⟨Ψ, hst, hen, hfwd, hbwd⟩ := assemble_refines hc hg h'
  have hval : ∀ x, RValid tb x → RValid tb' x := by
    rintro x ⟨g, b, h1, h2, h3⟩
    exact ⟨g, b, by rw [hG]; exact h1, h2, h3⟩
  refine ⟨Ψ, hst, ?_, ?_, ?_⟩
  · intro g en σ hgr he
    exact hen g en σ (by rw [hG]; exact hgr) he
  · intro x y hv hT hr
    exact hfwd x y (hval x hv) (rrun_forth hG hM hT hr)
  · intro x z hv hT hr
    obtain ⟨y, hry, hy⟩ := hbwd x z (hval x hv) hr
    exact ⟨y, rrun_back hG hM hT hry, hy⟩

theorem guardBitB_iff (σ : State) (c : Expr) : guardBitB σ c = true ↔ GuardBit σ c := by
  unfold guardBitB GuardBit
  cases hs : σ.symbolize c with
  | ok e =>
    dsimp only
    cases he : e.eval with
    | ok a =>
      dsimp only
      simp only [Bool.and_eq_true, beq_iff_eq, decide_eq_true_eq]
      constructor
      · rintro ⟨h1, h2, h3⟩; exact ⟨e, rfl, h1, a, he, h2, h3⟩
      · rintro ⟨e', h0, h1, a', h2, h3, h4⟩
        cases h0; rw [he] at h2; cases h2; exact ⟨h1, h3, h4⟩
    | err x =>
      dsimp only
      simp only [Bool.and_false, Bool.false_eq_true, false_iff]
      rintro ⟨e', h0, _, a', h2, _⟩; cases h0; rw [he] at h2; cases h2
    | panic =>
      dsimp only
      simp only [Bool.and_false, Bool.false_eq_true, false_iff]
      rintro ⟨e', h0, _, a', h2, _⟩; cases h0; rw [he] at h2; cases h2
  | err x => simp only [Bool.false_eq_true, false_iff]; rintro ⟨e', h0, _⟩; cases h0
  | panic => simp only [Bool.false_eq_true, false_iff]; rintro ⟨e', h0, _⟩; cases h0

/-- tables with the same instruction lists have the same instruction graphs -/
theorem graphAt_of_instrs {tb tb' : List (Nat × BTR)} (h : tb'.map (·.2.instrs) = tb.map (·.2.instrs)) (a : Nat) :
    graphAt tb' a = graphAt tb a := by
  have : ∀ l : List (Nat × BTR), allInstrs l = (l.map (·.2.instrs)).flatten := by
    intro l; unfold allInstrs; induction l with
    | nil => rfl
    | cons p rest ih => simp only [List.flatMap_cons, List.map_cons, List.flatten_cons]; rw [ih]
  unfold graphAt; rw [this tb', this tb, h]

theorem mem_pairGuards {r : List (Nat × Nat × Option Expr)} {a b : Nat} {c : Expr} :
    c ∈ pairGuards r a b ↔ (a, b, some c) ∈ r := by
  unfold pairGuards
  simp only [List.mem_filterMap, List.mem_filter, Bool.and_eq_true, beq_iff_eq]
  constructor
  · rintro ⟨q, ⟨hq, h1, h2⟩, h3⟩
    obtain ⟨x, y, z⟩ := q
    simp only at h1 h2 h3
    subst h1; subst h2; subst h3; exact hq
  · intro h; exact ⟨(a, b, some c), ⟨h, rfl, rfl⟩, rfl⟩

theorem orLeaves_sound {R : List Expr} {g : Expr} {ls : List Expr} (h : orLeaves R g = some ls) :
    OrTree (fun c => c ∈ R) g ls := by
  induction g generalizing ls with
  | bin op l r ihl ihr =>
    unfold orLeaves at h
    split at h
    · rename_i hc
      simp only [Option.some.injEq] at h; subst h
      exact OrTree.leaf (by simpa using hc)
    · cases op <;> simp only at h <;> try (cases h)
      cases hl : orLeaves R l with
      | none => rw [hl] at h; simp at h
      | some a =>
        cases hr : orLeaves R r with
        | none => rw [hl, hr] at h; simp at h
        | some b =>
          rw [hl, hr] at h
          simp only [Option.some.injEq] at h; subst h
          exact OrTree.node (ihl hl) (ihr hr)
  | scalar x =>
    unfold orLeaves at h
    split at h
    · rename_i hc; simp only [Option.some.injEq] at h; subst h; exact OrTree.leaf (by simpa using hc)
    · cases h
  | const x =>
    unfold orLeaves at h
    split at h
    · rename_i hc; simp only [Option.some.injEq] at h; subst h; exact OrTree.leaf (by simpa using hc)
    · cases h
  | ext o n e _ =>
    unfold orLeaves at h
    split at h
    · rename_i hc; simp only [Option.some.injEq] at h; subst h; exact OrTree.leaf (by simpa using hc)
    · cases h
  | ite c t e _ _ _ =>
    unfold orLeaves at h
    split at h
    · rename_i hc; simp only [Option.some.injEq] at h; subst h; exact OrTree.leaf (by simpa using hc)
    · cases h

theorem orTree_mono {R R' : Expr → Prop} (hRR : ∀ c, R c → R' c) {g : Expr} {ls : List Expr} (h : OrTree R g ls) :
    OrTree R' g ls := by
  induction h with
  | leaf hc => exact OrTree.leaf (hRR _ hc)
  | node _ _ ihl ihr => exact OrTree.node ihl ihr

theorem mergedOfB_sound {tb tb' : List (Nat × BTR)} {manual : List ManualEdge}
    (h : mergedOfB tb tb' manual = true) : MergedOf tb tb' manual := by
  unfold mergedOfB at h
  simp only [Bool.and_eq_true, List.all_eq_true] at h
  obtain ⟨hb, hf⟩ := h
  constructor
  · intro q hq
    have := hb q hq
    constructor
    · intro hn; rw [hn] at this; simpa using this
    · intro g hg
      rw [hg] at this
      simp only at this
      cases hl : orLeaves (pairGuards (reqList tb manual) q.1 q.2.1) g with
      | none => rw [hl] at this; simp at this
      | some ls => exact ⟨ls, orTree_mono (fun c hc => mem_pairGuards.mp hc) (orLeaves_sound hl)⟩
  · intro q hq
    have := hf q hq
    simp only [Bool.or_eq_true, List.contains_iff_mem] at this
    rcases this with h1 | h1
    · exact Or.inl h1
    · right
      cases hq2 : q.2.2 with
      | none => rw [hq2] at h1; cases h1
      | some c =>
        rw [hq2] at h1
        simp only [List.any_eq_true, Bool.and_eq_true, beq_iff_eq] at h1
        obtain ⟨q', hq', ⟨h21, h22⟩, h3⟩ := h1
        cases hg : q'.2.2 with
        | none => rw [hg] at h3; cases h3
        | some g =>
          rw [hg] at h3
          simp only at h3
          cases hl : orLeaves (pairGuards (reqList tb manual) q.1 q.2.1) g with
          | none => rw [hl] at h3; cases h3
          | some ls =>
            rw [hl] at h3
            simp only [List.contains_iff_mem] at h3
            refine ⟨c, g, ls, rfl, ?_, orTree_mono (fun c hc => mem_pairGuards.mp hc) (orLeaves_sound hl), h3⟩
            have : q' = (q.1, q.2.1, some g) := by
              obtain ⟨x, y, z⟩ := q'
              simp only at h21 h22 hg
              rw [h21, h22, hg]
            rw [← this]; exact hq'

end Falcon.C06Asm
