/-
  FalconProofs.C06.Merged — tables in which two transfers between the same pair of instructions carry different
  guards: over states in which the guards are bits, the reference machine of such a table and the reference machine
  of a table that requests the disjunction instead (`MergedOf`) have the same runs; composed with `assemble_refines`
  for the latter.
-/
import FalconProofs.C06.Refines
import FalconProofs.C06.GuardOr

namespace Falcon.C06Asm
open Falcon Falcon.CfgEdit Falcon.Assemble Falcon.C15

theorem orEvaluable_of_bits {σ : State} {c₁ c₂ : Expr} (h₁ : GuardBit σ c₁) (h₂ : GuardBit σ c₂) :
    OrEvaluable σ c₁ c₂ := by
  obtain ⟨e₁, hs1, hb1, a, ha, hab, hav⟩ := h₁
  obtain ⟨e₂, hs2, hb2, b, hb, hbb, hbv⟩ := h₂
  exact ⟨e₁, hs1, a, ha, hav, by omega, e₂, hs2, by rw [hb1, hb2], b, hb, hbv, by rw [hab, hbb]⟩

section
variable {tb tb' : List (Nat × BTR)} {manual : List ManualEdge}

/-- in a typed state the two tables enable the same transfers -/
theorem req_equiv (hM : MergedOf tb tb' manual) {σ : State} (hT : GuardsTyped tb manual σ) (a b : Nat) :
    (∃ c, (a, b, c) ∈ reqList tb manual ∧ guardHolds σ c) ↔ (∃ g, (a, b, g) ∈ reqList tb' manual ∧ guardHolds σ g) := by
  constructor
  · rintro ⟨c, hc, hg⟩
    rcases hM.forth _ hc with h | h | ⟨c₁, c', hc1, hc', hor⟩
    · exact ⟨c, h, hg⟩
    · exact ⟨none, h, trivial⟩
    · simp only at hc1 hc' hor
      subst hc1
      have b1 := hT _ hc c₁ rfl
      have b2 := hT _ hc' c' rfl
      rcases hor with h | h
      · exact ⟨_, h, (guardHolds_or_iff (orEvaluable_of_bits b1 b2)).mpr (Or.inl hg)⟩
      · exact ⟨_, h, (guardHolds_or_iff (orEvaluable_of_bits b2 b1)).mpr (Or.inr hg)⟩
  · rintro ⟨g, hgm, hg⟩
    rcases hM.back _ hgm with h | ⟨c₁, c₂, hgo, h1, h2⟩
    · exact ⟨g, h, hg⟩
    · simp only at hgo h1 h2
      subst hgo
      have b1 := hT _ h1 c₁ rfl
      have b2 := hT _ h2 c₂ rfl
      rcases (guardHolds_or_iff (orEvaluable_of_bits b1 b2)).mp hg with h | h
      · exact ⟨_, h1, h⟩
      · exact ⟨_, h2, h⟩

theorem rstep_transfer {tbA tbB : List (Nat × BTR)} (hG : ∀ a, graphAt tbB a = graphAt tbA a)
    (hreq : ∀ {σ : State} (a b : Nat), GuardsTyped tb manual σ →
      (∃ c, (a, b, c) ∈ reqList tbA manual ∧ guardHolds σ c) → (∃ g, (a, b, g) ∈ reqList tbB manual ∧ guardHolds σ g))
    {x y : RConfig} (hT : GuardsTyped tb manual x.state) (hs : RStep tbA manual x y) : RStep tbB manual x y := by
  cases hs with
  | instr hg hb hi hex => exact RStep.instr (by rw [hG]; exact hg) hb hi hex
  | edge hg hb hp he hgd => exact RStep.edge (by rw [hG]; exact hg) hb hp he hgd
  | @next g g' b a' en c hg hexit hb hp hr hgd hg' hen =>
    obtain ⟨c', hr', hgd'⟩ := hreq x.addr a' hT ⟨c, hr, hgd⟩
    exact RStep.next (by rw [hG]; exact hg) hexit hb hp hr' hgd' (by rw [hG]; exact hg') hen

variable (hG : ∀ a, graphAt tb' a = graphAt tb a) (hM : MergedOf tb tb' manual)
include hG hM

/-- a run of `tb` through typed states is a run of `tb'` -/
theorem rrun_forth {x y : RConfig} (hT : ∀ y', RRun tb manual x y' → GuardsTyped tb manual y'.state)
    (hr : RRun tb manual x y) : RRun tb' manual x y := by
  induction hr with
  | refl => exact RRun.refl _
  | step hr' hs ih =>
    exact RRun.step ih (rstep_transfer (tb := tb) hG (fun a b hT' h => (req_equiv hM hT' a b).mp h) (hT _ hr') hs)

/-- a run of `tb'` is a run of `tb` when the states `tb` reaches are typed -/
theorem rrun_back {x y : RConfig} (hT : ∀ y', RRun tb manual x y' → GuardsTyped tb manual y'.state)
    (hr : RRun tb' manual x y) : RRun tb manual x y := by
  induction hr with
  | refl => exact RRun.refl _
  | step _ hs ih =>
    exact RRun.step ih (rstep_transfer (tb := tb) (fun a => (hG a).symm)
      (fun a b hT' h => (req_equiv hM hT' a b).mpr h) (hT _ ih) hs)

end

/-- **`asm_refines` for a table with differently guarded duplicate transfers, through its normalised table** -/
theorem assemble_refines_merged {tb tb' : List (Nat × BTR)} {manual : List ManualEdge} {fnAddr : Nat} {f : Function}
    (hc : Coherent tb' manual) (hg : GraphsWF tb') (h' : assemble tb' manual fnAddr = .ok f)
    (hG : ∀ a, graphAt tb' a = graphAt tb a) (hM : MergedOf tb tb' manual) :
    ∃ Ψ : RConfig → Config,
      (∀ x, (Ψ x).state = x.state) ∧
      (∀ g en σ, graphAt tb fnAddr = some g → g.entry = some en →
        ∃ fe, f.cfg.entry = some fe ∧ Ψ ⟨fnAddr, en, 0, σ⟩ = ⟨fe, 0, σ⟩) ∧
      (∀ x y, RValid tb x → (∀ y', RRun tb manual x y' → GuardsTyped tb manual y'.state) →
        RRun tb manual x y → FRun f (Ψ x) (Ψ y)) ∧
      (∀ x z, RValid tb x → (∀ y', RRun tb manual x y' → GuardsTyped tb manual y'.state) →
        FRun f (Ψ x) z → ∃ y, RRun tb manual x y ∧ Ψ y = z) := by
  obtain ⟨Ψ, hst, hen, hfwd, hbwd⟩ := assemble_refines hc hg h'
  have hval : ∀ x, RValid tb x → RValid tb' x := by
    rintro x ⟨g, b, h1, h2, h3⟩
    exact ⟨g, b, by rw [hG]; exact h1, h2, h3⟩
  refine ⟨Ψ, hst, ?_, ?_, ?_⟩
  · intro g en σ hgr he
    exact hen g en σ (by rw [hG]; exact hgr) he
  · intro x y hv hT hr
    exact hfwd x y (hval x hv) (rrun_forth hG hM hT hr)
  · intro x z hv hT hr
    obtain ⟨y, hry, hy⟩ := hbwd x z (hval x hv) hr
    exact ⟨y, rrun_back hG hM hT hry, hy⟩

/-- normalising the successors does not touch the instruction graphs -/
theorem graphAt_normalize (tb : List (Nat × BTR)) (a : Nat) : graphAt (normalize tb) a = graphAt tb a := by
  have : allInstrs (normalize tb) = allInstrs tb := by
    unfold allInstrs normalize
    induction tb with
    | nil => rfl
    | cons p rest ih => simp only [List.map_cons, List.flatMap_cons]; rw [ih]
  unfold graphAt; rw [this]

theorem guardBitB_iff (σ : State) (c : Expr) : guardBitB σ c = true ↔ GuardBit σ c := by
  unfold guardBitB GuardBit
  cases hs : σ.symbolize c with
  | ok e =>
    dsimp only
    cases he : e.eval with
    | ok a =>
      dsimp only
      simp only [Bool.and_eq_true, beq_iff_eq, decide_eq_true_eq]
      constructor
      · rintro ⟨h1, h2, h3⟩; exact ⟨e, rfl, h1, a, he, h2, h3⟩
      · rintro ⟨e', h0, h1, a', h2, h3, h4⟩
        cases h0; rw [he] at h2; cases h2; exact ⟨h1, h3, h4⟩
    | err x =>
      dsimp only
      simp only [Bool.and_false, Bool.false_eq_true, false_iff]
      rintro ⟨e', h0, _, a', h2, _⟩; cases h0; rw [he] at h2; cases h2
    | panic =>
      dsimp only
      simp only [Bool.and_false, Bool.false_eq_true, false_iff]
      rintro ⟨e', h0, _, a', h2, _⟩; cases h0; rw [he] at h2; cases h2
  | err x => simp only [Bool.false_eq_true, false_iff]; rintro ⟨e', h0, _⟩; cases h0
  | panic => simp only [Bool.false_eq_true, false_iff]; rintro ⟨e', h0, _⟩; cases h0

theorem mergedOfB_sound {tb tb' : List (Nat × BTR)} {manual : List ManualEdge}
    (h : mergedOfB tb tb' manual = true) : MergedOf tb tb' manual := by
  unfold mergedOfB at h
  simp only [Bool.and_eq_true, List.all_eq_true, Bool.or_eq_true, List.contains_iff_mem] at h
  obtain ⟨hb, hf⟩ := h
  constructor
  · intro q hq
    rcases hb q hq with h1 | h1
    · exact Or.inl h1
    · right
      cases hq2 : q.2.2 with
      | none => rw [hq2] at h1; cases h1
      | some g =>
        rw [hq2] at h1
        cases g with
        | bin op c₁ c₂ =>
          cases op <;> first
            | (simp only [Bool.and_eq_true, List.contains_iff_mem] at h1; exact ⟨c₁, c₂, rfl, h1.1, h1.2⟩)
            | (cases h1)
        | scalar _ => cases h1
        | const _ => cases h1
        | ext _ _ _ => cases h1
        | ite _ _ _ => cases h1
  · intro q hq
    rcases hf q hq with (h1 | h1) | h1
    · exact Or.inl h1
    · exact Or.inr (Or.inl h1)
    · right; right
      cases hq2 : q.2.2 with
      | none => rw [hq2] at h1; cases h1
      | some c =>
        rw [hq2] at h1
        simp only [List.any_eq_true, Bool.and_eq_true, beq_iff_eq] at h1
        obtain ⟨q₂, hq₂, ⟨h21, h22⟩, h3⟩ := h1
        cases hc' : q₂.2.2 with
        | none => rw [hc'] at h3; cases h3
        | some c' =>
          rw [hc'] at h3
          simp only [Bool.or_eq_true, List.contains_iff_mem] at h3
          refine ⟨c, c', rfl, ?_, h3⟩
          have : q₂ = (q.1, q.2.1, some c') := by
            obtain ⟨x, y, z⟩ := q₂
            simp only at h21 h22 hc'
            rw [h21, h22, hc']
          rw [← this]; exact hq₂

end Falcon.C06Asm
