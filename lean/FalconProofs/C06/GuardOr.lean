/-
  FalconProofs.C06.GuardOr — when is the guard `or c₁ c₂` of a merged edge enabled?  `evalIn` symbolizes both
  operands, checks their (syntactic) widths, evaluates both and applies `Const.or`; so the disjunction is enabled
  exactly when one operand is, PROVIDED both operands evaluate in that state, to constants 0/1 of one positive
  width.  Without that premise the equivalence fails in both directions (an operand that does not evaluate makes
  the disjunction fail; untrimmed or wide values can make `a ||| b` equal to 1 with neither operand equal to 1).
-/
import FalconModel.Exec

namespace Falcon.C06Asm
open Falcon

/-- both operands of a merged guard evaluate in `σ`, to 0/1 constants of one positive width -/
structure OrEvaluable (σ : State) (c₁ c₂ : Expr) : Prop where
  sym₁ : ∃ e₁, σ.symbolize c₁ = .ok e₁ ∧ ∃ a, e₁.eval = .ok a ∧ a.val ≤ 1 ∧ 1 ≤ a.bits ∧
    ∃ e₂, σ.symbolize c₂ = .ok e₂ ∧ e₁.bits = e₂.bits ∧ ∃ b, e₂.eval = .ok b ∧ b.val ≤ 1 ∧ a.bits = b.bits

theorem guardHolds_or_iff {σ : State} {c₁ c₂ : Expr} (h : OrEvaluable σ c₁ c₂) :
    guardHolds σ (some (.bin .or c₁ c₂)) ↔ guardHolds σ (some c₁) ∨ guardHolds σ (some c₂) := by
  obtain ⟨e₁, hs1, a, ha, hav, hab, e₂, hs2, hbits, b, hb, hbv, hbb⟩ := h.sym₁
  have ev1 : σ.evalIn c₁ = .ok a := by
    show (σ.symbolize c₁ >>= fun e' => e'.eval) = _
    rw [hs1]; exact ha
  have ev2 : σ.evalIn c₂ = .ok b := by
    show (σ.symbolize c₂ >>= fun e' => e'.eval) = _
    rw [hs2]; exact hb
  have evo : σ.evalIn (.bin .or c₁ c₂) = .ok (Const.new (a.val ||| b.val) a.bits) := by
    show (σ.symbolize (.bin .or c₁ c₂) >>= fun e' => e'.eval) = _
    have hsym : σ.symbolize (.bin .or c₁ c₂) = .ok (.bin .or e₁ e₂) := by
      show (σ.symbolize c₁ >>= fun l' => σ.symbolize c₂ >>= fun r' => Expr.mkBin .or l' r') = _
      rw [hs1]
      show (σ.symbolize c₂ >>= fun r' => Expr.mkBin .or e₁ r') = _
      rw [hs2]
      show Expr.mkBin .or e₁ e₂ = _
      simp [Expr.mkBin, hbits]
    rw [hsym]
    show (Expr.bin .or e₁ e₂).eval = _
    show (e₁.eval >>= fun x => e₂.eval >>= fun y => BinOp.apply .or x y) = _
    rw [ha]
    show (e₂.eval >>= fun y => BinOp.apply .or a y) = _
    rw [hb]
    show Const.or a b = _
    simp [Const.or, hbb]
  -- the value of the disjunction
  have hval : (Const.new (a.val ||| b.val) a.bits).val = 1 ↔ a.val = 1 ∨ b.val = 1 := by
    have h2 : 2 ≤ 2 ^ a.bits := by
      calc 2 = 2 ^ 1 := rfl
        _ ≤ 2 ^ a.bits := Nat.pow_le_pow_right (by omega) hab
    have ha01 : a.val = 0 ∨ a.val = 1 := by omega
    have hb01 : b.val = 0 ∨ b.val = 1 := by omega
    show (a.val ||| b.val) % 2 ^ a.bits = 1 ↔ _
    rcases ha01 with h0 | h0 <;> rcases hb01 with h1 | h1 <;> rw [h0, h1] <;> simp <;> omega
  constructor
  · rintro ⟨v, hv, hv1⟩
    rw [evo] at hv; cases hv
    rcases hval.mp hv1 with h1 | h1
    · exact Or.inl ⟨a, ev1, h1⟩
    · exact Or.inr ⟨b, ev2, h1⟩
  · rintro (⟨v, hv, hv1⟩ | ⟨v, hv, hv1⟩)
    · rw [ev1] at hv; cases hv
      exact ⟨_, evo, hval.mpr (Or.inl hv1)⟩
    · rw [ev2] at hv; cases hv
      exact ⟨_, evo, hval.mpr (Or.inr hv1)⟩

end Falcon.C06Asm
