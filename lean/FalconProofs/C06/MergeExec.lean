/-
  FalconProofs.C06.MergeExec — `ControlFlowGraph::merge` preserves EXECUTIONS in the IL operational semantics
  (`FStep`/`FRun` of Exec.lean), not only the language: one merge step of a valid pair (m, s) relates the
  configurations of the two graphs by μ(s, pos, σ) = (m, |m| + pos, σ), μ = id elsewhere; a step of the old graph
  is zero or one step of the new one, a step of the new graph is one or two steps of the old one.
-/
import FalconProofs.C06.Bisim
import FalconProofs.C15.MergeRound

namespace Falcon.C06Asm
open Falcon Falcon.CfgEdit Falcon.Assemble Falcon.C15

/-- a graph as a function (the semantics `FStep` only reads `cfg`) -/
def asFn (c : Cfg) : Function := { addr := 0, cfg := c }

/-- a configuration that is inside a block of the graph -/
def CValid (c : Cfg) (a : Config) : Prop := ∃ b, c.block a.block = some b ∧ a.pos ≤ b.instrs.length

theorem FRun.trans' {f : Function} {a b c : Config} (h1 : FRun f a b) (h2 : FRun f b c) : FRun f a c := by
  induction h2 with
  | refl => exact h1
  | step _ hs ih => exact FRun.step ih hs

theorem FRun.single {f : Function} {a b : Config} (h : FStep f a b) : FRun f a b := FRun.step (FRun.refl a) h

theorem cvalid_step {c : Cfg} (hw : WF c) {a b : Config} (hv : CValid c a) (hs : FStep (asFn c) a b) : CValid c b := by
  obtain ⟨b0, hb0, hpos⟩ := hv
  cases hs with
  | @instr b1 i _ σ' hb1 hi _ =>
    have hb1 : c.block a.block = some b1 := hb1
    rw [hb0] at hb1; cases hb1
    exact ⟨b0, hb0, by have := (List.getElem?_eq_some_iff.mp hi).1; show a.pos + 1 ≤ _; omega⟩
  | @edge b1 e _ _ _ he _ =>
    have he : e ∈ c.edgesOut a.block := he
    obtain ⟨bt, hbt⟩ := block_of_hasBlock (hw.edgesJoin e (List.mem_filter.mp he).1).2
    exact ⟨bt, hbt, Nat.zero_le _⟩

theorem appendInstrs_split (b : Block) (is : List Instr) :
    ∃ t, (appendInstrs b is).instrs = b.instrs ++ t ∧ t.map (·.op) = is.map (·.op) := by
  induction is generalizing b with
  | nil => exact ⟨[], by simp [appendInstrs], rfl⟩
  | cons i is ih =>
    obtain ⟨t, h1, h2⟩ := ih { b with nextInstr := b.nextInstr + 1, instrs := b.instrs ++ [{ i with index := b.nextInstr }] }
    refine ⟨{ i with index := b.nextInstr } :: t, ?_, ?_⟩
    · rw [appendInstrs, h1]; simp
    · simp [h2]

section
variable {c c' : Cfg} {m s : Nat} {mb sb : Block}

/-- the configuration map of one merge step -/
def mu (m s : Nat) (mb : Block) (a : Config) : Config :=
  if a.block = s then ⟨m, mb.instrs.length + a.pos, a.state⟩ else a

/-- facts about the two graphs of a merge step, collected once -/
structure MergeFacts (c c' : Cfg) (m s : Nat) (mb sb : Block) : Prop where
  wf : WF c
  wf' : WF c'
  vp : ValidPair c m s
  view : MergedView c c' m s mb sb
  bm : c.block m = some mb
  bs : c.block s = some sb
  bm' : c'.block m = some (blockAppend mb sb)
  other : ∀ i, i ≠ m → i ≠ s → c'.block i = c.block i

theorem mergeFacts (hw : WF c) (hv : ValidPair c m s) (h : mergeStep c m s = ⟨c', .ok ()⟩) :
    ∃ mb sb, MergeFacts c c' m s mb sb := by
  obtain ⟨mb, sb, hV⟩ := mergeStep_view hv.ne h
  have hw' : WF c' := by
    have := (mergeStep_wf (m := m) (s := s) hw hv.entry hv.ne).1
    rw [h] at this; exact this
  have hmi : (blockAppend mb sb).index = m := by
    show (appendInstrs mb sb.instrs).index = m; rw [appendInstrs_index]; exact hV.mb_idx
  refine ⟨mb, sb, hw, hw', hv, hV, ?_, ?_, ?_, ?_⟩
  · have := block_of_mem hw hV.mb_mem; rw [hV.mb_idx] at this; exact this
  · have := block_of_mem hw hV.sb_mem; rw [hV.sb_idx] at this; exact this
  · have := block_of_mem hw' ((hV.blocks _).mpr (Or.inl rfl)); rw [hmi] at this; exact this
  · intro i him his
    cases hb : c.block i with
    | some b =>
      obtain ⟨hbm, hbi⟩ := block_some hb
      have : b ∈ c'.blocks := (hV.blocks b).mpr (Or.inr ⟨hbm, by rw [hbi]; exact him, by rw [hbi]; exact his⟩)
      have := block_of_mem hw' this
      rw [hbi] at this; exact this
    | none =>
      cases hb' : c'.block i with
      | none => rfl
      | some b' =>
        obtain ⟨hbm', hbi'⟩ := block_some hb'
        rcases (hV.blocks b').mp hbm' with rfl | ⟨hbc, _, _⟩
        · exact absurd (hbi'.symm.trans hmi) him
        · have := block_of_mem hw hbc
          rw [hbi', hb] at this; cases this

variable (M : MergeFacts c c' m s mb sb)
include M
set_option linter.unusedSectionVars false

theorem merged_len : (blockAppend mb sb).instrs.length = mb.instrs.length + sb.instrs.length := by
  obtain ⟨t, h1, h2⟩ := appendInstrs_split mb sb.instrs
  show (appendInstrs mb sb.instrs).instrs.length = _
  rw [h1, List.length_append]
  have := congrArg List.length h2
  simp only [List.length_map] at this
  rw [this]

/-- instruction `p` of the merged block: the `p`-th of `mb`, or the `(p - |mb|)`-th of `sb` up to its index -/
theorem merged_get_left {p : Nat} {i : Instr} (h : mb.instrs[p]? = some i) : (blockAppend mb sb).instrs[p]? = some i := by
  obtain ⟨t, h1, _⟩ := appendInstrs_split mb sb.instrs
  show (appendInstrs mb sb.instrs).instrs[p]? = _
  rw [h1, List.getElem?_append_left (List.getElem?_eq_some_iff.mp h).1]; exact h

theorem merged_get_right {k : Nat} {i : Instr} (h : sb.instrs[k]? = some i) :
    ∃ i', (blockAppend mb sb).instrs[mb.instrs.length + k]? = some i' ∧ i'.op = i.op := by
  obtain ⟨t, h1, h2⟩ := appendInstrs_split mb sb.instrs
  have hk : (t.map (·.op))[k]? = some i.op := by rw [h2, List.getElem?_map, h]; rfl
  rw [List.getElem?_map] at hk
  cases ht : t[k]? with
  | none => rw [ht] at hk; cases hk
  | some i' =>
    rw [ht] at hk
    refine ⟨i', ?_, by simpa using hk⟩
    show (appendInstrs mb sb.instrs).instrs[mb.instrs.length + k]? = _
    rw [h1, List.getElem?_append_right (Nat.le_add_right _ _)]
    simpa using ht

/-- converse: an instruction of the merged block at or after `|mb|` is one of `sb` -/
theorem merged_get_right_inv {k : Nat} {i' : Instr} (h : (blockAppend mb sb).instrs[mb.instrs.length + k]? = some i') :
    ∃ i, sb.instrs[k]? = some i ∧ i'.op = i.op := by
  obtain ⟨t, h1, h2⟩ := appendInstrs_split mb sb.instrs
  have h' : (appendInstrs mb sb.instrs).instrs[mb.instrs.length + k]? = some i' := h
  rw [h1, List.getElem?_append_right (Nat.le_add_right _ _)] at h'
  have ht : t[k]? = some i' := by simpa using h'
  have hk : (sb.instrs.map (·.op))[k]? = some i'.op := by rw [← h2, List.getElem?_map, ht]; rfl
  rw [List.getElem?_map] at hk
  cases hs : sb.instrs[k]? with
  | none => rw [hs] at hk; cases hk
  | some i => rw [hs] at hk; exact ⟨i, rfl, by simpa using hk.symm⟩

theorem mu_valid {a : Config} (hv : CValid c a) : CValid c' (mu m s mb a) := by
  obtain ⟨b0, hb0, hpos⟩ := hv
  unfold mu
  split
  · rename_i hs
    rw [hs, M.bs] at hb0; cases hb0
    exact ⟨_, M.bm', by rw [merged_len M]; show mb.instrs.length + a.pos ≤ _; omega⟩
  · rename_i hs
    by_cases hm : a.block = m
    · rw [hm, M.bm] at hb0; cases hb0
      exact ⟨_, by rw [hm]; exact M.bm', by rw [merged_len M]; omega⟩
    · exact ⟨b0, by rw [M.other _ hm hs]; exact hb0, hpos⟩

/-- one step of the old graph is zero or one step of the new graph -/
theorem merge_fwd {a b : Config} (hs : FStep (asFn c) a b) : FRun (asFn c') (mu m s mb a) (mu m s mb b) := by
  obtain ⟨e0, he0, he0h, he0t, he0c, huniq⟩ := M.vp.out
  cases hs with
  | @instr b0 i _ σ' hb0 hi hex =>
    have hb0 : c.block a.block = some b0 := hb0
    by_cases has : a.block = s
    · rw [has, M.bs] at hb0; cases hb0
      obtain ⟨i', hi', hop⟩ := merged_get_right M hi
      have : mu m s mb ⟨a.block, a.pos + 1, σ'⟩ = ⟨m, mb.instrs.length + a.pos + 1, σ'⟩ := by
        simp [mu, has, Nat.add_assoc]
      rw [this]
      have hmu : mu m s mb a = ⟨m, mb.instrs.length + a.pos, a.state⟩ := by simp [mu, has]
      rw [hmu]
      exact FRun.single (FStep.instr (c := ⟨m, mb.instrs.length + a.pos, a.state⟩) M.bm' hi' (by rw [hop]; exact hex))
    · have hmu : mu m s mb a = a := by simp [mu, has]
      have hmub : mu m s mb ⟨a.block, a.pos + 1, σ'⟩ = ⟨a.block, a.pos + 1, σ'⟩ := by simp [mu, has]
      rw [hmu, hmub]
      by_cases ham : a.block = m
      · rw [ham, M.bm] at hb0; cases hb0
        exact FRun.single (FStep.instr (f := asFn c') (by rw [ham]; exact M.bm') (merged_get_left M hi) hex)
      · exact FRun.single (FStep.instr (f := asFn c') (by show c'.block a.block = _; rw [M.other _ ham has]; exact hb0) hi hex)
  | @edge b0 e _ hb0 hp he hgd =>
    have hb0 : c.block a.block = some b0 := hb0
    have he : e ∈ c.edgesOut a.block := he
    obtain ⟨hec, heh⟩ := List.mem_filter.mp he
    have heh : e.head = a.block := by simpa using heh
    by_cases ham : a.block = m
    · -- the edge is the unconditional edge m → s: a stutter
      have : e = e0 := huniq e hec (heh.trans ham)
      subst this
      rw [ham, M.bm] at hb0; cases hb0
      have h1 : mu m s mb a = ⟨m, mb.instrs.length, a.state⟩ := by
        have hne : a.block ≠ s := by rw [ham]; exact M.vp.ne
        obtain ⟨ab, ap, ast⟩ := a
        simp only at ham hp hne
        subst ham; subst hp
        simp [mu, hne]
      have h2 : mu m s mb ⟨e.tail, 0, a.state⟩ = ⟨m, mb.instrs.length, a.state⟩ := by simp [mu, he0t]
      rw [h1, h2]; exact FRun.refl _
    · have hets : e.tail ≠ s := fun h => ham (heh.symm.trans (M.vp.soleIn e hec h))
      have hmub : mu m s mb ⟨e.tail, 0, a.state⟩ = ⟨e.tail, 0, a.state⟩ := by simp [mu, hets]
      rw [hmub]
      by_cases has : a.block = s
      · rw [has, M.bs] at hb0; cases hb0
        have hmu : mu m s mb a = ⟨m, mb.instrs.length + a.pos, a.state⟩ := by simp [mu, has]
        rw [hmu]
        have hre : rehead m e ∈ c'.edgesOut m := by
          simp only [Cfg.edgesOut, List.mem_filter, beq_iff_eq]
          exact ⟨(M.view.edges _).mpr ⟨Or.inr ⟨e, hec, heh.trans has, rfl⟩, M.vp.ne, hets⟩, rfl⟩
        exact FRun.single (FStep.edge (f := asFn c') (c := ⟨m, mb.instrs.length + a.pos, a.state⟩) (e := rehead m e)
          M.bm' (by rw [merged_len M]; show mb.instrs.length + a.pos = _; omega) hre hgd)
      · have hmu : mu m s mb a = a := by simp [mu, has]
        rw [hmu]
        have hec' : e ∈ c'.edgesOut a.block := by
          simp only [Cfg.edgesOut, List.mem_filter, beq_iff_eq]
          exact ⟨(M.view.edges _).mpr ⟨Or.inl hec, by rw [heh]; exact has, hets⟩, heh⟩
        exact FRun.single (FStep.edge (f := asFn c') (by show c'.block a.block = _; rw [M.other _ ham has]; exact hb0) hp hec' hgd)

/-- the out-edges of the merged block are the re-headed out-edges of `s` -/
theorem merged_out {e : Edge} (he : e ∈ c'.edgesOut m) : ∃ e1 ∈ c.edgesOut s, e = rehead m e1 ∧ e1.tail ≠ s := by
  obtain ⟨e0, he0, he0h, he0t, he0c, huniq⟩ := M.vp.out
  obtain ⟨hec, heh⟩ := List.mem_filter.mp he
  have heh : e.head = m := by simpa using heh
  obtain ⟨hsrc, _, hets⟩ := (M.view.edges e).mp hec
  rcases hsrc with hce | ⟨e1, he1, he1h, rfl⟩
  · have := huniq e hce heh
    exact absurd (by rw [this]; exact he0t) hets
  · exact ⟨e1, List.mem_filter.mpr ⟨he1, by simpa using he1h⟩, rfl, hets⟩

/-- one step of the new graph is one or two steps of the old graph -/
theorem merge_bwd {a : Config} {z : Config} (hv : CValid c a) (hs : FStep (asFn c') (mu m s mb a) z) :
    ∃ b, FRun (asFn c) a b ∧ mu m s mb b = z := by
  obtain ⟨e0, he0, he0h, he0t, he0c, huniq⟩ := M.vp.out
  have he0out : e0 ∈ c.edgesOut m := List.mem_filter.mpr ⟨he0, by simpa using he0h⟩
  obtain ⟨b0, hb0, hpos⟩ := hv
  by_cases has : a.block = s
  · -- inside `s`: the same step, shifted
    rw [has, M.bs] at hb0; cases hb0
    have hmu : mu m s mb a = ⟨m, mb.instrs.length + a.pos, a.state⟩ := by simp [mu, has]
    rw [hmu] at hs
    generalize hc0 : (⟨m, mb.instrs.length + a.pos, a.state⟩ : Config) = c0 at hs
    cases hs with
    | @instr b1 i' c1 σ' hb1 hi' hex =>
      subst hc0
      have hb1 : c'.block m = some b1 := hb1
      rw [M.bm'] at hb1; cases hb1
      obtain ⟨i, hi, hop⟩ := merged_get_right_inv M hi'
      refine ⟨⟨s, a.pos + 1, σ'⟩, FRun.single ?_, by simp [mu, Nat.add_assoc]⟩
      have := FStep.instr (f := asFn c) (c := a) (by show c.block a.block = _; rw [has]; exact M.bs) hi (by rw [← hop]; exact hex)
      rw [has] at this; exact this
    | @edge b1 e c1 hb1 hp he hgd =>
      subst hc0
      have hb1 : c'.block m = some b1 := hb1
      rw [M.bm'] at hb1; cases hb1
      have hp : mb.instrs.length + a.pos = (blockAppend mb sb).instrs.length := hp
      rw [merged_len M] at hp
      obtain ⟨e1, he1, rfl, hets⟩ := merged_out M he
      refine ⟨⟨e1.tail, 0, a.state⟩, FRun.single ?_, by simp [mu, hets, rehead]⟩
      exact FStep.edge (f := asFn c) (c := a) (e := e1) (by show c.block a.block = _; rw [has]; exact M.bs)
        (by omega) (by rw [has]; exact he1) hgd
  · have hmu : mu m s mb a = a := by simp [mu, has]
    rw [hmu] at hs
    by_cases ham : a.block = m
    · rw [ham, M.bm] at hb0; cases hb0
      generalize hc0 : a = c0 at hs
      cases hs with
      | @instr b1 i' c1 σ' hb1 hi' hex =>
        subst hc0
        have hb1 : c'.block a.block = some b1 := hb1
        rw [ham, M.bm'] at hb1; cases hb1
        by_cases hlt : a.pos < mb.instrs.length
        · -- an instruction of `mb`
          obtain ⟨i, hi⟩ : ∃ i, mb.instrs[a.pos]? = some i := ⟨_, List.getElem?_eq_getElem hlt⟩
          have := merged_get_left M (sb := sb) hi
          rw [this] at hi'; cases hi'
          refine ⟨⟨a.block, a.pos + 1, σ'⟩, FRun.single ?_, by simp [mu, has]⟩
          exact FStep.instr (f := asFn c) (by show c.block a.block = _; rw [ham]; exact M.bm) hi hex
        · -- at the end of `mb`: take the edge to `s`, then the first instruction of `sb`
          have hpe : a.pos = mb.instrs.length := by omega
          have hi'' : (blockAppend mb sb).instrs[mb.instrs.length + 0]? = some i' := by rw [Nat.add_zero, ← hpe]; exact hi'
          obtain ⟨i, hi, hop⟩ := merged_get_right_inv M hi''
          have s1 : FStep (asFn c) a ⟨e0.tail, 0, a.state⟩ :=
            FStep.edge (f := asFn c) (by show c.block a.block = _; rw [ham]; exact M.bm) hpe (by rw [ham]; exact he0out)
              (by rw [he0c]; trivial)
          have s2 : FStep (asFn c) ⟨e0.tail, 0, a.state⟩ ⟨e0.tail, 0 + 1, σ'⟩ :=
            FStep.instr (f := asFn c) (c := ⟨e0.tail, 0, a.state⟩) (by show c.block e0.tail = _; rw [he0t]; exact M.bs) hi
              (by rw [← hop]; exact hex)
          refine ⟨⟨e0.tail, 0 + 1, σ'⟩, FRun.step (FRun.single s1) s2, ?_⟩
          simp [mu, he0t, ham, hpe]
      | @edge b1 e c1 hb1 hp he hgd =>
        subst hc0
        have hb1 : c'.block a.block = some b1 := hb1
        rw [ham, M.bm'] at hb1; cases hb1
        have hp : a.pos = (blockAppend mb sb).instrs.length := hp
        rw [merged_len M] at hp
        have hsb0 : sb.instrs.length = 0 := by omega
        have hpe : a.pos = mb.instrs.length := by omega
        have he : e ∈ c'.edgesOut m := by rw [← ham]; exact he
        obtain ⟨e1, he1, rfl, hets⟩ := merged_out M he
        have s1 : FStep (asFn c) a ⟨e0.tail, 0, a.state⟩ :=
          FStep.edge (f := asFn c) (by show c.block a.block = _; rw [ham]; exact M.bm) hpe (by rw [ham]; exact he0out)
            (by rw [he0c]; trivial)
        have s2 : FStep (asFn c) ⟨e0.tail, 0, a.state⟩ ⟨e1.tail, 0, a.state⟩ :=
          FStep.edge (f := asFn c) (c := ⟨e0.tail, 0, a.state⟩) (e := e1) (by show c.block e0.tail = _; rw [he0t]; exact M.bs)
            (by show 0 = _; omega) (by show e1 ∈ c.edgesOut e0.tail; rw [he0t]; exact he1) hgd
        exact ⟨⟨e1.tail, 0, a.state⟩, FRun.step (FRun.single s1) s2, by simp [mu, hets, rehead]⟩
    · -- a block that is not touched
      have hb0' : c'.block a.block = some b0 := by rw [M.other _ ham has]; exact hb0
      generalize hc0 : a = c0 at hs
      cases hs with
      | @instr b1 i c1 σ' hb1 hi hex =>
        subst hc0
        have hb1 : c'.block a.block = some b1 := hb1
        rw [hb0'] at hb1; cases hb1
        exact ⟨⟨a.block, a.pos + 1, σ'⟩, FRun.single (FStep.instr (f := asFn c) hb0 hi hex), by simp [mu, has]⟩
      | @edge b1 e c1 hb1 hp he hgd =>
        subst hc0
        have hb1 : c'.block a.block = some b1 := hb1
        rw [hb0'] at hb1; cases hb1
        have he : e ∈ c'.edgesOut a.block := he
        obtain ⟨hec, heh⟩ := List.mem_filter.mp he
        have heh : e.head = a.block := by simpa using heh
        obtain ⟨hsrc, _, hets⟩ := (M.view.edges e).mp hec
        rcases hsrc with hce | ⟨e1, _, _, rfl⟩
        · refine ⟨⟨e.tail, 0, a.state⟩, FRun.single ?_, by simp [mu, hets]⟩
          exact FStep.edge (f := asFn c) hb0 hp (List.mem_filter.mpr ⟨hce, by simpa using heh⟩) hgd
        · exact absurd heh.symm ham

end

end Falcon.C06Asm
