/-
  FalconProofs.C06.Bisim — the assembled graph (before merge) and the reference machine are bisimilar, step by
  step, under the location map φ(a, block, pos, σ) = (ren a block, pos, σ).
-/
import FalconProofs.C06.GeoLoops

namespace Falcon.C06Asm
open Falcon Falcon.CfgEdit Falcon.Assemble Falcon.C15

theorem block_of_mem {c : Cfg} (hw : WF c) {x : Block} (hx : x ∈ c.blocks) : c.block x.index = some x := by
  unfold Cfg.block
  cases hf : c.blocks.find? (fun b => b.index == x.index) with
  | none =>
    have := List.find?_eq_none.mp hf x hx
    simp at this
  | some y =>
    have h1 : y ∈ c.blocks := List.mem_of_find?_eq_some hf
    have h2 : y.index = x.index := by simpa using List.find?_some hf
    rw [block_unique hw h1 hx h2]

/-- everything the bisimulation needs about the assembled graph -/
structure Assembled (tb : List (Nat × BTR)) (manual : List ManualEdge) (st : AsmState) (ren : Nat → Nat → Nat) : Prop where
  coh : Coherent tb manual
  geo : Geo tb manual st ren
  done : ∀ q ∈ reqList tb manual, Done st q

/-- the location of a reference configuration in the assembled graph -/
def phi (ren : Nat → Nat → Nat) (x : RConfig) : Config := ⟨ren x.addr x.block, x.pos, x.state⟩

/-- a reference configuration whose address is logged and which is inside its instruction graph -/
def LValid (tb : List (Nat × BTR)) (st : AsmState) (x : RConfig) : Prop :=
  ∃ p G b, (x.addr, p) ∈ st.instrIdx ∧ graphAt tb x.addr = some G ∧ G.block x.block = some b ∧ x.pos ≤ b.instrs.length

section
variable {tb : List (Nat × BTR)} {manual : List ManualEdge} {st : AsmState} {ren : Nat → Nat → Nat}
variable {F : Function}

theorem asm_block (A : Assembled tb manual st ren) (hFb : F.cfg.blocks = st.cfg.blocks)
    {a : Nat} {p : Nat × Nat} {G : Cfg} {bi : Nat} {b : Block}
    (ha : (a, p) ∈ st.instrIdx) (hG : graphAt tb a = some G) (hb : G.block bi = some b) :
    F.block (ren a bi) = some (copyBlock (ren a) b) := by
  obtain ⟨hbm, hbi⟩ := block_some hb
  have hx : copyBlock (ren a) b ∈ st.cfg.blocks := (A.geo.blocks _).mpr ⟨a, p, G, b, ha, hG, hbm, rfl⟩
  have := block_of_mem A.geo.wf hx
  show F.cfg.block (ren a bi) = _
  unfold Cfg.block at this ⊢
  rw [hFb, ← hbi]; exact this

/-- block index `i` of a well-formed graph that is the end of an edge or entry/exit is a block -/
theorem wf_block_exists {G : Cfg} (_hw : WF G) {i : Nat} (h : G.hasBlock i = true) : ∃ b ∈ G.blocks, b.index = i :=
  (hasBlock_iff G i).mp h

/-- the out-edges of the copy of block `bi` of the instruction graph at `a` -/
theorem asm_edgesOut (A : Assembled tb manual st ren) (hFe : F.cfg.edges = st.cfg.edges)
    {a : Nat} {p : Nat × Nat} {G : Cfg} {bi : Nat} {b : Block}
    (ha : (a, p) ∈ st.instrIdx) (hG : graphAt tb a = some G) (hb : G.block bi = some b) (e : Edge) :
    e ∈ F.cfg.edgesOut (ren a bi) ↔
      (∃ e0 ∈ G.edgesOut bi, e = copyEdge (ren a) e0) ∨
      (G.exit = some bi ∧ ∃ b' c pb', (a, b', c) ∈ reqList tb manual ∧ (b', pb') ∈ st.instrIdx ∧
        e = ⟨ren a bi, pb'.1, c⟩) := by
  obtain ⟨hbm, hbi⟩ := block_some hb
  obtain ⟨Ga, gea, gxa, hGa, hwG, hena, hexa, hpen, hpex⟩ := A.geo.log a p.1 p.2 ha
  rw [hG] at hGa; cases hGa
  -- which edges of the assembled graph start at `ren a bi`
  have classify : ∀ e', e' ∈ st.cfg.edges → e'.head = ren a bi →
      (∃ e0 ∈ G.edgesOut bi, e' = copyEdge (ren a) e0) ∨
      (G.exit = some bi ∧ ∃ b' c pb', (a, b', c) ∈ reqList tb manual ∧ (b', pb') ∈ st.instrIdx ∧
        e' = ⟨ren a bi, pb'.1, c⟩) := by
    intro e' he' hhead
    rcases A.geo.edges e' he' with ⟨a', p', G', e0, ha', hG', he0, rfl⟩ | ⟨a2, b2, c, pa2, pb2, hr, ha2, hb2, rfl⟩
    · obtain ⟨G'', _, _, hG'', hwG', _⟩ := A.geo.log a' p'.1 p'.2 ha'
      rw [hG'] at hG''; cases hG''
      obtain ⟨b0, hb0, hb0i⟩ := wf_block_exists hwG' (hwG'.edgesJoin e0 he0).1
      have := A.geo.inj a' p' G' b0 a p G b ha' hG' hb0 ha hG hbm (by rw [hb0i, hbi]; exact hhead)
      obtain ⟨rfl, hidx⟩ := this
      rw [hG] at hG'; cases hG'
      refine Or.inl ⟨e0, ?_, rfl⟩
      simp only [Cfg.edgesOut, List.mem_filter, beq_iff_eq]
      exact ⟨he0, by rw [← hb0i, hidx, hbi]⟩
    · obtain ⟨G2, ge2, gx2, hG2, hwG2, _, hex2, _, hpex2⟩ := A.geo.log a2 pa2.1 pa2.2 ha2
      obtain ⟨bx2, hbx2, hbx2i⟩ := wf_block_exists hwG2 (hwG2.exitOk gx2 hex2)
      have := A.geo.inj a2 pa2 G2 bx2 a p G b ha2 hG2 hbx2 ha hG hbm
        (by rw [hbx2i, hbi, ← hpex2]; exact hhead)
      obtain ⟨rfl, hidx⟩ := this
      rw [hG] at hG2; cases hG2
      refine Or.inr ⟨by rw [hex2, ← hbx2i, hidx, hbi], b2, c, pb2, hr, hb2, ?_⟩
      show (⟨pa2.2, pb2.1, c⟩ : Edge) = _
      have : pa2.2 = ren a2 bi := hhead
      rw [this]
  constructor
  · intro he
    simp only [Cfg.edgesOut, List.mem_filter, beq_iff_eq] at he
    rw [hFe] at he
    exact classify e he.1 he.2
  · rintro (⟨e0, he0, rfl⟩ | ⟨hexit, b', c, pb', hr, hb', rfl⟩)
    · simp only [Cfg.edgesOut, List.mem_filter, beq_iff_eq] at he0 ⊢
      rw [hFe]
      exact ⟨A.geo.internal a p G e0 ha hG he0.1, by show ren a e0.head = _; rw [he0.2]⟩
    · rw [Cfg.edgesOut, List.mem_filter, hFe]
      refine ⟨?_, by simp⟩
      -- the requested transfer has an edge; it carries the requested guard
      obtain ⟨pa, pb, c', hla, hlb, hedge⟩ := A.done _ hr
      have hpa : pa = p := by
        have := mem_lookup_of_nodup A.geo.nodup ha
        rw [this] at hla; exact (Option.some.inj hla).symm
      have hpb : pb = pb' := by
        have := mem_lookup_of_nodup A.geo.nodup hb'
        rw [this] at hlb; exact (Option.some.inj hlb).symm
      subst hpa; subst hpb
      have hexi : gxa = bi := by rw [hexa] at hexit; exact Option.some.inj hexit
      have hhead : (⟨pa.2, pb.1, c'⟩ : Edge).head = ren a bi := by show pa.2 = _; rw [hpex, hexi]
      rcases classify _ hedge hhead with ⟨e0, he0, _⟩ | ⟨_, b2, c2, pb2, hr2, hb2, heq⟩
      · -- an internal edge out of the exit block: excluded by coherence
        obtain ⟨g, hg, hga⟩ : ∃ g ∈ allInstrs tb, g.addr = a ∧ True := by
          unfold graphAt at hG
          cases hf : (allInstrs tb).find? (fun x => x.addr == a) with
          | none => rw [hf] at hG; cases hG
          | some g => exact ⟨g, List.mem_of_find?_eq_some hf, by simpa using List.find?_some hf, trivial⟩
        have hgG : g.cfg = G := by
          have := graphAt_of_mem A.coh hg
          rw [hga.1, hG] at this; exact (Option.some.inj this).symm
        have := A.coh.exitOut g hg bi (by rw [hgG]; exact hexit)
        rw [hgG] at this
        rw [this] at he0; cases he0
      · simp only [Edge.mk.injEq] at heq
        obtain ⟨_, h2, rfl⟩ := heq
        -- the two targets are the same address
        obtain ⟨Gb, geb, _, hGb, hwGb, henb, _, hpenb, _⟩ := A.geo.log b' pb.1 pb.2 hb'
        obtain ⟨Gb2, geb2, _, hGb2, hwGb2, henb2, _, hpenb2, _⟩ := A.geo.log b2 pb2.1 pb2.2 hb2
        obtain ⟨be1, hbe1, hbe1i⟩ := wf_block_exists hwGb (hwGb.entryOk geb henb)
        obtain ⟨be2, hbe2, hbe2i⟩ := wf_block_exists hwGb2 (hwGb2.entryOk geb2 henb2)
        have := A.geo.inj b' pb Gb be1 b2 pb2 Gb2 be2 hb' hGb hbe1 hb2 hGb2 hbe2
          (by rw [hbe1i, hbe2i, ← hpenb, ← hpenb2]; exact h2)
        obtain ⟨rfl, _⟩ := this
        have hcc := A.coh.reqFun _ hr _ hr2 rfl rfl
        simp only at hcc
        rw [hcc]
        have : pa.2 = ren a bi := by rw [hpex, hexi]
        rw [← this]; exact hedge

theorem lvalid_step (A : Assembled tb manual st ren) {x y : RConfig} (hv : LValid tb st x) (hs : RStep tb manual x y) :
    LValid tb st y := by
  obtain ⟨p, G, b, ha, hG, hb, hpos⟩ := hv
  cases hs with
  | @instr g b' i σ' hg hb' hi _ =>
    rw [hG] at hg; cases hg
    rw [hb] at hb'; cases hb'
    refine ⟨p, G, b, ha, hG, hb, ?_⟩
    show x.pos + 1 ≤ b.instrs.length
    have := (List.getElem?_eq_some_iff.mp hi).1
    omega
  | @edge g b' e hg hb' _ he _ =>
    rw [hG] at hg; cases hg
    obtain ⟨G', _, _, hG', hwG, _⟩ := A.geo.log x.addr p.1 p.2 ha
    rw [hG] at hG'; cases hG'
    have hem : e ∈ G.edges := (List.mem_filter.mp he).1
    obtain ⟨bt, hbt⟩ := block_of_hasBlock (hwG.edgesJoin e hem).2
    exact ⟨p, G, bt, ha, hG, hbt, Nat.zero_le _⟩
  | @next g g' b' a' en c hg _ _ _ hr _ hg' hen =>
    -- the target address is logged: its requested transfer is done
    obtain ⟨pa, pb, c', _, hlb, _⟩ := A.done _ hr
    have hb'm := lookup_some_mem hlb
    obtain ⟨G', ge', _, hG', hwG', hen', _⟩ := A.geo.log a' pb.1 pb.2 hb'm
    have hG'' : graphAt tb a' = some G' := hG'
    rw [hg'] at hG''; cases hG''
    obtain ⟨be, hbe⟩ := block_of_hasBlock (hwG'.entryOk en hen)
    exact ⟨pb, g', be, hb'm, hg', hbe, Nat.zero_le _⟩

/-- reference step ⟹ step of the assembled graph -/
theorem bisim_fwd (A : Assembled tb manual st ren) (hFb : F.cfg.blocks = st.cfg.blocks) (hFe : F.cfg.edges = st.cfg.edges)
    {x y : RConfig} (hv : LValid tb st x) (hs : RStep tb manual x y) : FStep F (phi ren x) (phi ren y) := by
  obtain ⟨p, G, b, ha, hG, hb, hpos⟩ := hv
  have hblk := asm_block (F := F) A hFb ha hG hb
  cases hs with
  | @instr g b' i σ' hg hb' hi hex =>
    rw [hG] at hg; cases hg
    rw [hb] at hb'; cases hb'
    exact FStep.instr (c := phi ren x) hblk (by show b.instrs[x.pos]? = some i; exact hi) hex
  | @edge g b' e hg hb' hp he hgd =>
    rw [hG] at hg; cases hg
    rw [hb] at hb'; cases hb'
    have : copyEdge (ren x.addr) e ∈ F.cfg.edgesOut (ren x.addr x.block) :=
      (asm_edgesOut A hFe ha hG hb _).mpr (Or.inl ⟨e, he, rfl⟩)
    exact FStep.edge (c := phi ren x) (e := copyEdge (ren x.addr) e) hblk (by show x.pos = b.instrs.length; exact hp) this hgd
  | @next g g' b' a' en c hg hexit hb' hp hr hgd hg' hen =>
    rw [hG] at hg; cases hg
    rw [hb] at hb'; cases hb'
    obtain ⟨pa, pb, c', _, hlb, _⟩ := A.done _ hr
    have hb'm := lookup_some_mem hlb
    obtain ⟨G', ge', _, hG', _, hen', _, hpen', _⟩ := A.geo.log a' pb.1 pb.2 hb'm
    rw [hg'] at hG'; cases hG'
    rw [hen] at hen'; cases hen'
    have : (⟨ren x.addr x.block, pb.1, c⟩ : Edge) ∈ F.cfg.edgesOut (ren x.addr x.block) :=
      (asm_edgesOut A hFe ha hG hb _).mpr (Or.inr ⟨hexit, a', c, pb, hr, hb'm, rfl⟩)
    have hs := FStep.edge (c := phi ren x) (e := ⟨ren x.addr x.block, pb.1, c⟩) hblk
      (by show x.pos = b.instrs.length; exact hp) this hgd
    have heq : phi ren ⟨a', en, 0, x.state⟩ = ⟨pb.1, 0, x.state⟩ := by
      show (⟨ren a' en, 0, x.state⟩ : Config) = _
      rw [hpen']
    rw [heq]; exact hs

/-- step of the assembled graph ⟹ reference step -/
theorem bisim_bwd (A : Assembled tb manual st ren) (hFb : F.cfg.blocks = st.cfg.blocks) (hFe : F.cfg.edges = st.cfg.edges)
    {x : RConfig} {z : Config} (hv : LValid tb st x) (hs : FStep F (phi ren x) z) :
    ∃ y, RStep tb manual x y ∧ phi ren y = z := by
  obtain ⟨p, G, b, ha, hG, hb, hpos⟩ := hv
  have hblk := asm_block (F := F) A hFb ha hG hb
  generalize hc : phi ren x = c0 at hs
  cases hs with
  | @instr b' i c σ' hb' hi hex =>
    subst hc
    have hb' : F.block (ren x.addr x.block) = some b' := hb'
    rw [hblk] at hb'; cases hb'
    exact ⟨⟨x.addr, x.block, x.pos + 1, σ'⟩, RStep.instr hG hb (by exact hi) hex, rfl⟩
  | @edge b' e c hb' hp he hgd =>
    subst hc
    have hb' : F.block (ren x.addr x.block) = some b' := hb'
    rw [hblk] at hb'; cases hb'
    have he : e ∈ F.cfg.edgesOut (ren x.addr x.block) := he
    rcases (asm_edgesOut A hFe ha hG hb e).mp he with ⟨e0, he0, rfl⟩ | ⟨hexit, b2, c, pb2, hr, hb2, rfl⟩
    · exact ⟨⟨x.addr, e0.tail, 0, x.state⟩, RStep.edge hG hb (by exact hp) he0 hgd, rfl⟩
    · obtain ⟨G', ge', _, hG', _, hen', _, hpen', _⟩ := A.geo.log b2 pb2.1 pb2.2 hb2
      refine ⟨⟨b2, ge', 0, x.state⟩, RStep.next hG hexit hb (by exact hp) hr hgd hG' hen', ?_⟩
      show (⟨ren b2 ge', 0, x.state⟩ : Config) = _
      rw [← hpen']; rfl

end

end Falcon.C06Asm
