/-
  FalconProofs.C06.Geo — what the assembled graph consists of, as an invariant of the assembly loops: its blocks
  are the renamed copies of the logged instruction graphs (one copy per address, pairwise disjoint), its edges are
  the copies of their internal edges plus boundary edges exit(a) → entry(b) for requested transfers (a, b, guard).
-/
import FalconProofs.C06.AsmEntry
import FalconProofs.C15.AppendLang
import FalconProofs.C15.CopyView

namespace Falcon.C06Asm
open Falcon Falcon.CfgEdit Falcon.Assemble Falcon.C15

theorem mem_lookup_of_nodup {m : IdxMap} (hn : (m.map (·.1)).Nodup) {a : Nat} {v : Nat × Nat} (h : (a, v) ∈ m) :
    m.lookup a = some v := by
  induction m with
  | nil => cases h
  | cons p rest ih =>
    obtain ⟨k, w⟩ := p
    rw [List.map_cons, List.nodup_cons] at hn
    rw [List.lookup_cons]
    rcases List.mem_cons.mp h with heq | h
    · simp only [Prod.mk.injEq] at heq
      obtain ⟨rfl, rfl⟩ := heq
      simp
    · have hne : a ≠ k := fun he => hn.1 (he ▸ List.mem_map.mpr ⟨(a, v), h, rfl⟩)
      have : (a == k) = false := by simpa using hne
      simp only [this]
      exact ih hn.2 h

theorem graphAt_of_mem {tb : List (Nat × BTR)} {manual : List ManualEdge} (hc : Coherent tb manual) {g : Function}
    (hg : g ∈ allInstrs tb) : graphAt tb g.addr = some g.cfg := by
  unfold graphAt
  cases hf : (allInstrs tb).find? (fun x => x.addr == g.addr) with
  | none =>
    have := List.find?_eq_none.mp hf g hg
    simp at this
  | some g' =>
    have h1 : g' ∈ allInstrs tb := List.mem_of_find?_eq_some hf
    have h2 : g'.addr = g.addr := by simpa using List.find?_some hf
    simp only [Option.map_some, Option.some.injEq]
    exact hc.same g' h1 g hg h2

/-- what `linkIfAbsent` does to the edge set -/
theorem linkIfAbsent_edges {c c' : Cfg} {h t : Nat} {cond : Option Expr} (hl : linkIfAbsent c h t cond = .ok c') :
    (∀ e, e ∈ c'.edges ↔ e ∈ c.edges ∨ (hasEdge c h t = false ∧ e = ⟨h, t, cond⟩)) ∧
    (∃ cond', (⟨h, t, cond'⟩ : Edge) ∈ c'.edges) := by
  unfold linkIfAbsent at hl
  split at hl
  · rename_i hhas
    simp only [Res.ok.injEq] at hl; subst hl
    refine ⟨fun e => ⟨fun h => Or.inl h, ?_⟩, ?_⟩
    · rintro (h | ⟨hf, _⟩)
      · exact h
      · rw [hhas] at hf; cases hf
    · obtain ⟨y, hy, hk⟩ := List.mem_map.mp ((hasEdge_iff c h t).mp hhas)
      simp only [edgeKey, Prod.mk.injEq] at hk
      exact ⟨y.cond, by obtain ⟨yh, yt, yc⟩ := y; simp only at hk; obtain ⟨rfl, rfl⟩ := hk; exact hy⟩
  · rename_i hhas
    have hhas : hasEdge c h t = false := by simpa using hhas
    split at hl
    · rename_i c1 u hs
      simp only [Res.ok.injEq] at hl; subst hl
      obtain ⟨hc, hr⟩ := stepRes_ok hs
      have key : ∀ e0 : Edge, e0.head = h → e0.tail = t → (Step.ofRes c (insertEdge c e0) ()).res = .ok () →
          ∀ e, e ∈ (Step.ofRes c (insertEdge c e0) ()).cfg.edges ↔ e ∈ c.edges ∨ e = e0 := by
        intro e0 _ _ hres e
        cases hie : insertEdge c e0 with
        | ok c2 =>
          obtain ⟨_, _, _, hc2⟩ := insertEdge_ok hie
          simp only [Step.ofRes, hc2]
          show e ∈ insertEdgeSorted e0 c.edges ↔ _
          rw [mem_insertEdgeSorted]; exact Or.comm
        | err x => rw [hie] at hres; simp [Step.ofRes] at hres
        | panic => rw [hie] at hres; simp [Step.ofRes] at hres
      cases cond with
      | some g =>
        have k := key { head := h, tail := t, cond := some g } rfl rfl hr
        rw [hc]
        refine ⟨fun e => ?_, ⟨some g, (k _).mpr (Or.inr rfl)⟩⟩
        show e ∈ (Step.ofRes c (insertEdge c { head := h, tail := t, cond := some g }) ()).cfg.edges ↔ _
        rw [k e]; simp [hhas]
      | none =>
        have k := key { head := h, tail := t, cond := none } rfl rfl hr
        rw [hc]
        refine ⟨fun e => ?_, ⟨none, (k _).mpr (Or.inr rfl)⟩⟩
        show e ∈ (Step.ofRes c (insertEdge c { head := h, tail := t, cond := none }) ()).cfg.edges ↔ _
        rw [k e]; simp [hhas]
    · cases hl
    · cases hl

/-- what a successful `insert` does (the statement of `C15.insert_disjoint`, proved here from `copy_view` because
    lemma files do not import `Props`) -/
theorem insert_view {c d c' : Cfg} {en ex : Nat} (hd : WF d) (h : CfgEdit.insert c d = ⟨c', .ok (en, ex)⟩) :
    ∃ f : Nat → Nat,
      (∀ x, x ∈ c'.blocks ↔ x ∈ c.blocks ∨ ∃ b ∈ d.blocks, x = copyBlock f b) ∧
      (∀ e, e ∈ c'.edges ↔ e ∈ c.edges ∨ ∃ e0 ∈ d.edges, e = copyEdge f e0) ∧
      (∀ b ∈ d.blocks, c.nextIndex ≤ f b.index) ∧
      (∀ b1 ∈ d.blocks, ∀ b2 ∈ d.blocks, f b1.index = f b2.index → b1.index = b2.index) ∧
      d.entry.map f = some en ∧ d.exit.map f = some ex := by
  unfold CfgEdit.insert at h
  split at h
  · rename_i dEntry dExit hden hdex
    dsimp only at h
    split at h
    · rename_i c1 m hcb
      split at h
      · rename_i c2 hce
        obtain ⟨V, _, _, hlook⟩ := copy_view hd hcb hce
        obtain ⟨be, hbe, hbei⟩ := (hasBlock_iff d _).mp (hd.entryOk dEntry hden)
        obtain ⟨bx, hbx, hbxi⟩ := (hasBlock_iff d _).mp (hd.exitOk dExit hdex)
        have hlen : m.lookup dEntry = some (renameOf m dEntry) := by rw [← hbei]; exact hlook be hbe
        have hlex : m.lookup dExit = some (renameOf m dExit) := by rw [← hbxi]; exact hlook bx hbx
        rw [hlen, hlex] at h
        simp only [Step.mk.injEq, Res.ok.injEq, Prod.mk.injEq] at h
        obtain ⟨rfl, rfl, rfl⟩ := h
        exact ⟨renameOf m, V.blocks, V.edges, V.fresh, V.inj, by rw [hden]; rfl, by rw [hdex]; rfl⟩
      · simp at h
      · simp at h
    · simp at h
    · simp at h
  · simp at h

/-- the geometry of the graph under construction -/
structure Geo (tb : List (Nat × BTR)) (manual : List ManualEdge) (st : AsmState) (ren : Nat → Nat → Nat) : Prop where
  wf : WF st.cfg
  nodup : (st.instrIdx.map (·.1)).Nodup
  log : ∀ a en ex, (a, (en, ex)) ∈ st.instrIdx →
    ∃ G ge gx, graphAt tb a = some G ∧ WF G ∧ G.entry = some ge ∧ G.exit = some gx ∧ en = ren a ge ∧ ex = ren a gx
  blocks : ∀ x, x ∈ st.cfg.blocks ↔
    ∃ a p G b, (a, p) ∈ st.instrIdx ∧ graphAt tb a = some G ∧ b ∈ G.blocks ∧ x = copyBlock (ren a) b
  inj : ∀ a₁ p₁ G₁ b₁ a₂ p₂ G₂ b₂, (a₁, p₁) ∈ st.instrIdx → graphAt tb a₁ = some G₁ → b₁ ∈ G₁.blocks →
    (a₂, p₂) ∈ st.instrIdx → graphAt tb a₂ = some G₂ → b₂ ∈ G₂.blocks →
    ren a₁ b₁.index = ren a₂ b₂.index → a₁ = a₂ ∧ b₁.index = b₂.index
  edges : ∀ e, e ∈ st.cfg.edges →
    (∃ a p G e0, (a, p) ∈ st.instrIdx ∧ graphAt tb a = some G ∧ e0 ∈ G.edges ∧ e = copyEdge (ren a) e0) ∨
    (∃ a b c pa pb, (a, b, c) ∈ reqList tb manual ∧ (a, pa) ∈ st.instrIdx ∧ (b, pb) ∈ st.instrIdx ∧
      e = ⟨pa.2, pb.1, c⟩)
  internal : ∀ a p G e0, (a, p) ∈ st.instrIdx → graphAt tb a = some G → e0 ∈ G.edges →
    copyEdge (ren a) e0 ∈ st.cfg.edges

theorem geo_empty (tb : List (Nat × BTR)) (manual : List ManualEdge) (ren : Nat → Nat → Nat) :
    Geo tb manual {} ren :=
  ⟨wf_new, List.Pairwise.nil, (fun _ _ _ h => by cases h), (fun x => by
      constructor
      · intro h; cases h
      · rintro ⟨_, _, _, _, h, _⟩; cases h),
    (fun _ _ _ _ _ _ _ _ h => by cases h), (fun e h => by cases h), (fun _ _ _ _ h => by cases h)⟩

/-- adding a requested boundary edge keeps the geometry -/
theorem geo_link {tb : List (Nat × BTR)} {manual : List ManualEdge} {st : AsmState} {ren : Nat → Nat → Nat}
    (G : Geo tb manual st ren) {c' : Cfg} {h t : Nat} {cond : Option Expr}
    (hl : linkIfAbsent st.cfg h t cond = .ok c')
    (hreq : ∃ a b pa pb, (a, b, cond) ∈ reqList tb manual ∧ (a, pa) ∈ st.instrIdx ∧ (b, pb) ∈ st.instrIdx ∧
      h = pa.2 ∧ t = pb.1) :
    Geo tb manual { st with cfg := c' } ren := by
  obtain ⟨hwf, hblocks, _, _⟩ := linkIfAbsent_spec hl
  obtain ⟨hed, _⟩ := linkIfAbsent_edges hl
  refine ⟨hwf G.wf, G.nodup, G.log, ?_, G.inj, ?_, ?_⟩
  · intro x; show x ∈ c'.blocks ↔ _; rw [hblocks]; exact G.blocks x
  · intro e he
    rcases (hed e).mp he with he | ⟨_, rfl⟩
    · exact G.edges e he
    · obtain ⟨a, b, pa, pb, hr, ha, hb, rfl, rfl⟩ := hreq
      exact Or.inr ⟨a, b, cond, pa, pb, hr, ha, hb, rfl⟩
  · intro a p G0 e0 ha hg he
    exact (hed _).mpr (Or.inl (G.internal a p G0 e0 ha hg he))

/-- inserting the instruction graph of a new address (or reusing the logged one) keeps the geometry -/
theorem geo_place {tb : List (Nat × BTR)} {manual : List ManualEdge} {st st1 : AsmState} {ren : Nat → Nat → Nat}
    (hc : Coherent tb manual) (G : Geo tb manual st ren) {g : Function} {en ex : Nat}
    (hp : placeInstr st g = .ok (st1, en, ex)) (hg : g ∈ allInstrs tb) (hgw : WF g.cfg) :
    ∃ ren1, Geo tb manual st1 ren1 := by
  obtain ⟨_, _, hcase⟩ := placeInstr_spec hp
  rcases hcase with ⟨_, rfl⟩ | ⟨hnone, hnew, hins⟩
  · exact ⟨ren, G⟩
  · obtain ⟨f, fblocks, fedges, ffresh, finj, fentry, fexit⟩ := insert_view hgw hins
    have hga : graphAt tb g.addr = some g.cfg := graphAt_of_mem hc hg
    have hne : ∀ a' p', (a', p') ∈ st.instrIdx → a' ≠ g.addr := by
      intro a' p' hm heq
      exact lookup_none_not_mem hnone (heq ▸ List.mem_map.mpr ⟨(a', p'), hm, rfl⟩)
    have hw1 : WF st1.cfg := by
      have := wf_insert G.wf hgw; rw [hins] at this; exact this
    -- an old copy lies below the old `next_index`
    have hold_lt : ∀ a p G0 b, (a, p) ∈ st.instrIdx → graphAt tb a = some G0 → b ∈ G0.blocks →
        ren a b.index < st.cfg.nextIndex := by
      intro a p G0 b ha hG hb
      have : copyBlock (ren a) b ∈ st.cfg.blocks := (G.blocks _).mpr ⟨a, p, G0, b, ha, hG, hb, rfl⟩
      exact G.wf.indexLt _ this
    obtain ⟨ren1, r_new, r_old⟩ : ∃ ren1 : Nat → Nat → Nat, ren1 g.addr = f ∧
        ∀ a' p', (a', p') ∈ st.instrIdx → ren1 a' = ren a' :=
      ⟨fun a' => if a' = g.addr then f else ren a', by simp, fun a' p' hm => by simp [hne a' p' hm]⟩
    refine ⟨ren1, ?_⟩
    have mem_new : ∀ a p, (a, p) ∈ st1.instrIdx ↔ (a = g.addr ∧ p = (en, ex)) ∨ (a, p) ∈ st.instrIdx := by
      intro a p; rw [hnew]; simp
    refine ⟨hw1, ?_, ?_, ?_, ?_, ?_, ?_⟩
    · rw [hnew, List.map_cons, List.nodup_cons]
      exact ⟨lookup_none_not_mem hnone, G.nodup⟩
    · intro a en' ex' hm
      rcases (mem_new a (en', ex')).mp hm with ⟨rfl, hp'⟩ | hm
      · simp only [Prod.mk.injEq] at hp'
        obtain ⟨rfl, rfl⟩ := hp'
        cases hge : g.cfg.entry with
        | none => rw [hge] at fentry; simp at fentry
        | some ge =>
          cases hgx : g.cfg.exit with
          | none => rw [hgx] at fexit; simp at fexit
          | some gx =>
            rw [hge] at fentry; rw [hgx] at fexit
            simp only [Option.map_some, Option.some.injEq] at fentry fexit
            exact ⟨g.cfg, ge, gx, hga, hgw, hge, hgx, by rw [r_new]; exact fentry.symm, by rw [r_new]; exact fexit.symm⟩
      · obtain ⟨G0, ge, gx, h1, h2, h3, h4, h5, h6⟩ := G.log a en' ex' hm
        exact ⟨G0, ge, gx, h1, h2, h3, h4, by rw [r_old a _ hm]; exact h5, by rw [r_old a _ hm]; exact h6⟩
    · intro x
      rw [fblocks x, G.blocks x]
      constructor
      · rintro (⟨a, p, G0, b, ha, hG, hb, rfl⟩ | ⟨b, hb, rfl⟩)
        · exact ⟨a, p, G0, b, (mem_new a p).mpr (Or.inr ha), hG, hb, by rw [r_old a p ha]⟩
        · exact ⟨g.addr, (en, ex), g.cfg, b, (mem_new _ _).mpr (Or.inl ⟨rfl, rfl⟩), hga, hb, by rw [r_new]⟩
      · rintro ⟨a, p, G0, b, ha, hG, hb, rfl⟩
        rcases (mem_new a p).mp ha with ⟨rfl, _⟩ | ha
        · rw [hga] at hG; cases hG
          exact Or.inr ⟨b, hb, by rw [r_new]⟩
        · exact Or.inl ⟨a, p, G0, b, ha, hG, hb, by rw [r_old a p ha]⟩
    · intro a₁ p₁ G₁ b₁ a₂ p₂ G₂ b₂ h1 hG1 hb1 h2 hG2 hb2 heq
      rcases (mem_new a₁ p₁).mp h1 with ⟨rfl, _⟩ | h1 <;> rcases (mem_new a₂ p₂).mp h2 with ⟨rfl, _⟩ | h2
      · rw [hga] at hG1 hG2; cases hG1; cases hG2
        rw [r_new] at heq
        exact ⟨rfl, finj b₁ hb1 b₂ hb2 heq⟩
      · rw [hga] at hG1; cases hG1
        rw [r_new, r_old a₂ p₂ h2] at heq
        have := ffresh b₁ hb1
        have := hold_lt a₂ p₂ G₂ b₂ h2 hG2 hb2
        omega
      · rw [hga] at hG2; cases hG2
        rw [r_new, r_old a₁ p₁ h1] at heq
        have := ffresh b₂ hb2
        have := hold_lt a₁ p₁ G₁ b₁ h1 hG1 hb1
        omega
      · rw [r_old a₁ p₁ h1, r_old a₂ p₂ h2] at heq
        exact G.inj a₁ p₁ G₁ b₁ a₂ p₂ G₂ b₂ h1 hG1 hb1 h2 hG2 hb2 heq
    · intro e he
      rcases (fedges e).mp he with he | ⟨e0, he0, rfl⟩
      · rcases G.edges e he with ⟨a, p, G0, e0, ha, hG, he0, rfl⟩ | ⟨a, b, c, pa, pb, hr, ha, hb, rfl⟩
        · exact Or.inl ⟨a, p, G0, e0, (mem_new a p).mpr (Or.inr ha), hG, he0, by rw [r_old a p ha]⟩
        · exact Or.inr ⟨a, b, c, pa, pb, hr, (mem_new _ _).mpr (Or.inr ha), (mem_new _ _).mpr (Or.inr hb), rfl⟩
      · exact Or.inl ⟨g.addr, (en, ex), g.cfg, e0, (mem_new _ _).mpr (Or.inl ⟨rfl, rfl⟩), hga, he0, by rw [r_new]⟩
    · intro a p G0 e0 ha hG he0
      rcases (mem_new a p).mp ha with ⟨rfl, _⟩ | ha
      · rw [hga] at hG; cases hG
        rw [r_new]; exact (fedges _).mpr (Or.inr ⟨e0, he0, rfl⟩)
      · rw [r_old a p ha]; exact (fedges _).mpr (Or.inl (G.internal a p G0 e0 ha hG he0))

/-- under coherence, an edge of the graph under construction that joins the exit logged for `a` to the entry logged
    for `b` carries the guard of every transfer requested between `a` and `b` -/
theorem geo_boundary_cond {tb : List (Nat × BTR)} {manual : List ManualEdge} {st : AsmState} {ren : Nat → Nat → Nat}
    (hc : Coherent tb manual) (G : Geo tb manual st ren) {a b : Nat} {pa pb : Nat × Nat} {c : Option Expr}
    (ha : (a, pa) ∈ st.instrIdx) (hb : (b, pb) ∈ st.instrIdx) (hq : (a, b, c) ∈ reqList tb manual)
    {e : Edge} (he : e ∈ st.cfg.edges) (hh : e.head = pa.2) (ht : e.tail = pb.1) : e.cond = c := by
  obtain ⟨Ga, gea, gxa, hGa, hwGa, _, hexa, _, hpexa⟩ := G.log a pa.1 pa.2 ha
  obtain ⟨Gb, geb, gxb, hGb, hwGb, henb, _, hpenb, _⟩ := G.log b pb.1 pb.2 hb
  obtain ⟨bxa, hbxa, hbxai⟩ := (hasBlock_iff Ga gxa).mp (hwGa.exitOk gxa hexa)
  obtain ⟨beb, hbeb, hbebi⟩ := (hasBlock_iff Gb geb).mp (hwGb.entryOk geb henb)
  rcases G.edges e he with ⟨a', p', G', e0, ha', hG', he0, rfl⟩ | ⟨a2, b2, c2, pa2, pb2, hr2, ha2, hb2, rfl⟩
  · -- a copy of an internal edge that leaves an exit block: excluded by coherence
    obtain ⟨G'', _, _, hG'', hwG', _⟩ := G.log a' p'.1 p'.2 ha'
    rw [hG'] at hG''; cases hG''
    obtain ⟨b0, hb0, hb0i⟩ := (hasBlock_iff G' _).mp (hwG'.edgesJoin e0 he0).1
    have hhead : ren a' e0.head = ren a gxa := by rw [← hpexa]; exact hh
    obtain ⟨rfl, hidx⟩ := G.inj a' p' G' b0 a pa Ga bxa ha' hG' hb0 ha hGa hbxa (by rw [hb0i, hbxai]; exact hhead)
    rw [hGa] at hG'; cases hG'
    have hout : e0 ∈ Ga.edgesOut gxa := by
      simp only [Cfg.edgesOut, List.mem_filter, beq_iff_eq]
      exact ⟨he0, by rw [← hb0i, hidx, hbxai]⟩
    obtain ⟨g, hg, hga⟩ : ∃ g ∈ allInstrs tb, g.addr = a' := by
      unfold graphAt at hGa
      cases hf : (allInstrs tb).find? (fun x => x.addr == a') with
      | none => rw [hf] at hGa; cases hGa
      | some g => exact ⟨g, List.mem_of_find?_eq_some hf, by simpa using List.find?_some hf⟩
    have hgG : g.cfg = Ga := by
      have := graphAt_of_mem hc hg
      rw [hga, hGa] at this; exact (Option.some.inj this).symm
    have := hc.exitOut g hg gxa (by rw [hgG]; exact hexa)
    rw [hgG] at this
    rw [this] at hout; cases hout
  · -- a boundary edge requested for the same two instructions
    obtain ⟨G2, _, gx2, hG2, hwG2, _, hex2, _, hpex2⟩ := G.log a2 pa2.1 pa2.2 ha2
    obtain ⟨G3, ge3, _, hG3, hwG3, hen3, _, hpen3, _⟩ := G.log b2 pb2.1 pb2.2 hb2
    obtain ⟨bx2, hbx2, hbx2i⟩ := (hasBlock_iff G2 gx2).mp (hwG2.exitOk gx2 hex2)
    obtain ⟨be3, hbe3, hbe3i⟩ := (hasBlock_iff G3 ge3).mp (hwG3.entryOk ge3 hen3)
    have h1 : pa2.2 = pa.2 := hh
    have h2 : pb2.1 = pb.1 := ht
    obtain ⟨rfl, _⟩ := G.inj a2 pa2 G2 bx2 a pa Ga bxa ha2 hG2 hbx2 ha hGa hbxa
      (by rw [hbx2i, hbxai, ← hpex2, ← hpexa]; exact h1)
    obtain ⟨rfl, _⟩ := G.inj b2 pb2 G3 be3 b pb Gb beb hb2 hG3 hbe3 hb hGb hbeb
      (by rw [hbe3i, hbebi, ← hpen3, ← hpenb]; exact h2)
    exact hc.reqFun _ hr2 _ hq rfl rfl

/-- when every edge between the two blocks already carries the requested guard, the repaired successor loop does
    what `linkIfAbsent` does -/
theorem linkOrMerge_as_linkIfAbsent {c c' : Cfg} {h t : Nat} {cond : Option Expr}
    (hsame : ∀ e ∈ c.edges, e.head = h → e.tail = t → e.cond = cond)
    (hl : linkOrMerge c h t cond = .ok c') : linkIfAbsent c h t cond = .ok c' := by
  unfold linkOrMerge at hl
  split at hl
  · rename_i e hfind
    have hem : e ∈ c.edges := List.mem_of_find?_eq_some hfind
    have hkey : e.head = h ∧ e.tail = t := by simpa using List.find?_some hfind
    have hcond := hsame e hem hkey.1 hkey.2
    have hhas : hasEdge c h t = true := by
      simp only [hasEdge, List.any_eq_true]
      exact ⟨e, hem, by simp [hkey.1, hkey.2]⟩
    have hres : c' = c := by
      cases hec : e.cond with
      | none =>
        rw [hec] at hl
        simp only [Res.ok.injEq] at hl; exact hl.symm
      | some ex =>
        rw [hec] at hl hcond
        cases cond with
        | none => cases hcond
        | some g =>
          have : ex = g := Option.some.inj hcond
          subst this
          simp only [ne_eq, not_true_eq_false, if_false, Res.ok.injEq] at hl
          exact hl.symm
    subst hres
    unfold linkIfAbsent
    simp [hhas]
  · exact hl

end Falcon.C06Asm
