/-
  FalconProofs.C06.Asm — the assembly algorithm of `translate_function_extended` (FalconModel/Assemble.lean):
  every phase preserves the C15 well-formedness invariant; `instruction_indices` is a duplicate-free log of the
  `insert` calls that covers exactly the instruction addresses of the translation results.
-/
import FalconModel.Assemble
import FalconProofs.C15.Copy
import FalconProofs.C15.MergeTotal

namespace Falcon.C06Asm
open Falcon Falcon.CfgEdit Falcon.Assemble Falcon.C15

theorem stepRes_ok {α : Type} {s : Step α} {c : Cfg} {a : α} (h : stepRes s = .ok (c, a)) :
    c = s.cfg ∧ s.res = .ok a := by
  unfold stepRes at h
  split at h
  · rename_i x hx
    simp only [Res.ok.injEq, Prod.mk.injEq] at h
    exact ⟨h.1.symm, by rw [hx, h.2]⟩
  · cases h
  · cases h

/-- every instruction graph of every translation result is well formed (they are built by the translators
    through the `ControlFlowGraph` API, so this is `C15.ops_wf`; the driver checks it on the dumped results) -/
def GraphsWF (tb : List (Nat × BTR)) : Prop := ∀ p ∈ tb, ∀ g ∈ p.2.instrs, WF g.cfg

-- ------------------------------------------------------------------------------------------------
-- what the two primitive steps do

theorem linkIfAbsent_spec {c c' : Cfg} {h t : Nat} {cond : Option Expr} (hl : linkIfAbsent c h t cond = .ok c') :
    (WF c → WF c') ∧ c'.blocks = c.blocks ∧ c'.entry = c.entry ∧ c'.nextIndex = c.nextIndex := by
  unfold linkIfAbsent at hl
  split at hl
  · simp only [Res.ok.injEq] at hl; subst hl; exact ⟨id, rfl, rfl, rfl⟩
  · split at hl
    · rename_i c1 u hs
      simp only [Res.ok.injEq] at hl; subst hl
      obtain ⟨hc, hr⟩ := stepRes_ok hs
      -- both edge constructors are `Step.ofRes c (insertEdge c e) ()`
      have key : ∀ e : Edge, (Step.ofRes c (insertEdge c e) ()).res = .ok () →
          (WF c → WF (Step.ofRes c (insertEdge c e) ()).cfg) ∧
          SameFrame c (Step.ofRes c (insertEdge c e) ()).cfg := by
        intro e hres
        cases hie : insertEdge c e with
        | ok c2 => exact ⟨fun hw => by simpa [Step.ofRes] using wf_insertEdge hw hie, by simpa [Step.ofRes] using insertEdge_frame hie⟩
        | err x => rw [hie] at hres; simp [Step.ofRes] at hres
        | panic => rw [hie] at hres; simp [Step.ofRes] at hres
      cases cond with
      | some g =>
        obtain ⟨k1, k2⟩ := key { head := h, tail := t, cond := some g } hr
        rw [hc]; exact ⟨k1, k2.blocks, k2.entry, k2.nextIndex⟩
      | none =>
        obtain ⟨k1, k2⟩ := key { head := h, tail := t, cond := none } hr
        rw [hc]; exact ⟨k1, k2.blocks, k2.entry, k2.nextIndex⟩
    · cases hl
    · cases hl

theorem wf_setEdgeCond {c : Cfg} (hw : WF c) (h t : Nat) (cond : Option Expr) : WF (setEdgeCond c h t cond) := by
  have hkeys : (setEdgeCond c h t cond).edges.map edgeKey = c.edges.map edgeKey := by
    simp only [setEdgeCond, List.map_map]
    apply List.map_congr_left
    intro e _
    simp only [Function.comp]
    split <;> rfl
  refine ⟨hw.blocksNodup, by rw [hkeys]; exact hw.edgesNodup, ?_, hw.indexLt, hw.blocksWF, hw.entryOk, hw.exitOk⟩
  intro e he
  simp only [setEdgeCond, List.mem_map] at he
  obtain ⟨e0, he0, rfl⟩ := he
  have := hw.edgesJoin e0 he0
  split <;> exact this

theorem linkOrMerge_spec {c c' : Cfg} {h t : Nat} {cond : Option Expr} (hl : linkOrMerge c h t cond = .ok c') :
    (WF c → WF c') ∧ c'.blocks = c.blocks ∧ c'.entry = c.entry ∧ c'.nextIndex = c.nextIndex := by
  unfold linkOrMerge at hl
  split at hl
  · split at hl
    · split at hl
      · split at hl
        · simp only [Res.ok.injEq] at hl; subst hl
          exact ⟨fun hw => wf_setEdgeCond hw _ _ _, rfl, rfl, rfl⟩
        · cases hl
        · cases hl
      · simp only [Res.ok.injEq] at hl; subst hl; exact ⟨id, rfl, rfl, rfl⟩
    · simp only [Res.ok.injEq] at hl; subst hl
      exact ⟨fun hw => wf_setEdgeCond hw _ _ _, rfl, rfl, rfl⟩
    · simp only [Res.ok.injEq] at hl; subst hl; exact ⟨id, rfl, rfl, rfl⟩
  · exact linkIfAbsent_spec hl

theorem placeInstr_spec {st st1 : AsmState} {g : Function} {en ex : Nat} (h : placeInstr st g = .ok (st1, en, ex)) :
    st1.blockIdx = st.blockIdx ∧ st1.instrIdx.lookup g.addr = some (en, ex) ∧
    ((st.instrIdx.lookup g.addr = some (en, ex) ∧ st1 = st) ∨
     (st.instrIdx.lookup g.addr = none ∧ st1.instrIdx = (g.addr, (en, ex)) :: st.instrIdx ∧
        CfgEdit.insert st.cfg g.cfg = ⟨st1.cfg, .ok (en, ex)⟩)) := by
  unfold placeInstr at h
  split at h
  · rename_i en' ex' hl
    simp only [Res.ok.injEq, Prod.mk.injEq] at h
    obtain ⟨rfl, rfl, rfl⟩ := h
    exact ⟨rfl, hl, Or.inl ⟨hl, rfl⟩⟩
  · rename_i hl
    split at h
    · rename_i c en' ex' hs
      simp only [Res.ok.injEq, Prod.mk.injEq] at h
      obtain ⟨rfl, rfl, rfl⟩ := h
      obtain ⟨hc, hr⟩ := stepRes_ok hs
      refine ⟨rfl, by simp, Or.inr ⟨hl, rfl, ?_⟩⟩
      rw [hc, ← hr]
    · cases h
    · cases h

theorem placeInstr_wf {st st1 : AsmState} {g : Function} {en ex : Nat} (h : placeInstr st g = .ok (st1, en, ex))
    (hw : WF st.cfg) (hg : WF g.cfg) : WF st1.cfg := by
  obtain ⟨_, _, hcase⟩ := placeInstr_spec h
  rcases hcase with ⟨_, rfl⟩ | ⟨_, _, hins⟩
  · exact hw
  · have := wf_insert hw hg
    rw [hins] at this; exact this

-- ------------------------------------------------------------------------------------------------
-- WF through the loops

theorem blockLoop_wf {st st1 : AsmState} {be bx be1 bx1 : Nat} {prev : Option Nat} (gs : List Function)
    (h : blockLoop st be bx prev gs = .ok (st1, be1, bx1)) (hw : WF st.cfg) (hg : ∀ g ∈ gs, WF g.cfg) :
    WF st1.cfg := by
  induction gs generalizing st be bx prev with
  | nil =>
    simp only [blockLoop, Res.ok.injEq, Prod.mk.injEq] at h
    rw [← h.1]; exact hw
  | cons g gs ih =>
    unfold blockLoop at h
    split at h
    · rename_i st2 en ex hp
      have hw2 := placeInstr_wf hp hw (hg g List.mem_cons_self)
      have hg' : ∀ x ∈ gs, WF x.cfg := fun x hx => hg x (List.mem_cons_of_mem _ hx)
      split at h
      · split at h
        · rename_i c hl
          exact ih h ((linkIfAbsent_spec hl).1 hw2) hg'
        · cases h
        · cases h
      · exact ih h hw2 hg'
    · cases h
    · cases h

theorem resultsLoop_wf {st st1 : AsmState} (tb : List (Nat × BTR)) (h : resultsLoop st tb = .ok st1)
    (hw : WF st.cfg) (hg : GraphsWF tb) : WF st1.cfg := by
  induction tb generalizing st with
  | nil => simp only [resultsLoop, Res.ok.injEq] at h; rw [← h]; exact hw
  | cons p rest ih =>
    obtain ⟨a, r⟩ := p
    unfold resultsLoop at h
    split at h
    · rename_i st2 be bx hb
      have hw2 := blockLoop_wf r.instrs hb hw (hg (a, r) List.mem_cons_self)
      exact ih h hw2 (fun q hq => hg q (List.mem_cons_of_mem _ hq))
    · cases h
    · cases h

theorem manualLoop_wf {st st1 : AsmState} (ms : List ManualEdge) (h : manualLoop st ms = .ok st1) (hw : WF st.cfg) :
    WF st1.cfg ∧ st1.instrIdx = st.instrIdx ∧ st1.blockIdx = st.blockIdx := by
  induction ms generalizing st with
  | nil => simp only [manualLoop, Res.ok.injEq] at h; rw [← h]; exact ⟨hw, rfl, rfl⟩
  | cons m ms ih =>
    unfold manualLoop at h
    split at h
    · split at h
      · rename_i c hl
        exact ih (st := { st with cfg := c }) h ((linkIfAbsent_spec hl).1 hw)
      · cases h
      · cases h
    · cases h

theorem succLoop_wf {st st1 : AsmState} {bx : Nat} (ss : List (Nat × Option Expr)) (h : succLoop bx st ss = .ok st1)
    (hw : WF st.cfg) : WF st1.cfg ∧ st1.instrIdx = st.instrIdx ∧ st1.blockIdx = st.blockIdx := by
  induction ss generalizing st with
  | nil => simp only [succLoop, Res.ok.injEq] at h; rw [← h]; exact ⟨hw, rfl, rfl⟩
  | cons s ss ih =>
    obtain ⟨sa, sc⟩ := s
    unfold succLoop at h
    split at h
    · split at h
      · rename_i c hl
        exact ih (st := { st with cfg := c }) h ((linkOrMerge_spec hl).1 hw)
      · cases h
      · cases h
    · cases h

theorem succsLoop_wf {st st1 : AsmState} (tb : List (Nat × BTR)) (h : succsLoop st tb = .ok st1) (hw : WF st.cfg) :
    WF st1.cfg ∧ st1.instrIdx = st.instrIdx ∧ st1.blockIdx = st.blockIdx := by
  induction tb generalizing st with
  | nil => simp only [succsLoop, Res.ok.injEq] at h; rw [← h]; exact ⟨hw, rfl, rfl⟩
  | cons p rest ih =>
    obtain ⟨a, r⟩ := p
    unfold succsLoop at h
    split at h
    · split at h
      · rename_i st2 hs
        obtain ⟨h1, h2, h3⟩ := succLoop_wf r.succs hs hw
        obtain ⟨k1, k2, k3⟩ := ih h h1
        exact ⟨k1, k2.trans h2, k3.trans h3⟩
      · cases h
      · cases h
    · cases h

/-- the shape of a successful `assembleCore` -/
theorem assembleCore_ok {tb : List (Nat × BTR)} {manual : List ManualEdge} {st : AsmState}
    (h : assembleCore tb manual = .ok st) :
    ∃ st1 st2, resultsLoop {} tb = .ok st1 ∧ manualLoop st1 manual = .ok st2 ∧ succsLoop st2 tb = .ok st := by
  unfold assembleCore at h
  split at h
  · rename_i st1 h1
    split at h
    · rename_i st2 h2
      exact ⟨st1, st2, h1, h2, h⟩
    · cases h
    · cases h
  · cases h
  · cases h

theorem assembleCore_wf {tb : List (Nat × BTR)} {manual : List ManualEdge} {st : AsmState}
    (h : assembleCore tb manual = .ok st) (hg : GraphsWF tb) : WF st.cfg := by
  obtain ⟨st1, st2, h1, h2, h3⟩ := assembleCore_ok h
  have w1 := resultsLoop_wf tb h1 wf_new hg
  have w2 := (manualLoop_wf manual h2 w1).1
  exact (succsLoop_wf tb h3 w2).1

/-- the shape of a successful `assemble` -/
theorem assemble_ok {tb : List (Nat × BTR)} {manual : List ManualEdge} {fnAddr : Nat} {f : Function}
    (h : assemble tb manual fnAddr = .ok f) :
    ∃ st be bx, assembleCore tb manual = .ok st ∧ st.blockIdx.lookup fnAddr = some (be, bx) ∧
      st.cfg.hasBlock be = true ∧ (merge { st.cfg with entry := some be }).res = .ok () ∧
      f = { addr := fnAddr, cfg := (merge { st.cfg with entry := some be }).cfg } := by
  unfold assemble at h
  split at h
  · rename_i st hcore
    split at h
    · rename_i c hwe
      unfold withEntry at hwe
      split at hwe
      · rename_i be bx hl
        split at hwe
        · rename_i c1 u hs
          simp only [Res.ok.injEq] at hwe; subst hwe
          obtain ⟨hc, hr⟩ := stepRes_ok hs
          have hse : st.cfg.hasBlock be = true ∧ c1 = { st.cfg with entry := some be } := by
            unfold setEntry at hc hr
            split at hr
            · rename_i hb; exact ⟨hb, by rw [hc]; simp [*]⟩
            · cases hr
          obtain ⟨hb, rfl⟩ := hse
          split at h
          · rename_i c2 u2 hm
            simp only [Res.ok.injEq] at h
            obtain ⟨hc2, hr2⟩ := stepRes_ok hm
            exact ⟨st, be, bx, hcore, hl, hb, hr2, by rw [← h, hc2]⟩
          · cases h
          · cases h
        · cases hwe
        · cases hwe
      · cases hwe
    · cases h
    · cases h
  · cases h
  · cases h

-- ------------------------------------------------------------------------------------------------
-- `instruction_indices`: each address once

/-- the log is duplicate-free, and every entry is the result of one `insert` of an instruction graph with that
    address taken from `src` -/
structure LogOk (src : List Function) (st : AsmState) : Prop where
  nodup : (st.instrIdx.map (·.1)).Nodup
  prov : ∀ a en ex, (a, (en, ex)) ∈ st.instrIdx →
    ∃ g ∈ src, g.addr = a ∧ ∃ c0 c1, CfgEdit.insert c0 g.cfg = ⟨c1, .ok (en, ex)⟩

theorem lookup_none_not_mem {m : IdxMap} {a : Nat} (h : m.lookup a = none) : a ∉ m.map (·.1) := by
  induction m with
  | nil => simp
  | cons p rest ih =>
    obtain ⟨k, v⟩ := p
    rw [List.lookup_cons] at h
    split at h
    · cases h
    · rename_i hne
      simp only [List.map_cons, List.mem_cons, not_or]
      exact ⟨fun heq => by simp [heq] at hne, ih h⟩

theorem lookup_some_mem {m : IdxMap} {a : Nat} {v : Nat × Nat} (h : m.lookup a = some v) : (a, v) ∈ m := by
  induction m with
  | nil => simp at h
  | cons p rest ih =>
    obtain ⟨k, w⟩ := p
    rw [List.lookup_cons] at h
    split at h
    · rename_i heq
      have : a = k := by simpa using heq
      cases h; subst this; exact List.mem_cons_self
    · exact List.mem_cons_of_mem _ (ih h)

theorem LogOk.mono {src src' : List Function} {st : AsmState} (h : LogOk src st) (hs : ∀ g ∈ src, g ∈ src') :
    LogOk src' st :=
  ⟨h.nodup, fun a en ex hm => by
    obtain ⟨g, hg, rest⟩ := h.prov a en ex hm
    exact ⟨g, hs g hg, rest⟩⟩

/-- one instruction: the log stays correct, `g.addr` is in it afterwards, nothing else is added -/
theorem placeInstr_log {src : List Function} {st st1 : AsmState} {g : Function} {en ex : Nat}
    (h : placeInstr st g = .ok (st1, en, ex)) (hl : LogOk src st) (hg : g ∈ src) :
    LogOk src st1 ∧ (∀ a, a ∈ st1.instrIdx.map (·.1) ↔ a = g.addr ∨ a ∈ st.instrIdx.map (·.1)) := by
  obtain ⟨_, hlook, hcase⟩ := placeInstr_spec h
  rcases hcase with ⟨hold, rfl⟩ | ⟨hnone, hnew, hins⟩
  · refine ⟨hl, fun a => ⟨fun h => Or.inr h, ?_⟩⟩
    rintro (rfl | h)
    · exact List.mem_map.mpr ⟨_, lookup_some_mem hold, rfl⟩
    · exact h
  · refine ⟨⟨?_, ?_⟩, ?_⟩
    · rw [hnew, List.map_cons, List.nodup_cons]
      exact ⟨lookup_none_not_mem hnone, hl.nodup⟩
    · intro a en' ex' hm
      rw [hnew] at hm
      rcases List.mem_cons.mp hm with heq | hm
      · simp only [Prod.mk.injEq] at heq
        obtain ⟨rfl, rfl, rfl⟩ := heq
        exact ⟨g, hg, rfl, _, _, hins⟩
      · exact hl.prov a en' ex' hm
    · intro a; rw [hnew]; simp

theorem linkIfAbsent_keeps {st : AsmState} {c : Cfg} : ({ st with cfg := c } : AsmState).instrIdx = st.instrIdx := rfl

theorem blockLoop_log {src : List Function} {st st1 : AsmState} {be bx be1 bx1 : Nat} {prev : Option Nat}
    (gs : List Function) (h : blockLoop st be bx prev gs = .ok (st1, be1, bx1)) (hl : LogOk src st)
    (hg : ∀ g ∈ gs, g ∈ src) :
    LogOk src st1 ∧ (∀ a, a ∈ st1.instrIdx.map (·.1) ↔ (∃ g ∈ gs, g.addr = a) ∨ a ∈ st.instrIdx.map (·.1)) := by
  induction gs generalizing st be bx prev with
  | nil =>
    simp only [blockLoop, Res.ok.injEq, Prod.mk.injEq] at h
    rw [← h.1]; exact ⟨hl, fun a => by simp⟩
  | cons g gs ih =>
    unfold blockLoop at h
    split at h
    · rename_i st2 en ex hp
      obtain ⟨hl2, hk2⟩ := placeInstr_log hp hl (hg g List.mem_cons_self)
      have hg' : ∀ x ∈ gs, x ∈ src := fun x hx => hg x (List.mem_cons_of_mem _ hx)
      have fin : ∀ {st3 : AsmState}, st3.instrIdx = st2.instrIdx → LogOk src st3 := by
        intro st3 he; exact ⟨by rw [he]; exact hl2.nodup, by rw [he]; exact hl2.prov⟩
      have combine : ∀ {st3 : AsmState}, st3.instrIdx = st2.instrIdx →
          (LogOk src st1 ∧ (∀ a, a ∈ st1.instrIdx.map (·.1) ↔ (∃ g ∈ gs, g.addr = a) ∨ a ∈ st3.instrIdx.map (·.1))) →
          LogOk src st1 ∧ (∀ a, a ∈ st1.instrIdx.map (·.1) ↔ (∃ x ∈ g :: gs, x.addr = a) ∨ a ∈ st.instrIdx.map (·.1)) := by
        intro st3 he ⟨k1, k2⟩
        refine ⟨k1, fun a => ?_⟩
        rw [k2 a, he, hk2 a]
        constructor
        · rintro (⟨x, hx, rfl⟩ | rfl | h)
          · exact Or.inl ⟨x, List.mem_cons_of_mem _ hx, rfl⟩
          · exact Or.inl ⟨g, List.mem_cons_self, rfl⟩
          · exact Or.inr h
        · rintro (⟨x, hx, rfl⟩ | h)
          · rcases List.mem_cons.mp hx with rfl | hx
            · exact Or.inr (Or.inl rfl)
            · exact Or.inl ⟨x, hx, rfl⟩
          · exact Or.inr (Or.inr h)
      split at h
      · split at h
        · rename_i c _
          exact combine (st3 := { st2 with cfg := c }) rfl (ih h (fin rfl) hg')
        · cases h
        · cases h
      · exact combine (st3 := st2) rfl (ih h hl2 hg')
    · cases h
    · cases h

theorem resultsLoop_log {src : List Function} {st st1 : AsmState} (tb : List (Nat × BTR))
    (h : resultsLoop st tb = .ok st1) (hl : LogOk src st) (hs : ∀ g ∈ allInstrs tb, g ∈ src) :
    LogOk src st1 ∧
      (∀ a, a ∈ st1.instrIdx.map (·.1) ↔ (∃ g ∈ allInstrs tb, g.addr = a) ∨ a ∈ st.instrIdx.map (·.1)) := by
  induction tb generalizing st with
  | nil =>
    simp only [resultsLoop, Res.ok.injEq] at h
    rw [← h]; exact ⟨hl, fun a => by simp [allInstrs]⟩
  | cons p rest ih =>
    obtain ⟨a0, r⟩ := p
    unfold resultsLoop at h
    split at h
    · rename_i st2 be bx hb
      have hsr : ∀ g ∈ r.instrs, g ∈ src := fun g hg => hs g (by simp [allInstrs]; exact Or.inl hg)
      obtain ⟨hl2, hk2⟩ := blockLoop_log r.instrs hb hl hsr
      have hl3 : LogOk src { st2 with blockIdx := (a0, (be, bx)) :: st2.blockIdx } := ⟨hl2.nodup, hl2.prov⟩
      obtain ⟨k1, k2⟩ := ih h hl3 (fun g hg => hs g (by simp [allInstrs] at hg ⊢; exact Or.inr hg))
      refine ⟨k1, fun a => ?_⟩
      rw [k2 a]
      show _ ∨ a ∈ st2.instrIdx.map (·.1) ↔ _
      rw [hk2 a]
      simp only [allInstrs, List.flatMap_cons, List.mem_append]
      constructor
      · rintro (⟨g, hg, rfl⟩ | ⟨g, hg, rfl⟩ | h)
        · exact Or.inl ⟨g, Or.inr hg, rfl⟩
        · exact Or.inl ⟨g, Or.inl hg, rfl⟩
        · exact Or.inr h
      · rintro (⟨g, hg | hg, rfl⟩ | h)
        · exact Or.inr (Or.inl ⟨g, hg, rfl⟩)
        · exact Or.inl ⟨g, hg, rfl⟩
        · exact Or.inr (Or.inr h)
    · cases h
    · cases h

end Falcon.C06Asm
