/-
  FalconProofs.C06.AsmEntry — the entry of the assembled function: `block_indices[function_address].0` is the
  entry of the instruction graph logged for the first instruction of the result at the function address, and
  `merge` does not move the entry.
-/
import FalconProofs.C06.Asm

namespace Falcon.C06Asm
open Falcon Falcon.CfgEdit Falcon.Assemble Falcon.C15

-- `merge` never touches `entry` ------------------------------------------------------------------

theorem insertEdges_entry (c : Cfg) (es : List Edge) : (insertEdges c es).cfg.entry = c.entry := by
  induction es generalizing c with
  | nil => rfl
  | cons e es ih =>
    unfold insertEdges
    split
    · rename_i c' h; rw [ih c', (insertEdge_frame h).entry]
    · rfl
    · rfl

theorem mergeStep_entry (c : Cfg) (m s : Nat) : (mergeStep c m s).cfg.entry = c.entry := by
  unfold mergeStep
  split
  · rfl
  · split
    · rfl
    · rename_i sb _ _ mb _
      dsimp only
      have h2 := insertEdges_entry (setBlock c (blockAppend mb sb))
        ((Cfg.edgesOut (setBlock c (blockAppend mb sb)) s).map (fun e => ({ head := m, tail := e.tail, cond := e.cond } : Edge)))
      have h1 : (setBlock c (blockAppend mb sb)).entry = c.entry := rfl
      split
      · rename_i c2 hie
        rw [hie] at h2
        split
        · rename_i c3 hrv
          obtain ⟨_, hc3⟩ := removeVertex_ok hrv
          have : c3.entry = c.entry := by rw [hc3]; exact h2.trans h1
          split <;> exact this
        · exact h2.trans h1
        · exact h2.trans h1
      · rename_i c2 x hie; rw [hie] at h2; exact h2.trans h1
      · rename_i c2 hie; rw [hie] at h2; exact h2.trans h1

theorem applyMerges_entry (c : Cfg) (ms : List (Nat × Nat)) : (applyMerges c ms).cfg.entry = c.entry := by
  induction ms generalizing c with
  | nil => rfl
  | cons p rest ih =>
    obtain ⟨m, s⟩ := p
    have h1 := mergeStep_entry c m s
    unfold applyMerges
    split
    · rename_i c' hs; rw [hs] at h1; rw [ih c']; exact h1
    · exact h1

theorem mergeLoop_entry (fuel : Nat) (c : Cfg) : (mergeLoop fuel c).cfg.entry = c.entry := by
  induction fuel generalizing c with
  | zero => rfl
  | succ n ih =>
    unfold mergeLoop
    split
    · rfl
    · rename_i ms _ _
      have h1 := applyMerges_entry c ms
      split
      · rename_i c' ha; rw [ha] at h1; rw [ih c']; exact h1
      · exact h1
    · rfl
    · rfl

theorem merge_entry (c : Cfg) : (merge c).cfg.entry = c.entry := mergeLoop_entry _ c

-- stability of the two maps ----------------------------------------------------------------------

theorem placeInstr_stable {st st1 : AsmState} {g : Function} {en ex : Nat} (h : placeInstr st g = .ok (st1, en, ex))
    {a : Nat} {v : Nat × Nat} (hv : st.instrIdx.lookup a = some v) : st1.instrIdx.lookup a = some v := by
  obtain ⟨_, _, hcase⟩ := placeInstr_spec h
  rcases hcase with ⟨_, rfl⟩ | ⟨hnone, hnew, _⟩
  · exact hv
  · rw [hnew, List.lookup_cons]
    split
    · rename_i heq
      have : a = g.addr := by simpa using heq
      rw [this, hnone] at hv; cases hv
    · exact hv

theorem blockLoop_stable {st st1 : AsmState} {be bx be1 bx1 : Nat} {prev : Option Nat} (gs : List Function)
    (h : blockLoop st be bx prev gs = .ok (st1, be1, bx1)) :
    st1.blockIdx = st.blockIdx ∧ ∀ a v, st.instrIdx.lookup a = some v → st1.instrIdx.lookup a = some v := by
  induction gs generalizing st be bx prev with
  | nil =>
    simp only [blockLoop, Res.ok.injEq, Prod.mk.injEq] at h
    rw [← h.1]; exact ⟨rfl, fun _ _ hv => hv⟩
  | cons g gs ih =>
    unfold blockLoop at h
    split at h
    · rename_i st2 en ex hp
      obtain ⟨hb2, _, _⟩ := placeInstr_spec hp
      split at h
      · split at h
        · rename_i c _
          obtain ⟨k1, k2⟩ := ih (st := { st2 with cfg := c }) h
          exact ⟨k1.trans hb2, fun a v hv => k2 a v (placeInstr_stable hp hv)⟩
        · cases h
        · cases h
      · obtain ⟨k1, k2⟩ := ih h
        exact ⟨k1.trans hb2, fun a v hv => k2 a v (placeInstr_stable hp hv)⟩
    · cases h
    · cases h

/-- once a previous exit exists, `block_entry` is no longer assigned -/
theorem blockLoop_entry_kept {st st1 : AsmState} {be bx be1 bx1 p : Nat} (gs : List Function)
    (h : blockLoop st be bx (some p) gs = .ok (st1, be1, bx1)) : be1 = be := by
  induction gs generalizing st bx p with
  | nil => simp only [blockLoop, Res.ok.injEq, Prod.mk.injEq] at h; exact h.2.1.symm
  | cons g gs ih =>
    unfold blockLoop at h
    split at h
    · split at h
      · split at h
        · exact ih h
        · cases h
        · cases h
      · rename_i hc; cases hc
    · cases h
    · cases h

/-- the first instruction of a result decides `block_entry`: the entry logged for its address -/
theorem blockLoop_first {st st1 : AsmState} {be bx be1 bx1 : Nat} {g : Function} {gs : List Function}
    (h : blockLoop st be bx none (g :: gs) = .ok (st1, be1, bx1)) :
    ∃ ex, st1.instrIdx.lookup g.addr = some (be1, ex) := by
  unfold blockLoop at h
  split at h
  · rename_i st2 en ex hp
    obtain ⟨_, hlook, _⟩ := placeInstr_spec hp
    dsimp only at h
    have := blockLoop_entry_kept gs h
    obtain ⟨_, hst⟩ := blockLoop_stable gs h
    exact ⟨ex, by rw [this]; exact hst _ _ hlook⟩
  · cases h
  · cases h

theorem resultsLoop_stable {st st1 : AsmState} (tb : List (Nat × BTR)) (h : resultsLoop st tb = .ok st1) :
    (∀ a v, st.instrIdx.lookup a = some v → st1.instrIdx.lookup a = some v) ∧
    (∀ a, a ∉ tb.map (·.1) → st1.blockIdx.lookup a = st.blockIdx.lookup a) := by
  induction tb generalizing st with
  | nil => simp only [resultsLoop, Res.ok.injEq] at h; rw [← h]; exact ⟨fun _ _ hv => hv, fun _ _ => rfl⟩
  | cons p rest ih =>
    obtain ⟨a0, r⟩ := p
    unfold resultsLoop at h
    split at h
    · rename_i st2 be bx hb
      obtain ⟨hb2, hs2⟩ := blockLoop_stable r.instrs hb
      obtain ⟨k1, k2⟩ := ih h
      refine ⟨fun a v hv => k1 a v (hs2 a v hv), fun a ha => ?_⟩
      simp only [List.map_cons, List.mem_cons, not_or] at ha
      rw [k2 a ha.2]
      show ((a0, (be, bx)) :: st2.blockIdx).lookup a = _
      rw [List.lookup_cons, hb2]
      have : (a == a0) = false := by simpa using ha.1
      simp [this]
    · cases h
    · cases h

/-- `block_indices[a].0` for a result that starts with an instruction -/
theorem resultsLoop_entry {st st1 : AsmState} (tb : List (Nat × BTR)) (h : resultsLoop st tb = .ok st1)
    (hn : (tb.map (·.1)).Nodup) {a : Nat} {r : BTR} (hr : (a, r) ∈ tb) {g : Function} {gs : List Function}
    (hi : r.instrs = g :: gs) :
    ∃ be bx ex, st1.blockIdx.lookup a = some (be, bx) ∧ st1.instrIdx.lookup g.addr = some (be, ex) := by
  induction tb generalizing st with
  | nil => cases hr
  | cons p rest ih =>
    obtain ⟨a0, r0⟩ := p
    rw [List.map_cons, List.nodup_cons] at hn
    unfold resultsLoop at h
    split at h
    · rename_i st2 be bx hb
      rcases List.mem_cons.mp hr with heq | hr'
      · simp only [Prod.mk.injEq] at heq
        obtain ⟨rfl, rfl⟩ := heq
        obtain ⟨k1, k2⟩ := resultsLoop_stable rest h
        rw [hi] at hb
        obtain ⟨ex, hex⟩ := blockLoop_first hb
        refine ⟨be, bx, ex, ?_, k1 _ _ hex⟩
        rw [k2 a hn.1]
        show ((a, (be, bx)) :: st2.blockIdx).lookup a = _
        simp
      · exact ih h hn.2 hr'
    · cases h
    · cases h

/-- the log of `insert` calls: duplicate-free, covers exactly the instruction addresses of the results, every entry
    is the result of one `insert` (restated as `asm_once` in Props/C06Asm.lean) -/
theorem assembleCore_log {tb : List (Nat × BTR)} {manual : List ManualEdge} {st : AsmState}
    (h : assembleCore tb manual = .ok st) :
    (st.instrIdx.map (·.1)).Nodup ∧
    (∀ a, a ∈ st.instrIdx.map (·.1) ↔ ∃ p ∈ tb, ∃ g ∈ p.2.instrs, g.addr = a) ∧
    (∀ a en ex, (a, (en, ex)) ∈ st.instrIdx →
      ∃ p ∈ tb, ∃ g ∈ p.2.instrs, g.addr = a ∧ ∃ c0 c1, CfgEdit.insert c0 g.cfg = ⟨c1, .ok (en, ex)⟩) := by
  obtain ⟨st1, st2, h1, h2, h3⟩ := assembleCore_ok h
  have l0 : LogOk (allInstrs tb) ({} : AsmState) := ⟨List.Pairwise.nil, fun _ _ _ hm => by cases hm⟩
  obtain ⟨l1, k1⟩ := resultsLoop_log tb h1 l0 (fun g hg => hg)
  -- the two edge phases do not touch the log
  have e2 : st2.instrIdx = st1.instrIdx := by
    -- `manualLoop` / `succsLoop` keep `instrIdx` whatever the graph is
    have : ∀ (ms : List ManualEdge) (s s' : AsmState), manualLoop s ms = .ok s' → s'.instrIdx = s.instrIdx := by
      intro ms
      induction ms with
      | nil => intro s s' hh; simp only [manualLoop, Res.ok.injEq] at hh; rw [← hh]
      | cons m ms ih =>
        intro s s' hh
        unfold manualLoop at hh
        split at hh
        · split at hh
          · have := ih _ _ hh; exact this
          · cases hh
          · cases hh
        · cases hh
    exact this manual st1 st2 h2
  have e3 : st.instrIdx = st2.instrIdx := by
    have hsucc : ∀ (ss : List (Nat × Option Expr)) (bx : Nat) (s s' : AsmState),
        succLoop bx s ss = .ok s' → s'.instrIdx = s.instrIdx := by
      intro ss bx
      induction ss with
      | nil => intro s s' hh; simp only [succLoop, Res.ok.injEq] at hh; rw [← hh]
      | cons x ss ih =>
        obtain ⟨sa, sc⟩ := x
        intro s s' hh
        unfold succLoop at hh
        split at hh
        · split at hh
          · have := ih _ _ hh; exact this
          · cases hh
          · cases hh
        · cases hh
    have : ∀ (l : List (Nat × BTR)) (s s' : AsmState), succsLoop s l = .ok s' → s'.instrIdx = s.instrIdx := by
      intro l
      induction l with
      | nil => intro s s' hh; simp only [succsLoop, Res.ok.injEq] at hh; rw [← hh]
      | cons p rest ih =>
        obtain ⟨a, r⟩ := p
        intro s s' hh
        unfold succsLoop at hh
        split at hh
        · split at hh
          · rename_i s1 hs; rw [ih _ _ hh]; exact hsucc _ _ _ _ hs
          · cases hh
          · cases hh
        · cases hh
    exact this tb st2 st h3
  have hmem : ∀ a, (∃ g ∈ allInstrs tb, g.addr = a) ↔ ∃ p ∈ tb, ∃ g ∈ p.2.instrs, g.addr = a := by
    intro a
    simp only [allInstrs, List.mem_flatMap]
    constructor
    · rintro ⟨g, ⟨p, hp, hg⟩, rfl⟩; exact ⟨p, hp, g, hg, rfl⟩
    · rintro ⟨p, hp, g, hg, rfl⟩; exact ⟨g, ⟨p, hp, hg⟩, rfl⟩
  rw [e3, e2]
  refine ⟨l1.nodup, ?_, ?_⟩
  · intro a
    rw [k1 a, hmem a]
    simp
  · intro a en ex hm
    obtain ⟨g, hg, hga, rest⟩ := l1.prov a en ex hm
    simp only [allInstrs, List.mem_flatMap] at hg
    obtain ⟨p, hp, hgp⟩ := hg
    exact ⟨p, hp, g, hgp, hga, rest⟩

end Falcon.C06Asm
