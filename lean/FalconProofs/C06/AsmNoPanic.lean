/-
  FalconProofs.C06.AsmNoPanic — on a closed table of translation results (what `discover` returns) with
  well-formed instruction graphs the assembly never panics: every `block_indices[…]` finds its key, `insert`
  and `merge` do not panic.
-/
import FalconProofs.C06.Discover

namespace Falcon.C06Asm
open Falcon Falcon.CfgEdit Falcon.Assemble Falcon.C15

theorem stepRes_no_panic {α : Type} {s : Step α} (h : s.res ≠ .panic) : stepRes s ≠ .panic := by
  unfold stepRes
  cases hs : s.res with
  | ok a => simp
  | err e => simp
  | panic => exact absurd hs h

theorem linkIfAbsent_no_panic (c : Cfg) (h t : Nat) (cond : Option Expr) : linkIfAbsent c h t cond ≠ .panic := by
  unfold linkIfAbsent
  split
  · simp
  · have : stepRes (match cond with
        | some g => conditionalEdge c h t g
        | none => unconditionalEdge c h t) ≠ .panic := by
      apply stepRes_no_panic
      cases cond with
      | some g => exact ofRes_no_panic (insertEdge_no_panic _ _)
      | none => exact ofRes_no_panic (insertEdge_no_panic _ _)
    split
    · simp
    · simp
    · rename_i hp; exact absurd hp this

theorem linkOrMerge_no_panic (c : Cfg) (h t : Nat) (cond : Option Expr) : linkOrMerge c h t cond ≠ .panic := by
  unfold linkOrMerge
  split
  · split
    · split
      · have : ∀ a b : Expr, Expr.mkBin .or a b ≠ .panic := by
          intro a b; unfold Expr.mkBin; split <;> simp
        split
        · simp
        · simp
        · rename_i hp; exact absurd hp (this _ _)
      · simp
    · simp
    · simp
  · exact linkIfAbsent_no_panic _ _ _ _

theorem placeInstr_no_panic (st : AsmState) {g : Function} (hg : WF g.cfg) : placeInstr st g ≠ .panic := by
  unfold placeInstr
  split
  · simp
  · have := stepRes_no_panic (insert_no_panic (c := st.cfg) hg)
    split
    · simp
    · simp
    · rename_i hp; exact absurd hp this

theorem blockLoop_no_panic (st : AsmState) (be bx : Nat) (prev : Option Nat) (gs : List Function)
    (hg : ∀ g ∈ gs, WF g.cfg) : blockLoop st be bx prev gs ≠ .panic := by
  induction gs generalizing st be bx prev with
  | nil => simp [blockLoop]
  | cons g gs ih =>
    have hg' : ∀ x ∈ gs, WF x.cfg := fun x hx => hg x (List.mem_cons_of_mem _ hx)
    unfold blockLoop
    split
    · split
      · split
        · exact ih _ _ _ _ hg'
        · simp
        · rename_i hp; exact absurd hp (linkIfAbsent_no_panic _ _ _ _)
      · exact ih _ _ _ _ hg'
    · simp
    · rename_i hp; exact absurd hp (placeInstr_no_panic st (hg g List.mem_cons_self))

/-- `block_indices` only grows: a key that is present stays present -/
theorem resultsLoop_keys {st st1 : AsmState} (tb : List (Nat × BTR)) (h : resultsLoop st tb = .ok st1) :
    ∀ a, (a ∈ tb.map (·.1) ∨ (st.blockIdx.lookup a).isSome = true) → (st1.blockIdx.lookup a).isSome = true := by
  induction tb generalizing st with
  | nil =>
    simp only [resultsLoop, Res.ok.injEq] at h
    subst h; intro a ha
    rcases ha with ha | ha
    · cases ha
    · exact ha
  | cons p rest ih =>
    obtain ⟨a0, r⟩ := p
    unfold resultsLoop at h
    split at h
    · rename_i st2 be bx hb
      obtain ⟨hb2, _⟩ := blockLoop_stable r.instrs hb
      intro a ha
      apply ih h a
      by_cases h0 : a = a0
      · right
        show (((a0, (be, bx)) :: st2.blockIdx).lookup a).isSome = true
        subst h0; simp
      · rcases ha with ha | ha
        · simp only [List.map_cons, List.mem_cons] at ha
          rcases ha with ha | ha
          · exact absurd ha h0
          · exact Or.inl ha
        · right
          show (((a0, (be, bx)) :: st2.blockIdx).lookup a).isSome = true
          rw [List.lookup_cons]
          have : (a == a0) = false := by simpa using h0
          simp only [this]
          rw [hb2]; exact ha
    · cases h
    · cases h

theorem resultsLoop_no_panic (st : AsmState) (tb : List (Nat × BTR)) (hg : GraphsWF tb) :
    resultsLoop st tb ≠ .panic := by
  induction tb generalizing st with
  | nil => simp [resultsLoop]
  | cons p rest ih =>
    obtain ⟨a, r⟩ := p
    unfold resultsLoop
    split
    · exact ih _ (fun q hq => hg q (List.mem_cons_of_mem _ hq))
    · simp
    · rename_i hp
      exact absurd hp (blockLoop_no_panic st 0 0 none r.instrs (hg (a, r) List.mem_cons_self))

theorem manualLoop_no_panic (st : AsmState) (ms : List ManualEdge)
    (hk : ∀ m ∈ ms, (st.blockIdx.lookup m.head).isSome = true ∧ (st.blockIdx.lookup m.tail).isSome = true) :
    manualLoop st ms ≠ .panic := by
  induction ms generalizing st with
  | nil => simp [manualLoop]
  | cons m ms ih =>
    obtain ⟨h1, h2⟩ := hk m List.mem_cons_self
    unfold manualLoop
    split
    · split
      · exact ih _ (fun x hx => hk x (List.mem_cons_of_mem _ hx))
      · simp
      · rename_i hp; exact absurd hp (linkIfAbsent_no_panic _ _ _ _)
    · rename_i hno
      cases hh : st.blockIdx.lookup m.head with
      | none => rw [hh] at h1; cases h1
      | some v =>
        cases ht : st.blockIdx.lookup m.tail with
        | none => rw [ht] at h2; cases h2
        | some w => exact absurd ht (by obtain ⟨a, b⟩ := v; obtain ⟨c, d⟩ := w; exact fun ht' => hno a b c d hh ht')

theorem succLoop_no_panic (bx : Nat) (st : AsmState) (ss : List (Nat × Option Expr))
    (hk : ∀ s ∈ ss, (st.blockIdx.lookup s.1).isSome = true) : succLoop bx st ss ≠ .panic := by
  induction ss generalizing st with
  | nil => simp [succLoop]
  | cons s ss ih =>
    obtain ⟨sa, sc⟩ := s
    have h1 := hk (sa, sc) List.mem_cons_self
    unfold succLoop
    split
    · split
      · exact ih _ (fun x hx => hk x (List.mem_cons_of_mem _ hx))
      · simp
      · rename_i hp; exact absurd hp (linkOrMerge_no_panic _ _ _ _)
    · rename_i hno; rw [hno] at h1; cases h1

theorem succsLoop_no_panic (st : AsmState) (tb : List (Nat × BTR)) (hw : WF st.cfg)
    (hk : ∀ p ∈ tb, (st.blockIdx.lookup p.1).isSome = true ∧ ∀ s ∈ p.2.succs, (st.blockIdx.lookup s.1).isSome = true) :
    succsLoop st tb ≠ .panic := by
  induction tb generalizing st with
  | nil => simp [succsLoop]
  | cons p rest ih =>
    obtain ⟨a, r⟩ := p
    obtain ⟨h1, h2⟩ := hk (a, r) List.mem_cons_self
    unfold succsLoop
    split
    · split
      · rename_i st1 hs
        obtain ⟨w1, _, b1⟩ := succLoop_wf r.succs hs hw
        apply ih st1 w1
        intro q hq
        rw [b1]; exact hk q (List.mem_cons_of_mem _ hq)
      · simp
      · rename_i hp; exact absurd hp (succLoop_no_panic _ st r.succs h2)
    · rename_i hno; rw [hno] at h1; cases h1

/-- a table is closed when the function address, the ends of the manual edges and all successors are keys -/
structure Closed (tb : List (Nat × BTR)) (manual : List ManualEdge) (fnAddr : Nat) : Prop where
  fn : fnAddr ∈ tb.map (·.1)
  manual : ∀ m ∈ manual, m.head ∈ tb.map (·.1) ∧ m.tail ∈ tb.map (·.1)
  succs : ∀ p ∈ tb, ∀ s ∈ p.2.succs, s.1 ∈ tb.map (·.1)

theorem assemble_no_panic {tb : List (Nat × BTR)} {manual : List ManualEdge} {fnAddr : Nat}
    (hg : GraphsWF tb) (hc : Closed tb manual fnAddr) : assemble tb manual fnAddr ≠ .panic := by
  unfold assemble
  split
  · rename_i st hcore
    obtain ⟨st1, st2, h1, h2, h3⟩ := assembleCore_ok hcore
    have keys1 := resultsLoop_keys tb h1
    have w1 := resultsLoop_wf tb h1 wf_new hg
    obtain ⟨w2, _, b2⟩ := manualLoop_wf manual h2 w1
    obtain ⟨w3, _, b3⟩ := succsLoop_wf tb h3 w2
    have hfn : (st.blockIdx.lookup fnAddr).isSome = true := by
      rw [b3, b2]; exact keys1 _ (Or.inl hc.fn)
    split
    · rename_i c hwe
      -- `c` is `st.cfg` with the entry set; merge succeeds on it
      unfold withEntry at hwe
      split at hwe
      · rename_i be bx hl
        split at hwe
        · rename_i c1 u hs
          simp only [Res.ok.injEq] at hwe; subst hwe
          obtain ⟨hcc, hr⟩ := stepRes_ok hs
          have hwc : WF c1 := by rw [hcc]; exact wf_setEntry w3 be
          have := merge_total hwc
          have hm : stepRes (merge c1) ≠ .panic := stepRes_no_panic (by rw [this]; simp)
          split
          · simp
          · simp
          · rename_i hp; exact absurd hp hm
        · cases hwe
        · cases hwe
      · cases hwe
    · simp
    · rename_i hp
      unfold withEntry at hp
      split at hp
      · split at hp
        · cases hp
        · cases hp
        · rename_i be _ _ _ hs
          have : stepRes (setEntry st.cfg be) ≠ .panic := stepRes_no_panic (by unfold setEntry; split <;> simp)
          exact absurd hs this
      · rename_i hno; rw [hno] at hfn; cases hfn
  · simp
  · rename_i hp
    -- `assembleCore` does not panic
    unfold assembleCore at hp
    split at hp
    · rename_i st1 h1
      have keys1 := resultsLoop_keys tb h1
      have w1 := resultsLoop_wf tb h1 wf_new hg
      split at hp
      · rename_i st2 h2
        obtain ⟨w2, _, b2⟩ := manualLoop_wf manual h2 w1
        refine absurd hp (succsLoop_no_panic st2 tb w2 ?_)
        intro p hpm
        rw [b2]
        exact ⟨keys1 _ (Or.inl (List.mem_map.mpr ⟨p, hpm, rfl⟩)), fun s hs => keys1 _ (Or.inl (hc.succs p hpm s hs))⟩
      · cases hp
      · rename_i h2
        exact absurd h2 (manualLoop_no_panic st1 manual (fun m hm =>
          ⟨keys1 _ (Or.inl (hc.manual m hm).1), keys1 _ (Or.inl (hc.manual m hm).2)⟩))
    · cases hp
    · rename_i h1; exact absurd h1 (resultsLoop_no_panic {} tb hg)

end Falcon.C06Asm
