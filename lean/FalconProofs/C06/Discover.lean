/-
  FalconProofs.C06.Discover — the work list of `translate_function_extended`: what it returns is keyed by
  distinct addresses and closed: the function address, both ends of every manual edge and every successor of
  every translation result have a translation result.  Consequently `block_indices[…]` never panics.
-/
import FalconProofs.C06.AsmEntry
import FalconProofs.C15.NoPanic

namespace Falcon.C06Asm
open Falcon Falcon.CfgEdit Falcon.Assemble Falcon.C15

theorem lookup_isSome_iff {β : Type} (l : List (Nat × β)) (a : Nat) : (l.lookup a).isSome = true ↔ a ∈ l.map (·.1) := by
  induction l with
  | nil => simp
  | cons p rest ih =>
    obtain ⟨k, v⟩ := p
    rw [List.lookup_cons]
    by_cases h : a = k
    · subst h; simp
    · have : (a == k) = false := by simpa using h
      simp only [this, List.map_cons, List.mem_cons, h, false_or]
      exact ih

theorem keys_insertResult (a : Nat) (r : BTR) (l : List (Nat × BTR)) :
    ∀ x, x ∈ (insertResult a r l).map (·.1) ↔ x = a ∨ x ∈ l.map (·.1) := by
  induction l with
  | nil => intro x; simp [insertResult]
  | cons p rest ih =>
    obtain ⟨b, s⟩ := p
    intro x
    unfold insertResult
    split
    · simp
    · simp only [List.map_cons, List.mem_cons, ih x]
      constructor
      · rintro (h | h | h)
        · exact Or.inr (Or.inl h)
        · exact Or.inl h
        · exact Or.inr (Or.inr h)
      · rintro (h | h | h)
        · exact Or.inr (Or.inl h)
        · exact Or.inl h
        · exact Or.inr (Or.inr h)

theorem mem_insertResult {a : Nat} {r : BTR} {l : List (Nat × BTR)} {p : Nat × BTR} :
    p ∈ insertResult a r l ↔ p = (a, r) ∨ p ∈ l := by
  induction l with
  | nil => simp [insertResult]
  | cons q rest ih =>
    obtain ⟨b, s⟩ := q
    unfold insertResult
    split
    · simp
    · simp only [List.mem_cons, ih]
      constructor
      · rintro (h | h | h)
        · exact Or.inr (Or.inl h)
        · exact Or.inl h
        · exact Or.inr (Or.inr h)
      · rintro (h | h | h)
        · exact Or.inr (Or.inl h)
        · exact Or.inl h
        · exact Or.inr (Or.inr h)

theorem nodup_insertResult {a : Nat} {r : BTR} {l : List (Nat × BTR)} (hn : (l.map (·.1)).Nodup)
    (ha : a ∉ l.map (·.1)) : ((insertResult a r l).map (·.1)).Nodup := by
  induction l with
  | nil => simp [insertResult]
  | cons p rest ih =>
    obtain ⟨b, s⟩ := p
    rw [List.map_cons, List.nodup_cons] at hn
    simp only [List.map_cons, List.mem_cons, not_or] at ha
    unfold insertResult
    split
    · simp only [List.map_cons, List.nodup_cons, List.mem_cons, not_or]
      exact ⟨⟨ha.1, ha.2⟩, hn.1, hn.2⟩
    · simp only [List.map_cons, List.nodup_cons]
      refine ⟨?_, ih hn.2 ha.2⟩
      intro hmem
      rcases (keys_insertResult a r rest b).mp hmem with h | h
      · exact ha.1 h.symm
      · exact hn.1 h

theorem enqueue_spec (q : List Nat) (ss : List (Nat × Option Expr)) :
    (∀ x, x ∈ q → x ∈ enqueue q ss) ∧ (∀ s ∈ ss, s.1 ∈ enqueue q ss) := by
  induction ss generalizing q with
  | nil => exact ⟨fun _ h => h, fun _ h => by cases h⟩
  | cons s rest ih =>
    obtain ⟨a, c⟩ := s
    unfold enqueue
    obtain ⟨k1, k2⟩ := ih (if q.contains a then q else q ++ [a])
    have hq : ∀ x, x ∈ q → x ∈ (if q.contains a then q else q ++ [a]) := by
      intro x hx; split
      · exact hx
      · exact List.mem_append_left _ hx
    have ha : a ∈ (if q.contains a then q else q ++ [a]) := by
      split
      · rename_i h; simpa using h
      · simp
    refine ⟨fun x hx => k1 x (hq x hx), ?_⟩
    intro s hs
    rcases List.mem_cons.mp hs with rfl | hs
    · exact k1 _ ha
    · exact k2 s hs

/-- what the loop maintains: distinct keys; every wanted address is translated or still queued -/
structure DiscInv (want : List Nat) (queue : List Nat) (results : List (Nat × BTR)) : Prop where
  nodup : (results.map (·.1)).Nodup
  want : ∀ x ∈ want, x ∈ results.map (·.1) ∨ x ∈ queue
  succs : ∀ p ∈ results, ∀ s ∈ p.2.succs, s.1 ∈ results.map (·.1) ∨ s.1 ∈ queue

theorem discoverLoop_closed {oracle : Nat → Option (Res BTR)} {want : List Nat} (fuel : Nat) (queue : List Nat)
    (results tb : List (Nat × BTR)) (hinv : DiscInv want queue results)
    (h : discoverLoop oracle fuel queue results = .ok tb) : DiscInv want [] tb := by
  induction fuel generalizing queue results with
  | zero =>
    cases queue with
    | nil => simp only [discoverLoop, Res.ok.injEq] at h; subst h; exact hinv
    | cons a q => simp [discoverLoop] at h
  | succ n ih =>
    cases queue with
    | nil => simp only [discoverLoop, Res.ok.injEq] at h; subst h; exact hinv
    | cons a q =>
      unfold discoverLoop at h
      split at h
      · rename_i hsome
        have ha : a ∈ results.map (·.1) := (lookup_isSome_iff results a).mp hsome
        refine ih q results ⟨hinv.nodup, ?_, ?_⟩ h
        · intro x hx
          rcases hinv.want x hx with h1 | h1
          · exact Or.inl h1
          · rcases List.mem_cons.mp h1 with rfl | h1
            · exact Or.inl ha
            · exact Or.inr h1
        · intro p hp s hs
          rcases hinv.succs p hp s hs with h1 | h1
          · exact Or.inl h1
          · rcases List.mem_cons.mp h1 with h2 | h1
            · exact Or.inl (h2 ▸ ha)
            · exact Or.inr h1
      · rename_i hnone
        have ha : a ∉ results.map (·.1) := fun hm => hnone ((lookup_isSome_iff results a).mpr hm)
        -- the common step: `a` gets the result `r`, the queue becomes `q'` ⊇ q ∪ succs r
        have step : ∀ (r : BTR) (q' : List Nat), (∀ x, x ∈ q → x ∈ q') → (∀ s ∈ r.succs, s.1 ∈ q') →
            DiscInv want q' (insertResult a r results) := by
          intro r q' hq hs
          refine ⟨nodup_insertResult hinv.nodup ha, ?_, ?_⟩
          · intro x hx
            rcases hinv.want x hx with h1 | h1
            · exact Or.inl ((keys_insertResult a r results x).mpr (Or.inr h1))
            · rcases List.mem_cons.mp h1 with rfl | h1
              · exact Or.inl ((keys_insertResult _ r results _).mpr (Or.inl rfl))
              · exact Or.inr (hq x h1)
          · intro p hp s hsm
            rcases mem_insertResult.mp hp with rfl | hp
            · exact Or.inr (hs s hsm)
            · rcases hinv.succs p hp s hsm with h1 | h1
              · exact Or.inl ((keys_insertResult a r results _).mpr (Or.inr h1))
              · rcases List.mem_cons.mp h1 with h2 | h1
                · exact Or.inl ((keys_insertResult a r results _).mpr (Or.inl h2))
                · exact Or.inr (hq _ h1)
        split at h
        · exact ih q _ (step (emptyResult a) q (fun _ hx => hx) (fun s hs => by simp [emptyResult] at hs)) h
        · rename_i r _
          obtain ⟨k1, k2⟩ := enqueue_spec q r.succs
          exact ih _ _ (step r _ k1 k2) h
        · cases h
        · cases h

/-- **discover_closed** -/
theorem discover_closed {oracle : Nat → Option (Res BTR)} {manual : List ManualEdge} {fnAddr fuel : Nat}
    {tb : List (Nat × BTR)} (h : discover oracle manual fnAddr fuel = .ok tb) :
    (tb.map (·.1)).Nodup ∧ fnAddr ∈ tb.map (·.1) ∧
    (∀ m ∈ manual, m.head ∈ tb.map (·.1) ∧ m.tail ∈ tb.map (·.1)) ∧
    (∀ p ∈ tb, ∀ s ∈ p.2.succs, s.1 ∈ tb.map (·.1)) := by
  unfold discover at h
  have inv0 : DiscInv (fnAddr :: manual.flatMap (fun m => [m.head, m.tail]))
      (fnAddr :: manual.flatMap (fun m => [m.head, m.tail])) [] :=
    ⟨List.Pairwise.nil, fun x hx => Or.inr hx, fun p hp => by cases hp⟩
  have fin := discoverLoop_closed fuel _ [] tb inv0 h
  have hw : ∀ x ∈ (fnAddr :: manual.flatMap (fun m => [m.head, m.tail])), x ∈ tb.map (·.1) := by
    intro x hx
    rcases fin.want x hx with h1 | h1
    · exact h1
    · cases h1
  refine ⟨fin.nodup, hw _ List.mem_cons_self, ?_, ?_⟩
  · intro m hm
    constructor
    · exact hw _ (List.mem_cons_of_mem _ (List.mem_flatMap.mpr ⟨m, hm, by simp⟩))
    · exact hw _ (List.mem_cons_of_mem _ (List.mem_flatMap.mpr ⟨m, hm, by simp⟩))
  · intro p hp s hs
    rcases fin.succs p hp s hs with h1 | h1
    · exact h1
    · cases h1

/-- every translation result the work list returns is what the oracle answered at its address, or the made-up
    result for an empty window -/
theorem discoverLoop_prov {oracle : Nat → Option (Res BTR)} (fuel : Nat) (queue : List Nat)
    (results tb : List (Nat × BTR)) (h : discoverLoop oracle fuel queue results = .ok tb) :
    ∀ p ∈ tb, p ∈ results ∨ (oracle p.1 = none ∧ p.2 = emptyResult p.1) ∨ oracle p.1 = some (.ok p.2) := by
  induction fuel generalizing queue results with
  | zero =>
    cases queue with
    | nil => simp only [discoverLoop, Res.ok.injEq] at h; subst h; exact fun p hp => Or.inl hp
    | cons a q => simp [discoverLoop] at h
  | succ n ih =>
    cases queue with
    | nil => simp only [discoverLoop, Res.ok.injEq] at h; subst h; exact fun p hp => Or.inl hp
    | cons a q =>
      unfold discoverLoop at h
      split at h
      · exact ih q results h
      · split at h
        · rename_i ho
          intro p hp
          rcases ih _ _ h p hp with h1 | h1
          · rcases mem_insertResult.mp h1 with rfl | h1
            · exact Or.inr (Or.inl ⟨ho, rfl⟩)
            · exact Or.inl h1
          · exact Or.inr h1
        · rename_i r ho
          intro p hp
          rcases ih _ _ h p hp with h1 | h1
          · rcases mem_insertResult.mp h1 with rfl | h1
            · exact Or.inr (Or.inr ho)
            · exact Or.inl h1
          · exact Or.inr h1
        · cases h
        · cases h

theorem emptyResult_wf (a : Nat) : ∀ g ∈ (emptyResult a).instrs, WF g.cfg := by
  intro g hg
  simp only [emptyResult, List.mem_singleton] at hg
  subst hg
  constructor <;> simp [Cfg.hasBlock, BlockWF]

/-- the oracle only hands out well-formed instruction graphs -/
def OracleWF (oracle : Nat → Option (Res BTR)) : Prop := ∀ a r, oracle a = some (.ok r) → ∀ g ∈ r.instrs, WF g.cfg

theorem discover_graphsWF {oracle : Nat → Option (Res BTR)} {manual : List ManualEdge} {fnAddr fuel : Nat}
    {tb : List (Nat × BTR)} (ho : OracleWF oracle) (h : discover oracle manual fnAddr fuel = .ok tb) : GraphsWF tb := by
  intro p hp g hg
  rcases discoverLoop_prov fuel _ [] tb h p hp with h1 | ⟨_, h1⟩ | h1
  · cases h1
  · rw [h1] at hg; exact emptyResult_wf _ g hg
  · exact ho _ _ h1 g hg

end Falcon.C06Asm
