/-
  FalconProofs.C06.GeoLoops — the geometry invariant through the loops of the assembly, together with
  completeness: every requested transfer (a, b, guard) has its boundary edge exit(a) → entry(b) in the end.
-/
import FalconProofs.C06.Geo

namespace Falcon.C06Asm
open Falcon Falcon.CfgEdit Falcon.Assemble Falcon.C15

/-- the requested transfer `q` has an edge from the exit logged for `q.1` to the entry logged for `q.2.1` -/
def Done (st : AsmState) (q : Nat × Nat × Option Expr) : Prop :=
  ∃ pa pb c', st.instrIdx.lookup q.1 = some pa ∧ st.instrIdx.lookup q.2.1 = some pb ∧
    (⟨pa.2, pb.1, c'⟩ : Edge) ∈ st.cfg.edges

/-- `st1` extends `st`: logged addresses keep their entry, edges are kept -/
structure Ext (st st1 : AsmState) : Prop where
  look : ∀ a v, st.instrIdx.lookup a = some v → st1.instrIdx.lookup a = some v
  edges : ∀ e, e ∈ st.cfg.edges → e ∈ st1.cfg.edges

theorem Ext.refl (st : AsmState) : Ext st st := ⟨fun _ _ h => h, fun _ h => h⟩

theorem Ext.trans {a b c : AsmState} (h1 : Ext a b) (h2 : Ext b c) : Ext a c :=
  ⟨fun x v h => h2.look x v (h1.look x v h), fun e h => h2.edges e (h1.edges e h)⟩

theorem Done.mono {st st1 : AsmState} {q : Nat × Nat × Option Expr} (h : Done st q) (e : Ext st st1) : Done st1 q := by
  obtain ⟨pa, pb, c', h1, h2, h3⟩ := h
  exact ⟨pa, pb, c', e.look _ _ h1, e.look _ _ h2, e.edges _ h3⟩

theorem placeInstr_ext {st st1 : AsmState} {g : Function} {en ex : Nat} (hp : placeInstr st g = .ok (st1, en, ex))
    (hgw : WF g.cfg) : Ext st st1 := by
  refine ⟨fun a v hv => placeInstr_stable hp hv, ?_⟩
  obtain ⟨_, _, hcase⟩ := placeInstr_spec hp
  rcases hcase with ⟨_, rfl⟩ | ⟨_, _, hins⟩
  · exact fun _ h => h
  · obtain ⟨f, _, fedges, _⟩ := insert_view hgw hins
    exact fun e he => (fedges e).mpr (Or.inl he)

theorem link_ext {st : AsmState} {c : Cfg} {h t : Nat} {cond : Option Expr}
    (hl : linkIfAbsent st.cfg h t cond = .ok c) : Ext st { st with cfg := c } :=
  ⟨fun _ _ hv => hv, fun e he => ((linkIfAbsent_edges hl).1 e).mpr (Or.inl he)⟩

theorem pairs_cons_cons (a b : Nat) (t : List Nat) : pairs (a :: b :: t) = (a, b) :: pairs (b :: t) := rfl

/-- the loop over the instructions of one translation result.  `prevA` = the address of the previous instruction
    of the result (whose exit is `prev`). -/
theorem blockLoop_geo {tb : List (Nat × BTR)} {manual : List ManualEdge} (hc : Coherent tb manual)
    (gs : List Function) {st st1 : AsmState} {ren : Nat → Nat → Nat} {be bx be1 bx1 : Nat} {prev : Option Nat}
    (prevA : Option Nat) (G : Geo tb manual st ren)
    (hgs : ∀ g ∈ gs, g ∈ allInstrs tb ∧ WF g.cfg)
    (hprev : (prevA = none ∧ prev = none) ∨
      ∃ a pa, prevA = some a ∧ st.instrIdx.lookup a = some pa ∧ prev = some pa.2)
    (hreq : ∀ q ∈ pairs (prevA.toList ++ gs.map (·.addr)), (q.1, q.2, (none : Option Expr)) ∈ reqList tb manual)
    (h : blockLoop st be bx prev gs = .ok (st1, be1, bx1)) :
    ∃ ren1, Geo tb manual st1 ren1 ∧ Ext st st1 ∧
      ∀ q ∈ pairs (prevA.toList ++ gs.map (·.addr)), Done st1 (q.1, q.2, none) := by
  induction gs generalizing st ren be bx prev prevA with
  | nil =>
    simp only [blockLoop, Res.ok.injEq, Prod.mk.injEq] at h
    obtain ⟨rfl, _, _⟩ := h
    refine ⟨ren, G, Ext.refl _, ?_⟩
    intro q hq
    cases prevA <;> simp [pairs] at hq
  | cons g gs ih =>
    obtain ⟨hgm, hgw⟩ := hgs g List.mem_cons_self
    have hgs' : ∀ x ∈ gs, x ∈ allInstrs tb ∧ WF x.cfg := fun x hx => hgs x (List.mem_cons_of_mem _ hx)
    unfold blockLoop at h
    split at h
    · rename_i st2 en ex hp
      obtain ⟨ren2, G2⟩ := geo_place hc G hp hgm hgw
      have e2 := placeInstr_ext hp hgw
      obtain ⟨_, hlook2, _⟩ := placeInstr_spec hp
      rcases hprev with ⟨rfl, rfl⟩ | ⟨a0, pa, rfl, hla, rfl⟩
      · -- first instruction of the result: no link
        dsimp only at h
        have hreq' : ∀ q ∈ pairs ((some g.addr).toList ++ gs.map (·.addr)),
            (q.1, q.2, (none : Option Expr)) ∈ reqList tb manual := by
          intro q hq; exact hreq q (by simpa using hq)
        obtain ⟨ren1, G1, e1, hd⟩ := ih (prevA := some g.addr) G2 hgs'
          (Or.inr ⟨g.addr, (en, ex), rfl, hlook2, rfl⟩) hreq' h
        refine ⟨ren1, G1, e2.trans e1, ?_⟩
        intro q hq; exact hd q (by simpa using hq)
      · dsimp only at h
        split at h
        · rename_i c hl
          have hla2 := e2.look _ _ hla
          have hq0 : (a0, g.addr, (none : Option Expr)) ∈ reqList tb manual := by
            have := hreq (a0, g.addr) (by simp [pairs])
            exact this
          have G3 : Geo tb manual { st2 with cfg := c } ren2 :=
            geo_link G2 hl ⟨a0, g.addr, pa, (en, ex), hq0, lookup_some_mem hla2, lookup_some_mem hlook2, rfl, rfl⟩
          have e3 := link_ext hl
          obtain ⟨c', hc'⟩ := (linkIfAbsent_edges hl).2
          have hd0 : Done { st2 with cfg := c } (a0, g.addr, none) := ⟨pa, (en, ex), c', hla2, hlook2, hc'⟩
          have hreq' : ∀ q ∈ pairs ((some g.addr).toList ++ gs.map (·.addr)),
              (q.1, q.2, (none : Option Expr)) ∈ reqList tb manual := by
            intro q hq
            apply hreq q
            simp only [Option.toList_some, List.map_cons, List.cons_append, List.nil_append] at hq ⊢
            rw [pairs_cons_cons]; exact List.mem_cons_of_mem _ hq
          obtain ⟨ren1, G1, e1, hd⟩ := ih (st := { st2 with cfg := c }) (prevA := some g.addr) G3 hgs'
            (Or.inr ⟨g.addr, (en, ex), rfl, hlook2, rfl⟩) hreq' h
          refine ⟨ren1, G1, (e2.trans e3).trans e1, ?_⟩
          intro q hq
          simp only [Option.toList_some, List.map_cons, List.cons_append, List.nil_append] at hq
          rw [pairs_cons_cons] at hq
          rcases List.mem_cons.mp hq with rfl | hq
          · exact hd0.mono e1
          · exact hd q (by simpa using hq)
        · cases h
        · cases h
    · cases h
    · cases h

/-- the last instruction of a non-empty result decides `block_exit`: the exit logged for its address -/
theorem blockLoop_last {st st1 : AsmState} {be bx be1 bx1 : Nat} {prev : Option Nat} (gs : List Function)
    (hne : gs ≠ []) (h : blockLoop st be bx prev gs = .ok (st1, be1, bx1)) :
    ∃ g en, gs.getLast? = some g ∧ st1.instrIdx.lookup g.addr = some (en, bx1) := by
  induction gs generalizing st be bx prev with
  | nil => exact absurd rfl hne
  | cons g gs ih =>
    unfold blockLoop at h
    split at h
    · rename_i st2 en ex hp
      obtain ⟨_, hlook, _⟩ := placeInstr_spec hp
      cases gs with
      | nil =>
        -- `g` is the last one
        cases prev with
        | none =>
          dsimp only at h
          simp only [blockLoop, Res.ok.injEq, Prod.mk.injEq] at h
          obtain ⟨rfl, _, rfl⟩ := h
          exact ⟨g, en, rfl, hlook⟩
        | some p =>
          dsimp only at h
          split at h
          · simp only [blockLoop, Res.ok.injEq, Prod.mk.injEq] at h
            obtain ⟨rfl, _, rfl⟩ := h
            exact ⟨g, en, rfl, hlook⟩
          · cases h
          · cases h
      | cons g2 gs2 =>
        have hne' : g2 :: gs2 ≠ [] := by simp
        cases prev with
        | none =>
          dsimp only at h
          obtain ⟨g', en', h1, h2⟩ := ih hne' h
          exact ⟨g', en', by simpa using h1, h2⟩
        | some p =>
          dsimp only at h
          split at h
          · obtain ⟨g', en', h1, h2⟩ := ih hne' h
            exact ⟨g', en', by simpa using h1, h2⟩
          · cases h
          · cases h
    · cases h
    · cases h

/-- what `block_indices` holds: for a listed address, the entry of the first and the exit of the last instruction
    of the result at that address -/
def BI (tb : List (Nat × BTR)) (st : AsmState) : Prop :=
  ∀ k v, st.blockIdx.lookup k = some v →
    ∃ R a b pa pb, tb.lookup k = some R ∧ firstAddr R = some a ∧ lastAddr R = some b ∧
      st.instrIdx.lookup a = some pa ∧ st.instrIdx.lookup b = some pb ∧ v = (pa.1, pb.2)

theorem BI.mono {tb : List (Nat × BTR)} {st st1 : AsmState} (h : BI tb st) (hb : st1.blockIdx = st.blockIdx)
    (hl : ∀ a v, st.instrIdx.lookup a = some v → st1.instrIdx.lookup a = some v) : BI tb st1 := by
  intro k v hk
  rw [hb] at hk
  obtain ⟨R, a, b, pa, pb, h1, h2, h3, h4, h5, h6⟩ := h k v hk
  exact ⟨R, a, b, pa, pb, h1, h2, h3, hl _ _ h4, hl _ _ h5, h6⟩

theorem lookup_of_mem_nodup {tb : List (Nat × BTR)} (hn : (tb.map (·.1)).Nodup) {k : Nat} {R : BTR}
    (h : (k, R) ∈ tb) : tb.lookup k = some R := by
  induction tb with
  | nil => cases h
  | cons p rest ih =>
    obtain ⟨k0, R0⟩ := p
    rw [List.map_cons, List.nodup_cons] at hn
    rw [List.lookup_cons]
    rcases List.mem_cons.mp h with heq | h
    · simp only [Prod.mk.injEq] at heq
      obtain ⟨rfl, rfl⟩ := heq; simp
    · have hne : k ≠ k0 := fun he => hn.1 (he ▸ List.mem_map.mpr ⟨(k, R), h, rfl⟩)
      have : (k == k0) = false := by simpa using hne
      simp only [this]; exact ih hn.2 h

theorem resultsLoop_geo {tb : List (Nat × BTR)} {manual : List ManualEdge} (hc : Coherent tb manual)
    (hg : GraphsWF tb) (rest : List (Nat × BTR)) (hsub : ∀ p ∈ rest, p ∈ tb)
    {st st1 : AsmState} {ren : Nat → Nat → Nat} (G : Geo tb manual st ren) (hbi : BI tb st)
    (h : resultsLoop st rest = .ok st1) :
    ∃ ren1, Geo tb manual st1 ren1 ∧ Ext st st1 ∧ BI tb st1 ∧
      ∀ p ∈ rest, ∀ q ∈ pairs (p.2.instrs.map (·.addr)), Done st1 (q.1, q.2, none) := by
  induction rest generalizing st ren with
  | nil =>
    simp only [resultsLoop, Res.ok.injEq] at h; subst h
    exact ⟨ren, G, Ext.refl _, hbi, fun p hp => by cases hp⟩
  | cons p rest ih =>
    obtain ⟨k, R⟩ := p
    have hkR : (k, R) ∈ tb := hsub _ List.mem_cons_self
    unfold resultsLoop at h
    split at h
    · rename_i st2 be bx hb
      have hgs : ∀ g ∈ R.instrs, g ∈ allInstrs tb ∧ WF g.cfg := by
        intro g hgm
        exact ⟨List.mem_flatMap.mpr ⟨(k, R), hkR, hgm⟩, hg (k, R) hkR g hgm⟩
      have hreq : ∀ q ∈ pairs ((none : Option Nat).toList ++ R.instrs.map (·.addr)),
          (q.1, q.2, (none : Option Expr)) ∈ reqList tb manual := by
        intro q hq
        simp only [Option.toList_none, List.nil_append] at hq
        unfold reqList reqLinks
        apply List.mem_append_left; apply List.mem_append_left
        exact List.mem_flatMap.mpr ⟨(k, R), hkR, List.mem_map.mpr ⟨q, hq, rfl⟩⟩
      obtain ⟨ren2, G2, e2, hd2⟩ := blockLoop_geo hc R.instrs none G hgs (Or.inl ⟨rfl, rfl⟩) hreq hb
      obtain ⟨hbi2, hst2⟩ := blockLoop_stable R.instrs hb
      -- the new `block_indices` entry
      have hfirst := hc.first (k, R) hkR
      obtain ⟨g0, gs0, hi⟩ : ∃ g0 gs0, R.instrs = g0 :: gs0 := by
        cases hri : R.instrs with
        | nil => simp [firstAddr, hri] at hfirst
        | cons g0 gs0 => exact ⟨g0, gs0, rfl⟩
      have hne : R.instrs ≠ [] := by rw [hi]; simp
      obtain ⟨exf, hexf⟩ : ∃ ex, st2.instrIdx.lookup g0.addr = some (be, ex) := by
        rw [hi] at hb; exact blockLoop_first hb
      obtain ⟨gl, enl, hgl, hlast⟩ := blockLoop_last R.instrs hne hb
      have hbi3 : BI tb { st2 with blockIdx := (k, (be, bx)) :: st2.blockIdx } := by
        intro k' v hk'
        rw [List.lookup_cons] at hk'
        split at hk'
        · rename_i heq
          have : k' = k := by simpa using heq
          subst this
          cases hk'
          refine ⟨R, g0.addr, gl.addr, (be, exf), (enl, bx), lookup_of_mem_nodup hc.keys hkR, ?_, ?_, hexf, hlast, rfl⟩
          · simp [firstAddr, hi]
          · simp [lastAddr, hgl]
        · rw [hbi2] at hk'
          obtain ⟨R', a, b, pa, pb, h1, h2, h3, h4, h5, h6⟩ := hbi k' v hk'
          exact ⟨R', a, b, pa, pb, h1, h2, h3, hst2 _ _ h4, hst2 _ _ h5, h6⟩
      have G3 : Geo tb manual { st2 with blockIdx := (k, (be, bx)) :: st2.blockIdx } ren2 :=
        ⟨G2.wf, G2.nodup, G2.log, G2.blocks, G2.inj, G2.edges, G2.internal⟩
      have e3 : Ext st2 { st2 with blockIdx := (k, (be, bx)) :: st2.blockIdx } := ⟨fun _ _ h => h, fun _ h => h⟩
      obtain ⟨ren1, G1, e1, hbi1, hd1⟩ := ih (fun q hq => hsub q (List.mem_cons_of_mem _ hq)) G3 hbi3 h
      refine ⟨ren1, G1, (e2.trans e3).trans e1, hbi1, ?_⟩
      intro p hp q hq
      rcases List.mem_cons.mp hp with rfl | hp
      · have := hd2 q (by simpa using hq)
        exact (this.mono e3).mono e1
      · exact hd1 p hp q hq
    · cases h
    · cases h

/-- one requested edge between two results, resolved through `block_indices` -/
theorem geo_link_bi {tb : List (Nat × BTR)} {manual : List ManualEdge} {st : AsmState} {ren : Nat → Nat → Nat}
    (G : Geo tb manual st ren) {c : Cfg} {eh et : Nat} {cond : Option Expr} {a b : Nat} {pa pb : Nat × Nat}
    (hq : (a, b, cond) ∈ reqList tb manual) (ha : st.instrIdx.lookup a = some pa) (hb : st.instrIdx.lookup b = some pb)
    (heh : eh = pa.2) (het : et = pb.1) (hl : linkIfAbsent st.cfg eh et cond = .ok c) :
    Geo tb manual { st with cfg := c } ren ∧ Ext st { st with cfg := c } ∧ Done { st with cfg := c } (a, b, cond) := by
  refine ⟨geo_link G hl ⟨a, b, pa, pb, hq, lookup_some_mem ha, lookup_some_mem hb, heh, het⟩, link_ext hl, ?_⟩
  obtain ⟨c', hc'⟩ := (linkIfAbsent_edges hl).2
  exact ⟨pa, pb, c', ha, hb, by rw [← heh, ← het]; exact hc'⟩

theorem manualLoop_geo {tb : List (Nat × BTR)} {manual : List ManualEdge} (ms : List ManualEdge)
    (hsub : ∀ m ∈ ms, m ∈ manual) {st st1 : AsmState} {ren : Nat → Nat → Nat} (G : Geo tb manual st ren)
    (hbi : BI tb st) (h : manualLoop st ms = .ok st1) :
    Geo tb manual st1 ren ∧ Ext st st1 ∧ BI tb st1 ∧ ∀ q ∈ reqManual tb ms, Done st1 q := by
  induction ms generalizing st with
  | nil =>
    simp only [manualLoop, Res.ok.injEq] at h; subst h
    exact ⟨G, Ext.refl _, hbi, fun q hq => by simp [reqManual] at hq⟩
  | cons m ms ih =>
    unfold manualLoop at h
    split at h
    · rename_i x eh et y hh ht
      split at h
      · rename_i c hl
        obtain ⟨Rh, ah, bh, pah, pbh, h1, h2, h3, h4, h5, h6⟩ := hbi _ _ hh
        obtain ⟨Rt, at', bt, pat, pbt, t1, t2, t3, t4, t5, t6⟩ := hbi _ _ ht
        simp only [Prod.mk.injEq] at h6 t6
        have hqm : reqManual tb [m] = [(bh, at', m.cond)] := by
          simp [reqManual, h1, t1, h3, t2]
        have hq : (bh, at', m.cond) ∈ reqList tb manual := by
          unfold reqList
          apply List.mem_append_left; apply List.mem_append_right
          unfold reqManual
          refine List.mem_filterMap.mpr ⟨m, hsub m List.mem_cons_self, ?_⟩
          simp [h1, t1, h3, t2]
        obtain ⟨G2, e2, hd2⟩ := geo_link_bi G hq h5 t4 h6.2 t6.1 hl
        have hbi2 : BI tb { st with cfg := c } := hbi.mono rfl (fun _ _ hv => hv)
        obtain ⟨G1, e1, hbi1, hd1⟩ := ih (fun x hx => hsub x (List.mem_cons_of_mem _ hx)) G2 hbi2 h
        refine ⟨G1, e2.trans e1, hbi1, ?_⟩
        intro q hq'
        have : reqManual tb (m :: ms) = reqManual tb [m] ++ reqManual tb ms := by
          unfold reqManual
          rw [← List.filterMap_append]; rfl
        rw [this, hqm] at hq'
        rcases List.mem_append.mp hq' with hq' | hq'
        · simp only [List.mem_singleton] at hq'; subst hq'; exact hd2.mono e1
        · exact hd1 q hq'
      · cases h
      · cases h
    · cases h

theorem succLoop_geo {tb : List (Nat × BTR)} {manual : List ManualEdge} (hc : Coherent tb manual)
    {k : Nat} {R : BTR} (hkR : (k, R) ∈ tb)
    (ss : List (Nat × Option Expr)) (hsub : ∀ s ∈ ss, s ∈ R.succs) {bx bl : Nat} {pbl : Nat × Nat}
    (hlast : lastAddr R = some bl)
    {st st1 : AsmState} {ren : Nat → Nat → Nat} (G : Geo tb manual st ren) (hbi : BI tb st)
    (hpl : st.instrIdx.lookup bl = some pbl) (hbx : bx = pbl.2)
    (h : succLoop bx st ss = .ok st1) :
    Geo tb manual st1 ren ∧ Ext st st1 ∧ BI tb st1 ∧
      ∀ s ∈ ss, ∀ t b, tb.lookup s.1 = some t → firstAddr t = some b → Done st1 (bl, b, s.2) := by
  induction ss generalizing st with
  | nil =>
    simp only [succLoop, Res.ok.injEq] at h; subst h
    exact ⟨G, Ext.refl _, hbi, fun s hs => by cases hs⟩
  | cons s ss ih =>
    obtain ⟨sa, sc⟩ := s
    unfold succLoop at h
    split at h
    · rename_i be y hs
      split at h
      · rename_i c hl
        obtain ⟨Rt, at', bt, pat, pbt, t1, t2, t3, t4, t5, t6⟩ := hbi _ _ hs
        simp only [Prod.mk.injEq] at t6
        have hq : (bl, at', sc) ∈ reqList tb manual := by
          unfold reqList
          apply List.mem_append_right
          unfold reqSuccs
          refine List.mem_flatMap.mpr ⟨(k, R), hkR, List.mem_filterMap.mpr ⟨(sa, sc), hsub _ List.mem_cons_self, ?_⟩⟩
          simp [t1, hlast, t2]
        -- under coherence an existing edge between the two blocks already carries this guard: nothing is merged
        have hl : linkIfAbsent st.cfg bx be sc = .ok c := by
          apply linkOrMerge_as_linkIfAbsent _ hl
          intro e he hh ht
          exact geo_boundary_cond hc G (lookup_some_mem hpl) (lookup_some_mem t4) hq he (by rw [hh, hbx]) (by rw [ht, t6.1])
        obtain ⟨G2, e2, hd2⟩ := geo_link_bi G hq hpl t4 hbx t6.1 hl
        have hbi2 : BI tb { st with cfg := c } := hbi.mono rfl (fun _ _ hv => hv)
        obtain ⟨G1, e1, hbi1, hd1⟩ := ih (fun x hx => hsub x (List.mem_cons_of_mem _ hx)) G2 hbi2 hpl h
        refine ⟨G1, e2.trans e1, hbi1, ?_⟩
        intro s hs' t b ht hb
        rcases List.mem_cons.mp hs' with rfl | hs'
        · simp only at ht
          rw [t1] at ht; cases ht
          rw [t2] at hb; cases hb
          exact hd2.mono e1
        · exact hd1 s hs' t b ht hb
      · cases h
      · cases h
    · cases h

theorem succsLoop_geo {tb : List (Nat × BTR)} {manual : List ManualEdge} (hc : Coherent tb manual)
    (rest : List (Nat × BTR)) (hsub : ∀ p ∈ rest, p ∈ tb) {st st1 : AsmState} {ren : Nat → Nat → Nat}
    (G : Geo tb manual st ren) (hbi : BI tb st) (h : succsLoop st rest = .ok st1) :
    Geo tb manual st1 ren ∧ Ext st st1 ∧ BI tb st1 ∧
      ∀ p ∈ rest, ∀ s ∈ p.2.succs, ∀ t a b, tb.lookup s.1 = some t → lastAddr p.2 = some a → firstAddr t = some b →
        Done st1 (a, b, s.2) := by
  induction rest generalizing st with
  | nil =>
    simp only [succsLoop, Res.ok.injEq] at h; subst h
    exact ⟨G, Ext.refl _, hbi, fun p hp => by cases hp⟩
  | cons p rest ih =>
    obtain ⟨k, R⟩ := p
    have hkR : (k, R) ∈ tb := hsub _ List.mem_cons_self
    unfold succsLoop at h
    split at h
    · rename_i x bx hk
      split at h
      · rename_i st2 hs
        obtain ⟨R', a, b, pa, pb, h1, h2, h3, h4, h5, h6⟩ := hbi _ _ hk
        have : R' = R := by
          have := lookup_of_mem_nodup hc.keys hkR
          rw [this] at h1; exact (Option.some.inj h1).symm
        subst this
        simp only [Prod.mk.injEq] at h6
        obtain ⟨G2, e2, hbi2, hd2⟩ := succLoop_geo hc hkR R'.succs (fun _ h => h) h3 G hbi h5 h6.2 hs
        obtain ⟨G1, e1, hbi1, hd1⟩ := ih (fun q hq => hsub q (List.mem_cons_of_mem _ hq)) G2 hbi2 h
        refine ⟨G1, e2.trans e1, hbi1, ?_⟩
        intro p hp s hs' t a' b' ht ha hb
        rcases List.mem_cons.mp hp with rfl | hp
        · simp only at ha hs'
          rw [h3] at ha; cases ha
          exact (hd2 s hs' t b' ht hb).mono e1
        · exact hd1 p hp s hs' t a' b' ht ha hb
      · cases h
      · cases h
    · cases h

/-- **the assembled graph** (before `set_entry` and `merge`): its geometry, and every requested transfer has its edge -/
theorem assembleCore_geo {tb : List (Nat × BTR)} {manual : List ManualEdge} (hc : Coherent tb manual)
    (hg : GraphsWF tb) {st : AsmState} (h : assembleCore tb manual = .ok st) :
    ∃ ren, Geo tb manual st ren ∧ BI tb st ∧ ∀ q ∈ reqList tb manual, Done st q := by
  obtain ⟨st1, st2, h1, h2, h3⟩ := assembleCore_ok h
  have bi0 : BI tb ({} : AsmState) := fun k v hk => by simp at hk
  obtain ⟨ren, G1, _, hbi1, hd1⟩ := resultsLoop_geo hc hg tb (fun _ h => h) (geo_empty tb manual (fun _ x => x)) bi0 h1
  obtain ⟨G2, e2, hbi2, hd2⟩ := manualLoop_geo manual (fun _ h => h) G1 hbi1 h2
  obtain ⟨G3, e3, hbi3, hd3⟩ := succsLoop_geo hc tb (fun _ h => h) G2 hbi2 h3
  refine ⟨ren, G3, hbi3, ?_⟩
  intro q hq
  unfold reqList at hq
  rcases List.mem_append.mp hq with hq | hq
  · rcases List.mem_append.mp hq with hq | hq
    · unfold reqLinks at hq
      obtain ⟨p, hp, hq⟩ := List.mem_flatMap.mp hq
      obtain ⟨q0, hq0, rfl⟩ := List.mem_map.mp hq
      exact ((hd1 p hp q0 hq0).mono e2).mono e3
    · exact (hd2 q hq).mono e3
  · unfold reqSuccs at hq
    obtain ⟨p, hp, hq⟩ := List.mem_flatMap.mp hq
    obtain ⟨s, hs, hq⟩ := List.mem_filterMap.mp hq
    cases ht : tb.lookup s.1 with
    | none => simp [ht] at hq
    | some t =>
      cases hla : lastAddr p.2 with
      | none => simp [ht, hla] at hq
      | some a =>
        cases hfa : firstAddr t with
        | none => simp [ht, hla, hfa] at hq
        | some b =>
          simp only [ht, hla, hfa, Option.some.injEq] at hq
          subst hq
          exact hd3 p hp s hs t a b ht hla hfa

end Falcon.C06Asm
