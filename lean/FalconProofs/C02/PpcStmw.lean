/-
  FalconProofs.C02.PpcStmw — PowerPC (A): stmw stores exactly the registers rs … r31, one word each, at consecutive
  addresses (the number of stores is pinned for every rs: one word too many or too few contradicts the theorem).
-/
import FalconProofs.C02.PpcMem

namespace Falcon.Isa.Ppc
open Falcon Falcon.Sem Falcon.Const
open Falcon.Isa.Mips (g1 tempName c32 c1 typed_bin value_bin32 typed_c32)

/-- the interpreter's memory after the stores of registers `32-n … 31` at word offsets `k, k+1, …` -/
def specRec (s : St) (ea : Word) : Nat → Nat → ByteMem → ByteMem
  | 0, _, m => m
  | n + 1, k, m => specRec s ea n (k + 1) (wrWord m (ea + BitVec.ofNat 32 (4 * k)) (s.gpr (BitVec.ofNat 5 (32 - (n + 1)))))

theorem specRec_foldl (s : St) (rs : Reg) (ea : Word) : ∀ (n k : Nat) (m : ByteMem), n + rs.toNat + k = 32 →
    specRec s ea n k m =
      (List.range' k n).foldl (fun m k => wrWord m (ea + BitVec.ofNat 32 (4 * k)) (s.gpr (rs + BitVec.ofNat 5 k))) m
  | 0, _, _, _ => rfl
  | n + 1, k, m, h => by
    have hr : BitVec.ofNat 5 (32 - (n + 1)) = rs + BitVec.ofNat 5 k := by
      rw [show 32 - (n + 1) = rs.toNat + k by omega, BitVec.ofNat_add]
      simp
    simp only [specRec, List.range'_succ, List.foldl_cons, hr]
    exact specRec_foldl s rs ea n (k + 1) _ (by omega)

theorem stmwMem_eq (s : St) (rs : Reg) (ea : Word) : stmwMem s rs ea = specRec s ea (32 - rs.toNat) 0 s.mem := by
  rw [specRec_foldl s rs ea _ 0 _ (by have := rs.isLt; omega), stmwMem, List.range_eq_range']

theorem addr_eq (g : Word) (d : BitVec 16) (k : Nat) :
    BitVec.ofNat 32 ((sextNat d + 4 * k) % 2 ^ 32) + g = g + sext16 d + BitVec.ofNat 32 (4 * k) := by
  apply BitVec.eq_of_toNat_eq
  simp only [BitVec.toNat_add, BitVec.toNat_ofNat, sextNat, sext16]
  omega

/-- the stores of `stmwOps`, from any memory, leave the scalars alone and write the interpreter's words -/
theorem stmw_run {σ₀ : State} (hσ₀ : StateOK σ₀) (ra : Reg) (d : BitVec 16) :
    ∀ (n k : Nat) (m : ByteMem), n ≤ 32 →
      ((absState σ₀).gpr ra + sext16 d).toNat + 4 * (k + n) ≤ 2 ^ 32 →
      execAll { σ₀ with mem := m } (stmwOps ra (sextNat d) n k) =
        some { σ₀ with mem := specRec (absState σ₀) ((absState σ₀).gpr ra + sext16 d) n k m }
  | 0, _, _, _, _ => rfl
  | n + 1, k, m, hn, hw => by
    have hσ := stateOK_mem hσ₀ m
    have habs : absState { σ₀ with mem := m } = { absState σ₀ with mem := m } := rfl
    have hlt := ((absState σ₀).gpr ra + sext16 d).isLt
    have h4k : (BitVec.ofNat 32 (4 * k)).toNat = 4 * k := by
      simp only [BitVec.toNat_ofNat]; omega
    have hea : ((absState σ₀).gpr ra + sext16 d + BitVec.ofNat 32 (4 * k)).toNat + 3 < 2 ^ 32 := by
      rw [BitVec.toNat_add, h4k]; omega
    have tc : TypedE { σ₀ with mem := m } (c32 ((sextNat d + 4 * k) % 2 ^ 32)) := typed_c32 _ (Nat.mod_lt _ (by decide))
    have vc : value { σ₀ with mem := m } (c32 ((sextNat d + 4 * k) % 2 ^ 32)) =
        .ok (ofBV (BitVec.ofNat 32 ((sextNat d + 4 * k) % 2 ^ 32))) := by
      rw [Mips.value_c32, Mips.c32_eq_ofBV _ (Nat.mod_lt _ (by decide))]
    have vi : value { σ₀ with mem := m } (.bin .add (c32 ((sextNat d + 4 * k) % 2 ^ 32)) (gx ra)) =
        .ok (ofBV ((absState σ₀).gpr ra + sext16 d + BitVec.ofNat 32 (4 * k))) := by
      rw [value_bin32 vc (value_gx hσ ra) rfl, habs, addr_eq]
    have x1 := exec_store' (.bin .add (c32 ((sextNat d + 4 * k) % 2 ^ 32)) (gx ra)) (gx (BitVec.ofNat 5 (32 - (n + 1)))) _ _
      (typed_bin tc (typed_gx hσ ra) rfl) rfl vi (typed_gx hσ _) rfl (value_gx hσ _)
    rw [store_mem _ hσ _ _ hea] at x1
    simp only [stmwOps]
    rw [execAll_cons x1]
    have ih := stmw_run hσ₀ ra d n (k + 1)
      (wrWord m ((absState σ₀).gpr ra + sext16 d + BitVec.ofNat 32 (4 * k)) ((absState σ₀).gpr (BitVec.ofNat 5 (32 - (n + 1)))))
      (by omega) (by omega)
    simp only [specRec]
    exact ih

theorem stmwOps_length (ra : Reg) (d : Nat) : ∀ n k, (stmwOps ra d n k).length = n
  | 0, _ => rfl
  | n + 1, k => by simp [stmwOps, stmwOps_length ra d n (k + 1)]

theorem ok_stmw (rs ra : Reg) (d : BitVec 16) (a : Nat) (f : Function) (σ : State) (pc : Word) (s' : St) (pc' : Word)
    (hl : liftI (.stmw rs ra d) a = some f) (hσ : StateOK σ) (hx : exec (.stmw rs ra d) pc (absState σ) = .next s' pc')
    (hw : noWrap (.stmw rs ra d) (absState σ)) :
    f.cfg.entry = some 0 ∧ ∃ σ', runGraph f 4096 ⟨0, 0, σ⟩ = .done σ' ∧ StateOK σ' ∧ Agree noSkip (absState σ') s' ∧ pc' = pc + 4 := by
  simp only [liftI] at hl
  by_cases h0 : ra = 0
  · rw [if_pos h0] at hl; cases hl
  · rw [if_neg h0] at hl
    injection hl with hl; subst hl
    simp only [exec, r0_eq _ _ h0, stmwMem_eq] at hx
    simp only [noWrap, r0_eq _ _ h0] at hw
    obtain ⟨h1, h2⟩ := next_inj hx; subst h1 h2
    have hrun := stmw_run hσ ra d (32 - rs.toNat) 0 σ.mem (by omega) (by omega)
    exact finish a _ (by rw [stmwOps_length]; omega) hrun (stateOK_mem hσ _) (Agree.of_eq rfl _) pc

end Falcon.Isa.Ppc
