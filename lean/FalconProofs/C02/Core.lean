/-
  FalconProofs.C02.Core — the abstraction `absState` against `State.set`, the value of the mirror's operand
  expressions, and the execution of the graph shapes the mirror builds (`g1`, `diamond`).
-/
import FalconProofs.C02.Names
import FalconProofs.C07.Exec
import FalconProofs.C04.Basic

namespace Falcon.Isa.Mips
open Falcon Falcon.Sem Falcon.Const

/-- an IL state that holds a MIPS register file: `$at … $ra`, `$hi`, `$lo` are defined, 32 bits wide, reduced -/
structure StateOK (σ : State) : Prop where
  gpr : ∀ i : Reg, i ≠ 0 → ∃ v : Word, σ.get (regName i) = some (ofBV v)
  hi : ∃ v : Word, σ.get "$hi" = some (ofBV v)
  lo : ∃ v : Word, σ.get "$lo" = some (ofBV v)

/-- two machine states agree (on HI/LO only when they are not UNPREDICTABLE) -/
structure Eqv (u : Bool) (a b : St) : Prop where
  r : ∀ i, a.r i = b.r i
  hi : u = false → a.hi = b.hi
  lo : u = false → a.lo = b.lo
  mem : ∀ x, a.mem x = b.mem x
  be : a.bigEndian = b.bigEndian

theorem Eqv.refl (u : Bool) (a : St) : Eqv u a a := ⟨fun _ => rfl, fun _ => rfl, fun _ => rfl, fun _ => rfl, rfl⟩

theorem ofBV_val32 (v : Word) : BitVec.ofNat 32 (ofBV v).val = v := by
  simp [ofBV]

theorem val32_of_get {σ : State} {n : String} {v : Word} (h : σ.get n = some (ofBV v)) : val32 σ n = v := by
  simp [val32, h, ofBV]

theorem absState_r {σ : State} (hσ : StateOK σ) (i : Reg) :
    (if i = 0 then some (ofBV (0 : Word)) else σ.get (regName i)) = some (ofBV ((absState σ).r i)) := by
  by_cases h : i = 0
  · simp [h, St.r]
  · obtain ⟨v, hv⟩ := hσ.gpr i h
    rw [if_neg h, hv]
    simp only [St.r, if_neg h, absState, val32_of_get hv]

/-! ### `set` against the abstraction -/

theorem val32_set_same (σ : State) (n : String) (v : Word) : val32 (σ.set n (ofBV v)) n = v := by
  simp [val32, C07.get_set_self, ofBV]

theorem val32_set_ne (σ : State) {n m : String} (c : Const) (h : m ≠ n) : val32 (σ.set n c) m = val32 σ m := by
  simp [val32, C07.get_set_ne σ c h]

@[simp] theorem w_hi (s : St) (i : Reg) (v : Word) : (s.w i v).hi = s.hi := by unfold St.w; split <;> rfl
@[simp] theorem w_lo (s : St) (i : Reg) (v : Word) : (s.w i v).lo = s.lo := by unfold St.w; split <;> rfl
@[simp] theorem w_mem (s : St) (i : Reg) (v : Word) : (s.w i v).mem = s.mem := by unfold St.w; split <;> rfl
@[simp] theorem w_be (s : St) (i : Reg) (v : Word) : (s.w i v).bigEndian = s.bigEndian := by unfold St.w; split <;> rfl

/-- writing register `rd` in the IL state is `GPR[rd] ← v` (for `rd = 0` the scalar `$zero` is written, which the
    abstraction does not look at) -/
theorem absState_set_reg (σ : State) (rd : Reg) (v : Word) :
    Eqv false (absState (σ.set (regName rd) (ofBV v))) ((absState σ).w rd v) := by
  constructor
  · intro j
    by_cases hj : j = 0
    · subst hj; simp [St.r]
    · by_cases hd : rd = 0
      · subst hd
        simp only [St.r, St.w, hj, if_false, if_true, absState]
        exact val32_set_ne σ _ (regName_ne hj)
      · simp only [St.r, St.w, hj, hd, if_false, absState]
        by_cases hjd : j = rd
        · subst hjd; simp [val32_set_same]
        · simp only [hjd, if_false]
          exact val32_set_ne σ _ (regName_ne hjd)
  · intro _
    rw [w_hi]; exact val32_set_ne σ _ (regName_ne_hi rd).symm
  · intro _
    rw [w_lo]; exact val32_set_ne σ _ (regName_ne_lo rd).symm
  · intro x
    rw [w_mem]; rfl
  · rw [w_be]; rfl

theorem stateOK_set_reg {σ : State} (hσ : StateOK σ) (rd : Reg) (v : Word) : StateOK (σ.set (regName rd) (ofBV v)) := by
  constructor
  · intro i hi
    by_cases h : i = rd
    · subst h; exact ⟨v, C07.get_set_self _ _ _⟩
    · obtain ⟨x, hx⟩ := hσ.gpr i hi
      exact ⟨x, by rw [C07.get_set_ne σ _ (regName_ne h)]; exact hx⟩
  · obtain ⟨x, hx⟩ := hσ.hi
    exact ⟨x, by rw [C07.get_set_ne σ _ (regName_ne_hi rd).symm]; exact hx⟩
  · obtain ⟨x, hx⟩ := hσ.lo
    exact ⟨x, by rw [C07.get_set_ne σ _ (regName_ne_lo rd).symm]; exact hx⟩

/-- a scalar that is not a register (a temporary, the branch latch) does not change the machine state -/
theorem absState_set_other (σ : State) (n : String) (c : Const) (hr : ∀ i : Reg, regName i ≠ n) (hh : "$hi" ≠ n) (hl : "$lo" ≠ n) :
    absState (σ.set n c) = absState σ := by
  simp only [absState, C07.set_mem, C07.set_endian]
  congr 1
  · funext i; exact val32_set_ne σ c (hr i)
  · exact val32_set_ne σ c hh
  · exact val32_set_ne σ c hl

theorem stateOK_set_other {σ : State} (hσ : StateOK σ) (n : String) (c : Const) (hr : ∀ i : Reg, regName i ≠ n)
    (hh : "$hi" ≠ n) (hl : "$lo" ≠ n) : StateOK (σ.set n c) := by
  constructor
  · intro i hi
    obtain ⟨x, hx⟩ := hσ.gpr i hi
    exact ⟨x, by rw [C07.get_set_ne σ _ (hr i)]; exact hx⟩
  · obtain ⟨x, hx⟩ := hσ.hi
    exact ⟨x, by rw [C07.get_set_ne σ _ hh]; exact hx⟩
  · obtain ⟨x, hx⟩ := hσ.lo
    exact ⟨x, by rw [C07.get_set_ne σ _ hl]; exact hx⟩

/-! ### the operand expressions -/

theorem constOK_ofBV32 (v : Word) : ConstOK (ofBV v) := ⟨v.isLt, Nat.le_of_ble_eq_true rfl, (by decide : (32:Nat) < 2 ^ 64)⟩

theorem typed_rx {σ : State} (hσ : StateOK σ) (i : Reg) : TypedE σ (rx i) := by
  unfold rx
  split
  · exact ⟨by decide, by decide, by decide⟩
  · rename_i h
    obtain ⟨v, hv⟩ := hσ.gpr i h
    refine ⟨Nat.le_of_ble_eq_true rfl, (by decide : (32:Nat) < 2 ^ 64), ?_⟩
    simp only [HoldsOK, rsc, hv]
    exact ⟨rfl, v.isLt⟩

theorem bits_rx (i : Reg) : (rx i).bits = 32 := by
  unfold rx; split <;> rfl

theorem value_rx {σ : State} (hσ : StateOK σ) (i : Reg) : value σ (rx i) = .ok (ofBV ((absState σ).r i)) := by
  have h := absState_r hσ i
  unfold rx
  by_cases hi : i = 0
  · simp only [hi, if_true] at h ⊢
    injection h with h
    simp only [c32, value]
    exact congrArg Res.ok h
  · simp only [hi, if_false] at h ⊢
    simp only [value, rsc, h]

theorem typed_c32 {σ : State} (v : Nat) (h : v < 2 ^ 32) : TypedE σ (c32 v) := ⟨h, Nat.le_of_ble_eq_true rfl, (by decide : (32:Nat) < 2 ^ 64)⟩

theorem value_c32 (σ : State) (v : Nat) : value σ (c32 v) = .ok ⟨32, v⟩ := rfl

theorem c32_eq_ofBV (v : Nat) (h : v < 2 ^ 32) : (⟨32, v⟩ : Const) = ofBV (BitVec.ofNat 32 v) := by
  simp [ofBV, Nat.mod_eq_of_lt h]

/-- value of a binary operator on two 32-bit operands -/
theorem value_bin32 {σ : State} {op : BinOp} {l r : Expr} {w : Nat} {x y : BitVec w} {c : Const}
    (hl : value σ l = .ok (ofBV x)) (hr : value σ r = .ok (ofBV y)) (hc : Spec.binBV op x y = some c) :
    value σ (.bin op l r) = .ok c := by
  simp only [value, hl, hr, Res.bind_ok]
  exact Spec.bin_ofBV_some hc

theorem typed_bin {σ : State} {op : BinOp} {l r : Expr} (hl : TypedE σ l) (hr : TypedE σ r) (hb : l.bits = r.bits) :
    TypedE σ (.bin op l r) := ⟨hl, hr, hb⟩

/-! ### running the graph shapes -/

theorem runGraph_instr {f : Function} {n bi pos : Nat} {σ σ' : State} {b : Block} {i : Falcon.Instr}
    (hb : f.block bi = some b) (hi : b.instrs[pos]? = some i) (hx : execute σ i.op = .ok (σ', .fallThrough)) :
    runGraph f (n + 1) ⟨bi, pos, σ⟩ = runGraph f n ⟨bi, pos + 1, σ'⟩ := by
  rw [runGraph]; simp only [hb, hi, hx]

theorem runGraph_branch {f : Function} {n bi pos : Nat} {σ σ' : State} {b : Block} {i : Falcon.Instr} {x : Nat}
    (hb : f.block bi = some b) (hi : b.instrs[pos]? = some i) (hx : execute σ i.op = .ok (σ', .branch x)) :
    runGraph f (n + 1) ⟨bi, pos, σ⟩ = .branch σ' x := by
  rw [runGraph]; simp only [hb, hi, hx]

theorem runGraph_stop {f : Function} {n bi pos : Nat} {σ : State} {b : Block} {i : Falcon.Instr} {e : Err}
    (hb : f.block bi = some b) (hi : b.instrs[pos]? = some i) (hx : execute σ i.op = .err e) :
    runGraph f (n + 1) ⟨bi, pos, σ⟩ = .stop σ (toString e) := by
  rw [runGraph]; simp only [hb, hi, hx]

theorem runGraph_done {f : Function} {n bi pos : Nat} {σ : State} {b : Block}
    (hb : f.block bi = some b) (hi : b.instrs[pos]? = none) (he : f.cfg.exit = some bi) :
    runGraph f (n + 1) ⟨bi, pos, σ⟩ = .done σ := by
  rw [runGraph]; simp only [hb, hi, he, if_true]

theorem runGraph_edge {f : Function} {n bi pos : Nat} {σ : State} {b : Block} (e : Edge)
    (hb : f.block bi = some b) (hi : b.instrs[pos]? = none) (he : f.cfg.exit ≠ some bi)
    (hp : pickEdge σ (f.cfg.edgesOut bi) = .ok (some e)) :
    runGraph f (n + 1) ⟨bi, pos, σ⟩ = runGraph f n ⟨e.tail, 0, σ⟩ := by
  rw [runGraph]; simp only [hb, hi, he, if_false, hp]

theorem block_g1 (a : Nat) (ops : List Op) : (g1 a ops).block 0 = some (mkBlock a 0 ops) := rfl
theorem exit_g1 (a : Nat) (ops : List Op) : (g1 a ops).cfg.exit = some 0 := rfl

/-- a one-block graph with one operation -/
theorem run_g1_one (a : Nat) (op : Op) (σ σ' : State) (n : Nat) (h : execute σ op = .ok (σ', .fallThrough)) :
    runGraph (g1 a [op]) (n + 2) ⟨0, 0, σ⟩ = .done σ' := by
  rw [runGraph_instr (block_g1 a [op]) (i := mkIns a 0 op) rfl h]
  exact runGraph_done (block_g1 a [op]) rfl rfl

theorem run_g1_two (a : Nat) (op₁ op₂ : Op) (σ σ₁ σ₂ : State) (n : Nat)
    (h₁ : execute σ op₁ = .ok (σ₁, .fallThrough)) (h₂ : execute σ₁ op₂ = .ok (σ₂, .fallThrough)) :
    runGraph (g1 a [op₁, op₂]) (n + 3) ⟨0, 0, σ⟩ = .done σ₂ := by
  rw [runGraph_instr (block_g1 a [op₁, op₂]) (i := mkIns a 0 op₁) rfl h₁]
  rw [runGraph_instr (block_g1 a [op₁, op₂]) (i := mkIns a 1 op₂) rfl h₂]
  exact runGraph_done (block_g1 a [op₁, op₂]) rfl rfl

/-- an indirect branch ends the run of its graph -/
theorem run_g1_branch (a : Nat) (t : Expr) (σ : State) (x : Nat) (n : Nat) (h : execute σ (.branch t) = .ok (σ, .branch x)) :
    runGraph (g1 a [.branch t]) (n + 1) ⟨0, 0, σ⟩ = .branch σ x :=
  runGraph_branch (block_g1 a [.branch t]) (i := mkIns a 0 (.branch t)) rfl h

theorem run_empty (a : Nat) (σ : State) (n : Nat) : runGraph (mkGraph a [[]] [] 0) (n + 1) ⟨0, 0, σ⟩ = .done σ :=
  runGraph_done (b := mkBlock a 0 []) rfl rfl rfl

theorem isOne_bit (b : Bool) : (Const.bit b).isOne = b := by cases b <;> rfl

theorem pick_two_first (σ : State) (e₁ e₂ : Edge) (c : Expr) (h : e₁.cond = some c) (hc : σ.evalIn c = .ok (Const.bit true)) :
    pickEdge σ [e₁, e₂] = .ok (some e₁) := by
  simp [pickEdge, pickEdge.go, h, hc, isOne_bit]

theorem pick_two_second (σ : State) (e₁ e₂ : Edge) (c₁ c₂ : Expr) (h₁ : e₁.cond = some c₁) (h₂ : e₂.cond = some c₂)
    (hc₁ : σ.evalIn c₁ = .ok (Const.bit false)) (hc₂ : σ.evalIn c₂ = .ok (Const.bit true)) :
    pickEdge σ [e₁, e₂] = .ok (some e₂) := by
  simp [pickEdge, pickEdge.go, h₁, h₂, hc₁, hc₂, isOne_bit]

/-- the four-block shape: the guard `c` selects the block that runs -/
theorem run_diamond (a : Nat) (c : Expr) (t f : Op) (σ σt σf : State) (b : Bool) (n : Nat)
    (hc : σ.evalIn c = .ok (Const.bit b)) (hn : σ.evalIn (not1 c) = .ok (Const.bit (!b)))
    (ht : execute σ t = .ok (σt, .fallThrough)) (hf : execute σ f = .ok (σf, .fallThrough)) :
    runGraph (diamond a c [t] [f]) (n + 5) ⟨0, 0, σ⟩ = .done (if b then σt else σf) := by
  have b0 : (diamond a c [t] [f]).block 0 = some (mkBlock a 0 [.nop]) := rfl
  have b1 : (diamond a c [t] [f]).block 1 = some (mkBlock a 1 [t]) := rfl
  have b2 : (diamond a c [t] [f]).block 2 = some (mkBlock a 2 [f]) := rfl
  have b3 : (diamond a c [t] [f]).block 3 = some (mkBlock a 3 []) := rfl
  rw [runGraph_instr b0 (i := mkIns a 0 .nop) rfl rfl]
  cases b
  · rw [runGraph_edge ⟨0, 2, some (not1 c)⟩ b0 rfl (by intro h; cases h)
      (pick_two_second σ _ _ c (not1 c) rfl rfl hc hn)]
    rw [runGraph_instr b2 (i := mkIns a 0 f) rfl hf]
    rw [runGraph_edge ⟨2, 3, none⟩ b2 rfl (by intro h; cases h) rfl]
    exact runGraph_done b3 rfl rfl
  · rw [runGraph_edge ⟨0, 1, some c⟩ b0 rfl (by intro h; cases h) (pick_two_first σ _ _ c rfl hc)]
    rw [runGraph_instr b1 (i := mkIns a 0 t) rfl ht]
    rw [runGraph_edge ⟨1, 3, none⟩ b1 rfl (by intro h; cases h) rfl]
    exact runGraph_done b3 rfl rfl

end Falcon.Isa.Mips
