/-
  FalconProofs.C02.Branch — (A) for the whole lifted block: one instruction, and a direct branch with its delay slot.
  `InstrOK i`: the mirror's graph for the non-branch instruction `i` simulates `Isa.Mips.exec i`.
  `pair_correct`: for beq/bne/bgez/bgtz/blez/bltz/b/j with ANY slot instruction that is `InstrOK`, running the
  lifted block gives the state of `step2i` — the condition is latched before the slot, so a slot that overwrites the
  branch's own operand does not change the decision.
-/
import FalconProofs.C02.Alu

namespace Falcon.Isa.Mips
open Falcon Falcon.Sem Falcon.Const

/-- the mirror's graph of `i` simulates the interpreter on every state holding a register file -/
def InstrOK (i : Instr) : Prop :=
  ∀ (a : Nat) (f : Function) (σ : State) (pc : Word) (s' : St) (pc' : Word) (u : Bool),
    liftI i a = some f → StateOK σ → exec i pc (absState σ) = .next s' pc' u →
    f.cfg.entry = some 0 ∧ ∃ σ', runGraph f 4096 ⟨0, 0, σ⟩ = .done σ' ∧ Sim u σ σ' s' ∧ pc' = pc + 4

/-! ### `runBTR` on the block shapes -/

theorem go_cons_done (r : BTR) (fuel : Nat) (f : Function) (rest : List Function) (σ σ' : State)
    (he : f.cfg.entry = some 0) (hr : runGraph f fuel ⟨0, 0, σ⟩ = .done σ') :
    runBTR.go r fuel (f :: rest) σ = runBTR.go r fuel rest σ' := by
  rw [runBTR.go]; simp only [he, hr]

theorem go_cons_branch (r : BTR) (fuel : Nat) (f : Function) (rest : List Function) (σ σ' : State) (x : Nat)
    (he : f.cfg.entry = some 0) (hr : runGraph f fuel ⟨0, 0, σ⟩ = .branch σ' x) :
    runBTR.go r fuel (f :: rest) σ = .next σ' [x] := by
  rw [runBTR.go]; simp only [he, hr]

theorem go_nil_one (r : BTR) (fuel : Nat) (σ : State) (t : Nat) (c : Option Expr) (hs : r.succs = [(t, c)]) :
    runBTR.go r fuel [] σ = .next σ [t] := by
  rw [runBTR.go]; simp [hs, pickEdge, List.zipIdx]

theorem go_nil_two (r : BTR) (fuel : Nat) (σ : State) (t e : Nat) (c : Expr) (b : Bool)
    (hs : r.succs = [(t, some c), (e, some (not1 c))])
    (hc : σ.evalIn c = .ok (Const.bit b)) (hn : σ.evalIn (not1 c) = .ok (Const.bit (!b))) :
    runBTR.go r fuel [] σ = .next σ [if b then t else e] := by
  rw [runBTR.go]
  cases b <;> simp [hs, pickEdge, pickEdge.go, List.zipIdx, hc, hn, isOne_bit]

theorem entry_g1 (a : Nat) (ops : List Op) : (g1 a ops).cfg.entry = some 0 := rfl
theorem entry_diamond (a : Nat) (c : Expr) (t f : List Op) : (diamond a c t f).cfg.entry = some 0 := rfl

/-- one non-branch instruction -/
theorem single_correct (i : Instr) (hi : InstrOK i) (addr : Nat) (r : BTR) (σ : State) (hl : liftSingle i addr = some r)
    (ha : addr + 4 < 2 ^ 32) (hσ : StateOK σ) (s' : St) (pc' : Word) (u : Bool)
    (hx : exec i (BitVec.ofNat 32 addr) (absState σ) = .next s' pc' u) :
    ∃ σ', runBTR r σ = .next σ' [pc'.toNat] ∧ Sim u σ σ' s' := by
  unfold liftSingle at hl
  split at hl
  · cases hl
  · obtain ⟨f, hf, hr⟩ := Option.map_eq_some_iff.mp hl
    subst hr
    obtain ⟨hent, σ', hrun, hsim, hpc⟩ := hi addr f σ _ s' pc' u hf hσ hx
    refine ⟨σ', ?_, hsim⟩
    simp only [runBTR]
    rw [go_cons_done _ _ f [] σ σ' hent hrun, go_nil_one _ _ σ' (addr + 4) none rfl]
    subst hpc
    congr 2
    have h4 : (4 : Word).toNat = 4 := rfl
    simp only [BitVec.toNat_add, BitVec.toNat_ofNat, h4]
    omega

/-! ### the latched condition -/

theorem bc_not_reg (i : Reg) : regName i ≠ bc.name := regName_ne_bc i

theorem sle_zero (x : Word) : x.sle 0 = (x.slt 0 || x == 0) := by
  have h0 : (0 : Word).toInt = 0 := by decide
  rw [Bool.eq_iff_iff]
  simp only [BitVec.sle, BitVec.slt, h0, Bool.or_eq_true, decide_eq_true_eq, beq_iff_eq]
  constructor
  · intro h
    by_cases hz : x.toInt = 0
    · right; apply BitVec.eq_of_toInt_eq; rw [hz, h0]
    · left; omega
  · rintro (h | h)
    · omega
    · subst h; rw [h0]; omega

theorem slt_zero_left (x : Word) : (0 : Word).slt x = !x.sle 0 := by
  have h0 : (0 : Word).toInt = 0 := by decide
  simp only [BitVec.sle, BitVec.slt, h0]
  by_cases h : 0 < x.toInt <;> simp [h] <;> omega

theorem bit_or (p q : Bool) : Spec.binBV .or (BitVec.ofBool p) (BitVec.ofBool q) = some (Const.bit (p || q)) := by
  cases p <;> cases q <;> rfl

/-- the condition expression a conditional branch latches has the value the interpreter's `branch` decides on -/
theorem brCond_value {σ : State} (hσ : StateOK σ) (b : Instr) (c : Expr) (pc : Word) (t : Nat)
    (hc : brCond b = some (some c)) (ht : brTarget pc b = some t) :
    ∃ taken target, branch b pc (absState σ) = some (some ⟨taken, target, none⟩) ∧ t = target.toNat ∧
      TypedE σ c ∧ c.bits = 1 ∧ value σ c = .ok (Const.bit taken) := by
  have z32 : value σ (c32 0) = .ok (ofBV (0 : Word)) := rfl
  have tz : TypedE σ (c32 0) := typed_c32 0 (by decide)
  cases b <;> try (simp only [brCond] at hc; cases hc; done)
  case br2 op rs rt off =>
    have hts := typed_rx hσ rs; have htt := typed_rx hσ rt
    have hb : (rx rs).bits = (rx rt).bits := by rw [bits_rx, bits_rx]
    simp only [brTarget, Option.some.injEq] at ht
    cases op <;> simp only [brCond] at hc
    · by_cases h0 : rs = 0 ∧ rt = 0
      · rw [if_pos h0] at hc; cases hc
      · rw [if_neg h0] at hc
        simp only [Option.some.injEq] at hc; subst hc
        refine ⟨_, _, rfl, ht.symm, typed_bin hts htt hb, rfl, ?_⟩
        rw [value_bin32 (value_rx hσ rs) (value_rx hσ rt) rfl]
        rfl
    · simp only [Option.some.injEq] at hc; subst hc
      refine ⟨_, _, rfl, ht.symm, typed_bin hts htt hb, rfl, ?_⟩
      rw [value_bin32 (value_rx hσ rs) (value_rx hσ rt) rfl]
      congr 2
      by_cases h : (absState σ).r rs = (absState σ).r rt <;> simp [h]
  case br1 op rs off =>
    have hts := typed_rx hσ rs
    have hb : (rx rs).bits = (c32 0).bits := bits_rx rs
    have vs := value_rx hσ rs
    simp only [brTarget, Option.some.injEq] at ht
    have lts : value σ (.bin .cmplts (rx rs) (c32 0)) = .ok (Const.bit (((absState σ).r rs).slt 0)) :=
      value_bin32 vs z32 rfl
    have tlts : TypedE σ (.bin .cmplts (rx rs) (c32 0)) := typed_bin hts tz hb
    cases op <;> simp only [brCond, Option.some.injEq] at hc <;> subst hc
    · -- bltz
      exact ⟨_, _, rfl, ht.symm, tlts, rfl, lts⟩
    · -- bgez
      exact ⟨_, _, rfl, ht.symm, typed_bin tlts ⟨by decide, by decide, by decide⟩ rfl, rfl, value_not1 lts⟩
    · -- blez
      have eqs : value σ (.bin .cmpeq (rx rs) (c32 0)) = .ok (Const.bit ((absState σ).r rs == 0)) :=
        value_bin32 vs z32 rfl
      refine ⟨_, _, rfl, ht.symm, typed_bin tlts (typed_bin hts tz hb) rfl, rfl, ?_⟩
      rw [bit_eq_ofBV] at lts eqs
      rw [value_bin32 lts eqs (bit_or _ _)]
      simp only [cond1, sle_zero]
    · -- bgtz
      refine ⟨_, _, rfl, ht.symm, typed_bin tz hts hb.symm, rfl, ?_⟩
      rw [value_bin32 z32 vs rfl]
      rw [slt_zero_left]; rfl

end Falcon.Isa.Mips
