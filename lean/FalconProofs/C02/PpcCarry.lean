/-
  FalconProofs.C02.PpcCarry — PowerPC (A): srawi and addze (the carry bit XER[CA] = scalar `carry`).
  `addc_eq` is discharged by `bv_decide` (two closed 33-bit facts); everything else is kernel-checked without it.
-/
import FalconProofs.C02.PpcAlu2
import Std.Tactic.BVDecide

namespace Falcon.Isa.Ppc
open Falcon Falcon.Sem Falcon.Const
open Falcon.Isa.Mips (g1 tempName c32 c1 typed_bin value_bin32 typed_c32 bit_eq_ofBV)

theorem bit_and (p q : Bool) : Spec.binBV .and (BitVec.ofBool p) (BitVec.ofBool q) = some (Const.bit (p && q)) := by
  cases p <;> cases q <;> rfl

theorem slt_zero_msb (x : Word) : x.slt 0 = x.msb := BitVec.slt_zero_eq_msb

theorem typed_bit1 {σ : State} {op : BinOp} {l r : Expr} (hl : TypedE σ l) (hr : TypedE σ r) (hb : l.bits = r.bits) :
    TypedE σ (.bin op l r) := typed_bin hl hr hb

/-- srawi -/
theorem ok_srawi (ra rs : Reg) (sh : BitVec 5) (rc : Bool) : InstrOK (skipRc rc) (.srawi ra rs sh rc) := by
  intro a f σ pc s' pc' hl hσ hx
  simp only [liftI, Option.some.injEq] at hl; subst hl
  simp only [exec] at hx
  obtain ⟨h1, h2⟩ := next_inj hx; subst h1 h2
  have hsh : sh.toNat < 32 := sh.isLt
  have hm : 2 ^ sh.toNat - 1 < 2 ^ 32 := by
    have : 2 ^ sh.toNat ≤ 2 ^ 31 := Nat.pow_le_pow_right (by decide) (by omega)
    omega
  generalize hxv : (absState σ).gpr rs = x
  have vx : value σ (gx rs) = .ok (ofBV x) := by rw [value_gx hσ rs, hxv]
  have tx := typed_gx hσ rs
  have z32 : value σ (c32 0) = .ok (ofBV (0 : Word)) := rfl
  have tz : TypedE σ (c32 0) := typed_c32 0 (by decide)
  -- carry
  have v1 : value σ (.bin .cmplts (gx rs) (c32 0)) = .ok (Const.bit (x.slt 0)) := value_bin32 vx z32 rfl
  have vm : value σ (c32 (2 ^ sh.toNat - 1)) = .ok (ofBV (BitVec.ofNat 32 (2 ^ sh.toNat - 1))) := by
    rw [Mips.value_c32, Mips.c32_eq_ofBV _ hm]
  have v2 : value σ (.bin .and (gx rs) (c32 (2 ^ sh.toNat - 1))) = .ok (ofBV (x &&& BitVec.ofNat 32 (2 ^ sh.toNat - 1))) :=
    value_bin32 vx vm rfl
  have t2 : TypedE σ (.bin .and (gx rs) (c32 (2 ^ sh.toNat - 1))) := typed_bin tx (typed_c32 _ hm) rfl
  have v3 : value σ (.bin .cmpneq (.bin .and (gx rs) (c32 (2 ^ sh.toNat - 1))) (c32 0)) =
      .ok (Const.bit ((x &&& BitVec.ofNat 32 (2 ^ sh.toNat - 1)) != 0)) := value_bin32 v2 z32 rfl
  rw [bit_eq_ofBV] at v1 v3
  have v4 := value_bin32 v1 v3 (bit_and _ _)
  have t4 : TypedE σ (.bin .and (.bin .cmplts (gx rs) (c32 0)) (.bin .cmpneq (.bin .and (gx rs) (c32 (2 ^ sh.toNat - 1))) (c32 0))) :=
    typed_bin (typed_bin tx tz rfl) (typed_bin t2 tz rfl) rfl
  have x1 := exec_assign (dst := caS) t4 rfl v4
  have hσ1 := stateOK_set1 hσ (k := 34) (by decide) (by decide) (x.slt 0 && (x &&& BitVec.ofNat 32 (2 ^ sh.toNat - 1)) != 0)
  have a1 := abs_set_ca σ (x.slt 0 && (x &&& BitVec.ofNat 32 (2 ^ sh.toNat - 1)) != 0)
  -- the shift, in the state after the carry write
  have vx1 : value (σ.set (nm 34) (Const.bit (x.slt 0 && (x &&& BitVec.ofNat 32 (2 ^ sh.toNat - 1)) != 0))) (gx rs) = .ok (ofBV x) := by
    rw [value_gx hσ1 rs, a1]; exact congrArg (fun z => Res.ok (ofBV z)) hxv
  have vs : value (σ.set (nm 34) (Const.bit (x.slt 0 && (x &&& BitVec.ofNat 32 (2 ^ sh.toNat - 1)) != 0))) (c32 sh.toNat) =
      .ok (ofBV (BitVec.ofNat 32 sh.toNat)) := by rw [Mips.value_c32, Mips.c32_eq_ofBV _ (by omega)]
  have hk : (BitVec.ofNat 32 sh.toNat).toNat = sh.toNat := by simp only [BitVec.toNat_ofNat]; omega
  have v5 : value (σ.set (nm 34) (Const.bit (x.slt 0 && (x &&& BitVec.ofNat 32 (2 ^ sh.toNat - 1)) != 0)))
      (.bin .ashr (gx rs) (c32 sh.toNat)) = .ok (ofBV (x.sshiftRight sh.toNat)) := by
    rw [value_bin32 vx1 vs (show Spec.binBV .ashr x _ = some (ofBV (Spec.ashr x (BitVec.ofNat 32 sh.toNat).toNat)) from rfl), hk]
    simp only [Spec.ashr]; rw [if_neg (by omega)]
  obtain ⟨σ', he, hs, hag⟩ := gpr_record hσ1 ra (.bin .ashr (gx rs) (c32 sh.toNat)) _ rc
    (typed_bin (typed_gx hσ1 rs) (typed_c32 _ (by omega)) rfl) rfl v5
  rw [a1, slt_zero_msb] at hag
  refine finish a _ (by have := recordOps_length rc ra; simp; omega) ?_ hs hag pc
  rw [List.cons_append, execAll_cons x1]
  exact he

/-- the 33-bit sum of the manual against the 32-bit sum and the unsigned comparison the lifter uses -/
theorem addc_eq (a : Word) (c : Bool) :
    addc a 0 c = (a + (BitVec.ofBool c).zeroExtend 32, (a + (BitVec.ofBool c).zeroExtend 32).ult a) := by
  cases c
  · simp only [addc, BitVec.ofBool_false, Bool.false_eq_true, if_false]
    apply Prod.ext
    · show BitVec.truncate 32 (a.zeroExtend 33 + (0 : Word).zeroExtend 33 + 0) = a + (0#1).zeroExtend 32
      bv_decide
    · show (a.zeroExtend 33 + (0 : Word).zeroExtend 33 + 0).getLsbD 32 = (a + (0#1).zeroExtend 32).ult a
      bv_decide
  · simp only [addc, BitVec.ofBool_true, if_true]
    apply Prod.ext
    · show BitVec.truncate 32 (a.zeroExtend 33 + (0 : Word).zeroExtend 33 + 1) = a + (1#1).zeroExtend 32
      bv_decide
    · show (a.zeroExtend 33 + (0 : Word).zeroExtend 33 + 1).getLsbD 32 = (a + (1#1).zeroExtend 32).ult a
      bv_decide

theorem value_temp {σ : State} (a : Nat) (bits : Nat) (c : Const) (h : σ.get (tempName a) = some c) :
    value σ (.scalar ⟨tempName a, bits, none⟩) = .ok c := by simp only [value, h]

theorem typed_temp32 {σ : State} (a : Nat) (v : Word) (h : σ.get (tempName a) = some (ofBV v)) :
    TypedE σ (.scalar ⟨tempName a, 32, none⟩) := by
  refine ⟨Nat.le_of_ble_eq_true rfl, (by decide : (32 : Nat) < 2 ^ 64), ?_⟩
  simp only [HoldsOK, h]
  exact ⟨rfl, v.isLt⟩

/-- addze -/
theorem ok_addze (rt ra : Reg) (rc : Bool) : InstrOK (skipRc rc) (.addze rt ra rc) := by
  intro a f σ pc s' pc' hl hσ hx
  simp only [liftI, Option.some.injEq] at hl; subst hl
  simp only [exec, addc_eq] at hx
  obtain ⟨h1, h2⟩ := next_inj hx; subst h1 h2
  generalize hxv : (absState σ).gpr ra = x
  generalize hcv : (absState σ).ca = c
  have vx : value σ (gx ra) = .ok (ofBV x) := by rw [value_gx hσ ra, hxv]
  -- temp := ra + zext(carry)
  have vc : value σ (.scalar caS) = .ok (ofBV (BitVec.ofBool c)) := by
    rw [show (Expr.scalar caS) = .scalar ⟨nm 34, 1, none⟩ from rfl, value_s1 hσ (by decide) (by decide), ← bit_eq_ofBV]
    exact congrArg (fun z => Res.ok (Const.bit z)) hcv
  have vz : value σ (.ext .zext 32 (.scalar caS)) = .ok (ofBV ((BitVec.ofBool c).zeroExtend 32)) := by
    rw [show value σ (.ext .zext 32 (.scalar caS)) = (value σ (.scalar caS) >>= fun a => Spec.ext .zext a 32) from rfl, vc]
    simp only [Res.bind_ok, Spec.ext, ofBV_bits, toBV_ofBV]
    rw [if_neg (by decide)]
  have tz : TypedE σ (.ext .zext 32 (.scalar caS)) :=
    ⟨typed_s1 hσ (by decide) (by decide), by decide, by decide, (by decide : (1 : Nat) < 32)⟩
  have v1 := value_bin32 vx vz (show Spec.binBV .add x _ = some (ofBV (x + (BitVec.ofBool c).zeroExtend 32)) from rfl)
  generalize hv : x + (BitVec.ofBool c).zeroExtend 32 = v at v1
  have x1 := exec_assign (dst := ⟨tempName a, 32, none⟩) (typed_bin (typed_gx hσ ra) tz rfl) rfl v1
  have hσ1 := stateOK_set_temp hσ a (ofBV v)
  have a1 := abs_set_temp σ a (ofBV v)
  have g1' : (σ.set (tempName a) (ofBV v)).get (tempName a) = some (ofBV v) := C07.get_set_self _ _ _
  -- carry := temp <u ra
  have vx1 : value (σ.set (tempName a) (ofBV v)) (gx ra) = .ok (ofBV x) := by
    rw [value_gx hσ1 ra, a1]; exact congrArg (fun z => Res.ok (ofBV z)) hxv
  have v2 := value_bin32 (value_temp a 32 _ g1') vx1 (show Spec.binBV .cmpltu v x = some (Const.bit (v.ult x)) from rfl)
  have x2 := exec_assign (dst := caS) (typed_bin (typed_temp32 a v g1') (typed_gx hσ1 ra) rfl) rfl v2
  have hσ2 := stateOK_set1 hσ1 (k := 34) (by decide) (by decide) (v.ult x)
  have a2 := abs_set_ca (σ.set (tempName a) (ofBV v)) (v.ult x)
  have g2 : ((σ.set (tempName a) (ofBV v)).set (nm 34) (Const.bit (v.ult x))).get (tempName a) = some (ofBV v) := by
    rw [C07.get_set_ne _ _ (nm_ne_temp (by decide) a).symm]; exact g1'
  -- rt := temp, then the record operations
  obtain ⟨σ', he, hs, hag⟩ := gpr_record hσ2 rt (.scalar ⟨tempName a, 32, none⟩) v rc (typed_temp32 a v g2) rfl
    (value_temp a 32 _ g2)
  rw [a2, a1] at hag
  subst hxv hcv
  refine finish a _ (by have := recordOps_length rc rt; simp; omega) ?_ hs hag pc
  rw [List.cons_append, execAll_cons x1, List.cons_append, execAll_cons x2]
  exact he

end Falcon.Isa.Ppc
