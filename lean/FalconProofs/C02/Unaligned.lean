/-
  FalconProofs.C02.Unaligned — MIPS (A): lwl and lwr in both byte orders.  The lifted IL loads the aligned word and merges it
  with rt by variable shifts of 0/8/16/24 bits, the amount chosen at lift time from the translator's byte order.
-/
import FalconProofs.C02.InstrOK

namespace Falcon.Isa.Mips
open Falcon Falcon.Sem Falcon.Const

theorem and3_lt (ea : Word) : (ea &&& 3#32).toNat < 4 := by
  rw [show (ea &&& 3#32) = (ea &&& 3) from rfl, and3_toNat]; omega

/-- the shift amount: 8 × the byte position counted from the chosen end -/
def kOf (big fromLeft : Bool) (ea : Word) : Nat :=
  8 * (if big == fromLeft then (ea &&& 3#32).toNat else 3 - (ea &&& 3#32).toNat)

theorem kOf_left (big : Bool) (ea : Word) : kOf big true ea = 8 * (if big = true then (ea &&& 3).toNat else 3 - (ea &&& 3).toNat) := by
  cases big <;> rfl

theorem kOf_right (big : Bool) (ea : Word) : kOf big false ea = 8 * (if big = true then 3 - (ea &&& 3).toNat else (ea &&& 3).toNat) := by
  cases big <;> rfl

/-- the shift amount `8·k` as the IL computes it -/
theorem value_bits {σ : State} (hσ : StateOK σ) (big fromLeft : Bool) (base : Reg) (off : BitVec 16) :
    let ea := (absState σ).r base + sext16 off
    let b := (ea &&& 3#32).toNat
    let k := kOf big fromLeft ea
    TypedE σ (unalignedBits big fromLeft (eaExpr base off)) ∧ (unalignedBits big fromLeft (eaExpr base off)).bits = 32 ∧
      value σ (unalignedBits big fromLeft (eaExpr base off)) = .ok (ofBV (BitVec.ofNat 32 k)) ∧ k ≤ 24 ∧ k % 8 = 0 := by
  intro ea b k
  have hb : b < 4 := and3_lt ea
  have va := value_ea hσ base off
  have ta := typed_ea hσ base off
  have ba := bits_ea base off
  have v3 : value σ (c32 3) = .ok (ofBV (3#32)) := rfl
  have t3 : TypedE σ (c32 3) := typed_c32 3 (by decide)
  have vbyte : value σ (.bin .and (eaExpr base off) (c32 3)) = .ok (ofBV (ea &&& 3#32)) := value_bin32 va v3 rfl
  have tbyte : TypedE σ (.bin .and (eaExpr base off) (c32 3)) := typed_bin ta t3 ba
  have bbyte : (Expr.bin .and (eaExpr base off) (c32 3)).bits = 32 := ba
  have hk : k ≤ 24 ∧ k % 8 = 0 := by
    simp only [k, kOf]; split <;> omega
  unfold unalignedBits
  by_cases hc : (big == fromLeft) = true
  · have hk' : k = 8 * b := by simp only [k, kOf, hc, if_true]; rfl
    rw [if_pos hc]
    have vs := value_bin32 vbyte v3 (show Spec.binBV .shl (ea &&& 3#32) (3#32) = some (ofBV (Spec.shl (ea &&& 3#32) (3#32).toNat)) from rfl)
    refine ⟨typed_bin tbyte t3 bbyte, bbyte, ?_, hk⟩
    rw [vs]
    congr 2
    simp only [Spec.shl, show (3#32).toNat = 3 from rfl]
    rw [if_neg (by decide)]
    apply BitVec.eq_of_toNat_eq
    simp only [BitVec.toNat_shiftLeft, BitVec.toNat_ofNat]
    rw [Nat.shiftLeft_eq, hk']
    show b * 2 ^ 3 % 2 ^ 32 = 8 * b % 2 ^ 32
    omega
  · have hc' : (big == fromLeft) = false := by simpa using hc
    have hk' : k = 8 * (3 - b) := by simp only [k, kOf, hc', Bool.false_eq_true, if_false]; rfl
    rw [if_neg hc]
    have vsub : value σ (.bin .sub (c32 3) (.bin .and (eaExpr base off) (c32 3))) = .ok (ofBV (3#32 - (ea &&& 3#32))) :=
      value_bin32 v3 vbyte rfl
    have tsub : TypedE σ (.bin .sub (c32 3) (.bin .and (eaExpr base off) (c32 3))) := typed_bin t3 tbyte bbyte.symm
    have hsubn : (3#32 - (ea &&& 3#32)).toNat = 3 - b := by
      simp only [BitVec.toNat_sub, show (3#32).toNat = 3 from rfl]
      show (2 ^ 32 - (ea &&& 3#32).toNat + 3) % 2 ^ 32 = 3 - b
      omega
    have vs := value_bin32 vsub v3 (show Spec.binBV .shl (3#32 - (ea &&& 3#32)) (3#32) = some (ofBV (Spec.shl (3#32 - (ea &&& 3#32)) (3#32).toNat)) from rfl)
    refine ⟨typed_bin tsub t3 rfl, rfl, ?_, hk⟩
    rw [vs]
    congr 2
    simp only [Spec.shl, show (3#32).toNat = 3 from rfl]
    rw [if_neg (by decide)]
    apply BitVec.eq_of_toNat_eq
    simp only [BitVec.toNat_shiftLeft, BitVec.toNat_ofNat, hsubn]
    rw [Nat.shiftLeft_eq, hk']
    omega

theorem k_cases {k : Nat} (h1 : k ≤ 24) (h2 : k % 8 = 0) : k = 0 ∨ k = 8 ∨ k = 16 ∨ k = 24 := by omega

theorem maskL {k : Nat} (h1 : k ≤ 24) (h2 : k % 8 = 0) : (1#32 <<< k) - 1#32 = ~~~(BitVec.allOnes 32 <<< k) := by
  rcases k_cases h1 h2 with h | h | h | h <;> subst h <;> decide

theorem maskR {k : Nat} (h1 : k ≤ 24) (h2 : k % 8 = 0) :
    0xffffffff#32 - (0xffffffff#32 >>> k) = ~~~(BitVec.allOnes 32 >>> k) := by
  rcases k_cases h1 h2 with h | h | h | h <;> subst h <;> decide

theorem aligned_eq (ea : Word) : 0xfffffffc#32 &&& ea = ea &&& ~~~3 := by
  rw [BitVec.and_comm]; rfl

theorem aligned_nowrap (ea : Word) : (ea &&& ~~~3).toNat + 3 < 2 ^ 32 := by
  have h : (ea &&& ~~~3 : Word).toNat % 4 = 0 := by
    have : ((ea &&& ~~~3) &&& 3 : Word) = 0 := by
      rw [BitVec.and_assoc]; rw [show (~~~3 &&& 3 : Word) = 0 from by decide]; simp
    have h2 := and3_toNat (ea &&& ~~~3)
    rw [this] at h2
    simpa using h2.symm
  have := (ea &&& ~~~3 : Word).isLt
  omega

/-- `load dst idx` for a 32-bit destination whose four bytes are mapped -/
theorem exec_load32 {σ : State} (dst : Scalar) (idx : Expr) (ea : Word) (ti : TypedE σ idx) (bi : idx.bits = 32)
    (vi : value σ idx = .ok (ofBV ea)) (bs : List UInt8) (hk : dst.bits = 32)
    (hr : σ.mem.readBytes ea.toNat 4 = some bs) :
    execute σ (.load dst idx) = .ok (σ.set dst.name (constOfBytes σ.endian bs), .fallThrough) := by
  have ht : TypedOp σ (.load dst idx) := ⟨ti, by rw [bi]; decide, by omega, by omega, by omega⟩
  rw [C07.execute_typed σ _ ht]
  simp only [vi]
  have hlt := ea.isLt
  have hd : dst.bits / 8 = 4 := by omega
  rw [if_neg (by simp only [ofBV, hd]; omega)]
  simp only [ofBV, hd, hr]

/-- lwl / lwr: the common part — the aligned word in a temporary, then `rt := merge(tmp, rt)` -/
theorem unaligned_load {σ : State} (hσ : StateOK σ) (rt base : Reg) (off : BitVec 16) (a : Nat) (m : Word)
    (merge : Expr) (v : Word)
    (hm : rdWord (absState σ).bigEndian (absState σ).mem (((absState σ).r base + sext16 off) &&& ~~~3) = some m)
    (hmerge : ∀ σ₁ : State, StateOK σ₁ → absState σ₁ = absState σ → σ₁.get (tempName a) = some (ofBV m) →
      TypedE σ₁ merge ∧ merge.bits = 32 ∧ value σ₁ merge = .ok (ofBV v)) :
    ∃ σ', runGraph (g1 a [.load ⟨tempName a, 32, none⟩ (.bin .and (c32 0xfffffffc) (eaExpr base off)), .assign (rsc rt) merge])
        4096 ⟨0, 0, σ⟩ = .done σ' ∧ Sim false σ σ' ((absState σ).w rt v) := by
  have vi : value σ (.bin .and (c32 0xfffffffc) (eaExpr base off)) = .ok (ofBV (((absState σ).r base + sext16 off) &&& ~~~3)) := by
    rw [value_bin32 (show value σ (c32 0xfffffffc) = .ok (ofBV (0xfffffffc#32)) from rfl) (value_ea hσ base off) rfl, aligned_eq]
  have ti : TypedE σ (.bin .and (c32 0xfffffffc) (eaExpr base off)) := typed_bin (typed_c32 _ (by decide)) (typed_ea hσ base off) (bits_ea base off).symm
  obtain ⟨bs, hb, hc⟩ := rdWord_readBytes _ _ _ m (aligned_nowrap _) hm
  rw [← endian_abs] at hc
  have x1 := exec_load32 ⟨tempName a, 32, none⟩ _ _ ti rfl vi bs rfl hb
  rw [hc] at x1
  have hσ1 : StateOK (σ.set (tempName a) (ofBV m)) :=
    stateOK_set_other hσ _ _ (fun i => regName_ne_temp i a) (hi_ne_temp a) (lo_ne_temp a)
  have a1 : absState (σ.set (tempName a) (ofBV m)) = absState σ :=
    absState_set_other σ _ _ (fun i => regName_ne_temp i a) (hi_ne_temp a) (lo_ne_temp a)
  obtain ⟨tm, bm, vm⟩ := hmerge _ hσ1 a1 (C07.get_set_self _ _ _)
  have x2 : execute (σ.set (tempName a) (ofBV m)) (.assign (rsc rt) merge) =
      .ok ((σ.set (tempName a) (ofBV m)).set (regName rt) (ofBV v), .fallThrough) := exec_assign32 (dst := rsc rt) tm bm vm
  refine ⟨_, run_g1_two a _ _ σ _ _ 4093 x1 x2, stateOK_set_reg hσ1 rt v, ?_, rfl, ?_⟩
  · have := absState_set_reg (σ.set (tempName a) (ofBV m)) rt v
    rw [a1] at this; exact this
  · rw [C07.get_set_ne _ _ (regName_ne_bc rt).symm, C07.get_set_ne _ _ (bc_ne_temp a)]

theorem ofNat_k_toNat {k : Nat} (h : k ≤ 24) : (BitVec.ofNat 32 k).toNat = k := by
  simp only [BitVec.toNat_ofNat]; omega

theorem typed_tmp32 {σ : State} (a : Nat) (m : Word) (h : σ.get (tempName a) = some (ofBV m)) :
    TypedE σ (.scalar ⟨tempName a, 32, none⟩) := typed_hilo h

/-- lwl and lwr, both byte orders -/
theorem unaligned_load_ok (big : Bool) (op : Ld) (rt base : Reg) (off : BitVec 16) (a : Nat) (f : Function) (σ : State) (pc : Word)
    (s' : St) (pc' : Word) (u : Bool) (hl : liftUnaligned big (.load op rt base off) a = some f) (hσ : StateOK σ)
    (hbig : (absState σ).bigEndian = big) (hx : exec (.load op rt base off) pc (absState σ) = .next s' pc' u) :
    f.cfg.entry = some 0 ∧ ∃ σ', runGraph f 4096 ⟨0, 0, σ⟩ = .done σ' ∧ Sim u σ σ' s' ∧ pc' = pc + 4 := by
  subst hbig
  simp only [exec] at hx
  cases op <;> simp only [liftUnaligned, Option.some.injEq] at hl <;> try (cases hl; done)
  case lwl =>
    subst hl
    simp only [doLoad] at hx
    obtain ⟨v, hv, h1, h2, h3⟩ := fin_next hx
    subst h1 h2 h3
    obtain ⟨m, hm, hvm⟩ := Option.map_eq_some_iff.mp hv
    subst hvm
    obtain ⟨σ', hr, hsim⟩ := unaligned_load hσ rt base off a m
      (.bin .or (.bin .shl (.scalar ⟨tempName a, 32, none⟩) (unalignedBits (absState σ).bigEndian true (eaExpr base off))) (.bin .and (rx rt) (.bin .sub (.bin .shl (c32 1) (unalignedBits (absState σ).bigEndian true (eaExpr base off))) (c32 1)))) _ hm (by
      intro σ₁ hσ₁ ha₁ hg
      obtain ⟨tb, bb, vb, hk1, hk2⟩ := value_bits hσ₁ (absState σ).bigEndian true base off
      rw [ha₁] at vb hk1 hk2
      have kk := ofNat_k_toNat hk1
      have tt := typed_tmp32 a m hg
      have v1 : value σ₁ (.bin .shl (.scalar ⟨tempName a, 32, none⟩) (unalignedBits (absState σ).bigEndian true (eaExpr base off))) = .ok (ofBV (m <<< kOf (absState σ).bigEndian true ((absState σ).r base + sext16 off))) := by
        rw [value_bin32 (value_named 32 hg) vb (show Spec.binBV .shl m _ = some (ofBV (Spec.shl m (BitVec.ofNat 32 (kOf (absState σ).bigEndian true ((absState σ).r base + sext16 off))).toNat)) from rfl), kk]
        simp only [Spec.shl]; rw [if_neg (by omega)]
      have v2 : value σ₁ (.bin .shl (c32 1) (unalignedBits (absState σ).bigEndian true (eaExpr base off))) = .ok (ofBV (1#32 <<< kOf (absState σ).bigEndian true ((absState σ).r base + sext16 off))) := by
        rw [value_bin32 (show value σ₁ (c32 1) = .ok (ofBV (1#32)) from rfl) vb
          (show Spec.binBV .shl (1#32) _ = some (ofBV (Spec.shl (1#32) (BitVec.ofNat 32 (kOf (absState σ).bigEndian true ((absState σ).r base + sext16 off))).toNat)) from rfl), kk]
        simp only [Spec.shl]; rw [if_neg (by omega)]
      have v3 := value_bin32 v2 (show value σ₁ (c32 1) = .ok (ofBV (1#32)) from rfl)
        (show Spec.binBV .sub _ _ = some (ofBV ((1#32 <<< kOf (absState σ).bigEndian true ((absState σ).r base + sext16 off)) - 1#32)) from rfl)
      rw [maskL hk1 hk2] at v3
      have vr := value_rx hσ₁ rt
      rw [ha₁] at vr
      have v4 := value_bin32 vr v3 (show Spec.binBV .and _ _ = some (ofBV ((absState σ).r rt &&& ~~~(BitVec.allOnes 32 <<< kOf (absState σ).bigEndian true ((absState σ).r base + sext16 off)))) from rfl)
      have v5 := value_bin32 v1 v4 (show Spec.binBV .or _ _ = some (ofBV (m <<< kOf (absState σ).bigEndian true ((absState σ).r base + sext16 off) ||| ((absState σ).r rt &&& ~~~(BitVec.allOnes 32 <<< kOf (absState σ).bigEndian true ((absState σ).r base + sext16 off))))) from rfl)
      have t1 : TypedE σ₁ (.bin .shl (.scalar ⟨tempName a, 32, none⟩) (unalignedBits (absState σ).bigEndian true (eaExpr base off))) := typed_bin tt tb bb.symm
      have t2 : TypedE σ₁ (.bin .shl (c32 1) (unalignedBits (absState σ).bigEndian true (eaExpr base off))) := typed_bin (typed_c32 1 (by decide)) tb bb.symm
      have t3 : TypedE σ₁ (.bin .sub (.bin .shl (c32 1) (unalignedBits (absState σ).bigEndian true (eaExpr base off))) (c32 1)) :=
        typed_bin t2 (typed_c32 1 (by decide)) rfl
      refine ⟨typed_bin t1 (typed_bin (typed_rx hσ₁ rt) t3 (bits_rx rt)) (bits_rx rt).symm, rfl, ?_⟩
      rw [v5])
    rw [kOf_left] at hsim
    exact ⟨rfl, σ', hr, hsim, rfl⟩
  case lwr =>
    subst hl
    simp only [doLoad] at hx
    obtain ⟨v, hv, h1, h2, h3⟩ := fin_next hx
    subst h1 h2 h3
    obtain ⟨m, hm, hvm⟩ := Option.map_eq_some_iff.mp hv
    subst hvm
    obtain ⟨σ', hr, hsim⟩ := unaligned_load hσ rt base off a m
      (.bin .or (.bin .shr (.scalar ⟨tempName a, 32, none⟩) (unalignedBits (absState σ).bigEndian false (eaExpr base off))) (.bin .and (rx rt) (.bin .sub (c32 0xffffffff) (.bin .shr (c32 0xffffffff) (unalignedBits (absState σ).bigEndian false (eaExpr base off)))))) _ hm (by
      intro σ₁ hσ₁ ha₁ hg
      obtain ⟨tb, bb, vb, hk1, hk2⟩ := value_bits hσ₁ (absState σ).bigEndian false base off
      rw [ha₁] at vb hk1 hk2
      have kk := ofNat_k_toNat hk1
      have tt := typed_tmp32 a m hg
      have v1 : value σ₁ (.bin .shr (.scalar ⟨tempName a, 32, none⟩) (unalignedBits (absState σ).bigEndian false (eaExpr base off))) = .ok (ofBV (m >>> kOf (absState σ).bigEndian false ((absState σ).r base + sext16 off))) := by
        rw [value_bin32 (value_named 32 hg) vb (show Spec.binBV .shr m _ = some (ofBV (Spec.shr m (BitVec.ofNat 32 (kOf (absState σ).bigEndian false ((absState σ).r base + sext16 off))).toNat)) from rfl), kk]
        simp only [Spec.shr]; rw [if_neg (by omega)]
      have v2 : value σ₁ (.bin .shr (c32 0xffffffff) (unalignedBits (absState σ).bigEndian false (eaExpr base off))) = .ok (ofBV (0xffffffff#32 >>> kOf (absState σ).bigEndian false ((absState σ).r base + sext16 off))) := by
        rw [value_bin32 (show value σ₁ (c32 0xffffffff) = .ok (ofBV (0xffffffff#32)) from rfl) vb
          (show Spec.binBV .shr (0xffffffff#32) _ = some (ofBV (Spec.shr (0xffffffff#32) (BitVec.ofNat 32 (kOf (absState σ).bigEndian false ((absState σ).r base + sext16 off))).toNat)) from rfl), kk]
        simp only [Spec.shr]; rw [if_neg (by omega)]
      have v3 := value_bin32 (show value σ₁ (c32 0xffffffff) = .ok (ofBV (0xffffffff#32)) from rfl) v2
        (show Spec.binBV .sub _ _ = some (ofBV (0xffffffff#32 - (0xffffffff#32 >>> kOf (absState σ).bigEndian false ((absState σ).r base + sext16 off)))) from rfl)
      rw [maskR hk1 hk2] at v3
      have vr := value_rx hσ₁ rt
      rw [ha₁] at vr
      have v4 := value_bin32 vr v3 (show Spec.binBV .and _ _ = some (ofBV ((absState σ).r rt &&& ~~~(BitVec.allOnes 32 >>> kOf (absState σ).bigEndian false ((absState σ).r base + sext16 off)))) from rfl)
      have v5 := value_bin32 v1 v4 (show Spec.binBV .or _ _ = some (ofBV (m >>> kOf (absState σ).bigEndian false ((absState σ).r base + sext16 off) ||| ((absState σ).r rt &&& ~~~(BitVec.allOnes 32 >>> kOf (absState σ).bigEndian false ((absState σ).r base + sext16 off))))) from rfl)
      have t1 : TypedE σ₁ (.bin .shr (.scalar ⟨tempName a, 32, none⟩) (unalignedBits (absState σ).bigEndian false (eaExpr base off))) := typed_bin tt tb bb.symm
      have t2 : TypedE σ₁ (.bin .shr (c32 0xffffffff) (unalignedBits (absState σ).bigEndian false (eaExpr base off))) := typed_bin (typed_c32 _ (by decide)) tb bb.symm
      have t3 : TypedE σ₁ (.bin .sub (c32 0xffffffff) (.bin .shr (c32 0xffffffff) (unalignedBits (absState σ).bigEndian false (eaExpr base off)))) :=
        typed_bin (typed_c32 _ (by decide)) t2 rfl
      refine ⟨typed_bin t1 (typed_bin (typed_rx hσ₁ rt) t3 (bits_rx rt)) (bits_rx rt).symm, rfl, ?_⟩
      rw [v5])
    rw [kOf_right] at hsim
    exact ⟨rfl, σ', hr, hsim, rfl⟩

end Falcon.Isa.Mips
