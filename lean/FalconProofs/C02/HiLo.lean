/-
  FalconProofs.C02.HiLo — MIPS (A): mfhi/mflo/mthi/mtlo, movn/movz, mult/multu, div/divu (divisor ≠ 0: with a zero divisor
  the manual completes with UNPREDICTABLE HI/LO while the IL's division fails — known finding `C02/mips*/div/next`).
-/
import FalconProofs.C02.Pair
import FalconProofs.C02.Mem

namespace Falcon.Isa.Mips
open Falcon Falcon.Sem Falcon.Const

theorem hi_ne_lo : "$hi" ≠ "$lo" := by decide

theorem absState_set_hi (σ : State) (v : Word) : absState (σ.set "$hi" (ofBV v)) = { absState σ with hi := v } := by
  simp only [absState, C07.set_mem, C07.set_endian]
  congr 1
  · funext i; exact val32_set_ne σ _ (regName_ne_hi i)
  · exact val32_set_same σ _ v
  · exact val32_set_ne σ _ hi_ne_lo.symm

theorem absState_set_lo (σ : State) (v : Word) : absState (σ.set "$lo" (ofBV v)) = { absState σ with lo := v } := by
  simp only [absState, C07.set_mem, C07.set_endian]
  congr 1
  · funext i; exact val32_set_ne σ _ (regName_ne_lo i)
  · exact val32_set_ne σ _ hi_ne_lo
  · exact val32_set_same σ _ v

theorem stateOK_set_hi {σ : State} (hσ : StateOK σ) (v : Word) : StateOK (σ.set "$hi" (ofBV v)) := by
  refine ⟨fun i hi => ?_, ⟨v, C07.get_set_self _ _ _⟩, ?_⟩
  · obtain ⟨x, hx⟩ := hσ.gpr i hi
    exact ⟨x, by rw [C07.get_set_ne σ _ (regName_ne_hi i)]; exact hx⟩
  · obtain ⟨x, hx⟩ := hσ.lo
    exact ⟨x, by rw [C07.get_set_ne σ _ hi_ne_lo.symm]; exact hx⟩

theorem stateOK_set_lo {σ : State} (hσ : StateOK σ) (v : Word) : StateOK (σ.set "$lo" (ofBV v)) := by
  refine ⟨fun i hi => ?_, ?_, ⟨v, C07.get_set_self _ _ _⟩⟩
  · obtain ⟨x, hx⟩ := hσ.gpr i hi
    exact ⟨x, by rw [C07.get_set_ne σ _ (regName_ne_lo i)]; exact hx⟩
  · obtain ⟨x, hx⟩ := hσ.hi
    exact ⟨x, by rw [C07.get_set_ne σ _ hi_ne_lo]; exact hx⟩

theorem get_hi {σ : State} (hσ : StateOK σ) : σ.get "$hi" = some (ofBV (absState σ).hi) := by
  obtain ⟨v, hv⟩ := hσ.hi
  simp only [absState, val32_of_get hv]; exact hv

theorem get_lo {σ : State} (hσ : StateOK σ) : σ.get "$lo" = some (ofBV (absState σ).lo) := by
  obtain ⟨v, hv⟩ := hσ.lo
  simp only [absState, val32_of_get hv]; exact hv

theorem typed_hilo {σ : State} {n : String} {v : Word} (h : σ.get n = some (ofBV v)) : TypedE σ (.scalar ⟨n, 32, none⟩) := by
  refine ⟨Nat.le_of_ble_eq_true rfl, (by decide : (32 : Nat) < 2 ^ 64), ?_⟩
  simp only [HoldsOK, h]
  exact ⟨rfl, v.isLt⟩

theorem value_named {σ : State} {n : String} {c : Const} (bits : Nat) (h : σ.get n = some c) :
    value σ (.scalar ⟨n, bits, none⟩) = .ok c := by simp only [value, h]

theorem sim_of_eq {σ σ' : State} {s' : St} (hs : StateOK σ') (he : absState σ' = s') (hen : σ'.endian = σ.endian)
    (hl : σ'.get "branching_condition" = σ.get "branching_condition") : Sim false σ σ' s' :=
  ⟨hs, he ▸ Eqv.refl _ _, hen, hl⟩

theorem instrOK_mfhi (rd : Reg) : InstrOK (.mfhi rd) := by
  intro a f σ pc s' pc' u hl hσ hx
  simp only [liftI, Option.some.injEq] at hl; subst hl
  simp only [exec] at hx
  obtain ⟨h1, h2, h3⟩ := next_inj' hx; subst h1 h2 h3
  obtain ⟨σ', hr, hsim⟩ := assign_reg_correct hσ a rd (.scalar hiS) _ (typed_hilo (get_hi hσ)) rfl (value_named 32 (get_hi hσ)) 4094
  exact ⟨rfl, σ', hr, hsim, rfl⟩

theorem instrOK_mflo (rd : Reg) : InstrOK (.mflo rd) := by
  intro a f σ pc s' pc' u hl hσ hx
  simp only [liftI, Option.some.injEq] at hl; subst hl
  simp only [exec] at hx
  obtain ⟨h1, h2, h3⟩ := next_inj' hx; subst h1 h2 h3
  obtain ⟨σ', hr, hsim⟩ := assign_reg_correct hσ a rd (.scalar loS) _ (typed_hilo (get_lo hσ)) rfl (value_named 32 (get_lo hσ)) 4094
  exact ⟨rfl, σ', hr, hsim, rfl⟩

theorem exec_assign32 {σ : State} {dst : Scalar} {e : Expr} {c : Const} (ht : TypedE σ e) (hb : e.bits = dst.bits)
    (hv : value σ e = .ok c) : execute σ (.assign dst e) = .ok (σ.set dst.name c, .fallThrough) := by
  rw [C07.execute_typed σ _ (show TypedOp σ (.assign dst e) from ⟨ht, hb⟩)]
  simp only [hv]

theorem bc_ne_hi : "branching_condition" ≠ "$hi" := by decide
theorem bc_ne_lo : "branching_condition" ≠ "$lo" := by decide

theorem instrOK_mthi (rs : Reg) : InstrOK (.mthi rs) := by
  intro a f σ pc s' pc' u hl hσ hx
  simp only [liftI, Option.some.injEq] at hl; subst hl
  simp only [exec] at hx
  obtain ⟨h1, h2, h3⟩ := next_inj' hx; subst h1 h2 h3
  have x1 := exec_assign32 (dst := hiS) (typed_rx hσ rs) (bits_rx rs) (value_rx hσ rs)
  exact ⟨rfl, _, run_g1_one a _ σ _ 4094 x1,
    sim_of_eq (stateOK_set_hi hσ _) (absState_set_hi σ _) rfl (C07.get_set_ne σ _ bc_ne_hi), rfl⟩

theorem instrOK_mtlo (rs : Reg) : InstrOK (.mtlo rs) := by
  intro a f σ pc s' pc' u hl hσ hx
  simp only [liftI, Option.some.injEq] at hl; subst hl
  simp only [exec] at hx
  obtain ⟨h1, h2, h3⟩ := next_inj' hx; subst h1 h2 h3
  have x1 := exec_assign32 (dst := loS) (typed_rx hσ rs) (bits_rx rs) (value_rx hσ rs)
  exact ⟨rfl, _, run_g1_one a _ σ _ 4094 x1,
    sim_of_eq (stateOK_set_lo hσ _) (absState_set_lo σ _) rfl (C07.get_set_ne σ _ bc_ne_lo), rfl⟩

/-! ### movn / movz -/

/-- the three-block shape: `c` runs the operation, `nc` skips it -/
theorem run_tri (a : Nat) (c nc : Expr) (op : Op) (σ σt : State) (b : Bool) (n : Nat)
    (hc : σ.evalIn c = .ok (Const.bit b)) (hn : σ.evalIn nc = .ok (Const.bit (!b)))
    (ht : execute σ op = .ok (σt, .fallThrough)) :
    runGraph (tri a c nc [op]) (n + 5) ⟨0, 0, σ⟩ = .done (if b then σt else σ) := by
  have b0 : (tri a c nc [op]).block 0 = some (mkBlock a 0 [.nop]) := rfl
  have b1 : (tri a c nc [op]).block 1 = some (mkBlock a 1 [op]) := rfl
  have b2 : (tri a c nc [op]).block 2 = some (mkBlock a 2 []) := rfl
  rw [runGraph_instr b0 (i := mkIns a 0 .nop) rfl rfl]
  cases b
  · rw [runGraph_edge ⟨0, 2, some nc⟩ b0 rfl (by intro h; cases h) (pick_two_second σ _ _ c nc rfl rfl hc hn)]
    exact runGraph_done b2 rfl rfl
  · rw [runGraph_edge ⟨0, 1, some c⟩ b0 rfl (by intro h; cases h) (pick_two_first σ _ _ c rfl hc)]
    rw [runGraph_instr b1 (i := mkIns a 0 op) rfl ht]
    rw [runGraph_edge ⟨1, 2, none⟩ b1 rfl (by intro h; cases h) rfl]
    exact runGraph_done b2 rfl rfl

theorem w_self (s : St) (rd : Reg) : Eqv false s (s.w rd (s.r rd)) := by
  refine ⟨fun j => ?_, fun _ => by rw [w_hi], fun _ => by rw [w_lo], fun _ => by rw [w_mem], by rw [w_be]⟩
  by_cases hj : j = 0
  · subst hj; simp [St.r]
  · by_cases hd : rd = 0
    · subst hd; simp [St.w]
    · simp only [St.r, St.w, if_neg hj, if_neg hd]
      by_cases h : j = rd
      · subst h; simp
      · simp [h]

theorem value_cmp0 {σ : State} (hσ : StateOK σ) (rt : Reg) :
    value σ (.bin .cmpneq (rx rt) (c32 0)) = .ok (Const.bit ((absState σ).r rt != 0)) ∧
    value σ (.bin .cmpeq (rx rt) (c32 0)) = .ok (Const.bit ((absState σ).r rt == 0)) ∧
    TypedE σ (.bin .cmpneq (rx rt) (c32 0)) ∧ TypedE σ (.bin .cmpeq (rx rt) (c32 0)) :=
  ⟨value_bin32 (value_rx hσ rt) (show value σ (c32 0) = .ok (ofBV (0 : Word)) from rfl) rfl,
   value_bin32 (value_rx hσ rt) (show value σ (c32 0) = .ok (ofBV (0 : Word)) from rfl) rfl,
   typed_bin (typed_rx hσ rt) (typed_c32 0 (by decide)) (bits_rx rt),
   typed_bin (typed_rx hσ rt) (typed_c32 0 (by decide)) (bits_rx rt)⟩

theorem movn_correct {σ : State} (hσ : StateOK σ) (rd rs rt : Reg) (a : Nat) (n : Nat) :
    ∃ σ', runGraph (tri a (.bin .cmpneq (rx rt) (c32 0)) (.bin .cmpeq (rx rt) (c32 0)) [.assign (rsc rd) (rx rs)]) (n + 5) ⟨0, 0, σ⟩ = .done σ' ∧
      Sim false σ σ' ((absState σ).w rd (r3 .movn ((absState σ).r rs) ((absState σ).r rt) ((absState σ).r rd))) := by
  obtain ⟨vn, ve, tn, te⟩ := value_cmp0 hσ rt
  have x1 : execute σ (.assign (rsc rd) (rx rs)) = .ok (σ.set (regName rd) (ofBV ((absState σ).r rs)), .fallThrough) :=
    exec_assign32 (dst := rsc rd) (typed_rx hσ rs) (bits_rx rs) (value_rx hσ rs)
  have hb : (!((absState σ).r rt != 0)) = ((absState σ).r rt == 0) := by
    simp only [bne, Bool.not_not]
  refine ⟨_, run_tri a _ _ _ σ _ ((absState σ).r rt != 0) n (by rw [C07.evalIn_eq_value tn]; exact vn)
    (by rw [C07.evalIn_eq_value te, hb]; exact ve) x1, ?_⟩
  simp only [r3]
  by_cases h : (absState σ).r rt = 0
  · simp only [h, bne_self_eq_false, Bool.false_eq_true, if_false, ne_eq, not_true_eq_false]
    exact ⟨hσ, w_self _ rd, rfl, rfl⟩
  · have : ((absState σ).r rt != 0) = true := by simpa using h
    simp only [this, if_true, ne_eq, h, not_false_eq_true]
    exact ⟨stateOK_set_reg hσ rd _, absState_set_reg σ rd _, rfl, C07.get_set_ne σ _ (regName_ne_bc rd).symm⟩

theorem movz_correct {σ : State} (hσ : StateOK σ) (rd rs rt : Reg) (a : Nat) (n : Nat) :
    ∃ σ', runGraph (tri a (.bin .cmpeq (rx rt) (c32 0)) (.bin .cmpneq (rx rt) (c32 0)) [.assign (rsc rd) (rx rs)]) (n + 5) ⟨0, 0, σ⟩ = .done σ' ∧
      Sim false σ σ' ((absState σ).w rd (r3 .movz ((absState σ).r rs) ((absState σ).r rt) ((absState σ).r rd))) := by
  obtain ⟨vn, ve, tn, te⟩ := value_cmp0 hσ rt
  have x1 : execute σ (.assign (rsc rd) (rx rs)) = .ok (σ.set (regName rd) (ofBV ((absState σ).r rs)), .fallThrough) :=
    exec_assign32 (dst := rsc rd) (typed_rx hσ rs) (bits_rx rs) (value_rx hσ rs)
  have hb : (!((absState σ).r rt == 0)) = ((absState σ).r rt != 0) := rfl
  refine ⟨_, run_tri a _ _ _ σ _ ((absState σ).r rt == 0) n (by rw [C07.evalIn_eq_value te]; exact ve)
    (by rw [C07.evalIn_eq_value tn, hb]; exact vn) x1, ?_⟩
  simp only [r3]
  by_cases h : (absState σ).r rt = 0
  · have : ((absState σ).r rt == 0) = true := by simpa using h
    simp only [this, if_true, h]
    exact ⟨stateOK_set_reg hσ rd _, absState_set_reg σ rd _, rfl, C07.get_set_ne σ _ (regName_ne_bc rd).symm⟩
  · have : ((absState σ).r rt == 0) = false := by simpa using h
    simp only [this, Bool.false_eq_true, if_false, h]
    exact ⟨hσ, w_self _ rd, rfl, rfl⟩

/-! ### mult / multu -/

theorem hi_extract (p : BitVec 64) : (p >>> 32).truncate 32 = p.extractLsb' 32 32 := by
  apply BitVec.eq_of_toNat_eq
  simp [BitVec.toNat_setWidth, BitVec.toNat_ushiftRight, BitVec.extractLsb'_toNat]

theorem lo_extract (p : BitVec 64) : p.truncate 32 = p.extractLsb' 0 32 := by
  apply BitVec.eq_of_toNat_eq
  simp [BitVec.toNat_setWidth, BitVec.extractLsb'_toNat]

theorem value_ext64 {σ : State} {e : Expr} {x : Word} (op : ExtOp) (hop : op = .sext ∨ op = .zext)
    (te : TypedE σ e) (be : e.bits = 32) (ve : value σ e = .ok (ofBV x)) :
    TypedE σ (.ext op 64 e) ∧ value σ (.ext op 64 e) = .ok (ofBV (if op = .sext then x.signExtend 64 else x.zeroExtend 64)) := by
  refine ⟨⟨te, by decide, by decide, by rcases hop with h | h <;> subst h <;> (show e.bits < 64; rw [be]; decide)⟩, ?_⟩
  · rw [show value σ (.ext op 64 e) = (value σ e >>= fun a => Spec.ext op a 64) from rfl, ve]
    rcases hop with h | h <;> subst h <;> simp only [Res.bind_ok, Spec.ext, ofBV_bits, toBV_ofBV] <;> rw [if_neg (by decide)] <;> simp

theorem bc_ne_temp' (a : Nat) : "branching_condition" ≠ tempName a := bc_ne_temp a

/-- mult / multu: the 64-bit product through a temporary, HI and LO from its halves -/
theorem mult_correct {σ : State} (hσ : StateOK σ) (op : ExtOp) (hop : op = .sext ∨ op = .zext) (rs rt : Reg) (a : Nat) :
    let t : Scalar := { name := tempName a, bits := 64 }
    let p : BitVec 64 := (if op = .sext then ((absState σ).r rs).signExtend 64 else ((absState σ).r rs).zeroExtend 64) *
                         (if op = .sext then ((absState σ).r rt).signExtend 64 else ((absState σ).r rt).zeroExtend 64)
    ∃ σ', runGraph (g1 a [.assign t (.bin .mul (.ext op 64 (rx rs)) (.ext op 64 (rx rt))),
                           .assign hiS (.ext .trun 32 (.bin .shr (.scalar t) (c64 32))),
                           .assign loS (.ext .trun 32 (.scalar t))]) 4096 ⟨0, 0, σ⟩ = .done σ' ∧
      Sim false σ σ' { absState σ with hi := p.extractLsb' 32 32, lo := p.extractLsb' 0 32 } := by
  intro t p
  obtain ⟨t1, v1⟩ := value_ext64 op hop (typed_rx hσ rs) (bits_rx rs) (value_rx hσ rs)
  obtain ⟨t2, v2⟩ := value_ext64 op hop (typed_rx hσ rt) (bits_rx rt) (value_rx hσ rt)
  have vm : value σ (.bin .mul (.ext op 64 (rx rs)) (.ext op 64 (rx rt))) = .ok (ofBV p) := value_bin32 v1 v2 rfl
  have x1 : execute σ (.assign t (.bin .mul (.ext op 64 (rx rs)) (.ext op 64 (rx rt)))) = .ok (σ.set (tempName a) (ofBV p), .fallThrough) :=
    exec_assign32 (dst := t) (typed_bin t1 t2 rfl) rfl vm
  -- state 1: the temporary holds the product
  have hσ1 : StateOK (σ.set (tempName a) (ofBV p)) :=
    stateOK_set_other hσ _ _ (fun i => regName_ne_temp i a) (hi_ne_temp a) (lo_ne_temp a)
  have a1 : absState (σ.set (tempName a) (ofBV p)) = absState σ :=
    absState_set_other σ _ _ (fun i => regName_ne_temp i a) (hi_ne_temp a) (lo_ne_temp a)
  have g1' : (σ.set (tempName a) (ofBV p)).get (tempName a) = some (ofBV p) := C07.get_set_self _ _ _
  have tt : ∀ σ' : State, σ'.get (tempName a) = some (ofBV p) → TypedE σ' (.scalar t) := by
    intro σ' h
    refine ⟨(by decide : 1 ≤ 64), (by decide : (64 : Nat) < 2 ^ 64), ?_⟩
    simp only [HoldsOK, t, h]
    exact ⟨rfl, p.isLt⟩
  have vsh : value (σ.set (tempName a) (ofBV p)) (.bin .shr (.scalar t) (c64 32)) = .ok (ofBV (p >>> 32)) := by
    rw [value_bin32 (value_named 64 g1') (show value _ (c64 32) = .ok (ofBV (32#64)) from rfl)
      (show Spec.binBV .shr p (32#64) = some (ofBV (Spec.shr p (32#64).toNat)) from rfl)]
    simp [Spec.shr]
  have tsh : TypedE (σ.set (tempName a) (ofBV p)) (.bin .shr (.scalar t) (c64 32)) :=
    typed_bin (tt _ g1') ⟨by decide, by decide, by decide⟩ rfl
  have vhi : value (σ.set (tempName a) (ofBV p)) (.ext .trun 32 (.bin .shr (.scalar t) (c64 32))) = .ok (ofBV (p.extractLsb' 32 32)) := by
    rw [show value (σ.set (tempName a) (ofBV p)) (.ext .trun 32 (.bin .shr (.scalar t) (c64 32))) =
      (value (σ.set (tempName a) (ofBV p)) (.bin .shr (.scalar t) (c64 32)) >>= fun c => Spec.ext .trun c 32) from rfl, vsh]
    simp only [Res.bind_ok, Spec.ext, ofBV_bits, toBV_ofBV]
    rw [if_neg (by decide), hi_extract]
  have x2 : execute (σ.set (tempName a) (ofBV p)) (.assign hiS (.ext .trun 32 (.bin .shr (.scalar t) (c64 32)))) =
      .ok ((σ.set (tempName a) (ofBV p)).set "$hi" (ofBV (p.extractLsb' 32 32)), .fallThrough) :=
    exec_assign32 (dst := hiS) (show TypedE _ (.ext .trun 32 (.bin .shr (.scalar t) (c64 32))) from
    ⟨tsh, by decide, by decide, (by decide : (32 : Nat) < 64)⟩) rfl vhi
  -- state 2
  have hσ2 := stateOK_set_hi hσ1 (p.extractLsb' 32 32)
  have a2 := absState_set_hi (σ.set (tempName a) (ofBV p)) (p.extractLsb' 32 32)
  have g2 : ((σ.set (tempName a) (ofBV p)).set "$hi" (ofBV (p.extractLsb' 32 32))).get (tempName a) = some (ofBV p) := by
    rw [C07.get_set_ne _ _ (hi_ne_temp a).symm]; exact g1'
  have vlo : value ((σ.set (tempName a) (ofBV p)).set "$hi" (ofBV (p.extractLsb' 32 32))) (.ext .trun 32 (.scalar t)) =
      .ok (ofBV (p.extractLsb' 0 32)) := by
    rw [show value ((σ.set (tempName a) (ofBV p)).set "$hi" (ofBV (p.extractLsb' 32 32))) (.ext .trun 32 (.scalar t)) =
      (value ((σ.set (tempName a) (ofBV p)).set "$hi" (ofBV (p.extractLsb' 32 32))) (.scalar t) >>= fun c => Spec.ext .trun c 32) from rfl,
      value_named 64 g2]
    simp only [Res.bind_ok, Spec.ext, ofBV_bits, toBV_ofBV]
    rw [if_neg (by decide), lo_extract]
  have x3 : execute ((σ.set (tempName a) (ofBV p)).set "$hi" (ofBV (p.extractLsb' 32 32))) (.assign loS (.ext .trun 32 (.scalar t))) =
      .ok (((σ.set (tempName a) (ofBV p)).set "$hi" (ofBV (p.extractLsb' 32 32))).set "$lo" (ofBV (p.extractLsb' 0 32)), .fallThrough) :=
    exec_assign32 (dst := loS) (show TypedE _ (.ext .trun 32 (.scalar t)) from
    ⟨tt _ g2, by decide, by decide, (by decide : (32 : Nat) < 64)⟩) rfl vlo
  refine ⟨((σ.set (tempName a) (ofBV p)).set "$hi" (ofBV (p.extractLsb' 32 32))).set "$lo" (ofBV (p.extractLsb' 0 32)), ?_,
    stateOK_set_lo hσ2 _, ?_, rfl, ?_⟩
  · rw [show (4096 : Nat) = 4093 + 1 + 1 + 1 from rfl,
      runGraph_instr (block_g1 a _) (i := mkIns a 0 _) rfl x1,
      runGraph_instr (block_g1 a _) (i := mkIns a 1 _) rfl x2,
      runGraph_instr (block_g1 a _) (i := mkIns a 2 _) rfl x3]
    exact runGraph_done (block_g1 a _) rfl rfl
  · rw [absState_set_lo, a2, a1]
    exact Eqv.refl _ _
  · rw [C07.get_set_ne _ _ bc_ne_lo, C07.get_set_ne _ _ bc_ne_hi, C07.get_set_ne _ _ (bc_ne_temp a)]

theorem instrOK_muldiv (op : MulDiv) (rs rt : Reg) : InstrOK (.muldiv op rs rt) := by
  intro a f σ pc s' pc' u hl hσ hx
  cases op <;> simp only [liftI, Option.some.injEq] at hl <;> try (cases hl; done)
  case mult =>
    subst hl
    simp only [exec, mulDiv] at hx
    obtain ⟨h1, h2, h3⟩ := next_inj' hx; subst h1 h2 h3
    obtain ⟨σ', hr, hsim⟩ := mult_correct hσ .sext (.inl rfl) rs rt a
    exact ⟨rfl, σ', hr, by simpa using hsim, rfl⟩
  case multu =>
    subst hl
    simp only [exec, mulDiv] at hx
    obtain ⟨h1, h2, h3⟩ := next_inj' hx; subst h1 h2 h3
    obtain ⟨σ', hr, hsim⟩ := mult_correct hσ .zext (.inr rfl) rs rt a
    exact ⟨rfl, σ', hr, by simpa using hsim, rfl⟩

theorem sw32_sext64 (x : Word) : (x.signExtend 64).setWidth 32 = x := by
  apply BitVec.eq_of_getLsbD_eq
  intro i hi
  simp only [BitVec.getLsbD_setWidth, BitVec.getLsbD_signExtend]
  have h1 : i < 64 := by omega
  simp [hi, h1]

theorem Eqv.weaken {a b : St} (h : Eqv false a b) : Eqv true a b :=
  ⟨h.r, fun c => Bool.noConfusion c, fun c => Bool.noConfusion c, h.mem, h.be⟩

/-- mul rd, rs, rt: the low word of the product; HI and LO are UNPREDICTABLE afterwards (the IL leaves them alone) -/
theorem mul_correct {σ : State} (hσ : StateOK σ) (rd rs rt : Reg) (a : Nat) :
    ∃ σ', runGraph (g1 a [.assign (rsc rd) (.ext .trun 32 (.bin .mul (.ext .sext 64 (rx rs)) (.ext .sext 64 (rx rt))))]) 4096 ⟨0, 0, σ⟩ = .done σ' ∧
      Sim true σ σ' ((absState σ).w rd (r3 .mul ((absState σ).r rs) ((absState σ).r rt) ((absState σ).r rd))) := by
  obtain ⟨t1, v1⟩ := value_ext64 .sext (.inl rfl) (typed_rx hσ rs) (bits_rx rs) (value_rx hσ rs)
  obtain ⟨t2, v2⟩ := value_ext64 .sext (.inl rfl) (typed_rx hσ rt) (bits_rx rt) (value_rx hσ rt)
  simp only [if_true] at v1 v2
  have vm := value_bin32 v1 v2 (show Spec.binBV .mul _ _ = some (ofBV (((absState σ).r rs).signExtend 64 * ((absState σ).r rt).signExtend 64)) from rfl)
  have tm : TypedE σ (.bin .mul (.ext .sext 64 (rx rs)) (.ext .sext 64 (rx rt))) := typed_bin t1 t2 rfl
  have vt : value σ (.ext .trun 32 (.bin .mul (.ext .sext 64 (rx rs)) (.ext .sext 64 (rx rt)))) =
      .ok (ofBV (r3 .mul ((absState σ).r rs) ((absState σ).r rt) ((absState σ).r rd))) := by
    rw [show value σ (.ext .trun 32 (.bin .mul (.ext .sext 64 (rx rs)) (.ext .sext 64 (rx rt)))) =
      (value σ (.bin .mul (.ext .sext 64 (rx rs)) (.ext .sext 64 (rx rt))) >>= fun c => Spec.ext .trun c 32) from rfl, vm]
    simp only [Res.bind_ok, Spec.ext, ofBV_bits, toBV_ofBV]
    rw [if_neg (by decide)]
    congr 2
    show BitVec.setWidth 32 _ = _
    rw [BitVec.setWidth_mul _ _ (by decide), sw32_sext64, sw32_sext64]
    rfl
  obtain ⟨σ', hr, hsim⟩ := assign_reg_correct hσ a rd _ _
    (show TypedE σ (.ext .trun 32 (.bin .mul (.ext .sext 64 (rx rs)) (.ext .sext 64 (rx rt)))) from
      ⟨tm, by decide, by decide, (by decide : (32 : Nat) < 64)⟩) rfl vt 4094
  exact ⟨σ', hr, hsim.ok, hsim.eqv.weaken, hsim.endian, hsim.latch⟩

end Falcon.Isa.Mips
