/-
  FalconProofs.C02.Alu — (A) for the register-register ALU, shifts, immediate ALU, lui, slt/sltu/slti/sltiu:
  the graph the lifter builds, run by the IL semantics from any state holding a register file, computes the
  state the ISA interpreter prescribes.
-/
import FalconProofs.C02.Core

namespace Falcon.Isa.Mips
open Falcon Falcon.Sem Falcon.Const

/-- what running an instruction graph must establish against the interpreter's post-state `s'` -/
structure Sim (u : Bool) (σ σ' : State) (s' : St) : Prop where
  ok : StateOK σ'
  eqv : Eqv u (absState σ') s'
  endian : σ'.endian = σ.endian
  latch : σ'.get "branching_condition" = σ.get "branching_condition"

/-- a graph `rd := e` where `e` has the 32-bit value `v` -/
theorem assign_reg_correct {σ : State} (hσ : StateOK σ) (a : Nat) (rd : Reg) (e : Expr) (v : Word)
    (ht : TypedE σ e) (hb : e.bits = 32) (hv : value σ e = .ok (ofBV v)) (n : Nat) :
    ∃ σ', runGraph (g1 a [.assign (rsc rd) e]) (n + 2) ⟨0, 0, σ⟩ = .done σ' ∧ Sim false σ σ' ((absState σ).w rd v) := by
  have hx : execute σ (.assign (rsc rd) e) = .ok (σ.set (regName rd) (ofBV v), .fallThrough) := by
    rw [C07.execute_typed σ _ (show TypedOp σ (.assign (rsc rd) e) from ⟨ht, hb⟩)]
    simp only [hv, rsc]
  refine ⟨_, run_g1_one a _ σ _ n hx, stateOK_set_reg hσ rd v, absState_set_reg σ rd v, rfl, ?_⟩
  exact C07.get_set_ne σ _ (regName_ne_bc rd).symm

/-! ### values of the operand expressions -/

theorem xor_allOnes32 (z : Word) : z ^^^ 0xffffffff#32 = ~~~z := by
  have : (0xffffffff#32) = BitVec.allOnes 32 := by decide
  rw [this, BitVec.xor_allOnes]

theorem r3Expr_value {σ : State} (hσ : StateOK σ) (op : R3) (rd rs rt : Reg) (e : Expr) (he : r3Expr op rs rt = some e) :
    TypedE σ e ∧ e.bits = 32 ∧
      value σ e = .ok (ofBV (r3 op ((absState σ).r rs) ((absState σ).r rt) ((absState σ).r rd))) := by
  have ts := typed_rx hσ rs
  have tt := typed_rx hσ rt
  have vs := value_rx hσ rs
  have vt := value_rx hσ rt
  have bs := bits_rx rs
  have bt := bits_rx rt
  have tbin : ∀ o : BinOp, TypedE σ (.bin o (rx rs) (rx rt)) := fun _ => ⟨ts, tt, by rw [bs, bt]⟩
  cases op <;> simp only [r3Expr] at he
  any_goals (first | (cases he; done) | skip)
  case addu =>
    by_cases h0 : rt = 0
    · subst h0
      simp only [if_true, Option.some.injEq] at he; subst he
      refine ⟨ts, bs, ?_⟩
      rw [vs]; simp [r3, St.r]
    · simp only [h0, if_false, Option.some.injEq] at he; subst he
      exact ⟨tbin _, bs, value_bin32 vs vt rfl⟩
  case or =>
    by_cases h0 : rt = 0
    · subst h0
      simp only [if_true, Option.some.injEq] at he; subst he
      refine ⟨ts, bs, ?_⟩
      rw [vs]; simp [r3, St.r]
    · simp only [h0, if_false, Option.some.injEq] at he; subst he
      exact ⟨tbin _, bs, value_bin32 vs vt rfl⟩
  case subu => injection he with he; subst he; exact ⟨tbin _, bs, value_bin32 vs vt rfl⟩
  case and => injection he with he; subst he; exact ⟨tbin _, bs, value_bin32 vs vt rfl⟩
  case xor => injection he with he; subst he; exact ⟨tbin _, bs, value_bin32 vs vt rfl⟩
  case nor =>
    by_cases h0 : rt = 0
    · simp [h0] at he
    · simp only [h0, if_false, Option.some.injEq] at he; subst he
      refine ⟨⟨tbin _, typed_c32 _ (by decide), bs⟩, bs, ?_⟩
      have h1 : value σ (.bin .or (rx rs) (rx rt)) = .ok (ofBV ((absState σ).r rs ||| (absState σ).r rt)) :=
        value_bin32 vs vt rfl
      have h2 : value σ (c32 0xffffffff) = .ok (ofBV (0xffffffff#32)) := rfl
      rw [value_bin32 h1 h2 rfl]
      simp only [r3, xor_allOnes32]

/-- register-register ALU: addu, subu, and, or, xor, nor (with capstone's `move`/`negu` forms) -/
theorem r3_correct {σ : State} (hσ : StateOK σ) (op : R3) (rd rs rt : Reg) (a : Nat) (f : Function)
    (hl : liftI (.r3 op rd rs rt) a = some f) (hop : op ≠ .slt ∧ op ≠ .sltu ∧ op ≠ .movn ∧ op ≠ .movz ∧ op ≠ .mul) (n : Nat) :
    f.cfg.entry = some 0 ∧ ∃ σ', runGraph f (n + 2) ⟨0, 0, σ⟩ = .done σ' ∧
      Sim false σ σ' ((absState σ).w rd (r3 op ((absState σ).r rs) ((absState σ).r rt) ((absState σ).r rd))) := by
  have hl' : (r3Expr op rs rt).map (fun e => g1 a [.assign (rsc rd) e]) = some f := by
    cases op <;> first | exact absurd rfl hop.1 | exact absurd rfl hop.2.1 | exact absurd rfl hop.2.2.1 | exact absurd rfl hop.2.2.2.1 | exact absurd rfl hop.2.2.2.2 | exact hl
  cases he : r3Expr op rs rt with
  | none => rw [he] at hl'; cases hl'
  | some e =>
    rw [he] at hl'
    injection hl' with hl'; subst hl'
    obtain ⟨ht, hb, hv⟩ := r3Expr_value hσ op rd rs rt e he
    exact ⟨rfl, assign_reg_correct hσ a rd e _ ht hb hv n⟩

/-! ### shifts -/

theorem and31_toNat (x : Word) : (x &&& 31#32).toNat = x.toNat % 32 := by
  rw [BitVec.toNat_and]
  exact Nat.and_two_pow_sub_one_eq_mod x.toNat 5

theorem sh_binBV (op : Sh) (x : Word) (k : Nat) (hk : k < 32) :
    Spec.binBV (shOp op) x (BitVec.ofNat 32 k) = some (ofBV (sh op x k)) := by
  have hk' : (BitVec.ofNat 32 k).toNat = k := by
    simp only [BitVec.toNat_ofNat]; omega
  cases op <;> simp only [shOp, Spec.binBV, sh, hk', Spec.shl, Spec.shr, Spec.ashr] <;> rw [if_neg (by omega)]

theorem bits_sh (op : Sh) (l r : Expr) : (Expr.bin (shOp op) l r).bits = l.bits := by cases op <;> rfl

/-- sll/srl/sra by the immediate amount (and `nop`) -/
theorem shi_correct {σ : State} (hσ : StateOK σ) (op : Sh) (rd rt : Reg) (sa : BitVec 5) (a : Nat) (f : Function)
    (hl : liftI (.shi op rd rt sa) a = some f) (n : Nat) :
    f.cfg.entry = some 0 ∧ ∃ σ', runGraph f (n + 2) ⟨0, 0, σ⟩ = .done σ' ∧
      Sim false σ σ' ((absState σ).w rd (sh op ((absState σ).r rt) sa.toNat)) := by
  simp only [liftI] at hl
  by_cases hn : op = .sll ∧ rd = 0 ∧ rt = 0
  · obtain ⟨h1, h2, h3⟩ := hn
    subst h1 h2 h3
    simp only [and_self, if_true] at hl
    by_cases hsa : sa = 0
    · simp only [hsa, if_true, Option.some.injEq] at hl
      subst hl
      refine ⟨rfl, σ, run_g1_one a .nop σ σ n rfl, hσ, ?_, rfl, rfl⟩
      simp only [St.w, if_true]
      exact Eqv.refl _ _
    · rw [if_neg hsa] at hl; cases hl
  · rw [if_neg hn] at hl
    injection hl with hl; subst hl
    have hsa : sa.toNat < 32 := sa.isLt
    have hc : value σ (c32 sa.toNat) = .ok (ofBV (BitVec.ofNat 32 sa.toNat)) := by
      rw [value_c32, c32_eq_ofBV _ (by omega)]
    exact ⟨rfl, assign_reg_correct hσ a rd _ _ (typed_bin (typed_rx hσ rt) (typed_c32 _ (by omega)) (bits_rx rt)) (by rw [bits_sh, bits_rx])
      (value_bin32 (value_rx hσ rt) hc (sh_binBV op _ _ hsa)) n⟩

/-- sllv/srlv/srav: the amount is the low five bits of rs -/
theorem shv_correct {σ : State} (hσ : StateOK σ) (op : Sh) (rd rt rs : Reg) (a : Nat) (n : Nat) :
    ∃ σ', runGraph (g1 a [.assign (rsc rd) (.bin (shOp op) (rx rt) (.bin .and (rx rs) (c32 0x1f)))]) (n + 2) ⟨0, 0, σ⟩ = .done σ' ∧
      Sim false σ σ' ((absState σ).w rd (sh op ((absState σ).r rt) (((absState σ).r rs).toNat % 32))) := by
  have hm : value σ (.bin .and (rx rs) (c32 0x1f)) = .ok (ofBV ((absState σ).r rs &&& 31#32)) :=
    value_bin32 (value_rx hσ rs) (show value σ (c32 0x1f) = .ok (ofBV (31#32)) from rfl) rfl
  have tm : TypedE σ (.bin .and (rx rs) (c32 0x1f)) := ⟨typed_rx hσ rs, typed_c32 _ (by decide), bits_rx rs⟩
  have hk : ((absState σ).r rs).toNat % 32 < 32 := Nat.mod_lt _ (by decide)
  have he : (absState σ).r rs &&& 31#32 = BitVec.ofNat 32 (((absState σ).r rs).toNat % 32) := by
    apply BitVec.eq_of_toNat_eq
    rw [and31_toNat, BitVec.toNat_ofNat]; omega
  rw [he] at hm
  exact assign_reg_correct hσ a rd _ _ (typed_bin (typed_rx hσ rt) tm (by rw [bits_rx]; exact (bits_rx rs).symm)) (by rw [bits_sh, bits_rx])
    (value_bin32 (value_rx hσ rt) hm (sh_binBV op _ _ hk)) n

/-! ### immediates -/

theorem c32_sext (i : BitVec 16) : c32 (sext16Nat i) = .const (ofBV (sext16 i)) := rfl

theorem c32_zext (i : BitVec 16) : c32 i.toNat = .const (ofBV (zext16 i)) := by
  have : (zext16 i).toNat = i.toNat := by
    simp only [zext16, BitVec.toNat_setWidth]
    have := i.isLt
    omega
  simp only [c32, ofBV, this]

theorem typed_const_ofBV {σ : State} (v : Word) : TypedE σ (.const (ofBV v)) := constOK_ofBV32 v

theorem immExpr_value {σ : State} (hσ : StateOK σ) (op : Imm) (rs : Reg) (i : BitVec 16) (h : op ≠ .slti ∧ op ≠ .sltiu) :
    TypedE σ (immExpr op rs i) ∧ (immExpr op rs i).bits = 32 ∧
      value σ (immExpr op rs i) = .ok (ofBV (immOp op ((absState σ).r rs) i)) := by
  have ts := typed_rx hσ rs
  have vs := value_rx hσ rs
  have bs := bits_rx rs
  cases op
  case slti => exact absurd rfl h.1
  case sltiu => exact absurd rfl h.2
  case addiu =>
    simp only [immExpr, c32_sext]
    exact ⟨⟨ts, typed_const_ofBV _, bs⟩, bs, value_bin32 vs rfl rfl⟩
  all_goals
    simp only [immExpr, c32_zext]
    exact ⟨⟨ts, typed_const_ofBV _, bs⟩, bs, value_bin32 vs rfl rfl⟩

/-- addiu, andi, ori, xori -/
theorem imm_correct {σ : State} (hσ : StateOK σ) (op : Imm) (rt rs : Reg) (i : BitVec 16) (a : Nat)
    (h : op ≠ .slti ∧ op ≠ .sltiu) (n : Nat) :
    ∃ σ', runGraph (g1 a [.assign (rsc rt) (immExpr op rs i)]) (n + 2) ⟨0, 0, σ⟩ = .done σ' ∧
      Sim false σ σ' ((absState σ).w rt (immOp op ((absState σ).r rs) i)) := by
  obtain ⟨ht, hb, hv⟩ := immExpr_value hσ op rs i h
  exact assign_reg_correct hσ a rt _ _ ht hb hv n

theorem lui_val (i : BitVec 16) : (⟨32, i.toNat * 65536⟩ : Const) = ofBV (i ++ (0 : BitVec 16)) := by
  have : (i ++ (0 : BitVec 16)).toNat = i.toNat * 65536 := by
    rw [BitVec.toNat_append]
    simp [Nat.shiftLeft_eq]
  simp only [ofBV, this]

theorem lui_correct {σ : State} (hσ : StateOK σ) (rt : Reg) (i : BitVec 16) (a : Nat) (n : Nat) :
    ∃ σ', runGraph (g1 a [.assign (rsc rt) (c32 (i.toNat * 65536))]) (n + 2) ⟨0, 0, σ⟩ = .done σ' ∧
      Sim false σ σ' ((absState σ).w rt (i ++ (0 : BitVec 16))) := by
  have hv : value σ (c32 (i.toNat * 65536)) = .ok (ofBV (i ++ (0 : BitVec 16))) := by
    rw [value_c32, lui_val]
  have ht : TypedE σ (c32 (i.toNat * 65536)) := typed_c32 _ (by have := i.isLt; omega)
  exact assign_reg_correct hσ a rt _ _ ht rfl hv n

/-! ### set-on-less-than: the four-block graphs -/

theorem bit_eq_ofBV (b : Bool) : Const.bit b = ofBV (BitVec.ofBool b) := by cases b <;> rfl

theorem value_not1 {σ : State} {c : Expr} {b : Bool} (hc : value σ c = .ok (Const.bit b)) :
    value σ (not1 c) = .ok (Const.bit (!b)) := by
  rw [bit_eq_ofBV] at hc
  rw [not1, value_bin32 (x := BitVec.ofBool b) (y := 0#1) hc rfl rfl]
  cases b <;> rfl

/-- `rd := (c ? 1 : 0)` through the diamond -/
theorem setcc_correct {σ : State} (hσ : StateOK σ) (a : Nat) (rd : Reg) (c : Expr) (b : Bool)
    (ht : TypedE σ c) (hb : c.bits = 1) (hv : value σ c = .ok (Const.bit b)) (n : Nat) :
    ∃ σ', runGraph (diamond a c [.assign (rsc rd) (c32 1)] [.assign (rsc rd) (c32 0)]) (n + 5) ⟨0, 0, σ⟩ = .done σ' ∧
      Sim false σ σ' ((absState σ).w rd (bit b)) := by
  have hc : σ.evalIn c = .ok (Const.bit b) := by rw [C07.evalIn_eq_value ht]; exact hv
  have tn : TypedE σ (not1 c) := ⟨ht, ⟨by decide, by decide, by decide⟩, by rw [hb]; rfl⟩
  have hn : σ.evalIn (not1 c) = .ok (Const.bit (!b)) := by rw [C07.evalIn_eq_value tn]; exact value_not1 hv
  have x1 : execute σ (.assign (rsc rd) (c32 1)) = .ok (σ.set (regName rd) (ofBV (1 : Word)), .fallThrough) := by
    rw [C07.execute_typed σ _ (show TypedOp σ (.assign (rsc rd) (c32 1)) from ⟨typed_c32 _ (by decide), rfl⟩)]; rfl
  have x0 : execute σ (.assign (rsc rd) (c32 0)) = .ok (σ.set (regName rd) (ofBV (0 : Word)), .fallThrough) := by
    rw [C07.execute_typed σ _ (show TypedOp σ (.assign (rsc rd) (c32 0)) from ⟨typed_c32 _ (by decide), rfl⟩)]; rfl
  refine ⟨_, run_diamond a c _ _ σ _ _ b n hc hn x1 x0, ?_⟩
  cases b
  · exact ⟨stateOK_set_reg hσ rd _, absState_set_reg σ rd _, rfl, C07.get_set_ne σ _ (regName_ne_bc rd).symm⟩
  · exact ⟨stateOK_set_reg hσ rd _, absState_set_reg σ rd _, rfl, C07.get_set_ne σ _ (regName_ne_bc rd).symm⟩

theorem slt_correct {σ : State} (hσ : StateOK σ) (rd rs rt : Reg) (a : Nat) (n : Nat) :
    ∃ σ', runGraph (diamond a (.bin .cmplts (rx rs) (rx rt)) [.assign (rsc rd) (c32 1)] [.assign (rsc rd) (c32 0)]) (n + 5) ⟨0, 0, σ⟩ = .done σ' ∧
      Sim false σ σ' ((absState σ).w rd (bit (((absState σ).r rs).slt ((absState σ).r rt)))) :=
  setcc_correct hσ a rd _ _ (typed_bin (typed_rx hσ rs) (typed_rx hσ rt) (by rw [bits_rx, bits_rx])) rfl
    (value_bin32 (value_rx hσ rs) (value_rx hσ rt) rfl) n

theorem sltu_correct {σ : State} (hσ : StateOK σ) (rd rs rt : Reg) (a : Nat) (n : Nat) :
    ∃ σ', runGraph (diamond a (.bin .cmpltu (rx rs) (rx rt)) [.assign (rsc rd) (c32 1)] [.assign (rsc rd) (c32 0)]) (n + 5) ⟨0, 0, σ⟩ = .done σ' ∧
      Sim false σ σ' ((absState σ).w rd (bit (((absState σ).r rs).ult ((absState σ).r rt)))) :=
  setcc_correct hσ a rd _ _ (typed_bin (typed_rx hσ rs) (typed_rx hσ rt) (by rw [bits_rx, bits_rx])) rfl
    (value_bin32 (value_rx hσ rs) (value_rx hσ rt) rfl) n

theorem slti_correct {σ : State} (hσ : StateOK σ) (rt rs : Reg) (i : BitVec 16) (a : Nat) (n : Nat) :
    ∃ σ', runGraph (diamond a (immExpr .slti rs i) [.assign (rsc rt) (c32 1)] [.assign (rsc rt) (c32 0)]) (n + 5) ⟨0, 0, σ⟩ = .done σ' ∧
      Sim false σ σ' ((absState σ).w rt (immOp .slti ((absState σ).r rs) i)) := by
  simp only [immExpr, c32_sext]
  exact setcc_correct hσ a rt _ _ (typed_bin (typed_rx hσ rs) (typed_const_ofBV _) (bits_rx rs)) rfl
    (value_bin32 (value_rx hσ rs) rfl rfl) n

theorem sltiu_correct {σ : State} (hσ : StateOK σ) (rt rs : Reg) (i : BitVec 16) (a : Nat) (n : Nat) :
    ∃ σ', runGraph (diamond a (immExpr .sltiu rs i) [.assign (rsc rt) (c32 1)] [.assign (rsc rt) (c32 0)]) (n + 5) ⟨0, 0, σ⟩ = .done σ' ∧
      Sim false σ σ' ((absState σ).w rt (immOp .sltiu ((absState σ).r rs) i)) := by
  simp only [immExpr, c32_sext]
  exact setcc_correct hσ a rt _ _ (typed_bin (typed_rx hσ rs) (typed_const_ofBV _) (bits_rx rs)) rfl
    (value_bin32 (value_rx hσ rs) rfl rfl) n

end Falcon.Isa.Mips
