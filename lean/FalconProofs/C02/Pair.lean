/-
  FalconProofs.C02.Pair — a direct branch with its delay slot (`liftPair`) against `step2i`.
-/
import FalconProofs.C02.Branch

namespace Falcon.Isa.Mips
open Falcon Falcon.Sem Falcon.Const

theorem brUncond_value (s : St) (b : Instr) (pc : Word) (t : Nat)
    (hc : brCond b = some none) (ht : brTarget pc b = some t) :
    ∃ target, branch b pc s = some (some ⟨true, target, none⟩) ∧ t = target.toNat := by
  cases b <;> try (simp only [brCond] at hc; cases hc; done)
  case br2 op rs rt off =>
    simp only [brTarget, Option.some.injEq] at ht
    cases op <;> simp only [brCond] at hc
    · by_cases h0 : rs = 0 ∧ rt = 0
      · obtain ⟨h1, h2⟩ := h0; subst h1 h2
        exact ⟨_, by simp [branch], ht.symm⟩
      · rw [if_neg h0] at hc; cases hc
    · cases hc
  case br1 op rs off => cases op <;> simp only [brCond] at hc <;> cases hc
  case j idx =>
    simp only [brTarget, Option.some.injEq] at ht
    exact ⟨_, rfl, ht.symm⟩

theorem absState_set_bc (σ : State) (c : Const) : absState (σ.set "branching_condition" c) = absState σ :=
  absState_set_other σ _ c regName_ne_bc (by decide) (by decide)

theorem stateOK_set_bc {σ : State} (hσ : StateOK σ) (c : Const) : StateOK (σ.set "branching_condition" c) :=
  stateOK_set_other hσ _ c regName_ne_bc (by decide) (by decide)

/-- what `step2i` answers when the branch decides `br` without linking -/
theorem step2i_next {b d : Instr} {pc : Word} {s s' : St} {pc' : Word} {u : Bool} {taken : Bool} {target : Word}
    (hb : branch b pc s = some (some ⟨taken, target, none⟩))
    (hx : step2i b d pc s = .next s' pc' u) :
    d.isBranch = false ∧ ∃ p2, exec d (pc + 4) s = .next s' p2 u ∧ pc' = if taken then target else pc + 8 := by
  unfold step2i at hx
  rw [hb] at hx
  simp only at hx
  by_cases hd : d.isBranch = true
  · rw [if_pos hd] at hx; cases hx
  · rw [if_neg hd] at hx
    refine ⟨by simpa using hd, ?_⟩
    cases he : exec d (pc + 4) s with
    | next s2 p2 u2 =>
      rw [he] at hx
      simp only at hx
      injection hx with h1 h2 h3
      subst h1 h3
      exact ⟨p2, rfl, h2.symm⟩
    | trap t => rw [he] at hx; cases hx
    | env => rw [he] at hx; cases hx
    | fault => rw [he] at hx; cases hx
    | unpredictable => rw [he] at hx; cases hx
    | reserved => rw [he] at hx; cases hx

theorem typed_bc {σ : State} (b : Bool) (h : σ.get "branching_condition" = some (Const.bit b)) : TypedE σ (.scalar bc) := by
  refine ⟨by decide, by decide, ?_⟩
  simp only [HoldsOK, bc, h]
  cases b <;> exact ⟨rfl, by decide⟩

theorem value_bc {σ : State} (b : Bool) (h : σ.get "branching_condition" = some (Const.bit b)) :
    value σ (.scalar bc) = .ok (Const.bit b) := by
  simp only [value, bc, h]

/-- beq, bne, bgez, bgtz, blez, bltz, b, j with any verified instruction in the delay slot -/
theorem pair_correct (b d : Instr) (hd : InstrOK d) (addr : Nat) (r : BTR) (σ : State)
    (hl : liftPair b d addr = some r) (hj : ∀ rs, b ≠ .jr rs) (ha : addr + 8 < 2 ^ 32) (hσ : StateOK σ)
    (s' : St) (pc' : Word) (u : Bool)
    (hx : step2i b d (BitVec.ofNat 32 addr) (absState σ) = .next s' pc' u) :
    ∃ σ', runBTR r σ = .next σ' [pc'.toNat] ∧ StateOK σ' ∧ Eqv u (absState σ') s' ∧ σ'.endian = σ.endian := by
  have h8 : (BitVec.ofNat 32 addr + 8 : Word).toNat = addr + 8 := by
    have h : (8 : Word).toNat = 8 := rfl
    simp only [BitVec.toNat_add, BitVec.toNat_ofNat, h]
    omega
  unfold liftPair at hl
  split at hl
  · cases hl
  · split at hl
    · cases hl
    · rename_i slot hslot
      split at hl
      · rename_i rs; exact absurd rfl (hj rs)
      · split at hl
        · -- unconditional: b, j
          rename_i t hc ht
          injection hl with hl; subst hl
          obtain ⟨target, hbr, htt⟩ := brUncond_value (absState σ) b _ t hc ht
          obtain ⟨_, p2, hex, hpc⟩ := step2i_next hbr hx
          obtain ⟨hent, σ2, hrun, hsim, _⟩ := hd (addr + 4) slot σ _ s' p2 u hslot hσ hex
          refine ⟨σ2, ?_, hsim.ok, hsim.eqv, hsim.endian⟩
          simp only [runBTR]
          rw [go_cons_done _ 4096 (g1 addr [.nop]) _ σ σ (entry_g1 addr [.nop]) (run_g1_one addr .nop σ σ 4094 rfl)]
          rw [go_cons_done _ _ _ _ σ σ2 hent hrun]
          rw [go_cons_done _ 4096 (tailGraph addr) _ σ2 σ2 rfl (run_empty (addr + 1) σ2 4095)]
          rw [go_nil_one _ _ σ2 t none rfl, hpc, htt]
          rfl
        · -- conditional
          rename_i c t hc ht
          injection hl with hl; subst hl
          obtain ⟨taken, target, hbr, htt, tc, bc1, vc⟩ := brCond_value hσ b c _ t hc ht
          obtain ⟨_, p2, hex, hpc⟩ := step2i_next hbr hx
          -- the latch
          have hx1 : execute σ (.assign bc c) = .ok (σ.set "branching_condition" (Const.bit taken), .fallThrough) := by
            rw [C07.execute_typed σ _ (show TypedOp σ (.assign bc c) from ⟨tc, bc1⟩)]
            simp only [vc, bc]
          have hσ1 := stateOK_set_bc hσ (Const.bit taken)
          rw [← absState_set_bc σ (Const.bit taken)] at hex
          obtain ⟨hent, σ2, hrun, hsim, _⟩ := hd (addr + 4) slot _ _ s' p2 u hslot hσ1 hex
          have hl2 : σ2.get "branching_condition" = some (Const.bit taken) := by
            rw [hsim.latch]; exact C07.get_set_self _ _ _
          have e1 : σ2.evalIn (.scalar bc) = .ok (Const.bit taken) := by
            rw [C07.evalIn_eq_value (typed_bc taken hl2)]; exact value_bc taken hl2
          have tn : TypedE σ2 (not1 (.scalar bc)) := typed_bin (typed_bc taken hl2) ⟨by decide, by decide, by decide⟩ rfl
          have e2 : σ2.evalIn (not1 (.scalar bc)) = .ok (Const.bit (!taken)) := by
            rw [C07.evalIn_eq_value tn]; exact value_not1 (value_bc taken hl2)
          refine ⟨σ2, ?_, hsim.ok, ?_, hsim.endian⟩
          · simp only [runBTR]
            rw [go_cons_done _ 4096 (g1 addr [.assign bc c]) _ σ _ (entry_g1 addr [.assign bc c]) (run_g1_one addr _ σ _ 4094 hx1)]
            rw [go_cons_done _ _ _ _ _ σ2 hent hrun]
            rw [go_cons_done _ 4096 (tailGraph addr) _ σ2 σ2 rfl (run_empty (addr + 1) σ2 4095)]
            rw [go_nil_two _ _ σ2 t (addr + 8) (.scalar bc) taken rfl e1 e2, hpc, htt]
            cases taken
            · simp only [Bool.false_eq_true, if_false, h8]
            · simp only [if_true]
          · have := hsim.eqv
            rw [absState_set_bc] at *
            exact this
        · cases hl

end Falcon.Isa.Mips
