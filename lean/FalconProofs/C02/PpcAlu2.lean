/-
  FalconProofs.C02.PpcAlu2 — PowerPC (A): mr, nop, rlwinm/slwi, mflr/mtlr/mtctr, cmpwi/cmplwi, srawi, addze.
-/
import FalconProofs.C02.PpcAlu
import FalconProofs.C02.PpcMask

namespace Falcon.Isa.Ppc
open Falcon Falcon.Sem Falcon.Const
open Falcon.Isa.Mips (g1 tempName c32 c1 typed_bin value_bin32 typed_c32)

theorem abs_set_lr (σ : State) (v : Word) : absState (σ.set (nm 32) (ofBV v)) = { absState σ with lr := v } := by
  rw [abs_set_nm σ (by decide)]
  apply St.ext' <;> simp only [ofNat_ofBV, cbit_bit] <;>
    first | rfl | (funext j; rw [if_neg (by first | omega | (have := j.isLt; omega))]) | simp

theorem abs_set_ctr (σ : State) (v : Word) : absState (σ.set (nm 33) (ofBV v)) = { absState σ with ctr := v } := by
  rw [abs_set_nm σ (by decide)]
  apply St.ext' <;> simp only [ofNat_ofBV, cbit_bit] <;>
    first | rfl | (funext j; rw [if_neg (by first | omega | (have := j.isLt; omega))]) | simp

theorem abs_set_ca (σ : State) (b : Bool) : absState (σ.set (nm 34) (Const.bit b)) = { absState σ with ca := b } := by
  rw [abs_set_nm σ (by decide)]
  apply St.ext' <;> simp only [ofNat_ofBV, cbit_bit] <;>
    first | rfl | (funext j; rw [if_neg (by first | omega | (have := j.isLt; omega))]) | simp

/-- mr (`or` with rs = rb) -/
theorem ok_or (ra rs rb : Reg) (rc : Bool) : InstrOK noSkip (.or_ ra rs rb rc) := by
  intro a f σ pc s' pc' hl hσ hx
  simp only [liftI] at hl
  by_cases h : rs = rb ∧ rc = false
  · rw [if_pos h] at hl
    obtain ⟨h1, h2⟩ := h; subst h1 h2
    injection hl with hl; subst hl
    simp only [exec] at hx
    obtain ⟨h1, h2⟩ := next_inj hx; subst h1 h2
    obtain ⟨σ', he, hs, hag⟩ := gpr_plain hσ ra (gx rs) _ (typed_gx hσ rs) rfl (value_gx hσ rs)
    rw [BitVec.or_self]
    exact finish a _ (by simp) he hs hag pc
  · rw [if_neg h] at hl; cases hl

/-- nop (`ori 0,0,0`) -/
theorem ok_ori (ra rs : Reg) (ui : BitVec 16) : InstrOK noSkip (.ori ra rs ui) := by
  intro a f σ pc s' pc' hl hσ hx
  simp only [liftI] at hl
  by_cases h : ra = 0 ∧ rs = 0 ∧ ui = 0
  · rw [if_pos h] at hl
    obtain ⟨h1, h2, h3⟩ := h; subst h1 h2 h3
    injection hl with hl; subst hl
    simp only [exec] at hx
    obtain ⟨h1, h2⟩ := next_inj hx; subst h1 h2
    have : (absState σ).w 0 ((absState σ).gpr 0 ||| zext16 0) = absState σ := by
      apply St.ext' <;> try rfl
      funext j
      simp only [St.w]
      split
      · next h => subst h; simp [zext16]
      · rfl
    rw [this]
    exact finish a [.nop] (by simp) (show execAll σ [.nop] = some σ from rfl) hσ (Agree.of_eq rfl _) pc
  · rw [if_neg h] at hl; cases hl

theorem ok_mflr (rt : Reg) : InstrOK noSkip (.mflr rt) := by
  intro a f σ pc s' pc' hl hσ hx
  simp only [liftI, Option.some.injEq] at hl; subst hl
  simp only [exec] at hx
  obtain ⟨h1, h2⟩ := next_inj hx; subst h1 h2
  obtain ⟨σ', he, hs, hag⟩ := gpr_plain hσ rt (.scalar lrS) _ (typed_s32 hσ (by decide)) rfl (value_s32 hσ (k := 32) (by decide))
  exact finish a _ (by simp) he hs hag pc

theorem ok_mtlr (rs : Reg) : InstrOK noSkip (.mtlr rs) := by
  intro a f σ pc s' pc' hl hσ hx
  simp only [liftI, Option.some.injEq] at hl; subst hl
  simp only [exec] at hx
  obtain ⟨h1, h2⟩ := next_inj hx; subst h1 h2
  have x1 := exec_assign (dst := lrS) (typed_gx hσ rs) rfl (value_gx hσ rs)
  exact finish a _ (by simp) (by rw [execAll_cons x1]; rfl) (stateOK_set32 hσ (by decide) _)
    (Agree.of_eq (abs_set_lr σ _) _) pc

theorem ok_mtctr (rs : Reg) : InstrOK noSkip (.mtctr rs) := by
  intro a f σ pc s' pc' hl hσ hx
  simp only [liftI, Option.some.injEq] at hl; subst hl
  simp only [exec] at hx
  obtain ⟨h1, h2⟩ := next_inj hx; subst h1 h2
  have x1 := exec_assign (dst := ctrS) (typed_gx hσ rs) rfl (value_gx hσ rs)
  exact finish a _ (by simp) (by rw [execAll_cons x1]; rfl) (stateOK_set32 hσ (by decide) _)
    (Agree.of_eq (abs_set_ctr σ _) _) pc

def skipBf (bf : BitVec 3) : Nat → Bool := fun i => i == 4 * bf.toNat + 3

/-- cmpwi crN, ra, si (N ≠ 0) -/
theorem ok_cmpi (bf : BitVec 3) (ra : Reg) (si : BitVec 16) : InstrOK (skipBf bf) (.cmpi bf ra si) := by
  intro a f σ pc s' pc' hl hσ hx
  simp only [liftI] at hl
  by_cases h : bf = 0
  · rw [if_pos h] at hl; cases hl
  · rw [if_neg h] at hl
    injection hl with hl; subst hl
    simp only [exec] at hx
    obtain ⟨h1, h2⟩ := next_inj hx; subst h1 h2
    obtain ⟨σ', he, hs, hag⟩ := setCrOps_correct hσ .cmplts bf.toNat bf.isLt (gx ra) (c32 (sextNat si))
      ((absState σ).gpr ra) (sext16 si) (fun p q => p.slt q) (fun _ _ => rfl)
      (fun σ' hσ' hg => value_gx_of hσ' ra _ (by rw [hg]))
      (fun σ' _ _ => ⟨typed_ofBV (sext16 si), rfl, rfl⟩)
    exact finish a _ (by simp [setCrOps]) he hs hag pc

/-- cmplwi crN, ra, ui (N ≠ 0) -/
theorem ok_cmpli (bf : BitVec 3) (ra : Reg) (ui : BitVec 16) : InstrOK (skipBf bf) (.cmpli bf ra ui) := by
  intro a f σ pc s' pc' hl hσ hx
  simp only [liftI] at hl
  by_cases h : bf = 0
  · rw [if_pos h] at hl; cases hl
  · rw [if_neg h] at hl
    injection hl with hl; subst hl
    simp only [exec] at hx
    obtain ⟨h1, h2⟩ := next_inj hx; subst h1 h2
    have hz : c32 ui.toNat = .const (ofBV (zext16 ui)) := Mips.c32_zext ui
    obtain ⟨σ', he, hs, hag⟩ := setCrOps_correct hσ .cmpltu bf.toNat bf.isLt (gx ra) (c32 ui.toNat)
      ((absState σ).gpr ra) (zext16 ui) (fun p q => p.ult q) (fun _ _ => rfl)
      (fun σ' hσ' hg => value_gx_of hσ' ra _ (by rw [hg]))
      (fun σ' _ _ => by rw [hz]; exact ⟨typed_ofBV _, rfl, rfl⟩)
    exact finish a _ (by simp [setCrOps]) he hs hag pc

/-! ### rlwinm -/

theorem mask_ofNat (mb me : BitVec 5) : BitVec.ofNat 32 (maskLifter mb.toNat me.toNat) = mask mb.toNat me.toNat := by
  have := mask_eq_maskLifter ⟨mb.toNat, mb.isLt⟩ ⟨me.toNat, me.isLt⟩
  simp only at this
  rw [← this]
  simp

theorem maskLifter_lt (mb me : BitVec 5) : maskLifter mb.toNat me.toNat < 2 ^ 32 := by
  have := mask_eq_maskLifter ⟨mb.toNat, mb.isLt⟩ ⟨me.toNat, me.isLt⟩
  simp only at this
  rw [← this]; exact (mask mb.toNat me.toNat).isLt

theorem value_rotl {σ : State} {e : Expr} {x : Word} (te : TypedE σ e) (be : e.bits = 32) (ve : value σ e = .ok (ofBV x))
    (sh : BitVec 5) :
    TypedE σ (rotlX e sh.toNat) ∧ (rotlX e sh.toNat).bits = 32 ∧ value σ (rotlX e sh.toNat) = .ok (ofBV (x.rotateLeft sh.toNat)) := by
  have hsh : sh.toNat < 32 := sh.isLt
  have tsh : TypedE σ (c32 sh.toNat) := typed_c32 _ (by omega)
  have t32 : TypedE σ (c32 32) := typed_c32 _ (by decide)
  have vs : value σ (.bin .modu (c32 sh.toNat) (c32 32)) = .ok (ofBV (BitVec.ofNat 32 sh.toNat)) := by
    have h1 : value σ (c32 sh.toNat) = .ok (ofBV (BitVec.ofNat 32 sh.toNat)) := by
      rw [Mips.value_c32, Mips.c32_eq_ofBV _ (by omega)]
    rw [value_bin32 h1 (show value σ (c32 32) = .ok (ofBV (32#32)) from rfl)
      (show Spec.binBV .modu (BitVec.ofNat 32 sh.toNat) (32#32) = some (ofBV (BitVec.ofNat 32 sh.toNat % 32#32)) from by
        simp [Spec.binBV])]
    congr 2
    apply BitVec.eq_of_toNat_eq
    simp only [BitVec.toNat_umod, BitVec.toNat_ofNat, Nat.reducePow, Nat.reduceMod]
    omega
  have ts : TypedE σ (.bin .modu (c32 sh.toNat) (c32 32)) := typed_bin tsh t32 rfl
  have hk : (BitVec.ofNat 32 sh.toNat).toNat = sh.toNat := by simp only [BitVec.toNat_ofNat]; omega
  have v1 : value σ (.bin .shl e (.bin .modu (c32 sh.toNat) (c32 32))) = .ok (ofBV (x <<< sh.toNat)) := by
    rw [value_bin32 ve vs (show Spec.binBV .shl x _ = some (ofBV (Spec.shl x (BitVec.ofNat 32 sh.toNat).toNat)) from rfl), hk]
    simp only [Spec.shl]; rw [if_neg (by omega)]
  have vd : value σ (.bin .sub (c32 32) (.bin .modu (c32 sh.toNat) (c32 32))) = .ok (ofBV (32#32 - BitVec.ofNat 32 sh.toNat)) :=
    value_bin32 (show value σ (c32 32) = .ok (ofBV (32#32)) from rfl) vs rfl
  have hd : (32#32 - BitVec.ofNat 32 sh.toNat).toNat = 32 - sh.toNat := by
    simp only [BitVec.toNat_sub, BitVec.toNat_ofNat]; omega
  have v2 : value σ (.bin .shr e (.bin .sub (c32 32) (.bin .modu (c32 sh.toNat) (c32 32)))) = .ok (ofBV (x >>> (32 - sh.toNat))) := by
    rw [value_bin32 ve vd (show Spec.binBV .shr x _ = some (ofBV (Spec.shr x (32#32 - BitVec.ofNat 32 sh.toNat).toNat)) from rfl), hd]
    simp only [Spec.shr]
    by_cases h0 : sh.toNat = 0
    · rw [if_pos (by omega)]
      congr 2
      apply BitVec.eq_of_toNat_eq
      simp [h0, BitVec.toNat_ushiftRight, Nat.shiftRight_eq_div_pow]
      exact (Nat.div_eq_of_lt x.isLt).symm
    · rw [if_neg (by omega)]
  have bsh : (Expr.bin .shl e (.bin .modu (c32 sh.toNat) (c32 32))).bits = 32 := be
  refine ⟨typed_bin (typed_bin te ts (by rw [be]; rfl)) (typed_bin te (typed_bin t32 ts rfl) (by rw [be]; rfl)) (by rw [bsh]; exact be.symm),
    bsh, ?_⟩
  rw [rotlX, value_bin32 v1 v2 rfl]
  congr 2
  rw [BitVec.rotateLeft_def]
  rw [Nat.mod_eq_of_lt hsh]

theorem bits_rotl (e : Expr) (sh : Nat) (be : e.bits = 32) : (rotlX e sh).bits = 32 := be

theorem ok_rlwinm (ra rs : Reg) (sh mb me : BitVec 5) (rc : Bool) : InstrOK (skipRc rc) (.rlwinm ra rs sh mb me rc) := by
  intro a f σ pc s' pc' hl hσ hx
  simp only [liftI] at hl
  by_cases h : rlwinmRejected sh mb me = true
  · rw [if_pos h] at hl; cases hl
  · rw [if_neg h] at hl
    injection hl with hl; subst hl
    simp only [exec] at hx
    obtain ⟨h1, h2⟩ := next_inj hx; subst h1 h2
    obtain ⟨tr, br, vr⟩ := value_rotl (typed_gx hσ rs) rfl (value_gx hσ rs) sh
    have vm : value σ (c32 (maskLifter mb.toNat me.toNat)) = .ok (ofBV (mask mb.toNat me.toNat)) := by
      rw [Mips.value_c32, Mips.c32_eq_ofBV _ (maskLifter_lt mb me), mask_ofNat]
    obtain ⟨σ', he, hs, hag⟩ := gpr_record hσ ra (.bin .and (rotlX (gx rs) sh.toNat) (c32 (maskLifter mb.toNat me.toNat))) _ rc
      (typed_bin tr (typed_c32 _ (maskLifter_lt mb me)) br) br (value_bin32 vr vm rfl)
    exact finish a _ (by have := recordOps_length rc ra; simp; omega) he hs hag pc

end Falcon.Isa.Ppc
