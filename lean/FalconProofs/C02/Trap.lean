/-
  FalconProofs.C02.Trap — MIPS (A): the trapping arithmetic add, addi, sub.  The IL decides overflow on the 64-bit
  sum/difference of the sign-extended operands (bit 32 ≠ bit 31); the interpreter on the 33-bit one.  Both paths are proved
  for ALL operand values: no overflow ⇒ the register write; overflow ⇒ the `IntegerOverflow` intrinsic stops the run.
-/
import FalconProofs.C02.HiLo

namespace Falcon.Isa.Mips
open Falcon Falcon.Sem Falcon.Const

theorem trun1 (t : BitVec 64) (k : Nat) : (t >>> k).truncate 1 = BitVec.ofBool (t.getLsbD k) := by
  apply BitVec.eq_of_getLsbD_eq
  intro i hi
  have : i = 0 := by omega
  subst this
  simp

theorem ofBool_bne (p q : Bool) : (BitVec.ofBool p != BitVec.ofBool q) = (p != q) := by cases p <;> cases q <;> rfl

theorem sw_sext (a : Word) : (a.signExtend 64).setWidth 33 = a.signExtend 33 := by
  apply BitVec.eq_of_getLsbD_eq
  intro i hi
  simp only [BitVec.getLsbD_setWidth, BitVec.getLsbD_signExtend]
  by_cases h : i < 32 <;> simp [h, hi] <;> omega

theorem bit_add (a b : Word) (k : Nat) (hk : k < 33) :
    (a.signExtend 64 + b.signExtend 64).getLsbD k = (a.signExtend 33 + b.signExtend 33).getLsbD k := by
  rw [← sw_sext a, ← sw_sext b, ← BitVec.setWidth_add _ _ (by decide), BitVec.getLsbD_setWidth]
  simp [hk]

theorem bit_sub (a b : Word) (k : Nat) (hk : k < 33) :
    (a.signExtend 64 - b.signExtend 64).getLsbD k = (a.signExtend 33 - b.signExtend 33).getLsbD k := by
  rw [BitVec.sub_eq_add_neg, BitVec.sub_eq_add_neg (a.signExtend 33), ← sw_sext a, ← sw_sext b,
    ← BitVec.setWidth_neg_of_le (by decide), ← BitVec.setWidth_add _ _ (by decide), BitVec.getLsbD_setWidth]
  simp [hk]

theorem sw32_sext (x : Word) : (x.signExtend 33).setWidth 32 = x := by
  apply BitVec.eq_of_getLsbD_eq
  intro i hi
  simp only [BitVec.getLsbD_setWidth, BitVec.getLsbD_signExtend]
  have h1 : i < 33 := by omega
  simp [hi, h1]

/-- the 64-bit operation the IL uses and the 33-bit one of the manual -/
def op64 (op : BinOp) (x y : BitVec 64) : BitVec 64 := if op = .add then x + y else x - y
def op33 (op : BinOp) (x y : BitVec 33) : BitVec 33 := if op = .add then x + y else x - y

/-- the overflow guard has the value "bit 32 ≠ bit 31 of the 33-bit result" -/
theorem value_ov {σ : State} (op : BinOp) (hop : op = .add ∨ op = .sub) {l r : Expr} {a b : Word}
    (tl : TypedE σ l) (bl : l.bits = 32) (vl : value σ l = .ok (ofBV a))
    (tr : TypedE σ r) (br : r.bits = 32) (vr : value σ r = .ok (ofBV b)) :
    TypedE σ (ovExpr op l r) ∧ (ovExpr op l r).bits = 1 ∧
      value σ (ovExpr op l r) = .ok (Const.bit ((op33 op (a.signExtend 33) (b.signExtend 33)).getLsbD 32 !=
        (op33 op (a.signExtend 33) (b.signExtend 33)).getLsbD 31)) := by
  obtain ⟨t1, v1⟩ := value_ext64 .sext (.inl rfl) tl bl vl
  obtain ⟨t2, v2⟩ := value_ext64 .sext (.inl rfl) tr br vr
  simp only [if_true] at v1 v2
  have vt : value σ (.bin op (.ext .sext 64 l) (.ext .sext 64 r)) = .ok (ofBV (op64 op (a.signExtend 64) (b.signExtend 64))) := by
    rcases hop with h | h <;> subst h <;> exact value_bin32 v1 v2 rfl
  have tt : TypedE σ (.bin op (.ext .sext 64 l) (.ext .sext 64 r)) := typed_bin t1 t2 rfl
  have bt : (Expr.bin op (.ext .sext 64 l) (.ext .sext 64 r)).bits = 64 := by rcases hop with h | h <;> subst h <;> rfl
  have hbit : ∀ k, k < 33 → (op64 op (a.signExtend 64) (b.signExtend 64)).getLsbD k = (op33 op (a.signExtend 33) (b.signExtend 33)).getLsbD k := by
    intro k hk
    rcases hop with h | h <;> subst h
    · exact bit_add a b k hk
    · exact bit_sub a b k hk
  -- one shifted-and-truncated bit
  have one : ∀ k, k < 33 → TypedE σ (.ext .trun 1 (.bin .shr (.bin op (.ext .sext 64 l) (.ext .sext 64 r)) (.const ⟨64, k⟩))) ∧
      value σ (.ext .trun 1 (.bin .shr (.bin op (.ext .sext 64 l) (.ext .sext 64 r)) (.const ⟨64, k⟩))) =
        .ok (ofBV (BitVec.ofBool ((op33 op (a.signExtend 33) (b.signExtend 33)).getLsbD k))) := by
    intro k hk
    have ck : (⟨64, k⟩ : Const) = ofBV (BitVec.ofNat 64 k) := by simp [ofBV]; omega
    have tk : TypedE σ (.const ⟨64, k⟩) := ⟨by show k < 2 ^ 64; omega, (by decide : 1 ≤ 64), (by decide : (64 : Nat) < 2 ^ 64)⟩
    have hkk : (BitVec.ofNat 64 k).toNat = k := by simp only [BitVec.toNat_ofNat]; omega
    have vs : value σ (.bin .shr (.bin op (.ext .sext 64 l) (.ext .sext 64 r)) (.const ⟨64, k⟩)) =
        .ok (ofBV (op64 op (a.signExtend 64) (b.signExtend 64) >>> k)) := by
      rw [value_bin32 vt (show value σ (.const ⟨64, k⟩) = .ok (ofBV (BitVec.ofNat 64 k)) from by rw [← ck]; rfl)
        (show Spec.binBV .shr _ _ = some (ofBV (Spec.shr (op64 op (a.signExtend 64) (b.signExtend 64)) (BitVec.ofNat 64 k).toNat)) from rfl), hkk]
      simp only [Spec.shr]; rw [if_neg (by omega)]
    have ts : TypedE σ (.bin .shr (.bin op (.ext .sext 64 l) (.ext .sext 64 r)) (.const ⟨64, k⟩)) := typed_bin tt tk bt
    refine ⟨⟨ts, by decide, by decide, by show 1 < (Expr.bin .shr _ _).bits; rw [show (Expr.bin .shr (.bin op (.ext .sext 64 l) (.ext .sext 64 r)) (.const ⟨64, k⟩)).bits = 64 from bt]; decide⟩, ?_⟩
    rw [show value σ (.ext .trun 1 (.bin .shr (.bin op (.ext .sext 64 l) (.ext .sext 64 r)) (.const ⟨64, k⟩))) =
      (value σ (.bin .shr (.bin op (.ext .sext 64 l) (.ext .sext 64 r)) (.const ⟨64, k⟩)) >>= fun c => Spec.ext .trun c 1) from rfl, vs]
    simp only [Res.bind_ok, Spec.ext, ofBV_bits, toBV_ofBV]
    rw [if_neg (by decide), trun1, hbit k hk]
  obtain ⟨t32, v32⟩ := one 32 (by decide)
  obtain ⟨t31, v31⟩ := one 31 (by decide)
  refine ⟨typed_bin t32 t31 rfl, rfl, ?_⟩
  rw [ovExpr, value_bin32 v32 v31 rfl, ofBool_bne]

theorem block_trap (a : Nat) (ov : Expr) (op : Op) :
    (trapGraph a ov op).block 0 = some (mkBlock a 0 [.nop]) ∧
    (trapGraph a ov op).block 1 = some (mkBlock a 1 [.intrinsic { mnemonic := "IntegerOverflow" }]) ∧
    (trapGraph a ov op).block 2 = some (mkBlock a 2 [op]) ∧ (trapGraph a ov op).block 3 = some (mkBlock a 3 []) :=
  ⟨rfl, rfl, rfl, rfl⟩

/-- no overflow: the operation runs -/
theorem run_trap_ok (a : Nat) (ov : Expr) (op : Op) (σ σ' : State) (n : Nat)
    (hc : σ.evalIn ov = .ok (Const.bit false)) (hn : σ.evalIn (not1 ov) = .ok (Const.bit true))
    (hx : execute σ op = .ok (σ', .fallThrough)) :
    runGraph (trapGraph a ov op) (n + 5) ⟨0, 0, σ⟩ = .done σ' := by
  obtain ⟨b0, _, b2, b3⟩ := block_trap a ov op
  rw [runGraph_instr b0 (i := mkIns a 0 .nop) rfl rfl]
  rw [runGraph_edge ⟨0, 2, some (not1 ov)⟩ b0 rfl (by intro h; cases h) (pick_two_second σ _ _ ov (not1 ov) rfl rfl hc hn)]
  rw [runGraph_instr b2 (i := mkIns a 0 op) rfl hx]
  rw [runGraph_edge ⟨2, 3, none⟩ b2 rfl (by intro h; cases h) rfl]
  exact runGraph_done b3 rfl rfl

/-- overflow: the run stops at the `IntegerOverflow` intrinsic, the state untouched -/
theorem run_trap_ov (a : Nat) (ov : Expr) (op : Op) (σ : State) (n : Nat) (hc : σ.evalIn ov = .ok (Const.bit true)) :
    runGraph (trapGraph a ov op) (n + 3) ⟨0, 0, σ⟩ = .stop σ "err:intrinsic" := by
  obtain ⟨b0, b1, _, _⟩ := block_trap a ov op
  rw [runGraph_instr b0 (i := mkIns a 0 .nop) rfl rfl]
  rw [runGraph_edge ⟨0, 1, some ov⟩ b0 rfl (by intro h; cases h) (pick_two_first σ _ _ ov rfl hc)]
  exact runGraph_stop b1 (i := mkIns a 0 (.intrinsic { mnemonic := "IntegerOverflow" })) rfl rfl

/-- the two outcomes of a trapping graph `dst := l op r`, for all operand values -/
theorem trap_correct {σ : State} (hσ : StateOK σ) (op : BinOp) (hop : op = .add ∨ op = .sub) (rd : Reg) (l r : Expr) (x y : Word)
    (tl : TypedE σ l) (bl : l.bits = 32) (vl : value σ l = .ok (ofBV x))
    (tr : TypedE σ r) (br : r.bits = 32) (vr : value σ r = .ok (ofBV y)) (a : Nat) :
    let t := op33 op (x.signExtend 33) (y.signExtend 33)
    (t.getLsbD 32 ≠ t.getLsbD 31 →
      runGraph (trapGraph a (ovExpr op l r) (.assign (rsc rd) (.bin op l r))) 4096 ⟨0, 0, σ⟩ = .stop σ "err:intrinsic") ∧
    (¬ t.getLsbD 32 ≠ t.getLsbD 31 →
      ∃ σ', runGraph (trapGraph a (ovExpr op l r) (.assign (rsc rd) (.bin op l r))) 4096 ⟨0, 0, σ⟩ = .done σ' ∧
        Sim false σ σ' ((absState σ).w rd (t.truncate 32))) := by
  intro t
  obtain ⟨to, bo, vo⟩ := value_ov op hop tl bl vl tr br vr
  have eo : σ.evalIn (ovExpr op l r) = .ok (Const.bit (t.getLsbD 32 != t.getLsbD 31)) := by rw [C07.evalIn_eq_value to]; exact vo
  constructor
  · intro h
    have hb : (t.getLsbD 32 != t.getLsbD 31) = true := by simpa using h
    rw [hb] at eo
    exact run_trap_ov a _ _ σ 4093 eo
  · intro h
    have hb : (t.getLsbD 32 != t.getLsbD 31) = false := by simpa using h
    rw [hb] at eo vo
    have tn : TypedE σ (not1 (ovExpr op l r)) := typed_bin to ⟨by decide, by decide, by decide⟩ (by rw [bo]; rfl)
    have en : σ.evalIn (not1 (ovExpr op l r)) = .ok (Const.bit true) := by rw [C07.evalIn_eq_value tn]; exact value_not1 vo
    have hval : value σ (.bin op l r) = .ok (ofBV (t.truncate 32)) := by
      rcases hop with h' | h' <;> subst h'
      · rw [value_bin32 vl vr (show Spec.binBV .add x y = some (ofBV (x + y)) from rfl)]
        congr 2
        show x + y = BitVec.setWidth 32 (x.signExtend 33 + y.signExtend 33)
        rw [BitVec.setWidth_add _ _ (by decide)]
        rw [sw32_sext, sw32_sext]
      · rw [value_bin32 vl vr (show Spec.binBV .sub x y = some (ofBV (x - y)) from rfl)]
        congr 2
        show x - y = BitVec.setWidth 32 (x.signExtend 33 - y.signExtend 33)
        rw [BitVec.sub_eq_add_neg, BitVec.sub_eq_add_neg (x.signExtend 33), BitVec.setWidth_add _ _ (by decide),
          BitVec.setWidth_neg_of_le (by decide)]
        rw [sw32_sext, sw32_sext]
    have bb : (Expr.bin op l r).bits = 32 := by rcases hop with h' | h' <;> subst h' <;> exact bl
    have hx : execute σ (.assign (rsc rd) (.bin op l r)) = .ok (σ.set (regName rd) (ofBV (t.truncate 32)), .fallThrough) :=
      exec_assign32 (dst := rsc rd) (typed_bin tl tr (by rw [bl, br])) bb hval
    exact ⟨_, run_trap_ok a _ _ σ _ 4091 eo en hx,
      stateOK_set_reg hσ rd _, absState_set_reg σ rd _, rfl, C07.get_set_ne σ _ (regName_ne_bc rd).symm⟩

end Falcon.Isa.Mips
