/-
  FalconProofs.C02.InstrOK — `InstrOK i` for every mirrored non-branch class.
-/
import FalconProofs.C02.Pair
import FalconProofs.C02.Store
import FalconProofs.C02.HiLo
import FalconProofs.C02.Trap

namespace Falcon.Isa.Mips
open Falcon Falcon.Sem Falcon.Const

theorem next_inj {s₁ s₂ : St} {p₁ p₂ : Word} {u₁ u₂ : Bool} (h : Outcome.next s₁ p₁ u₁ = .next s₂ p₂ u₂) :
    s₁ = s₂ ∧ p₁ = p₂ ∧ u₁ = u₂ := by
  injection h with a b c; exact ⟨a, b, c⟩

theorem instrOK_r3 (op : R3) (rd rs rt : Reg) : InstrOK (.r3 op rd rs rt) := by
  intro a f σ pc s' pc' u hl hσ hx
  simp only [exec] at hx
  obtain ⟨h1, h2, h3⟩ := next_inj hx
  subst h1 h2
  by_cases hs : op = .slt
  · subst hs
    simp only [liftI, Option.some.injEq] at hl; subst hl; subst h3
    obtain ⟨σ', hr, hsim⟩ := slt_correct hσ rd rs rt a 4091
    exact ⟨rfl, σ', hr, hsim, rfl⟩
  by_cases hu : op = .sltu
  · subst hu
    simp only [liftI, Option.some.injEq] at hl; subst hl; subst h3
    obtain ⟨σ', hr, hsim⟩ := sltu_correct hσ rd rs rt a 4091
    exact ⟨rfl, σ', hr, hsim, rfl⟩
  by_cases hn : op = .movn
  · subst hn
    simp only [liftI, Option.some.injEq] at hl; subst hl; subst h3
    obtain ⟨σ', hr, hsim⟩ := movn_correct hσ rd rs rt a 4091
    exact ⟨rfl, σ', hr, hsim, rfl⟩
  by_cases hz : op = .movz
  · subst hz
    simp only [liftI, Option.some.injEq] at hl; subst hl; subst h3
    obtain ⟨σ', hr, hsim⟩ := movz_correct hσ rd rs rt a 4091
    exact ⟨rfl, σ', hr, hsim, rfl⟩
  by_cases hm : op = .mul
  · subst hm
    simp only [liftI, Option.some.injEq] at hl; subst hl; subst h3
    obtain ⟨σ', hr, hsim⟩ := mul_correct hσ rd rs rt a
    exact ⟨rfl, σ', hr, hsim, rfl⟩
  have hu' : u = false := by
    rw [← h3]; cases op <;> first | rfl | exact absurd rfl hm
  subst hu'
  obtain ⟨he, σ', hr, hsim⟩ := r3_correct hσ op rd rs rt a f hl ⟨hs, hu, hn, hz, hm⟩ 4094
  exact ⟨he, σ', hr, hsim, rfl⟩

theorem instrOK_shi (op : Sh) (rd rt : Reg) (sa : BitVec 5) : InstrOK (.shi op rd rt sa) := by
  intro a f σ pc s' pc' u hl hσ hx
  simp only [exec] at hx
  obtain ⟨h1, h2, h3⟩ := next_inj hx
  subst h1 h2 h3
  obtain ⟨he, σ', hr, hsim⟩ := shi_correct hσ op rd rt sa a f hl 4094
  exact ⟨he, σ', hr, hsim, rfl⟩

theorem instrOK_shv (op : Sh) (rd rt rs : Reg) : InstrOK (.shv op rd rt rs) := by
  intro a f σ pc s' pc' u hl hσ hx
  simp only [exec] at hx
  obtain ⟨h1, h2, h3⟩ := next_inj hx
  subst h1 h2 h3
  simp only [liftI, Option.some.injEq] at hl; subst hl
  obtain ⟨σ', hr, hsim⟩ := shv_correct hσ op rd rt rs a 4094
  exact ⟨rfl, σ', hr, hsim, rfl⟩

theorem instrOK_imm (op : Imm) (rt rs : Reg) (i : BitVec 16) : InstrOK (.imm op rt rs i) := by
  intro a f σ pc s' pc' u hl hσ hx
  simp only [exec] at hx
  obtain ⟨h1, h2, h3⟩ := next_inj hx
  subst h1 h2 h3
  by_cases hs : op = .slti
  · subst hs
    simp only [liftI, Option.some.injEq] at hl; subst hl
    obtain ⟨σ', hr, hsim⟩ := slti_correct hσ rt rs i a 4091
    exact ⟨rfl, σ', hr, hsim, rfl⟩
  by_cases hu : op = .sltiu
  · subst hu
    simp only [liftI, Option.some.injEq] at hl; subst hl
    obtain ⟨σ', hr, hsim⟩ := sltiu_correct hσ rt rs i a 4091
    exact ⟨rfl, σ', hr, hsim, rfl⟩
  have hl' : f = g1 a [.assign (rsc rt) (immExpr op rs i)] := by
    cases op <;> first | exact absurd rfl hs | exact absurd rfl hu | (simp only [liftI, Option.some.injEq] at hl; exact hl.symm)
  subst hl'
  obtain ⟨σ', hr, hsim⟩ := imm_correct hσ op rt rs i a ⟨hs, hu⟩ 4094
  exact ⟨rfl, σ', hr, hsim, rfl⟩

theorem instrOK_lui (rt : Reg) (i : BitVec 16) : InstrOK (.lui rt i) := by
  intro a f σ pc s' pc' u hl hσ hx
  simp only [exec] at hx
  obtain ⟨h1, h2, h3⟩ := next_inj hx
  subst h1 h2 h3
  simp only [liftI, Option.some.injEq] at hl; subst hl
  obtain ⟨σ', hr, hsim⟩ := lui_correct hσ rt i a 4094
  exact ⟨rfl, σ', hr, hsim, rfl⟩

theorem c32_sext_typed {σ : State} (i : BitVec 16) :
    TypedE σ (c32 (sext16Nat i)) ∧ (c32 (sext16Nat i)).bits = 32 ∧ value σ (c32 (sext16Nat i)) = .ok (ofBV (sext16 i)) :=
  ⟨typed_const_ofBV (sext16 i), rfl, rfl⟩

theorem instrOK_r3t (op : R3T) (rd rs rt : Reg) : InstrOK (.r3t op rd rs rt) := by
  intro a f σ pc s' pc' u hl hσ hx
  cases op
  · simp only [liftI, Option.some.injEq] at hl; subst hl
    simp only [exec, addOv] at hx
    by_cases hov : (((absState σ).r rs).signExtend 33 + ((absState σ).r rt).signExtend 33).getLsbD 32 ≠ (((absState σ).r rs).signExtend 33 + ((absState σ).r rt).signExtend 33).getLsbD 31
    · rw [if_pos hov] at hx; cases hx
    · rw [if_neg hov] at hx
      obtain ⟨h1, h2, h3⟩ := next_inj' hx; subst h1 h2 h3
      obtain ⟨σ', hr, hsim⟩ := (trap_correct hσ .add (.inl rfl) rd (rx rs) (rx rt) _ _ (typed_rx hσ rs) (bits_rx rs) (value_rx hσ rs)
        (typed_rx hσ rt) (bits_rx rt) (value_rx hσ rt) a).2 hov
      exact ⟨rfl, σ', hr, hsim, rfl⟩
  · simp only [liftI] at hl
    by_cases h0 : rs = 0
    · rw [if_pos h0] at hl; cases hl
    · rw [if_neg h0] at hl
      injection hl with hl; subst hl
      simp only [exec, subOv] at hx
      by_cases hov : (((absState σ).r rs).signExtend 33 - ((absState σ).r rt).signExtend 33).getLsbD 32 ≠ (((absState σ).r rs).signExtend 33 - ((absState σ).r rt).signExtend 33).getLsbD 31
      · rw [if_pos hov] at hx; cases hx
      · rw [if_neg hov] at hx
        obtain ⟨h1, h2, h3⟩ := next_inj' hx; subst h1 h2 h3
        obtain ⟨σ', hr, hsim⟩ := (trap_correct hσ .sub (.inr rfl) rd (rx rs) (rx rt) _ _ (typed_rx hσ rs) (bits_rx rs) (value_rx hσ rs)
          (typed_rx hσ rt) (bits_rx rt) (value_rx hσ rt) a).2 hov
        exact ⟨rfl, σ', hr, hsim, rfl⟩

theorem instrOK_addi (rt rs : Reg) (i : BitVec 16) : InstrOK (.addi rt rs i) := by
  intro a f σ pc s' pc' u hl hσ hx
  simp only [liftI, Option.some.injEq] at hl; subst hl
  simp only [exec, addOv] at hx
  obtain ⟨tc, bc', vc⟩ := c32_sext_typed (σ := σ) i
  by_cases hov : (((absState σ).r rs).signExtend 33 + (sext16 i).signExtend 33).getLsbD 32 ≠ (((absState σ).r rs).signExtend 33 + (sext16 i).signExtend 33).getLsbD 31
  · rw [if_pos hov] at hx; cases hx
  · rw [if_neg hov] at hx
    obtain ⟨h1, h2, h3⟩ := next_inj' hx; subst h1 h2 h3
    obtain ⟨σ', hr, hsim⟩ := (trap_correct hσ .add (.inl rfl) rt (rx rs) (c32 (sext16Nat i)) _ _ (typed_rx hσ rs) (bits_rx rs)
      (value_rx hσ rs) tc bc' vc a).2 hov
    exact ⟨rfl, σ', hr, hsim, rfl⟩

/-- overflow: the lifted graph of add / addi / sub stops at the `IntegerOverflow` intrinsic -/
theorem overflow_stops (i : Instr) (a : Nat) (f : Function) (σ : State) (pc : Word) (hl : liftI i a = some f) (hσ : StateOK σ)
    (hx : exec i pc (absState σ) = .trap .overflow) :
    f.cfg.entry = some 0 ∧ runGraph f 4096 ⟨0, 0, σ⟩ = .stop σ "err:intrinsic" := by
  cases i
  case r3t op rd rs rt =>
    cases op
    · simp only [liftI, Option.some.injEq] at hl; subst hl
      simp only [exec, addOv] at hx
      by_cases hov : (((absState σ).r rs).signExtend 33 + ((absState σ).r rt).signExtend 33).getLsbD 32 ≠ (((absState σ).r rs).signExtend 33 + ((absState σ).r rt).signExtend 33).getLsbD 31
      · exact ⟨rfl, (trap_correct hσ .add (.inl rfl) rd (rx rs) (rx rt) _ _ (typed_rx hσ rs) (bits_rx rs) (value_rx hσ rs)
          (typed_rx hσ rt) (bits_rx rt) (value_rx hσ rt) a).1 hov⟩
      · rw [if_neg hov] at hx; cases hx
    · simp only [liftI] at hl
      by_cases h0 : rs = 0
      · rw [if_pos h0] at hl; cases hl
      · rw [if_neg h0] at hl
        injection hl with hl; subst hl
        simp only [exec, subOv] at hx
        by_cases hov : (((absState σ).r rs).signExtend 33 - ((absState σ).r rt).signExtend 33).getLsbD 32 ≠ (((absState σ).r rs).signExtend 33 - ((absState σ).r rt).signExtend 33).getLsbD 31
        · exact ⟨rfl, (trap_correct hσ .sub (.inr rfl) rd (rx rs) (rx rt) _ _ (typed_rx hσ rs) (bits_rx rs) (value_rx hσ rs)
            (typed_rx hσ rt) (bits_rx rt) (value_rx hσ rt) a).1 hov⟩
        · rw [if_neg hov] at hx; cases hx
  case addi rt rs im =>
    simp only [liftI, Option.some.injEq] at hl; subst hl
    simp only [exec, addOv] at hx
    obtain ⟨tc, bc', vc⟩ := c32_sext_typed (σ := σ) im
    by_cases hov : (((absState σ).r rs).signExtend 33 + (sext16 im).signExtend 33).getLsbD 32 ≠ (((absState σ).r rs).signExtend 33 + (sext16 im).signExtend 33).getLsbD 31
    · exact ⟨rfl, (trap_correct hσ .add (.inl rfl) rt (rx rs) (c32 (sext16Nat im)) _ _ (typed_rx hσ rs) (bits_rx rs)
        (value_rx hσ rs) tc bc' vc a).1 hov⟩
    · rw [if_neg hov] at hx; cases hx
  case load op rt base off =>
    exfalso
    simp only [exec] at hx
    cases op <;> simp only [doLoad] at hx <;> (repeat' split at hx) <;> first | (cases hx; done) | (injection hx with hx; cases hx)
  case store op rt base off =>
    exfalso
    simp only [exec] at hx
    cases op <;> simp only [doStore] at hx <;> (repeat' split at hx) <;> first | (cases hx; done) | (injection hx with hx; cases hx)
  all_goals (first | (simp [liftI] at hl; done) | skip)
  all_goals (exfalso; revert hx; simp only [exec]; intro hx; (repeat' split at hx) <;> first | cases hx | skip)

/-- every non-branch instruction the mirror lifts is simulated correctly -/
theorem instrOK (i : Instr) : InstrOK i := by
  cases i
  case r3 op rd rs rt => exact instrOK_r3 op rd rs rt
  case shi op rd rt sa => exact instrOK_shi op rd rt sa
  case shv op rd rt rs => exact instrOK_shv op rd rt rs
  case imm op rt rs i => exact instrOK_imm op rt rs i
  case lui rt i => exact instrOK_lui rt i
  case r3t op rd rs rt => exact instrOK_r3t op rd rs rt
  case addi rt rs i => exact instrOK_addi rt rs i
  case mfhi rd => exact instrOK_mfhi rd
  case mflo rd => exact instrOK_mflo rd
  case mthi rs => exact instrOK_mthi rs
  case mtlo rs => exact instrOK_mtlo rs
  case muldiv op rs rt => exact instrOK_muldiv op rs rt
  case load op rt base off => exact instrOK_load op rt base off
  case store op rt base off => exact instrOK_store op rt base off
  all_goals
    intro a f σ pc s' pc' u hl
    simp [liftI] at hl

end Falcon.Isa.Mips
