/-
  FalconProofs.C02.InstrOK — `InstrOK i` for every mirrored non-branch class.
-/
import FalconProofs.C02.Pair
import FalconProofs.C02.Store
import FalconProofs.C02.HiLo

namespace Falcon.Isa.Mips
open Falcon Falcon.Sem Falcon.Const

theorem next_inj {s₁ s₂ : St} {p₁ p₂ : Word} {u₁ u₂ : Bool} (h : Outcome.next s₁ p₁ u₁ = .next s₂ p₂ u₂) :
    s₁ = s₂ ∧ p₁ = p₂ ∧ u₁ = u₂ := by
  injection h with a b c; exact ⟨a, b, c⟩

theorem instrOK_r3 (op : R3) (rd rs rt : Reg) : InstrOK (.r3 op rd rs rt) := by
  intro a f σ pc s' pc' u hl hσ hx
  simp only [exec] at hx
  obtain ⟨h1, h2, h3⟩ := next_inj hx
  subst h1 h2
  by_cases hs : op = .slt
  · subst hs
    simp only [liftI, Option.some.injEq] at hl; subst hl; subst h3
    obtain ⟨σ', hr, hsim⟩ := slt_correct hσ rd rs rt a 4091
    exact ⟨rfl, σ', hr, hsim, rfl⟩
  by_cases hu : op = .sltu
  · subst hu
    simp only [liftI, Option.some.injEq] at hl; subst hl; subst h3
    obtain ⟨σ', hr, hsim⟩ := sltu_correct hσ rd rs rt a 4091
    exact ⟨rfl, σ', hr, hsim, rfl⟩
  by_cases hn : op = .movn
  · subst hn
    simp only [liftI, Option.some.injEq] at hl; subst hl; subst h3
    obtain ⟨σ', hr, hsim⟩ := movn_correct hσ rd rs rt a 4091
    exact ⟨rfl, σ', hr, hsim, rfl⟩
  by_cases hz : op = .movz
  · subst hz
    simp only [liftI, Option.some.injEq] at hl; subst hl; subst h3
    obtain ⟨σ', hr, hsim⟩ := movz_correct hσ rd rs rt a 4091
    exact ⟨rfl, σ', hr, hsim, rfl⟩
  have hm : op ≠ .mul := by
    intro h; subst h; simp [liftI, r3Expr] at hl
  have hu' : u = false := by
    rw [← h3]; cases op <;> first | rfl | exact absurd rfl hm
  subst hu'
  obtain ⟨he, σ', hr, hsim⟩ := r3_correct hσ op rd rs rt a f hl ⟨hs, hu, hn, hz⟩ 4094
  exact ⟨he, σ', hr, hsim, rfl⟩

theorem instrOK_shi (op : Sh) (rd rt : Reg) (sa : BitVec 5) : InstrOK (.shi op rd rt sa) := by
  intro a f σ pc s' pc' u hl hσ hx
  simp only [exec] at hx
  obtain ⟨h1, h2, h3⟩ := next_inj hx
  subst h1 h2 h3
  obtain ⟨he, σ', hr, hsim⟩ := shi_correct hσ op rd rt sa a f hl 4094
  exact ⟨he, σ', hr, hsim, rfl⟩

theorem instrOK_shv (op : Sh) (rd rt rs : Reg) : InstrOK (.shv op rd rt rs) := by
  intro a f σ pc s' pc' u hl hσ hx
  simp only [exec] at hx
  obtain ⟨h1, h2, h3⟩ := next_inj hx
  subst h1 h2 h3
  simp only [liftI, Option.some.injEq] at hl; subst hl
  obtain ⟨σ', hr, hsim⟩ := shv_correct hσ op rd rt rs a 4094
  exact ⟨rfl, σ', hr, hsim, rfl⟩

theorem instrOK_imm (op : Imm) (rt rs : Reg) (i : BitVec 16) : InstrOK (.imm op rt rs i) := by
  intro a f σ pc s' pc' u hl hσ hx
  simp only [exec] at hx
  obtain ⟨h1, h2, h3⟩ := next_inj hx
  subst h1 h2 h3
  by_cases hs : op = .slti
  · subst hs
    simp only [liftI, Option.some.injEq] at hl; subst hl
    obtain ⟨σ', hr, hsim⟩ := slti_correct hσ rt rs i a 4091
    exact ⟨rfl, σ', hr, hsim, rfl⟩
  by_cases hu : op = .sltiu
  · subst hu
    simp only [liftI, Option.some.injEq] at hl; subst hl
    obtain ⟨σ', hr, hsim⟩ := sltiu_correct hσ rt rs i a 4091
    exact ⟨rfl, σ', hr, hsim, rfl⟩
  have hl' : f = g1 a [.assign (rsc rt) (immExpr op rs i)] := by
    cases op <;> first | exact absurd rfl hs | exact absurd rfl hu | (simp only [liftI, Option.some.injEq] at hl; exact hl.symm)
  subst hl'
  obtain ⟨σ', hr, hsim⟩ := imm_correct hσ op rt rs i a ⟨hs, hu⟩ 4094
  exact ⟨rfl, σ', hr, hsim, rfl⟩

theorem instrOK_lui (rt : Reg) (i : BitVec 16) : InstrOK (.lui rt i) := by
  intro a f σ pc s' pc' u hl hσ hx
  simp only [exec] at hx
  obtain ⟨h1, h2, h3⟩ := next_inj hx
  subst h1 h2 h3
  simp only [liftI, Option.some.injEq] at hl; subst hl
  obtain ⟨σ', hr, hsim⟩ := lui_correct hσ rt i a 4094
  exact ⟨rfl, σ', hr, hsim, rfl⟩

/-- every non-branch instruction the mirror lifts is simulated correctly -/
theorem instrOK (i : Instr) : InstrOK i := by
  cases i
  case r3 op rd rs rt => exact instrOK_r3 op rd rs rt
  case shi op rd rt sa => exact instrOK_shi op rd rt sa
  case shv op rd rt rs => exact instrOK_shv op rd rt rs
  case imm op rt rs i => exact instrOK_imm op rt rs i
  case lui rt i => exact instrOK_lui rt i
  case mfhi rd => exact instrOK_mfhi rd
  case mflo rd => exact instrOK_mflo rd
  case mthi rs => exact instrOK_mthi rs
  case mtlo rs => exact instrOK_mtlo rs
  case muldiv op rs rt => exact instrOK_muldiv op rs rt
  case load op rt base off => exact instrOK_load op rt base off
  case store op rt base off => exact instrOK_store op rt base off
  all_goals
    intro a f σ pc s' pc' u hl
    simp [liftI] at hl

end Falcon.Isa.Mips
