/-
  FalconProofs.C02.PpcCore — PowerPC: the scalar names are pairwise distinct, the abstraction `absState` against
  `State.set`, values of the mirror's operand expressions, and running a one-block graph with any number of operations.
-/
import FalconProofs.C02.Core
import FalconModel.Isa.PpcLift

namespace Falcon.Isa.Ppc
open Falcon Falcon.Sem Falcon.Const
open Falcon.Isa.Mips (g1 mkGraph mkBlock mkIns tempName c32 c1 runGraph_instr runGraph_done runGraph_branch block_g1
  typed_bin value_bin32 typed_c32 tempName_head)

/-! ### names -/

def nmIdx (n : String) : Option Nat := allNames.idxOf? n

theorem nmIdx_nm : ∀ k : Fin 67, nmIdx (nm k.val) = some k.val := by decide

theorem nm_inj {a b : Nat} (ha : a < 67) (hb : b < 67) (h : nm a = nm b) : a = b := by
  have h1 := nmIdx_nm ⟨a, ha⟩
  have h2 := nmIdx_nm ⟨b, hb⟩
  simp only at h1 h2
  rw [h, h2] at h1
  injection h1 with h1
  exact h1.symm

theorem nm_ne {a b : Nat} (ha : a < 67) (hb : b < 67) (h : a ≠ b) : nm a ≠ nm b := fun e => h (nm_inj ha hb e)

theorem nm_head : ∀ k : Fin 67, (nm k.val).toList.head? ≠ some 't' := by decide

theorem nm_ne_temp {k : Nat} (hk : k < 67) (a : Nat) : nm k ≠ tempName a := by
  intro e
  have := nm_head ⟨k, hk⟩
  simp only at this
  rw [e, tempName_head] at this
  exact this rfl

theorem nm_ne_so : ∀ k : Fin 67, nm k.val ≠ "so" := by decide

theorem so_ne_temp (a : Nat) : "so" ≠ tempName a := by
  intro e
  have := tempName_head a
  rw [← e] at this
  revert this; decide

/-! ### states -/

/-- an IL state that holds a PPC machine state: r0…r31, lr, ctr are reduced 32-bit constants, carry and the 32 CR bits are
    1-bit constants, and the memory is big-endian -/
structure StateOK (σ : State) : Prop where
  w32 : ∀ k, k < 34 → ∃ v : Word, σ.get (nm k) = some (ofBV v)
  b1 : ∀ k, 34 ≤ k → k < 67 → ∃ b : Bool, σ.get (nm k) = some (Const.bit b)
  big : σ.endian = .big

theorem St.ext' {a b : St} (h1 : a.gpr = b.gpr) (h2 : a.lr = b.lr) (h3 : a.ctr = b.ctr) (h4 : a.ca = b.ca) (h5 : a.so = b.so)
    (h6 : a.cr = b.cr) (h7 : a.mem = b.mem) : a = b := by
  cases a; cases b; simp_all

theorem get_set_nm (σ : State) {k j : Nat} (hk : k < 67) (hj : j < 67) (c : Const) :
    (σ.set (nm k) c).get (nm j) = if j = k then some c else σ.get (nm j) := by
  by_cases h : j = k
  · subst h; simp [C07.get_set_self]
  · rw [if_neg h]; exact C07.get_set_ne σ c (nm_ne hj hk h)

theorem v32_ofBV {σ : State} {n : String} {v : Word} (h : σ.get n = some (ofBV v)) : v32 σ n = v := by
  simp [v32, h, ofBV]

theorem vb_bit {σ : State} {n : String} {b : Bool} (h : σ.get n = some (Const.bit b)) : vb σ n = b := by
  cases b <;> simp [vb, h, Const.bit]

theorem v32_set_nm (σ : State) {k j : Nat} (hk : k < 67) (hj : j < 67) (v : Word) :
    v32 (σ.set (nm k) (ofBV v)) (nm j) = if j = k then v else v32 σ (nm j) := by
  simp only [v32, get_set_nm σ hk hj]
  by_cases h : j = k <;> simp [h, ofBV]

theorem v32_set_other (σ : State) {n m : String} (c : Const) (h : m ≠ n) : v32 (σ.set n c) m = v32 σ m := by
  simp [v32, C07.get_set_ne σ c h]

theorem vb_set_other (σ : State) {n m : String} (c : Const) (h : m ≠ n) : vb (σ.set n c) m = vb σ m := by
  simp [vb, C07.get_set_ne σ c h]

theorem vb_set_same (σ : State) (n : String) (b : Bool) : vb (σ.set n (Const.bit b)) n = b :=
  vb_bit (C07.get_set_self _ _ _)

theorem reg_lt (i : Reg) : i.toNat < 67 := by have := i.isLt; omega
theorem reg_lt34 (i : Reg) : i.toNat < 34 := by have := i.isLt; omega

/-- writing the scalar of `r<i>` is the register write -/
theorem abs_set_gpr (σ : State) (i : Reg) (v : Word) : absState (σ.set (gprName i) (ofBV v)) = (absState σ).w i v := by
  apply St.ext'
  · funext j
    simp only [absState, St.w, gprName, v32_set_nm σ (reg_lt i) (reg_lt j)]
    by_cases h : j = i
    · subst h; simp
    · have : j.toNat ≠ i.toNat := fun e => h (BitVec.eq_of_toNat_eq e)
      simp [h, this]
  · exact v32_set_other σ _ (nm_ne (by decide) (reg_lt i) (by have := i.isLt; omega))
  · exact v32_set_other σ _ (nm_ne (by decide) (reg_lt i) (by have := i.isLt; omega))
  · exact vb_set_other σ _ (nm_ne (by decide) (reg_lt i) (by have := i.isLt; omega))
  · exact vb_set_other σ _ (nm_ne_so ⟨_, reg_lt i⟩).symm
  · funext j
    simp only [absState, St.w, crName]
    by_cases hj : j < 32
    · have h : nm (35 + j) ≠ gprName i := nm_ne (by omega) (reg_lt i) (by have := i.isLt; omega)
      rw [vb_set_other σ _ h]
    · simp [hj]
  · rfl

def cbit (c : Const) : Bool := decide (c.val % 2 = 1)

theorem v32_set_nm' (σ : State) {k j : Nat} (hk : k < 67) (hj : j < 67) (c : Const) :
    v32 (σ.set (nm k) c) (nm j) = if j = k then BitVec.ofNat 32 c.val else v32 σ (nm j) := by
  simp only [v32, get_set_nm σ hk hj]
  by_cases h : j = k <;> simp [h]

theorem vb_set_nm' (σ : State) {k j : Nat} (hk : k < 67) (hj : j < 67) (c : Const) :
    vb (σ.set (nm k) c) (nm j) = if j = k then cbit c else vb σ (nm j) := by
  simp only [vb, get_set_nm σ hk hj, cbit]
  by_cases h : j = k <;> simp [h]

/-- every component of the machine state after writing one of the 67 scalars -/
theorem abs_set_nm (σ : State) {k : Nat} (hk : k < 67) (c : Const) :
    absState (σ.set (nm k) c) =
      { gpr := fun j => if j.toNat = k then BitVec.ofNat 32 c.val else (absState σ).gpr j
        lr := if 32 = k then BitVec.ofNat 32 c.val else (absState σ).lr
        ctr := if 33 = k then BitVec.ofNat 32 c.val else (absState σ).ctr
        ca := if 34 = k then cbit c else (absState σ).ca
        so := (absState σ).so
        cr := fun i => if 35 + i = k then decide (i < 32) && cbit c else (absState σ).cr i
        mem := (absState σ).mem } := by
  apply St.ext'
  · funext j; exact v32_set_nm' σ hk (reg_lt j) c
  · exact v32_set_nm' σ hk (by decide) c
  · exact v32_set_nm' σ hk (by decide) c
  · exact vb_set_nm' σ hk (by decide) c
  · exact vb_set_other σ _ (nm_ne_so ⟨_, hk⟩).symm
  · funext i
    simp only [absState, crName]
    by_cases hi : i < 32
    · rw [vb_set_nm' σ hk (by omega) c]
      by_cases h : 35 + i = k <;> simp [h, hi]
    · have : 35 + i ≠ k := by omega
      simp [hi, this]
  · rfl

/-- a scalar outside the table (a temporary) does not change the machine state -/
theorem abs_set_temp (σ : State) (a : Nat) (c : Const) : absState (σ.set (tempName a) c) = absState σ := by
  apply St.ext'
  · funext j; exact v32_set_other σ c (nm_ne_temp (reg_lt j) a)
  · exact v32_set_other σ c (nm_ne_temp (by decide) a)
  · exact v32_set_other σ c (nm_ne_temp (by decide) a)
  · exact vb_set_other σ c (nm_ne_temp (by decide) a)
  · exact vb_set_other σ c (so_ne_temp a)
  · funext i
    simp only [absState, crName]
    by_cases hi : i < 32
    · rw [vb_set_other σ c (nm_ne_temp (by omega) a)]
    · simp [hi]
  · rfl

theorem ofNat_ofBV (v : Word) : BitVec.ofNat 32 (ofBV v).val = v := by simp [ofBV]
theorem cbit_bit (b : Bool) : cbit (Const.bit b) = b := by cases b <;> rfl

theorem stateOK_set32 {σ : State} (hσ : StateOK σ) {k : Nat} (hk : k < 34) (v : Word) : StateOK (σ.set (nm k) (ofBV v)) := by
  refine ⟨fun j hj => ?_, fun j h1 h2 => ?_, hσ.big⟩
  · rw [get_set_nm σ (by omega) (by omega)]
    by_cases h : j = k
    · exact ⟨v, by simp [h]⟩
    · simp only [h, if_false]; exact hσ.w32 j hj
  · rw [get_set_nm σ (by omega) h2, if_neg (by omega)]; exact hσ.b1 j h1 h2

theorem stateOK_set1 {σ : State} (hσ : StateOK σ) {k : Nat} (hk1 : 34 ≤ k) (hk : k < 67) (b : Bool) :
    StateOK (σ.set (nm k) (Const.bit b)) := by
  refine ⟨fun j hj => ?_, fun j h1 h2 => ?_, hσ.big⟩
  · rw [get_set_nm σ hk (by omega), if_neg (by omega)]; exact hσ.w32 j hj
  · rw [get_set_nm σ hk h2]
    by_cases h : j = k
    · exact ⟨b, by simp [h]⟩
    · simp only [h, if_false]; exact hσ.b1 j h1 h2

theorem stateOK_set_temp {σ : State} (hσ : StateOK σ) (a : Nat) (c : Const) : StateOK (σ.set (tempName a) c) := by
  refine ⟨fun j hj => ?_, fun j h1 h2 => ?_, hσ.big⟩
  · rw [C07.get_set_ne σ c (nm_ne_temp (by omega) a)]; exact hσ.w32 j hj
  · rw [C07.get_set_ne σ c (nm_ne_temp h2 a)]; exact hσ.b1 j h1 h2

theorem stateOK_mem {σ : State} (hσ : StateOK σ) (m : ByteMem) : StateOK { σ with mem := m } :=
  ⟨hσ.w32, hσ.b1, hσ.big⟩

/-! ### values of scalars -/

theorem constOK32 (v : Word) : ConstOK (ofBV v) := ⟨v.isLt, Nat.le_of_ble_eq_true rfl, (by decide : (32 : Nat) < 2 ^ 64)⟩

theorem get32 {σ : State} (hσ : StateOK σ) {k : Nat} (hk : k < 34) : σ.get (nm k) = some (ofBV (v32 σ (nm k))) := by
  obtain ⟨v, hv⟩ := hσ.w32 k hk
  rw [v32_ofBV hv]; exact hv

theorem get1 {σ : State} (hσ : StateOK σ) {k : Nat} (h1 : 34 ≤ k) (hk : k < 67) : σ.get (nm k) = some (Const.bit (vb σ (nm k))) := by
  obtain ⟨b, hb⟩ := hσ.b1 k h1 hk
  rw [vb_bit hb]; exact hb

theorem typed_s32 {σ : State} (hσ : StateOK σ) {k : Nat} (hk : k < 34) : TypedE σ (.scalar ⟨nm k, 32, none⟩) := by
  refine ⟨Nat.le_of_ble_eq_true rfl, (by decide : (32 : Nat) < 2 ^ 64), ?_⟩
  simp only [HoldsOK, get32 hσ hk]
  exact ⟨rfl, (v32 σ (nm k)).isLt⟩

theorem value_s32 {σ : State} (hσ : StateOK σ) {k : Nat} (hk : k < 34) :
    value σ (.scalar ⟨nm k, 32, none⟩) = .ok (ofBV (v32 σ (nm k))) := by
  simp only [value, get32 hσ hk]

theorem typed_s1 {σ : State} (hσ : StateOK σ) {k : Nat} (h1 : 34 ≤ k) (hk : k < 67) : TypedE σ (.scalar ⟨nm k, 1, none⟩) := by
  refine ⟨Nat.le_refl 1, (by decide : (1 : Nat) < 2 ^ 64), ?_⟩
  simp only [HoldsOK, get1 hσ h1 hk]
  cases vb σ (nm k) <;> exact ⟨rfl, by decide⟩

theorem value_s1 {σ : State} (hσ : StateOK σ) {k : Nat} (h1 : 34 ≤ k) (hk : k < 67) :
    value σ (.scalar ⟨nm k, 1, none⟩) = .ok (Const.bit (vb σ (nm k))) := by
  simp only [value, get1 hσ h1 hk]

theorem typed_gx {σ : State} (hσ : StateOK σ) (i : Reg) : TypedE σ (gx i) := typed_s32 hσ (reg_lt34 i)
theorem value_gx {σ : State} (hσ : StateOK σ) (i : Reg) : value σ (gx i) = .ok (ofBV ((absState σ).gpr i)) :=
  value_s32 hσ (reg_lt34 i)
theorem bits_gx (i : Reg) : (gx i).bits = 32 := rfl

/-! ### running one block with any number of fall-through operations -/

/-- execute the operations in order; every one must succeed and fall through -/
def execAll (σ : State) : List Op → Option State
  | [] => some σ
  | op :: rest =>
    match execute σ op with
    | .ok (σ', .fallThrough) => execAll σ' rest
    | _ => none

theorem instrs_get (a : Nat) (ops : List Op) (pos : Nat) :
    (mkBlock a 0 ops).instrs[pos]? = (ops[pos]?).map (fun o => mkIns a pos o) := by
  simp only [mkBlock, List.getElem?_map, List.getElem?_zipIdx]
  cases ops[pos]? <;> simp

theorem run_from (a : Nat) (ops : List Op) : ∀ (rest : List Op) (pos : Nat) (σ σ' : State) (n : Nat),
    ops.drop pos = rest → execAll σ rest = some σ' →
    runGraph (g1 a ops) (n + rest.length + 1) ⟨0, pos, σ⟩ = .done σ'
  | [], pos, σ, σ', n, hd, he => by
    simp only [execAll, Option.some.injEq] at he; subst he
    have hlen : ops.length ≤ pos := by
      have := congrArg List.length hd; simp at this; omega
    exact runGraph_done (block_g1 a ops) (by rw [instrs_get]; simp [List.getElem?_eq_none hlen]) rfl
  | op :: rest, pos, σ, σ', n, hd, he => by
    have hpos : ops[pos]? = some op := by
      have := congrArg (·[0]?) hd
      simpa using this
    have hd' : ops.drop (pos + 1) = rest := by
      rw [← List.drop_drop, hd]; rfl
    simp only [execAll] at he
    cases hx : execute σ op with
    | ok r =>
      obtain ⟨σ₁, sc⟩ := r
      rw [hx] at he
      cases sc with
      | fallThrough =>
        simp only at he
        have ih := run_from a ops rest (pos + 1) σ₁ σ' n hd' he
        have hi : (mkBlock a 0 ops).instrs[pos]? = some (mkIns a pos op) := by rw [instrs_get, hpos]; rfl
        rw [show n + (op :: rest).length + 1 = (n + rest.length + 1) + 1 by simp; omega]
        rw [runGraph_instr (block_g1 a ops) hi hx]
        exact ih
      | branch x => simp at he
    | err e => rw [hx] at he; simp at he
    | panic => rw [hx] at he; simp at he

/-- a one-block graph whose operations all fall through runs to the end of the list -/
theorem run_g1_list (a : Nat) (ops : List Op) (σ σ' : State) (h : execAll σ ops = some σ') (hl : ops.length < 4096) :
    runGraph (g1 a ops) 4096 ⟨0, 0, σ⟩ = .done σ' := by
  have := run_from a ops ops 0 σ σ' (4095 - ops.length) rfl h
  rw [show 4095 - ops.length + ops.length + 1 = 4096 by omega] at this
  exact this

theorem execAll_cons {σ σ₁ : State} {op : Op} {rest : List Op} (h : execute σ op = .ok (σ₁, .fallThrough)) :
    execAll σ (op :: rest) = execAll σ₁ rest := by
  simp only [execAll, h]

theorem execAll_append {σ σ₁ : State} {l₁ l₂ : List Op} (h : execAll σ l₁ = some σ₁) :
    execAll σ (l₁ ++ l₂) = execAll σ₁ l₂ := by
  induction l₁ generalizing σ with
  | nil => simp only [execAll, Option.some.injEq] at h; subst h; rfl
  | cons op rest ih =>
    simp only [execAll, List.cons_append] at h ⊢
    cases hx : execute σ op with
    | ok r =>
      obtain ⟨σ₂, sc⟩ := r
      rw [hx] at h
      cases sc with
      | fallThrough => simp only at h ⊢; exact ih h
      | branch x => simp at h
    | err e => rw [hx] at h; simp at h
    | panic => rw [hx] at h; simp at h

/-- `dst := e` on a typed expression -/
theorem exec_assign {σ : State} {dst : Scalar} {e : Expr} {c : Const} (ht : TypedE σ e) (hb : e.bits = dst.bits)
    (hv : value σ e = .ok c) : execute σ (.assign dst e) = .ok (σ.set dst.name c, .fallThrough) := by
  rw [C07.execute_typed σ _ (show TypedOp σ (.assign dst e) from ⟨ht, hb⟩)]
  simp only [hv]

end Falcon.Isa.Ppc
