/-
  FalconProofs.C02.Jr — what the lifted `jr rs` + delay slot does: the jump goes to the value `rs` holds AFTER the slot
  (known finding `C02/mips*/jr+*/next`); it agrees with the manual (`step2i`: target read BEFORE the slot) exactly when the slot
  leaves `rs` alone.
-/
import FalconProofs.C02.InstrOK

namespace Falcon.Isa.Mips
open Falcon Falcon.Sem Falcon.Const

theorem exec_branch32 {σ : State} {t : Expr} {v : Word} (ht : TypedE σ t) (hb : t.bits = 32) (hv : value σ t = .ok (ofBV v)) :
    execute σ (.branch t) = .ok (σ, .branch v.toNat) := by
  rw [C07.execute_typed σ _ (show TypedOp σ (.branch t) from ⟨ht, by rw [hb]; decide⟩)]
  simp only [hv]
  rfl

/-- jr with any verified instruction in the delay slot: the lifted block jumps to the POST-slot value of rs; when the slot does
    not change rs (`hkeep`) this is the manual's target -/
theorem jr_pair_agrees_partial (rs : Reg) (d : Instr) (addr : Nat) (r : BTR) (σ : State)
    (hl : liftPair (.jr rs) d addr = some r) (hσ : StateOK σ) (s' : St) (pc' : Word) (u : Bool)
    (hx : step2i (.jr rs) d (BitVec.ofNat 32 addr) (absState σ) = .next s' pc' u)
    (hkeep : s'.r rs = (absState σ).r rs) :
    ∃ σ', runBTR r σ = .next σ' [pc'.toNat] ∧ StateOK σ' ∧ Eqv u (absState σ') s' := by
  unfold liftPair at hl
  split at hl
  · cases hl
  · split at hl
    · cases hl
    · rename_i slot hslot
      simp only [Option.some.injEq] at hl; subst hl
      have hbr : branch (.jr rs) (BitVec.ofNat 32 addr) (absState σ) = some (some ⟨true, (absState σ).r rs, none⟩) := rfl
      obtain ⟨_, p2, hex, hpc⟩ := step2i_next hbr hx
      obtain ⟨hent, σ2, hrun, hsim, _⟩ := instrOK d (addr + 4) slot σ _ s' p2 u hslot hσ hex
      have hv : value σ2 (rx rs) = .ok (ofBV ((absState σ2).r rs)) := value_rx hsim.ok rs
      have x1 := exec_branch32 (typed_rx hsim.ok rs) (bits_rx rs) hv
      refine ⟨σ2, ?_, hsim.ok, hsim.eqv⟩
      simp only [runBTR]
      rw [go_cons_done _ 4096 (g1 addr [.nop]) _ σ σ (entry_g1 addr [.nop]) (run_g1_one addr .nop σ σ 4094 rfl)]
      rw [go_cons_done _ 4096 slot _ σ σ2 hent hrun]
      rw [go_cons_branch _ 4096 (g1 (addr + 1) [.branch (rx rs)]) [] σ2 σ2 _ rfl (run_g1_branch (addr + 1) _ σ2 _ 4095 x1)]
      rw [hpc, if_pos rfl, hsim.eqv.r rs, hkeep]

end Falcon.Isa.Mips
