/-
  FalconProofs.C02.PpcMem — PowerPC (A): lbz, lwz, lwzu, stw, stwu (big-endian, any alignment; the access must not wrap
  around the end of the 32-bit address space, where the IL's 64-bit byte addresses and the 32-bit machine differ).
-/
import FalconProofs.C02.PpcCarry
import FalconProofs.C02.Store

namespace Falcon.Isa.Ppc
open Falcon Falcon.Sem Falcon.Const
open Falcon.Isa.Mips (g1 tempName c32 c1 typed_bin value_bin32 typed_c32)

theorem rdByte_eq (m : ByteMem) (a : Word) : rdByte m a = Mips.rdByte m a := rfl
theorem rdWord_eq (m : ByteMem) (a : Word) : rdWord m a = Mips.rdWord true m a := rfl
theorem wrWord_eq (m : ByteMem) (a v : Word) : wrWord m a v = Mips.wrWord true m a v := rfl

theorem typed_eaX {σ : State} (hσ : StateOK σ) (ra : Reg) (d : BitVec 16) : TypedE σ (eaX ra d) :=
  typed_bin (typed_ofBV (sext16 d)) (typed_gx hσ ra) rfl

theorem value_eaX {σ : State} (hσ : StateOK σ) (ra : Reg) (d : BitVec 16) :
    value σ (eaX ra d) = .ok (ofBV ((absState σ).gpr ra + sext16 d)) := by
  rw [eaX, value_bin32 (show value σ (c32 (sextNat d)) = .ok (ofBV (sext16 d)) from rfl) (value_gx hσ ra) rfl, BitVec.add_comm]

/-- `load dst idx` when the bytes are mapped -/
theorem exec_load' {σ : State} (dst : Scalar) (idx : Expr) (ea : Word) (ti : TypedE σ idx) (bi : idx.bits = 32)
    (vi : value σ idx = .ok (ofBV ea)) (k : Nat) (bs : List UInt8) (hk : dst.bits = 8 * k) (hk1 : 1 ≤ k) (hk4 : k ≤ 4)
    (hr : σ.mem.readBytes ea.toNat k = some bs) :
    execute σ (.load dst idx) = .ok (σ.set dst.name (constOfBytes σ.endian bs), .fallThrough) := by
  have ht : TypedOp σ (.load dst idx) := ⟨ti, by rw [bi]; decide, by omega, by omega, by omega⟩
  rw [C07.execute_typed σ _ ht]
  simp only [vi]
  have hlt := ea.isLt
  have hd : dst.bits / 8 = k := by omega
  rw [if_neg (by simp only [ofBV, hd]; omega)]
  simp only [ofBV, hd, hr]

/-- `store idx src` of a 32-bit value -/
theorem exec_store' {σ : State} (idx src : Expr) (ea x : Word) (ti : TypedE σ idx) (bi : idx.bits = 32)
    (vi : value σ idx = .ok (ofBV ea)) (ts : TypedE σ src) (bs : src.bits = 32) (vs : value σ src = .ok (ofBV x)) :
    execute σ (.store idx src) = .ok ({ σ with mem := σ.mem.write ea.toNat (bytesOf σ.endian (ofBV x)) }, .fallThrough) := by
  have ht : TypedOp σ (.store idx src) := ⟨ti, ts, by rw [bi]; decide, by rw [bs]⟩
  rw [C07.execute_typed σ _ ht]
  simp only [vi, vs]
  have hlt := ea.isLt
  rw [if_neg (by simp only [ofBV]; omega)]
  rfl

theorem abs_mem (σ : State) (m : ByteMem) : absState { σ with mem := m } = { absState σ with mem := m } := rfl

/-- the IL's big-endian word write is the interpreter's -/
theorem store_mem (σ : State) (hσ : StateOK σ) (ea x : Word) (hw : ea.toNat + 3 < 2 ^ 32) :
    σ.mem.write ea.toNat (bytesOf σ.endian (ofBV x)) = wrWord σ.mem ea x := by
  funext y
  rw [hσ.big, wrWord_eq]
  exact Mips.sw_mem true σ.mem ea x hw y

/-- memory instructions: the access stays below 2^32 -/
def noWrap (i : Instr) (s : St) : Prop :=
  match i with
  | .lwz _ ra d | .stw _ ra d => (s.r0 ra + sext16 d).toNat + 3 < 2 ^ 32
  | .lwzu _ ra d | .stwu _ ra d => (s.gpr ra + sext16 d).toNat + 3 < 2 ^ 32
  | .stmw rs ra d => (s.r0 ra + sext16 d).toNat + 4 * (32 - rs.toNat) ≤ 2 ^ 32
  | _ => True

theorem ok_lwz (rt ra : Reg) (d : BitVec 16) (a : Nat) (f : Function) (σ : State) (pc : Word) (s' : St) (pc' : Word)
    (hl : liftI (.lwz rt ra d) a = some f) (hσ : StateOK σ) (hx : exec (.lwz rt ra d) pc (absState σ) = .next s' pc')
    (hw : noWrap (.lwz rt ra d) (absState σ)) :
    f.cfg.entry = some 0 ∧ ∃ σ', runGraph f 4096 ⟨0, 0, σ⟩ = .done σ' ∧ StateOK σ' ∧ Agree noSkip (absState σ') s' ∧ pc' = pc + 4 := by
  simp only [liftI] at hl
  by_cases h0 : ra = 0
  · rw [if_pos h0] at hl; cases hl
  · rw [if_neg h0] at hl
    injection hl with hl; subst hl
    simp only [exec, r0_eq _ _ h0] at hx
    simp only [noWrap, r0_eq _ _ h0] at hw
    cases hr : rdWord (absState σ).mem ((absState σ).gpr ra + sext16 d) with
    | none => rw [hr] at hx; cases hx
    | some v =>
      rw [hr] at hx
      obtain ⟨h1, h2⟩ := next_inj hx; subst h1 h2
      rw [rdWord_eq] at hr
      obtain ⟨bs, hb, hc⟩ := Mips.rdWord_readBytes true _ _ v hw hr
      have x1 := exec_load' (gsc rt) (eaX ra d) _ (typed_eaX hσ ra d) rfl (value_eaX hσ ra d) 4 bs rfl (by decide) (by decide) hb
      rw [hσ.big, show Endian.big = Mips.endianOf true from rfl, hc] at x1
      exact finish a _ (by simp) (by rw [execAll_cons x1]; rfl) (stateOK_set32 hσ (reg_lt34 rt) v)
        (Agree.of_eq (abs_set_gpr σ rt v) _) pc

theorem ok_stw (rs ra : Reg) (d : BitVec 16) (a : Nat) (f : Function) (σ : State) (pc : Word) (s' : St) (pc' : Word)
    (hl : liftI (.stw rs ra d) a = some f) (hσ : StateOK σ) (hx : exec (.stw rs ra d) pc (absState σ) = .next s' pc')
    (hw : noWrap (.stw rs ra d) (absState σ)) :
    f.cfg.entry = some 0 ∧ ∃ σ', runGraph f 4096 ⟨0, 0, σ⟩ = .done σ' ∧ StateOK σ' ∧ Agree noSkip (absState σ') s' ∧ pc' = pc + 4 := by
  simp only [liftI] at hl
  by_cases h0 : ra = 0
  · rw [if_pos h0] at hl; cases hl
  · rw [if_neg h0] at hl
    injection hl with hl; subst hl
    simp only [exec, r0_eq _ _ h0] at hx
    simp only [noWrap, r0_eq _ _ h0] at hw
    obtain ⟨h1, h2⟩ := next_inj hx; subst h1 h2
    have x1 := exec_store' (eaX ra d) (gx rs) _ _ (typed_eaX hσ ra d) rfl (value_eaX hσ ra d) (typed_gx hσ rs) rfl (value_gx hσ rs)
    rw [store_mem σ hσ _ _ hw] at x1
    exact finish a _ (by simp) (by rw [execAll_cons x1]; rfl) (stateOK_mem hσ _) (Agree.of_eq (abs_mem σ _) _) pc

theorem ok_lbz (rt ra : Reg) (d : BitVec 16) : InstrOK noSkip (.lbz rt ra d) := by
  intro a f σ pc s' pc' hl hσ hx
  simp only [liftI] at hl
  by_cases h0 : ra = 0
  · rw [if_pos h0] at hl; cases hl
  · rw [if_neg h0] at hl
    injection hl with hl; subst hl
    simp only [exec, r0_eq _ _ h0] at hx
    cases hr : rdByte (absState σ).mem ((absState σ).gpr ra + sext16 d) with
    | none => rw [hr] at hx; cases hx
    | some b =>
      rw [hr] at hx
      obtain ⟨h1, h2⟩ := next_inj hx; subst h1 h2
      rw [rdByte_eq] at hr
      obtain ⟨bs, hb, hc⟩ := Mips.rdByte_readBytes σ.endian _ _ b hr
      have x1 := exec_load' ⟨tempName a, 8, none⟩ (eaX ra d) _ (typed_eaX hσ ra d) rfl (value_eaX hσ ra d) 1 bs rfl
        (by decide) (by decide) hb
      rw [hc] at x1
      have hσ1 := stateOK_set_temp hσ a (ofBV b)
      have a1 := abs_set_temp σ a (ofBV b)
      have g1' : (σ.set (tempName a) (ofBV b)).get (tempName a) = some (ofBV b) := C07.get_set_self _ _ _
      have tt : TypedE (σ.set (tempName a) (ofBV b)) (.scalar ⟨tempName a, 8, none⟩) := by
        refine ⟨Nat.le_of_ble_eq_true rfl, (by decide : (8 : Nat) < 2 ^ 64), ?_⟩
        simp only [HoldsOK, g1']
        exact ⟨rfl, b.isLt⟩
      have vz : value (σ.set (tempName a) (ofBV b)) (.ext .zext 32 (.scalar ⟨tempName a, 8, none⟩)) = .ok (ofBV (b.zeroExtend 32)) := by
        rw [show value (σ.set (tempName a) (ofBV b)) (.ext .zext 32 (.scalar ⟨tempName a, 8, none⟩)) =
          (value (σ.set (tempName a) (ofBV b)) (.scalar ⟨tempName a, 8, none⟩) >>= fun c => Spec.ext .zext c 32) from rfl,
          value_temp a 8 _ g1']
        simp only [Res.bind_ok, Spec.ext, ofBV_bits, toBV_ofBV]
        rw [if_neg (by decide)]
      have te : TypedE (σ.set (tempName a) (ofBV b)) (.ext .zext 32 (.scalar ⟨tempName a, 8, none⟩)) :=
        ⟨tt, by decide, by decide, (by decide : (8 : Nat) < 32)⟩
      obtain ⟨x2, hσ2, a2⟩ := assign_gpr hσ1 rt _ _ te rfl vz
      rw [a1] at a2
      exact finish a _ (by simp) (by rw [execAll_cons x1, execAll_cons x2]; rfl) hσ2 (Agree.of_eq a2 _) pc

theorem ok_lwzu (rt ra : Reg) (d : BitVec 16) (a : Nat) (f : Function) (σ : State) (pc : Word) (s' : St) (pc' : Word)
    (hl : liftI (.lwzu rt ra d) a = some f) (hσ : StateOK σ) (hx : exec (.lwzu rt ra d) pc (absState σ) = .next s' pc')
    (hw : noWrap (.lwzu rt ra d) (absState σ)) :
    f.cfg.entry = some 0 ∧ ∃ σ', runGraph f 4096 ⟨0, 0, σ⟩ = .done σ' ∧ StateOK σ' ∧ Agree noSkip (absState σ') s' ∧ pc' = pc + 4 := by
  simp only [liftI] at hl
  by_cases h0 : ra = 0
  · rw [if_pos h0] at hl; cases hl
  · rw [if_neg h0] at hl
    injection hl with hl; subst hl
    simp only [exec] at hx
    simp only [noWrap] at hw
    by_cases hinv : ra = 0 ∨ ra = rt
    · rw [if_pos hinv] at hx; cases hx
    · rw [if_neg hinv] at hx
      have hne : ra ≠ rt := fun e => hinv (.inr e)
      cases hr : rdWord (absState σ).mem ((absState σ).gpr ra + sext16 d) with
      | none => rw [hr] at hx; cases hx
      | some v =>
        rw [hr] at hx
        obtain ⟨h1, h2⟩ := next_inj hx; subst h1 h2
        rw [rdWord_eq] at hr
        obtain ⟨bs, hb, hc⟩ := Mips.rdWord_readBytes true _ _ v hw hr
        have x1 := exec_load' (gsc rt) (eaX ra d) _ (typed_eaX hσ ra d) rfl (value_eaX hσ ra d) 4 bs rfl (by decide) (by decide) hb
        rw [hσ.big, show Endian.big = Mips.endianOf true from rfl, hc] at x1
        replace x1 : execute σ (.load (gsc rt) (eaX ra d)) = .ok (σ.set (gprName rt) (ofBV v), .fallThrough) := x1
        have hσ1 : StateOK (σ.set (gprName rt) (ofBV v)) := stateOK_set32 hσ (reg_lt34 rt) v
        have a1 := abs_set_gpr σ rt v
        have ve : value (σ.set (gprName rt) (ofBV v)) (eaX ra d) = .ok (ofBV ((absState σ).gpr ra + sext16 d)) := by
          rw [value_eaX hσ1 ra d, a1]
          simp only [St.w, if_neg hne]
        obtain ⟨x2, hσ2, a2⟩ := assign_gpr hσ1 ra _ _ (typed_eaX hσ1 ra d) rfl ve
        rw [a1] at a2
        exact finish a _ (by simp) (by rw [execAll_cons x1, execAll_cons x2]; rfl) hσ2 (Agree.of_eq a2 _) pc

theorem ok_stwu (rs ra : Reg) (d : BitVec 16) (a : Nat) (f : Function) (σ : State) (pc : Word) (s' : St) (pc' : Word)
    (hl : liftI (.stwu rs ra d) a = some f) (hσ : StateOK σ) (hx : exec (.stwu rs ra d) pc (absState σ) = .next s' pc')
    (hw : noWrap (.stwu rs ra d) (absState σ)) :
    f.cfg.entry = some 0 ∧ ∃ σ', runGraph f 4096 ⟨0, 0, σ⟩ = .done σ' ∧ StateOK σ' ∧ Agree noSkip (absState σ') s' ∧ pc' = pc + 4 := by
  simp only [liftI] at hl
  by_cases h0 : ra = 0
  · rw [if_pos h0] at hl; cases hl
  · rw [if_neg h0] at hl
    injection hl with hl; subst hl
    simp only [exec, if_neg h0] at hx
    simp only [noWrap] at hw
    obtain ⟨h1, h2⟩ := next_inj hx; subst h1 h2
    have x1 := exec_store' (eaX ra d) (gx rs) _ _ (typed_eaX hσ ra d) rfl (value_eaX hσ ra d) (typed_gx hσ rs) rfl (value_gx hσ rs)
    rw [store_mem σ hσ _ _ hw] at x1
    have hσ1 := stateOK_mem hσ (wrWord σ.mem ((absState σ).gpr ra + sext16 d) ((absState σ).gpr rs))
    have ve : value { σ with mem := wrWord σ.mem ((absState σ).gpr ra + sext16 d) ((absState σ).gpr rs) } (eaX ra d) =
        .ok (ofBV ((absState σ).gpr ra + sext16 d)) := value_eaX hσ1 ra d
    obtain ⟨x2, hσ2, a2⟩ := assign_gpr hσ1 ra _ _ (typed_eaX hσ1 ra d) rfl ve
    exact finish a _ (by simp) (by rw [execAll_cons x1, execAll_cons x2]; rfl) hσ2 (Agree.of_eq a2 _) pc

end Falcon.Isa.Ppc
