/-
  FalconProofs.C02.Names — the register names are pairwise distinct and differ from every other scalar the
  MIPS lifter uses (`$hi`, `$lo`, `branching_condition`, `temp_0x…`).
-/
import FalconModel.Isa.MipsLift

namespace Falcon.Isa.Mips

/-- position of a name in the register table -/
def regIdx (n : String) : Option Nat := regNames.idxOf? n

theorem regIdx_regName : ∀ i : Reg, regIdx (regName i) = some i.toNat := by decide

theorem regName_inj {i j : Reg} (h : regName i = regName j) : i = j := by
  have hi := regIdx_regName i
  have hj := regIdx_regName j
  rw [h, hj] at hi
  injection hi with hi
  exact BitVec.eq_of_toNat_eq hi.symm

theorem regName_ne {i j : Reg} (h : i ≠ j) : regName i ≠ regName j := fun e => h (regName_inj e)

theorem regName_head : ∀ i : Reg, (regName i).toList.head? = some '$' := by decide

theorem regName_ne_of_head {n : String} {c : Char} (hn : n.toList.head? = some c) (hc : c ≠ '$') (i : Reg) :
    regName i ≠ n := by
  intro e
  have := regName_head i
  rw [e, hn] at this
  injection this with this
  exact hc this

theorem regName_ne_hi : ∀ i : Reg, regName i ≠ "$hi" := by decide
theorem regName_ne_lo : ∀ i : Reg, regName i ≠ "$lo" := by decide
theorem regName_ne_bc (i : Reg) : regName i ≠ "branching_condition" :=
  regName_ne_of_head (c := 'b') (by decide) (by decide) i

theorem tempName_head (a : Nat) : (tempName a).toList.head? = some 't' := by
  simp [tempName, String.toList_append]

theorem regName_ne_temp (i : Reg) (a : Nat) : regName i ≠ tempName a :=
  regName_ne_of_head (tempName_head a) (by decide) i

theorem hi_ne_temp (a : Nat) : "$hi" ≠ tempName a := by
  intro e
  have := tempName_head a
  rw [← e] at this
  revert this; decide

theorem lo_ne_temp (a : Nat) : "$lo" ≠ tempName a := by
  intro e
  have := tempName_head a
  rw [← e] at this
  revert this; decide

theorem bc_ne_temp (a : Nat) : "branching_condition" ≠ tempName a := by
  intro e
  have := congrArg (fun s => s.toList.drop 1 |>.head?) e
  simp [tempName, String.toList_append] at this

end Falcon.Isa.Mips
