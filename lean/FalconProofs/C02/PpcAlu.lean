/-
  FalconProofs.C02.PpcAlu — PowerPC (A): the register/immediate classes, record forms, compares, special-register moves.
-/
import FalconProofs.C02.PpcCore
import FalconProofs.C02.Alu

namespace Falcon.Isa.Ppc
open Falcon Falcon.Sem Falcon.Const
open Falcon.Isa.Mips (g1 tempName c32 c1 typed_bin value_bin32 typed_c32)

/-- the machine states agree, except on the CR bits `skip` marks (the SO bit of a field the instruction writes: falcon
    has no scalar for XER[SO] and leaves `crN-so` alone — known finding `C02/ppc/*/cr-so`) -/
structure Agree (skip : Nat → Bool) (a b : St) : Prop where
  gpr : a.gpr = b.gpr
  lr : a.lr = b.lr
  ctr : a.ctr = b.ctr
  ca : a.ca = b.ca
  so : a.so = b.so
  mem : a.mem = b.mem
  cr : ∀ i, skip i = false → a.cr i = b.cr i

theorem Agree.of_eq {a b : St} (h : a = b) (skip : Nat → Bool) : Agree skip a b := by
  subst h; exact ⟨rfl, rfl, rfl, rfl, rfl, rfl, fun _ _ => rfl⟩

def noSkip : Nat → Bool := fun _ => false

/-- the mirror's graph of `i` simulates the interpreter -/
def InstrOK (skip : Nat → Bool) (i : Instr) : Prop :=
  ∀ (a : Nat) (f : Function) (σ : State) (pc : Word) (s' : St) (pc' : Word),
    liftI i a = some f → StateOK σ → exec i pc (absState σ) = .next s' pc' →
    f.cfg.entry = some 0 ∧ ∃ σ', runGraph f 4096 ⟨0, 0, σ⟩ = .done σ' ∧ StateOK σ' ∧ Agree skip (absState σ') s' ∧ pc' = pc + 4

theorem next_inj {s₁ s₂ : St} {p₁ p₂ : Word} (h : Outcome.next s₁ p₁ = .next s₂ p₂) : s₂ = s₁ ∧ p₂ = p₁ := by
  injection h with a b; exact ⟨a.symm, b.symm⟩

theorem c32_const (v : Word) : c32 v.toNat = .const (ofBV v) := rfl
theorem typed_ofBV {σ : State} (v : Word) : TypedE σ (.const (ofBV v)) := constOK32 v

/-- `rd := e`, the one-operation graph -/
theorem assign_gpr {σ : State} (hσ : StateOK σ) (rd : Reg) (e : Expr) (v : Word)
    (ht : TypedE σ e) (hb : e.bits = 32) (hv : value σ e = .ok (ofBV v)) :
    execute σ (.assign (gsc rd) e) = .ok (σ.set (gprName rd) (ofBV v), .fallThrough) ∧
      StateOK (σ.set (gprName rd) (ofBV v)) ∧ absState (σ.set (gprName rd) (ofBV v)) = (absState σ).w rd v :=
  ⟨exec_assign ht hb hv, stateOK_set32 hσ (reg_lt34 rd) v, abs_set_gpr σ rd v⟩

/-! ### the CR field writes -/

theorem w_gpr_same (s : St) (i : Reg) (v : Word) : (s.w i v).gpr i = v := by simp [St.w]

theorem abs_set_cr (σ : State) (i : Nat) (hi : i < 32) (b : Bool) :
    absState (σ.set (crName i) (Const.bit b)) = { absState σ with cr := fun j => if j = i then b else (absState σ).cr j } := by
  rw [crName, abs_set_nm σ (by omega)]
  apply St.ext' <;> simp only [cbit_bit]
  · funext j; rw [if_neg (by have := j.isLt; omega)]
  · rw [if_neg (by omega)]
  · rw [if_neg (by omega)]
  · rw [if_neg (by omega)]
  · funext j
    by_cases h : j = i
    · subst h; simp [hi]
    · rw [if_neg (by omega), if_neg h]

/-- the three assignments of `set_condition_register_*` write lt, gt, eq of field `bf` and nothing else -/
theorem setCrOps_correct {σ : State} (hσ : StateOK σ) (cmp : BinOp) (bf : Nat) (hbf : bf < 8) (l r : Expr) (x y : Word)
    (f : Word → Word → Bool) (hcmp : ∀ p q : Word, Spec.binBV cmp p q = some (Const.bit (f p q)))
    (hl : ∀ σ' : State, StateOK σ' → (absState σ').gpr = (absState σ).gpr → TypedE σ' l ∧ l.bits = 32 ∧ value σ' l = .ok (ofBV x))
    (hr : ∀ σ' : State, StateOK σ' → (absState σ').gpr = (absState σ).gpr → TypedE σ' r ∧ r.bits = 32 ∧ value σ' r = .ok (ofBV y)) :
    ∃ σ', execAll σ (setCrOps cmp bf l r) = some σ' ∧ StateOK σ' ∧
      Agree (fun i => i == 4 * bf + 3) (absState σ') ((absState σ).setCr bf (f x y) (f y x) (x == y) (absState σ).so) := by
  have bcmp : ∀ a b : Expr, (Expr.bin cmp a b).bits = 1 := by
    intro a b
    have := hcmp 0 0
    cases cmp <;> first | rfl | (simp [Spec.binBV] at this; done) | skip
    all_goals (exfalso; simp only [Spec.binBV, Option.some.injEq] at this; have h := congrArg Const.bits this; revert h; cases f 0 0 <;> decide)
  -- lt
  obtain ⟨tl0, bl0, vl0⟩ := hl σ hσ rfl
  obtain ⟨tr0, br0, vr0⟩ := hr σ hσ rfl
  have x1 : execute σ (.assign (crS (4 * bf)) (.bin cmp l r)) = .ok (σ.set (nm (35 + 4 * bf)) (Const.bit (f x y)), .fallThrough) :=
    exec_assign (dst := crS (4 * bf)) (typed_bin (op := cmp) tl0 tr0 (by rw [bl0, br0])) (bcmp l r)
    (value_bin32 vl0 vr0 (hcmp x y))
  have hσ1 := stateOK_set1 hσ (k := 35 + 4 * bf) (by omega) (by omega) (f x y)
  have a1 := abs_set_cr σ (4 * bf) (by omega) (f x y)
  -- gt
  obtain ⟨tl1, bl1, vl1⟩ := hl _ hσ1 (by rw [show nm (35 + 4 * bf) = crName (4 * bf) from rfl, a1])
  obtain ⟨tr1, br1, vr1⟩ := hr _ hσ1 (by rw [show nm (35 + 4 * bf) = crName (4 * bf) from rfl, a1])
  have x2 : execute (σ.set (nm (35 + 4 * bf)) (Const.bit (f x y))) (.assign (crS (4 * bf + 1)) (.bin cmp r l)) =
      .ok ((σ.set (nm (35 + 4 * bf)) (Const.bit (f x y))).set (nm (35 + (4 * bf + 1))) (Const.bit (f y x)), .fallThrough) :=
    exec_assign (dst := crS (4 * bf + 1)) (typed_bin (op := cmp) tr1 tl1 (by rw [bl1, br1])) (bcmp r l)
    (value_bin32 vr1 vl1 (hcmp y x))
  have hσ2 := stateOK_set1 hσ1 (k := 35 + (4 * bf + 1)) (by omega) (by omega) (f y x)
  have a2 := abs_set_cr (σ.set (nm (35 + 4 * bf)) (Const.bit (f x y))) (4 * bf + 1) (by omega) (f y x)
  -- eq
  have g2 : (absState ((σ.set (nm (35 + 4 * bf)) (Const.bit (f x y))).set (nm (35 + (4 * bf + 1))) (Const.bit (f y x)))).gpr =
      (absState σ).gpr := by
    rw [show nm (35 + (4 * bf + 1)) = crName (4 * bf + 1) from rfl, a2,
      show nm (35 + 4 * bf) = crName (4 * bf) from rfl, a1]
  obtain ⟨tl2, bl2, vl2⟩ := hl _ hσ2 g2
  obtain ⟨tr2, br2, vr2⟩ := hr _ hσ2 g2
  have x3 : execute ((σ.set (nm (35 + 4 * bf)) (Const.bit (f x y))).set (nm (35 + (4 * bf + 1))) (Const.bit (f y x)))
      (.assign (crS (4 * bf + 2)) (.bin .cmpeq l r)) =
      .ok (((σ.set (nm (35 + 4 * bf)) (Const.bit (f x y))).set (nm (35 + (4 * bf + 1))) (Const.bit (f y x))).set
        (nm (35 + (4 * bf + 2))) (Const.bit (x == y)), .fallThrough) :=
    exec_assign (dst := crS (4 * bf + 2)) (typed_bin (op := .cmpeq) tl2 tr2 (by rw [bl2, br2])) rfl
    (value_bin32 vl2 vr2 (show Spec.binBV .cmpeq x y = some (Const.bit (x == y)) from rfl))
  have hσ3 := stateOK_set1 hσ2 (k := 35 + (4 * bf + 2)) (by omega) (by omega) (x == y)
  have a3 := abs_set_cr ((σ.set (nm (35 + 4 * bf)) (Const.bit (f x y))).set (nm (35 + (4 * bf + 1))) (Const.bit (f y x)))
    (4 * bf + 2) (by omega) (x == y)
  refine ⟨_, ?_, hσ3, ?_⟩
  · simp only [setCrOps]
    rw [execAll_cons x1, execAll_cons x2, execAll_cons x3]
    rfl
  · simp only [crS] at *
    rw [show nm (35 + (4 * bf + 2)) = crName (4 * bf + 2) from rfl, a3,
      show nm (35 + (4 * bf + 1)) = crName (4 * bf + 1) from rfl, a2,
      show nm (35 + 4 * bf) = crName (4 * bf) from rfl, a1]
    refine ⟨rfl, rfl, rfl, rfl, rfl, rfl, ?_⟩
    intro i hi
    simp only [St.setCr]
    have h3 : i ≠ 4 * bf + 3 := by simpa using hi
    by_cases h0 : i = 4 * bf
    · subst h0; simp
    · by_cases h1 : i = 4 * bf + 1
      · subst h1; simp
      · by_cases h2 : i = 4 * bf + 2
        · subst h2; simp
        · simp [h0, h1, h2, h3]

def skipRc (rc : Bool) : Nat → Bool := fun i => rc && i == 3

theorem value_gx_of {σ' : State} (hσ' : StateOK σ') (rd : Reg) (v : Word) (h : (absState σ').gpr rd = v) :
    TypedE σ' (gx rd) ∧ (gx rd).bits = 32 ∧ value σ' (gx rd) = .ok (ofBV v) := by
  refine ⟨typed_gx hσ' rd, rfl, ?_⟩
  rw [value_gx hσ' rd, h]

/-- `record_cr0` after the destination register holds `v` -/
theorem record_correct {σ : State} (hσ : StateOK σ) (rc : Bool) (rd : Reg) (v : Word) (hv : (absState σ).gpr rd = v) :
    ∃ σ', execAll σ (recordOps rc rd) = some σ' ∧ StateOK σ' ∧
      Agree (skipRc rc) (absState σ') (if rc then (absState σ).record v else absState σ) := by
  cases rc
  · exact ⟨σ, rfl, hσ, Agree.of_eq rfl _⟩
  · obtain ⟨σ', h1, h2, h3⟩ := setCrOps_correct hσ .cmplts 0 (by decide) (gx rd) (c32 0) v 0 (fun p q => p.slt q)
      (fun _ _ => rfl)
      (fun σ' hσ' hg => value_gx_of hσ' rd v (by rw [hg]; exact hv))
      (fun σ' _ _ => ⟨typed_c32 0 (by decide), rfl, rfl⟩)
    refine ⟨σ', h1, h2, ?_⟩
    simp only [if_true, St.record]
    refine ⟨h3.gpr, h3.lr, h3.ctr, h3.ca, h3.so, h3.mem, fun i hi => h3.cr i ?_⟩
    simpa [skipRc] using hi

/-- `rd := e` followed by the record operations: the shape of add, subf, mr, rlwinm, … -/
theorem gpr_record {σ : State} (hσ : StateOK σ) (rd : Reg) (e : Expr) (v : Word) (rc : Bool)
    (ht : TypedE σ e) (hb : e.bits = 32) (hv : value σ e = .ok (ofBV v)) :
    ∃ σ', execAll σ (.assign (gsc rd) e :: recordOps rc rd) = some σ' ∧ StateOK σ' ∧
      Agree (skipRc rc) (absState σ') (if rc then ((absState σ).w rd v).record v else (absState σ).w rd v) := by
  obtain ⟨x1, hσ1, a1⟩ := assign_gpr hσ rd e v ht hb hv
  obtain ⟨σ', h1, h2, h3⟩ := record_correct hσ1 rc rd v (by rw [a1, w_gpr_same])
  refine ⟨σ', by rw [execAll_cons x1]; exact h1, h2, ?_⟩
  rw [a1] at h3
  exact h3

theorem recordOps_length (rc : Bool) (rd : Reg) : (recordOps rc rd).length ≤ 3 := by cases rc <;> simp [recordOps, setCrOps]

/-- from the operations of a one-block graph to the run of the graph -/
theorem finish {σ σ' : State} {skip : Nat → Bool} {s' : St} (a : Nat) (ops : List Op) (hl : ops.length < 4096)
    (he : execAll σ ops = some σ') (hσ' : StateOK σ') (hag : Agree skip (absState σ') s') (pc : Word) :
    (g1 a ops).cfg.entry = some 0 ∧ ∃ σ'', runGraph (g1 a ops) 4096 ⟨0, 0, σ⟩ = .done σ'' ∧ StateOK σ'' ∧
      Agree skip (absState σ'') s' ∧ pc + 4 = pc + 4 :=
  ⟨rfl, σ', run_g1_list a ops σ σ' he hl, hσ', hag, rfl⟩

theorem fin_eq (rc : Bool) (s : St) (v : Word) (pc : Word) :
    Outcome.next (if rc then s.record v else s) (pc + 4) = .next (if rc then s.record v else s) (pc + 4) := rfl

/-- add, subf (with their record forms) -/
theorem ok_add (rt ra rb : Reg) (rc : Bool) : InstrOK (skipRc rc) (.add rt ra rb rc) := by
  intro a f σ pc s' pc' hl hσ hx
  simp only [liftI, Option.some.injEq] at hl; subst hl
  simp only [exec] at hx
  obtain ⟨h1, h2⟩ := next_inj hx; subst h1 h2
  obtain ⟨σ', he, hs, hag⟩ := gpr_record hσ rt (.bin .add (gx ra) (gx rb)) _ rc
    (typed_bin (typed_gx hσ ra) (typed_gx hσ rb) rfl) rfl (value_bin32 (value_gx hσ ra) (value_gx hσ rb) rfl)
  exact finish a _ (by have := recordOps_length rc rt; simp; omega) he hs hag pc

theorem ok_subf (rt ra rb : Reg) (rc : Bool) : InstrOK (skipRc rc) (.subf rt ra rb rc) := by
  intro a f σ pc s' pc' hl hσ hx
  simp only [liftI, Option.some.injEq] at hl; subst hl
  simp only [exec] at hx
  obtain ⟨h1, h2⟩ := next_inj hx; subst h1 h2
  have v1 : value σ (.bin .xor (gx ra) (c32 0xffffffff)) = .ok (ofBV (~~~((absState σ).gpr ra))) := by
    rw [value_bin32 (value_gx hσ ra) (show value σ (c32 0xffffffff) = .ok (ofBV (0xffffffff#32)) from rfl) rfl,
      Mips.xor_allOnes32]
  have t1 : TypedE σ (.bin .xor (gx ra) (c32 0xffffffff)) := typed_bin (typed_gx hσ ra) (typed_c32 _ (by decide)) rfl
  have v2 := value_bin32 v1 (value_gx hσ rb) (show Spec.binBV .add _ _ = some (ofBV (~~~((absState σ).gpr ra) + (absState σ).gpr rb)) from rfl)
  have t2 : TypedE σ (.bin .add (.bin .xor (gx ra) (c32 0xffffffff)) (gx rb)) := typed_bin t1 (typed_gx hσ rb) rfl
  have v3 := value_bin32 v2 (show value σ (c32 1) = .ok (ofBV (1#32)) from rfl)
    (show Spec.binBV .add _ _ = some (ofBV (~~~((absState σ).gpr ra) + (absState σ).gpr rb + 1)) from rfl)
  obtain ⟨σ', he, hs, hag⟩ := gpr_record hσ rt _ _ rc (typed_bin t2 (typed_c32 1 (by decide)) rfl) rfl v3
  exact finish a _ (by have := recordOps_length rc rt; simp; omega) he hs hag pc

theorem r0_eq (s : St) (ra : Reg) (h : ra ≠ 0) : s.r0 ra = s.gpr ra := by unfold St.r0; rw [if_neg h]
theorem r0_zero (s : St) : s.r0 0 = 0 := rfl

/-- `rd := e`, no record -/
theorem gpr_plain {σ : State} (hσ : StateOK σ) (rd : Reg) (e : Expr) (v : Word)
    (ht : TypedE σ e) (hb : e.bits = 32) (hv : value σ e = .ok (ofBV v)) :
    ∃ σ', execAll σ [.assign (gsc rd) e] = some σ' ∧ StateOK σ' ∧ Agree noSkip (absState σ') ((absState σ).w rd v) := by
  obtain ⟨x1, hσ1, a1⟩ := assign_gpr hσ rd e v ht hb hv
  exact ⟨_, by rw [execAll_cons x1]; rfl, hσ1, Agree.of_eq a1 _⟩

/-- addi / li -/
theorem ok_addi (rt ra : Reg) (si : BitVec 16) : InstrOK noSkip (.addi rt ra si) := by
  intro a f σ pc s' pc' hl hσ hx
  simp only [liftI, Option.some.injEq] at hl; subst hl
  simp only [exec] at hx
  obtain ⟨h1, h2⟩ := next_inj hx; subst h1 h2
  have hc : value σ (c32 (sextNat si)) = .ok (ofBV (sext16 si)) := rfl
  have tc : TypedE σ (c32 (sextNat si)) := typed_ofBV (sext16 si)
  by_cases h0 : ra = 0
  · subst h0
    obtain ⟨σ', he, hs, hag⟩ := gpr_plain hσ rt (c32 (sextNat si)) (sext16 si) tc rfl hc
    have e0 : ∀ z : Word, (0 : Word) + z = z := BitVec.zero_add
    rw [r0_zero, e0, if_pos rfl]
    exact finish a _ (by simp) he hs hag pc
  · obtain ⟨σ', he, hs, hag⟩ := gpr_plain hσ rt (.bin .add (gx ra) (c32 (sextNat si))) _
      (typed_bin (typed_gx hσ ra) tc rfl) rfl (value_bin32 (value_gx hσ ra) hc rfl)
    rw [if_neg h0, r0_eq _ _ h0]
    exact finish a _ (by simp) he hs hag pc

theorem shl16 (si : BitVec 16) : (sext16 si) <<< 16 = si ++ (0 : BitVec 16) := by
  apply BitVec.eq_of_getLsbD_eq
  intro i hi
  simp only [sext16, BitVec.getLsbD_shiftLeft, BitVec.getLsbD_append, BitVec.getLsbD_signExtend]
  by_cases h : i < 16
  · simp [h, hi]
  · have : i - 16 < 16 := by omega
    simp [h, hi, this]
    intro _; omega

theorem lis_val (si : BitVec 16) : (⟨32, si.toNat * 65536⟩ : Const) = ofBV (si ++ (0 : BitVec 16)) := Mips.lui_val si

/-- addis / lis -/
theorem ok_addis (rt ra : Reg) (si : BitVec 16) : InstrOK noSkip (.addis rt ra si) := by
  intro a f σ pc s' pc' hl hσ hx
  simp only [liftI, Option.some.injEq] at hl; subst hl
  simp only [exec] at hx
  obtain ⟨h1, h2⟩ := next_inj hx; subst h1 h2
  by_cases h0 : ra = 0
  · subst h0
    have hv : value σ (.bin .shl (c32 (sextNat si)) (c32 16)) = .ok (ofBV (si ++ (0 : BitVec 16))) := by
      rw [value_bin32 (show value σ (c32 (sextNat si)) = .ok (ofBV (sext16 si)) from rfl)
        (show value σ (c32 16) = .ok (ofBV (16#32)) from rfl)
        (show Spec.binBV .shl _ _ = some (ofBV (Spec.shl (sext16 si) (16#32).toNat)) from rfl)]
      rw [show Spec.shl (sext16 si) (16#32).toNat = sext16 si <<< 16 from by simp [Spec.shl]]
      exact congrArg (fun z => Res.ok (ofBV z)) (shl16 si)
    obtain ⟨σ', he, hs, hag⟩ := gpr_plain hσ rt _ _
      (typed_bin (typed_ofBV (sext16 si)) (typed_c32 16 (by decide)) rfl) rfl hv
    have e0 : ∀ z : Word, (0 : Word) + z = z := BitVec.zero_add
    rw [r0_zero, e0, if_pos rfl]
    exact finish a _ (by simp) he hs hag pc
  · have hc : value σ (c32 (si.toNat * 65536)) = .ok (ofBV (si ++ (0 : BitVec 16))) := by
      rw [Mips.value_c32, lis_val]
    have tc : TypedE σ (c32 (si.toNat * 65536)) := typed_c32 _ (by have := si.isLt; omega)
    obtain ⟨σ', he, hs, hag⟩ := gpr_plain hσ rt (.bin .add (gx ra) (c32 (si.toNat * 65536))) _
      (typed_bin (typed_gx hσ ra) tc rfl) rfl (value_bin32 (value_gx hσ ra) hc rfl)
    rw [if_neg h0, r0_eq _ _ h0]
    exact finish a _ (by simp) he hs hag pc

end Falcon.Isa.Ppc
