/-
  FalconProofs.C02.Store — (A) for sb/sh/sw.
-/
import FalconProofs.C02.Mem

namespace Falcon.Isa.Mips
open Falcon Falcon.Sem Falcon.Const

theorem write1 (m : ByteMem) (A : Nat) (c0 : UInt8) (y : Nat) :
    m.write A [c0] y = if y = A then some c0 else m y := by
  unfold ByteMem.write
  by_cases h0 : y = A
  · subst h0; simp
  · simp only [List.length_cons, List.length_nil, h0, if_false]
    rw [if_neg (by omega)]

theorem write2 (m : ByteMem) (A : Nat) (c0 c1 : UInt8) (y : Nat) :
    m.write A [c0, c1] y = if y = A + 1 then some c1 else if y = A then some c0 else m y := by
  unfold ByteMem.write
  by_cases h1 : y = A + 1
  · subst h1; simp
  · by_cases h0 : y = A
    · subst h0; simp
    · simp only [List.length_cons, List.length_nil, h0, h1, if_false]
      rw [if_neg (by omega)]

theorem write4 (m : ByteMem) (A : Nat) (c0 c1 c2 c3 : UInt8) (y : Nat) :
    m.write A [c0, c1, c2, c3] y =
      if y = A + 3 then some c3 else if y = A + 2 then some c2 else if y = A + 1 then some c1 else if y = A then some c0 else m y := by
  unfold ByteMem.write
  by_cases h3 : y = A + 3
  · subst h3; simp
  · by_cases h2 : y = A + 2
    · subst h2; simp
    · by_cases h1 : y = A + 1
      · subst h1; simp
      · by_cases h0 : y = A
        · subst h0; simp
        · simp only [List.length_cons, List.length_nil, h0, h1, h2, h3, if_false]
          rw [if_neg (by omega)]

/-- running `store ea v` -/
theorem exec_store {σ : State} (hσ : StateOK σ) (base : Reg) (off : BitVec 16) (src : Expr) (k : Nat) (x : BitVec (8 * k))
    (_hk : k ≤ 4) (ht : TypedE σ src) (hb : src.bits = 8 * k) (hv : value σ src = .ok (ofBV x)) :
    execute σ (.store (eaExpr base off) src) =
      .ok ({ σ with mem := σ.mem.write ((absState σ).r base + sext16 off).toNat (bytesOf σ.endian (ofBV x)) }, .fallThrough) := by
  have htt : TypedOp σ (.store (eaExpr base off) src) :=
    ⟨typed_ea hσ base off, ht, by rw [bits_ea]; decide, by omega⟩
  rw [C07.execute_typed σ _ htt]
  simp only [value_ea hσ base off, hv]
  have hlt := ((absState σ).r base + sext16 off).isLt
  rw [if_neg (by simp only [ofBV]; omega)]
  rfl

/-- a store changes only the memory -/
theorem sim_store {σ : State} (hσ : StateOK σ) (m' : ByteMem) (s' : St)
    (hs : s' = { absState σ with mem := s'.mem }) (hm : ∀ y, m' y = s'.mem y) :
    Sim false σ { σ with mem := m' } s' := by
  refine ⟨⟨hσ.gpr, hσ.hi, hσ.lo⟩, ?_, rfl, rfl⟩
  rw [hs]
  exact ⟨fun _ => rfl, fun _ => rfl, fun _ => rfl, hm, rfl⟩

theorem byte_eq (v : Word) (k : Nat) (_hk : k ≤ 3) :
    UInt8.ofNat (v.extractLsb' (8 * k) 8).toNat = UInt8.ofNat (v.toNat / 256 ^ k % 256) := by
  congr 1
  rw [BitVec.extractLsb'_toNat, Nat.shiftRight_eq_div_pow, Nat.pow_mul]

theorem sw_mem (be : Bool) (m : ByteMem) (a v : Word) (hal : a.toNat + 3 < 2 ^ 32) (y : Nat) :
    m.write a.toNat (bytesOf (endianOf be) (ofBV v)) y = wrWord be m a v y := by
  have e1 := toNat_add_small a 1 (by omega)
  have e2 := toNat_add_small a 2 (by omega)
  have e3 := toNat_add_small a 3 (by omega)
  have b0 := byte_eq v 0 (by decide)
  have b1 := byte_eq v 1 (by decide)
  have b2 := byte_eq v 2 (by decide)
  have b3 := byte_eq v 3 (by decide)
  simp only [Nat.pow_zero, Nat.pow_one, Nat.div_one, Nat.mul_zero, Nat.mul_one] at b0 b1 b2 b3
  have d2 : v.toNat / 256 / 256 = v.toNat / 256 ^ 2 := by rw [Nat.div_div_eq_div_mul]
  have d3 : v.toNat / 256 ^ 2 / 256 = v.toNat / 256 ^ 3 := by rw [Nat.div_div_eq_div_mul]
  cases be
  · simp only [endianOf, Bool.false_eq_true, if_false, bytesOf, ofBV, show (32 : Nat) / 8 = 4 from rfl, bytesOfLE, write4,
      wrWord, wrByte,
      show (a + 1 : Word) = a + BitVec.ofNat 32 1 from rfl, show (a + 2 : Word) = a + BitVec.ofNat 32 2 from rfl,
      show (a + 3 : Word) = a + BitVec.ofNat 32 3 from rfl, e1, e2, e3, b0, b1, b2, b3, d2, d3]
  · simp only [endianOf, if_true, bytesOf, ofBV, show (32 : Nat) / 8 = 4 from rfl, bytesOfLE, List.reverse_cons,
      List.reverse_nil, List.nil_append, List.cons_append, write4, wrWord, wrByte,
      show (a + 1 : Word) = a + BitVec.ofNat 32 1 from rfl, show (a + 2 : Word) = a + BitVec.ofNat 32 2 from rfl,
      show (a + 3 : Word) = a + BitVec.ofNat 32 3 from rfl, e1, e2, e3, b0, b1, b2, b3, d2, d3]

theorem sh_mem (be : Bool) (m : ByteMem) (a : Word) (v : BitVec 16) (hal : a.toNat + 1 < 2 ^ 32) (y : Nat) :
    m.write a.toNat (bytesOf (endianOf be) (ofBV v)) y = wrHalf be m a v y := by
  have e1 := toNat_add_small a 1 (by omega)
  have b0 : UInt8.ofNat (v.extractLsb' 0 8).toNat = UInt8.ofNat (v.toNat % 256) := by
    congr 1
  have b1 : UInt8.ofNat (v.extractLsb' 8 8).toNat = UInt8.ofNat (v.toNat / 256 % 256) := by
    congr 1; rw [BitVec.extractLsb'_toNat, Nat.shiftRight_eq_div_pow]
  cases be
  · simp only [endianOf, Bool.false_eq_true, if_false, bytesOf, ofBV, show (16 : Nat) / 8 = 2 from rfl, bytesOfLE, write2,
      wrHalf, wrByte, show (a + 1 : Word) = a + BitVec.ofNat 32 1 from rfl, e1, b0, b1]
  · simp only [endianOf, if_true, bytesOf, ofBV, show (16 : Nat) / 8 = 2 from rfl, bytesOfLE, List.reverse_cons,
      List.reverse_nil, List.nil_append, List.cons_append, write2, wrHalf, wrByte,
      show (a + 1 : Word) = a + BitVec.ofNat 32 1 from rfl, e1, b0, b1]

theorem sb_mem (e : Endian) (m : ByteMem) (a : Word) (v : BitVec 8) (y : Nat) :
    m.write a.toNat (bytesOf e (ofBV v)) y = wrByte m a v y := by
  have hv : v.toNat % 256 = v.toNat := Nat.mod_eq_of_lt v.isLt
  cases e <;> simp [bytesOf, ofBV, bytesOfLE, write1, wrByte, hv]

theorem value_trun {σ : State} (hσ : StateOK σ) (rt : Reg) (k : Nat) (hk : k = 8 ∨ k = 16) :
    TypedE σ (.ext .trun k (rx rt)) ∧ value σ (.ext .trun k (rx rt)) = .ok (ofBV (((absState σ).r rt).truncate k)) := by
  refine ⟨⟨typed_rx hσ rt, by omega, by omega, by show k < (rx rt).bits; rw [bits_rx]; omega⟩, ?_⟩
  simp only [value, value_rx hσ rt, Res.bind_ok, Spec.ext, ofBV_bits, toBV_ofBV]
  rw [if_neg (by omega)]

theorem instrOK_store (op : St') (rt base : Reg) (off : BitVec 16) : InstrOK (.store op rt base off) := by
  intro a f σ pc s' pc' u hl hσ hx
  simp only [exec] at hx
  generalize hea : (absState σ).r base + sext16 off = ea at hx
  cases op <;> simp only [liftI, Option.some.injEq] at hl <;> try (cases hl; done)
  case sw =>
    subst hl
    simp only [doStore] at hx
    by_cases hb : (ea &&& 3).toNat ≠ 0
    · rw [if_pos hb] at hx; cases hx
    · rw [if_neg hb] at hx
      obtain ⟨h1, h2, h3⟩ := next_inj' hx
      subst h1 h2 h3
      have hal : ea.toNat + 3 < 2 ^ 32 := by
        have := and3_toNat ea; have := ea.isLt; omega
      have hx1 := exec_store hσ base off (rx rt) 4 ((absState σ).r rt) (by decide) (typed_rx hσ rt) (bits_rx rt) (value_rx hσ rt)
      rw [hea] at hx1
      refine ⟨rfl, _, run_g1_one a _ σ _ 4094 hx1, sim_store hσ _ _ rfl ?_, rfl⟩
      intro y
      rw [endian_abs σ]
      exact sw_mem _ _ ea _ hal y
  case sh =>
    subst hl
    simp only [doStore] at hx
    by_cases h0 : ea.getLsbD 0 = true
    · rw [if_pos h0] at hx; cases hx
    · rw [if_neg h0] at hx
      obtain ⟨h1, h2, h3⟩ := next_inj' hx
      subst h1 h2 h3
      have hal : ea.toNat + 1 < 2 ^ 32 := by
        rw [lsb0] at h0; have := ea.isLt; simp at h0; omega
      obtain ⟨tt, tv⟩ := value_trun hσ rt 16 (.inr rfl)
      have hx1 := exec_store hσ base off _ 2 (((absState σ).r rt).truncate 16) (by decide) tt rfl tv
      rw [hea] at hx1
      refine ⟨rfl, _, run_g1_one a _ σ _ 4094 hx1, sim_store hσ _ _ rfl ?_, rfl⟩
      intro y
      rw [endian_abs σ]
      exact sh_mem _ _ ea _ hal y
  case sb =>
    subst hl
    simp only [doStore] at hx
    obtain ⟨h1, h2, h3⟩ := next_inj' hx
    subst h1 h2 h3
    obtain ⟨tt, tv⟩ := value_trun hσ rt 8 (.inl rfl)
    have hx1 := exec_store hσ base off _ 1 (((absState σ).r rt).truncate 8) (by decide) tt rfl tv
    rw [hea] at hx1
    refine ⟨rfl, _, run_g1_one a _ σ _ 4094 hx1, sim_store hσ _ _ rfl ?_, rfl⟩
    intro y
    rw [sb_mem]
    simp only [byteOf]
    rfl

end Falcon.Isa.Mips
