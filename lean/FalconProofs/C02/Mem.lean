/-
  FalconProofs.C02.Mem — (A) for lb/lbu/lh/lhu/lw and sb/sh/sw: the IL's byte-array accesses in the memory's
  endianness are the interpreter's byte-by-byte accesses (for the aligned addresses the manual allows).
-/
import FalconProofs.C02.Branch

namespace Falcon.Isa.Mips
open Falcon Falcon.Sem Falcon.Const

def endianOf (be : Bool) : Endian := if be then .big else .little

/-- the IL state's memory is in the byte order the machine state says -/
theorem endian_abs (σ : State) : σ.endian = endianOf (absState σ).bigEndian := by
  obtain ⟨sc, mem, e⟩ := σ
  cases e <;> rfl

theorem next_inj' {s₁ s₂ : St} {p₁ p₂ : Word} {u₁ u₂ : Bool} (h : Outcome.next s₁ p₁ u₁ = .next s₂ p₂ u₂) :
    s₂ = s₁ ∧ p₂ = p₁ ∧ u₂ = u₁ := by
  injection h with a b c; exact ⟨a.symm, b.symm, c.symm⟩

theorem typed_ea {σ : State} (hσ : StateOK σ) (base : Reg) (off : BitVec 16) : TypedE σ (eaExpr base off) :=
  typed_bin (typed_rx hσ base) (typed_const_ofBV _) (bits_rx base)

theorem value_ea {σ : State} (hσ : StateOK σ) (base : Reg) (off : BitVec 16) :
    value σ (eaExpr base off) = .ok (ofBV ((absState σ).r base + sext16 off)) :=
  value_bin32 (value_rx hσ base) rfl rfl

theorem bits_ea (base : Reg) (off : BitVec 16) : (eaExpr base off).bits = 32 := bits_rx base

/-! ### bytes -/

theorem byte_toNat (B : UInt8) : (BitVec.ofNat 8 B.toNat).toNat = B.toNat := by
  simp only [BitVec.toNat_ofNat]
  exact Nat.mod_eq_of_lt B.toNat_lt

theorem toNat_append8 {n : Nat} (x : BitVec n) (y : BitVec 8) : (x ++ y).toNat = x.toNat * 256 + y.toNat := by
  rw [BitVec.toNat_append, ← Nat.shiftLeft_add_eq_or_of_lt y.isLt, Nat.shiftLeft_eq]

theorem rdByte_some {m : ByteMem} {a : Word} {b : BitVec 8} (h : rdByte m a = some b) :
    ∃ B, m a.toNat = some B ∧ b = BitVec.ofNat 8 B.toNat := by
  unfold rdByte at h
  cases hm : m a.toNat with
  | none => rw [hm] at h; cases h
  | some B => rw [hm] at h; injection h with h; exact ⟨B, rfl, h.symm⟩

theorem toNat_add_small (a : Word) (k : Nat) (hk : a.toNat + k < 2 ^ 32) : (a + BitVec.ofNat 32 k).toNat = a.toNat + k := by
  simp only [BitVec.toNat_add, BitVec.toNat_ofNat]
  have := a.isLt
  rw [Nat.mod_eq_of_lt (a := k) (by omega), Nat.mod_eq_of_lt hk]

theorem rdHalf_readBytes (be : Bool) (m : ByteMem) (a : Word) (v : BitVec 16) (hal : a.toNat + 1 < 2 ^ 32)
    (h : rdHalf be m a = some v) :
    ∃ bs, m.readBytes a.toNat 2 = some bs ∧ constOfBytes (endianOf be) bs = ofBV v := by
  simp only [rdHalf, bind, Option.bind] at h
  cases h0 : rdByte m a with
  | none => rw [h0] at h; cases h
  | some b0 =>
    rw [h0] at h
    cases h1 : rdByte m (a + 1) with
    | none => rw [h1] at h; cases h
    | some b1 =>
      rw [h1] at h
      simp only [pure, Option.some.injEq] at h
      obtain ⟨B0, m0, e0⟩ := rdByte_some h0
      obtain ⟨B1, m1, e1⟩ := rdByte_some h1
      rw [show (a + 1 : Word) = a + BitVec.ofNat 32 1 from rfl, toNat_add_small a 1 hal] at m1
      refine ⟨[B0, B1], by simp [ByteMem.readBytes, m0, m1], ?_⟩
      subst h e0 e1
      cases be
      · simp only [endianOf, constOfBytes, natOfLE, ofBV, Bool.false_eq_true, if_false, toNat_append8, byte_toNat,
          List.length_cons, List.length_nil]
        congr 1; omega
      · simp only [endianOf, constOfBytes, natOfLE, ofBV, if_true, toNat_append8, byte_toNat, List.reverse_cons,
          List.reverse_nil, List.nil_append, List.cons_append, List.length_cons, List.length_nil]
        congr 1; omega

theorem rdWord_readBytes (be : Bool) (m : ByteMem) (a : Word) (v : Word) (hal : a.toNat + 3 < 2 ^ 32)
    (h : rdWord be m a = some v) :
    ∃ bs, m.readBytes a.toNat 4 = some bs ∧ constOfBytes (endianOf be) bs = ofBV v := by
  simp only [rdWord, bind, Option.bind] at h
  cases h0 : rdByte m a with
  | none => rw [h0] at h; cases h
  | some b0 =>
    rw [h0] at h
    cases h1 : rdByte m (a + 1) with
    | none => rw [h1] at h; cases h
    | some b1 =>
      rw [h1] at h
      cases h2 : rdByte m (a + 2) with
      | none => rw [h2] at h; cases h
      | some b2 =>
        rw [h2] at h
        cases h3 : rdByte m (a + 3) with
        | none => rw [h3] at h; cases h
        | some b3 =>
          rw [h3] at h
          simp only [pure, Option.some.injEq] at h
          obtain ⟨B0, m0, e0⟩ := rdByte_some h0
          obtain ⟨B1, m1, e1⟩ := rdByte_some h1
          obtain ⟨B2, m2, e2⟩ := rdByte_some h2
          obtain ⟨B3, m3, e3⟩ := rdByte_some h3
          rw [show (a + 1 : Word) = a + BitVec.ofNat 32 1 from rfl, toNat_add_small a 1 (by omega)] at m1
          rw [show (a + 2 : Word) = a + BitVec.ofNat 32 2 from rfl, toNat_add_small a 2 (by omega)] at m2
          rw [show (a + 3 : Word) = a + BitVec.ofNat 32 3 from rfl, toNat_add_small a 3 (by omega)] at m3
          refine ⟨[B0, B1, B2, B3], by simp [ByteMem.readBytes, m0, m1, m2, m3], ?_⟩
          subst h e0 e1 e2 e3
          cases be
          · simp only [endianOf, constOfBytes, natOfLE, ofBV, Bool.false_eq_true, if_false, toNat_append8, byte_toNat,
              List.length_cons, List.length_nil]
            congr 1; omega
          · simp only [endianOf, constOfBytes, natOfLE, ofBV, if_true, toNat_append8, byte_toNat, List.reverse_cons,
              List.reverse_nil, List.nil_append, List.cons_append, List.length_cons, List.length_nil]
            congr 1; omega

theorem rdByte_readBytes (e : Endian) (m : ByteMem) (a : Word) (v : BitVec 8) (h : rdByte m a = some v) :
    ∃ bs, m.readBytes a.toNat 1 = some bs ∧ constOfBytes e bs = ofBV v := by
  obtain ⟨B, m0, e0⟩ := rdByte_some h
  refine ⟨[B], by simp [ByteMem.readBytes, m0], ?_⟩
  subst e0
  cases e <;> simp [constOfBytes, natOfLE, ofBV]

/-! ### loads -/

/-- running `load dst ea` when the bytes are there -/
theorem exec_load {σ : State} (hσ : StateOK σ) (dst : Scalar) (base : Reg) (off : BitVec 16) (k : Nat) (bs : List UInt8)
    (hk : dst.bits = 8 * k) (hk1 : 1 ≤ k) (hk4 : k ≤ 4)
    (hr : σ.mem.readBytes ((absState σ).r base + sext16 off).toNat k = some bs) :
    execute σ (.load dst (eaExpr base off)) = .ok (σ.set dst.name (constOfBytes σ.endian bs), .fallThrough) := by
  have ht : TypedOp σ (.load dst (eaExpr base off)) :=
    ⟨typed_ea hσ base off, by rw [bits_ea]; decide, by omega, by omega, by omega⟩
  rw [C07.execute_typed σ _ ht]
  simp only [value_ea hσ base off]
  have hlt := ((absState σ).r base + sext16 off).isLt
  have hd : dst.bits / 8 = k := by omega
  rw [if_neg (by simp only [ofBV, hd]; omega)]
  simp only [ofBV, hd, hr]

theorem and3_toNat (a : Word) : (a &&& 3).toNat = a.toNat % 4 := by
  rw [BitVec.toNat_and]
  exact Nat.and_two_pow_sub_one_eq_mod a.toNat 2

theorem lsb0 (a : Word) : a.getLsbD 0 = decide (a.toNat % 2 = 1) := by
  rw [BitVec.getLsbD, Nat.testBit_zero]

/-- lw -/
theorem lw_correct {σ : State} (hσ : StateOK σ) (rt base : Reg) (off : BitVec 16) (a : Nat) (pc : Word) (s' : St) (pc' : Word)
    (u : Bool) (hx : doLoad .lw (absState σ) rt ((absState σ).r base + sext16 off) pc = .next s' pc' u) :
    ∃ σ', runGraph (g1 a [.load (rsc rt) (eaExpr base off)]) 4096 ⟨0, 0, σ⟩ = .done σ' ∧ Sim u σ σ' s' ∧ pc' = pc + 4 := by
  generalize hea : (absState σ).r base + sext16 off = ea at hx
  simp only [doLoad] at hx
  by_cases hb : (ea &&& 3).toNat ≠ 0
  · rw [if_pos hb] at hx; cases hx
  · rw [if_neg hb] at hx
    cases hw : rdWord (absState σ).bigEndian (absState σ).mem ea with
    | none => rw [hw] at hx; cases hx
    | some v =>
      rw [hw] at hx
      obtain ⟨h1, h2, h3⟩ := next_inj' hx
      subst h1 h2 h3
      have hal : ea.toNat + 3 < 2 ^ 32 := by
        have := and3_toNat ea; have := ea.isLt; omega
      obtain ⟨bs, hr, hc⟩ := rdWord_readBytes _ _ ea v hal hw
      rw [← endian_abs] at hc
      have hx1 := exec_load hσ (rsc rt) base off 4 bs rfl (by decide) (by decide) (by rw [hea]; exact hr)
      rw [hc] at hx1
      exact ⟨_, run_g1_one a _ σ _ 4094 hx1,
        ⟨stateOK_set_reg hσ rt v, absState_set_reg σ rt v, rfl, C07.get_set_ne σ _ (regName_ne_bc rt).symm⟩, rfl⟩

/-- the two-operation graphs of lb/lbu/lh/lhu: load into a temporary, extend into rt -/
theorem load_ext_correct {σ : State} (hσ : StateOK σ) (rt base : Reg) (off : BitVec 16) (a : Nat) (k : Nat) (op : ExtOp)
    (hop : op = .sext ∨ op = .zext) (hk1 : 1 ≤ k) (hk2 : k ≤ 2) (bs : List UInt8) (x : BitVec (8 * k))
    (hr : σ.mem.readBytes ((absState σ).r base + sext16 off).toNat k = some bs)
    (hc : constOfBytes σ.endian bs = ofBV x) :
    let t : Scalar := { name := tempName a, bits := 8 * k }
    ∃ σ', runGraph (g1 a [.load t (eaExpr base off), .assign (rsc rt) (.ext op 32 (.scalar t))]) 4096 ⟨0, 0, σ⟩ = .done σ' ∧
      Sim false σ σ' ((absState σ).w rt (if op = .sext then x.signExtend 32 else x.zeroExtend 32)) := by
  intro t
  have hx1 := exec_load hσ t base off k bs rfl hk1 (by omega) hr
  rw [hc] at hx1
  have hσ1 : StateOK (σ.set (tempName a) (ofBV x)) :=
    stateOK_set_other hσ _ _ (fun i => regName_ne_temp i a) (hi_ne_temp a) (lo_ne_temp a)
  have habs : absState (σ.set (tempName a) (ofBV x)) = absState σ :=
    absState_set_other σ _ _ (fun i => regName_ne_temp i a) (hi_ne_temp a) (lo_ne_temp a)
  have hget : (σ.set (tempName a) (ofBV x)).get (tempName a) = some (ofBV x) := C07.get_set_self _ _ _
  have tt : TypedE (σ.set (tempName a) (ofBV x)) (.scalar t) := by
    refine ⟨by show 1 ≤ 8 * k; omega, by show 8 * k < 2 ^ 64; omega, ?_⟩
    simp only [HoldsOK, t, hget]
    exact ⟨rfl, x.isLt⟩
  have te : TypedE (σ.set (tempName a) (ofBV x)) (.ext op 32 (.scalar t)) := by
    refine ⟨tt, by decide, by decide, ?_⟩
    rcases hop with h | h <;> subst h <;> show 8 * k < 32 <;> omega
  have hv : value (σ.set (tempName a) (ofBV x)) (.ext op 32 (.scalar t)) =
      .ok (ofBV (if op = .sext then x.signExtend 32 else x.zeroExtend 32)) := by
    simp only [value, t, hget, Res.bind_ok]
    rcases hop with h | h <;> subst h <;> simp only [Spec.ext, ofBV_bits, toBV_ofBV] <;> rw [if_neg (by omega)] <;> simp
  obtain ⟨σ', hrun, hsim⟩ := assign_reg_correct hσ1 a rt _ _ te rfl hv 0
  have hx2 : execute (σ.set (tempName a) (ofBV x)) (.assign (rsc rt) (.ext op 32 (.scalar t))) =
      .ok ((σ.set (tempName a) (ofBV x)).set (regName rt) (ofBV (if op = .sext then x.signExtend 32 else x.zeroExtend 32)), .fallThrough) := by
    rw [C07.execute_typed _ _ (show TypedOp _ (.assign (rsc rt) (.ext op 32 (.scalar t))) from ⟨te, rfl⟩)]
    simp only [hv, rsc]
  refine ⟨_, run_g1_two a _ _ σ _ _ 4093 hx1 hx2, stateOK_set_reg hσ1 rt _, ?_, rfl, ?_⟩
  · have := absState_set_reg (σ.set (tempName a) (ofBV x)) rt (if op = .sext then x.signExtend 32 else x.zeroExtend 32)
    rw [habs] at this
    exact this
  · rw [C07.get_set_ne _ _ (regName_ne_bc rt).symm, C07.get_set_ne _ _ (bc_ne_temp a)]

theorem fin_next {s : St} {rt : Reg} {pc : Word} {o : Option Word} {s' : St} {pc' : Word} {u : Bool}
    (h : (match o with
          | some v => Outcome.next (s.w rt v) (pc + 4) false
          | none => Outcome.fault) = .next s' pc' u) :
    ∃ v, o = some v ∧ s' = s.w rt v ∧ pc' = pc + 4 ∧ u = false := by
  cases o with
  | none => cases h
  | some v => obtain ⟨a, b, c⟩ := next_inj' h; exact ⟨v, rfl, a, b, c⟩

theorem instrOK_load (op : Ld) (rt base : Reg) (off : BitVec 16) : InstrOK (.load op rt base off) := by
  intro a f σ pc s' pc' u hl hσ hx
  simp only [exec] at hx
  generalize hea : (absState σ).r base + sext16 off = ea at hx
  cases op <;> simp only [liftI, Option.some.injEq] at hl <;> try (cases hl; done)
  case lw =>
    subst hl; subst hea
    exact ⟨rfl, lw_correct hσ rt base off a pc s' pc' u hx⟩
  case lb =>
    subst hl
    simp only [doLoad] at hx
    obtain ⟨v, hv, h1, h2, h3⟩ := fin_next hx
    subst h1 h2 h3
    obtain ⟨b, hb, hvb⟩ := Option.map_eq_some_iff.mp hv
    obtain ⟨bs, hr, hc⟩ := rdByte_readBytes σ.endian _ ea b hb
    obtain ⟨σ', hrun, hsim⟩ := load_ext_correct hσ rt base off a 1 .sext (.inl rfl) (by decide) (by decide) bs b
      (by rw [hea]; exact hr) hc
    subst hvb
    exact ⟨rfl, σ', hrun, by simpa using hsim, rfl⟩
  case lbu =>
    subst hl
    simp only [doLoad] at hx
    obtain ⟨v, hv, h1, h2, h3⟩ := fin_next hx
    subst h1 h2 h3
    obtain ⟨b, hb, hvb⟩ := Option.map_eq_some_iff.mp hv
    obtain ⟨bs, hr, hc⟩ := rdByte_readBytes σ.endian _ ea b hb
    obtain ⟨σ', hrun, hsim⟩ := load_ext_correct hσ rt base off a 1 .zext (.inr rfl) (by decide) (by decide) bs b
      (by rw [hea]; exact hr) hc
    subst hvb
    exact ⟨rfl, σ', hrun, by simpa using hsim, rfl⟩
  case lh =>
    subst hl
    simp only [doLoad] at hx
    by_cases h0 : ea.getLsbD 0 = true
    · rw [if_pos h0] at hx; cases hx
    · rw [if_neg h0] at hx
      obtain ⟨v, hv, h1, h2, h3⟩ := fin_next hx
      subst h1 h2 h3
      obtain ⟨b, hb, hvb⟩ := Option.map_eq_some_iff.mp hv
      have hal : ea.toNat + 1 < 2 ^ 32 := by
        rw [lsb0] at h0; have := ea.isLt; simp at h0; omega
      obtain ⟨bs, hr, hc⟩ := rdHalf_readBytes _ _ ea b hal hb
      rw [← endian_abs] at hc
      obtain ⟨σ', hrun, hsim⟩ := load_ext_correct hσ rt base off a 2 .sext (.inl rfl) (by decide) (by decide) bs b
        (by rw [hea]; exact hr) hc
      subst hvb
      exact ⟨rfl, σ', hrun, by simpa using hsim, rfl⟩
  case lhu =>
    subst hl
    simp only [doLoad] at hx
    by_cases h0 : ea.getLsbD 0 = true
    · rw [if_pos h0] at hx; cases hx
    · rw [if_neg h0] at hx
      obtain ⟨v, hv, h1, h2, h3⟩ := fin_next hx
      subst h1 h2 h3
      obtain ⟨b, hb, hvb⟩ := Option.map_eq_some_iff.mp hv
      have hal : ea.toNat + 1 < 2 ^ 32 := by
        rw [lsb0] at h0; have := ea.isLt; simp at h0; omega
      obtain ⟨bs, hr, hc⟩ := rdHalf_readBytes _ _ ea b hal hb
      rw [← endian_abs] at hc
      obtain ⟨σ', hrun, hsim⟩ := load_ext_correct hσ rt base off a 2 .zext (.inr rfl) (by decide) (by decide) bs b
        (by rw [hea]; exact hr) hc
      subst hvb
      exact ⟨rfl, σ', hrun, by simpa using hsim, rfl⟩

end Falcon.Isa.Mips
