/-
  FalconProofs.C02.PpcMask — the rlwinm mask constant of the PPC lifter against the manual's MASK(mb, me), all 1024 cases.
-/
import FalconModel.Isa.PpcLift

namespace Falcon.Isa.Ppc

theorem mask_eq_maskLifter : ∀ mb me : Fin 32, (mask mb.val me.val).toNat = maskLifter mb.val me.val := by
  decide

end Falcon.Isa.Ppc
