/-
  FalconProofs.C02.PpcTop — PowerPC (A): every mirrored instruction, and the whole lifted block (`liftInstr`) with b, bl, blr, bctr.
-/
import FalconProofs.C02.PpcStmw
import FalconProofs.C02.Branch

namespace Falcon.Isa.Ppc
open Falcon Falcon.Sem Falcon.Const
open Falcon.Isa.Mips (g1 tempName c32 c1 typed_bin value_bin32 typed_c32 go_cons_done go_cons_branch go_nil_one
  run_g1_branch runGraph_instr runGraph_branch block_g1 mkIns)

/-- the CR bits an instruction writes without falcon modelling them: the SO bit of the field a compare or a record form sets -/
def skipOf : Instr → Nat → Bool
  | .add _ _ _ rc | .subf _ _ _ rc | .addze _ _ rc | .rlwinm _ _ _ _ _ rc | .srawi _ _ _ rc => skipRc rc
  | .cmpi bf _ _ | .cmpli bf _ _ => skipBf bf
  | _ => noSkip

/-- every instruction graph of the mirror simulates the interpreter -/
theorem liftI_correct (i : Instr) (a : Nat) (f : Function) (σ : State) (pc : Word) (s' : St) (pc' : Word)
    (hl : liftI i a = some f) (hσ : StateOK σ) (hx : exec i pc (absState σ) = .next s' pc') (hw : noWrap i (absState σ)) :
    f.cfg.entry = some 0 ∧ ∃ σ', runGraph f 4096 ⟨0, 0, σ⟩ = .done σ' ∧ StateOK σ' ∧ Agree (skipOf i) (absState σ') s' ∧ pc' = pc + 4 := by
  cases i
  case addi rt ra si => exact ok_addi rt ra si a f σ pc s' pc' hl hσ hx
  case addis rt ra si => exact ok_addis rt ra si a f σ pc s' pc' hl hσ hx
  case add rt ra rb rc => exact ok_add rt ra rb rc a f σ pc s' pc' hl hσ hx
  case subf rt ra rb rc => exact ok_subf rt ra rb rc a f σ pc s' pc' hl hσ hx
  case addze rt ra rc => exact ok_addze rt ra rc a f σ pc s' pc' hl hσ hx
  case or_ ra rs rb rc => exact ok_or ra rs rb rc a f σ pc s' pc' hl hσ hx
  case ori ra rs ui => exact ok_ori ra rs ui a f σ pc s' pc' hl hσ hx
  case rlwinm ra rs sh mb me rc => exact ok_rlwinm ra rs sh mb me rc a f σ pc s' pc' hl hσ hx
  case srawi ra rs sh rc => exact ok_srawi ra rs sh rc a f σ pc s' pc' hl hσ hx
  case cmpi bf ra si => exact ok_cmpi bf ra si a f σ pc s' pc' hl hσ hx
  case cmpli bf ra ui => exact ok_cmpli bf ra ui a f σ pc s' pc' hl hσ hx
  case lbz rt ra d => exact ok_lbz rt ra d a f σ pc s' pc' hl hσ hx
  case lwz rt ra d => exact ok_lwz rt ra d a f σ pc s' pc' hl hσ hx hw
  case lwzu rt ra d => exact ok_lwzu rt ra d a f σ pc s' pc' hl hσ hx hw
  case stw rs ra d => exact ok_stw rs ra d a f σ pc s' pc' hl hσ hx hw
  case stwu rs ra d => exact ok_stwu rs ra d a f σ pc s' pc' hl hσ hx hw
  case stmw rs ra d => exact ok_stmw rs ra d a f σ pc s' pc' hl hσ hx hw
  case mflr rt => exact ok_mflr rt a f σ pc s' pc' hl hσ hx
  case mtlr rs => exact ok_mtlr rs a f σ pc s' pc' hl hσ hx
  case mtctr rs => exact ok_mtctr rs a f σ pc s' pc' hl hσ hx
  all_goals simp [liftI] at hl

theorem pc_add4 (addr : Nat) (ha : addr + 4 < 2 ^ 32) : (BitVec.ofNat 32 addr + 4 : Word).toNat = addr + 4 := by
  have h4 : (4 : Word).toNat = 4 := rfl
  simp only [BitVec.toNat_add, BitVec.toNat_ofNat, h4]
  omega

theorem exec_branch {σ : State} {t : Expr} {v : Word} (ht : TypedE σ t) (hb : t.bits = 32) (hv : value σ t = .ok (ofBV v)) :
    execute σ (.branch t) = .ok (σ, .branch v.toNat) := by
  rw [C07.execute_typed σ _ (show TypedOp σ (.branch t) from ⟨ht, by rw [hb]; decide⟩)]
  simp only [hv]
  rfl

/-- **PowerPC, one instruction word: all fields, all states.** -/
theorem lift_correct (w : Word) (addr : Nat) (r : BTR) (σ : State) (i : Instr) (hd : decode w = some i)
    (hl : liftBTR [w] addr = some r) (ha : addr + 4 < 2 ^ 32) (hσ : StateOK σ) (hw : noWrap i (absState σ))
    (s' : St) (pc' : Word) (hx : step w (BitVec.ofNat 32 addr) (absState σ) = .next s' pc') :
    ∃ σ', runBTR r σ = .next σ' [pc'.toNat] ∧ StateOK σ' ∧ Agree (skipOf i) (absState σ') s' := by
  simp only [liftBTR, hd, Option.bind] at hl
  simp only [step, hd] at hx
  -- the graphs that end in an indirect branch, or whose successor is the branch target
  by_cases hb : ∃ li lk, i = .b li lk
  · obtain ⟨li, lk, rfl⟩ := hb
    cases lk
    · simp only [liftInstr, Option.some.injEq] at hl; subst hl
      simp only [exec, Bool.false_eq_true, if_false] at hx
      obtain ⟨h1, h2⟩ := next_inj hx; subst h1 h2
      refine ⟨σ, ?_, hσ, Agree.of_eq rfl _⟩
      simp only [runBTR]
      rw [go_cons_done _ 4096 (g1 addr [.nop]) [] σ σ rfl (Mips.run_g1_one addr .nop σ σ 4094 rfl), go_nil_one _ _ σ _ none rfl]
      rfl
    · simp only [liftInstr, Option.some.injEq] at hl; subst hl
      simp only [exec, if_true] at hx
      obtain ⟨h1, h2⟩ := next_inj hx; subst h1 h2
      have vl : value σ (c32 ((addr + 4) % 2 ^ 32)) = .ok (ofBV (BitVec.ofNat 32 addr + 4)) := by
        rw [Mips.value_c32, Mips.c32_eq_ofBV _ (Nat.mod_lt _ (by decide))]
        congr 2
        apply BitVec.eq_of_toNat_eq
        rw [pc_add4 addr ha]; simp only [BitVec.toNat_ofNat]; omega
      have x1 := exec_assign (dst := lrS) (typed_c32 _ (Nat.mod_lt _ (by decide))) rfl vl
      have hσ1 := stateOK_set32 hσ (k := 32) (by decide) (BitVec.ofNat 32 addr + 4)
      have x2 := exec_branch (σ := σ.set (nm 32) (ofBV (BitVec.ofNat 32 addr + 4)))
        (t := c32 (relTarget (BitVec.ofNat 32 addr) li).toNat) (typed_ofBV _) rfl rfl
      refine ⟨_, ?_, hσ1, Agree.of_eq (abs_set_lr σ _) _⟩
      simp only [runBTR]
      refine go_cons_branch _ 4096 _ [] σ _ _ rfl ?_
      rw [show (4096 : Nat) = 4094 + 1 + 1 from rfl,
        runGraph_instr (block_g1 addr _) (i := mkIns addr 0 (.assign lrS (c32 ((addr + 4) % 2 ^ 32)))) rfl x1]
      exact runGraph_branch (block_g1 addr _) (i := mkIns addr 1 (.branch (c32 (relTarget (BitVec.ofNat 32 addr) li).toNat))) rfl x2
  · by_cases hr : i = .bclr 20 0 false
    · subst hr
      simp only [liftInstr, and_self, if_true, Option.some.injEq] at hl; subst hl
      have hxx : exec (.bclr 20 0 false) (BitVec.ofNat 32 addr) (absState σ) = .next (absState σ) ((absState σ).lr &&& 0xfffffffc) := rfl
      rw [hxx] at hx
      obtain ⟨h1, h2⟩ := next_inj hx; subst h1 h2
      have vt : value σ (.bin .and (.scalar lrS) (c32 0xfffffffc)) = .ok (ofBV ((absState σ).lr &&& 0xfffffffc#32)) :=
        value_bin32 (value_s32 hσ (k := 32) (by decide)) (show value σ (c32 0xfffffffc) = .ok (ofBV (0xfffffffc#32)) from rfl) rfl
      have x1 := exec_branch (typed_bin (typed_s32 hσ (k := 32) (by decide)) (typed_c32 _ (by decide)) rfl) rfl vt
      refine ⟨σ, ?_, hσ, Agree.of_eq rfl _⟩
      simp only [runBTR]
      exact go_cons_branch _ 4096 _ [] σ σ _ rfl (run_g1_branch addr _ σ _ 4095 x1)
    · by_cases hc : i = .bcctr 20 0 false
      · subst hc
        simp only [liftInstr, and_self, if_true, Option.some.injEq] at hl; subst hl
        have hxx : exec (.bcctr 20 0 false) (BitVec.ofNat 32 addr) (absState σ) = .next (absState σ) ((absState σ).ctr &&& 0xfffffffc) := rfl
        rw [hxx] at hx
        obtain ⟨h1, h2⟩ := next_inj hx; subst h1 h2
        have vt : value σ (.bin .and (.scalar ctrS) (c32 0xfffffffc)) = .ok (ofBV ((absState σ).ctr &&& 0xfffffffc#32)) :=
          value_bin32 (value_s32 hσ (k := 33) (by decide)) (show value σ (c32 0xfffffffc) = .ok (ofBV (0xfffffffc#32)) from rfl) rfl
        have x1 := exec_branch (typed_bin (typed_s32 hσ (k := 33) (by decide)) (typed_c32 _ (by decide)) rfl) rfl vt
        refine ⟨σ, ?_, hσ, Agree.of_eq rfl _⟩
        simp only [runBTR]
        exact go_cons_branch _ 4096 _ [] σ σ _ rfl (run_g1_branch addr _ σ _ 4095 x1)
      · -- everything else: one graph, successor addr + 4
        have hl' : (liftI i addr).map (fun f => ({ addr := addr, length := 4, instrs := [f], succs := [(addr + 4, none)] } : BTR)) = some r := by
          cases i with
          | b li lk => exact absurd ⟨li, lk, rfl⟩ hb
          | bclr bo bi lk =>
            cases lk
            · simp only [liftInstr] at hl
              by_cases h : bo = 20 ∧ bi = 0
              · obtain ⟨h1, h2⟩ := h; subst h1 h2; exact absurd rfl hr
              · rw [if_neg h] at hl; cases hl
            · exact hl
          | bcctr bo bi lk =>
            cases lk
            · simp only [liftInstr] at hl
              by_cases h : bo = 20 ∧ bi = 0
              · obtain ⟨h1, h2⟩ := h; subst h1 h2; exact absurd rfl hc
              · rw [if_neg h] at hl; cases hl
            · exact hl
          | _ => exact hl
        obtain ⟨f, hf, hr'⟩ := Option.map_eq_some_iff.mp hl'
        subst hr'
        obtain ⟨hent, σ', hrun, hs, hag, hpc⟩ := liftI_correct i addr f σ _ s' pc' hf hσ hx hw
        refine ⟨σ', ?_, hs, hag⟩
        simp only [runBTR]
        rw [go_cons_done _ 4096 f [] σ σ' hent hrun, go_nil_one _ _ σ' (addr + 4) none rfl, hpc, pc_add4 addr ha]

end Falcon.Isa.Ppc
