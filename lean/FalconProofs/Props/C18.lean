/-
  Property C18 — program locations navigate and round-trip consistently.

  Model: `FalconModel/Location.lean` (mirror of `lib/il/location.rs`, `Function::locations`,
  `Program::function`).  `WFf f` is what falcon's constructors maintain (unique block / instruction / edge
  indices, edges between existing blocks); `WFp p` is what `Program::add_function` maintains.
  All statements are for every function / program / location / address; nothing is bounded.
-/
import FalconProofs.C18.Reach
import FalconProofs.C18.Misc

namespace Falcon.C18
open Falcon

/-- Stepping forward and backward are converse relations: for any two locations `A`, `B` of a well-formed
    function both calls succeed, and `B` is a successor of `A` exactly when `A` is a predecessor of `B`.
    (Both are moreover the declarative relation `succB`: `forward_spec` / `backward_spec`.) -/
theorem forward_backward_converse {f : Function} (hf : WFf f) {A B : FLoc}
    (hA : A ∈ f.locations) (hB : B ∈ f.locations) :
    ∃ la lb, A.forward f = .ok la ∧ B.backward f = .ok lb ∧ (B ∈ la ↔ A ∈ lb) := by
  obtain ⟨la, hla, hma⟩ := forward_spec hf hA
  obtain ⟨lb, hlb, hmb⟩ := backward_spec hf hB
  refine ⟨la, lb, hla, hlb, ?_⟩
  rw [hma, hmb]
  constructor
  · intro h; exact ⟨hA, h.2⟩
  · intro h; exact ⟨hB, h.2⟩

/-- `forward` answers exactly the declarative successor relation (consecutive instructions; last instruction
    or empty block → each out-edge; edge → first instruction of the tail block or the empty tail block), and
    every successor is again a location of the function. -/
theorem forward_is_succ {f : Function} (hf : WFf f) {A : FLoc} (hA : A ∈ f.locations) :
    ∃ la, A.forward f = .ok la ∧ ∀ B, B ∈ la ↔ (B ∈ f.locations ∧ succB A B = true) :=
  forward_spec hf hA

theorem backward_is_pred {f : Function} (hf : WFf f) {B : FLoc} (hB : B ∈ f.locations) :
    ∃ lb, B.backward f = .ok lb ∧ ∀ A, A ∈ lb ↔ (A ∈ f.locations ∧ succB A B = true) :=
  backward_spec hf hB

/-- Every instruction, empty block and edge is enumerated, nothing else is, and (for a well-formed function)
    nothing is enumerated twice. -/
theorem locations_nodup_complete (f : Function) :
    (∀ l, l ∈ f.locations ↔
      ((∃ b ∈ f.cfg.blocks, ∃ i ∈ b.instrs, l = .instr b i) ∨
       (∃ b ∈ f.cfg.blocks, b.instrs = [] ∧ l = .empty b) ∨
       (∃ e ∈ f.cfg.edges, l = .edge e))) ∧
    (WFf f → f.locations.Nodup) := by
  refine ⟨?_, locations_nodup⟩
  intro l
  cases l with
  | instr b i =>
    rw [mem_locations_instr]
    constructor
    · rintro ⟨hb, hi⟩; exact Or.inl ⟨b, hb, i, hi, rfl⟩
    · rintro (⟨b', hb', i', hi', h⟩ | ⟨b', _, _, h⟩ | ⟨e, _, h⟩)
      · injection h with h1 h2; subst h1; subst h2; exact ⟨hb', hi'⟩
      · cases h
      · cases h
  | edge e =>
    rw [mem_locations_edge]
    constructor
    · intro he; exact Or.inr (Or.inr ⟨e, he, rfl⟩)
    · rintro (⟨_, _, _, _, h⟩ | ⟨_, _, _, h⟩ | ⟨e', he', h⟩)
      · cases h
      · cases h
      · injection h with h1; subst h1; exact he'
  | empty b =>
    rw [mem_locations_empty]
    constructor
    · rintro ⟨hb, he⟩; exact Or.inr (Or.inl ⟨b, hb, he, rfl⟩)
    · rintro (⟨_, _, _, _, h⟩ | ⟨b', hb', he', h⟩ | ⟨_, _, h⟩)
      · cases h
      · injection h with h1; subst h1; exact ⟨hb', he'⟩
      · cases h

/-- The locations reachable by repeated forward steps from `from_function f` are exactly the instructions,
    empty blocks and edges anchored at blocks on CFG paths from the entry block (an edge is anchored at its
    head: it lies on a path from the entry exactly when its head does). -/
theorem forward_closure {f : Function} (hf : WFf f) {en : Nat} (hen : f.cfg.entry = some en)
    {b0 : Block} (hb0 : f.cfg.block en = some b0) :
    PLoc.fromFunction f = some (.ok ⟨f, b0.firstLoc⟩) ∧
    ∀ l, Reach (FLoc.stepF f) b0.firstLoc l ↔
      (l ∈ f.locations ∧ Reach (fun k => f.cfg.successorIndices k) en l.anchor) := by
  refine ⟨by simp [PLoc.fromFunction, hen, Cfg.blockR, hb0, Res.map], forward_closure_aux hf hb0⟩

/-- the executable closure used by the driver computes `Reach` whenever it answers -/
theorem closure_is_reach {α : Type} [DecidableEq α] (step : α → List α) {n : Nat} {r : α} {out : List α}
    (h : closure step n [r] [] = some out) (x : α) : x ∈ out ↔ Reach step r x :=
  closure_spec step h x

/-- Converting any location of a function that belongs to a program to its owned form and applying it to the
    same program — or to any program holding an equal function at that index, e.g. a clone — yields the same
    location. -/
theorem roundtrip {p : Program} (hp : WFp p) {f : Function} (hfp : f ∈ p.functions) (hf : WFf f)
    {l : FLoc} (hl : l ∈ f.locations) :
    (PLoc.toOwned ⟨f, l⟩).apply p = .ok ⟨f, l⟩ ∧
    ∀ p' : Program, (∀ i, p'.function i = p.function i) → (PLoc.toOwned ⟨f, l⟩).apply p' = .ok ⟨f, l⟩ := by
  have hsome := hp.idx_some f hfp
  obtain ⟨fi, hfi⟩ := Option.isSome_iff_exists.mp hsome
  have hfun := function_of_mem hp.idx_nodup hfp hfi
  have key : ∀ p' : Program, p'.function fi = some f → (PLoc.toOwned ⟨f, l⟩).apply p' = .ok ⟨f, l⟩ := by
    intro p' h'
    simp [PLoc.toOwned, OPLoc.apply, hfi, h', apply_toOwned hf hl, Res.map]
  exact ⟨key p hfun, fun p' h' => key p' (by rw [h' fi]; exact hfun)⟩

/-- Looking up an address finds an instruction with that address whenever one exists, and never answers
    anything else (no well-formedness needed). -/
theorem from_address_complete (p : Program) (a : Nat) :
    ((∃ f ∈ p.functions, ∃ b ∈ f.cfg.blocks, ∃ i ∈ b.instrs, i.addr = some a) →
        ∃ l, PLoc.fromAddress p a = some l ∧ l.address = some a) ∧
    (∀ l, PLoc.fromAddress p a = some l →
        l.fn ∈ p.functions ∧ l.loc ∈ l.fn.locations ∧ l.address = some a) := by
  constructor
  · rintro ⟨f, hf, b, hb, i, hi, hia⟩
    cases h : PLoc.fromAddress p a with
    | none => exact absurd hia (fromAddress_none h f hf b hb i hi)
    | some l => exact ⟨l, rfl, (fromAddress_some h).2.2⟩
  · intro l h; exact fromAddress_some h

/-! ### Non-vacuity: a concrete function with an empty block, a self-loop and a two-way branch -/

private def i0 : Instr := { index := 0, addr := some 0x1000, op := .nop }
private def i1 : Instr := { index := 1, addr := some 0x1000, op := .nop }
private def i2 : Instr := { index := 0, addr := some 0x1008, op := .nop }
private def exF : Function :=
  { addr := 0x1000, index := some 0,
    cfg := { blocks := [{ index := 0, instrs := [i0, i1] }, { index := 1 }, { index := 2, instrs := [i2] }],
             edges := [{ head := 0, tail := 1 }, { head := 0, tail := 2 }, { head := 1, tail := 1 },
                       { head := 1, tail := 2 }],
             entry := some 0, exit := some 2 } }

example : WFf exF := by
  refine ⟨by decide, by decide, by decide, by decide, by decide⟩

example : WFp { functions := [exF] } := ⟨by decide, by decide⟩

example : exF.locations.length = 8 := by decide

/-- the last instruction of block 0 has both out-edges as successors, and is the predecessor of each -/
example : (FLoc.instr { index := 0, instrs := [i0, i1] } i1).forward exF
    = .ok [.edge { head := 0, tail := 1 }, .edge { head := 0, tail := 2 }] := by decide

example : (FLoc.edge { head := 0, tail := 1 }).backward exF
    = .ok [.instr { index := 0, instrs := [i0, i1] } i1] := by decide

/-- duplicate addresses: the lookup still answers an instruction with that address -/
example : (PLoc.fromAddress { functions := [exF] } 0x1000).map (·.address) = some (some 0x1000) := by decide

end Falcon.C18
