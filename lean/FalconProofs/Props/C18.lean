import FalconModel.Location
namespace Falcon.C18
open Falcon
end Falcon.C18
