/-
  Property C12 — reaching definitions and the def-use / use-def chains cover every execution.

  "On every concrete execution of a function, when control has just executed a location, the instruction that
   most recently wrote each scalar is among the reaching definitions reported for that location, and every
   reported assignment or load can actually reach it along some path without an intervening assignment or load
   of the same scalar.  The use-definition chain of an instruction or guarded edge contains the last writer of
   every scalar it reads, and the definition-use chains are exactly the inverse relation."

  Pattern P2 + verified checks.  `FalconModel/ReachDefs.lean` defines, from one verified reachability function
  on the location graph, the sets `mustInclude`, `mayInclude`, `useDefMust` (`T = tables f` caches the
  reachability computations) and four checks that the driver runs on falcon's real outputs.  Here:

  * `lastWriter_in_must`   every run of `FStep` from the entry, at every moment: the last writer of `x` is in
                           `mustInclude T l x` (`l` = the location just executed);
  * `lastWriter_in_must_path`  the same for every path of the location graph from the entry (covers executors
                           in which intrinsics fall through);
  * `may_is_reachability`  `mayInclude T l x` is exactly the second sentence of the property;
  * `useDef_lastWriter`    the last writer of every scalar read by `u`, at the moment `u` executes, is in
                           `useDefMust T f u`;
  * `inverse_iff`          the check on the two chains answers "none" iff they are inverse relations;
  * `must_is_reachability` `mustInclude` is not larger than needed: exactly the reachable writers that reach
                           `l` along a path on which nothing later writes `x` (so the check asks no more of
                           falcon than the path semantics);
  * `checks_sound`         if the four checks pass on relations `rd ud du`, then all four sentences of the
                           property hold of `rd ud du` on every execution.
  Runs are `FRunT` = `FRun` of FalconModel/Exec.lean with the list of executed locations attached
  (`frun_has_trace`: every `FRun` is one).  All theorems are conditional on `tables f = some T` (the
  reachability procedure answered; the driver reports fuel exhaustion as an internal error, never as a verdict).
-/
import FalconProofs.C12.Trace
import FalconProofs.C12.Tables
import FalconProofs.C12.Paths

namespace Falcon.C12
open Falcon Falcon.RD

/-- every `FRun` is an `FRunT` (a run with its trace of executed locations) and conversely -/
theorem frun_has_trace (f : Function) (a c : Config) : FRun f a c ↔ ∃ tr, FRunT f a tr c :=
  frunT_iff f a c

/-- **First sentence.**  On every run from the entry, whenever a location `l` has just been executed
    (`pre ++ [l]` is the trace so far), the most recent writer `d` of any scalar `x` is in `mustInclude T l x`. -/
theorem lastWriter_in_must (f : Function) (T : Tables) (hT : tables f = some T)
    (σ : State) (c0 c : Config) (h0 : f.initial σ = some c0) (tr : List Loc) (hrun : FRunT f c0 tr c)
    (pre post : List Loc) (l : Loc) (hsplit : entryTrace f ++ tr = pre ++ l :: post)
    (x : Scalar) (d : Loc) (hd : lastWriter f x (pre ++ [l]) = some d) :
    d ∈ mustInclude T l x := by
  obtain ⟨hpath, hhead⟩ := trace_isPath f σ c0 h0 tr c hrun
  obtain ⟨h1, h2, h3⟩ := lastWriter_path f _ hpath hhead pre l post hsplit x d hd
  exact (tables_must hT l x d).2 ⟨(tables_reach hT d).2 h1, h2, h3⟩

/-- The same for every path of the location graph from the entry location — a superset of the executions: it
    also covers an executor in which intrinsics and `branch` instructions fall through (in `FStep` they end the
    run, so on an `FRunT` the last writer is never an intrinsic), for intrinsics with declared writes. -/
theorem lastWriter_in_must_path (f : Function) (T : Tables) (hT : tables f = some T)
    (full : List Loc) (hpath : IsPath (succ f) full) (hhead : ∀ h, full.head? = some h → h ∈ entryLoc f)
    (pre post : List Loc) (l : Loc) (hsplit : full = pre ++ l :: post)
    (x : Scalar) (d : Loc) (hd : lastWriter f x (pre ++ [l]) = some d) :
    d ∈ mustInclude T l x := by
  obtain ⟨h1, h2, h3⟩ := lastWriter_path f _ hpath hhead pre l post hsplit x d hd
  exact (tables_must hT l x d).2 ⟨(tables_reach hT d).2 h1, h2, h3⟩

/-- `mustInclude` is exactly: writers of `x`, reachable from the entry, that reach `l` along a path on which
    no location after them (up to and including `l`) writes `x`. -/
theorem must_is_reachability (f : Function) (T : Tables) (hT : tables f = some T) (l : Loc) (x : Scalar) (d : Loc) :
    d ∈ mustInclude T l x ↔
      writes f d x = true ∧ (∃ e ∈ entryLoc f, Reaches (succ f) e d) ∧
      ∃ p : List Loc, IsPath (succ f) (d :: p) ∧ (d :: p).getLast? = some l ∧ ∀ q ∈ p, writes f q x = false := by
  rw [tables_must hT, tables_reach hT, reaches_noW_iff]
  simp only [writes, decide_eq_true_eq]
  constructor
  · rintro ⟨h1, h2, h3⟩
    exact ⟨h2, h1, h3⟩
  · rintro ⟨h2, h1, h3⟩
    exact ⟨h1, h2, h3⟩

/-- **Second sentence.**  `d ∈ mayInclude T l x` iff `d` is an assignment or load of `x` and there is a path
    `d → … → l` of the location graph on which no location after `d` (up to and including `l`, whose
    post-state the set describes) is an assignment or load of `x`. -/
theorem may_is_reachability (f : Function) (T : Tables) (hT : tables f = some T) (l : Loc) (x : Scalar) (d : Loc) :
    d ∈ mayInclude T l x ↔
      isDef f d x = true ∧
      ∃ p : List Loc, IsPath (succ f) (d :: p) ∧ (d :: p).getLast? = some l ∧ ∀ q ∈ p, isDef f q x = false := by
  rw [tables_may hT, reaches_noDef_iff]
  simp only [isDef, decide_eq_true_eq]

/-- **Third sentence.**  On every run from the entry, at the moment an instruction or edge `u` executes
    (`pre` is the trace before it), the last writer `d` of every scalar `x` that `u` reads is in `useDefMust T f u`. -/
theorem useDef_lastWriter (f : Function) (T : Tables) (hT : tables f = some T)
    (σ : State) (c0 c : Config) (h0 : f.initial σ = some c0) (tr : List Loc) (hrun : FRunT f c0 tr c)
    (pre post : List Loc) (u : Loc) (hsplit : entryTrace f ++ tr = pre ++ u :: post)
    (x : Scalar) (hx : x ∈ readBy f u) (d : Loc) (hd : lastWriter f x pre = some d) :
    d ∈ useDefMust T f u := by
  obtain ⟨hpath, hhead⟩ := trace_isPath f σ c0 h0 tr c hrun
  exact useDef_path f T hT _ hpath hhead pre u post hsplit x hx d hd

/-- **Fourth sentence.**  The check run on falcon's two chains finds no pair iff they are inverse relations. -/
theorem inverse_iff (ud du : Rel) :
    checkInverse ud du = none ↔ ∀ d u, u ∈ du.get d ↔ d ∈ ud.get u :=
  checkInverse_iff ud du

/-- **The verdict `ok` means the property.**  If the four checks pass on relations `rd`, `ud`, `du` (falcon's
    outputs), then on every run from the entry: (1) the last writer of every scalar is in `rd` of the location
    just executed; (2) every assignment / load in `rd l` reaches `l` without an intervening assignment / load of
    its scalar; (3) the last writer of every scalar read by `u` is in `ud u`; (4) `du` is the inverse of `ud`. -/
theorem checks_sound (f : Function) (T : Tables) (hT : tables f = some T) (rd ud du : Rel)
    (h1 : checkMust T rd = none) (h2 : checkMay T f rd = none) (h3 : checkUseDef T f ud = none)
    (h4 : checkInverse ud du = none) :
    (∀ (σ : State) (c0 c : Config) (tr pre post : List Loc) (l : Loc) (x : Scalar) (d : Loc),
        f.initial σ = some c0 → FRunT f c0 tr c → entryTrace f ++ tr = pre ++ l :: post →
        lastWriter f x (pre ++ [l]) = some d → d ∈ rd.get l) ∧
    (∀ (l d : Loc) (x : Scalar), d ∈ rd.get l → isDef f d x = true →
        ∃ p : List Loc, IsPath (succ f) (d :: p) ∧ (d :: p).getLast? = some l ∧ ∀ q ∈ p, isDef f q x = false) ∧
    (∀ (σ : State) (c0 c : Config) (tr pre post : List Loc) (u : Loc) (x : Scalar) (d : Loc),
        f.initial σ = some c0 → FRunT f c0 tr c → entryTrace f ++ tr = pre ++ u :: post →
        x ∈ readBy f u → lastWriter f x pre = some d → d ∈ ud.get u) ∧
    (∀ d u, u ∈ du.get d ↔ d ∈ ud.get u) := by
  refine ⟨?_, ?_, ?_, (inverse_iff ud du).1 h4⟩
  · intro σ c0 c tr pre post l x d h0 hrun hsplit hd
    exact checkMust_sound T rd h1 l x d (lastWriter_in_must f T hT σ c0 c h0 tr hrun pre post l hsplit x d hd)
  · intro l d x hmem hdef
    have hdef' : defOf f d = some x := by simpa [isDef] using hdef
    exact ((may_is_reachability f T hT l x d).1 (checkMay_sound T f rd h2 l d x hmem hdef')).2
  · intro σ c0 c tr pre post u x d h0 hrun hsplit hx hd
    obtain ⟨hpath, hhead⟩ := trace_isPath f σ c0 h0 tr c hrun
    have hu : u ∈ T.reach := (tables_reach hT u).2 (mem_path_reachable f _ hpath hhead u (by rw [hsplit]; simp))
    exact checkUseDef_sound T f ud h3 u hu d
      (useDef_lastWriter f T hT σ c0 c h0 tr hrun pre post u hsplit x hx d hd)

/-! ### non-vacuity: a concrete function, a concrete run, and the sets computed for it -/

namespace Example

def sa : Scalar := ⟨"a", 8, none⟩
def sb : Scalar := ⟨"b", 8, none⟩

/-- block 0: `a := 1 ; a := a + 1 ; b := a + b`, with a self-loop guarded by `a <u 5` -/
def fn : Function :=
  { addr := 0,
    cfg := { blocks := [{ index := 0, nextInstr := 3, instrs :=
                [⟨0, none, .assign sa (.const ⟨8, 1⟩)⟩,
                 ⟨1, none, .assign sa (.bin .add (.scalar sa) (.const ⟨8, 1⟩))⟩,
                 ⟨2, none, .assign sb (.bin .add (.scalar sa) (.scalar sb))⟩] }],
             edges := [⟨0, 0, some (.bin .cmpltu (.scalar sa) (.const ⟨8, 5⟩))⟩],
             entry := some 0, nextIndex := 1 } }

def T : Tables :=
  { reach := [.edge 0 0, .instr 0 2, .instr 0 1, .instr 0 0],
    must := [((.instr 0 2, sb), [.instr 0 1, .instr 0 0, .edge 0 0, .instr 0 2]),
             ((.instr 0 1, sa), [.edge 0 0, .instr 0 2, .instr 0 1]), ((.instr 0 0, sa), [.instr 0 0])],
    may := [((.instr 0 0, sa), [.instr 0 0]), ((.instr 0 1, sa), [.edge 0 0, .instr 0 2, .instr 0 1]),
            ((.instr 0 2, sb), [.instr 0 1, .instr 0 0, .edge 0 0, .instr 0 2])] }

/-- the reachability procedure answers on this function (the hypothesis `tables f = some T` is satisfiable) -/
example : tables fn = some T := by decide

def σ0 : State := { scalars := [("b", ⟨8, 7⟩)] }
def c0 : Config := ⟨0, 0, σ0⟩

/-- a run that goes once around the loop: `a := 1; a := a + 1; b := a + b; (a <u 5) ; a := 1` -/
theorem run : ∃ c, FRunT fn c0 [.instr 0 0, .instr 0 1, .instr 0 2, .edge 0 0, .instr 0 0] c := by
  have h0 : FRunT fn c0 [] c0 := FRunT.refl
  have h1 := FRunT.instr (i := ⟨0, none, .assign sa (.const ⟨8, 1⟩)⟩) h0 rfl rfl rfl
  have h2 := FRunT.instr (i := ⟨1, none, .assign sa (.bin .add (.scalar sa) (.const ⟨8, 1⟩))⟩) h1 rfl rfl rfl
  have h3 := FRunT.instr (i := ⟨2, none, .assign sb (.bin .add (.scalar sa) (.scalar sb))⟩) h2 rfl rfl rfl
  have h4 := FRunT.edge (e := ⟨0, 0, some (.bin .cmpltu (.scalar sa) (.const ⟨8, 5⟩))⟩) h3 rfl rfl
    (by decide) ⟨⟨1, 1⟩, rfl, rfl⟩
  have h5 := FRunT.instr (i := ⟨0, none, .assign sa (.const ⟨8, 1⟩)⟩) h4 rfl rfl rfl
  exact ⟨_, h5⟩

/-- the hypotheses of `lastWriter_in_must` / `useDef_lastWriter` are met by that run: when `b := a + b` has just
    executed, the last writer of `a` is `a := a + 1` (not `a := 1`), and that is what `mustInclude` contains;
    `b := a + b` reads two scalars, and its use-definition set must contain `a := a + 1` and, once around the
    loop, itself -/
example : fn.initial σ0 = some c0 := rfl

example :
    lastWriter fn sa [.instr 0 0, .instr 0 1, .instr 0 2] = some (.instr 0 1) ∧
    mustInclude T (.instr 0 2) sa = [.instr 0 1] ∧
    mayInclude T (.instr 0 2) sa = [.instr 0 1] ∧
    readBy fn (.instr 0 2) = [sa, sb] ∧
    useDefMust T fn (.instr 0 2) = [.instr 0 1, .instr 0 2] ∧
    useDefMust T fn (.instr 0 1) = [.instr 0 0] := by
  decide

/-- all hypotheses of `lastWriter_in_must` and `useDef_lastWriter` hold together on that run (at the moment
    `b := a + b` executes for the first time), and the theorems yield the concrete memberships -/
example : Loc.instr 0 1 ∈ mustInclude T (.instr 0 2) sa ∧ Loc.instr 0 1 ∈ useDefMust T fn (.instr 0 2) := by
  obtain ⟨c, hrun⟩ := run
  constructor
  · exact lastWriter_in_must fn T (by decide) σ0 c0 c rfl _ hrun
      [.instr 0 0, .instr 0 1] [.edge 0 0, .instr 0 0] (.instr 0 2) rfl sa _ (by decide)
  · exact useDef_lastWriter fn T (by decide) σ0 c0 c rfl _ hrun
      [.instr 0 0, .instr 0 1] [.edge 0 0, .instr 0 0] (.instr 0 2) rfl sa (by decide) (.instr 0 1) (by decide)

/-- the checks accept the correct answer and reject the two defects this property was written about:
    an empty use-definition set for the two-scalar read, and `a := a + 1` as its own definition -/
example :
    let ud : Rel := [(.instr 0 0, []), (.instr 0 1, [.instr 0 0]), (.instr 0 2, [.instr 0 1, .instr 0 2]),
                     (.edge 0 0, [.instr 0 1])]
    let du : Rel := [(.instr 0 0, [.instr 0 1]), (.instr 0 1, [.instr 0 2, .edge 0 0]), (.instr 0 2, [.instr 0 2]),
                     (.edge 0 0, [])]
    checkUseDef T fn ud = none ∧ checkInverse ud du = none ∧
    checkUseDef T fn [(.instr 0 1, [.instr 0 0]), (.instr 0 2, []), (.edge 0 0, [.instr 0 1])]
      = some (.instr 0 2, .instr 0 1) ∧
    checkUseDef T fn [(.instr 0 1, [.instr 0 1]), (.instr 0 2, [.instr 0 1, .instr 0 2]), (.edge 0 0, [.instr 0 1])]
      = some (.instr 0 1, .instr 0 0) := by
  decide

end Example

end Falcon.C12
