/-
  FalconProofs.Props.C20 — property C20: architecture descriptors agree with the lifters and the platform ABI.

    "For every supported architecture, the descriptors the framework publishes agree with one another and with
     what its translator emits: the stack-pointer scalar, word size and endianness are those the lifted code
     uses, and every register named by the default calling convention is a scalar the translator produces,
     with that width.  The calling convention follows the platform ABI: argument registers in order, the
     return-value register, where the return address lives, stack-argument offsets of the machine's word size,
     no register both preserved and trashed, and the stack pointer preserved."

  The quantifier is a FINITE table (seven architectures x their descriptor and calling-convention tables x the
  scalars of the translators' register sweep), so kernel evaluation over the whole table is a proof — provided
  the table is today's.  `Generated.Arch` is therefore rewritten from the current /repo build before this file
  is compiled (props/c20.py `pre_build` → `harness/target/release/c20 table`), and every theorem below is
  re-proved against it on every run; in the same run `check` re-reads each (architecture, field) from the live
  code and compares it with `Generated.Arch` (falcon == model) and with `FalconModel/Abi.lean` (falcon == spec).
  The predicates (`SpEmitted` … `StackArgOffsetAbi`) and the ABI table are the specification: `FalconModel/Abi.lean`.

  One theorem per architecture and clause, so that a theorem that stops elaborating names the architecture and
  the field.  All by `decide +kernel` (the kernel evaluates the `Decidable` instances of `FalconModel/Abi.lean` directly,
  without the elaborator's slower pre-evaluation; this is NOT `native_decide`: no compiler, no extra axiom; axioms: at
  most `propext`, `Quot.sound`, which core's list/string decidability lemmas use).  `Holds` (the conjunction of
  the clauses) is defined in `FalconModel/Abi.lean`, the two helper lemmas in `FalconProofs/C20/Lemmas.lean`.

  PARTIAL (one clause, two architectures — recorded finding C20/aarch64/args, C20/aarch64eb/args):
    full statement   theorem aarch64_args_in_abi_order   : ArgsInAbiOrder Arch.aarch64   (aapcs64 "little")
                     theorem aarch64eb_args_in_abi_order : ArgsInAbiOrder Arch.aarch64eb (aapcs64 "big")
    is FALSE on today's table: falcon's AArch64 argument list is x0..x7 FOLLOWED BY v0..v7, so
    `argument_type(8)` answers `Register(v0)` where AAPCS64 puts the ninth integer argument at [sp] (the
    general-purpose and the SIMD argument registers are two separate sequences, NGRN/NSRN).  Every other table
    lists the integer-class registers only.  Proved instead (`…_args_in_abi_order_partial`): the list is the
    ABI's integer sequence in order followed by exactly the ABI's SIMD sequence in order.
    The same finding seen through the query: `aarch64_arg_types_abi` / `aarch64eb_arg_types_abi`
    (`ArgTypesAbi`: answers 8..15 of `argument_type` are `Stack(8 * (n - 8))`) are false; proved instead
    (`…_arg_types_abi_partial`): x0..x7, v0..v7, then `Stack(8 * (n - 16))`.  The stride of the stack answers is
    NOT affected by the finding and is proved in full for all seven (`…_stack_args_word_apart`).

  The queries (`CallingConvention::argument_type / is_preserved / is_trashed`) are part of the regenerated table:
  `argTypes` = the answers for n = 0 ..= (argument registers + 6), `isPreserved`/`isTrashed` = the answers for
  every probe register.  So a change of the query code (not only of the tables) changes `Generated.Arch` and
  the theorems `…_arg_types_abi`, `…_stack_args_word_apart`, `…_queries_agree` are re-proved against it
  (plain `decide` hits the elaborator's recursion limit on the ~100-entry probe lists; one more reason for `+kernel`).
-/
import FalconModel.Abi
import FalconProofs.C20.Lemmas
import Generated.Arch

namespace Falcon.C20
open Falcon.Abi
open Falcon.Generated

/-! ### The table is the table of the seven architectures, and the ABI assignment is the one the driver uses -/

theorem table_names : Arch.all.map (·.name) = archNames := by decide +kernel

theorem abi_assignment :
    abiOf "x86" = some sysvI386 ∧ abiOf "amd64" = some sysvAmd64 ∧
    abiOf "mips" = some (mipsO32 "big") ∧ abiOf "mipsel" = some (mipsO32 "little") ∧
    abiOf "ppc" = some sysvPpc32 ∧
    abiOf "aarch64" = some (aapcs64 "little") ∧ abiOf "aarch64eb" = some (aapcs64 "big") :=
  ⟨rfl, rfl, rfl, rfl, rfl, rfl, rfl⟩


/-! ### x86 -/

/-- x86: the stack-pointer scalar occurs in the sweep with that width, which is the word size -/
theorem x86_sp_emitted : SpEmitted Arch.x86 := by decide +kernel

/-- x86: the stack pointer is the ABI's stack pointer -/
theorem x86_sp_abi : SpAbi Arch.x86 sysvI386 := by decide +kernel

/-- x86: word size = address width of lifted loads and stores = the ABI's word -/
theorem x86_word_size_agrees : WordSizeAgrees Arch.x86 sysvI386 := by decide +kernel

/-- x86: endianness = the ABI's; a lifted store leaves the bytes in that order; instruction fetch order is the ABI's -/
theorem x86_endian_agrees : EndianAgrees Arch.x86 sysvI386 := by decide +kernel

/-- x86: every register the convention names is a scalar of the sweep, with that width -/
theorem x86_cc_regs_emitted : CcRegsEmitted Arch.x86 := by decide +kernel

/-- x86: no register name is both preserved and trashed -/
theorem x86_preserved_trashed_disjoint : PreservedTrashedDisjoint Arch.x86 := by decide +kernel

/-- x86: the stack pointer is preserved -/
theorem x86_sp_preserved : SpPreserved Arch.x86 := by decide +kernel

/-- x86: the argument registers are the ABI's integer argument registers, in order -/
theorem x86_args_in_abi_order : ArgsInAbiOrder Arch.x86 sysvI386 := by decide +kernel

/-- x86: the return-value register is the ABI's -/
theorem x86_return_reg_abi : ReturnRegAbi Arch.x86 sysvI386 := by decide +kernel

/-- x86: the return address is where the ABI puts it -/
theorem x86_return_addr_abi : ReturnAddrAbi Arch.x86 sysvI386 := by decide +kernel

/-- x86: a stack-argument slot is one machine word -/
theorem x86_stack_arg_len_is_word : StackArgLenIsWord Arch.x86 sysvI386 := by decide +kernel

/-- x86: the first stack argument is at the ABI's offset from the stack pointer at entry -/
theorem x86_stack_arg_offset_abi : StackArgOffsetAbi Arch.x86 sysvI386 := by decide +kernel

/-- x86: `argument_type n` over the swept range: the ABI's integer argument registers in order, then
    `Stack(abi offset + word bytes * (n - k))` for every later n -/
theorem x86_arg_types_abi : ArgTypesAbi Arch.x86 sysvI386 := by decide +kernel

/-- x86: the stack answers of `argument_type` start at the ABI's offset and are exactly one machine word apart -/
theorem x86_stack_args_word_apart : StackArgsWordApart Arch.x86 sysvI386 := by decide +kernel

/-- x86: `is_preserved`/`is_trashed` answer Some(true)/Some(false)/None according to the two sets on every probe
    (all convention registers, the stack pointer, every sweep scalar, one register in neither set), never both Some(true) -/
theorem x86_queries_agree : QueriesAgree Arch.x86 := by decide +kernel


/-! ### amd64 -/

/-- amd64: the stack-pointer scalar occurs in the sweep with that width, which is the word size -/
theorem amd64_sp_emitted : SpEmitted Arch.amd64 := by decide +kernel

/-- amd64: the stack pointer is the ABI's stack pointer -/
theorem amd64_sp_abi : SpAbi Arch.amd64 sysvAmd64 := by decide +kernel

/-- amd64: word size = address width of lifted loads and stores = the ABI's word -/
theorem amd64_word_size_agrees : WordSizeAgrees Arch.amd64 sysvAmd64 := by decide +kernel

/-- amd64: endianness = the ABI's; a lifted store leaves the bytes in that order; instruction fetch order is the ABI's -/
theorem amd64_endian_agrees : EndianAgrees Arch.amd64 sysvAmd64 := by decide +kernel

/-- amd64: every register the convention names is a scalar of the sweep, with that width -/
theorem amd64_cc_regs_emitted : CcRegsEmitted Arch.amd64 := by decide +kernel

/-- amd64: no register name is both preserved and trashed -/
theorem amd64_preserved_trashed_disjoint : PreservedTrashedDisjoint Arch.amd64 := by decide +kernel

/-- amd64: the stack pointer is preserved -/
theorem amd64_sp_preserved : SpPreserved Arch.amd64 := by decide +kernel

/-- amd64: the argument registers are the ABI's integer argument registers, in order -/
theorem amd64_args_in_abi_order : ArgsInAbiOrder Arch.amd64 sysvAmd64 := by decide +kernel

/-- amd64: the return-value register is the ABI's -/
theorem amd64_return_reg_abi : ReturnRegAbi Arch.amd64 sysvAmd64 := by decide +kernel

/-- amd64: the return address is where the ABI puts it -/
theorem amd64_return_addr_abi : ReturnAddrAbi Arch.amd64 sysvAmd64 := by decide +kernel

/-- amd64: a stack-argument slot is one machine word -/
theorem amd64_stack_arg_len_is_word : StackArgLenIsWord Arch.amd64 sysvAmd64 := by decide +kernel

/-- amd64: the first stack argument is at the ABI's offset from the stack pointer at entry -/
theorem amd64_stack_arg_offset_abi : StackArgOffsetAbi Arch.amd64 sysvAmd64 := by decide +kernel

/-- amd64: `argument_type n` over the swept range: the ABI's integer argument registers in order, then
    `Stack(abi offset + word bytes * (n - k))` for every later n -/
theorem amd64_arg_types_abi : ArgTypesAbi Arch.amd64 sysvAmd64 := by decide +kernel

/-- amd64: the stack answers of `argument_type` start at the ABI's offset and are exactly one machine word apart -/
theorem amd64_stack_args_word_apart : StackArgsWordApart Arch.amd64 sysvAmd64 := by decide +kernel

/-- amd64: `is_preserved`/`is_trashed` answer Some(true)/Some(false)/None according to the two sets on every probe
    (all convention registers, the stack pointer, every sweep scalar, one register in neither set), never both Some(true) -/
theorem amd64_queries_agree : QueriesAgree Arch.amd64 := by decide +kernel


/-! ### mips -/

/-- mips: the stack-pointer scalar occurs in the sweep with that width, which is the word size -/
theorem mips_sp_emitted : SpEmitted Arch.mips := by decide +kernel

/-- mips: the stack pointer is the ABI's stack pointer -/
theorem mips_sp_abi : SpAbi Arch.mips (mipsO32 "big") := by decide +kernel

/-- mips: word size = address width of lifted loads and stores = the ABI's word -/
theorem mips_word_size_agrees : WordSizeAgrees Arch.mips (mipsO32 "big") := by decide +kernel

/-- mips: endianness = the ABI's; a lifted store leaves the bytes in that order; instruction fetch order is the ABI's -/
theorem mips_endian_agrees : EndianAgrees Arch.mips (mipsO32 "big") := by decide +kernel

/-- mips: every register the convention names is a scalar of the sweep, with that width -/
theorem mips_cc_regs_emitted : CcRegsEmitted Arch.mips := by decide +kernel

/-- mips: no register name is both preserved and trashed -/
theorem mips_preserved_trashed_disjoint : PreservedTrashedDisjoint Arch.mips := by decide +kernel

/-- mips: the stack pointer is preserved -/
theorem mips_sp_preserved : SpPreserved Arch.mips := by decide +kernel

/-- mips: the argument registers are the ABI's integer argument registers, in order -/
theorem mips_args_in_abi_order : ArgsInAbiOrder Arch.mips (mipsO32 "big") := by decide +kernel

/-- mips: the return-value register is the ABI's -/
theorem mips_return_reg_abi : ReturnRegAbi Arch.mips (mipsO32 "big") := by decide +kernel

/-- mips: the return address is where the ABI puts it -/
theorem mips_return_addr_abi : ReturnAddrAbi Arch.mips (mipsO32 "big") := by decide +kernel

/-- mips: a stack-argument slot is one machine word -/
theorem mips_stack_arg_len_is_word : StackArgLenIsWord Arch.mips (mipsO32 "big") := by decide +kernel

/-- mips: the first stack argument is at the ABI's offset from the stack pointer at entry -/
theorem mips_stack_arg_offset_abi : StackArgOffsetAbi Arch.mips (mipsO32 "big") := by decide +kernel

/-- mips: `argument_type n` over the swept range: the ABI's integer argument registers in order, then
    `Stack(abi offset + word bytes * (n - k))` for every later n -/
theorem mips_arg_types_abi : ArgTypesAbi Arch.mips (mipsO32 "big") := by decide +kernel

/-- mips: the stack answers of `argument_type` start at the ABI's offset and are exactly one machine word apart -/
theorem mips_stack_args_word_apart : StackArgsWordApart Arch.mips (mipsO32 "big") := by decide +kernel

/-- mips: `is_preserved`/`is_trashed` answer Some(true)/Some(false)/None according to the two sets on every probe
    (all convention registers, the stack pointer, every sweep scalar, one register in neither set), never both Some(true) -/
theorem mips_queries_agree : QueriesAgree Arch.mips := by decide +kernel


/-! ### mipsel -/

/-- mipsel: the stack-pointer scalar occurs in the sweep with that width, which is the word size -/
theorem mipsel_sp_emitted : SpEmitted Arch.mipsel := by decide +kernel

/-- mipsel: the stack pointer is the ABI's stack pointer -/
theorem mipsel_sp_abi : SpAbi Arch.mipsel (mipsO32 "little") := by decide +kernel

/-- mipsel: word size = address width of lifted loads and stores = the ABI's word -/
theorem mipsel_word_size_agrees : WordSizeAgrees Arch.mipsel (mipsO32 "little") := by decide +kernel

/-- mipsel: endianness = the ABI's; a lifted store leaves the bytes in that order; instruction fetch order is the ABI's -/
theorem mipsel_endian_agrees : EndianAgrees Arch.mipsel (mipsO32 "little") := by decide +kernel

/-- mipsel: every register the convention names is a scalar of the sweep, with that width -/
theorem mipsel_cc_regs_emitted : CcRegsEmitted Arch.mipsel := by decide +kernel

/-- mipsel: no register name is both preserved and trashed -/
theorem mipsel_preserved_trashed_disjoint : PreservedTrashedDisjoint Arch.mipsel := by decide +kernel

/-- mipsel: the stack pointer is preserved -/
theorem mipsel_sp_preserved : SpPreserved Arch.mipsel := by decide +kernel

/-- mipsel: the argument registers are the ABI's integer argument registers, in order -/
theorem mipsel_args_in_abi_order : ArgsInAbiOrder Arch.mipsel (mipsO32 "little") := by decide +kernel

/-- mipsel: the return-value register is the ABI's -/
theorem mipsel_return_reg_abi : ReturnRegAbi Arch.mipsel (mipsO32 "little") := by decide +kernel

/-- mipsel: the return address is where the ABI puts it -/
theorem mipsel_return_addr_abi : ReturnAddrAbi Arch.mipsel (mipsO32 "little") := by decide +kernel

/-- mipsel: a stack-argument slot is one machine word -/
theorem mipsel_stack_arg_len_is_word : StackArgLenIsWord Arch.mipsel (mipsO32 "little") := by decide +kernel

/-- mipsel: the first stack argument is at the ABI's offset from the stack pointer at entry -/
theorem mipsel_stack_arg_offset_abi : StackArgOffsetAbi Arch.mipsel (mipsO32 "little") := by decide +kernel

/-- mipsel: `argument_type n` over the swept range: the ABI's integer argument registers in order, then
    `Stack(abi offset + word bytes * (n - k))` for every later n -/
theorem mipsel_arg_types_abi : ArgTypesAbi Arch.mipsel (mipsO32 "little") := by decide +kernel

/-- mipsel: the stack answers of `argument_type` start at the ABI's offset and are exactly one machine word apart -/
theorem mipsel_stack_args_word_apart : StackArgsWordApart Arch.mipsel (mipsO32 "little") := by decide +kernel

/-- mipsel: `is_preserved`/`is_trashed` answer Some(true)/Some(false)/None according to the two sets on every probe
    (all convention registers, the stack pointer, every sweep scalar, one register in neither set), never both Some(true) -/
theorem mipsel_queries_agree : QueriesAgree Arch.mipsel := by decide +kernel


/-! ### ppc -/

/-- ppc: the stack-pointer scalar occurs in the sweep with that width, which is the word size -/
theorem ppc_sp_emitted : SpEmitted Arch.ppc := by decide +kernel

/-- ppc: the stack pointer is the ABI's stack pointer -/
theorem ppc_sp_abi : SpAbi Arch.ppc sysvPpc32 := by decide +kernel

/-- ppc: word size = address width of lifted loads and stores = the ABI's word -/
theorem ppc_word_size_agrees : WordSizeAgrees Arch.ppc sysvPpc32 := by decide +kernel

/-- ppc: endianness = the ABI's; a lifted store leaves the bytes in that order; instruction fetch order is the ABI's -/
theorem ppc_endian_agrees : EndianAgrees Arch.ppc sysvPpc32 := by decide +kernel

/-- ppc: every register the convention names is a scalar of the sweep, with that width -/
theorem ppc_cc_regs_emitted : CcRegsEmitted Arch.ppc := by decide +kernel

/-- ppc: no register name is both preserved and trashed -/
theorem ppc_preserved_trashed_disjoint : PreservedTrashedDisjoint Arch.ppc := by decide +kernel

/-- ppc: the stack pointer is preserved -/
theorem ppc_sp_preserved : SpPreserved Arch.ppc := by decide +kernel

/-- ppc: the argument registers are the ABI's integer argument registers, in order -/
theorem ppc_args_in_abi_order : ArgsInAbiOrder Arch.ppc sysvPpc32 := by decide +kernel

/-- ppc: the return-value register is the ABI's -/
theorem ppc_return_reg_abi : ReturnRegAbi Arch.ppc sysvPpc32 := by decide +kernel

/-- ppc: the return address is where the ABI puts it -/
theorem ppc_return_addr_abi : ReturnAddrAbi Arch.ppc sysvPpc32 := by decide +kernel

/-- ppc: a stack-argument slot is one machine word -/
theorem ppc_stack_arg_len_is_word : StackArgLenIsWord Arch.ppc sysvPpc32 := by decide +kernel

/-- ppc: the first stack argument is at the ABI's offset from the stack pointer at entry -/
theorem ppc_stack_arg_offset_abi : StackArgOffsetAbi Arch.ppc sysvPpc32 := by decide +kernel

/-- ppc: `argument_type n` over the swept range: the ABI's integer argument registers in order, then
    `Stack(abi offset + word bytes * (n - k))` for every later n -/
theorem ppc_arg_types_abi : ArgTypesAbi Arch.ppc sysvPpc32 := by decide +kernel

/-- ppc: the stack answers of `argument_type` start at the ABI's offset and are exactly one machine word apart -/
theorem ppc_stack_args_word_apart : StackArgsWordApart Arch.ppc sysvPpc32 := by decide +kernel

/-- ppc: `is_preserved`/`is_trashed` answer Some(true)/Some(false)/None according to the two sets on every probe
    (all convention registers, the stack pointer, every sweep scalar, one register in neither set), never both Some(true) -/
theorem ppc_queries_agree : QueriesAgree Arch.ppc := by decide +kernel


/-! ### aarch64 -/

/-- aarch64: the stack-pointer scalar occurs in the sweep with that width, which is the word size -/
theorem aarch64_sp_emitted : SpEmitted Arch.aarch64 := by decide +kernel

/-- aarch64: the stack pointer is the ABI's stack pointer -/
theorem aarch64_sp_abi : SpAbi Arch.aarch64 (aapcs64 "little") := by decide +kernel

/-- aarch64: word size = address width of lifted loads and stores = the ABI's word -/
theorem aarch64_word_size_agrees : WordSizeAgrees Arch.aarch64 (aapcs64 "little") := by decide +kernel

/-- aarch64: endianness = the ABI's; a lifted store leaves the bytes in that order; instruction fetch order is the ABI's -/
theorem aarch64_endian_agrees : EndianAgrees Arch.aarch64 (aapcs64 "little") := by decide +kernel

/-- aarch64: every register the convention names is a scalar of the sweep, with that width -/
theorem aarch64_cc_regs_emitted : CcRegsEmitted Arch.aarch64 := by decide +kernel

/-- aarch64: no register name is both preserved and trashed -/
theorem aarch64_preserved_trashed_disjoint : PreservedTrashedDisjoint Arch.aarch64 := by decide +kernel

/-- aarch64: the stack pointer is preserved -/
theorem aarch64_sp_preserved : SpPreserved Arch.aarch64 := by decide +kernel

/-- aarch64 (PARTIAL, see the header; excluded: `argument_type n` for n ≥ 8): the argument list is the ABI's
    integer sequence x0..x7 in order, followed by exactly the ABI's SIMD sequence v0..v7 (128 bits) in order -/
theorem aarch64_args_in_abi_order_partial : ArgsIntThenFp Arch.aarch64 (aapcs64 "little") := by decide +kernel

/-- aarch64: the return-value register is the ABI's -/
theorem aarch64_return_reg_abi : ReturnRegAbi Arch.aarch64 (aapcs64 "little") := by decide +kernel

/-- aarch64: the return address is where the ABI puts it -/
theorem aarch64_return_addr_abi : ReturnAddrAbi Arch.aarch64 (aapcs64 "little") := by decide +kernel

/-- aarch64: a stack-argument slot is one machine word -/
theorem aarch64_stack_arg_len_is_word : StackArgLenIsWord Arch.aarch64 (aapcs64 "little") := by decide +kernel

/-- aarch64: the first stack argument is at the ABI's offset from the stack pointer at entry -/
theorem aarch64_stack_arg_offset_abi : StackArgOffsetAbi Arch.aarch64 (aapcs64 "little") := by decide +kernel

/-- aarch64 (PARTIAL, same finding as `aarch64_args_in_abi_order_partial`): `argument_type n` for n = 0 ..= 22 answers the
    ABI's integer registers x0..x7, then the SIMD registers v0..v7, then `Stack(0 + 8 * (n - 16))`.  The full
    statement `ArgTypesAbi Arch.aarch64 (aapcs64 "little")` (answers 8..15 are `Stack(8 * (n - 8))`) is false on today's table. -/
theorem aarch64_arg_types_abi_partial : ArgTypesIntThenFp Arch.aarch64 (aapcs64 "little") := by decide +kernel

/-- aarch64: the stack answers of `argument_type` start at the ABI's offset and are exactly one machine word apart -/
theorem aarch64_stack_args_word_apart : StackArgsWordApart Arch.aarch64 (aapcs64 "little") := by decide +kernel

/-- aarch64: `is_preserved`/`is_trashed` answer Some(true)/Some(false)/None according to the two sets on every probe
    (all convention registers, the stack pointer, every sweep scalar, one register in neither set), never both Some(true) -/
theorem aarch64_queries_agree : QueriesAgree Arch.aarch64 := by decide +kernel


/-! ### aarch64eb -/

/-- aarch64eb: the stack-pointer scalar occurs in the sweep with that width, which is the word size -/
theorem aarch64eb_sp_emitted : SpEmitted Arch.aarch64eb := by decide +kernel

/-- aarch64eb: the stack pointer is the ABI's stack pointer -/
theorem aarch64eb_sp_abi : SpAbi Arch.aarch64eb (aapcs64 "big") := by decide +kernel

/-- aarch64eb: word size = address width of lifted loads and stores = the ABI's word -/
theorem aarch64eb_word_size_agrees : WordSizeAgrees Arch.aarch64eb (aapcs64 "big") := by decide +kernel

/-- aarch64eb: endianness = the ABI's; a lifted store leaves the bytes in that order; instruction fetch order is the ABI's -/
theorem aarch64eb_endian_agrees : EndianAgrees Arch.aarch64eb (aapcs64 "big") := by decide +kernel

/-- aarch64eb: every register the convention names is a scalar of the sweep, with that width -/
theorem aarch64eb_cc_regs_emitted : CcRegsEmitted Arch.aarch64eb := by decide +kernel

/-- aarch64eb: no register name is both preserved and trashed -/
theorem aarch64eb_preserved_trashed_disjoint : PreservedTrashedDisjoint Arch.aarch64eb := by decide +kernel

/-- aarch64eb: the stack pointer is preserved -/
theorem aarch64eb_sp_preserved : SpPreserved Arch.aarch64eb := by decide +kernel

/-- aarch64eb (PARTIAL, see the header; excluded: `argument_type n` for n ≥ 8): the argument list is the ABI's
    integer sequence x0..x7 in order, followed by exactly the ABI's SIMD sequence v0..v7 (128 bits) in order -/
theorem aarch64eb_args_in_abi_order_partial : ArgsIntThenFp Arch.aarch64eb (aapcs64 "big") := by decide +kernel

/-- aarch64eb: the return-value register is the ABI's -/
theorem aarch64eb_return_reg_abi : ReturnRegAbi Arch.aarch64eb (aapcs64 "big") := by decide +kernel

/-- aarch64eb: the return address is where the ABI puts it -/
theorem aarch64eb_return_addr_abi : ReturnAddrAbi Arch.aarch64eb (aapcs64 "big") := by decide +kernel

/-- aarch64eb: a stack-argument slot is one machine word -/
theorem aarch64eb_stack_arg_len_is_word : StackArgLenIsWord Arch.aarch64eb (aapcs64 "big") := by decide +kernel

/-- aarch64eb: the first stack argument is at the ABI's offset from the stack pointer at entry -/
theorem aarch64eb_stack_arg_offset_abi : StackArgOffsetAbi Arch.aarch64eb (aapcs64 "big") := by decide +kernel

/-- aarch64eb (PARTIAL, same finding as `aarch64eb_args_in_abi_order_partial`): `argument_type n` for n = 0 ..= 22 answers the
    ABI's integer registers x0..x7, then the SIMD registers v0..v7, then `Stack(0 + 8 * (n - 16))`.  The full
    statement `ArgTypesAbi Arch.aarch64eb (aapcs64 "big")` (answers 8..15 are `Stack(8 * (n - 8))`) is false on today's table. -/
theorem aarch64eb_arg_types_abi_partial : ArgTypesIntThenFp Arch.aarch64eb (aapcs64 "big") := by decide +kernel

/-- aarch64eb: the stack answers of `argument_type` start at the ABI's offset and are exactly one machine word apart -/
theorem aarch64eb_stack_args_word_apart : StackArgsWordApart Arch.aarch64eb (aapcs64 "big") := by decide +kernel

/-- aarch64eb: `is_preserved`/`is_trashed` answer Some(true)/Some(false)/None according to the two sets on every probe
    (all convention registers, the stack pointer, every sweep scalar, one register in neither set), never both Some(true) -/
theorem aarch64eb_queries_agree : QueriesAgree Arch.aarch64eb := by decide +kernel


/-! ### All seven at once (from the theorems above) -/

/-- PARTIAL only in the argument clause of aarch64/aarch64eb (see the header): for every architecture of the
    regenerated table there is the ABI the driver judges it by, and every clause of the property holds -/
theorem every_architecture_partial : ∀ d ∈ Arch.all, ∃ a, abiOf d.name = some a ∧ Holds d a := by
  intro d hd
  simp only [Arch.all, List.mem_cons, List.not_mem_nil, or_false] at hd
  rcases hd with rfl | rfl | rfl | rfl | rfl | rfl | rfl
  · exact ⟨sysvI386, rfl, x86_sp_emitted, x86_sp_abi, x86_word_size_agrees, x86_endian_agrees,
      x86_cc_regs_emitted, x86_preserved_trashed_disjoint, x86_sp_preserved,
      argsIntThenFp_of_inAbiOrder rfl x86_args_in_abi_order, x86_return_reg_abi, x86_return_addr_abi,
      x86_stack_arg_len_is_word, x86_stack_arg_offset_abi,
      argTypesIntThenFp_of_abi rfl x86_arg_types_abi, x86_stack_args_word_apart, x86_queries_agree⟩
  · exact ⟨sysvAmd64, rfl, amd64_sp_emitted, amd64_sp_abi, amd64_word_size_agrees, amd64_endian_agrees,
      amd64_cc_regs_emitted, amd64_preserved_trashed_disjoint, amd64_sp_preserved,
      argsIntThenFp_of_inAbiOrder rfl amd64_args_in_abi_order, amd64_return_reg_abi, amd64_return_addr_abi,
      amd64_stack_arg_len_is_word, amd64_stack_arg_offset_abi,
      argTypesIntThenFp_of_abi rfl amd64_arg_types_abi, amd64_stack_args_word_apart, amd64_queries_agree⟩
  · exact ⟨(mipsO32 "big"), rfl, mips_sp_emitted, mips_sp_abi, mips_word_size_agrees, mips_endian_agrees,
      mips_cc_regs_emitted, mips_preserved_trashed_disjoint, mips_sp_preserved,
      argsIntThenFp_of_inAbiOrder rfl mips_args_in_abi_order, mips_return_reg_abi, mips_return_addr_abi,
      mips_stack_arg_len_is_word, mips_stack_arg_offset_abi,
      argTypesIntThenFp_of_abi rfl mips_arg_types_abi, mips_stack_args_word_apart, mips_queries_agree⟩
  · exact ⟨(mipsO32 "little"), rfl, mipsel_sp_emitted, mipsel_sp_abi, mipsel_word_size_agrees, mipsel_endian_agrees,
      mipsel_cc_regs_emitted, mipsel_preserved_trashed_disjoint, mipsel_sp_preserved,
      argsIntThenFp_of_inAbiOrder rfl mipsel_args_in_abi_order, mipsel_return_reg_abi, mipsel_return_addr_abi,
      mipsel_stack_arg_len_is_word, mipsel_stack_arg_offset_abi,
      argTypesIntThenFp_of_abi rfl mipsel_arg_types_abi, mipsel_stack_args_word_apart, mipsel_queries_agree⟩
  · exact ⟨sysvPpc32, rfl, ppc_sp_emitted, ppc_sp_abi, ppc_word_size_agrees, ppc_endian_agrees,
      ppc_cc_regs_emitted, ppc_preserved_trashed_disjoint, ppc_sp_preserved,
      argsIntThenFp_of_inAbiOrder rfl ppc_args_in_abi_order, ppc_return_reg_abi, ppc_return_addr_abi,
      ppc_stack_arg_len_is_word, ppc_stack_arg_offset_abi,
      argTypesIntThenFp_of_abi rfl ppc_arg_types_abi, ppc_stack_args_word_apart, ppc_queries_agree⟩
  · exact ⟨(aapcs64 "little"), rfl, aarch64_sp_emitted, aarch64_sp_abi, aarch64_word_size_agrees, aarch64_endian_agrees,
      aarch64_cc_regs_emitted, aarch64_preserved_trashed_disjoint, aarch64_sp_preserved,
      aarch64_args_in_abi_order_partial, aarch64_return_reg_abi, aarch64_return_addr_abi,
      aarch64_stack_arg_len_is_word, aarch64_stack_arg_offset_abi,
      aarch64_arg_types_abi_partial, aarch64_stack_args_word_apart, aarch64_queries_agree⟩
  · exact ⟨(aapcs64 "big"), rfl, aarch64eb_sp_emitted, aarch64eb_sp_abi, aarch64eb_word_size_agrees, aarch64eb_endian_agrees,
      aarch64eb_cc_regs_emitted, aarch64eb_preserved_trashed_disjoint, aarch64eb_sp_preserved,
      aarch64eb_args_in_abi_order_partial, aarch64eb_return_reg_abi, aarch64eb_return_addr_abi,
      aarch64eb_stack_arg_len_is_word, aarch64eb_stack_arg_offset_abi,
      aarch64eb_arg_types_abi_partial, aarch64eb_stack_args_word_apart, aarch64eb_queries_agree⟩

/-- for the five architectures whose ABI table has a single argument sequence the argument clause is the full one -/
theorem args_full_where_single_sequence :
    ∀ d ∈ Arch.all, ∀ a, abiOf d.name = some a → a.fpArgs = [] → ArgsInAbiOrder d a := by
  intro d hd a ha hf
  obtain ⟨a', ha', h⟩ := every_architecture_partial d hd
  have : a' = a := Option.some.inj (ha'.symm.trans ha)
  subst this
  have h8 : ArgsIntThenFp d a' := h.2.2.2.2.2.2.2.1
  unfold ArgsIntThenFp at h8; rw [hf, List.append_nil] at h8; exact h8

/-- likewise the answers of `argument_type` are the full clause for those five -/
theorem arg_types_full_where_single_sequence :
    ∀ d ∈ Arch.all, ∀ a, abiOf d.name = some a → a.fpArgs = [] → ArgTypesAbi d a := by
  intro d hd a ha hf
  obtain ⟨a', ha', h⟩ := every_architecture_partial d hd
  have : a' = a := Option.some.inj (ha'.symm.trans ha)
  subst this
  have h13 : ArgTypesIntThenFp d a' := h.2.2.2.2.2.2.2.2.2.2.2.2.1
  unfold ArgTypesIntThenFp at h13; rw [hf, List.append_nil] at h13; exact h13

/-! ### Non-vacuity: the predicates are not satisfied by just any table — each entry repaired in /repo (and the
    one recorded as a finding) violates its clause when put back -/

/-- MIPS with `$s8` (the lifter emits `$fp`) -/
example : ¬ CcRegsEmitted { Arch.mips with preserved := ("$s8", 32) :: Arch.mips.preserved } := by decide +kernel
/-- PPC with the first stack argument at 4(r1) (the LR save word) -/
example : ¬ StackArgOffsetAbi { Arch.ppc with stackArgOffset := 4 } sysvPpc32 := by decide +kernel
/-- AArch64 with 4-byte stack slots -/
example : ¬ StackArgLenIsWord { Arch.aarch64 with stackArgLen := 4 } (aapcs64 "little") := by decide +kernel
/-- AArch64 with a 128-bit `x19` in the trashed set: not emitted, and both preserved and trashed -/
example : ¬ CcRegsEmitted { Arch.aarch64 with trashed := ("x19", 128) :: Arch.aarch64.trashed } := by decide +kernel
example : ¬ PreservedTrashedDisjoint { Arch.aarch64 with trashed := ("x19", 128) :: Arch.aarch64.trashed } := by decide +kernel
/-- AArch64 with a 64-bit `v0` -/
example : ¬ CcRegsEmitted { Arch.aarch64 with args := [("v0", 64)] } := by decide +kernel
/-- AArch64 without `sp` in the preserved set -/
example : ¬ SpPreserved { Arch.aarch64 with preserved := Arch.aarch64.preserved.filter (· != ("sp", 64)) } := by decide +kernel
/-- the recorded finding: today's AArch64 argument list is not the ABI's integer sequence -/
example : ¬ ArgsInAbiOrder Arch.aarch64 (aapcs64 "little") := by decide +kernel
/-- `argument_type` striding by the first offset instead of the slot length (MIPS: 16, 32, 48, … for 16, 20, 24, …) -/
def strideByOffset (off len : Nat) : ArgType → ArgType
  | .stack o => .stack (off + off * ((o - off) / len))
  | t => t
example : (Arch.mips.argTypes.map (strideByOffset 16 4)).drop 4 =
    [.stack 16, .stack 32, .stack 48, .stack 64, .stack 80, .stack 96, .stack 112] := by decide +kernel
example : ¬ StackArgsWordApart { Arch.mips with argTypes := Arch.mips.argTypes.map (strideByOffset 16 4) }
    (mipsO32 "big") := by decide +kernel
example : ¬ ArgTypesAbi { Arch.mips with argTypes := Arch.mips.argTypes.map (strideByOffset 16 4) }
    (mipsO32 "big") := by decide +kernel
example : ¬ StackArgsWordApart { Arch.aarch64 with argTypes := Arch.aarch64.argTypes.map (strideByOffset 0 8) }
    (aapcs64 "little") := by decide +kernel
/-- the recorded finding seen through `argument_type`: AArch64's ninth answer is `v0`, not `[sp]` -/
example : ¬ ArgTypesAbi Arch.aarch64 (aapcs64 "little") := by decide +kernel
/-- an `is_preserved` that answers Some(false) for a register the convention does not mention -/
example : ¬ QueriesAgree { Arch.x86 with
    isPreserved := Arch.x86.isPreserved.map (fun x => if x.2 = none then (x.1, some false) else x) } := by
  decide +kernel
/-- an `is_trashed` that calls the stack pointer trashed -/
example : ¬ QueriesAgree { Arch.amd64 with
    isTrashed := Arch.amd64.isTrashed.map (fun x => if x.1 = ("rsp", 64) then (x.1, some true) else x) } := by
  decide +kernel
/-- a descriptor that claims the wrong byte order -/
example : ¬ EndianAgrees { Arch.mipsel with endian := "big" } (mipsO32 "little") := by decide +kernel
/-- and the clauses have content on today's table: e.g. amd64's convention names 16 distinct registers, all emitted -/
example : Arch.amd64.ccRegs.eraseDups.length = 16 := by decide +kernel

end Falcon.C20
