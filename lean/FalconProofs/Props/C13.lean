/-
  Property C13 — constant propagation never reports a value an execution contradicts.

  Pattern P3 (verified checker).  `constCheck f R` (FalconModel/ConstCert.lean) is run by the driver on the map
  that falcon's real `analysis::constants::constants(&function)` returned.  The theorems below say what
  acceptance means, for EVERY function, EVERY reported map, EVERY initial state and EVERY run of the function-level
  small-step relation `FStep` (FalconModel/Exec.lean) from the function's entry, of any length:

    constCheck_sound   whenever the run is about to execute a location `l`, the map has an entry for `l`, and every
                       scalar it reports constant there and that the function itself has assigned on this run
                       holds exactly that value in the state immediately before `l` executes;
    constEval_sound    `Constants::eval` (model `constEval`) on the map of `l`: if it returns a value, the
                       executor's `symbolize_and_eval` gives exactly that value in every such state in which the
                       function has assigned the scalars of the expression.
  `A` in `ARun f c₀ c A` is the list of names assigned by the steps of the run (`arun_iff_frun`: every `FRun` is
  such a run, `mem_assigned`: what membership means).  Runs end at `Operation::Branch` and at intrinsics (the
  executor leaves the function / has no semantics for them) — `branch_ends_run`, `intrinsic_ends_run`.
-/
import FalconProofs.C13.Inv
import FalconProofs.C13.Eval

namespace Falcon.C13
open Falcon Falcon.ConstCert

-- ------------------------------------------------------------------ runs and the assigned set

/-- every finite run of `FStep` is an annotated run, and conversely: the annotation `A` restricts nothing -/
theorem arun_iff_frun (f : Function) (a b : Config) : FRun f a b ↔ ∃ A, ARun f a b A := by
  constructor
  · intro h
    induction h with
    | refl => exact ⟨[], .refl _⟩
    | step _ hs ih => obtain ⟨A, hA⟩ := ih; exact ⟨_, .step hA hs⟩
  · rintro ⟨A, h⟩
    induction h with
    | refl => exact .refl _
    | step _ hs ih => exact .step ih hs

/-- the annotation of a one-step extension: the names written by the operation that executed (`opWrites`),
    nothing for a move along an edge -/
theorem assigned_step {f : Function} {a b c : Config} {A : List String} (h : ARun f a b A) (hs : FStep f b c) :
    ARun f a c (writesAt f b ++ A) ∧
    (∀ bk i, f.block b.block = some bk → bk.instrs[b.pos]? = some i → writesAt f b = opWrites i.op) ∧
    (∀ bk, f.block b.block = some bk → b.pos = bk.instrs.length → writesAt f b = []) := by
  refine ⟨.step h hs, ?_, ?_⟩
  · intro bk i hb hi; simp [writesAt, hb, hi]
  · intro bk hb hp; simp [writesAt, hb, hp]

/-- an `Operation::Branch` ends the run inside the function (no `FStep` executes it) -/
theorem branch_ends_run (σ σ' : State) (t : Expr) : execute σ (.branch t) ≠ .ok (σ', .fallThrough) :=
  branch_no_fallthrough σ σ' t

/-- an intrinsic ends the run (the executor answers `UnhandledIntrinsic`) -/
theorem intrinsic_ends_run (σ σ' : State) (i : Intrinsic) : execute σ (.intrinsic i) ≠ .ok (σ', .fallThrough) :=
  intrinsic_no_fallthrough σ σ' i

-- ------------------------------------------------------------------ the property

/-- **Soundness of the abstract step**, for every operation: if a fact describes the state before an operation
    that executes and falls through, the checker's abstract successor describes the state after it (with the
    destination added to the assigned names). -/
theorem absStep_sound_all {F : Fact} {σ σ' : State} {A : List String} (h : Describes F σ A) (op : Op)
    (hex : execute σ op = .ok (σ', .fallThrough)) : Describes (absStep op F) σ' (opWrites op ++ A) :=
  absStep_sound h op hex

/-- **C13, the reported constants.**  If the checker accepts the map `R` for `f`, then on every run from the entry
    of `f` (any initial state, any length), whenever the run is about to execute location `l`: `R` has an entry for
    `l`, and every scalar `x` reported constant `v` there which the function itself has assigned on this run
    holds exactly `v` in the state immediately before `l` executes. -/
theorem constCheck_sound (f : Function) (R : Report) (hc : constCheck f R = true)
    {σ0 : State} {c0 c : Config} {A : List String} (h0 : f.initial σ0 = some c0) (hrun : ARun f c0 c A)
    {l : Loc} (hl : AtLoc f c l) :
    ∃ F, R l = some F ∧ ∀ x v, F.vals.get x = some (.const v) → x ∈ A → c.state.get x = some v := by
  have hinv := inv_run hc h0 hrun
  have key : ∃ F, R l = some F ∧ Describes F c.state A := by
    cases hl with
    | @instr bk i hb hi =>
      have hidx := (block_mem hb).2
      have := hinv bk hb (.instr bk.index i.index) (by simp [primary, hi])
      rw [hidx] at this; exact this
    | @empty bk hb hemp hpos =>
      have hidx := (block_mem hb).2
      have := hinv bk hb (.empty bk.index) (by simp [primary, hemp, hpos])
      rw [hidx] at this; exact this
    | @edge bk e hb hpos he _ => exact inv_edge hc hinv hb hpos he
  obtain ⟨F, hR, hD⟩ := key
  exact ⟨F, hR, fun x v hx hA => hD.vals x v hx hA⟩

/-- the same, quantified over all `FRun`s -/
theorem constCheck_sound_frun (f : Function) (R : Report) (hc : constCheck f R = true)
    {σ0 : State} {c0 c : Config} (h0 : f.initial σ0 = some c0) (hrun : FRun f c0 c) :
    ∃ A, ARun f c0 c A ∧ ∀ l, AtLoc f c l →
      ∃ F, R l = some F ∧ ∀ x v, F.vals.get x = some (.const v) → x ∈ A → c.state.get x = some v := by
  obtain ⟨A, hA⟩ := (arun_iff_frun f c0 c).mp hrun
  exact ⟨A, hA, fun l hl => constCheck_sound f R hc h0 hA hl⟩

/-- **C13, `Constants::eval`.**  Under the same hypotheses: if the model of `Constants::eval` on the map of `l`
    returns `v` for a well-sorted expression `e` whose scalars the function has assigned on this run, the
    executor's `symbolize_and_eval` of `e` in the state immediately before `l` is exactly `v`.  (Otherwise
    `constEval` declines: `.ok none`.) -/
theorem constEval_sound (f : Function) (R : Report) (hc : constCheck f R = true)
    {σ0 : State} {c0 c : Config} {A : List String} (h0 : f.initial σ0 = some c0) (hrun : ARun f c0 c A)
    {l : Loc} (hl : AtLoc f c l) {F : Fact} (hF : R l = some F) {e : Expr} {v : Const}
    (hw : wfExpr e = true) (hA : ∀ s ∈ e.scalars, s.name ∈ A)
    (hev : constEval F.vals e = .ok (some v)) : c.state.evalIn e = .ok v := by
  obtain ⟨F', hR, hvals⟩ := constCheck_sound f R hc h0 hrun hl
  rw [hF] at hR
  cases hR
  exact constEval_state c.state F.vals e v hw (fun s hs k hk => hvals s.name k hk (hA s hs)) hev

/-- `Constants::eval` is total: a value or declining, never an error, never a panic (since the repair of the
    `unwrap` on a failed rebuild) -/
theorem constEval_total (vals : AState) (e : Expr) : ∃ o, constEval vals e = .ok o := by
  have hsub : ∀ ss e, ∃ o, substKnown vals ss e = .ok o := by
    intro ss
    induction ss with
    | nil => intro e; exact ⟨_, rfl⟩
    | cons s rest ih =>
      intro e
      unfold substKnown
      split
      · split
        · exact ih _
        · exact ⟨_, rfl⟩
      · exact ⟨_, rfl⟩
  obtain ⟨o, ho⟩ := hsub e.scalars e
  unfold constEval
  rw [ho]
  cases o with
  | none => exact ⟨_, rfl⟩
  | some e' =>
    simp only
    split <;> exact ⟨_, rfl⟩


-- ------------------------------------------------------------------ non-vacuity

namespace Example
open Falcon Falcon.ConstCert

def sx : Scalar := ⟨"x", 32, none⟩
def sy : Scalar := ⟨"y", 32, none⟩
def sz : Scalar := ⟨"z", 32, none⟩
def c32 (v : Nat) : Expr := .const ⟨32, v⟩

/-- a join (blocks 1 and 2 both assign `y := 2` and meet in block 3) and a loop (block 3 loops on itself and
    changes `x`):   0: x := 1   1: y := 2   2: y := 2   3: z := y + x ; x := x + 1 -/
def f : Function :=
  { addr := 0x1000,
    cfg := {
      blocks := [
        { index := 0, instrs := [⟨0, none, .assign sx (c32 1)⟩] },
        { index := 1, instrs := [⟨0, none, .assign sy (c32 2)⟩] },
        { index := 2, instrs := [⟨0, none, .assign sy (c32 2)⟩] },
        { index := 3, instrs := [⟨0, none, .assign sz (.bin .add (.scalar sy) (.scalar sx))⟩,
                                 ⟨1, none, .assign sx (.bin .add (.scalar sx) (c32 1))⟩] }],
      edges := [⟨0, 1, none⟩, ⟨0, 2, none⟩, ⟨1, 3, none⟩, ⟨2, 3, none⟩, ⟨3, 3, none⟩],
      entry := some 0 } }

def k (v : Nat) : AVal := .const ⟨32, v⟩

/-- the map falcon's repaired analysis reports for `f`, with the must-assigned certificate -/
def R : Report := fun l =>
  match l with
  | .instr 0 0 => some { vals := [], must := [] }
  | .edge 0 1 => some { vals := [("x", k 1)], must := ["x"] }
  | .edge 0 2 => some { vals := [("x", k 1)], must := ["x"] }
  | .instr 1 0 => some { vals := [("x", k 1)], must := ["x"] }
  | .instr 2 0 => some { vals := [("x", k 1)], must := ["x"] }
  | .edge 1 3 => some { vals := [("x", k 1), ("y", k 2)], must := ["x", "y"] }
  | .edge 2 3 => some { vals := [("x", k 1), ("y", k 2)], must := ["x", "y"] }
  | .instr 3 0 => some { vals := [("x", .top), ("y", k 2), ("z", .top)], must := ["x", "y"] }
  | .instr 3 1 => some { vals := [("x", .top), ("y", k 2), ("z", .top)], must := ["x", "y", "z"] }
  | .edge 3 3 => some { vals := [("x", .top), ("y", k 2), ("z", .top)], must := ["x", "y", "z"] }
  | _ => none

/-- the checker accepts it: the hypothesis of `constCheck_sound` is satisfiable on a function with a join and
    a loop, with a constant (`y = 2`) reported at the join and inside the loop -/
example : constCheck f R = true := by decide

/-- and it rejects the map that keeps `x = 1` inside the loop (the loop changes `x`) -/
example : constCheck f (fun l => if l = .instr 3 0 then
    some { vals := [("x", k 1), ("y", k 2), ("z", .top)], must := ["x", "y"] } else R l) = false := by decide

def σ0 : State := { scalars := [("x", ⟨32, 77⟩), ("y", ⟨32, 78⟩)] }

/-- a run from the entry through block 2 to the join: x := 1 ; edge 0→2 ; y := 2 ; edge 2→3 -/
example : ∃ c, ARun f ⟨0, 0, σ0⟩ c ["y", "x"] ∧ AtLoc f c (.instr 3 0) ∧ c.state.get "y" = some ⟨32, 2⟩ := by
  have s1 : FStep f ⟨0, 0, σ0⟩ ⟨0, 1, σ0.set "x" ⟨32, 1⟩⟩ :=
    FStep.instr (b := { index := 0, instrs := [⟨0, none, .assign sx (c32 1)⟩] }) (i := ⟨0, none, .assign sx (c32 1)⟩)
      rfl rfl rfl
  have s2 : FStep f ⟨0, 1, σ0.set "x" ⟨32, 1⟩⟩ ⟨2, 0, σ0.set "x" ⟨32, 1⟩⟩ :=
    FStep.edge (b := { index := 0, instrs := [⟨0, none, .assign sx (c32 1)⟩] }) (e := ⟨0, 2, none⟩)
      rfl rfl (by decide) trivial
  have s3 : FStep f ⟨2, 0, σ0.set "x" ⟨32, 1⟩⟩ ⟨2, 1, (σ0.set "x" ⟨32, 1⟩).set "y" ⟨32, 2⟩⟩ :=
    FStep.instr (b := { index := 2, instrs := [⟨0, none, .assign sy (c32 2)⟩] }) (i := ⟨0, none, .assign sy (c32 2)⟩)
      rfl rfl rfl
  have s4 : FStep f ⟨2, 1, (σ0.set "x" ⟨32, 1⟩).set "y" ⟨32, 2⟩⟩ ⟨3, 0, (σ0.set "x" ⟨32, 1⟩).set "y" ⟨32, 2⟩⟩ :=
    FStep.edge (b := { index := 2, instrs := [⟨0, none, .assign sy (c32 2)⟩] }) (e := ⟨2, 3, none⟩)
      rfl rfl (by decide) trivial
  refine ⟨_, ARun.step (ARun.step (ARun.step (ARun.step (ARun.refl _) s1) s2) s3) s4, ?_, ?_⟩
  · exact AtLoc.instr (bk := { index := 3, instrs := [⟨0, none, .assign sz (.bin .add (.scalar sy) (.scalar sx))⟩,
        ⟨1, none, .assign sx (.bin .add (.scalar sx) (c32 1))⟩] }) (i := ⟨0, none, .assign sz (.bin .add (.scalar sy) (.scalar sx))⟩) rfl rfl
  · decide

/-- `Constants::eval` on the map at the join: `y + y` evaluates to 4, `y + x` is declined -/
example : constEval [("x", .top), ("y", k 2), ("z", .top)] (.bin .add (.scalar sy) (.scalar sy)) = .ok (some ⟨32, 4⟩) := by
  decide
example : constEval [("x", .top), ("y", k 2), ("z", .top)] (.bin .add (.scalar sy) (.scalar sx)) = .ok none := by
  decide

end Example

end Falcon.C13
