/-
  Property C10 — SSA transformation yields valid SSA that preserves behaviour (pattern P3: verified checker).

  `Ssa.ssaCheck f g : Bool` (FalconModel/Ssa.lean) is run by `./check C10` on every output `g` that falcon's
  `transformation::ssa_transformation` returns for an input `f`.  This file proves what a `true` answer means, for
  ALL functions `f`, `g`, all initial states and runs of any length:

    ssaCheck_shape            erasing versions and phi nodes from g gives f: same header, blocks, edges, instruction
                              positions, indices, addresses, operation kinds (`same_blocks`, `same_edges`,
                              `same_positions` spell out the parts the property names)
    phi_per_pred              every phi node of g has exactly one operand per CFG predecessor of its block (the
                              list of its operands' block indices IS the predecessor list), and an `entry` operand
                              iff its block is the entry
    single_assignment         in the blocks the flow analysis reaches (a superset of the blocks on paths from the
                              entry: `paths_stay_reachable`), every definition carries a version and two definition
                              sites with the same (name, version) are the same site; `def_sites_complete_*`: the
                              sites enumerated are all phi outputs and all scalars written by instructions
    uses_name_reaching_def    along EVERY control-flow path of g from the entry (any out-edge, guards ignored) each
                              scalar read by an instruction, by an out-edge guard, or as the phi operand selected by
                              an edge, carries the version written by the LAST definition of its name on that path —
                              or no version when the path contains no definition (the value live on entry)
    ssaCheck_sound            LOCK STEP.  From every initial state σ₀ the run of f (`fstep`, Exec.lean) and the run of
                              g under the SSA executor (`sstep`: phi nodes select by incoming edge) proceed together
                              for every number of steps n: both stop at the same step or both continue; at each step
                              same (block, position), same memory and byte order, same observation `Obs` = the value
                              (or error, or panic) of EVERY expression evaluated there — assignment sources, load and
                              store addresses, stored values, branch targets, the guards of all out-edges — and the
                              same outcome of the instruction (fall through / branch target / error kind / panic)
    ssaCheck_sound_fwd / _bwd the same for the nondeterministic step relations `FStep` / `SStep` (several enabled
                              out-edges): every run of f is matched by a run of g and conversely (a bisimulation)
    enabled_edges_same        at the end of a block the enabled out-edges coincide
    certOk_sound              lock step for ANY certificate accepted by `certOk` (`computeCert` is not trusted)

  "Run" is a run inside one function in the sense of `FStep` (Exec.lean): `Operation::Branch` and intrinsics end it
  (their outcome — target or error — is still compared), a fault ends it (same fault on both sides).
  Names are identified as falcon's executor does: by the scalar's name; the SSA state is keyed by (name, version).
  That `ssa_transformation` SUCCEEDS on every function with an entry block is observed by the check on every
  generated function (an `Err` or a panic is a violation); it is not a theorem here — the construction
  (dominators, frontiers, renaming) is not modelled (DESIGN §6 C10).
-/
import FalconProofs.C10.Det
import FalconProofs.C10.Paths
import FalconProofs.C10.Single

namespace Falcon.C10
open Falcon Falcon.Ssa

theorem certOk_parts {f g : Function} {cert : Cert} (h : certOk f g cert = true) :
    eraseF g = f ∧ phiShapeOk g = true ∧ singleOk g cert = true ∧ flowOk g cert = true := by
  unfold certOk shapeOk at h
  simp only [Bool.and_eq_true, decide_eq_true_eq] at h
  exact ⟨h.1.1.1, h.1.1.2, h.1.2, h.2⟩

-- ------------------------------------------------------------------ shape

/-- erasing versions and phi nodes from the accepted output gives the input -/
theorem ssaCheck_shape (f g : Function) (h : ssaCheck f g = true) : eraseF g = f :=
  (certOk_parts h).1

theorem same_blocks (f g : Function) (h : ssaCheck f g = true) :
    f.cfg.blocks.map (·.index) = g.cfg.blocks.map (·.index) ∧ f.cfg.entry = g.cfg.entry ∧
    f.cfg.exit = g.cfg.exit := by
  rw [← ssaCheck_shape f g h]
  refine ⟨?_, rfl, rfl⟩
  simp only [eraseF, List.map_map]
  rfl

theorem same_edges (f g : Function) (h : ssaCheck f g = true) :
    f.cfg.edges.map (fun e => (e.head, e.tail)) = g.cfg.edges.map (fun e => (e.head, e.tail)) ∧
    f.cfg.edges.map (fun e => e.cond) = g.cfg.edges.map (fun e => e.cond.map eraseE) := by
  rw [← ssaCheck_shape f g h]
  simp only [eraseF, List.map_map]
  exact ⟨rfl, rfl⟩

/-- block by block: same instruction count, and position by position same index, address, and the operation of
    `f` is the operation of `g` with versions erased (hence the same kind) -/
theorem same_positions (f g : Function) (h : ssaCheck f g = true) (i : Nat) :
    f.block i = (g.block i).map eraseB ∧
    ∀ b, g.block i = some b → ∀ k : Nat, (eraseB b).instrs[k]? = (b.instrs[k]?).map
      (fun (j : Instr) => ({ index := j.index, addr := j.addr, op := eraseOp j.op } : Instr)) := by
  have hs := ssaCheck_shape f g h
  subst hs
  exact ⟨erase_block g i, fun b _ k => erase_instrs_get b k⟩

/-- PHI NODES: one operand per predecessor, `entry` operand iff the block is the entry -/
theorem phi_per_pred (f g : Function) (h : ssaCheck f g = true) (b : Block) (hb : b ∈ g.cfg.blocks)
    (φ : Phi) (hφ : φ ∈ b.phis) :
    φ.incoming.map (·.1) = g.cfg.predecessorIndices b.index ∧
    (φ.entry.isSome = true ↔ g.cfg.entry = some b.index) :=
  phiShapeOk_facts (certOk_parts h).2.1 hb hφ

-- ------------------------------------------------------------------ single assignment

/-- SINGLE ASSIGNMENT: among the definition sites of the reached blocks every definition is versioned and no
    (name, version) has two sites -/
theorem single_assignment (f g : Function) (h : ssaCheck f g = true) :
    (∀ d, d ∈ reachDefs g (computeCert g) → d.scalar.ssa.isSome = true) ∧
    (∀ d₁ d₂, d₁ ∈ reachDefs g (computeCert g) → d₂ ∈ reachDefs g (computeCert g) →
      key d₁.scalar = key d₂.scalar → d₁ = d₂) :=
  singleOk_facts (certOk_parts h).2.2.1

/-- every block on a control-flow path from the entry is among the reached blocks -/
theorem paths_stay_reachable (f g : Function) (h : ssaCheck f g = true) (p₀ p : PConfig)
    (h0 : pinitial g = some p₀) (hr : PRun g p₀ p) : (computeCert g).reach.contains p.block = true :=
  (pinv_run (certOk_parts h).2.2.2 (pinv_initial (certOk_parts h).2.2.2 h0) hr).reach

/-- the enumeration contains every phi output of a reached block … -/
theorem def_sites_complete_phi (g : Function) (i : Nat) (b : Block) (hb : g.block i = some b)
    (hr : (computeCert g).reach.contains i = true) (k : Nat) (φ : Phi) (hφ : b.phis[k]? = some φ) :
    (⟨b.index, true, k, 0, φ.out⟩ : DefSite) ∈ reachDefs g (computeCert g) :=
  mem_reachDefs hb hr (mem_blockDefs_phi hφ)

/-- … and every scalar written by an instruction of a reached block -/
theorem def_sites_complete_instr (g : Function) (i : Nat) (b : Block) (hb : g.block i = some b)
    (hr : (computeCert g).reach.contains i = true) (k j : Nat) (ins : Instr) (s : Scalar)
    (hi : b.instrs[k]? = some ins) (hs : (opWrites ins.op)[j]? = some s) :
    (⟨b.index, false, k, j, s⟩ : DefSite) ∈ reachDefs g (computeCert g) :=
  mem_reachDefs hb hr (mem_blockDefs_instr hi hs)

/-- the clause in the words of the property: two instructions lying on control-flow paths from the entry that
    write the same (name, version) are the same instruction (same block, same position) -/
theorem single_assignment_on_paths (f g : Function) (h : ssaCheck f g = true) (p₀ p q : PConfig)
    (h0 : pinitial g = some p₀) (hp : PRun g p₀ p) (hq : PRun g p₀ q)
    (bp bq : Block) (hbp : g.block p.block = some bp) (hbq : g.block q.block = some bq)
    (k₁ j₁ k₂ j₂ : Nat) (i₁ i₂ : Instr) (s₁ s₂ : Scalar)
    (hi₁ : bp.instrs[k₁]? = some i₁) (hs₁ : (opWrites i₁.op)[j₁]? = some s₁)
    (hi₂ : bq.instrs[k₂]? = some i₂) (hs₂ : (opWrites i₂.op)[j₂]? = some s₂)
    (hk : key s₁ = key s₂) : p.block = q.block ∧ k₁ = k₂ ∧ j₁ = j₂ ∧ s₁.ssa.isSome = true := by
  have h1 := def_sites_complete_instr g p.block bp hbp (paths_stay_reachable f g h p₀ p h0 hp) k₁ j₁ i₁ s₁ hi₁ hs₁
  have h2 := def_sites_complete_instr g q.block bq hbq (paths_stay_reachable f g h p₀ q h0 hq) k₂ j₂ i₂ s₂ hi₂ hs₂
  obtain ⟨hv, hu⟩ := single_assignment f g h
  have := hu _ _ h1 h2 hk
  simp only [DefSite.mk.injEq] at this
  refine ⟨?_, this.2.2.1, this.2.2.2.1, hv _ h1⟩
  rw [← block_index hbp, ← block_index hbq]
  exact this.1

-- ------------------------------------------------------------------ uses name the reaching definition

/-- USES NAME THE REACHING DEFINITION, on every path from the entry: at the position `p` reached by a path, with
    `p.last` = the version written by the last definition of each name on that path (`none` if none):
    (1) every scalar read by the instruction at `p` carries `p.last` of its name;
    (2) at the end of the block, for EVERY out-edge: every scalar read by its guard carries `p.last` of its name,
        and every phi node of the target has an operand for this edge, of the phi's own name, carrying `p.last` -/
theorem uses_name_reaching_def (f g : Function) (h : ssaCheck f g = true) (p₀ p : PConfig)
    (h0 : pinitial g = some p₀) (hr : PRun g p₀ p) (b : Block) (hb : g.block p.block = some b) :
    (∀ i, b.instrs[p.pos]? = some i → ∀ s, s ∈ opReads i.op → s.ssa = p.last s.name) ∧
    (p.pos = b.instrs.length → ∀ e, e ∈ g.cfg.edgesOut p.block →
      (∀ c, e.cond = some c → ∀ s, s ∈ c.scalars → s.ssa = p.last s.name) ∧
      ∃ t, g.block e.tail = some t ∧ ∀ φ, φ ∈ t.phis →
        ∃ o, φ.incoming.lookup p.block = some o ∧ o.name = φ.out.name ∧ o.ssa = p.last o.name) := by
  have hflow := (certOk_parts h).2.2.2
  have hinv := pinv_run hflow (pinv_initial hflow h0) hr
  exact ⟨fun i hi => pinv_instr_reads hflow hinv hb hi,
         fun hpos e he => pinv_edge_reads hflow hinv hb hpos he⟩

-- ------------------------------------------------------------------ behaviour

/-- what is the same at each step of the two runs -/
structure Related (f g : Function) (c : Config) (d : SConfig) : Prop where
  block : d.block = c.block
  pos : d.pos = c.pos
  mem : d.state.mem = c.state.mem
  endian : d.state.endian = c.state.endian
  /-- the value / error / panic of every expression evaluated here, and the outcome of the instruction -/
  obs : obsS g d = obsF f c

theorem related_of_rel {g : Function} {cert : Cert} (hflow : flowOk g cert = true) {c : Config} {d : SConfig}
    (hr : Rel g cert c d) : Related (eraseF g) g c d := by
  obtain ⟨_, _, _, _, _, ha⟩ := hr.agree
  exact ⟨hr.block, hr.pos, ha.mem.symm, ha.endian.symm, (obs_eq hflow hr).symm⟩

/-- `n` steps in lock step: after every `k ≤ n` steps both runs have stopped, or both are at `Related`
    configurations -/
def LockStep (f g : Function) (n : Nat) (c : Config) (d : SConfig) : Prop :=
  ∀ k, k ≤ n → OptRel (Related f g) (frunN f k c) (srunN g k d)

theorem run_rel {g : Function} {cert : Cert} (hflow : flowOk g cert = true) :
    ∀ (k : Nat) {c : Config} {d : SConfig}, Rel g cert c d →
      OptRel (Related (eraseF g) g) (frunN (eraseF g) k c) (srunN g k d)
  | 0, _, _, hr => related_of_rel hflow hr
  | k + 1, c, d, hr => by
    have hs := det_step hflow hr
    simp only [frunN, srunN]
    cases hf : fstep (eraseF g) c with
    | none =>
      cases hg : sstep g d with
      | none => trivial
      | some d' => rw [hf, hg] at hs; exact hs.elim
    | some c' =>
      cases hg : sstep g d with
      | none => rw [hf, hg] at hs; exact hs.elim
      | some d' =>
        rw [hf, hg] at hs
        exact run_rel hflow k hs

/-- SOUNDNESS for any accepted certificate -/
theorem certOk_sound (f g : Function) (cert : Cert) (h : certOk f g cert = true) (σ₀ : State) (c₀ : Config)
    (h0 : f.initial σ₀ = some c₀) :
    ∃ d₀, sinitial g σ₀ = some d₀ ∧ ∀ n, LockStep f g n c₀ d₀ := by
  obtain ⟨hshape, _, _, hflow⟩ := certOk_parts h
  subst hshape
  unfold Function.initial at h0
  rw [erase_entry] at h0
  cases he : g.cfg.entry with
  | none => rw [he] at h0; cases h0
  | some e =>
    rw [he] at h0
    simp only [Option.map, Option.some.injEq] at h0
    subst h0
    obtain ⟨τ', hτ', hrel⟩ := entry_core hflow he σ₀
    refine ⟨⟨e, 0, τ'⟩, ?_, fun n k _ => run_rel hflow k hrel⟩
    simp only [sinitial, he, hτ', Option.map]

/-- THE MAIN THEOREM (DESIGN §6 C10): if the validator accepts `g` for `f`, then from every initial state the
    SSA form can be entered and the two runs are in lock step for every number of steps -/
theorem ssaCheck_sound (f g : Function) (h : ssaCheck f g = true) (σ₀ : State) (c₀ : Config)
    (h0 : f.initial σ₀ = some c₀) :
    ∃ d₀, sinitial g σ₀ = some d₀ ∧ ∀ n, LockStep f g n c₀ d₀ :=
  certOk_sound f g (computeCert g) h σ₀ c₀ h0

/-- finite runs of the SSA form -/
inductive SRun (g : Function) : SConfig → SConfig → Prop where
  | refl (c : SConfig) : SRun g c c
  | step {a b c : SConfig} : SRun g a b → SStep g b c → SRun g a c

/-- the simulation relation carried by the two relational theorems below (existentially: some accepted
    certificate links the configurations) -/
def Linked (g : Function) (c : Config) (d : SConfig) : Prop := Rel g (computeCert g) c d

theorem linked_related {f g : Function} (h : ssaCheck f g = true) {c : Config} {d : SConfig}
    (hl : Linked g c d) : Related f g c d := by
  obtain ⟨hshape, _, _, hflow⟩ := certOk_parts h
  subst hshape
  exact related_of_rel hflow hl

/-- the entry configurations are linked -/
theorem linked_initial (f g : Function) (h : ssaCheck f g = true) (σ₀ : State) (c₀ : Config)
    (h0 : f.initial σ₀ = some c₀) : ∃ d₀, sinitial g σ₀ = some d₀ ∧ Linked g c₀ d₀ := by
  obtain ⟨hshape, _, _, hflow⟩ := certOk_parts h
  subst hshape
  unfold Function.initial at h0
  rw [erase_entry] at h0
  cases he : g.cfg.entry with
  | none => rw [he] at h0; cases h0
  | some e =>
    rw [he] at h0
    simp only [Option.map, Option.some.injEq] at h0
    subst h0
    obtain ⟨τ', hτ', hrel⟩ := entry_core hflow he σ₀
    refine ⟨⟨e, 0, τ'⟩, ?_, hrel⟩
    simp only [sinitial, he, hτ', Option.map]

/-- FORWARD, for the nondeterministic relations: whatever `f` can reach (choosing any enabled out-edge), `g`
    reaches a linked — hence `Related` — configuration -/
theorem ssaCheck_sound_fwd (f g : Function) (h : ssaCheck f g = true) (c₀ c : Config) (d₀ : SConfig)
    (hl : Linked g c₀ d₀) (hr : FRun f c₀ c) : ∃ d, SRun g d₀ d ∧ Linked g c d ∧ Related f g c d := by
  obtain ⟨hshape, _, _, hflow⟩ := certOk_parts h
  induction hr with
  | refl => exact ⟨d₀, SRun.refl _, hl, linked_related h hl⟩
  | step _ hs ih =>
    obtain ⟨d, hrun, hld, _⟩ := ih
    subst hshape
    obtain ⟨d', hs', hl'⟩ := step_fwd hflow hld hs
    exact ⟨d', SRun.step hrun hs', hl', linked_related h hl'⟩

/-- BACKWARD: whatever the SSA form can reach, `f` reaches a linked configuration: `g` has no behaviour that
    `f` does not have -/
theorem ssaCheck_sound_bwd (f g : Function) (h : ssaCheck f g = true) (c₀ : Config) (d₀ d : SConfig)
    (hl : Linked g c₀ d₀) (hr : SRun g d₀ d) : ∃ c, FRun f c₀ c ∧ Linked g c d ∧ Related f g c d := by
  obtain ⟨hshape, _, _, hflow⟩ := certOk_parts h
  induction hr with
  | refl => exact ⟨c₀, FRun.refl _, hl, linked_related h hl⟩
  | step _ hs ih =>
    obtain ⟨c, hrun, hlc, _⟩ := ih
    subst hshape
    obtain ⟨c', hs', hl'⟩ := step_bwd hflow hlc hs
    exact ⟨c', FRun.step hrun hs', hl', linked_related h hl'⟩

/-- at the end of a block the enabled out-edges are the same (those of `g` with versions erased) -/
theorem enabled_edges_same (f g : Function) (h : ssaCheck f g = true) (c : Config) (d : SConfig)
    (hl : Linked g c d) (b : Block) (hb : g.block c.block = some b) (hp : c.pos = b.instrs.length) :
    enabledEdges f c = (enabledEdgesS g d).map eraseEdge := by
  obtain ⟨hshape, _, _, hflow⟩ := certOk_parts h
  subst hshape
  obtain ⟨cb, cp, σ⟩ := c
  obtain ⟨db, dp, τ⟩ := d
  have h1 := hl.block
  have h2 := hl.pos
  simp only at h1 h2
  subst h1; subst h2
  exact enabled_eq hflow hl hb hp

-- ------------------------------------------------------------------ non-vacuity

section examples

private def sx (v : Option Nat) : Scalar := ⟨"x", 32, v⟩
private def sp : Scalar := ⟨"p", 32, none⟩
private def sy (v : Option Nat) : Scalar := ⟨"y", 32, v⟩
private def k (v : Nat) : Expr := .const ⟨32, v⟩
private def k1 (v : Nat) : Expr := .const ⟨1, v⟩
private def ins (i : Nat) (op : Op) : Instr := ⟨i, none, op⟩

/-- diamond: 0 → {1, 2} → 3, `x` assigned on both arms, read after the join -/
private def diamondF : Function :=
  { addr := 4096,
    cfg := { blocks := [⟨0, 1, [ins 0 (.assign (sx none) (k 0))], []⟩,
                        ⟨1, 1, [ins 0 (.assign (sx none) (k 1))], []⟩,
                        ⟨2, 1, [ins 0 (.assign (sx none) (k 2))], []⟩,
                        ⟨3, 1, [ins 0 (.assign (sy none) (.scalar (sx none)))], []⟩],
             edges := [⟨0, 1, some (.bin .cmpeq (.scalar sp) (k 0))⟩,
                       ⟨0, 2, some (.bin .cmpeq (.bin .cmpeq (.scalar sp) (k 0)) (k1 0))⟩,
                       ⟨1, 3, none⟩, ⟨2, 3, none⟩],
             entry := some 0, exit := some 3, nextIndex := 4 } }

/-- its SSA form, with the phi node `x.4 = phi [x.2, 1] [x.3, 2]` at the join -/
private def diamondG : Function :=
  { addr := 4096,
    cfg := { blocks := [⟨0, 1, [ins 0 (.assign (sx (some 1)) (k 0))], []⟩,
                        ⟨1, 1, [ins 0 (.assign (sx (some 2)) (k 1))], []⟩,
                        ⟨2, 1, [ins 0 (.assign (sx (some 3)) (k 2))], []⟩,
                        ⟨3, 1, [ins 0 (.assign (sy (some 1)) (.scalar (sx (some 4))))],
                         [⟨sx (some 4), [(1, sx (some 2)), (2, sx (some 3))], none⟩]⟩],
             edges := [⟨0, 1, some (.bin .cmpeq (.scalar sp) (k 0))⟩,
                       ⟨0, 2, some (.bin .cmpeq (.bin .cmpeq (.scalar sp) (k 0)) (k1 0))⟩,
                       ⟨1, 3, none⟩, ⟨2, 3, none⟩],
             entry := some 0, exit := some 3, nextIndex := 4 } }

/-- the hypothesis of every theorem above is met by a diamond with a phi node -/
example : ssaCheck diamondF diamondG = true := by decide

/-- without the phi node (the join reading the version of the dominating definition — what falcon produced
    for a name read only by a guard before the repair) the validator refuses -/
private def diamondBad : Function :=
  { diamondG with cfg := { diamondG.cfg with blocks :=
      [⟨0, 1, [ins 0 (.assign (sx (some 1)) (k 0))], []⟩,
       ⟨1, 1, [ins 0 (.assign (sx (some 2)) (k 1))], []⟩,
       ⟨2, 1, [ins 0 (.assign (sx (some 3)) (k 2))], []⟩,
       ⟨3, 1, [ins 0 (.assign (sy (some 1)) (.scalar (sx (some 1))))], []⟩] } }

example : ssaCheck diamondF diamondBad = false := by decide

/-- loop through the entry block: `0: x := x + 1`, edges `0 → 0 [x <u 4]`, `0 → 1 [!(x <u 4)]`, `1: y := x` -/
private def loopF : Function :=
  { addr := 4096,
    cfg := { blocks := [⟨0, 1, [ins 0 (.assign (sx none) (.bin .add (.scalar (sx none)) (k 1)))], []⟩,
                        ⟨1, 1, [ins 0 (.assign (sy none) (.scalar (sx none)))], []⟩],
             edges := [⟨0, 0, some (.bin .cmpltu (.scalar (sx none)) (k 4))⟩,
                       ⟨0, 1, some (.bin .cmpeq (.bin .cmpltu (.scalar (sx none)) (k 4)) (k1 0))⟩],
             entry := some 0, exit := some 1, nextIndex := 2 } }

/-- its SSA form: the entry block carries `x.1 = phi [x.2, 0] [x, entry]` -/
private def loopG : Function :=
  { addr := 4096,
    cfg := { blocks := [⟨0, 1, [ins 0 (.assign (sx (some 2)) (.bin .add (.scalar (sx (some 1))) (k 1)))],
                         [⟨sx (some 1), [(0, sx (some 2))], some (sx none)⟩]⟩,
                        ⟨1, 1, [ins 0 (.assign (sy (some 1)) (.scalar (sx (some 2))))], []⟩],
             edges := [⟨0, 0, some (.bin .cmpltu (.scalar (sx (some 2))) (k 4))⟩,
                       ⟨0, 1, some (.bin .cmpeq (.bin .cmpltu (.scalar (sx (some 2))) (k 4)) (k1 0))⟩],
             entry := some 0, exit := some 1, nextIndex := 2 } }

example : ssaCheck loopF loopG = true := by decide

/-- and the lock step is not vacuous: the loop really runs (here: 9 steps from `x = 0`, four times round the loop, ending in block 1) -/
example : ((frunN loopF 9 ⟨0, 0, { scalars := [("x", ⟨32, 0⟩)] }⟩).map (fun c => (c.block, c.pos))) = some (1, 1) := by
  decide

end examples

end Falcon.C10
