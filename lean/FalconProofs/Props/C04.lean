/-
  Props.C04 — IL expression evaluation is exact fixed-width bit-vector arithmetic.

  Model:  FalconModel/Const.lean, Expr.lean  (mirror of lib/il/constant.rs, expression.rs, executor/eval.rs)
  Spec:   FalconModel/ConstSpec.lean          (`BitVec n` operations)
  `Const.Good c` = the value is reduced, `1 ≤ c.bits`, `c.bits < 2^64` (widths are `usize`).
  Every theorem is for ALL widths and ALL values; nothing is enumerated.
-/
import FalconProofs.C04.Eval
import FalconProofs.C04.Derived

namespace Falcon.C04
open Falcon Falcon.Const

/-! ### the specification's guarded shifts are the plain `BitVec` shifts -/

theorem spec_shl_eq {n : Nat} (x : BitVec n) (s : Nat) : Spec.shl x s = x <<< s := by
  unfold Spec.shl
  split
  · rename_i h; exact (BitVec.shiftLeft_eq_zero h).symm
  · rfl

theorem spec_shr_eq {n : Nat} (x : BitVec n) (s : Nat) : Spec.shr x s = x >>> s := by
  unfold Spec.shr
  split
  · rename_i h
    apply BitVec.eq_of_toNat_eq
    rw [BitVec.toNat_ushiftRight, shiftRight_eq_zero_of_ge x.isLt h]; simp
  · rfl

theorem spec_ashr_eq {n : Nat} (x : BitVec n) (s : Nat) : Spec.ashr x s = x.sshiftRight s := by
  unfold Spec.ashr
  split
  · rename_i h
    apply BitVec.eq_of_getLsbD_eq
    intro i hi
    rw [BitVec.getLsbD_sshiftRight]
    have h1 : ¬ n ≤ i := by omega
    have h2 : ¬ s + i < n := by omega
    cases hm : x.msb <;> simp [h1, h2, hi]
  · rfl

/-! ### every operator = its bit-vector meaning (all widths ≥ 1, all values) -/

/-- binary operators: result, sort error and division error exactly as the specification says -/
theorem bin_spec (op : BinOp) (a b : Const) (ha : a.Good) (hb : b.Good) :
    op.apply a b = Spec.bin op a b := apply_eq_spec op a b ha hb

/-- in `BitVec` terms, for operands of one width -/
theorem bin_spec_bv {n : Nat} (hn : 1 ≤ n) (h64 : n < 2 ^ 64) (op : BinOp) (x y : BitVec n) :
    op.apply (ofBV x) (ofBV y) =
      match Spec.binBV op x y with
      | some c => .ok c
      | none => .err .div0 := by
  rw [apply_ofBV hn h64]
  cases h : Spec.binBV op x y with
  | some c => exact Spec.bin_ofBV_some h
  | none => exact Spec.bin_ofBV_none h

theorem add_spec {n} (x y : BitVec n) : Const.add (ofBV x) (ofBV y) = .ok (ofBV (x + y)) := add_ofBV x y
theorem sub_spec {n} (x y : BitVec n) : Const.sub (ofBV x) (ofBV y) = .ok (ofBV (x - y)) := sub_ofBV x y
theorem mul_spec {n} (x y : BitVec n) : Const.mul (ofBV x) (ofBV y) = .ok (ofBV (x * y)) := mul_ofBV x y
theorem and_spec {n} (x y : BitVec n) : Const.and (ofBV x) (ofBV y) = .ok (ofBV (x &&& y)) := and_ofBV x y
theorem or_spec {n} (x y : BitVec n) : Const.or (ofBV x) (ofBV y) = .ok (ofBV (x ||| y)) := or_ofBV x y
theorem xor_spec {n} (x y : BitVec n) : Const.xor (ofBV x) (ofBV y) = .ok (ofBV (x ^^^ y)) := xor_ofBV x y

theorem divu_spec {n} (x y : BitVec n) :
    Const.divu (ofBV x) (ofBV y) = if y = 0 then .err .div0 else .ok (ofBV (x / y)) := by
  split
  · rename_i h; exact divu_ofBV_zero x y h
  · rename_i h; exact divu_ofBV x y h

theorem modu_spec {n} (x y : BitVec n) :
    Const.modu (ofBV x) (ofBV y) = if y = 0 then .err .div0 else .ok (ofBV (x % y)) := by
  split
  · rename_i h; exact modu_ofBV_zero x y h
  · rename_i h; exact modu_ofBV x y h

/-- signed division truncates toward zero; `INT_MIN / -1` wraps (that is what `sdiv` does) -/
theorem divs_spec {n} (hn : 1 ≤ n) (x y : BitVec n) :
    Const.divs (ofBV x) (ofBV y) = if y = 0 then .err .div0 else .ok (ofBV (x.sdiv y)) := by
  split
  · rename_i h; exact divs_ofBV_zero x y h
  · rename_i h; exact divs_ofBV hn x y h

theorem divs_spec_int {n} (hn : 1 ≤ n) (x y : BitVec n) (hy : y ≠ 0) :
    Const.divs (ofBV x) (ofBV y) = .ok (ofBV (BitVec.ofInt n (x.toInt.tdiv y.toInt))) := by
  rw [divs_ofBV hn x y hy]
  congr 2
  apply BitVec.eq_of_toInt_eq
  rw [BitVec.toInt_ofInt, BitVec.toInt_sdiv]

theorem mods_spec {n} (hn : 1 ≤ n) (x y : BitVec n) :
    Const.mods (ofBV x) (ofBV y) = if y = 0 then .err .div0 else .ok (ofBV (x.srem y)) := by
  split
  · rename_i h; exact mods_ofBV_zero x y h
  · rename_i h; exact mods_ofBV hn x y h

theorem mods_spec_int {n} (hn : 1 ≤ n) (x y : BitVec n) (hy : y ≠ 0) :
    Const.mods (ofBV x) (ofBV y) = .ok (ofBV (BitVec.ofInt n (x.toInt.tmod y.toInt))) := by
  rw [mods_ofBV hn x y hy, ← BitVec.toInt_srem, BitVec.ofInt_toInt]

/-- shifts saturate once the amount reaches the width — here stated with the *plain* `BitVec` shifts -/
theorem shl_spec {n} (h64 : n < 2 ^ 64) (x y : BitVec n) :
    Const.shl (ofBV x) (ofBV y) = .ok (ofBV (x <<< y.toNat)) := by
  rw [shl_ofBV x y h64, spec_shl_eq]

theorem shr_spec {n} (h64 : n < 2 ^ 64) (x y : BitVec n) :
    Const.shr (ofBV x) (ofBV y) = .ok (ofBV (x >>> y.toNat)) := by
  rw [shr_ofBV x y h64, spec_shr_eq]

/-- saturation spelled out: once the amount reaches the width - including amounts of 2^64 and more at widths
    above 64 bits (seeded change C04-m7 read only the low 64-bit digit) - the logical shifts give zero -/
theorem shr_saturates {n} (h64 : n < 2 ^ 64) (x y : BitVec n) (h : n ≤ y.toNat) :
    Const.shr (ofBV x) (ofBV y) = .ok (ofBV (0 : BitVec n)) := by
  rw [shr_spec h64, BitVec.ushiftRight_eq_zero h]; rfl

theorem shl_saturates {n} (h64 : n < 2 ^ 64) (x y : BitVec n) (h : n ≤ y.toNat) :
    Const.shl (ofBV x) (ofBV y) = .ok (ofBV (0 : BitVec n)) := by
  rw [shl_spec h64, BitVec.shiftLeft_eq_zero h]; rfl

theorem ashr_spec {n} (hn : 1 ≤ n) (h64 : n < 2 ^ 64) (x y : BitVec n) :
    Const.ashr (ofBV x) (ofBV y) = .ok (ofBV (x.sshiftRight y.toNat)) := by
  rw [ashr_ofBV x y hn h64, spec_ashr_eq]

theorem cmpeq_spec {n} (x y : BitVec n) : Const.cmpeq (ofBV x) (ofBV y) = .ok (bit (x == y)) := cmpeq_ofBV x y
theorem cmpneq_spec {n} (x y : BitVec n) : Const.cmpneq (ofBV x) (ofBV y) = .ok (bit (x != y)) := cmpneq_ofBV x y
theorem cmpltu_spec {n} (x y : BitVec n) : Const.cmpltu (ofBV x) (ofBV y) = .ok (bit (x.ult y)) := cmpltu_ofBV x y
theorem cmplts_spec {n} (hn : 1 ≤ n) (x y : BitVec n) :
    Const.cmplts (ofBV x) (ofBV y) = .ok (bit (x.slt y)) := cmplts_ofBV hn x y

theorem zext_spec {n} (x : BitVec n) (m : Nat) :
    Const.zext (ofBV x) m = if m ≤ n then .err .sort else .ok (ofBV (x.zeroExtend m)) := by
  split
  · rename_i h; exact zext_ofBV_sort x m h
  · rename_i h; exact zext_ofBV x m (by omega)

/-- sign extension to *every* wider width (before the repair: only multiples of 8) -/
theorem sext_spec {n} (hn : 1 ≤ n) (x : BitVec n) (m : Nat) :
    Const.sext (ofBV x) m = if m ≤ n then .err .sort else .ok (ofBV (x.signExtend m)) := by
  split
  · rename_i h; exact sext_ofBV_sort x m h
  · rename_i h; exact sext_ofBV x hn m (by omega)

theorem trun_spec {n} (x : BitVec n) (m : Nat) :
    Const.trun (ofBV x) m = if m ≥ n then .err .sort else .ok (ofBV (x.truncate m)) := by
  split
  · rename_i h; exact trun_ofBV_sort x m h
  · rename_i h; exact trun_ofBV x m (by omega)

theorem ext_spec (op : ExtOp) (a : Const) (m : Nat) (ha : a.Good) : op.apply a m = Spec.ext op a m :=
  ext_eq_spec op a m ha

/-! ### errors: exactly sort / division, never a panic -/

theorem sort_iff (op : BinOp) (a b : Const) (ha : a.Good) (hb : b.Good) :
    op.apply a b = .err .sort ↔ a.bits ≠ b.bits := by
  constructor
  · intro h heq
    rw [apply_eq_spec op a b ha hb] at h
    unfold Spec.bin at h
    rw [dif_pos heq] at h
    split at h <;> cases h
  · exact apply_sort op a b

theorem result_kinds (op : BinOp) (a b : Const) (ha : a.Good) (hb : b.Good) :
    (∃ c, op.apply a b = .ok c ∧ c.Good) ∨ op.apply a b = .err .sort ∨ op.apply a b = .err .div0 := by
  rw [apply_eq_spec op a b ha hb]
  cases h : Spec.bin op a b with
  | ok c => exact .inl ⟨c, rfl, Spec.bin_good op a b c ha h⟩
  | panic => unfold Spec.bin at h; split at h <;> (try split at h) <;> cases h
  | err e =>
    unfold Spec.bin at h
    split at h
    · split at h
      · cases h
      · injection h with h; subst h; exact .inr (.inr rfl)
    · injection h with h; subst h; exact .inr (.inl rfl)

/-- no operand values cause a panic -/
theorem no_panic (op : BinOp) (a b : Const) (ha : a.Good) (hb : b.Good) : op.apply a b ≠ .panic := by
  rcases result_kinds op a b ha hb with ⟨c, h, _⟩ | h | h <;> rw [h] <;> intro h' <;> cases h'

theorem div0_iff (op : BinOp) (a b : Const) (ha : a.Good) (hb : b.Good) :
    op.apply a b = .err .div0 ↔
      (a.bits = b.bits ∧ b.val = 0 ∧ (op = .divu ∨ op = .modu ∨ op = .divs ∨ op = .mods)) := by
  have ea := eq_ofBV a ha.wf
  have eb := eq_ofBV b hb.wf
  by_cases hbits : a.bits = b.bits
  · cases a with
    | mk n va =>
      cases b with
      | mk m vb =>
        simp only at hbits
        subst hbits
        rw [ea, eb, bin_spec_bv ha.pos ha.usz]
        have hz : (BitVec.ofNat n vb = 0#n) ↔ vb = 0 := by
          have hv : vb < 2 ^ n := hb.wf
          constructor
          · intro h
            have := congrArg BitVec.toNat h
            simpa [Nat.mod_eq_of_lt hv] using this
          · intro h; subst h; rfl
        simp only [ofBV_bits, ofBV_val, toBV, BitVec.toNat_ofNat, Nat.mod_eq_of_lt hb.wf, true_and]
        cases op <;> simp [Spec.binBV, hz] <;> (split <;> simp_all)
  · rw [apply_sort op a b hbits]
    constructor
    · intro h; cases h
    · intro h; exact absurd h.1 hbits

theorem ext_no_panic (op : ExtOp) (a : Const) (m : Nat) (ha : a.Good) : op.apply a m ≠ .panic := by
  rw [ext_eq_spec op a m ha]
  cases op <;> simp only [Spec.ext] <;> split <;> intro h <;> cases h

/-! ### all expression trees -/

/-- `executor::eval` computes the compositional bit-vector denotation of every closed or open
    expression tree whose widths are ≥ 1 (a scalar leaf is the `ExecutorScalar` error on both sides) -/
theorem eval_denote (e : Expr) (hw : e.WidthsOK) : e.eval = Spec.denote e :=
  (eval_eq_denote_aux e hw).1

theorem eval_good (e : Expr) (hw : e.WidthsOK) (c : Const) (h : e.eval = .ok c) : c.Good := by
  rw [eval_denote e hw] at h
  exact (eval_eq_denote_aux e hw).2 c h

/-- evaluation never panics -/
theorem eval_no_panic (e : Expr) (hw : e.WidthsOK) : e.eval ≠ .panic := by
  rw [eval_denote e hw]
  induction e with
  | scalar s => intro h; cases h
  | const c => intro h; cases h
  | bin op l r ihl ihr =>
    simp only [Spec.denote]
    cases hl : Spec.denote l with
    | panic => exact absurd hl (ihl hw.1)
    | err e => intro h; cases h
    | ok a =>
      cases hr : Spec.denote r with
      | panic => exact absurd hr (ihr hw.2)
      | err e => intro h; cases h
      | ok b =>
        simp only [Res.bind_ok]
        unfold Spec.bin
        split <;> (try split) <;> intro h <;> cases h
  | ext op m e ih =>
    simp only [Spec.denote]
    cases he : Spec.denote e with
    | panic => exact absurd he (ih hw.2.2)
    | err e => intro h; cases h
    | ok a =>
      simp only [Res.bind_ok]
      cases op <;> simp only [Spec.ext] <;> split <;> intro h <;> cases h
  | ite c t e ihc iht ihe =>
    simp only [Spec.denote]
    cases hc : Spec.denote c with
    | panic => exact absurd hc (ihc hw.1)
    | err e => intro h; cases h
    | ok cv =>
      simp only [Res.bind_ok]
      split
      · exact iht hw.2.1
      · exact ihe hw.2.2

/-! ### smart constructors and derived builders -/

theorem mkBin_ok_iff (op : BinOp) (l r : Expr) :
    (∃ e, Expr.mkBin op l r = .ok e) ↔ l.bits = r.bits := by
  unfold Expr.mkBin
  constructor
  · rintro ⟨e, h⟩; split at h
    · cases h
    · rename_i hne; exact Decidable.not_not.1 hne
  · intro h; exact ⟨_, by rw [if_neg (by simpa using h)]⟩

theorem mkBin_sort (op : BinOp) (l r : Expr) (h : l.bits ≠ r.bits) : Expr.mkBin op l r = .err .sort := by
  simp [Expr.mkBin, h]

theorem mkIte_ok_iff (c t e : Expr) :
    (∃ x, Expr.mkIte c t e = .ok x) ↔ (c.bits = 1 ∧ t.bits = e.bits) := by
  unfold Expr.mkIte
  constructor
  · rintro ⟨x, h⟩; split at h
    · cases h
    · rename_i hne; simp only [not_or, Decidable.not_not] at hne; exact hne
  · rintro ⟨h1, h2⟩; exact ⟨_, by rw [if_neg (by simp [h1, h2])]⟩

/-- `Expression::sra` is the arithmetic shift for every amount (after the repair) -/
theorem sra_spec {n} (hn : 1 ≤ n) (h64 : n < 2 ^ 64) (x y : BitVec n) :
    (Expr.sra (.const (ofBV x)) (.const (ofBV y)) >>= Expr.eval) = .ok (ofBV (x.sshiftRight y.toNat)) := by
  simp only [Expr.sra, Expr.mkBin, Expr.bits, ofBV_bits, ne_eq, not_true_eq_false, ↓reduceIte, Res.bind_ok,
    Expr.eval, BinOp.apply]
  exact ashr_spec hn h64 x y

/-- `Expression::rotl` is the left rotation, the amount counting modulo the width (after the repair: also
    for amounts beyond the width) -/
theorem rotl_spec {n} (hn : 1 ≤ n) (h64 : n < 2 ^ 64) (x s : BitVec n) :
    (Expr.rotl (.const (ofBV x)) (.const (ofBV s)) >>= Expr.eval) = .ok (ofBV (x.rotateLeft s.toNat)) :=
  rotl_ofBV hn h64 x s

/-- scalar substitution agrees with evaluation: if `replace_scalar x r e` succeeds, the result evaluates (under
    any valuation `ρ` of the remaining scalars) to what `e` evaluates to with `x` bound to the value of `r` -/
theorem replaceScalar_spec (x : Scalar) (r : Expr) (ρ : Scalar → Option Const) (v : Const)
    (hr : evalUnder ρ r = .ok v) (e e' : Expr) (h : Expr.replaceScalar x r e = .ok e') :
    evalUnder ρ e' = evalUnder (fun s => if s = x then some v else ρ s) e :=
  replaceScalar_eval x r ρ v hr e e' h

/-- a width-changing substitution is rejected with a sort error and nothing else can go wrong -/
theorem replaceScalar_sort_only (x : Scalar) (r e : Expr) :
    (∃ e', Expr.replaceScalar x r e = .ok e') ∨ Expr.replaceScalar x r e = .err .sort :=
  replaceScalar_fail x r e

theorem eval_is_evalUnder_empty (e : Expr) : e.eval = evalUnder (fun _ => none) e := eval_eq_evalUnder e

/-! ### non-vacuity: the hypotheses are met by concrete non-trivial constants at 1, 7, 64, 65, 128 bits -/

example : (ofBV (1#1)).Good := good_ofBV _ (by decide) (by decide)
example : (ofBV (0x55#7)).Good := good_ofBV _ (by decide) (by decide)
example : (ofBV (0x8000000000000000#64)).Good := good_ofBV _ (by decide) (by decide)
example : (ofBV (0x1ffffffffffffffff#65)).Good := good_ofBV _ (by decide) (by decide)
example : (ofBV (BitVec.allOnes 128)).Good := good_ofBV _ (by decide) (by decide)
example : Const.ashr (ofBV (0x80#8)) (ofBV (9#8)) = .ok (ofBV (0xff#8)) := by decide
example : Const.sext (ofBV (1#1)) 3 = .ok (ofBV (7#3)) := by decide
example : (Expr.bin .add (.const ⟨8, 1⟩) (.ext .zext 8 (.const ⟨1, 1⟩))).WidthsOK := by
  refine ⟨⟨?_, ?_, ?_⟩, ?_, ?_, ⟨?_, ?_, ?_⟩⟩ <;> decide

end Falcon.C04
