import FalconModel.ConstSpec
namespace Falcon.C04
open Falcon

theorem placeholder_add_sort (a b : Const) (h : a.bits ≠ b.bits) : Const.add a b = .err .sort := by
  simp [Const.add, h]

end Falcon.C04
