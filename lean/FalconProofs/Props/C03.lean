/- Props.C03 — placeholder while the differential is being built -/
import FalconModel.Isa.A64
namespace Falcon.C03
end Falcon.C03
