/-
  Props.C03 — the AArch64 lifter agrees with the Arm architecture pseudocode.

  Specification : FalconModel/Isa/A64.lean   (`A64.step`: interpreter on the RAW word, written from the Arm ARM
                                              pseudocode: AddWithCarry, ShiftReg, ExtendReg, DecodeBitMasks, Mem[] …)
  Mirror        : FalconModel/Isa/A64Lift.lean (`A64Lift.lift w addr`: the `BlockTranslationResult` falcon's lifter
                                              emits for the word — compared SYNTACTICALLY with falcon's dumped IL on
                                              every case of the differential, `MIRROR-SAME`/`MIRROR-DIFF`)
  IL semantics  : FalconModel/Lift.lean `runBTR` over FalconModel/Exec.lean (C07/C08 tie it to falcon's executor)
  `Abs σ s`     : the IL state σ holds the A64 state s (x0…x30, sp, n, z, c, v under the lifter's scalar names, the
                  same byte memory and data endianness; temporaries and the junk scalar `xzr` are unconstrained)
  `Agrees r σ w s`: running the lifted block r from σ ends at the successor / branch target s'.pc in a state σ'
                  with `Abs σ' s'`, where `A64.step w s = .ok s'`.

  COVERAGE (LIFTER_BRIEF "the proof part"):
  (A) mirror + theorem, universal over ALL words of the class, ALL addresses < 2^64 - 4 and ALL states:
        add/sub (immediate) incl. MOV (to/from SP)          lift_correct_addSubImm     [adds: all of NZCV]
        add/sub (shifted register: lsl/lsr/asr, 32/64 bit)  lift_correct_addSubShift   [adds: all of NZCV]
        add/sub (extended register: UXTB…SXTX, #0…#4, Rn|SP, Rd|SP, the `lsl` print form)
                                                             lift_correct_addSubExt     [adds: all of NZCV]
        subs (all three forms): result, N, Z, V agree; the IL's `c` is proved to be the NEGATION of the
            architectural carry (`AgreesBorrow`) — this is the recorded finding C03/*/subs/c, not a gap of the proof
        mov (register), mov (wide / inverted wide immediate), mov (bitmask immediate, `DecodeBitMasks`), nop
                                                             lift_correct_movReg / movWide / movBitmask / nop
        ldr/ldrb/ldrh/ldrsb/ldrsh/ldrsw (integer; unsigned offset | unscaled | post-index | pre-index; base SP or Xn,
            destination XZR discards; LE and BE data)        lift_correct_ldrImm
        str/strb/strh (same addressing modes)                lift_correct_strImm
            (all `ldur*`/`stur*` unscaled variants — ldurb, ldursb, ldurh, ldursh, ldursw, ldur, sturb, sturh, stur —
             are the `ImmForm` case "bits 11:10 = 00" of these two theorems)
        ldr*/str* register offset `[Xn|SP, Xm{, lsl #s}]`, `[Xn|SP, Wm, uxtw|sxtw {#s}]`, `[Xn|SP, Xm, sxtx {#s}]`
                                                             lift_correct_ldrReg / lift_correct_strReg
        ldr (literal) W/X, ldrsw (literal), prfm (literal)   lift_correct_ldrLiteral
        prfm (unsigned offset), prfum, prfm (register offset): `nop` = the hint changes no state
                                                             lift_correct_prfmImm / lift_correct_prfmReg
        ldp/stp/ldpsw/ldnp/stnp (integer; offset, pre-, post-index; 32/64 bit; SP base; XZR transfers)
                                                             lift_correct_ldpStp
        ldar/ldlar/stlr/stllr (+ b, h forms), stlur/stlurb/stlurh, as PLAIN accesses: the ordering semantics
            (acquire/release) is not modelled by the IL, the executor or the specification's sequential state
                                                             lift_correct_ldar_stlr / lift_correct_stlur
            all memory theorems: for every state in which the pseudocode completes (`A64.step w s = .ok s'`: no Data
            Abort / Alignment fault, and not a CONSTRAINED UNPREDICTABLE encoding — write-back with base = transfer
            register, LDP with Rt = Rt2, should-be-one fields of the ordered forms not all ones) and the access does not
            wrap around 2^64 (falcon's memory panics there: C07/C08)
        b, bl                                                lift_correct_b_bl
        br, blr, ret                                         lift_correct_br_blr_ret
        b.cond (all 16 condition codes via `ConditionHolds`) lift_correct_b_cond
        cbz/cbnz, tbz/tbnz                                   lift_correct_cbz_cbnz / lift_correct_tbz_tbnz
  (C) differential only (`unproved_classes`), complete list w.r.t. the dispatch table of lib/translator/aarch64/mod.rs:
        SIMD&FP registers as transfer registers of LDR/STR/LDUR/STUR (immediate, register offset, literal) and
        LDP/STP/LDNP/STNP (V = 1 encodings) — compared three-way on every generated case, no mirror, no theorem;
        outside the property's statement but reachable through shared bad64 mnemonics (counted as `outside_spec`):
        AdvSIMD/SVE forms of ADD/SUB/MOV (vector add, INS/UMOV/DUP/ORR-vector `mov`, SVE `mov`/`add`/`sub`) and the SVE
        prefetches PRFB/PRFD/PRFH/PRFW.
  No theorem uses an axiom beyond propext / Classical.choice / Quot.sound (no `bv_decide` axioms).
-/
import FalconProofs.C03.Prefetch

namespace Falcon.C03
open Falcon Falcon.Const Falcon.A64Lift
open Falcon.A64 (fld bit)

/-! ### AddWithCarry against falcon's flag expressions (all widths 1 ≤ N ≤ 64, all operands) -/

/-- `adds`: the carry flag of `AddWithCarry` is falcon's `zext72(x + y) != zext72 x + zext72 y` -/
theorem adds_carry {N : Nat} (hN : N ≤ 64) (x y : BitVec N) :
    (A64.addWithCarry x y false).2.2.2.1 = ((x + y).zeroExtend 72 != x.zeroExtend 72 + y.zeroExtend 72) :=
  awc_c_add hN x y

/-- `adds`: the overflow flag of `AddWithCarry` is falcon's `sext72(x + y) != sext72 x + sext72 y` -/
theorem adds_overflow {N : Nat} (hN1 : 1 ≤ N) (hN : N ≤ 64) (x y : BitVec N) :
    (A64.addWithCarry x y false).2.2.2.2 = ((x + y).signExtend 72 != x.signExtend 72 + y.signExtend 72) :=
  awc_v_add hN1 hN x y

/-- `subs`: falcon's `c` expression is the BORROW, i.e. the negation of `AddWithCarry(x, NOT y, 1)`'s carry
    (the genuine defect recorded as finding `C03/*/addsub_*/*op1_S1*/c`) -/
theorem subs_carry_is_borrow {N : Nat} (hN : N ≤ 64) (x y : BitVec N) :
    ((x - y).zeroExtend 72 != x.zeroExtend 72 - y.zeroExtend 72) = !(A64.addWithCarry x (~~~y) true).2.2.2.1 :=
  (awc_c_sub hN x y).symm

theorem subs_overflow {N : Nat} (hN1 : 1 ≤ N) (hN : N ≤ 64) (x y : BitVec N) :
    (A64.addWithCarry x (~~~y) true).2.2.2.2 = ((x - y).signExtend 72 != x.signExtend 72 - y.signExtend 72) :=
  awc_v_sub hN1 hN x y

/-! ### (A) class theorems: all words of the class × all addresses × all states -/

/-- ADD/ADDS/SUB/SUBS (immediate), `sf op S 100010 sh imm12 Rn Rd`, incl. the `mov Rd|SP, Rn|SP` alias, register 31 =
    SP (base, and destination when S = 0) or discarded (S = 1), W destinations zero-extended, `lsl #12` -/
theorem lift_correct_addSubImm (w : BitVec 32) (addr : Nat) (r : BTR) (hc : fld w 28 23 = 0b100010)
    (h : lift w addr = some r) (σ : State) (s : A64.St) (ha : Abs σ s)
    (hpc : s.pc = BitVec.ofNat 64 addr) (haddr : addr + 4 < 2 ^ 64) :
    if bit w 30 = true ∧ bit w 29 = true then AgreesBorrow r σ w s else Agrees r σ w s :=
  addSubImm_agrees w addr r hc h σ s ha hpc haddr

/-- ADD/ADDS/SUB/SUBS (shifted register), `sf op S 01011 shift 0 Rm imm6 Rn Rd`, register 31 = XZR/WZR -/
theorem lift_correct_addSubShift (w : BitVec 32) (addr : Nat) (r : BTR) (hc : fld w 28 24 = 0b01011)
    (h21 : bit w 21 = false) (h : lift w addr = some r) (σ : State) (s : A64.St) (ha : Abs σ s)
    (hpc : s.pc = BitVec.ofNat 64 addr) (haddr : addr + 4 < 2 ^ 64) :
    if bit w 30 = true ∧ bit w 29 = true then AgreesBorrow r σ w s else Agrees r σ w s :=
  addSubShift_agrees w addr r hc h21 h σ s ha hpc haddr

/-- MOV (register): every word of the logical (shifted register) class the mirror accepts -/
theorem lift_correct_movReg (w : BitVec 32) (addr : Nat) (r : BTR) (hc : fld w 28 24 = 0b01010)
    (h : lift w addr = some r) (σ : State) (s : A64.St) (ha : Abs σ s)
    (hpc : s.pc = BitVec.ofNat 64 addr) (haddr : addr + 4 < 2 ^ 64) : Agrees r σ w s :=
  movReg_agrees w addr r hc h σ s ha hpc haddr

/-- MOV (wide immediate) and MOV (inverted wide immediate): every word of the move-wide class the mirror accepts -/
theorem lift_correct_movWide (w : BitVec 32) (addr : Nat) (r : BTR) (hc : fld w 28 23 = 0b100101)
    (h : lift w addr = some r) (σ : State) (s : A64.St) (ha : Abs σ s)
    (hpc : s.pc = BitVec.ofNat 64 addr) (haddr : addr + 4 < 2 ^ 64) : Agrees r σ w s :=
  movWide_agrees w addr r hc h σ s ha hpc haddr

theorem lift_correct_nop (addr : Nat) (σ : State) (s : A64.St) (ha : Abs σ s)
    (hpc : s.pc = BitVec.ofNat 64 addr) (haddr : addr + 4 < 2 ^ 64) :
    ∃ r, lift (0xd503201f#32) addr = some r ∧ Agrees r σ (0xd503201f#32) s :=
  nop_agrees addr σ s ha hpc haddr

/-- B and BL (`op 00101 imm26`): the successor / branch target is `PC + SignExtend(imm26:00)`; BL writes X30 = PC + 4 -/
theorem lift_correct_b_bl (w : BitVec 32) (addr : Nat) (r : BTR) (hc : fld w 30 26 = 0b00101)
    (h : lift w addr = some r) (σ : State) (s : A64.St) (ha : Abs σ s)
    (hpc : s.pc = BitVec.ofNat 64 addr) (haddr : addr + 4 < 2 ^ 64) : Agrees r σ w s :=
  bImm_agrees w addr r hc h σ s ha hpc haddr

/-- BR, BLR, RET (`1101011 opc 11111 000000 Rn 00000`): the target is X[n] (XZR for 31), read BEFORE BLR writes X30
    (holds since the repairs 7bf2ccf and c6a73a3) -/
theorem lift_correct_br_blr_ret (w : BitVec 32) (addr : Nat) (r : BTR) (hc : fld w 31 25 = 0b1101011)
    (h : lift w addr = some r) (σ : State) (s : A64.St) (ha : Abs σ s)
    (hpc : s.pc = BitVec.ofNat 64 addr) (haddr : addr + 4 < 2 ^ 64) : Agrees r σ w s :=
  brReg_agrees w addr r hc h σ s ha hpc haddr

/-- ADD/ADDS/SUB/SUBS (extended register), `sf op S 01011 00 1 Rm option imm3 Rn Rd`: `ExtendReg` (all eight extend
    types, shift 0…4), register 31 = SP for Rn and (S = 0) Rd, XZR/WZR for Rm -/
theorem lift_correct_addSubExt (w : BitVec 32) (addr : Nat) (r : BTR) (hc : fld w 28 24 = 0b01011)
    (h21 : bit w 21 = true) (h : lift w addr = some r) (σ : State) (s : A64.St) (ha : Abs σ s)
    (hpc : s.pc = BitVec.ofNat 64 addr) (haddr : addr + 4 < 2 ^ 64) :
    if bit w 30 = true ∧ bit w 29 = true then AgreesBorrow r σ w s else Agrees r σ w s :=
  addSubExt_agrees w addr r hc h21 h σ s ha hpc haddr

/-- `ExtendReg(m, type, shift, N)` is "extend the low bits, then shift left" (the form falcon emits) -/
theorem extendReg_spec {N : Nat} (hN : N = 32 ∨ N = 64) (x : BitVec N) (option sh : Nat) (hs : sh ≤ 4) :
    A64.extendReg x option sh = extG x option sh :=
  extendReg_eq hN x option sh hs

/-- MOV (bitmask immediate): every word of the logical (immediate) class the mirror accepts (ORR, Rn = 31, not
    MoveWidePreferred); the constant is `DecodeBitMasks(N, imms, immr)`, destination 31 = SP -/
theorem lift_correct_movBitmask (w : BitVec 32) (addr : Nat) (r : BTR) (hc : fld w 28 23 = 0b100100)
    (h : lift w addr = some r) (σ : State) (s : A64.St) (ha : Abs σ s)
    (hpc : s.pc = BitVec.ofNat 64 addr) (haddr : addr + 4 < 2 ^ 64) : Agrees r σ w s :=
  movBitmask_agrees w addr r hc h σ s ha hpc haddr

/-- B.cond (`0101010 0 imm19 0 cond`): the two guarded successors select the pc `ConditionHolds(cond)` selects -/
theorem lift_correct_b_cond (w : BitVec 32) (addr : Nat) (r : BTR) (hc : fld w 31 25 = 0b0101010)
    (h : lift w addr = some r) (σ : State) (s : A64.St) (ha : Abs σ s)
    (hpc : s.pc = BitVec.ofNat 64 addr) (haddr : addr + 4 < 2 ^ 64) : Agrees r σ w s :=
  bCond_agrees w addr r hc h σ s ha hpc haddr

/-- CBZ/CBNZ (`sf 011010 op imm19 Rt`), 32- and 64-bit operand, Rt = 31 reads zero -/
theorem lift_correct_cbz_cbnz (w : BitVec 32) (addr : Nat) (r : BTR) (hc : fld w 30 25 = 0b011010)
    (h : lift w addr = some r) (σ : State) (s : A64.St) (ha : Abs σ s)
    (hpc : s.pc = BitVec.ofNat 64 addr) (haddr : addr + 4 < 2 ^ 64) : Agrees r σ w s :=
  cbz_agrees w addr r hc h σ s ha hpc haddr

/-- TBZ/TBNZ (`b5 011011 op b40 imm14 Rt`), every bit position 0…63 -/
theorem lift_correct_tbz_tbnz (w : BitVec 32) (addr : Nat) (r : BTR) (hc : fld w 30 25 = 0b011011)
    (h : lift w addr = some r) (σ : State) (s : A64.St) (ha : Abs σ s)
    (hpc : s.pc = BitVec.ofNat 64 addr) (haddr : addr + 4 < 2 ^ 64) : Agrees r σ w s :=
  tbz_agrees w addr r hc h σ s ha hpc haddr

/-! ### integer loads and stores, immediate addressing modes -/

/-- `Mem[address, size]` of the specification (per-byte 64-bit address arithmetic, `BigEndian()`) returns the constant
    the IL load builds (`readBytes` + `constOfBytes` in the memory's endianness) -/
theorem mem_read_agrees (s : A64.St) (σ : State) (hm : σ.mem = s.mem)
    (he : σ.endian = if s.big then Endian.big else Endian.little)
    (a : BitVec 64) (k : Nat) (hw : a.toNat + k ≤ 2 ^ 64) (data : BitVec (8 * k))
    (h : A64.memRead s a k = some data) :
    ∃ bs, σ.mem.readBytes a.toNat k = some bs ∧ constOfBytes σ.endian bs = ofBV data :=
  memRead_bytes s σ hm he a k hw data h

/-- `Mem[address, size] = value` of the specification leaves the memory the IL store leaves
    (`ByteMem.write` of `bytesOf` in the memory's endianness), LE and BE -/
theorem mem_write_agrees (s : A64.St) (a : BitVec 64) (k : Nat) (val : BitVec (8 * k)) (s' : A64.St)
    (hw : a.toNat + k ≤ 2 ^ 64) (h : A64.memWrite s a k val = some s') :
    s' = { s with mem := s.mem.write a.toNat (bytesOf (if s.big then Endian.big else Endian.little) (ofBV val)) } :=
  memWrite_mem s a k val s' hw h

/-- LDR/LDRB/LDRH/LDRSB/LDRSH/LDRSW (integer), immediate forms (`ImmForm w`: unsigned offset, unscaled, post-index,
    pre-index): for every word of the class that decodes to a load, every state in which the pseudocode completes
    (`hs`) and the access `[immAddr w s, +2^size)` does not wrap: the lifted block ends in a state holding `s'` at `s'.pc` -/
theorem lift_correct_ldrImm (w : BitVec 32) (addr : Nat) (r : BTR) (hc : fld w 29 27 = 0b111) (h25 : bit w 25 = false)
    (h26 : bit w 26 = false) (himm : ImmForm w) (sg : Bool) (rs : Nat)
    (hdec : A64.decodeSizeOpc (fld w 31 30) (fld w 23 22) = some (.load, sg, rs))
    (h : lift w addr = some r) (σ : State) (s : A64.St) (ha : Abs σ s)
    (hpc : s.pc = BitVec.ofNat 64 addr) (haddr : addr + 4 < 2 ^ 64)
    (s' : A64.St) (hs : A64.step w s = .ok s')
    (hnowrap : (immAddr w s).toNat + 1 <<< fld w 31 30 ≤ 2 ^ 64) :
    ∃ σ', runBTR r σ = .next σ' [s'.pc.toNat] ∧ Abs σ' s' :=
  ldrImm_agrees w addr r hc h25 h26 himm sg rs hdec h σ s ha hpc haddr s' hs hnowrap

/-- STR/STRB/STRH (integer), immediate forms: memory after the IL store is the pseudocode's `Mem[]` write (LE and BE),
    registers and NZCV are unchanged except the write-back of the base -/
theorem lift_correct_strImm (w : BitVec 32) (addr : Nat) (r : BTR) (hc : fld w 29 27 = 0b111) (h25 : bit w 25 = false)
    (h26 : bit w 26 = false) (himm : ImmForm w) (sg : Bool) (rs : Nat)
    (hdec : A64.decodeSizeOpc (fld w 31 30) (fld w 23 22) = some (.store, sg, rs))
    (h : lift w addr = some r) (σ : State) (s : A64.St) (ha : Abs σ s)
    (hpc : s.pc = BitVec.ofNat 64 addr) (haddr : addr + 4 < 2 ^ 64)
    (s' : A64.St) (hs : A64.step w s = .ok s')
    (hnowrap : (immAddr w s).toNat + 1 <<< fld w 31 30 ≤ 2 ^ 64) :
    ∃ σ', runBTR r σ = .next σ' [s'.pc.toNat] ∧ Abs σ' s' :=
  strImm_agrees w addr r hc h25 h26 himm sg rs hdec h σ s ha hpc haddr s' hs hnowrap

/-- LDR/LDRB/LDRH/LDRSB/LDRSH/LDRSW with a register offset (`RegForm w`: option ∈ {UXTW, LSL, SXTW, SXTX}, S = 0/1) -/
theorem lift_correct_ldrReg (w : BitVec 32) (addr : Nat) (r : BTR) (hc : fld w 29 27 = 0b111) (h25 : bit w 25 = false)
    (h26 : bit w 26 = false) (hreg : RegForm w) (sg : Bool) (rs : Nat)
    (hdec : A64.decodeSizeOpc (fld w 31 30) (fld w 23 22) = some (.load, sg, rs))
    (h : lift w addr = some r) (σ : State) (s : A64.St) (ha : Abs σ s)
    (hpc : s.pc = BitVec.ofNat 64 addr) (haddr : addr + 4 < 2 ^ 64)
    (s' : A64.St) (hs : A64.step w s = .ok s')
    (hnowrap : (A64.XSP s (fld w 9 5) 64 + regOff w s).toNat + 1 <<< fld w 31 30 ≤ 2 ^ 64) :
    ∃ σ', runBTR r σ = .next σ' [s'.pc.toNat] ∧ Abs σ' s' :=
  ldrReg_agrees w addr r hc h25 h26 hreg sg rs hdec h σ s ha hpc haddr s' hs hnowrap

/-- STR/STRB/STRH with a register offset -/
theorem lift_correct_strReg (w : BitVec 32) (addr : Nat) (r : BTR) (hc : fld w 29 27 = 0b111) (h25 : bit w 25 = false)
    (h26 : bit w 26 = false) (hreg : RegForm w) (sg : Bool) (rs : Nat)
    (hdec : A64.decodeSizeOpc (fld w 31 30) (fld w 23 22) = some (.store, sg, rs))
    (h : lift w addr = some r) (σ : State) (s : A64.St) (ha : Abs σ s)
    (hpc : s.pc = BitVec.ofNat 64 addr) (haddr : addr + 4 < 2 ^ 64)
    (s' : A64.St) (hs : A64.step w s = .ok s')
    (hnowrap : (A64.XSP s (fld w 9 5) 64 + regOff w s).toNat + 1 <<< fld w 31 30 ≤ 2 ^ 64) :
    ∃ σ', runBTR r σ = .next σ' [s'.pc.toNat] ∧ Abs σ' s' :=
  strReg_agrees w addr r hc h25 h26 hreg sg rs hdec h σ s ha hpc haddr s' hs hnowrap

/-- LDR Wt/Xt (literal), LDRSW (literal), PRFM (literal): `opc 011 0 00 imm19 Rt`, address `PC + SignExtend(imm19:00)` -/
theorem lift_correct_ldrLiteral (w : BitVec 32) (addr : Nat) (r : BTR) (hc : fld w 29 27 = 0b011)
    (h24 : fld w 25 24 = 0) (h26 : fld w 26 26 = 0) (h : lift w addr = some r) (σ : State) (s : A64.St) (ha : Abs σ s)
    (hpc : s.pc = BitVec.ofNat 64 addr) (haddr : addr + 4 < 2 ^ 64)
    (s' : A64.St) (hs : A64.step w s = .ok s') (hnowrap : (litAddr w s).toNat + 8 ≤ 2 ^ 64) :
    ∃ σ', runBTR r σ = .next σ' [s'.pc.toNat] ∧ Abs σ' s' :=
  ldLiteral_agrees w addr r hc h24 h26 h σ s ha hpc haddr s' hs hnowrap

/-- LDP/STP/LDPSW/LDNP/STNP (integer), `opc 101 0 mode L imm7 Rt2 Rn Rt` with `PairOK w` (not STGP / unallocated opc):
    both elements, their order in memory, sign extension of LDPSW, write-back of Xn|SP; the CONSTRAINED UNPREDICTABLE
    encodings (write-back with Rn ∈ {Rt, Rt2}, Rn ≠ 31; load with Rt = Rt2) are excluded by `hs` -/
theorem lift_correct_ldpStp (w : BitVec 32) (addr : Nat) (r : BTR) (hc : fld w 29 27 = 0b101) (h25 : fld w 25 25 = 0)
    (h26 : fld w 26 26 = 0) (hok : PairOK w)
    (h : lift w addr = some r) (σ : State) (s : A64.St) (ha : Abs σ s)
    (hpc : s.pc = BitVec.ofNat 64 addr) (haddr : addr + 4 < 2 ^ 64)
    (s' : A64.St) (hs : A64.step w s = .ok s')
    (hnowrap : (pairAddr w s).toNat + 2 * (1 <<< (2 + fld w 31 30 / 2)) ≤ 2 ^ 64) :
    ∃ σ', runBTR r σ = .next σ' [s'.pc.toNat] ∧ Abs σ' s' :=
  ldpStp_agrees w addr r hc h25 h26 hok h σ s ha hpc haddr s' hs hnowrap

/-- LDAR/LDLAR/STLR/STLLR and their B/H forms (`size 001000 1 L 0 11111 o0 11111 Rn Rt`) as plain accesses at [Xn|SP];
    `hs` excludes unaligned addresses (Alignment fault) and should-be-one violations -/
theorem lift_correct_ldar_stlr (w : BitVec 32) (addr : Nat) (r : BTR) (hc : fld w 29 24 = 0b001000)
    (h : lift w addr = some r) (σ : State) (s : A64.St) (ha : Abs σ s)
    (hpc : s.pc = BitVec.ofNat 64 addr) (haddr : addr + 4 < 2 ^ 64)
    (s' : A64.St) (hs : A64.step w s = .ok s')
    (hnowrap : (A64.XSP s (fld w 9 5) 64).toNat + 1 <<< fld w 31 30 ≤ 2 ^ 64) :
    ∃ σ', runBTR r σ = .next σ' [s'.pc.toNat] ∧ Abs σ' s' :=
  ldstOrdered_agrees w addr r hc h σ s ha hpc haddr s' hs hnowrap

/-- STLUR/STLURB/STLURH (`size 011001 00 0 imm9 00 Rn Rt`) as plain stores at [Xn|SP + simm9] -/
theorem lift_correct_stlur (w : BitVec 32) (addr : Nat) (r : BTR) (hc : fld w 29 24 = 0b011001)
    (h : lift w addr = some r) (σ : State) (s : A64.St) (ha : Abs σ s)
    (hpc : s.pc = BitVec.ofNat 64 addr) (haddr : addr + 4 < 2 ^ 64)
    (s' : A64.St) (hs : A64.step w s = .ok s')
    (hnowrap : (A64.XSP s (fld w 9 5) 64 + A64.sext64 (fld w 20 12) 9 0).toNat + 1 <<< fld w 31 30 ≤ 2 ^ 64) :
    ∃ σ', runBTR r σ = .next σ' [s'.pc.toNat] ∧ Abs σ' s' :=
  stlur_agrees w addr r hc h σ s ha hpc haddr s' hs hnowrap

/-- PRFM (unsigned offset) and PRFUM: lifted as `nop`; `Prefetch()` changes no architectural state -/
theorem lift_correct_prfmImm (w : BitVec 32) (addr : Nat) (r : BTR) (hc : fld w 29 27 = 0b111) (h25 : bit w 25 = false)
    (h26 : bit w 26 = false) (himm : ImmForm w) (sg : Bool) (rs : Nat)
    (hdec : A64.decodeSizeOpc (fld w 31 30) (fld w 23 22) = some (.prefetch, sg, rs))
    (h : lift w addr = some r) (σ : State) (s : A64.St) (ha : Abs σ s)
    (hpc : s.pc = BitVec.ofNat 64 addr) (haddr : addr + 4 < 2 ^ 64) : Agrees r σ w s :=
  prfmImm_agrees w addr r hc h25 h26 himm sg rs hdec h σ s ha hpc haddr

/-- PRFM (register offset) -/
theorem lift_correct_prfmReg (w : BitVec 32) (addr : Nat) (r : BTR) (hc : fld w 29 27 = 0b111) (h25 : bit w 25 = false)
    (h26 : bit w 26 = false) (hreg : RegForm w) (sg : Bool) (rs : Nat)
    (hdec : A64.decodeSizeOpc (fld w 31 30) (fld w 23 22) = some (.prefetch, sg, rs))
    (h : lift w addr = some r) (σ : State) (s : A64.St) (ha : Abs σ s)
    (hpc : s.pc = BitVec.ofNat 64 addr) (haddr : addr + 4 < 2 ^ 64) : Agrees r σ w s :=
  prfmReg_agrees w addr r hc h25 h26 hreg sg rs hdec h σ s ha hpc haddr

/-! ### non-vacuity -/

/-- `add x0, x1, #1` (0x91000420) is in the add/sub-immediate class and the mirror lifts it -/
example : fld (0x91000420#32) 28 23 = 0b100010 := by decide
example : ∃ r, lift (0x91000420#32) 0x1000 = some r := ⟨_, rfl⟩
/-- `adds w3, w3, w3, lsl #1` (destination = both sources: the case repaired by 78c87ba) -/
example : fld (0x2b030463#32) 28 24 = 0b01011 ∧ bit (0x2b030463#32) 21 = false := by decide
example : ∃ r, lift (0x2b030463#32) 0x1000 = some r := ⟨_, rfl⟩
/-- `blr x30` (0xd63f03c0) -/
example : fld (0xd63f03c0#32) 31 25 = 0b1101011 := by decide
example : ∃ r, lift (0xd63f03c0#32) 0x1000 = some r := ⟨_, rfl⟩
/-- `ldr x0, [x1, #8]!` (0xf8408c20) is an immediate-form load, `str w0, [sp, #4]` (0xb90007e0) an immediate-form store -/
example : fld (0xf8408c20#32) 29 27 = 0b111 ∧ bit (0xf8408c20#32) 25 = false ∧ bit (0xf8408c20#32) 26 = false ∧
    ImmForm (0xf8408c20#32) ∧ A64.decodeSizeOpc (fld (0xf8408c20#32) 31 30) (fld (0xf8408c20#32) 23 22) = some (.load, false, 64) := by
  refine ⟨by decide, by decide, by decide, Or.inr ⟨by decide, by decide, by decide⟩, by decide⟩
example : ∃ r, lift (0xf8408c20#32) 0x1000 = some r := ⟨_, rfl⟩
example : A64.decodeSizeOpc (fld (0xb90007e0#32) 31 30) (fld (0xb90007e0#32) 23 22) = some (.store, false, 32) := by decide
example : ∃ r, lift (0xb90007e0#32) 0x1000 = some r := ⟨_, rfl⟩
/-- `b.hi` (0x54000048), `tbnz x4, #63` (0xb7f80044), `add x0, sp, w2, sxtw #2` (0x8b22cbe0), a `mov x0, #bitmask` (0xb208e3e0) -/
example : ∃ r, lift (0x54000048#32) 0x1000 = some r := ⟨_, rfl⟩
example : ∃ r, lift (0xb7f80044#32) 0x1000 = some r := ⟨_, rfl⟩
example : ∃ r, lift (0x8b22cbe0#32) 0x1000 = some r := ⟨_, rfl⟩
example : (lift (0xb208e3e0#32) 0x1000).isSome = true := by decide
/-- `ldp x0, x1, [sp], #16` (0xa8c107e0), `stp w0, w1, [x2, #-8]!` (0x29bf0440), `ldr x0, [x1, w2, sxtw #3]` (0xf862d820),
    `ldr x0, <label>` (0x58000040), `ldarb w0, [x1]` (0x08dffc20), `stlur x0, [x1, #8]` (0xd9008020) -/
example : fld (0xa8c107e0#32) 29 27 = 0b101 ∧ fld (0xa8c107e0#32) 25 25 = 0 ∧ fld (0xa8c107e0#32) 26 26 = 0 := by decide
example : PairOK (0xa8c107e0#32) := by
  refine ⟨by decide, ?_⟩; intro h; revert h; decide
example : ∃ r, lift (0xa8c107e0#32) 0x1000 = some r := ⟨_, rfl⟩
example : ∃ r, lift (0x29bf0440#32) 0x1000 = some r := ⟨_, rfl⟩
example : RegForm (0xf862d820#32) := ⟨by decide, by decide, by decide, by decide⟩
example : ∃ r, lift (0xf862d820#32) 0x1000 = some r := ⟨_, rfl⟩
example : ∃ r, lift (0x58000040#32) 0x1000 = some r := ⟨_, rfl⟩
example : fld (0x08dffc20#32) 29 24 = 0b001000 := by decide
example : ∃ r, lift (0x08dffc20#32) 0x1000 = some r := ⟨_, rfl⟩
example : ∃ r, lift (0xd9008020#32) 0x1000 = some r := ⟨_, rfl⟩
/-- the specification is not degenerate: `subs x0, x1, x2` with x1 = 1, x2 = 2 clears C (a borrow happened) … -/
example : (A64.addWithCarry (1#64) (~~~(2#64)) true).2.2.2.1 = false := by decide
/-- … and with x1 = 2, x2 = 1 sets it -/
example : (A64.addWithCarry (2#64) (~~~(1#64)) true).2.2.2.1 = true := by decide

end Falcon.C03
