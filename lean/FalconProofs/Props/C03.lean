/-
  Props.C03 — the AArch64 lifter agrees with the Arm architecture pseudocode.

  Specification : FalconModel/Isa/A64.lean   (`A64.step`: interpreter on the RAW word, written from the Arm ARM
                                              pseudocode: AddWithCarry, ShiftReg, ExtendReg, DecodeBitMasks, Mem[] …)
  Mirror        : FalconModel/Isa/A64Lift.lean (`A64Lift.lift w addr`: the `BlockTranslationResult` falcon's lifter
                                              emits for the word — compared SYNTACTICALLY with falcon's dumped IL on
                                              every case of the differential, `MIRROR-SAME`/`MIRROR-DIFF`)
  IL semantics  : FalconModel/Lift.lean `runBTR` over FalconModel/Exec.lean (C07/C08 tie it to falcon's executor)
  `Abs σ s`     : the IL state σ holds the A64 state s (x0…x30, sp, n, z, c, v under the lifter's scalar names, the
                  same byte memory and data endianness; temporaries and the junk scalar `xzr` are unconstrained)
  `Agrees r σ w s`: running the lifted block r from σ ends at the successor / branch target s'.pc in a state σ'
                  with `Abs σ' s'`, where `A64.step w s = .ok s'`.

  COVERAGE (LIFTER_BRIEF "the proof part"):
  (A) mirror + theorem, universal over ALL words of the class, ALL addresses < 2^64 - 4 and ALL states:
        add/sub (immediate) incl. MOV (to/from SP)          lift_correct_addSubImm     [adds: all of NZCV]
        add/sub (shifted register: lsl/lsr/asr, 32/64 bit)  lift_correct_addSubShift   [adds: all of NZCV]
        subs (both forms): result, N, Z, V agree; the IL's `c` is proved to be the NEGATION of the architectural
            carry (`AgreesBorrow`) — this is the recorded finding C03/*/addsub_*/*op1_S1*/c, not a gap of the proof
        mov (register), mov (wide / inverted wide immediate), nop
                                                             lift_correct_movReg / movWide / nop
        b, bl                                                lift_correct_b_bl
        br, blr, ret                                         lift_correct_br_blr_ret
  (A-partial) integer loads with immediate addressing (ldr/ldrb/ldrh/ldrsb/ldrsh/ldrsw; unsigned offset, unscaled,
        post-index, pre-index; both endiannesses): `load_block_correct_partial` proves the emitted block shape against
        the pseudocode body `A64.ldstInt` for all registers/offsets/sizes/states that neither fault nor wrap; the glue
        "`lift w` of a word of the class IS that block, `A64.step w` IS that body" is checked by the differential
        (MIRROR-SAME on every case), not proved.   Full statement that is NOT proved:
          ∀ w of class ldst_uimm/ldst_imm9 (V=0, load), lift w addr = some r → A64.step w s = .ok s' → Agrees r σ w s.
  (C) differential only (`unproved_classes`): add/sub (extended register), mov (bitmask immediate), stores,
        register-offset and literal loads, pairs, load-acquire/store-release, STLUR, SIMD&FP loads/stores, prefetch,
        b.cond, cbz/cbnz, tbz/tbnz.  (b.cond/cbz/tbz are in the mirror and compared syntactically; no theorem.)
-/
import FalconProofs.C03.Load

namespace Falcon.C03
open Falcon Falcon.Const Falcon.A64Lift
open Falcon.A64 (fld bit)

/-! ### AddWithCarry against falcon's flag expressions (all widths 1 ≤ N ≤ 64, all operands) -/

/-- `adds`: the carry flag of `AddWithCarry` is falcon's `zext72(x + y) != zext72 x + zext72 y` -/
theorem adds_carry {N : Nat} (hN : N ≤ 64) (x y : BitVec N) :
    (A64.addWithCarry x y false).2.2.2.1 = ((x + y).zeroExtend 72 != x.zeroExtend 72 + y.zeroExtend 72) :=
  awc_c_add hN x y

/-- `adds`: the overflow flag of `AddWithCarry` is falcon's `sext72(x + y) != sext72 x + sext72 y` -/
theorem adds_overflow {N : Nat} (hN1 : 1 ≤ N) (hN : N ≤ 64) (x y : BitVec N) :
    (A64.addWithCarry x y false).2.2.2.2 = ((x + y).signExtend 72 != x.signExtend 72 + y.signExtend 72) :=
  awc_v_add hN1 hN x y

/-- `subs`: falcon's `c` expression is the BORROW, i.e. the negation of `AddWithCarry(x, NOT y, 1)`'s carry
    (the genuine defect recorded as finding `C03/*/addsub_*/*op1_S1*/c`) -/
theorem subs_carry_is_borrow {N : Nat} (hN : N ≤ 64) (x y : BitVec N) :
    ((x - y).zeroExtend 72 != x.zeroExtend 72 - y.zeroExtend 72) = !(A64.addWithCarry x (~~~y) true).2.2.2.1 :=
  (awc_c_sub hN x y).symm

theorem subs_overflow {N : Nat} (hN1 : 1 ≤ N) (hN : N ≤ 64) (x y : BitVec N) :
    (A64.addWithCarry x (~~~y) true).2.2.2.2 = ((x - y).signExtend 72 != x.signExtend 72 - y.signExtend 72) :=
  awc_v_sub hN1 hN x y

/-! ### (A) class theorems: all words of the class × all addresses × all states -/

/-- ADD/ADDS/SUB/SUBS (immediate), `sf op S 100010 sh imm12 Rn Rd`, incl. the `mov Rd|SP, Rn|SP` alias, register 31 =
    SP (base, and destination when S = 0) or discarded (S = 1), W destinations zero-extended, `lsl #12` -/
theorem lift_correct_addSubImm (w : BitVec 32) (addr : Nat) (r : BTR) (hc : fld w 28 23 = 0b100010)
    (h : lift w addr = some r) (σ : State) (s : A64.St) (ha : Abs σ s)
    (hpc : s.pc = BitVec.ofNat 64 addr) (haddr : addr + 4 < 2 ^ 64) :
    if bit w 30 = true ∧ bit w 29 = true then AgreesBorrow r σ w s else Agrees r σ w s :=
  addSubImm_agrees w addr r hc h σ s ha hpc haddr

/-- ADD/ADDS/SUB/SUBS (shifted register), `sf op S 01011 shift 0 Rm imm6 Rn Rd`, register 31 = XZR/WZR -/
theorem lift_correct_addSubShift (w : BitVec 32) (addr : Nat) (r : BTR) (hc : fld w 28 24 = 0b01011)
    (h21 : bit w 21 = false) (h : lift w addr = some r) (σ : State) (s : A64.St) (ha : Abs σ s)
    (hpc : s.pc = BitVec.ofNat 64 addr) (haddr : addr + 4 < 2 ^ 64) :
    if bit w 30 = true ∧ bit w 29 = true then AgreesBorrow r σ w s else Agrees r σ w s :=
  addSubShift_agrees w addr r hc h21 h σ s ha hpc haddr

/-- MOV (register): every word of the logical (shifted register) class the mirror accepts -/
theorem lift_correct_movReg (w : BitVec 32) (addr : Nat) (r : BTR) (hc : fld w 28 24 = 0b01010)
    (h : lift w addr = some r) (σ : State) (s : A64.St) (ha : Abs σ s)
    (hpc : s.pc = BitVec.ofNat 64 addr) (haddr : addr + 4 < 2 ^ 64) : Agrees r σ w s :=
  movReg_agrees w addr r hc h σ s ha hpc haddr

/-- MOV (wide immediate) and MOV (inverted wide immediate): every word of the move-wide class the mirror accepts -/
theorem lift_correct_movWide (w : BitVec 32) (addr : Nat) (r : BTR) (hc : fld w 28 23 = 0b100101)
    (h : lift w addr = some r) (σ : State) (s : A64.St) (ha : Abs σ s)
    (hpc : s.pc = BitVec.ofNat 64 addr) (haddr : addr + 4 < 2 ^ 64) : Agrees r σ w s :=
  movWide_agrees w addr r hc h σ s ha hpc haddr

theorem lift_correct_nop (addr : Nat) (σ : State) (s : A64.St) (ha : Abs σ s)
    (hpc : s.pc = BitVec.ofNat 64 addr) (haddr : addr + 4 < 2 ^ 64) :
    ∃ r, lift (0xd503201f#32) addr = some r ∧ Agrees r σ (0xd503201f#32) s :=
  nop_agrees addr σ s ha hpc haddr

/-- B and BL (`op 00101 imm26`): the successor / branch target is `PC + SignExtend(imm26:00)`; BL writes X30 = PC + 4 -/
theorem lift_correct_b_bl (w : BitVec 32) (addr : Nat) (r : BTR) (hc : fld w 30 26 = 0b00101)
    (h : lift w addr = some r) (σ : State) (s : A64.St) (ha : Abs σ s)
    (hpc : s.pc = BitVec.ofNat 64 addr) (haddr : addr + 4 < 2 ^ 64) : Agrees r σ w s :=
  bImm_agrees w addr r hc h σ s ha hpc haddr

/-- BR, BLR, RET (`1101011 opc 11111 000000 Rn 00000`): the target is X[n] (XZR for 31), read BEFORE BLR writes X30
    (holds since the repairs 7bf2ccf and c6a73a3) -/
theorem lift_correct_br_blr_ret (w : BitVec 32) (addr : Nat) (r : BTR) (hc : fld w 31 25 = 0b1101011)
    (h : lift w addr = some r) (σ : State) (s : A64.St) (ha : Abs σ s)
    (hpc : s.pc = BitVec.ofNat 64 addr) (haddr : addr + 4 < 2 ^ 64) : Agrees r σ w s :=
  brReg_agrees w addr r hc h σ s ha hpc haddr

/-! ### (A-partial) integer loads, immediate addressing modes -/

/-- `Mem[address, size]` of the specification (per-byte 64-bit address arithmetic, `BigEndian()`) returns the constant
    the IL load builds (`readBytes` + `constOfBytes` in the memory's endianness) -/
theorem mem_read_agrees (s : A64.St) (σ : State) (hm : σ.mem = s.mem)
    (he : σ.endian = if s.big then Endian.big else Endian.little)
    (a : BitVec 64) (k : Nat) (hw : a.toNat + k ≤ 2 ^ 64) (data : BitVec (8 * k))
    (h : A64.memRead s a k = some data) :
    ∃ bs, σ.mem.readBytes a.toNat k = some bs ∧ constOfBytes σ.endian bs = ofBV data :=
  memRead_bytes s σ hm he a k hw data h

/-- the block `load temp, [addr-expr]; Rt := (sign-)extended temp; (write-back)` against `A64.ldstInt … .load …`:
    mode 4 = unsigned offset, 0 = unscaled, 1 = post-index, 3 = pre-index; n = 31 is SP, t = 31 discards;
    CONSTRAINED UNPREDICTABLE (write-back with n = t ≠ 31) is excluded by `hs` (the body then is not `.ok`) -/
theorem load_block_correct_partial (σ : State) (s : A64.St) (ha : Abs σ s) (addr mode n t off sz regsize : Nat)
    (signed : Bool) (hk : sz = 1 ∨ sz = 2 ∨ sz = 4 ∨ sz = 8) (hreg : regsize = 32 ∨ regsize = 64)
    (hkr : 8 * sz ≤ regsize) (hsr : signed = true → 8 * sz < regsize)
    (hn : n < 32) (ht : t < 32) (hoff : off < 2 ^ 64) (hmode : mode = 0 ∨ mode = 1 ∨ mode = 3 ∨ mode = 4)
    (hpc : s.pc = BitVec.ofNat 64 addr) (haddr : addr + 4 < 2 ^ 64)
    (s' : A64.St)
    (hs : A64.ldstInt s .load signed sz regsize n t (BitVec.ofNat 64 off)
            (decide (mode = 1 ∨ mode = 3)) (decide (mode = 1)) = .ok s')
    (hnowrap : (if mode = 1 then A64.XSP s n 64 else A64.XSP s n 64 + BitVec.ofNat 64 off).toNat + sz ≤ 2 ^ 64) :
    ∃ σ', runBTR (straight addr
        ([.load (temp addr (8 * sz)) (memOperand mode n off).1,
          setZ (if signed = true then regsize else 8 * sz) t
            (if signed = true then Expr.ext .sext regsize (.scalar (temp addr (8 * sz))) else .scalar (temp addr (8 * sz)))]
         ++ (memOperand mode n off).2)) σ = .next σ' [s'.pc.toNat] ∧ Abs σ' s' :=
  load_block_agrees σ s ha addr mode n t off sz regsize signed hk hreg hkr hsr hn ht hoff hmode hpc haddr s' hs hnowrap

/-! ### non-vacuity -/

/-- `add x0, x1, #1` (0x91000420) is in the add/sub-immediate class and the mirror lifts it -/
example : fld (0x91000420#32) 28 23 = 0b100010 := by decide
example : ∃ r, lift (0x91000420#32) 0x1000 = some r := ⟨_, rfl⟩
/-- `adds w3, w3, w3, lsl #1` (destination = both sources: the case repaired by 78c87ba) -/
example : fld (0x2b030463#32) 28 24 = 0b01011 ∧ bit (0x2b030463#32) 21 = false := by decide
example : ∃ r, lift (0x2b030463#32) 0x1000 = some r := ⟨_, rfl⟩
/-- `blr x30` (0xd63f03c0) -/
example : fld (0xd63f03c0#32) 31 25 = 0b1101011 := by decide
example : ∃ r, lift (0xd63f03c0#32) 0x1000 = some r := ⟨_, rfl⟩
/-- the specification is not degenerate: `subs x0, x1, x2` with x1 = 1, x2 = 2 clears C (a borrow happened) … -/
example : (A64.addWithCarry (1#64) (~~~(2#64)) true).2.2.2.1 = false := by decide
/-- … and with x1 = 2, x2 = 1 sets it -/
example : (A64.addWithCarry (2#64) (~~~(1#64)) true).2.2.2.1 = true := by decide

end Falcon.C03
