/-
  Property C17 — stack-pointer offsets hold on every execution, for every architecture.

  Pattern P3 (verified checker).  `spoCheck strict sp f R` (FalconModel/SpoCert.lean) is run by the driver on the map
  that falcon's real `analysis::stack_pointer_offsets::stack_pointer_offsets(&function, &architecture)` returned,
  `sp` and `w` being the name and the width of that architecture's stack pointer.  The theorems below say what
  acceptance means, for EVERY function, EVERY width `w`, EVERY reported map, EVERY initial state and EVERY run of
  the function-level small-step relation `FStep` (FalconModel/Exec.lean) from the function's entry, of any length:

    linear_sound        the checker's linear form: `linear sp w e = (coef, c)` ⇒ wherever `sp = s`, `e` evaluates to
                        `s * coef + c` modulo `2^w`;
    xfer_sound          the checker's abstract step over-approximates every operation that executes;
    spoCheck_sound      immediately after ANY location `l` executes on ANY run, the map has an entry for `l`, and if
                        it is a number `k` then the stack pointer holds `s₀ + k` (in `BitVec w`, i.e. modulo `2^w`),
                        `s₀` being the stack pointer at function entry;
    isize_congruent     falcon's `value_u64() as isize`, read back modulo `2^w`, is the offset constant, and is
                        congruent modulo `2^w` to its signed reading at width `w`;
    spoCheck_sound_isize  the same as `spoCheck_sound` for the reported `isize` numbers: `sp ≡ s₀ + i (mod 2^w)`.

  Runs end at `Operation::Branch` and at intrinsics (the executor leaves the function / has no semantics for
  them) — `branch_ends_run`, `intrinsic_ends_run`; claims at locations behind them are vacuous.
-/
import FalconProofs.C17.Inv
import FalconProofs.C17.Isize

namespace Falcon.C17
open Falcon Falcon.SpoCert Falcon.Const

-- ------------------------------------------------------------------ runs

/-- an `Operation::Branch` ends the run inside the function (no `FStep` executes it) -/
theorem branch_ends_run (σ σ' : State) (t : Expr) : execute σ (.branch t) ≠ .ok (σ', .fallThrough) :=
  branch_no_fallthrough σ σ' t

/-- an intrinsic ends the run (the executor answers `UnhandledIntrinsic`) -/
theorem intrinsic_ends_run (σ σ' : State) (i : Intrinsic) : execute σ (.intrinsic i) ≠ .ok (σ', .fallThrough) :=
  intrinsic_no_fallthrough σ σ' i

/-- every step of every run executes a location (`Executed` restricts nothing): the location of the instruction
    that ran, or of the edge that was taken, with the state the step produced -/
theorem executed_of_step {f : Function} {c0 b c : Config} (hrun : FRun f c0 b) (hs : FStep f b c) :
    ∃ l, Executed f c0 l c.state := by
  cases hs with
  | @instr bk i _ σ' hb hi hex => exact ⟨_, Executed.instr (b := b) hrun hb hi hex⟩
  | @edge bk e _ hb hpos he hg => exact ⟨_, Executed.edge (b := b) hrun hb hpos he hg⟩

-- ------------------------------------------------------------------ the property

/-- **The linear form.**  If `linear sp w e = some (coef, c)`, then in every state where `sp` holds the `w`-bit
    value `s`, whenever the executor's `symbolize_and_eval` evaluates `e` at all, the result is the `w`-bit constant
    `s * coef + c`, computed in `BitVec w` (modulo `2^w`). -/
theorem linear_sound (sp : String) (w : Nat) (σ : State) (s : BitVec w) (hs : σ.get sp = some (ofBV s))
    (e : Expr) (coef c : BitVec w) (v : Const) (hl : linear sp w e = some (coef, c)) (hev : σ.evalIn e = .ok v) :
    v = ofBV (s * coef + c) :=
  linear_sound_aux sp w σ s hs e (coef, c) v hl hev

/-- **Soundness of the abstract step**, for every operation: if an abstract offset describes the state before an
    operation that executes and falls through, the checker's abstract successor describes the state after it. -/
theorem xfer_sound {strict : Bool} {sp : String} {w : Nat} {s0 : BitVec w} {σ σ' : State} {a : AOff w}
    (h : Holds sp s0 σ a) (op : Op) (hex : execute σ op = .ok (σ', .fallThrough)) :
    Holds sp s0 σ' (xfer strict sp w (some op) a) :=
  xfer_sound_op h op hex

/-- **C17, the reported offsets.**  If the checker accepts the map `R` for `f` (stack pointer `sp`, of width `w`),
    then for every initial state in which `sp` holds the `w`-bit value `s0`, on every run from the entry of `f` (any
    length), immediately after any location `l` executes: `R` has an entry for `l`, and if the entry is a number
    `k`, the stack pointer holds exactly `s0 + k` — addition of `BitVec w`, i.e. modulo `2^w`. -/
theorem spoCheck_sound (strict : Bool) (sp : String) {w : Nat} (f : Function) (R : Report w)
    (hc : spoCheck strict sp f R = true) {σ0 : State} {c0 : Config} (h0 : f.initial σ0 = some c0)
    {s0 : BitVec w} (hs : σ0.get sp = some (ofBV s0)) {l : Loc} {σ : State} (hl : Executed f c0 l σ) :
    ∃ a, R l = some a ∧ ∀ k, a = .value k → σ.get sp = some (ofBV (s0 + k)) := by
  have key := executed_holds hc h0 hs hl
  obtain ⟨a, hR, hH⟩ := key
  refine ⟨a, hR, ?_⟩
  intro k hk
  subst hk
  exact hH

/-- a reported `bottom` is a claim that no run executes the location -/
theorem spoCheck_bottom (strict : Bool) (sp : String) {w : Nat} (f : Function) (R : Report w)
    (hc : spoCheck strict sp f R = true) {σ0 : State} {c0 : Config} (h0 : f.initial σ0 = some c0)
    {s0 : BitVec w} (hs : σ0.get sp = some (ofBV s0)) {l : Loc} {σ : State} (hl : Executed f c0 l σ) :
    R l ≠ some .bottom := by
  intro hR
  have key := executed_holds hc h0 hs hl
  obtain ⟨a, hR', hH⟩ := key
  rw [hR] at hR'
  cases hR'
  exact hH

/-- **falcon's conversion to `isize`.**  For a stack pointer of width `w ≤ 64` and an offset constant `x` (falcon's
    `IntermediateOffset::Value`), `value_u64()` succeeds, and the reported `x.value_u64() as isize`
    (i) read back at width `w` is `x` itself, and (ii) is congruent modulo `2^w` to the signed reading of `x` at
    width `w` ("interpreted as a signed quantity of the stack pointer's width"). -/
theorem isize_congruent {w : Nat} (hw : w ≤ 64) (x : BitVec w) :
    reportedIsize (ofBV x) = some (asIsize x.toNat) ∧
    ofReported w (asIsize x.toNat) = x ∧
    asIsize x.toNat % (2 : Int) ^ w = x.toInt % (2 : Int) ^ w := by
  refine ⟨?_, ofReported_asIsize hw x, (toInt_congr hw x).symm⟩
  have h1 : x.toNat < 2 ^ w := x.isLt
  have h2 : 2 ^ w ≤ 2 ^ 64 := Nat.pow_le_pow_right (by omega) hw
  have h3 : x.toNat < 2 ^ 64 := Nat.lt_of_lt_of_le h1 h2
  unfold reportedIsize
  exact if_pos h3

/-- **C17 for the numbers falcon prints.**  `Ri` is the reported map with `isize` numbers; the check reads each
    number modulo `2^w` (`ofReported`).  If it accepts, then after any location `l` executes on any run from the
    entry, a reported number `i` means: the stack pointer is a `w`-bit constant whose value is congruent to
    `s0 + i` modulo `2^w`. -/
theorem spoCheck_sound_isize (strict : Bool) (sp : String) {w : Nat} (f : Function) (Ri : Loc → Option (Option Int))
    (hc : spoCheck strict sp f (fun l => (Ri l).map (fun o => match o with
        | some i => AOff.value (ofReported w i)
        | none => AOff.top)) = true)
    {σ0 : State} {c0 : Config} (h0 : f.initial σ0 = some c0)
    {s0 : BitVec w} (hs : σ0.get sp = some (ofBV s0)) {l : Loc} {σ : State} (hl : Executed f c0 l σ)
    {i : Int} (hi : Ri l = some (some i)) :
    ∃ v, σ.get sp = some ⟨w, v⟩ ∧ (v : Int) % (2 : Int) ^ w = ((s0.toNat : Int) + i) % (2 : Int) ^ w := by
  obtain ⟨a, hR, hk⟩ := spoCheck_sound strict sp f _ hc h0 hs hl
  simp only [hi, Option.map_some, Option.some.injEq] at hR
  have := hk (ofReported w i) hR.symm
  refine ⟨(s0 + ofReported w i).toNat, this, ?_⟩
  exact toNat_add_ofInt s0 i

-- ------------------------------------------------------------------ non-vacuity

section Examples

private def esp : Scalar := ⟨"esp", 32, none⟩
private def eax : Scalar := ⟨"eax", 32, none⟩
private def c32 (v : Nat) : Expr := .const ⟨32, v⟩

private def ins0 : Instr := ⟨0, none, .assign esp (.bin .sub (.scalar esp) (c32 4))⟩

private def blk0 : Block :=
  { index := 0, instrs := [
      ins0,
      ⟨1, none, .store (.scalar esp) (.scalar eax)⟩,
      ⟨2, none, .load eax (.scalar esp)⟩,
      ⟨3, none, .assign esp (.bin .add (.scalar esp) (c32 4))⟩] }

/-- `push eax; pop eax` as the x86 lifter writes it, then an edge to an empty exit block -/
private def pushPop : Function :=
  { addr := 0x1000,
    cfg := { blocks := [blk0, { index := 1 }], edges := [⟨0, 1, none⟩], entry := some 0 } }

private def pushPopR : Report 32 := fun l =>
  match l with
  | .instr 0 0 => some (.value (-4))
  | .instr 0 1 => some (.value (-4))
  | .instr 0 2 => some (.value (-4))
  | .instr 0 3 => some (.value 0)
  | .edge 0 1 => some (.value 0)
  | .empty 1 => some (.value 0)
  | _ => none

/-- the checker accepts the offsets `-4, -4, -4, 0, 0, 0` for push/pop (both modes) -/
example : spoCheck false "esp" pushPop pushPopR = true := by decide
example : spoCheck true "esp" pushPop pushPopR = true := by decide

/-- … and rejects a map that claims `+4` after the push -/
example : spoCheck false "esp" pushPop
    (fun l => if l = .instr 0 0 then some (.value 4) else pushPopR l) = false := by decide

/-- `esp := esp & 0xfffffff0` has no linear form: reporting the number 0 after it is rejected, `top` is accepted -/
private def alignFn : Function :=
  { addr := 0x1000,
    cfg := {
      blocks := [{ index := 0, instrs := [⟨0, none, .assign esp (.bin .and (.scalar esp) (c32 0xfffffff0))⟩] }],
      entry := some 0 } }

example : linear "esp" 32 (.bin .and (.scalar esp) (c32 0xfffffff0)) = none := by decide
example : spoCheck (w := 32) false "esp" alignFn (fun l => if l = .instr 0 0 then some (.value 0) else none) = false := by
  decide
example : spoCheck (w := 32) false "esp" alignFn (fun l => if l = .instr 0 0 then some .top else none) = true := by decide

/-- the linear form sees through nesting: `(esp - 8) + (2 * 6)` is `esp + 4` -/
example : linear "esp" 32 (.bin .add (.bin .sub (.scalar esp) (c32 8)) (.bin .mul (c32 2) (c32 6)))
    = some (1, 4) := by decide

/-- a run exists and executes a location: from any state with `esp` set, the first instruction of `pushPop`
    executes (so the hypotheses of `spoCheck_sound` are met by a concrete, non-trivial instance), and the theorem
    then gives `esp = s0 - 4` after it. -/
example (s0 : BitVec 32) :
    let σ0 : State := { scalars := [("esp", ofBV s0)] }
    ∃ σ, Executed pushPop ⟨0, 0, σ0⟩ (.instr 0 0) σ ∧ σ.get "esp" = some (ofBV (s0 + (-4))) := by
  intro σ0
  have hs : σ0.get "esp" = some (ofBV s0) := rfl
  have h0 : pushPop.initial σ0 = some ⟨0, 0, σ0⟩ := rfl
  have h4 : (⟨32, 4⟩ : Const) = ofBV (4#32) := by decide
  -- the instruction evaluates: `esp - 4` in a state where `esp` is a 32-bit constant
  have hv : σ0.evalIn (.bin .sub (.scalar esp) (c32 4)) = .ok (ofBV (s0 - 4#32)) := by
    have hsym : σ0.symbolize (.bin .sub (.scalar esp) (c32 4))
        = .ok (.bin .sub (.const (ofBV s0)) (.const ⟨32, 4⟩)) := by
      simp [State.symbolize, esp, c32, hs, Expr.mkBin, Expr.bits]
    simp only [State.evalIn, hsym, Res.bind_ok, Expr.eval, BinOp.apply]
    rw [h4, sub_ofBV]
  have hex : execute σ0 ins0.op = .ok (σ0.set "esp" (ofBV (s0 - 4#32)), .fallThrough) := by
    show (do let v ← σ0.evalIn (.bin .sub (.scalar esp) (c32 4)); Res.ok (σ0.set esp.name v, Succ.fallThrough)) = _
    rw [hv]; rfl
  have hE : Executed pushPop ⟨0, 0, σ0⟩ (.instr 0 0) (σ0.set "esp" (ofBV (s0 - 4#32))) :=
    Executed.instr (b := ⟨0, 0, σ0⟩) (bk := blk0) (i := ins0) (.refl _)
      (show pushPop.block 0 = some blk0 by decide) (show blk0.instrs[0]? = some ins0 by decide) hex
  refine ⟨_, hE, ?_⟩
  obtain ⟨a, hR, hk⟩ := spoCheck_sound false "esp" pushPop pushPopR (by decide) h0 hs hE
  have : a = .value (-4) := by
    have : pushPopR (.instr 0 0) = some (.value (-4)) := rfl
    rw [this] at hR; cases hR; rfl
  exact hk _ this

/-- the reported `isize` of the 32-bit offset `-4` is `4294967292`; read back at width 32 it is `-4` -/
example : reportedIsize (ofBV (-4 : BitVec 32)) = some 4294967292 := by decide
example : ofReported 32 4294967292 = (-4 : BitVec 32) := by decide
/-- … and of the 64-bit offset `-8` it is `-8` -/
example : reportedIsize (ofBV (-8 : BitVec 64)) = some (-8) := by decide

end Examples

end Falcon.C17

open Falcon.C17 in
#print axioms linear_sound
open Falcon.C17 in
#print axioms xfer_sound
open Falcon.C17 in
#print axioms spoCheck_sound
open Falcon.C17 in
#print axioms spoCheck_bottom
open Falcon.C17 in
#print axioms isize_congruent
open Falcon.C17 in
#print axioms spoCheck_sound_isize
open Falcon.C17 in
#print axioms executed_of_step
open Falcon.C17 in
#print axioms branch_ends_run
open Falcon.C17 in
#print axioms intrinsic_ends_run
