/-
  Props.C06Asm — the assembly algorithm of `Translator::translate_function_extended` (model:
  FalconModel/Assemble.lean, on top of the C15 model of `ControlFlowGraph::{insert, unconditional_edge,
  conditional_edge, set_entry, merge}`), for ALL lists of translation results, manual edges and function addresses.
  The tie to the code is the exact comparison of `assemble ∘ discover` with falcon's recovered function on every
  generated program (lean/Drivers/C06.lean, verdict `asm-mismatch`).

  Hypothesis `GraphsWF tb`: every instruction graph of every translation result satisfies C15's `WF` (the
  translators build them through the `ControlFlowGraph` API: `C15.ops_wf`).
-/
import FalconProofs.C06.AsmEntry
import FalconProofs.C06.AsmNoPanic
import FalconProofs.C06.Refines
import FalconProofs.C06.GuardOr
import FalconProofs.C06.Merged

namespace Falcon.C06Asm
open Falcon Falcon.CfgEdit Falcon.Assemble Falcon.C15

/-- **asm_wf** — whenever the assembly returns a function, its graph is well formed: block indices and edge keys
    unique, every edge joins existing blocks, instruction indices unique per block, entry and exit name existing
    blocks. -/
theorem asm_wf {tb : List (Nat × BTR)} {manual : List ManualEdge} {fnAddr : Nat} {f : Function}
    (hg : GraphsWF tb) (h : assemble tb manual fnAddr = .ok f) : WF f.cfg := by
  obtain ⟨st, be, bx, hcore, _, hb, _, rfl⟩ := assemble_ok h
  have hw := assembleCore_wf hcore hg
  exact wf_merge (wf_entry_set hw hb)

/-- the clause of the property in its own words: no edge and no entry refers to a missing block, and there is an
    entry -/
theorem asm_no_dangling {tb : List (Nat × BTR)} {manual : List ManualEdge} {fnAddr : Nat} {f : Function}
    (hg : GraphsWF tb) (h : assemble tb manual fnAddr = .ok f) :
    (∀ e ∈ f.cfg.edges, f.cfg.hasBlock e.head = true ∧ f.cfg.hasBlock e.tail = true) ∧
    (∃ en, f.cfg.entry = some en ∧ f.cfg.hasBlock en = true) := by
  have hw := asm_wf hg h
  refine ⟨hw.edgesJoin, ?_⟩
  obtain ⟨st, be, bx, _, _, _, _, rfl⟩ := assemble_ok h
  have he : (merge { st.cfg with entry := some be }).cfg.entry = some be := merge_entry _
  exact ⟨be, he, hw.entryOk be he⟩

/-- **asm_entry** — when the function address heads a result with at least one instruction (translation results
    keyed by distinct addresses, as in the `BTreeMap`), the entry of the returned function is the entry that
    `insert` returned for the instruction graph logged at that first instruction's address, and that block exists.
    (For a result with an empty instruction list `block_entry` stays 0 and the entry is block 0 whatever it is —
    mirrored by the model, outside this theorem.) -/
theorem asm_entry {tb : List (Nat × BTR)} {manual : List ManualEdge} {fnAddr : Nat} {f : Function}
    (hg : GraphsWF tb) (hn : (tb.map (·.1)).Nodup) (h : assemble tb manual fnAddr = .ok f)
    {r : BTR} (hr : (fnAddr, r) ∈ tb) {g : Function} {gs : List Function} (hi : r.instrs = g :: gs) :
    ∃ st en ex, assembleCore tb manual = .ok st ∧ st.instrIdx.lookup g.addr = some (en, ex) ∧
      f.cfg.entry = some en ∧ f.cfg.hasBlock en = true := by
  have hw := asm_wf hg h
  obtain ⟨st, be, bx, hcore, hl, _, _, rfl⟩ := assemble_ok h
  obtain ⟨st1, st2, h1, h2, h3⟩ := assembleCore_ok hcore
  obtain ⟨be', bx', ex, hb1, hi1⟩ := resultsLoop_entry tb h1 hn hr hi
  have w1 := resultsLoop_wf tb h1 wf_new hg
  obtain ⟨w2, i2, b2⟩ := manualLoop_wf manual h2 w1
  obtain ⟨_, i3, b3⟩ := succsLoop_wf tb h3 w2
  have hbe : be = be' := by
    rw [b3, b2, hb1] at hl
    simp only [Option.some.injEq, Prod.mk.injEq] at hl
    exact hl.1.symm
  subst hbe
  have he : (merge { st.cfg with entry := some be }).cfg.entry = some be := merge_entry _
  exact ⟨st, be, ex, hcore, by rw [i3, i2]; exact hi1, he, hw.entryOk be he⟩

/-- **asm_once** — on the graph before `set_entry`/`merge`: `instruction_indices`, which is the log of the `insert`
    calls, has one entry per address (no address is inserted twice), its addresses are exactly the instruction
    addresses occurring in the translation results, and every entry (a, entry, exit) is what one `insert` of an
    instruction graph with address `a` from the results returned — the inserted sub-graphs are in bijection with
    the distinct instruction addresses. -/
theorem asm_once {tb : List (Nat × BTR)} {manual : List ManualEdge} {st : AsmState}
    (h : assembleCore tb manual = .ok st) :
    (st.instrIdx.map (·.1)).Nodup ∧
    (∀ a, a ∈ st.instrIdx.map (·.1) ↔ ∃ p ∈ tb, ∃ g ∈ p.2.instrs, g.addr = a) ∧
    (∀ a en ex, (a, (en, ex)) ∈ st.instrIdx →
      ∃ p ∈ tb, ∃ g ∈ p.2.instrs, g.addr = a ∧ ∃ c0 c1, CfgEdit.insert c0 g.cfg = ⟨c1, .ok (en, ex)⟩) :=
  assembleCore_log h

/-- **asm_lang** — the final `merge` does not change what can be executed from the entry: the returned function has
    the language of the assembled graph (before merging) entered at `block_indices[function_address].0`. -/
theorem asm_lang {tb : List (Nat × BTR)} {manual : List ManualEdge} {fnAddr : Nat} {f : Function}
    (hg : GraphsWF tb) (h : assemble tb manual fnAddr = .ok f) :
    ∃ st be bx, assembleCore tb manual = .ok st ∧ st.blockIdx.lookup fnAddr = some (be, bx) ∧
      ∀ w, Lang f.cfg w ↔ Lang { st.cfg with entry := some be } w := by
  obtain ⟨st, be, bx, hcore, hl, hb, _, rfl⟩ := assemble_ok h
  have hw := wf_entry_set (assembleCore_wf hcore hg) hb
  have hm := merge_total hw
  have heq : merge { st.cfg with entry := some be } = ⟨(merge { st.cfg with entry := some be }).cfg, .ok ()⟩ := by
    cases hmm : merge { st.cfg with entry := some be } with
    | mk c' r => rw [hmm] at hm; simp only at hm; subst hm; rfl
  exact ⟨st, be, bx, hcore, hl, mergeLoop_lang _ hw heq⟩

/-- **discover_closed** — what the work list returns is keyed by distinct addresses and closed: the function address,
    both ends of every manual edge and every successor of every translation result have a translation result; and
    every result is the oracle's answer at its address or the made-up result of an empty window. -/
theorem discover_spec {oracle : Nat → Option (Res BTR)} {manual : List ManualEdge} {fnAddr fuel : Nat}
    {tb : List (Nat × BTR)} (h : discover oracle manual fnAddr fuel = .ok tb) :
    (tb.map (·.1)).Nodup ∧ Closed tb manual fnAddr ∧
    (∀ p ∈ tb, (oracle p.1 = none ∧ p.2 = emptyResult p.1) ∨ oracle p.1 = some (.ok p.2)) := by
  obtain ⟨h1, h2, h3, h4⟩ := discover_closed h
  refine ⟨h1, ⟨h2, h3, h4⟩, ?_⟩
  intro p hp
  rcases discoverLoop_prov fuel _ [] tb h p hp with h5 | h5
  · cases h5
  · exact h5

/-- **asm_no_panic** — after the work list, the assembly never panics: every `block_indices[…]` finds its key (the
    table is closed), `insert`, the edge insertions, `set_entry` and `merge` do not panic. -/
theorem asm_no_panic {oracle : Nat → Option (Res BTR)} {manual : List ManualEdge} {fnAddr fuel : Nat}
    {tb : List (Nat × BTR)} (ho : OracleWF oracle) (h : discover oracle manual fnAddr fuel = .ok tb) :
    assemble tb manual fnAddr ≠ .panic :=
  assemble_no_panic (discover_graphsWF ho h) (discover_spec h).2.1

/-- **translate_function_wf** — the whole of `translate_function_extended` (work list + assembly) on an oracle that
    hands out well-formed instruction graphs: a returned function has a well-formed graph with an existing entry
    block; when the result at the function address starts with an instruction, the entry is the entry `insert`
    returned for the instruction graph logged at that instruction's address. -/
theorem translate_function_wf {oracle : Nat → Option (Res BTR)} {manual : List ManualEdge} {fnAddr fuel : Nat}
    {f : Function} (ho : OracleWF oracle) (h : translateFunction oracle manual fnAddr fuel = .ok f) :
    WF f.cfg ∧ (∃ en, f.cfg.entry = some en ∧ f.cfg.hasBlock en = true) ∧
    ∃ tb, discover oracle manual fnAddr fuel = .ok tb ∧ assemble tb manual fnAddr = .ok f ∧
      ∀ r g gs, (fnAddr, r) ∈ tb → r.instrs = g :: gs →
        ∃ st en ex, assembleCore tb manual = .ok st ∧ st.instrIdx.lookup g.addr = some (en, ex) ∧ f.cfg.entry = some en := by
  unfold translateFunction at h
  split at h
  · rename_i tb hd
    have hg := discover_graphsWF ho hd
    refine ⟨asm_wf hg h, (asm_no_dangling hg h).2, tb, hd, h, ?_⟩
    intro r g gs hr hi
    obtain ⟨st, en, ex, h1, h2, h3, _⟩ := asm_entry hg (discover_spec hd).1 h hr hi
    exact ⟨st, en, ex, h1, h2, h3⟩
  · cases h
  · cases h

/-- **asm_refines** — the semantic clause of C06 for the assembly model, for ALL tables of translation results,
    manual edges, function addresses, states and run lengths.

    Reference ("the machine code one lifted instruction at a time", `Assemble.RStep`): a configuration is
    (address `a`, block, position, state) inside THE instruction graph at `a` (`graphAt`); it steps by the IL
    operational semantics inside that graph and, at the end of its exit block, moves to the entry of the graph at an
    address `b` for which a transfer (a, b, guard) is requested by the translation results or a manual edge
    (`reqList`: next instruction of a result, successors of its last instruction, manual edges) and `guard` holds.
    Recovered function: `FStep f` / `FRun f`, the IL operational semantics of Exec.lean (the one property C07 proves
    falcon's executor to implement).

    Under `Coherent tb manual` (decidable; evaluated by the driver on every generated case) there is a location
    map Ψ, preserving states and sending the start of the function address to the entry of `f`, such that every
    finite reference run is a run of `f` and every finite run of `f` is the image of a reference run — whatever
    the windows were (an address lifted in several results is inserted once and shared), wherever a branch
    lands (the target's graph is the same copy), whichever manual edges were requested, and through the final
    `merge`.  The native addresses visited are the `addr` components along the reference run; the states are equal
    at every point; a run that cannot continue (error in an operation, `Operation::Branch`, no enabled edge, address
    without translation result) cannot continue on the other side either, since both directions are step-exact.

    The harness-level statement
      `∀ σ n, (runFn f mips n fuel ⟨entry, 0, σ⟩ []).{trace, state} = (runRef oracle mips n fuel' fnAddr σ []).{trace, state}`
    (FnRec.lean) is NOT provable as it stands and is false in corners that the per-case check never meets: `runRef`
    runs each instruction graph with an inner fuel of 4096 (a `rep`-style graph looping longer stops the reference
    only), `runFn` rolls the state back when the edge after a block's last instruction cannot be chosen while
    `runGraph` does not, a lone out-edge is taken without evaluating its guard, several enabled edges are tried in
    index order, and the address trace is recorded per executed IL instruction on one side and per instruction unit
    on the other.  Those are facts about falcon's executor (C07's premise `GuardsOK`) and about the bookkeeping of
    the comparison, not about function recovery; `asm_refines` is therefore stated over the IL operational
    semantics, and the per-case check keeps comparing `runFn`/`runRef` with falcon's executor. -/
theorem asm_refines {tb : List (Nat × BTR)} {manual : List ManualEdge} {fnAddr : Nat} {f : Function}
    (hc : Coherent tb manual) (hg : GraphsWF tb) (h : assemble tb manual fnAddr = .ok f) :
    ∃ Ψ : RConfig → Config,
      (∀ x, (Ψ x).state = x.state) ∧
      (∀ g en σ, graphAt tb fnAddr = some g → g.entry = some en →
        ∃ fe, f.cfg.entry = some fe ∧ Ψ ⟨fnAddr, en, 0, σ⟩ = ⟨fe, 0, σ⟩) ∧
      (∀ x y, RValid tb x → RRun tb manual x y → FRun f (Ψ x) (Ψ y)) ∧
      (∀ x z, RValid tb x → FRun f (Ψ x) z → ∃ y, RRun tb manual x y ∧ Ψ y = z) :=
  assemble_refines hc hg h

/-- **asm_refines_stuck** — runs that cannot continue correspond: with the Ψ of `asm_refines`, if the reference
    cannot step from `y` (error in an operation, `Operation::Branch`, no enabled transfer, address without
    translation result) then the function cannot leave Ψ y, and if the function cannot step from Ψ y then every
    reference step from `y` stays at Ψ y (it is one of the unconditional edges that `merge` contracted). -/
theorem asm_refines_stuck {tb : List (Nat × BTR)} {manual : List ManualEdge} {f : Function} {Ψ : RConfig → Config}
    (hfwd : ∀ x y, RValid tb x → RRun tb manual x y → FRun f (Ψ x) (Ψ y))
    (hbwd : ∀ x z, RValid tb x → FRun f (Ψ x) z → ∃ y, RRun tb manual x y ∧ Ψ y = z)
    {y : RConfig} (hv : RValid tb y) :
    ((∀ y', ¬ RStep tb manual y y') → ∀ z, FStep f (Ψ y) z → z = Ψ y) ∧
    ((∀ z, ¬ FStep f (Ψ y) z) → ∀ y', RStep tb manual y y' → Ψ y' = Ψ y) := by
  constructor
  · intro hstuck z hs
    obtain ⟨y', hr, hy'⟩ := hbwd y z hv (FRun.step (FRun.refl _) hs)
    have : y' = y := by
      clear hy'
      induction hr with
      | refl => rfl
      | step _ hs' ih => subst ih; exact absurd hs' (hstuck _)
    rw [← hy', this]
  · intro hstuck y' hs
    have hr := hfwd y y' hv (RRun.step (RRun.refl y) hs)
    generalize Ψ y' = b at hr
    induction hr with
    | refl => rfl
    | step _ hs' ih => subst ih; exact absurd hs' (hstuck _)

/-- **rstep_next_single** — under `SingleCoherent` (and without manual edges) the transfers of the reference machine
    are those of the per-instruction oracle: out of the last graph of the unit at `pc` exactly to the unit's
    successors whose guard holds, out of an inner graph of the unit exactly to the unit's next graph. -/
theorem rstep_next_single {tb : List (Nat × BTR)} {single : Nat → Option (List Function × List (Nat × Option Expr))}
    (hs : SingleCoherent tb single) {pc : Nat} {gs : List Function} {succs : List (Nat × Option Expr)}
    (hu : single pc = some (gs, succs)) (a b : Nat) (c : Option Expr) :
    ((∃ g, gs.getLast? = some g ∧ g.addr = a) → ((a, b, c) ∈ reqList tb [] ↔ (b, c) ∈ succs)) ∧
    (∀ q ∈ pairs (gs.map (·.addr)), q.1 = a → ((a, b, c) ∈ reqList tb [] ↔ (b = q.2 ∧ c = none))) := by
  obtain ⟨_, hchain, hlast⟩ := hs pc gs succs hu
  have hreq : ∀ x, x ∈ reqList tb [] ↔ x ∈ reqLinks tb ++ reqSuccs tb := by
    intro x; simp [reqList, reqManual]
  constructor
  · rintro ⟨g, hg, rfl⟩
    rw [hreq]; exact hlast g hg b c
  · intro q hq hqa
    subst hqa
    rw [hreq]; exact hchain q hq b c

/-- **merged_guard_enabled** — the guard `or c₁ c₂` that the repaired successor loop (falcon fed1e64) puts on an edge
    requested twice is enabled exactly when one of the two requested guards is, in every state in which both evaluate
    to 0/1 constants of one positive width (`OrEvaluable`).  This is the fact a `reqFun`-free version of `asm_refines`
    needs; it is state-dependent and needed in both directions, which is why `asm_refines` keeps `reqFun` and programs
    with a merged guard are validated per case. -/
theorem merged_guard_enabled {σ : State} {c₁ c₂ : Expr} (h : OrEvaluable σ c₁ c₂) :
    guardHolds σ (some (.bin .or c₁ c₂)) ↔ guardHolds σ (some c₁) ∨ guardHolds σ (some c₂) :=
  guardHolds_or_iff h

/-- **asm_refines_merged_partial** — `asm_refines` for tables in which two transfers between the same pair of
    instructions carry DIFFERENT guards (clause `reqFun` of `Coherent` fails for `tb`; a conditional branch to its
    own fall-through address: since falcon fed1e64 the edge carries `or c₁ c₂`).

    Full statement aimed at (NOT proved): `asm_refines` with `reqFun` removed from `Coherent`, for the runs whose
    states type the guards.

    Proved: let `tb'` request the same transfers with such duplicates replaced by a disjunction of them, of any
    nesting (`MergedOf tb tb' manual`, decidable: `mergedOfB_sound`; the driver takes `tb' = canonTable tb manual`, in
    which every successor carries the guard falcon's edge ends up with, `finalGuard`; the instruction lists are the
    same, `graphAt_of_instrs`).  If `tb'` is coherent and
    assembles to `f`, then for every reference configuration `x` of `tb` such that every state the reference reaches
    from `x` types the guards of `tb` (`GuardsTyped`: each guard evaluates to a 0/1 constant of width one — what
    C05's accepted guards give wherever their flags are defined), the runs of the reference of `tb` from `x` and the
    runs of `f` from Ψ x are the same, exactly as in `asm_refines`.

    What is partial: that the function assembled from `tb` IS the one assembled from `tb'`
    (`assemble tb manual fnAddr = assemble tb' manual fnAddr`) is not proved for all tables — it is a decidable
    equation that the driver evaluates on every generated case with a merged guard (detail `merged-guards:covered`),
    a translation-validation step.  The typing hypothesis is necessary: `merged_guard_enabled` fails without it in
    both directions. -/
theorem asm_refines_merged_partial {tb tb' : List (Nat × BTR)} {manual : List ManualEdge} {fnAddr : Nat} {f : Function}
    (hc : Coherent tb' manual) (hg : GraphsWF tb') (h' : assemble tb' manual fnAddr = .ok f)
    (hG : ∀ a, graphAt tb' a = graphAt tb a) (hM : MergedOf tb tb' manual) :
    ∃ Ψ : RConfig → Config,
      (∀ x, (Ψ x).state = x.state) ∧
      (∀ g en σ, graphAt tb fnAddr = some g → g.entry = some en →
        ∃ fe, f.cfg.entry = some fe ∧ Ψ ⟨fnAddr, en, 0, σ⟩ = ⟨fe, 0, σ⟩) ∧
      (∀ x y, RValid tb x → (∀ y', RRun tb manual x y' → GuardsTyped tb manual y'.state) →
        RRun tb manual x y → FRun f (Ψ x) (Ψ y)) ∧
      (∀ x z, RValid tb x → (∀ y', RRun tb manual x y' → GuardsTyped tb manual y'.state) →
        FRun f (Ψ x) z → ∃ y, RRun tb manual x y ∧ Ψ y = z) :=
  assemble_refines_merged hc hg h' hG hM

/-- the instance the driver checks: a table with the same instruction lists (it takes `canonTable tb manual`) -/
theorem asm_refines_canon {tb tb' : List (Nat × BTR)} {manual : List ManualEdge} {fnAddr : Nat} {f : Function}
    (hi : tb'.map (·.2.instrs) = tb.map (·.2.instrs))
    (hc : Coherent tb' manual) (hg : GraphsWF tb')
    (h' : assemble tb' manual fnAddr = .ok f) (hM : mergedOfB tb tb' manual = true) :
    ∃ Ψ : RConfig → Config,
      (∀ x, (Ψ x).state = x.state) ∧
      (∀ x y, RValid tb x → (∀ y', RRun tb manual x y' → GuardsTyped tb manual y'.state) →
        RRun tb manual x y → FRun f (Ψ x) (Ψ y)) ∧
      (∀ x z, RValid tb x → (∀ y', RRun tb manual x y' → GuardsTyped tb manual y'.state) →
        FRun f (Ψ x) z → ∃ y, RRun tb manual x y ∧ Ψ y = z) := by
  obtain ⟨Ψ, h1, _, h3, h4⟩ := assemble_refines_merged hc hg h' (graphAt_of_instrs hi) (mergedOfB_sound hM)
  exact ⟨Ψ, h1, h3, h4⟩

/-- **translate_function_refines** — the same for the whole of `translate_function_extended` (work list +
    assembly): the table is the one the work list built; `Coherent.keys` comes for free. -/
theorem translate_function_refines {oracle : Nat → Option (Res BTR)} {manual : List ManualEdge} {fnAddr fuel : Nat}
    {f : Function} (ho : OracleWF oracle) (h : translateFunction oracle manual fnAddr fuel = .ok f) :
    ∃ tb, discover oracle manual fnAddr fuel = .ok tb ∧ (tb.map (·.1)).Nodup ∧
      (Coherent tb manual →
        ∃ Ψ : RConfig → Config,
          (∀ x, (Ψ x).state = x.state) ∧
          (∀ g en σ, graphAt tb fnAddr = some g → g.entry = some en →
            ∃ fe, f.cfg.entry = some fe ∧ Ψ ⟨fnAddr, en, 0, σ⟩ = ⟨fe, 0, σ⟩) ∧
          (∀ x y, RValid tb x → RRun tb manual x y → FRun f (Ψ x) (Ψ y)) ∧
          (∀ x z, RValid tb x → FRun f (Ψ x) z → ∃ y, RRun tb manual x y ∧ Ψ y = z)) := by
  unfold translateFunction at h
  split at h
  · rename_i tb hd
    exact ⟨tb, hd, (discover_spec hd).1, fun hc => assemble_refines hc (discover_graphsWF ho hd) h⟩
  · cases h
  · cases h

/-- `merge` alone preserves executions (not only the language of `asm_lang`): for every well-formed graph there is
    a configuration map under which the runs before and after `merge` are the same -/
theorem merge_preserves_executions {c : Cfg} (hw : WF c) : ∃ μ, ExecEquiv c (merge c).cfg μ := merge_equiv hw

/-- non-vacuity: two results, the second shares the instruction at 0x1004 with the first (a branch into the middle
    of a lifted block); the function assembles, 0x1004 is inserted once, the entry is block 0 -/
def exNop (a : Nat) : Function :=
  { addr := a, cfg := { blocks := [{ index := 0, nextInstr := 1, instrs := [{ index := 0, addr := some a, op := .nop }] }],
                        entry := some 0, exit := some 0, nextIndex := 1 } }

def exTb : List (Nat × BTR) :=
  [(0x1000, { addr := 0x1000, length := 8, instrs := [exNop 0x1000, exNop 0x1004], succs := [(0x1000, none)] }),
   (0x1004, { addr := 0x1004, length := 4, instrs := [exNop 0x1004], succs := [(0x1000, none)] })]

example : (assemble exTb [] 0x1000).map (fun f => (f.cfg.entry, f.cfg.blocks.length, f.cfg.edges.map edgeKey))
    = .ok (some 0, 1, [(0, 0)]) := by decide
example : (assembleCore exTb []).map (fun st => (st.instrIdx.map (·.1), st.cfg.blocks.length, st.blockIdx))
    = .ok ([0x1004, 0x1000], 2, [(0x1004, (1, 1)), (0x1000, (0, 1))]) := by decide
/-- the coherence hypothesis holds for it (0x1004 occurs in both results with the same graph; the two requests
    0x1004 → 0x1000 carry the same guard), so `asm_refines` applies: the runs of the assembled one-block loop are
    exactly the runs 0x1000, 0x1004, 0x1000, … of the reference -/
example : Coherent exTb [] := by decide
example : reqList exTb [] = [(0x1000, 0x1004, none), (0x1004, 0x1000, none), (0x1004, 0x1000, none)] := by decide

example : GraphsWF exTb := by
  intro p hp g hg
  simp only [exTb, List.mem_cons, List.mem_nil_iff, or_false] at hp
  rcases hp with rfl | rfl <;> simp only [List.mem_cons, List.mem_nil_iff, or_false] at hg <;>
    (try rcases hg with rfl | rfl) <;> (try subst hg) <;>
    (constructor <;> simp [exNop, Cfg.hasBlock, BlockWF])

/-- non-vacuity: a result whose two successors lead to the same address under complementary guards -/
def exDup : List (Nat × BTR) :=
  [(0x1000, { addr := 0x1000, length := 4, instrs := [exNop 0x1000],
              succs := [(0x1004, some (.scalar ⟨"f", 1, none⟩)),
                        (0x1004, some (.bin .cmpeq (.scalar ⟨"f", 1, none⟩) (.const ⟨1, 0⟩)))] }),
   (0x1004, { addr := 0x1004, length := 4, instrs := [exNop 0x1004], succs := [] })]

example : ¬ Coherent exDup [] := by decide
example : Coherent (canonTable exDup []) [] := by decide
example : mergedOfB exDup (canonTable exDup []) [] = true := by decide
example : (canonTable exDup []).map (·.2.instrs) = exDup.map (·.2.instrs) := by decide
example : assemble (canonTable exDup []) [] 0x1000 = assemble exDup [] 0x1000 := by decide
example : (assemble exDup [] 0x1000).map (fun f => f.cfg.edges.map (·.cond)) =
    .ok [some (.bin .or (.scalar ⟨"f", 1, none⟩) (.bin .cmpeq (.scalar ⟨"f", 1, none⟩) (.const ⟨1, 0⟩)))] := by decide

end Falcon.C06Asm
