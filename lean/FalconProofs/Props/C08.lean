import FalconProofs.C08.Inv
namespace Falcon.C08
open Falcon Falcon.Paged

theorem fromBytes_bytesOf (e : Endian) (c : Const) (h8 : c.bits % 8 = 0) (wf : c.val < 2 ^ c.bits) :
    fromBytes e (bytesOf e c) = c := Paged.fromBytes_bytesOf e c h8 wf

end Falcon.C08
