/-
  FalconProofs.Props.C08 — property C08: a paged memory behaves as a byte array layered over its
  optional backing.  Model and specification: FalconModel/Paged.lean (mirror of lib/memory/paged.rs and
  value.rs for V = il::Constant; byte array `Nat → Option UInt8` with endian `read`/`write`).

  Reading guide.
    * `Inv m`   the representation invariant of the cell map (FalconProofs/C08/Inv.lean)
    * `abs m`   the byte array a memory denotes (stored bytes, falling back to the backing's)
    * `Good v`  what `store` accepts: width a positive multiple of 8, value reduced (`val < 2^bits`, which
                every falcon constructor guarantees), width below 2^63 (a `usize`, with room for the
                `bits + offset` additions of `load`)
    * `U64 = 2^64`; ranges must end at or below it (the harness build panics on `u64` overflow, the model
      says `Res.panic` there; since the repair a store may end exactly at 2^64)
  All statements are for every memory satisfying the invariant / every history from `new` or
  `new_with_backing`, every address, width, value, endianness and backing.

  What is NOT proved here (and said so in MANIFEST): copy-on-write sharing between clones — in the model a
  clone is the same persistent value, so `history_handles` below is a statement about the model only;
  the `RC::make_mut` behaviour is covered by the correspondence check (interleaved histories over several
  handles).

  V = il::Expression (last section): `storeE`/`loadE` are the mirror of the same code with the `Value`
  instance of `il::Expression` (trees built through the smart constructors, sort errors included).
  `load_expr_hom` says that the Expression memory computes, symbolically, what the Constant memory
  computes: whatever history of stores built the two memories (`MRel`: same cells, each expression related
  to the constant in the same place), a load through the Expression memory, evaluated, is the load through
  the Constant memory — same value, same `none`, same error, same panic.  It is proved once for any
  relation closed under the five `Value` operations (`ValueRel`) and instantiated with closed evaluation
  (`Expr.eval` = `executor::eval`), with compositional evaluation under any valuation of the scalars, and
  with `State::symbolize_and_eval` in any executor state.  Hypothesis on stored expressions: they evaluate
  to a constant of their own width (`VR` / `VRσ`), which holds for every well-sorted expression that
  evaluates without division by zero in a state defining its scalars (`stored_ok`).
-/
import FalconProofs.C08.ExprState

namespace Falcon.C08
open Falcon Falcon.Paged

/-- a store of an accepted value succeeds, and keeps the invariant -/
theorem store_inv {m : Mem} (I : Inv m) (a : Nat) (v : Const) (g : Good v) (hfit : a + v.bits / 8 ≤ U64) :
    ∃ m', store m a v = .ok m' ∧ Inv m' := by
  obtain ⟨m', h, I', _⟩ := store_spec I a v g hfit
  exact ⟨m', h, I'⟩

/-- … and the byte array afterwards is the byte array before with the value's bytes written at `a` (every
    overlap pattern: values cut before, after, on both sides, several values, page crossings) -/
theorem store_abs {m m' : Mem} (I : Inv m) (a : Nat) (v : Const) (g : Good v) (hfit : a + v.bits / 8 ≤ U64)
    (h : store m a v = .ok m') :
    abs m' = write (abs m) a (Paged.bytesOf m.endian v) ∧ m'.endian = m.endian ∧ m'.backing = m.backing := by
  obtain ⟨m'', h', _, habs, he, hb⟩ := store_spec I a v g hfit
  rw [h] at h'
  simp only [Res.ok.injEq] at h'
  subst h'
  exact ⟨habs, he, hb⟩

/-- a load of any positive multiple of 8 bits returns exactly the bytes of the byte array, assembled in
    the memory's endianness; `none` iff some byte is absent (that is what `read` says); never an error -/
theorem load_spec {m : Mem} (I : Inv m) (a n : Nat) (h8 : n % 8 = 0) (hpos : 0 < n) (hs : n < 2 ^ 63)
    (hfit : a + n / 8 ≤ U64) :
    load m a n = .ok (read (abs m) a (n / 8) m.endian) :=
  Paged.load_spec I a n h8 hpos hs hfit

/-- `read` is absent exactly when some byte of the range is absent -/
theorem read_none_iff (b : Bytes) (a n : Nat) (e : Paged.Endian) :
    read b a n e = none ↔ ∃ i, i < n ∧ b (a + i) = none := by
  simp only [Paged.read, Option.map_eq_none_iff]
  induction n generalizing a with
  | zero => simp [readBytes]
  | succ n ih =>
    simp only [readBytes]
    constructor
    · intro h
      cases hb : b a with
      | none => exact ⟨0, by omega, by simpa using hb⟩
      | some x =>
        cases hr : readBytes b (a + 1) n with
        | none =>
          obtain ⟨i, hi, hbi⟩ := (ih (a + 1)).1 hr
          exact ⟨i + 1, by omega, by rw [← hbi]; congr 1; omega⟩
        | some t => simp [hb, hr] at h
    · rintro ⟨i, hi, hbi⟩
      cases hb : b a with
      | none => rfl
      | some x =>
        have hi0 : i ≠ 0 := by intro h0; subst h0; simp [hb] at hbi
        have : readBytes b (a + 1) n = none :=
          (ih (a + 1)).2 ⟨i - 1, by omega, by rw [← hbi]; congr 1; omega⟩
        simp [this]

/-- the bytes of a value and the value of bytes are inverse: a load of exactly a stored value returns it -/
theorem fromBytes_bytesOf (e : Paged.Endian) (c : Const) (h8 : c.bits % 8 = 0) (wf : c.val < 2 ^ c.bits) :
    fromBytes e (Paged.bytesOf e c) = c := Paged.fromBytes_bytesOf e c h8 wf

/-- widths that are not positive multiples of 8 are rejected (and the memory, being a value, is unchanged) -/
theorem store_non8 (m : Mem) (a : Nat) (v : Const) (h : ¬ (v.bits % 8 = 0 ∧ 0 < v.bits)) :
    store m a v = .err .other := store_non8' m a v h

/-- the invariant holds initially -/
theorem inv_init (e : Paged.Endian) (b : Option Backing) :
    Inv (match b with | some b => newWithBacking e b | none => new e) := by
  cases b with
  | none => exact inv_new e
  | some b => exact inv_newWithBacking e b

/-- HISTORY: for every finite sequence of store / load / set_permissions operations (in the property's
    domain, see `Paged.Op.inDomain`) applied to any memory satisfying the invariant, the model answers exactly
    what the byte array answers: every load returns the bytes most recently stored at each address,
    falling back to the initial bytes. -/
theorem history_from (m : Mem) (I : Inv m) (ops : List Paged.Op) (hdom : ∀ op ∈ ops, op.inDomain) :
    runModel m ops = runSpec m.endian (abs m) ops := history_gen ops m I hdom

/-- … in particular from `Memory::new`: the byte array starts empty -/
theorem history (e : Paged.Endian) (ops : List Paged.Op) (hdom : ∀ op ∈ ops, op.inDomain) :
    runModel (new e) ops = runSpec e (fun _ => none) ops :=
  history_gen ops (new e) (inv_new e) hdom

/-- … and from `Memory::new_with_backing`: the byte array starts as the backing's bytes -/
theorem history_backed (e : Paged.Endian) (b : Backing) (ops : List Paged.Op) (hdom : ∀ op ∈ ops, op.inDomain) :
    runModel (newWithBacking e b) ops = runSpec e b.get8 ops :=
  history_gen ops (newWithBacking e b) (inv_newWithBacking e b) hdom

/-- HISTORY OVER SEVERAL HANDLES WITH CLONES, IN THE MODEL: any interleaving of operations through any
    handles and of `clone`s answers what independent byte arrays answer — a store through one handle is
    never visible through another.  In the model a clone is the same persistent value, so this says
    nothing about `RC::make_mut`; the real sharing is covered by the correspondence check only. -/
theorem history_handles (σ : Nat → Option Mem) (hI : ∀ h m, σ h = some m → Inv m) (ops : List HOp)
    (hdom : ∀ op ∈ ops, op.inDomain) :
    runH σ ops = runHSpec (absH σ) ops := history_handles_gen ops σ hI hdom

/-- equality implies identical results for every load (any address, any width, valid or not) -/
theorem eq_load {m₁ m₂ : Mem} (h : eq m₁ m₂ = true) (a n : Nat) : load m₁ a n = load m₂ a n :=
  eq_load' h a n

/-- … and identical reported permissions -/
theorem eq_perm {m₁ m₂ : Mem} (h : eq m₁ m₂ = true) (a : Nat) : permissions m₁ a = permissions m₂ a :=
  eq_permissions h a

/-- equality is reflexive: a memory equals its unmodified clone (backed or not) -/
theorem eq_refl (m : Mem) : eq m m = true := eq_refl' m

/-- permissions set on a range are reported for every address in it -/
theorem perm_set (m : Mem) (a len p x : Nat) (h1 : a ≤ x) (h2 : x < a + len) (h3 : a + len ≤ U64) :
    permissions (setPermissions m a len p) x = some p := perm_set' m a len p x h1 h2 h3

/-- an address on a page the range does not touch keeps its reported permissions -/
theorem perm_other (m : Mem) (a len p x : Nat) (h : pageOf x < pageOf a ∨ a + len ≤ pageOf x) :
    permissions (setPermissions m a len p) x = permissions m x := perm_other' m a len p x h

/-- stores never change reported permissions (whether they succeed, create pages, or not) -/
theorem perm_store_frame {m m' : Mem} {a : Nat} {v : Const} (h : store m a v = .ok m') (x : Nat) :
    permissions m' x = permissions m x := store_permissions h x

/-- addresses whose permissions were never set report the backing's: initially … -/
theorem perm_default (e : Paged.Endian) (b : Backing) (x : Nat) :
    permissions (newWithBacking e b) x = b.permissions x ∧ permissions (new e) x = none := ⟨rfl, rfl⟩

/-- … and along any history, for an address whose page no `set_permissions` range touched
    (page granularity: `set_permissions` is documented as setting permissions per page) -/
theorem perm_default_history : ∀ (ops : List Paged.Op) (m : Mem) (x : Nat),
    (∀ a len p, Paged.Op.setPerm a len p ∈ ops → pageOf x < pageOf a ∨ a + len ≤ pageOf x) →
    ∀ m', (ops.foldl (fun (m : Mem) op =>
        match op with
        | .store a v => (match store m a v with | .ok m' => m' | _ => m)
        | .load _ _ => m
        | .setPerm a len p => setPermissions m a len p) m) = m' →
      permissions m' x = permissions m x := by
  intro ops
  induction ops with
  | nil => intro m x _ m' h; simp only [List.foldl_nil] at h; rw [h]
  | cons op t ih =>
    intro m x hun m' h
    simp only [List.foldl_cons] at h
    have ht : ∀ a len p, Paged.Op.setPerm a len p ∈ t → pageOf x < pageOf a ∨ a + len ≤ pageOf x :=
      fun a len p hm => hun a len p (List.mem_cons_of_mem _ hm)
    rw [ih _ x ht m' h]
    cases op with
    | store a v =>
      simp only []
      cases hs : store m a v with
      | ok m'' => exact store_permissions hs x
      | err _ => rfl
      | panic => rfl
    | load _ _ => rfl
    | setPerm a len p => exact perm_other' m a len p x (hun a len p (List.mem_cons_self ..))

/-! ### V = il::Expression -/

/-- stores through the two instances succeed or fail together and keep the memories related -/
theorem store_expr_hom {VRel : Expr → Const → Prop} (V : ValueRel VRel) {mE : MemE} {mC : Mem}
    (R : MRel VRel mE mC) (a : Nat) {e : Expr} {c : Const} (hv : VRel e c) :
    RelRes (MRel VRel) (storeE mE a e) (store mC a c) := store_rel V R a hv

/-- LOAD HOMOMORPHISM, general form: for any value relation closed under the `Value` operations whose
    related pairs evaluate (`sound`), evaluating what the Expression memory loads is loading from the
    Constant memory — for every address and every width (valid or not) -/
theorem load_expr_hom {ev : Expr → Res Const} {VRel : Expr → Const → Prop} (V : ValueRel VRel)
    (sound : ∀ e c, VRel e c → ev e = .ok c) {mE : MemE} {mC : Mem} (R : MRel VRel mE mC) (a n : Nat) :
    evalLoad ev (loadE mE a n) = load mC a n := evalLoad_of_rel sound (load_rel V R a n)

/-- … for closed evaluation `executor::eval` -/
theorem load_expr_hom_eval {mE : MemE} {mC : Mem} (R : MRel (VR Expr.eval) mE mC) (a n : Nat) :
    evalLoad Expr.eval (loadE mE a n) = load mC a n :=
  load_expr_hom (valueRel_of_evaluator evaluator_eval) (fun _ _ h => h.1) R a n

/-- … for compositional evaluation under any valuation `ρ` of the scalars -/
theorem load_expr_hom_valuation (ρ : Scalar → Res Const) {mE : MemE} {mC : Mem}
    (R : MRel (VR (evalWith ρ)) mE mC) (a n : Nat) :
    evalLoad (evalWith ρ) (loadE mE a n) = load mC a n :=
  load_expr_hom (valueRel_of_evaluator (evaluator_evalWith ρ)) (fun _ _ h => h.1) R a n

/-- … for `State::symbolize_and_eval` in any executor state `σ` (no well-sortedness assumption on the
    expression `loadE` builds: the relation carries the symbolised tree along) -/
theorem load_expr_hom_state (σ : State) {mE : MemE} {mC : Mem} (R : MRel (VRσ σ) mE mC) (a n : Nat) :
    evalLoad σ.evalIn (loadE mE a n) = load mC a n :=
  load_expr_hom (valueRel_state σ) (fun _ _ h => h.sound) R a n

/-- the hypothesis on stored expressions holds for every well-sorted expression that evaluates in a state
    defining its scalars; and there `symbolize_and_eval` is the compositional evaluation -/
theorem stored_ok (σ : State) (e : Expr) (hw : e.wellSorted = true) (hd : ∀ s ∈ e.scalars, σ.Defines s)
    {c : Const} (hc : σ.evalIn e = .ok c) :
    VRσ σ e c ∧ VR (evalWith (valuationOf σ)) e c ∧ σ.evalIn e = evalWith (valuationOf σ) e :=
  ⟨vrσ_of_wellSorted σ e hw hd hc, vr_of_wellSorted σ e hw hd hc, evalIn_eq_evalWith σ e hw hd⟩

/-- the empty memories are related, and `set_permissions` keeps them related with equal permissions -/
theorem expr_init (VRel : Expr → Const → Prop) (en : Paged.Endian) (b : Backing) :
    MRel VRel (newE en) (new en) ∧ MRel VRel (newWithBackingE en b) (newWithBacking en b) :=
  ⟨mrel_new VRel en, mrel_newWithBacking VRel en b⟩

theorem expr_perm {VRel : Expr → Const → Prop} {mE : MemE} {mC : Mem} (R : MRel VRel mE mC) (a len p x : Nat) :
    MRel VRel (setPermissionsE mE a len p) (setPermissions mC a len p) ∧ permissionsE mE x = permissions mC x :=
  ⟨setPermissions_rel R a len p, permissions_rel R x⟩

/-- HISTORY for the Expression memory, general form: any history whose stored expressions are related to
    constants answers (loads evaluated) what the Constant memory answers on the evaluated history -/
theorem history_expr_model {ev : Expr → Res Const} {VRel : Expr → Const → Prop} (V : ValueRel VRel)
    (sound : ∀ e c, VRel e c → ev e = .ok c) {eops : List EOp} {ops : List Paged.Op} (h : OpsRel VRel eops ops)
    {mE : MemE} {mC : Mem} (R : MRel VRel mE mC) : runE ev mE eops = runModel mC ops :=
  runE_eq_runModel V sound h R

/-- HISTORY for the Expression memory in an executor state: for every finite history of stores of
    well-sorted expressions (evaluating in `σ`, see `EOp.okIn`), loads and `set_permissions` from
    `Memory::<Expression>::new`, the loaded expressions evaluate in `σ` to exactly what the byte array of
    the stored expressions' values answers -/
theorem history_expr (σ : State) (en : Paged.Endian) (eops : List EOp) (h : ∀ o ∈ eops, o.okIn σ) :
    ∃ ops, OpsRel (VRσ σ) eops ops ∧ runE σ.evalIn (newE en) eops = runSpec en (fun _ => none) ops := by
  obtain ⟨ops, hr, hd⟩ := exists_ops σ eops h
  refine ⟨ops, hr, ?_⟩
  rw [runE_eq_runModel (valueRel_state σ) (fun _ _ h => h.sound) hr (mrel_new _ en)]
  exact history en ops hd

/-- … and from `new_with_backing` -/
theorem history_expr_backed (σ : State) (en : Paged.Endian) (b : Backing) (eops : List EOp)
    (h : ∀ o ∈ eops, o.okIn σ) :
    ∃ ops, OpsRel (VRσ σ) eops ops ∧ runE σ.evalIn (newWithBackingE en b) eops = runSpec en b.get8 ops := by
  obtain ⟨ops, hr, hd⟩ := exists_ops σ eops h
  refine ⟨ops, hr, ?_⟩
  rw [runE_eq_runModel (valueRel_state σ) (fun _ _ h => h.sound) hr (mrel_newWithBacking _ en b)]
  exact history_backed en b ops hd

/-! ### non-vacuity: concrete instances meet the hypotheses and exercise the interesting paths -/

/-- a big-endian history that cuts a 32-bit value on both sides and reads across the cut -/
example :
    runModel (new .big)
      [.store 0x3fe ⟨32, 0xAABBCCDD⟩, .store 0x3ff ⟨16, 0x1122⟩, .load 0x3fe 32, .load 0x3fd 16, .load 0x400 8] =
    [.stored, .stored, .loaded (some ⟨32, 0xAA1122DD⟩), .loaded none, .loaded (some ⟨8, 0x22⟩)] := by
  decide

example : ∀ op ∈ [Paged.Op.store 0x3fe ⟨32, 0xAABBCCDD⟩, .store 0x3ff ⟨16, 0x1122⟩, .load 0x3fe 32], op.inDomain := by
  intro op h
  simp only [List.mem_cons, List.mem_nil_iff, or_false] at h
  rcases h with rfl | rfl | rfl <;> simp [Paged.Op.inDomain, U64_eq]

example : Good ⟨32, 0xAABBCCDD⟩ := ⟨by decide, by decide, by decide, by decide⟩

/-- permissions above page 0 (the case that used to set nothing) -/
example : permissions (setPermissions (new .little) 0x2000 0x10 3) 0x2005 = some 3 := by decide

/-- the Expression memory on symbolic values: two scalars stored, cut by a third store, a load across the
    cut evaluated in a state -/
example :
    let σ : State := { scalars := [("x", ⟨32, 0xAABBCCDD⟩), ("y", ⟨16, 0x1122⟩)] }
    runE σ.evalIn (newE .big)
      [.store 0x3fe (.scalar ⟨"x", 32, none⟩), .store 0x3ff (.scalar ⟨"y", 16, none⟩), .load 0x3fe 32] =
    [.stored, .stored, .loaded (some ⟨32, 0xAA1122DD⟩)] := by
  decide

end Falcon.C08
