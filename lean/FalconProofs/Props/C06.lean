/-
  Props.C06 — function recovery.  Level: translation validation (per-program): the two runs compared by the
  driver are Lean definitions (`FnRec.runFn` on the recovered function, `FnRec.runRef` on the per-instruction
  oracle); what is PROVED here is that the structural verdict of the driver means the structural clauses of the
  property, for every function and oracle.  The assembly algorithm of `translate_function_extended` is not modelled.
-/
import FalconModel.FnRec

namespace Falcon.C06
open Falcon Falcon.FnRec

/-- acceptance by the structural check gives the property's structural clauses -/
theorem structure_sound (f : Function) (oracle : List (Nat × (BTR ⊕ String))) (mips : Bool)
    (h : structureIll f oracle mips = none) :
    -- no edge refers to a missing block
    (∀ e ∈ f.cfg.edges, f.cfg.hasBlock e.head = true ∧ f.cfg.hasBlock e.tail = true) ∧
    -- the entry names an existing block
    (∃ en, f.cfg.entry = some en ∧ f.cfg.hasBlock en = true) ∧
    -- the entry block is the function address
    entryAtFunctionAddress f = true ∧
    -- every instruction address is present exactly as often as in ONE lifted copy of that instruction
    addressesOnce f oracle mips = none := by
  unfold structureIll at h
  split at h
  · cases h
  · rename_i h1
    split at h
    · cases h
    · rename_i h2
      split at h
      · cases h
      · rename_i h3
        simp only [Bool.not_eq_true, Bool.not_eq_false'] at h1 h2
        have h1' : noDangling f = true := by simpa using h1
        unfold noDangling at h1'
        simp only [Bool.and_eq_true, List.all_eq_true] at h1'
        refine ⟨h1'.1, ?_, by simpa using h2, h3⟩
        cases he : f.cfg.entry with
        | none => simp [he] at h1'
        | some en => exact ⟨en, rfl, by simpa [he] using h1'.2⟩

/-- the count criterion means what it says: every address occurring in the function is in the oracle and
    its number of IL instructions equals that of one lifted copy -/
theorem addressesOnce_sound (f : Function) (oracle : List (Nat × (BTR ⊕ String))) (mips : Bool)
    (h : addressesOnce f oracle mips = none) (a : Nat)
    (ha : a ∈ ((f.cfg.blocks.flatMap (·.instrs)).filterMap (·.addr))) :
    ∃ r, oracle.lookup (if mips then a - a % 4 else a) = some (.inl r) ∧
      countIn f.cfg.blocks a = countInBTR r a := by
  unfold addressesOnce at h
  simp only [List.find?_eq_none] at h
  have ha' : a ∈ ((f.cfg.blocks.flatMap (·.instrs)).filterMap (·.addr)).eraseDups := by
    simpa using ha
  have := h a ha'
  cases hl : oracle.lookup (if mips then a - a % 4 else a) with
  | none => simp [hl] at this
  | some v =>
    cases v with
    | inr s => simp [hl] at this
    | inl r => exact ⟨r, rfl, by simpa [hl] using this⟩

end Falcon.C06
