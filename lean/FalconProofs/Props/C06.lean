/-
  Props.C06 — function recovery.  Level: translation validation (per-program): the two runs compared by the
  driver are Lean definitions (`FnRec.runFn` on the recovered function, `FnRec.runRef` on the per-instruction
  oracle); what is PROVED here is that the structural verdict of the driver means the structural clauses of the
  property, for every function and oracle.  The assembly algorithm of `translate_function_extended` is not modelled.
-/
import FalconModel.FnRec
import FalconProofs.Props.C06Asm

namespace Falcon.C06
open Falcon Falcon.FnRec

/-- acceptance by the structural check gives the property's structural clauses -/
theorem structure_sound (f : Function) (oracle : List (Nat × (BTR ⊕ String))) (mips : Bool)
    (h : structureIll f oracle mips = none) :
    -- no edge refers to a missing block
    (∀ e ∈ f.cfg.edges, f.cfg.hasBlock e.head = true ∧ f.cfg.hasBlock e.tail = true) ∧
    -- the entry names an existing block
    (∃ en, f.cfg.entry = some en ∧ f.cfg.hasBlock en = true) ∧
    -- the entry block is the function address
    entryAtFunctionAddress f = true ∧
    -- every instruction address is present exactly as often as in ONE lifted copy of that instruction
    addressesOnce f oracle mips = none := by
  unfold structureIll at h
  split at h
  · cases h
  · rename_i h1
    split at h
    · cases h
    · rename_i h2
      split at h
      · cases h
      · rename_i h3
        simp only [Bool.not_eq_true, Bool.not_eq_false'] at h1 h2
        have h1' : noDangling f = true := by simpa using h1
        unfold noDangling at h1'
        simp only [Bool.and_eq_true, List.all_eq_true] at h1'
        refine ⟨h1'.1, ?_, by simpa using h2, h3⟩
        cases he : f.cfg.entry with
        | none => simp [he] at h1'
        | some en => exact ⟨en, rfl, by simpa [he] using h1'.2⟩

/-- the count criterion means what it says: every address occurring in the function is in the oracle and
    its number of IL instructions equals that of one lifted copy -/
theorem addressesOnce_sound (f : Function) (oracle : List (Nat × (BTR ⊕ String))) (mips : Bool)
    (h : addressesOnce f oracle mips = none) (a : Nat)
    (ha : a ∈ ((f.cfg.blocks.flatMap (·.instrs)).filterMap (·.addr))) :
    ∃ r, oracle.lookup (if mips then a - a % 4 else a) = some (.inl r) ∧
      countIn f.cfg.blocks a = countInBTR r a := by
  unfold addressesOnce at h
  simp only [List.find?_eq_none] at h
  have ha' : a ∈ ((f.cfg.blocks.flatMap (·.instrs)).filterMap (·.addr)).eraseDups := by
    simpa using ha
  have := h a ha'
  cases hl : oracle.lookup (if mips then a - a % 4 else a) with
  | none => simp [hl] at this
  | some v =>
    cases v with
    | inr s => simp [hl] at this
    | inl r => exact ⟨r, rfl, by simpa [hl] using this⟩


-- ------------------------------------------------------------------------------------------------
-- the assembly algorithm of `translate_function_extended` (model FalconModel/Assemble.lean; statements and
-- proofs in FalconProofs/Props/C06Asm.lean, restated here so that the audit lists them)

open Falcon.CfgEdit Falcon.Assemble in
/-- whenever the assembly returns a function, its graph satisfies C15's `WF` (no edge, entry or exit refers to a
    missing block, keys unique) -/
theorem asm_wf {tb : List (Nat × BTR)} {manual : List ManualEdge} {fnAddr : Nat} {f : Function}
    (hg : C06Asm.GraphsWF tb) (h : assemble tb manual fnAddr = .ok f) : WF f.cfg :=
  C06Asm.asm_wf hg h

open Falcon.CfgEdit Falcon.Assemble in
/-- the entry of the returned function is the entry `insert` returned for the instruction graph logged at the
    address of the first instruction of the result at the function address -/
theorem asm_entry {tb : List (Nat × BTR)} {manual : List ManualEdge} {fnAddr : Nat} {f : Function}
    (hg : C06Asm.GraphsWF tb) (hn : (tb.map (·.1)).Nodup) (h : assemble tb manual fnAddr = .ok f)
    {r : BTR} (hr : (fnAddr, r) ∈ tb) {g : Function} {gs : List Function} (hi : r.instrs = g :: gs) :
    ∃ st en ex, assembleCore tb manual = .ok st ∧ st.instrIdx.lookup g.addr = some (en, ex) ∧
      f.cfg.entry = some en ∧ f.cfg.hasBlock en = true :=
  C06Asm.asm_entry hg hn h hr hi

open Falcon.CfgEdit Falcon.Assemble in
/-- each instruction address is inserted exactly once: the log of `insert` calls is duplicate-free, covers exactly
    the instruction addresses of the results, and each entry is the result of one `insert` of a graph at that address -/
theorem asm_once {tb : List (Nat × BTR)} {manual : List ManualEdge} {st : AsmState}
    (h : assembleCore tb manual = .ok st) :
    (st.instrIdx.map (·.1)).Nodup ∧
    (∀ a, a ∈ st.instrIdx.map (·.1) ↔ ∃ p ∈ tb, ∃ g ∈ p.2.instrs, g.addr = a) ∧
    (∀ a en ex, (a, (en, ex)) ∈ st.instrIdx →
      ∃ p ∈ tb, ∃ g ∈ p.2.instrs, g.addr = a ∧ ∃ c0 c1, CfgEdit.insert c0 g.cfg = ⟨c1, .ok (en, ex)⟩) :=
  C06Asm.asm_once h

open Falcon.CfgEdit Falcon.Assemble in
/-- the final `merge` keeps the language of the assembled graph -/
theorem asm_lang {tb : List (Nat × BTR)} {manual : List ManualEdge} {fnAddr : Nat} {f : Function}
    (hg : C06Asm.GraphsWF tb) (h : assemble tb manual fnAddr = .ok f) :
    ∃ st be bx, assembleCore tb manual = .ok st ∧ st.blockIdx.lookup fnAddr = some (be, bx) ∧
      ∀ w, Lang f.cfg w ↔ Lang { st.cfg with entry := some be } w :=
  C06Asm.asm_lang hg h

open Falcon.CfgEdit Falcon.Assemble in
/-- the work list returns a table keyed by distinct addresses that is closed under function address, manual-edge
    ends and successors, and whose entries are the oracle's answers (or the empty-window result) -/
theorem asm_discover {oracle : Nat → Option (Res BTR)} {manual : List ManualEdge} {fnAddr fuel : Nat}
    {tb : List (Nat × BTR)} (h : discover oracle manual fnAddr fuel = .ok tb) :
    (tb.map (·.1)).Nodup ∧ C06Asm.Closed tb manual fnAddr ∧
    (∀ p ∈ tb, (oracle p.1 = none ∧ p.2 = emptyResult p.1) ∨ oracle p.1 = some (.ok p.2)) :=
  C06Asm.discover_spec h

open Falcon.CfgEdit Falcon.Assemble in
/-- after the work list the assembly never panics (`block_indices[…]` always finds its key) -/
theorem asm_no_panic {oracle : Nat → Option (Res BTR)} {manual : List ManualEdge} {fnAddr fuel : Nat}
    {tb : List (Nat × BTR)} (ho : C06Asm.OracleWF oracle) (h : discover oracle manual fnAddr fuel = .ok tb) :
    assemble tb manual fnAddr ≠ .panic :=
  C06Asm.asm_no_panic ho h

open Falcon.CfgEdit Falcon.Assemble in
/-- the semantic clause for the assembly model: under the (decidable, per-case checked) coherence of the translation
    results, the recovered function and the reference machine "one lifted instruction at a time" have the same
    executions in the IL operational semantics — see `C06Asm.asm_refines` for the full discussion -/
theorem asm_refines {tb : List (Nat × BTR)} {manual : List ManualEdge} {fnAddr : Nat} {f : Function}
    (hc : Coherent tb manual) (hg : C06Asm.GraphsWF tb) (h : assemble tb manual fnAddr = .ok f) :
    ∃ Ψ : RConfig → Config,
      (∀ x, (Ψ x).state = x.state) ∧
      (∀ g en σ, graphAt tb fnAddr = some g → g.entry = some en →
        ∃ fe, f.cfg.entry = some fe ∧ Ψ ⟨fnAddr, en, 0, σ⟩ = ⟨fe, 0, σ⟩) ∧
      (∀ x y, RValid tb x → RRun tb manual x y → FRun f (Ψ x) (Ψ y)) ∧
      (∀ x z, RValid tb x → FRun f (Ψ x) z → ∃ y, RRun tb manual x y ∧ Ψ y = z) :=
  C06Asm.asm_refines hc hg h

open Falcon.CfgEdit Falcon.Assemble in
/-- `merge` preserves executions, not only the language -/
theorem asm_merge_executions {c : Cfg} (hw : WF c) : ∃ μ, C06Asm.ExecEquiv c (merge c).cfg μ :=
  C06Asm.merge_preserves_executions hw

open Falcon.CfgEdit Falcon.Assemble in
/-- runs that cannot continue correspond under the Ψ of `asm_refines` -/
theorem asm_refines_stuck {tb : List (Nat × BTR)} {manual : List ManualEdge} {f : Function} {Ψ : RConfig → Config}
    (hfwd : ∀ x y, RValid tb x → RRun tb manual x y → FRun f (Ψ x) (Ψ y))
    (hbwd : ∀ x z, RValid tb x → FRun f (Ψ x) z → ∃ y, RRun tb manual x y ∧ Ψ y = z)
    {y : RConfig} (hv : RValid tb y) :
    ((∀ y', ¬ RStep tb manual y y') → ∀ z, FStep f (Ψ y) z → z = Ψ y) ∧
    ((∀ z, ¬ FStep f (Ψ y) z) → ∀ y', RStep tb manual y y' → Ψ y' = Ψ y) :=
  C06Asm.asm_refines_stuck hfwd hbwd hv

open Falcon.CfgEdit Falcon.Assemble in
/-- what `SingleCoherent` (checked per case as `continuation`) means for the transfers of the reference machine -/
theorem asm_single {tb : List (Nat × BTR)} {single : Nat → Option (List Function × List (Nat × Option Expr))}
    (hs : SingleCoherent tb single) {pc : Nat} {gs : List Function} {succs : List (Nat × Option Expr)}
    (hu : single pc = some (gs, succs)) (a b : Nat) (c : Option Expr) :
    ((∃ g, gs.getLast? = some g ∧ g.addr = a) → ((a, b, c) ∈ reqList tb [] ↔ (b, c) ∈ succs)) ∧
    (∀ q ∈ pairs (gs.map (·.addr)), q.1 = a → ((a, b, c) ∈ reqList tb [] ↔ (b = q.2 ∧ c = none))) :=
  C06Asm.rstep_next_single hs hu a b c

/-- an OR-merged edge guard is enabled exactly when one of the merged guards is, where both evaluate to 0/1 constants
    of one positive width -/
theorem asm_merged_guard {σ : State} {c₁ c₂ : Expr} (h : C06Asm.OrEvaluable σ c₁ c₂) :
    guardHolds σ (some (.bin .or c₁ c₂)) ↔ guardHolds σ (some c₁) ∨ guardHolds σ (some c₂) :=
  C06Asm.merged_guard_enabled h

open Falcon.CfgEdit Falcon.Assemble in
/-- `asm_refines` for tables with differently guarded duplicate transfers (merged guards), through a table `tb'` that
    requests their disjunction; partial: `assemble tb = assemble tb'` is a per-case check — see `C06Asm.asm_refines_merged_partial` -/
theorem asm_refines_merged_partial {tb tb' : List (Nat × BTR)} {manual : List ManualEdge} {fnAddr : Nat} {f : Function}
    (hc : Coherent tb' manual) (hg : C06Asm.GraphsWF tb') (h' : assemble tb' manual fnAddr = .ok f)
    (hG : ∀ a, graphAt tb' a = graphAt tb a) (hM : MergedOf tb tb' manual) :
    ∃ Ψ : RConfig → Config,
      (∀ x, (Ψ x).state = x.state) ∧
      (∀ g en σ, graphAt tb fnAddr = some g → g.entry = some en →
        ∃ fe, f.cfg.entry = some fe ∧ Ψ ⟨fnAddr, en, 0, σ⟩ = ⟨fe, 0, σ⟩) ∧
      (∀ x y, RValid tb x → (∀ y', RRun tb manual x y' → GuardsTyped tb manual y'.state) →
        RRun tb manual x y → FRun f (Ψ x) (Ψ y)) ∧
      (∀ x z, RValid tb x → (∀ y', RRun tb manual x y' → GuardsTyped tb manual y'.state) →
        FRun f (Ψ x) z → ∃ y, RRun tb manual x y ∧ Ψ y = z) :=
  C06Asm.asm_refines_merged_partial hc hg h' hG hM

open Falcon.CfgEdit Falcon.Assemble in
/-- the executable checks of the driver mean what they say -/
theorem asm_merged_checks {tb tb' : List (Nat × BTR)} {manual : List ManualEdge} {σ : State} {c : Expr} :
    (mergedOfB tb tb' manual = true → MergedOf tb tb' manual) ∧ (guardBitB σ c = true ↔ GuardBit σ c) ∧
    (tb'.map (·.2.instrs) = tb.map (·.2.instrs) → ∀ a, graphAt tb' a = graphAt tb a) :=
  ⟨C06Asm.mergedOfB_sound, C06Asm.guardBitB_iff σ c, C06Asm.graphAt_of_instrs⟩

end Falcon.C06
