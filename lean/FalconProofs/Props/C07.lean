/-
  Props.C07 — the concrete executor implements the IL operational semantics exactly.

  Model:  FalconModel/Exec.lean   (`State`, `symbolize`, `evalIn`, `execute`: mirror of lib/executor/state.rs, eval.rs)
          FalconModel/Driver.lean (`apply`, `forward`, `from_address`, `step`, `run`: mirror of driver.rs + location.rs)
  Spec:   FalconModel/Sem.lean    (`value`, `OpSem`, `Step`, `Steps`; premise: `TypedOp`, `ProgTyped`, `StateTyped`,
                                   `WFProg`, `GuardsOK`)
  The memory of a state is the byte array `Nat → Option UInt8` (property C08 ties falcon's paged memory to it).
  Every theorem is for ALL programs, states, widths and step counts; nothing is enumerated.
-/
import FalconProofs.C07.FStep
import FalconProofs.C07.Succs
import FalconProofs.C07.Example
import FalconProofs.C07.Extra
import FalconProofs.C07.Domain

namespace Falcon.C07
open Falcon Falcon.Sem Falcon.Drv

/-! ### the expression evaluator -/

/-- `State::symbolize_and_eval` computes the meaning of every typed expression (all trees, all widths) -/
theorem evalIn_value (σ : State) (e : Expr) (h : TypedE σ e) : σ.evalIn e = value σ e := evalIn_eq_value h

/-! ### one operation: `State::execute` ≡ `OpSem` -/

/-- whatever `execute` returns is what the semantics prescribes -/
theorem execute_sound (σ : State) (op : Op) (ht : TypedOp σ op) (σ' : State) (s : Succ)
    (h : execute σ op = .ok (σ', s)) : OpSem σ op σ' s :=
  (opSem_iff σ op σ' s).1 ((execute_eq_opSem σ op ht (σ', s)).1 h)

/-- whatever the semantics prescribes, `execute` returns -/
theorem execute_complete (σ : State) (op : Op) (ht : TypedOp σ op) (σ' : State) (s : Succ)
    (h : OpSem σ op σ' s) : execute σ op = .ok (σ', s) :=
  (execute_eq_opSem σ op ht (σ', s)).2 ((opSem_iff σ op σ' s).2 h)

theorem execute_iff (σ : State) (op : Op) (ht : TypedOp σ op) (σ' : State) (s : Succ) :
    execute σ op = .ok (σ', s) ↔ OpSem σ op σ' s :=
  ⟨execute_sound σ op ht σ' s, execute_complete σ op ht σ' s⟩

/-- the meaning of an operation is a partial function of the state -/
theorem opSem_deterministic (σ : State) (op : Op) (σ₁ σ₂ : State) (s₁ s₂ : Succ)
    (h₁ : OpSem σ op σ₁ s₁) (h₂ : OpSem σ op σ₂ s₂) : σ₁ = σ₂ ∧ s₁ = s₂ := OpSem_deterministic h₁ h₂

/-! ### frame: everything not written is unchanged (no typing premise: these hold for every operation) -/

/-- assignment: the destination NAME gets a value, every other name, the memory and the endianness are kept -/
theorem frame_assign (σ σ' : State) (x : Scalar) (e : Expr) (s : Succ)
    (h : execute σ (.assign x e) = .ok (σ', s)) :
    s = .fallThrough ∧ σ'.mem = σ.mem ∧ σ'.endian = σ.endian ∧
    (∃ v, σ.evalIn e = .ok v ∧ σ'.get x.name = some v) ∧ ∀ y, y ≠ x.name → σ'.get y = σ.get y := by
  simp only [execute] at h
  cases hv : σ.evalIn e with
  | err k => rw [hv] at h; cases h
  | panic => rw [hv] at h; cases h
  | ok v =>
    rw [hv] at h
    simp only [Res.bind_ok, Res.ok.injEq, Prod.mk.injEq] at h
    obtain ⟨h1, h2⟩ := h
    subst h1; subst h2
    exact ⟨rfl, rfl, rfl, ⟨v, rfl, get_set_self σ x.name v⟩, fun y hy => get_set_ne σ v hy⟩

/-- store: scalars and endianness are kept; memory is the old one with the value's `bits/8` bytes, in the
    memory's endianness, at the evaluated address; every byte outside that window is kept -/
theorem frame_store (σ σ' : State) (index src : Expr) (s : Succ)
    (h : execute σ (.store index src) = .ok (σ', s)) :
    s = .fallThrough ∧ σ'.scalars = σ.scalars ∧ σ'.endian = σ.endian ∧
    ∃ v i, σ.evalIn src = .ok v ∧ σ.evalIn index = .ok i ∧
      σ'.mem = σ.mem.write i.val (bytesOf σ.endian v) ∧
      (∀ a, a < i.val ∨ i.val + v.bits / 8 ≤ a → σ'.mem a = σ.mem a) ∧
      (∀ j, j < v.bits / 8 → σ'.mem (i.val + j) = (bytesOf σ.endian v)[j]?) := by
  simp only [execute] at h
  cases hv : σ.evalIn src with
  | err k => rw [hv] at h; cases h
  | panic => rw [hv] at h; cases h
  | ok v =>
    cases hi : σ.evalIn index with
    | err k => rw [hv, hi] at h; cases h
    | panic => rw [hv, hi] at h; cases h
    | ok i =>
      rw [hv, hi] at h
      simp only [Res.bind_ok, addrOf] at h
      split at h
      · simp only [Res.bind_ok] at h
        split at h
        · cases h
        · split at h
          · cases h
          · simp only [Res.ok.injEq, Prod.mk.injEq] at h
            obtain ⟨h1, h2⟩ := h
            subst h1; subst h2
            refine ⟨rfl, rfl, rfl, v, i, rfl, rfl, rfl, ?_, ?_⟩
            · intro a ha
              exact write_outside _ _ _ _ (by rw [bytesOf_length]; exact ha)
            · intro j hj
              exact write_inside _ _ _ _ (by rw [bytesOf_length]; exact hj)
      · cases h

/-- load: the destination NAME gets the constant assembled from the `bits/8` bytes at the evaluated address;
    every other name, the memory and the endianness are kept -/
theorem frame_load (σ σ' : State) (x : Scalar) (index : Expr) (s : Succ)
    (h : execute σ (.load x index) = .ok (σ', s)) :
    s = .fallThrough ∧ σ'.mem = σ.mem ∧ σ'.endian = σ.endian ∧
    (∃ i bs, σ.evalIn index = .ok i ∧ σ.mem.readBytes i.val (x.bits / 8) = some bs ∧
      σ'.get x.name = some (constOfBytes σ.endian bs)) ∧
    ∀ y, y ≠ x.name → σ'.get y = σ.get y := by
  simp only [execute] at h
  cases hi : σ.evalIn index with
  | err k => rw [hi] at h; cases h
  | panic => rw [hi] at h; cases h
  | ok i =>
    rw [hi] at h
    simp only [Res.bind_ok, addrOf] at h
    split at h
    · simp only [Res.bind_ok] at h
      split at h
      · cases h
      · split at h
        · cases h
        · split at h
          · rename_i bs hb
            simp only [Res.ok.injEq, Prod.mk.injEq] at h
            obtain ⟨h1, h2⟩ := h
            subst h1; subst h2
            exact ⟨rfl, rfl, rfl, ⟨i, bs, rfl, hb, get_set_self _ _ _⟩, fun y hy => get_set_ne _ _ hy⟩
          · cases h
    · cases h

/-- branch and nop change nothing -/
theorem frame_branch (σ σ' : State) (t : Expr) (s : Succ) (h : execute σ (.branch t) = .ok (σ', s)) :
    σ' = σ ∧ ∃ a, σ.evalIn t = .ok a ∧ s = .branch a.val := by
  simp only [execute] at h
  cases ht : σ.evalIn t with
  | err k => rw [ht] at h; cases h
  | panic => rw [ht] at h; cases h
  | ok a =>
    rw [ht] at h
    simp only [Res.bind_ok, addrOf] at h
    split at h
    · simp only [Res.bind_ok, Res.ok.injEq, Prod.mk.injEq] at h
      exact ⟨h.1.symm, a, rfl, h.2.symm⟩
    · cases h

theorem frame_nop (σ σ' : State) (s : Succ) (h : execute σ .nop = .ok (σ', s)) : σ' = σ ∧ s = .fallThrough := by
  simp only [execute, Res.ok.injEq, Prod.mk.injEq] at h
  exact ⟨h.1.symm, h.2.symm⟩

/-! ### errors, never guesses.  `Res` has no state in its `err` / `panic` constructors: an error answer
    carries no state, and the theorems below say WHICH error each situation gives. -/

/-- an error (or panic) answer excludes every successor state -/
theorem error_no_state (σ : State) (op : Op) (k : Err) (h : execute σ op = .err k) :
    ∀ x, execute σ op ≠ .ok x := by
  intro x hx; rw [h] at hx; cases hx

/-- an expression without value (undefined scalar: `err:scalar`, zero divisor: `err:div0`) makes the
    operation that reads it fail with that very error; `store` reads its source first -/
theorem error_value (σ : State) (op : Op) (ht : TypedOp σ op) (k : Err) :
    (∀ dst src, op = .assign dst src → value σ src = .err k → execute σ op = .err k) ∧
    (∀ index src, op = .store index src → value σ src = .err k → execute σ op = .err k) ∧
    (∀ index src v, op = .store index src → value σ src = .ok v → value σ index = .err k →
        execute σ op = .err k) ∧
    (∀ dst index, op = .load dst index → value σ index = .err k → execute σ op = .err k) ∧
    (∀ t, op = .branch t → value σ t = .err k → execute σ op = .err k) := by
  refine ⟨?_, ?_, ?_, ?_, ?_⟩
  · intro dst src ho hv; subst ho; rw [execute_typed σ _ ht]; simp only [hv]
  · intro index src ho hv; subst ho; rw [execute_typed σ _ ht]; simp only [hv]
  · intro index src v ho hv hi; subst ho; rw [execute_typed σ _ ht]; simp only [hv, hi]
  · intro dst index ho hv; subst ho; rw [execute_typed σ _ ht]; simp only [hv]
  · intro t ho hv; subst ho; rw [execute_typed σ _ ht]; simp only [hv]

/-- reading an undefined scalar has no value: `err:scalar` -/
theorem error_scalar (σ : State) (s : Scalar) (h : σ.get s.name = none) : value σ (.scalar s) = .err .scalar := by
  simp [value, h]

/-- a zero divisor has no value: `err:div0` (all four division operators, operands of one width) -/
theorem error_div0 (σ : State) (op : BinOp) (l r : Expr) (a b : Const)
    (hop : op = .divu ∨ op = .modu ∨ op = .divs ∨ op = .mods)
    (hl : value σ l = .ok a) (hr : value σ r = .ok b) (hw : a.bits = b.bits) (hz : b.toBV = 0) :
    value σ (.bin op l r) = .err .div0 := by
  simp only [value, hl, hr, Res.bind_ok, Spec.bin, dif_pos hw]
  have : (hw ▸ b.toBV : BitVec a.bits) = 0 := by
    cases a; cases b; simp only at hw; subst hw; exact hz
  rcases hop with h | h | h | h <;> subst h <;> simp [Spec.binBV, this]

/-- a load with some byte of its window neither stored nor backed: `err:unmapped`, and no scalar is written -/
theorem error_unmapped (σ : State) (dst : Scalar) (index : Expr) (ht : TypedOp σ (.load dst index)) (i : Const)
    (hv : value σ index = .ok i) (hr : i.val + dst.bits / 8 ≤ 2 ^ 64)
    (j : Nat) (hj : j < dst.bits / 8) (hm : σ.mem (i.val + j) = none) :
    execute σ (.load dst index) = .err .unmapped := by
  rw [execute_typed σ _ ht]
  simp only [hv]
  rw [if_neg (by omega)]
  have : σ.mem.readBytes i.val (dst.bits / 8) = none := (readBytes_none_iff _ _ _).2 ⟨j, hj, hm⟩
  simp only [this]

/-- an intrinsic is never executed: `err:intrinsic` -/
theorem error_intrinsic (σ : State) (i : Intrinsic) : execute σ (.intrinsic i) = .err .intrinsic := rfl

/-- on typed operations `execute` never panics inside the address space and never reports a sort error -/
theorem execute_no_panic (σ : State) (op : Op) (ht : TypedOp σ op)
    (hin : ∀ index src v i, op = .store index src → value σ src = .ok v → value σ index = .ok i →
             i.val + v.bits / 8 ≤ 2 ^ 64)
    (hin' : ∀ dst index i, op = .load dst index → value σ index = .ok i → i.val + dst.bits / 8 ≤ 2 ^ 64) :
    execute σ op ≠ .panic := by
  rw [execute_typed σ op ht]
  cases op with
  | assign dst src =>
    have := (value_no_panic src ht.1).1
    simp only; cases hv : value σ src <;> simp_all
  | store index src =>
    have h1 := (value_no_panic src ht.2.1).1
    have h2 := (value_no_panic index ht.1).1
    simp only
    cases hv : value σ src with
    | panic => exact absurd hv h1
    | err k => simp
    | ok v =>
      cases hi : value σ index with
      | panic => exact absurd hi h2
      | err k => simp
      | ok i =>
        have := hin index src v i rfl hv hi
        simp only; rw [if_neg (by omega)]; simp
  | load dst index =>
    have h2 := (value_no_panic index ht.1).1
    simp only
    cases hi : value σ index with
    | panic => exact absurd hi h2
    | err k => simp
    | ok i =>
      have := hin' dst index i rfl hi
      simp only; rw [if_neg (by omega)]
      cases σ.mem.readBytes i.val (dst.bits / 8) <;> simp
  | branch t =>
    have := (value_no_panic t ht.1).1
    simp only; cases hv : value σ t <;> simp_all
  | intrinsic i => simp
  | nop => simp

/-- a typed operation leaves a typed state typed (what makes the premise survive any number of steps) -/
theorem type_preservation (Γ : Ctx) (σ σ' : State) (op : Op) (s : Succ) (hs : StateTyped Γ σ)
    (ht : TypedOpΓ Γ op) (h : OpSem σ op σ' s) : StateTyped Γ σ' := stateTyped_opSem hs ht h

/-! ### one step of the driver: `Driver::step` ≡ `Step`, on programs satisfying the premise
    (`Premise Γ P` = typed against `Γ`, distinct instruction indices per block, `GuardsOK`) -/

/-- `Driver::step` makes exactly the steps of the semantics.  Under `GuardsOK` the lone edge taken without
    evaluating its guard is harmless, and "first guard that is one" is "the guard that is one". -/
theorem step_refines (Γ : Ctx) (P : Program) (hp : Premise Γ P) (l : Loc) (σ : State) (hs : StateTyped Γ σ)
    (hl : LocOK P l) (d' : Loc × State) : step P (l, σ) = .ok d' ↔ Step P (l, σ) d' :=
  ⟨step_sound hp hs hl, step_complete hp hs⟩

/-- the semantics is deterministic on such programs -/
theorem step_deterministic (Γ : Ctx) (P : Program) (hp : Premise Γ P) (l : Loc) (σ : State)
    (hs : StateTyped Γ σ) (d₁ d₂ : Loc × State) (h₁ : Step P (l, σ) d₁) (h₂ : Step P (l, σ) d₂) : d₁ = d₂ := by
  have e₁ := step_complete hp hs h₁
  have e₂ := step_complete hp hs h₂
  rw [e₁] at e₂
  injection e₂

/-- a step keeps the premise: the new state is typed, the new location is well-formed -/
theorem step_preserves (Γ : Ctx) (P : Program) (hp : Premise Γ P) (l : Loc) (σ : State) (hs : StateTyped Γ σ)
    (d' : Loc × State) (h : Step P (l, σ) d') : StateTyped Γ d'.2 ∧ LocOK P d'.1 := step_invariant hp hs h

/-- the driver's specification column: `Sem.succs` enumerates exactly the `Step`-successors (any program) -/
theorem succs_spec (P : Program) (d x : Loc × State) : x ∈ succs P d ↔ Step P d x := mem_succs_iff P d x

/-- the check's decidable domain test (`Sem.inDomain`, which decides where the driver's specification column
    speaks) is true in every configuration of a program satisfying the premise: the comparison with the
    specification is silent only outside the premise of these theorems -/
theorem check_domain (Γ : Ctx) (P : Program) (hp : Premise Γ P) (l : Loc) (σ : State) (hs : StateTyped Γ σ)
    (hl : LocOK P l) (r : Ref) (ha : apply P l = .ok r) : inDomain P (l, σ) = true :=
  inDomain_of_premise hp hs hl ha

/-! ### every step count -/

/-- `n` calls of `Driver::step` succeed with `d'` iff `d'` is reached by `n` steps of the semantics -/
theorem run_refines (Γ : Ctx) (P : Program) (hp : Premise Γ P) (n : Nat) (d d' : Loc × State)
    (hs : StateTyped Γ d.2) (hl : LocOK P d.1) : run P n d = .ok d' ↔ Steps P n d d' :=
  run_iff_steps hp n d d' hs hl

/-- … and that `n`-step run is unique -/
theorem run_unique (Γ : Ctx) (P : Program) (hp : Premise Γ P) (n : Nat) (d d₁ d₂ : Loc × State)
    (hs : StateTyped Γ d.2) (hl : LocOK P d.1) (h₁ : Steps P n d d₁) (h₂ : Steps P n d d₂) : d₁ = d₂ := by
  have e₁ := (run_iff_steps hp n d d₁ hs hl).2 h₁
  have e₂ := (run_iff_steps hp n d d₂ hs hl).2 h₂
  rw [e₁] at e₂
  injection e₂

/-- the executor stops with an error only in a configuration from which the semantics has no step:
    it never gives up early and never invents a continuation -/
theorem run_stops_only_when_stuck (Γ : Ctx) (P : Program) (hp : Premise Γ P) (n : Nat) (d : Loc × State)
    (hs : StateTyped Γ d.2) (hl : LocOK P d.1) (h : ∀ d', run P n d ≠ .ok d') :
    ∃ m d', m < n ∧ Steps P m d d' ∧ ∀ d'', ¬ Step P d' d'' := run_stops_stuck hp n d hs hl h

/-- no guard holds among the out-edges (all have a value, none is one; or there is no out-edge):
    `err:noedge`, for the end of a block and for an empty block alike -/
theorem error_noedge (σ : State) (es : List Edge) (h2 : es.length ≠ 1)
    (hf : ∀ e ∈ es, ∃ g c, e.cond = some g ∧ σ.evalIn g = .ok c ∧ c.val ≠ 1) :
    chooseEdge σ es = .err .noedge := by
  match es, h2 with
  | [], _ => rfl
  | [x], h => exact absurd rfl h
  | x :: y :: zs, _ => exact firstEnabled_none hf

/-- at the level of `Driver::step`: an empty block with no enabled out-edge -/
theorem error_noedge_empty (P : Program) (l : Loc) (σ : State) (f : Function) (b : Block)
    (ha : apply P l = .ok (.empty f b)) (h2 : (f.cfg.edgesOut b.index).length ≠ 1)
    (hf : ∀ e ∈ f.cfg.edgesOut b.index, ∃ g c, e.cond = some g ∧ σ.evalIn g = .ok c ∧ c.val ≠ 1) :
    step P (l, σ) = .err .noedge := step_noedge_empty P l σ f b ha h2 hf

/-- … and the last instruction of a block: the operation was executed, yet its state is not returned -/
theorem error_noedge_last (P : Program) (l : Loc) (σ σ' : State) (f : Function) (b : Block) (i : Instr)
    (ha : apply P l = .ok (.instr f b i)) (hex : execute σ i.op = .ok (σ', .fallThrough))
    (hfw : instrForward f b i = .ok (.edges (f.cfg.edgesOut b.index)))
    (h2 : (f.cfg.edgesOut b.index).length ≠ 1)
    (hf : ∀ e ∈ f.cfg.edgesOut b.index, ∃ g c, e.cond = some g ∧ σ'.evalIn g = .ok c ∧ c.val ≠ 1) :
    step P (l, σ) = .err .noedge := step_noedge_last P l σ σ' f b i ha hex hfw h2 hf

/-- conversely, on typed operations these are the ONLY errors `execute` reports: undefined scalar, zero
    divisor, unmapped memory, intrinsic -/
theorem error_kinds_only (σ : State) (op : Op) (ht : TypedOp σ op) (k : Err) (h : execute σ op = .err k) :
    k = .scalar ∨ k = .div0 ∨ k = .unmapped ∨ k = .intrinsic := execute_err_kinds σ op ht k h

/-- frame at the level of `Driver::step` (any program): the state changes only through the operation at the
    location; moving along edges, out of empty blocks and to branch targets changes nothing -/
theorem step_frame (P : Program) (l l' : Loc) (σ σ' : State) (h : step P (l, σ) = .ok (l', σ')) :
    σ' = σ ∨ ∃ f b i s, apply P l = .ok (.instr f b i) ∧ execute σ i.op = .ok (σ', s) := step_state P l l' σ σ' h

/-! ### the link to the function-level relation `FStep` (used by C10, C12, C13, C14, C17) -/

/-- every step of the semantics (hence of the driver) that is not an indirect branch stays in its function
    and is matched by 0, 1 or 2 `FStep`s between the configurations the two locations stand for -/
theorem step_fstep (Γ : Ctx) (P : Program) (hp : Premise Γ P) (l : Loc) (σ : State) (hs : StateTyped Γ σ)
    (hl : LocOK P l) (d' : Loc × State) (h : step P (l, σ) = .ok d') :
    (∃ f b k i t, AtInstr P l f b k i ∧ i.op = .branch t) ∨
    (∃ f c c', Abs P f (l, σ) c ∧ Abs P f d' c' ∧ FRun f c c') :=
  Step_frun hp hs (step_sound hp hs hl h)

/-- conversely an `FStep` over an instruction that is not the last of its block is the driver's step -/
theorem fstep_step (Γ : Ctx) (P : Program) (hp : Premise Γ P) (l : Loc) (σ σ' : State) (hs : StateTyped Γ σ)
    (f : Function) (b : Block) (k : Nat) (i j : Instr) (hat : AtInstr P l f b k i)
    (hf : FStep f ⟨b.index, k, σ⟩ ⟨b.index, k + 1, σ'⟩) (hn : b.instrs[k + 1]? = some j) :
    step P (l, σ) = .ok (⟨f.index, .instr b.index j.index⟩, σ') :=
  FStep_instr_step hp hs hat hf rfl rfl hn

/-- … the two `FStep`s at the end of a block (last instruction, enabled edge) are ONE step of the driver … -/
theorem fstep_last_step (Γ : Ctx) (P : Program) (hp : Premise Γ P) (l : Loc) (σ σ' : State) (hs : StateTyped Γ σ)
    (f : Function) (b : Block) (k : Nat) (i : Instr) (hat : AtInstr P l f b k i) (hlen : k + 1 = b.instrs.length)
    (c'' : Config) (hf : FStep f ⟨b.index, k, σ⟩ ⟨b.index, k + 1, σ'⟩) (hf' : FStep f ⟨b.index, k + 1, σ'⟩ c'') :
    ∃ e, e ∈ f.cfg.edgesOut b.index ∧ c'' = ⟨e.tail, 0, σ'⟩ ∧ step P (l, σ) = .ok (edgeLoc f e, σ') :=
  FStep_last_step hp hs hat hlen hf hf' rfl rfl

/-- … and the `FStep` out of an empty block is the driver's step from its `EmptyBlock` location -/
theorem fstep_empty_step (Γ : Ctx) (P : Program) (hp : Premise Γ P) (l : Loc) (σ : State) (hs : StateTyped Γ σ)
    (fi bi : Nat) (f : Function) (b : Block) (h1 : l.fn = some fi) (h2 : P.function fi = some f)
    (h3 : l.pos = .empty bi) (h4 : f.block bi = some b) (hempty : b.instrs = []) (c' : Config)
    (hf : FStep f ⟨b.index, 0, σ⟩ c') :
    ∃ e, e ∈ f.cfg.edgesOut b.index ∧ c' = ⟨e.tail, 0, σ⟩ ∧ step P (l, σ) = .ok (edgeLoc f e, σ) :=
  FStep_empty_step hp hs h1 h2 h3 h4 hempty hf rfl

/-! ### outside the premise the model still mirrors the code: the lone guarded edge -/

/-- one function, block 0 = [nop], block 1 = [nop], the only edge 0 → 1 guarded by the constant FALSE -/
def loneBlock (n : Nat) : Block := { index := n, instrs := [{ index := 0, op := Op.nop }] }
def loneEdge : Edge := { head := 0, tail := 1, cond := some (Expr.const ⟨1, 0⟩) }
def loneFunction : Function :=
  { addr := 0, index := some 0, cfg := { blocks := [loneBlock 0, loneBlock 1], edges := [loneEdge], entry := some 0 } }
def loneEdgeProgram : Program := { functions := [loneFunction] }

/-- `Driver::step` follows a lone conditional edge without evaluating its guard — here a guard that is
    false — although the semantics has no step (DESIGN §7 row 25; excluded by the property's premise) -/
theorem step_single_edge_unchecked :
    ∃ (P : Program) (d d' : Loc × State), step P d = .ok d' ∧ ∀ x, ¬ Step P d x := by
  refine ⟨loneEdgeProgram, (⟨some 0, .instr 0 0⟩, {}), (⟨some 0, .edge 0 1⟩, {}), rfl, ?_⟩
  intro x hx
  have := (mem_succs_iff _ _ _).2 hx
  have hnil : succs loneEdgeProgram (⟨some 0, .instr 0 0⟩, {}) = [] := by
    simp [succs, loneEdgeProgram, loneFunction, loneBlock, loneEdge, Program.function, Function.block, Cfg.block, positions, succsAt, opSem,
      Cfg.edgesOut, enabled, guardTrue, value, List.zipIdx]
  rw [hnil] at this
  cases this

/-! ### non-vacuity -/

/-- a state with `a = 0x2000:32` and four mapped bytes; `TypedOp` holds of a store, a load and an assignment -/
def exState : State :=
  { scalars := [("a", ⟨32, 0x2000⟩)], mem := ByteMem.empty.write 0x2000 [1, 2, 3, 4], endian := .little }

example : TypedOp exState (.load ⟨"b", 32, none⟩ (.bin .add (.scalar ⟨"a", 32, none⟩) (.const ⟨32, 0⟩))) := by decide
example : TypedOp exState (.store (.scalar ⟨"a", 32, none⟩) (.const ⟨16, 0xbeef⟩)) := by decide
example : TypedOp exState (.assign ⟨"c", 1, none⟩ (.bin .cmpeq (.scalar ⟨"a", 32, none⟩) (.const ⟨32, 7⟩))) := by decide

/-- the premise of `step_refines` / `run_refines` is met by a program with a two-way partition (`f` / `f == 0`),
    a lone unconditional edge, an empty block and an assignment — for ALL typed states — and by a start state -/
example : Premise exΓ exProg := exProg_premise
example : StateTyped exΓ exStart := exStart_typed
example : LocOK exProg ⟨some 0, .instr 0 0⟩ := trivial
/-- and the driver really walks it: instruction, guarded edge (first guard is one), next block -/
example : run exProg 3 (⟨some 0, .instr 0 0⟩, exStart) = .ok (⟨some 0, .edge 1 2⟩, exStart.set "g" ⟨1, 1⟩) := rfl

end Falcon.C07
