/-
  Props.C02 — MIPS and PowerPC lifters agree with the architecture manuals.

  Specification:  FalconModel/Isa/Mips.lean (`decode`, `exec`, `branch`, `step`, `step2`), Isa/Ppc.lean — interpreters on the
                  RAW 32-bit word, transcribed from memory of the MIPS32 / Power ISA manuals (not in the sandbox).
  Mirror (A):     FalconModel/Isa/MipsLift.lean (`liftI`, `liftSingle`, `liftPair`, `liftBTR`): the IL that
                  lib/translator/mips/{mod,semantics}.rs builds.  Every run of `./check C02` compares falcon's dumped IL with
                  `liftBTR` SYNTACTICALLY on every generated word (any difference is a broken correspondence).
  IL semantics:   FalconModel/Lift.lean `runBTR` (falcon's executor run over the lifted block; tied to the Rust code by C04/C07).

  The full property ("for EVERY accepted word, for every state") is proved for the classes under (A) below, for ALL
  register/immediate fields and ALL states; the remaining classes are covered by the three-way differential only:

  (A) universal theorems (this file):
      MIPS (mips, mipsel): addu subu and or xor nor (incl. capstone's move/negu forms) · sll srl sra (and nop) · sllv srlv srav ·
      addiu andi ori xori · lui · slt sltu slti sltiu · movn movz · mfhi mflo mthi mtlo · mult multu mul · lb lbu lh lhu lw · sb sh sw ·
      lwl lwr in both byte orders · swl swr in both byte orders (`lift_correct_swl_swr`) · add addi sub (both paths: `lift_correct_single` without overflow, `lift_overflow_stops` with) ·
      beq bne bgez bgtz blez bltz b j, each with ANY of the above in the delay slot (`lift_correct_pair`).
      PowerPC (every mnemonic the dispatcher lifts except bdnzl and the conditional bclr forms): addi/li addis/lis · add subf addze
      (with Rc) · mr · nop · rlwinm/slwi (with Rc) · srawi (with Rc) · cmpwi cmplwi · lbz lwz lwzu · stw stwu stmw · mflr mtlr mtctr ·
      b bl blr bctr (`ppc_lift_correct`).
  (B) none.
  (C) differential only (`unproved_classes` in the evidence):
      MIPS: div divu (zero divisor: finding) · madd maddu msub msubu · clz clo (loop graphs) ·
      ll sc pref sync · teq syscall break rdhwr · jr jal jalr bal bgezal bltzal (known findings: target /
      condition / link evaluated AFTER the delay slot).   PowerPC: bdnzl (finding: lifted as nop), conditional bclr.

  `StateOK σ`: the IL state defines `$at…$ra`, `$hi`, `$lo` as reduced 32-bit constants.  `absState σ` is the machine state
  it stands for (GPR[0] = 0; the scalar `$zero` is not part of it).  `Eqv u a b`: equal register files (HI/LO unless `u`, i.e.
  UNPREDICTABLE), equal memories, same endianness.  The theorems are conditional on the interpreter answering `next`
  (no trap, no unmapped byte): then the lifted IL runs to completion and yields exactly that state and that next pc.
-/
import FalconProofs.C02.InstrOK
import FalconProofs.C02.PpcMask
import FalconProofs.C02.PpcTop
import FalconProofs.C02.Jr
import FalconProofs.C02.Unaligned
import FalconProofs.C02.UnalignedStore

namespace Falcon.C02
open Falcon Falcon.Isa.Mips

/-- **single instruction, all fields, all states.**  For every word `w` the mirror lifts (every class under (A)), every
    address and every state holding a register file: if the manual's `step` completes, running the lifted block with the
    IL semantics completes with the same registers, memory and next pc. -/
theorem lift_correct_single (big : Bool) (w : Word) (addr : Nat) (r : BTR) (σ : State)
    (hl : liftBTR big [w] addr = some r) (ha : addr + 4 < 2 ^ 32) (hσ : StateOK σ)
    (hend : (absState σ).bigEndian = big)
    (s' : St) (pc' : Word) (u : Bool) (hx : step w (BitVec.ofNat 32 addr) (absState σ) = .next s' pc' u) :
    ∃ σ', runBTR r σ = .next σ' [pc'.toNat] ∧ StateOK σ' ∧ Eqv u (absState σ') s' ∧ σ'.endian = σ.endian := by
  simp only [liftBTR] at hl
  cases hd : decode w with
  | none => rw [hd] at hl; cases hl
  | some i =>
    rw [hd] at hl
    simp only [Option.bind] at hl
    simp only [step, hd] at hx
    cases hs : liftSingle i addr with
    | some r' =>
      rw [hs] at hl
      simp only [Option.orElse, Option.some.injEq] at hl; subst hl
      have hnb : i.isBranch = false := by
        unfold liftSingle at hs
        split at hs
        · cases hs
        · rename_i h; simpa using h
      rw [if_neg (by simp [hnb])] at hx
      obtain ⟨σ', hr, hsim⟩ := single_correct i (instrOK i) addr r' σ hs ha hσ s' pc' u hx
      exact ⟨σ', hr, hsim.ok, hsim.eqv, hsim.endian⟩
    | none =>
      rw [hs] at hl
      simp only [Option.orElse] at hl
      -- lwl / lwr: the byte order the translator was created for must be the memory's
      unfold liftUnalignedSingle at hl
      split at hl
      · rename_i op rt base off
        obtain ⟨f, hf, hr⟩ := Option.map_eq_some_iff.mp hl
        subst hr
        rw [if_neg (by simp [Instr.isBranch])] at hx
        obtain ⟨hent, σ', hrun, hsim, hpc⟩ := unaligned_load_ok big op rt base off addr f σ _ s' pc' u hf hσ hend hx
        refine ⟨σ', ?_, hsim.ok, hsim.eqv, hsim.endian⟩
        simp only [runBTR]
        rw [go_cons_done _ _ f [] σ σ' hent hrun, go_nil_one _ _ σ' (addr + 4) none rfl]
        subst hpc
        congr 2
        have h4 : (4 : Word).toNat = 4 := rfl
        simp only [BitVec.toNat_add, BitVec.toNat_ofNat, h4]
        omega
      · cases hl

/-- **branch with delay slot, all fields, all slot instructions of (A), all states.**  For beq/bne/bgez/bgtz/blez/bltz/b/j:
    the lifted block latches the condition from the pre-state, runs the slot, then transfers control — exactly `step2`,
    also when the slot overwrites the branch's own operands. -/
theorem lift_correct_pair (big : Bool) (wb wd : Word) (addr : Nat) (r : BTR) (σ : State)
    (hl : liftBTR big [wb, wd] addr = some r) (hj : ∀ rs, decode wb ≠ some (.jr rs))
    (ha : addr + 8 < 2 ^ 32) (hσ : StateOK σ)
    (s' : St) (pc' : Word) (u : Bool) (hx : step2 wb wd (BitVec.ofNat 32 addr) (absState σ) = .next s' pc' u) :
    ∃ σ', runBTR r σ = .next σ' [pc'.toNat] ∧ StateOK σ' ∧ Eqv u (absState σ') s' ∧ σ'.endian = σ.endian := by
  simp only [liftBTR] at hl
  cases hb : decode wb with
  | none => rw [hb] at hl; cases hl
  | some b =>
    cases hd : decode wd with
    | none => rw [hb, hd] at hl; cases hl
    | some d =>
      rw [hb, hd] at hl
      simp only [Option.bind] at hl
      simp only [step2, hb, hd] at hx
      exact pair_correct b d (instrOK d) addr r σ hl (fun rs h => hj rs (by rw [hb, h])) ha hσ s' pc' u hx

/-- **the trapping forms add / addi / sub, overflow path, all operand values.**  If the manual's `step` raises Integer Overflow
    (bit 32 ≠ bit 31 of the 33-bit sum / difference), the lifted block reaches the `IntegerOverflow` intrinsic and stops there
    with the state untouched (falcon's executor reports `err:intrinsic`).  The no-overflow path is part of
    `lift_correct_single`.  Together they pin the overflow decision for every pair of operands — e.g. `sub` with
    rt = 0x80000000, where "rs + (0 − rt)" decides differently. -/
theorem lift_overflow_stops (big : Bool) (w : Word) (addr : Nat) (r : BTR) (σ : State)
    (hl : liftBTR big [w] addr = some r) (hσ : StateOK σ)
    (hx : step w (BitVec.ofNat 32 addr) (absState σ) = .trap .overflow) :
    runBTR r σ = .stop σ "err:intrinsic" := by
  simp only [liftBTR] at hl
  cases hd : decode w with
  | none => rw [hd] at hl; cases hl
  | some i =>
    rw [hd] at hl
    simp only [Option.bind] at hl
    simp only [step, hd] at hx
    cases hs : liftSingle i addr with
    | some r' =>
      rw [hs] at hl
      simp only [Option.orElse, Option.some.injEq] at hl; subst hl
      unfold liftSingle at hs
      split at hs
      · cases hs
      · rename_i hnb
        rw [if_neg hnb] at hx
        obtain ⟨f, hf, hr⟩ := Option.map_eq_some_iff.mp hs
        subst hr
        obtain ⟨hent, hrun⟩ := overflow_stops i addr f σ _ hf hσ hx
        simp only [runBTR]
        rw [runBTR.go]; simp only [hent, hrun]
    | none =>
      rw [hs] at hl
      simp only [Option.orElse] at hl
      unfold liftUnalignedSingle at hl
      split at hl
      · rename_i op rt base off
        exfalso
        rw [if_neg (by simp [Instr.isBranch])] at hx
        simp only [exec] at hx
        cases op <;> simp only [doLoad] at hx <;> (repeat' split at hx) <;> first | (cases hx; done) | (injection hx with hx; cases hx)
      · cases hl

/-- **swl / swr, both byte orders, all fields, all states.**  The lifted IL reads the aligned word, merges rt into it and writes
    it back; the manual writes only the 1–4 addressed bytes.  Extra premise `hm`: the aligned word around the address is mapped
    (otherwise the IL's read fails where the manual's store succeeds).  Under it the lifted block yields exactly the
    interpreter's memory, registers and next pc.  (Seeded C02-m3 — little-endian swr/lwr counting bytes from the wrong end —
    contradicts this theorem and `lift_correct_single`.) -/
theorem lift_correct_swl_swr (big : Bool) (w : Word) (addr : Nat) (r : BTR) (σ : State) (op : St') (rt base : Reg) (off : BitVec 16)
    (hd : decode w = some (.store op rt base off)) (hop : op = .swl ∨ op = .swr)
    (hl : liftBTRall big [w] addr = some r) (ha : addr + 4 < 2 ^ 32) (hσ : StateOK σ) (hend : (absState σ).bigEndian = big)
    (m : Word) (hm : rdWord (absState σ).bigEndian (absState σ).mem (((absState σ).r base + sext16 off) &&& ~~~3) = some m)
    (s' : St) (pc' : Word) (u : Bool) (hx : step w (BitVec.ofNat 32 addr) (absState σ) = .next s' pc' u) :
    ∃ σ', runBTR r σ = .next σ' [pc'.toNat] ∧ StateOK σ' ∧ Eqv u (absState σ') s' ∧ σ'.endian = σ.endian := by
  have hf : ∃ f, liftUnaligned big (.store op rt base off) addr = some f ∧
      r = { addr := addr, length := 4, instrs := [f], succs := [(addr + 4, none)] } := by
    rcases hop with h | h <;> subst h <;>
      simp [liftBTRall, liftBTR, hd, liftSingle, liftI, Instr.isBranch, liftUnalignedSingle, liftUnalignedStoreSingle,
        Option.orElse] at hl <;>
      (obtain ⟨f, h1, h2⟩ := hl; exact ⟨f, h1, h2.symm⟩)
  obtain ⟨f, hf, hr⟩ := hf
  subst hr
  simp only [step, hd] at hx
  rw [if_neg (by simp [Instr.isBranch])] at hx
  obtain ⟨hent, σ', hrun, hsim, hpc⟩ := unaligned_store_ok big op rt base off addr f σ _ s' pc' u hf hσ hend m hm hx
  refine ⟨σ', ?_, hsim.ok, hsim.eqv, hsim.endian⟩
  simp only [runBTR]
  rw [go_cons_done _ _ f [] σ σ' hent hrun, go_nil_one _ _ σ' (addr + 4) none rfl]
  subst hpc
  congr 2
  have h4 : (4 : Word).toNat = 4 := rfl
  simp only [BitVec.toNat_add, BitVec.toNat_ofNat, h4]
  omega

/-- the decision of a (non-linking) branch is taken in the pre-state: whatever the slot does, the next pc is the
    target iff the condition held BEFORE the slot -/
theorem branch_decided_before_slot (b d : Isa.Mips.Instr) (pc : Word) (s s' : St) (pc' : Word) (u : Bool) (taken : Bool) (target : Word)
    (hb : branch b pc s = some (some ⟨taken, target, none⟩)) (hx : step2i b d pc s = .next s' pc' u) :
    pc' = if taken then target else pc + 8 := by
  obtain ⟨_, _, _, h⟩ := step2i_next hb hx
  exact h

/-- `GPR[0]` reads as zero whatever was written -/
theorem zero_reads_zero (s : St) (i : Reg) (v : Word) : (s.w i v).r 0 = 0 := by
  simp [St.r]

/-- writing the IL scalar of register `rd` is the architectural register write (a write to the scalar `$zero` is invisible) -/
theorem scalar_write_is_register_write (σ : State) (rd : Reg) (v : Word) :
    Eqv false (absState (σ.set (regName rd) (Const.ofBV v))) ((absState σ).w rd v) :=
  absState_set_reg σ rd v

/-- PowerPC `rlwinm`/`slwi`: the mask constant the lifter computes at lift time (`maskLifter`, the mirror of `rlwinm_`) is the
    manual's `MASK(mb, me)` — ones from bit `mb` through bit `me`, wrapping — for all 32 x 32 field values.  (Before the repair
    88b90c0 the lifter's mask was one bit short.) -/
theorem ppc_mask_closed_form : ∀ mb me : Fin 32, (Isa.Ppc.mask mb.val me.val).toNat = Isa.Ppc.maskLifter mb.val me.val :=
  Isa.Ppc.mask_eq_maskLifter

/-- `jr rs` with its delay slot — PARTIAL.  Full statement (the property): for every slot instruction `d` of (A),
    `liftPair (.jr rs) d addr = some r → StateOK σ → step2i (.jr rs) d pc (absState σ) = .next s' pc' u →
     ∃ σ', runBTR r σ = .next σ' [pc'.toNat] ∧ …`.  It is FALSE for the current lifter: the IL reads `rs` after the slot (known
    finding `C02/mips*/jr+*/next`; falcon's own tests assert that behaviour).  Proved: the lifted block runs the slot and then jumps
    to the post-slot value of `rs`, which is the manual's target whenever the slot leaves `rs` unchanged (`hkeep`).  Missing: the
    case of a slot that writes `rs`; the same treatment of jal/jalr/bal/bgezal/bltzal (link and condition after the slot). -/
theorem jr_pair_agrees_partial (rs : Reg) (d : Isa.Mips.Instr) (addr : Nat) (r : BTR) (σ : State)
    (hl : liftPair (.jr rs) d addr = some r) (hσ : StateOK σ) (s' : St) (pc' : Word) (u : Bool)
    (hx : step2i (.jr rs) d (BitVec.ofNat 32 addr) (absState σ) = .next s' pc' u)
    (hkeep : s'.r rs = (absState σ).r rs) :
    ∃ σ', runBTR r σ = .next σ' [pc'.toNat] ∧ StateOK σ' ∧ Eqv u (absState σ') s' :=
  Isa.Mips.jr_pair_agrees_partial rs d addr r σ hl hσ s' pc' u hx hkeep

/-! ### PowerPC -/

/-- **PowerPC, one instruction word: all fields, all states.**  For every word `w` the PPC mirror lifts, every address and every
    IL state holding a PPC machine state (r0…r31, lr, ctr 32-bit; carry and the 32 CR bits 1-bit; big-endian memory): if the
    manual's `step` completes (no unmapped byte, no invalid form), running the lifted block with the IL semantics completes with
    the same GPRs, LR, CTR, CA, memory and next pc, and the same CR bits — except the SO bit of the field a compare or a record
    form writes (`skipOf`: falcon has no scalar for XER[SO]; known finding `C02/ppc/*/cr-so`).  `noWrap`: a memory access does
    not wrap around 2^32.  For `stmw` this pins the number of stored words to 32 - rs for every rs. -/
theorem ppc_lift_correct (w : Isa.Ppc.Word) (addr : Nat) (r : BTR) (σ : State) (i : Isa.Ppc.Instr)
    (hd : Isa.Ppc.decode w = some i) (hl : Isa.Ppc.liftBTR [w] addr = some r) (ha : addr + 4 < 2 ^ 32)
    (hσ : Isa.Ppc.StateOK σ) (hw : Isa.Ppc.noWrap i (Isa.Ppc.absState σ))
    (s' : Isa.Ppc.St) (pc' : Isa.Ppc.Word)
    (hx : Isa.Ppc.step w (BitVec.ofNat 32 addr) (Isa.Ppc.absState σ) = .next s' pc') :
    ∃ σ', runBTR r σ = .next σ' [pc'.toNat] ∧ Isa.Ppc.StateOK σ' ∧
      Isa.Ppc.Agree (Isa.Ppc.skipOf i) (Isa.Ppc.absState σ') s' :=
  Isa.Ppc.lift_correct w addr r σ i hd hl ha hσ hw s' pc' hx

/-- `stmw rs, d(ra)` stores exactly 32 - rs words: the mirror's graph has that many operations (and `ppc_lift_correct` shows
    that running them yields the interpreter's memory) -/
theorem ppc_stmw_store_count (ra : Isa.Ppc.Reg) (d n k : Nat) : (Isa.Ppc.stmwOps ra d n k).length = n :=
  Isa.Ppc.stmwOps_length ra d n k

/-! ### non-vacuity: concrete words are lifted by the mirror and the hypotheses are satisfiable -/

/-- `addu $v0, $a0, $a1` (0x00851021) and `beq $a0, $a1, +4 ; addiu $a0, $a0, 1` are in the domain of the theorems -/
example : (liftBTR true [0x00851021#32] 0x1000).isSome = true := by decide
example : (liftBTR true [0x10850004#32, 0x24840001#32] 0x1000).isSome = true := by decide
example : (liftBTR false [0x8c820010#32] 0x1000).isSome = true := by decide      -- lw $v0, 16($a0)
example : (liftBTR true [0x00850018#32] 0x1000).isSome = true := by decide       -- mult $a0, $a1
example : (liftBTR true [0x70851002#32] 0x1000).isSome = true := by decide       -- mul $v0, $a0, $a1
example : (liftBTR true [0x00851022#32] 0x1000).isSome = true := by decide       -- sub $v0, $a0, $a1
example : (liftBTR false [0x88820003#32] 0x1000).isSome = true := by decide      -- lwl $v0, 3($a0) (mipsel)
example : (liftBTR true [0x98820003#32] 0x1000).isSome = true := by decide       -- lwr $v0, 3($a0) (mips)
example : (liftBTRall false [0xa8820003#32] 0x1000).isSome = true := by decide   -- swl $v0, 3($a0) (mipsel)
example : (liftBTRall true [0xb8820000#32] 0x1000).isSome = true := by decide    -- swr $v0, 0($a0) (mips)
example : (liftBTR false [0x20820001#32] 0x1000).isSome = true := by decide      -- addi $v0, $a0, 1
example : (liftBTR true [0x0085100b#32] 0x1000).isSome = true := by decide       -- movn $v0, $a0, $a1
example : (liftBTR true [0x00001010#32] 0x1000).isSome = true := by decide       -- mfhi $v0
example : (liftBTR true [0x03200008#32, 0x24840001#32] 0x1000).isSome = true := by decide   -- jr $t9 ; addiu $a0,$a0,1
example : (Isa.Ppc.liftBTR [0x7c642a14#32] 0x1000).isSome = true := by decide    -- add r3,r4,r5
example : (Isa.Ppc.liftBTR [0x7c840195#32] 0x1000).isSome = true := by decide    -- addze. r4,r4
example : (Isa.Ppc.liftBTR [0x54648e66#32] 0x1000).isSome = true := by decide    -- rlwinm r4,r3,17,25,19
example : (Isa.Ppc.liftBTR [0xbc64f0f6#32] 0x1000).isSome = true := by decide    -- stmw r3,-3850(r4)
example : (Isa.Ppc.liftBTR [0x8464f0f6#32] 0x1000).isSome = true := by decide    -- lwzu r3,-3850(r4)
example : (Isa.Ppc.liftBTR [0x2d04f0f6#32] 0x1000).isSome = true := by decide    -- cmpwi cr2,r4,-3850
example : (Isa.Ppc.liftBTR [0x48ebf0f5#32] 0x1000).isSome = true := by decide    -- bl
example : (Isa.Ppc.liftBTR [0x4e800020#32] 0x1000).isSome = true := by decide    -- blr

end Falcon.C02
