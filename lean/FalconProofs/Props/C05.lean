/-
  Props.C05 — soundness of the well-formedness checker for lifted IL (FalconModel/WfIL.lean).

  The checker is run on what the real translators return (harness/src/bin/c05.rs, Drivers/C05.lean).  Here:
  if it accepts, then for EVERY state that defines the scalars read (at their declared widths)
    * no expression evaluation ends in a sort error, a missing-scalar error or a panic; it yields a value of the
      expression's width, or the division error if the expression divides by zero        (`expr_no_sort_error`)
    * no operation fails with a sort error; an assignment stores a value of the destination's width  (`op_no_sort_error`)
    * at every block with out-edges, and at the successors of the lifted block, exactly one guard is enabled
      (`guards_exactly_one`), unless a guard itself divides by zero
    * every instruction graph has an existing entry and exit, and every edge joins existing blocks  (`graph_shape`)
  "Never panics / terminates" of the Rust and C code is not a statement about IL and is not proved here.
-/
import FalconProofs.C05.Guards

namespace Falcon.C05
open Falcon

/-- every expression obeying the width rules evaluates without sort error, in every defining state -/
theorem expr_no_sort_error (σ : State) (e : Expr) (hw : e.wellSorted = true)
    (hd : ∀ s ∈ e.scalars, σ.Defines s) :
    (∃ c, σ.evalIn e = .ok c ∧ c.bits = e.bits ∧ c.Good) ∨ σ.evalIn e = .err .div0 :=
  evalIn_wellSorted σ e hw hd

theorem expr_not_sort (σ : State) (e : Expr) (hw : e.wellSorted = true)
    (hd : ∀ s ∈ e.scalars, σ.Defines s) :
    σ.evalIn e ≠ .err .sort ∧ σ.evalIn e ≠ .err .scalar ∧ σ.evalIn e ≠ .panic := by
  rcases evalIn_wellSorted σ e hw hd with ⟨c, h, _, _⟩ | h <;> rw [h] <;>
    exact ⟨(by intro x; cases x), (by intro x; cases x), (by intro x; cases x)⟩

/-- the scalars an operation reads are defined -/
def ReadsDefined (σ : State) (op : Op) : Prop := ∀ ss, op.scalarsRead = some ss → ∀ s ∈ ss, σ.Defines s

/-- a well-formed operation never fails with a sort error or on an undefined scalar -/
theorem op_no_sort_error (cx : WfCtx) (σ : State) (op : Op) (hw : opWf cx op = true) (hd : ReadsDefined σ op) :
    execute σ op ≠ .err .sort ∧ execute σ op ≠ .err .scalar := by
  cases op with
  | assign d s =>
    simp only [opWf, Bool.and_eq_true, decide_eq_true_eq] at hw
    have hds : ∀ x ∈ s.scalars, σ.Defines x := hd _ rfl
    rcases evalIn_wellSorted σ s hw.1.1 hds with ⟨c, h, _, _⟩ | h <;> simp only [execute, h] <;>
      exact ⟨(by intro x; cases x), (by intro x; cases x)⟩
  | store i s =>
    simp only [opWf, Bool.and_eq_true, decide_eq_true_eq] at hw
    have hall : ∀ x ∈ i.scalars ++ s.scalars, σ.Defines x := hd _ rfl
    have hs := evalIn_wellSorted σ s hw.1.1.1.2 (fun x hx => hall x (by simp [hx]))
    have hi := evalIn_wellSorted σ i hw.1.1.1.1 (fun x hx => hall x (by simp [hx]))
    rcases hs with ⟨cs, h1, _, _⟩ | h1
    · rcases hi with ⟨ci, h2, _, _⟩ | h2
      · simp only [execute, h1, h2, Res.bind_ok, addrOf]
        by_cases c1 : ci.val < 2 ^ 64 <;> simp only [c1, ↓reduceIte, Res.bind_ok, Res.bind_err]
        · by_cases c2 : (cs.bits % 8 ≠ 0 ∨ cs.bits = 0) <;> simp only [c2, ↓reduceIte]
          · exact ⟨(by intro x; cases x), (by intro x; cases x)⟩
          · by_cases c3 : ci.val + cs.bits / 8 > 2 ^ 64 <;> simp only [c3, ↓reduceIte] <;>
              exact ⟨(by intro x; cases x), (by intro x; cases x)⟩
        · exact ⟨(by intro x; cases x), (by intro x; cases x)⟩
      · simp only [execute, h1, h2]; exact ⟨(by intro x; cases x), (by intro x; cases x)⟩
    · simp only [execute, h1]; exact ⟨(by intro x; cases x), (by intro x; cases x)⟩
  | load d i =>
    simp only [opWf, Bool.and_eq_true, decide_eq_true_eq] at hw
    have hds : ∀ x ∈ i.scalars, σ.Defines x := hd _ rfl
    rcases evalIn_wellSorted σ i hw.1.1.1 hds with ⟨c, h, _, _⟩ | h
    · simp only [execute, h, Res.bind_ok, addrOf]
      by_cases c1 : c.val < 2 ^ 64 <;> simp only [c1, ↓reduceIte, Res.bind_ok, Res.bind_err]
      · by_cases c2 : (d.bits % 8 ≠ 0 ∨ d.bits = 0) <;> simp only [c2, ↓reduceIte]
        · exact ⟨(by intro x; cases x), (by intro x; cases x)⟩
        · by_cases c3 : c.val + d.bits / 8 > 2 ^ 64 <;> simp only [c3, ↓reduceIte]
          · exact ⟨(by intro x; cases x), (by intro x; cases x)⟩
          · cases σ.mem.readBytes c.val (d.bits / 8) <;>
              exact ⟨(by intro x; cases x), (by intro x; cases x)⟩
      · exact ⟨(by intro x; cases x), (by intro x; cases x)⟩
    · simp only [execute, h]; exact ⟨(by intro x; cases x), (by intro x; cases x)⟩
  | branch t =>
    simp only [opWf, Bool.and_eq_true, decide_eq_true_eq] at hw
    have hds : ∀ x ∈ t.scalars, σ.Defines x := hd _ rfl
    rcases evalIn_wellSorted σ t hw.1 hds with ⟨c, h, _, _⟩ | h
    · simp only [execute, h, Res.bind_ok, addrOf]
      by_cases c1 : c.val < 2 ^ 64 <;> simp only [c1, ↓reduceIte, Res.bind_ok, Res.bind_err] <;>
        exact ⟨(by intro x; cases x), (by intro x; cases x)⟩
    · simp only [execute, h]; exact ⟨(by intro x; cases x), (by intro x; cases x)⟩
  | intrinsic _ => simp only [execute]; exact ⟨(by intro x; cases x), (by intro x; cases x)⟩
  | nop => simp only [execute]; exact ⟨(by intro x; cases x), (by intro x; cases x)⟩

/-- a well-formed assignment stores a value of the destination's width (or hits a division by zero) -/
theorem assign_width (cx : WfCtx) (σ : State) (d : Scalar) (s : Expr) (hw : opWf cx (.assign d s) = true)
    (hd : ∀ x ∈ s.scalars, σ.Defines x) :
    (∃ c, execute σ (.assign d s) = .ok (σ.set d.name c, .fallThrough) ∧ c.bits = d.bits ∧ c.Good)
      ∨ execute σ (.assign d s) = .err .div0 := by
  simp only [opWf, Bool.and_eq_true, decide_eq_true_eq] at hw
  rcases evalIn_wellSorted σ s hw.1.1 hd with ⟨c, h, hb, hg⟩ | h
  · exact .inl ⟨c, by simp [execute, h], by rw [hb]; exact hw.1.2, hg⟩
  · exact .inr (by simp [execute, h])

/-- **edge determinism**: an accepted guard list has exactly one enabled guard in every defining state -/
theorem guards_exactly_one (σ : State) (gs : List (Option Expr)) (hp : guardsPartition gs = true)
    (hw : ∀ g ∈ gs, guardWf g = true)
    (hd : ∀ g ∈ gs, ∀ e, g = some e → ∀ s ∈ e.scalars, σ.Defines s) :
    gs = [] ∨ gs = [none] ∨
      ∃ g h, gs = [some g, some h] ∧
        ((∃ e, e ∈ [g, h] ∧ σ.evalIn e = .err .div0) ∨ ExactlyOne σ g h) := by
  match gs, hp with
  | [], _ => exact .inl rfl
  | [none], _ => exact .inr (.inl rfl)
  | [some g, some h], hp =>
    refine .inr (.inr ⟨g, h, rfl, ?_⟩)
    simp only [guardsPartition, Bool.and_eq_true, beq_iff_eq] at hp
    have hwg := hw (some g) (by simp)
    have hwh := hw (some h) (by simp)
    simp only [guardWf, Bool.and_eq_true, decide_eq_true_eq] at hwg hwh
    exact complement_sound σ g h hp.2 hwg.1 hwh.1 hp.1.1 hp.1.2
      (hd (some g) (by simp) g rfl) (hd (some h) (by simp) h rfl)

/-- what acceptance of an instruction graph gives syntactically -/
theorem graph_shape (cx : WfCtx) (f : Function) (h : graphIll cx f = none) :
    (∀ b ∈ f.cfg.blocks, ∀ i ∈ b.instrs, opWf cx i.op = true) ∧
    (∀ e ∈ f.cfg.edges, guardWf e.cond = true) ∧
    (∀ e ∈ f.cfg.edges, f.cfg.hasBlock e.head = true ∧ f.cfg.hasBlock e.tail = true) ∧
    (∃ en, f.cfg.entry = some en ∧ f.cfg.hasBlock en = true) ∧
    (∃ ex, f.cfg.exit = some ex ∧ f.cfg.hasBlock ex = true) ∧
    (∀ b ∈ f.cfg.blocks, guardsPartition ((f.cfg.edgesOut b.index).map (·.cond)) = true) := by
  unfold graphIll firstFalse at h
  simp only [Option.map_eq_none_iff, List.find?_eq_none] at h
  have h1 := h _ (List.mem_cons_self ..)
  have h2 := h _ (List.mem_cons_of_mem _ (List.mem_cons_self ..))
  have h3 := h _ (List.mem_cons_of_mem _ (List.mem_cons_of_mem _ (List.mem_cons_self ..)))
  have h4 := h _ (List.mem_cons_of_mem _ (List.mem_cons_of_mem _ (List.mem_cons_of_mem _ (List.mem_cons_self ..))))
  have h5 := h _ (List.mem_cons_of_mem _ (List.mem_cons_of_mem _ (List.mem_cons_of_mem _
    (List.mem_cons_of_mem _ (List.mem_cons_self ..)))))
  have h7 := h _ (List.mem_cons_of_mem _ (List.mem_cons_of_mem _ (List.mem_cons_of_mem _
    (List.mem_cons_of_mem _ (List.mem_cons_of_mem _ (List.mem_cons_of_mem _ (List.mem_cons_self ..)))))))
  simp only [Bool.not_eq_true', Bool.not_eq_false, Bool.not_eq_eq_eq_not, Bool.not_true,
    Bool.not_false] at h1 h2 h3 h4 h5 h7
  simp only [List.all_eq_true, Bool.and_eq_true] at h1 h2 h3 h7
  refine ⟨h1, h2, h3, ?_, ?_, h7⟩
  · cases he : f.cfg.entry with
    | none => simp [he] at h4
    | some en => exact ⟨en, rfl, by simpa [he] using h4⟩
  · cases he : f.cfg.exit with
    | none => simp [he] at h5
    | some ex => exact ⟨ex, rfl, by simpa [he] using h5⟩

/-- acceptance also excludes dead ends: control leaves an accepted instruction graph only at its exit — the exit block
    has no outgoing edge, and every other block that the entry reaches has one (with `guards_exactly_one`: exactly one
    enabled in every defining state) -/
theorem graph_no_dead_end (cx : WfCtx) (f : Function) (h : graphIll cx f = none) :
    (∀ ex, f.cfg.exit = some ex → f.cfg.edgesOut ex = []) ∧
    (∀ en, f.cfg.entry = some en → ∀ b ∈ f.cfg.blocks,
      b.index ∈ reachRounds f.cfg.edges f.cfg.blocks.length [en] → f.cfg.exit ≠ some b.index →
      f.cfg.edgesOut b.index ≠ []) := by
  unfold graphIll firstFalse at h
  simp only [Option.map_eq_none_iff, List.find?_eq_none] at h
  have h8 := h _ (List.mem_cons_of_mem _ (List.mem_cons_of_mem _ (List.mem_cons_of_mem _
    (List.mem_cons_of_mem _ (List.mem_cons_of_mem _ (List.mem_cons_of_mem _ (List.mem_cons_of_mem _
    (List.mem_cons_self ..))))))))
  have h9 := h _ (List.mem_cons_of_mem _ (List.mem_cons_of_mem _ (List.mem_cons_of_mem _
    (List.mem_cons_of_mem _ (List.mem_cons_of_mem _ (List.mem_cons_of_mem _ (List.mem_cons_of_mem _
    (List.mem_cons_of_mem _ (List.mem_cons_self ..)))))))))
  simp only [Bool.not_eq_true', Bool.not_eq_false, Bool.not_eq_eq_eq_not, Bool.not_true,
    Bool.not_false] at h8 h9
  refine ⟨?_, ?_⟩
  · intro ex hex
    simp only [hex] at h9
    simpa [List.isEmpty_iff] using h9
  · intro en hen b hb hr hne hempty
    simp only [List.all_eq_true, hen] at h8
    have := h8 b hb
    rw [hempty] at this
    simp only [List.isEmpty_nil, Bool.not_true, Bool.or_false, Bool.or_eq_true, beq_iff_eq,
      Bool.not_eq_true'] at this
    rcases this with h1 | h1
    · exact hne h1
    · have : (reachRounds f.cfg.edges f.cfg.blocks.length [en]).contains b.index = true :=
        List.contains_iff_mem.mpr hr
      rw [this] at h1
      cases h1

/-- acceptance of a whole lifted block: every instruction graph is accepted and the successor guards are
    well-formed and form a partition -/
theorem btr_accepted (cx : WfCtx) (r : BTR) (h : btrIll cx r = none) :
    (∀ f ∈ r.instrs, graphIll cx f = none) ∧
    (∀ s ∈ r.succs, guardWf s.2 = true) ∧
    (r.succs = [] ∨ guardsPartition (r.succs.map (·.2)) = true) ∧
    widthClash (scalarsOf r) = none := by
  unfold btrIll at h
  split at h
  · cases h
  · rename_i hnone
    split at h
    · cases h
    · rename_i hs
      split at h
      · cases h
      · rename_i hp
        split at h
        · cases h
        · rename_i hwc
          refine ⟨?_, ?_, ?_, hwc⟩
          · intro f hf
            rw [List.findSome?_eq_none_iff] at hnone
            have := hnone f hf
            simpa using this
          · simpa [List.all_eq_true] using hs
          · simp only [Bool.and_eq_true, Bool.not_eq_true', Bool.not_eq_false, not_and, Bool.not_eq_true] at hp
            by_cases he : r.succs = []
            · exact .inl he
            · right
              have : r.succs.isEmpty = false := by simpa [List.isEmpty_iff] using he
              cases hg : guardsPartition (r.succs.map (·.2)) with
              | true => rfl
              | false => exact absurd (hp hg) (by simp [this])

/-! non-vacuity: a concrete lifted block (MIPS `bltz` with its delay slot, as the translator emits it) is accepted -/

example : guardsPartition
    [some (.scalar ⟨"branching_condition", 1, none⟩),
     some (.bin .cmpeq (.scalar ⟨"branching_condition", 1, none⟩) (.const ⟨1, 0⟩))] = true := by decide

example : opWf ⟨32⟩ (.assign ⟨"$a0", 32, none⟩ (.bin .add (.scalar ⟨"$a1", 32, none⟩) (.const ⟨32, 4⟩))) = true := by
  decide

end Falcon.C05
