import FalconModel.WfIL
namespace Falcon.C05
open Falcon

/-- placeholder obligation while the soundness proof is being written: the checker accepts the empty result -/
theorem btrIll_empty (cx : WfCtx) : btrIll cx { addr := 0, length := 0, instrs := [], succs := [] } = none := by
  simp [btrIll, widthClash, scalarsOf, guardsPartition]

end Falcon.C05
