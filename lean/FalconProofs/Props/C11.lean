/-
  Props.C11 — "Graph algorithms equal their textbook definitions on every graph".

  Container (pattern P1, mirror `FalconModel/Graph.lean` of lib/graph/mod.rs):
    edits_consistent, edit_refines, edits_refine, consistent_edges_in,
    vertex_queries_present, vertex_queries_absent, removed_vertex_queries_fail
  Algorithms (pattern P2, definitional models `FalconModel/GraphAlg.lean`, all built on `reach`):
    reach_spec, reach_spec_general, dominates_spec, doms_spec, idom_spec, idom_unique, idom_exists,
    idom_root, domTree_spec,
    frontier_spec, backEdges_spec, loopNodes_spec, loops_spec, loopTree_spec, loop_header_dominates,
    nesting_inclusion, acyclic_spec,
    reducible_spec, tpreds_spec, hasCycle_spec, analyse_sound
  Order-valued functions (pattern P3, verified checkers):
    isTopo_sound, topo_implies_acyclic, cycle_excludes_topo, isPreorder_sound, isPostorder_sound,
    checkAcyclicGraph_sound
  All statements quantify over every finite graph `(V, E)` (any vertex ids, self-loops, irreducible
  regions, unreachable parts), every root and every finite edit history; nothing is bounded.

  (`idom_exists`: every reachable vertex other than the root has an immediate dominator.)
-/
import FalconProofs.C11.Edits
import FalconProofs.C11.Orders
import FalconProofs.C11.IdomExists
import FalconProofs.C11.Nesting
import FalconProofs.C11.Queries

namespace Falcon.C11
open Falcon.Reach Falcon.G Falcon.GA

/-! ## container -/

/-- **edits_consistent**: after every finite sequence of vertex/edge insertions and removals (including
    `remove_unreachable_vertices`; failing operations leave the graph unchanged) starting from the empty
    graph, no operation has panicked and the vertex, edge, successor and predecessor views are mutually
    consistent; moreover the container represents exactly the abstract graph obtained by running the
    same history on sets (V, E). -/
theorem edits_consistent (ops : List Op) :
    ∃ g, runOps Graph.empty ops = some g ∧ g.Consistent ∧ Rep g (runSpecOps SGraph.empty ops) :=
  runOps_refines ops Graph.empty SGraph.empty Graph.consistent_empty
    ⟨fun _ => Iff.rfl, fun _ => Iff.rfl⟩

/-- **edit_refines**: on a consistent container every single operation either succeeds exactly when the
    abstract operation succeeds (and yields a consistent container representing the abstract result) or
    fails with the same error as the abstract operation, i.e. exactly when its documented precondition
    fails (duplicate vertex/edge, missing vertex, missing edge); it never panics. -/
theorem edit_refines (g : Graph) (s : SGraph) (c : g.Consistent) (hr : Rep g s) (op : Op) :
    (∃ g' s', op.apply g = .ok g' ∧ s.apply op = .ok s' ∧ g'.Consistent ∧ Rep g' s') ∨
    (∃ e, op.apply g = .err e ∧ s.apply op = .err e) :=
  apply_refines g s c hr op

/-- **edits_refine**: the same from any consistent starting point. -/
theorem edits_refine (ops : List Op) (g : Graph) (s : SGraph) (c : g.Consistent) (hr : Rep g s) :
    ∃ g', runOps g ops = some g' ∧ g'.Consistent ∧ Rep g' (runSpecOps s ops) :=
  runOps_refines ops g s c hr

/-- in a consistent container every edge joins two vertices of the graph -/
theorem consistent_edges_in (g : Graph) (c : g.Consistent) (h t : Nat) (he : (h, t) ∈ g.edges) :
    h ∈ g.verts ∧ t ∈ g.verts := c.edges_in he

/-- **vertex_queries_present**: in a consistent container every public per-vertex query on a vertex
    (`has_vertex`, `vertex`, `successor_indices`, `predecessor_indices`, `successors`, `predecessors`,
    `edges_out`, `edges_in`) answers Ok with the successor / predecessor set of that vertex. -/
theorem vertex_queries_present (g : Graph) (c : g.Consistent) (v : Nat) (hv : v ∈ g.verts) :
    g.hasVertex v = true ∧ g.qVertex v = .ok () ∧
    g.qSuccIdx v = .ok (g.succOf v) ∧ g.qPredIdx v = .ok (g.predOf v) ∧
    g.qSuccessors v = .ok (g.succOf v) ∧ g.qPredecessors v = .ok (g.predOf v) ∧
    g.qEdgesOut v = .ok (g.succOf v) ∧ g.qEdgesIn v = .ok (g.predOf v) :=
  Graph.queries_present g c v hv

/-- **vertex_queries_absent**: … and on any id that is not a vertex all of them answer vertex-not-found. -/
theorem vertex_queries_absent (g : Graph) (c : g.Consistent) (v : Nat) (hv : v ∉ g.verts) :
    g.hasVertex v = false ∧ g.qVertex v = .err (.vnf v) ∧
    g.qSuccIdx v = .err (.vnf v) ∧ g.qPredIdx v = .err (.vnf v) ∧
    g.qSuccessors v = .err (.vnf v) ∧ g.qPredecessors v = .err (.vnf v) ∧
    g.qEdgesOut v = .err (.vnf v) ∧ g.qEdgesIn v = .err (.vnf v) :=
  Graph.queries_absent g c v hv

/-- **removed_vertex_queries_fail**: after `remove_vertex(v)` every per-vertex query on `v` answers
    vertex-not-found: the removed id is gone from all four views, not only from `vertices`. -/
theorem removed_vertex_queries_fail (g g' : Graph) (v : Nat) (c : g.Consistent) (h : g.removeVertex v = .ok g') :
    g'.hasVertex v = false ∧ g'.qVertex v = .err (.vnf v) ∧
    g'.qSuccIdx v = .err (.vnf v) ∧ g'.qPredIdx v = .err (.vnf v) ∧
    g'.qSuccessors v = .err (.vnf v) ∧ g'.qPredecessors v = .err (.vnf v) ∧
    g'.qEdgesOut v = .err (.vnf v) ∧ g'.qEdgesIn v = .err (.vnf v) :=
  Graph.removed_vertex_queries_fail g g' v c h

example : ∃ g, runOps Graph.empty [.iv 1, .iv 2, .ie 1 2, .ie 2 2, .ie 1 3, .rv 2, .ru 1] = some g ∧ g.Consistent :=
  let ⟨g, h, c, _⟩ := edits_consistent [.iv 1, .iv 2, .ie 1 2, .ie 2 2, .ie 1 3, .rv 2, .ru 1]
  ⟨g, h, c⟩

/-! ## reachability -/

/-- **reach_spec** (general form, reusable): for any successor function whose targets lie in `univ`,
    `reach` is exactly the set of vertices connected to `r` by a path. -/
theorem reach_spec_general (succ : Nat → List Nat) (univ : List Nat) (hu : ∀ u v, v ∈ succ u → v ∈ univ)
    (r v : Nat) : v ∈ reach succ univ r ↔ Path succ r v :=
  Falcon.Reach.reach_spec univ hu r v

/-- **reach_spec**: on every finite graph (V, E), `v ∈ reachE V E r` iff there is a path from `r` to `v`. -/
theorem reach_spec (V : List Nat) (E : EL) (r v : Nat) : v ∈ reachE V E r ↔ Path (succE E) r v :=
  reachE_spec V E r v

/-- the closure procedure with explicit fuel: whenever it answers, the answer is the reachable set -/
theorem reachAux_spec (succ : Nat → List Nat) (fuel : Nat) (roots out : List Nat)
    (h : reachAux succ fuel roots = some out) (v : Nat) : v ∈ out ↔ ∃ r, r ∈ roots ∧ Path succ r v :=
  Falcon.Reach.reachAux_spec fuel roots out h v

example : 3 ∈ reachE [1, 2, 3, 4] [(1, 2), (2, 3), (4, 1)] 1 ∧ 4 ∉ reachE [1, 2, 3, 4] [(1, 2), (2, 3), (4, 1)] 1 := by
  decide

/-! ## dominators -/

/-- **dominates_spec**: `d` dominates `v` iff `v` is reachable from the root and every path from the root
    to `v` passes through `d` (the property's own example sentence). -/
theorem dominates_spec (V : List Nat) (E : EL) (r d v : Nat) :
    dominates V E r d v = true ↔
      (Path (succE E) r v ∧ ∀ p, Walk (succE E) r v p → d ∈ p) :=
  GA.dominates_spec V E r d v

theorem doms_spec (V : List Nat) (E : EL) (r v d : Nat) : d ∈ doms V E r v ↔ Dom E r d v :=
  GA.doms_spec V E r v d

/-- **idom_spec**: the model answers `some d` exactly when `d` is a strict dominator of `v` that every
    strict dominator of `v` dominates -/
theorem idom_spec (V : List Nat) (E : EL) (r v d : Nat) : idom V E r v = some d ↔ IsIdom E r d v :=
  GA.idom_spec V E r v d

/-- immediate dominators are unique (dominance is antisymmetric) -/
theorem idom_unique (E : EL) (r d d' v : Nat) (h : IsIdom E r d v) (h' : IsIdom E r d' v) : d = d' :=
  GA.idom_unique h h'

/-- **idom_exists**: every vertex reachable from the root, other than the root, has an immediate
    dominator, and the model finds it (the dominators of a vertex form a chain) -/
theorem idom_exists (V : List Nat) (E : EL) (r v : Nat) (hv : Path (succE E) r v) (hne : v ≠ r) :
    ∃ d, idom V E r v = some d ∧ IsIdom E r d v :=
  let ⟨d, hd⟩ := GA.idom_exists V E r v hv hne
  ⟨d, (GA.idom_spec V E r v d).mpr hd, hd⟩

/-- the root has no immediate dominator -/
theorem idom_root (V : List Nat) (E : EL) (r : Nat) : idom V E r r = none := by
  cases h : idom V E r r with
  | none => rfl
  | some d =>
    have hd := ((GA.idom_spec V E r r d).mp h).1
    have := hd.2.2 [r] (Walk.single r)
    exact absurd (List.mem_singleton.mp this) hd.1

theorem domTree_spec (V : List Nat) (E : EL) (r d v : Nat) : (d, v) ∈ domTree V E r ↔ IsIdom E r d v :=
  GA.domTree_spec V E r d v

theorem frontier_spec (V : List Nat) (E : EL) (r n w : Nat) :
    w ∈ frontier V E r n ↔ (∃ p, (p, w) ∈ E ∧ Dom E r n p) ∧ ¬ SDom E r n w :=
  GA.frontier_spec V E r n w

-- the Wikipedia graph of falcon's own tests; 2 dominates 5, 3 does not, idom 5 = 2, DF(3) = {5}
example : dominates [1,2,3,4,5,6] [(1,2),(2,3),(2,4),(2,6),(3,5),(4,5),(5,2)] 1 2 5 = true
    ∧ dominates [1,2,3,4,5,6] [(1,2),(2,3),(2,4),(2,6),(3,5),(4,5),(5,2)] 1 3 5 = false := by decide

example : Dom [(1,2),(2,3),(2,4),(2,6),(3,5),(4,5),(5,2)] 1 2 5 :=
  (GA.dominates_spec [1,2,3,4,5,6] _ 1 2 5).mp (by decide)

/-! ## loops, reducibility, acyclicity, transitive predecessors -/

theorem backEdges_spec (V : List Nat) (E : EL) (r t h : Nat) : (t, h) ∈ backEdges V E r ↔ BackEdge E r t h :=
  GA.backEdges_spec V E r t h

theorem loopNodes_spec (V : List Nat) (E : EL) (r h v : Nat) : v ∈ loopNodes V E r h ↔ InLoop E r h v :=
  GA.loopNodes_spec V E r h v

theorem loops_spec (V : List Nat) (E : EL) (r h : Nat) (ns : List Nat) :
    (h, ns) ∈ loops V E r ↔ (∃ t, BackEdge E r t h) ∧ ns = loopNodes V E r h :=
  GA.loops_spec V E r h ns

theorem loopTree_spec (V : List Nat) (E : EL) (r h₁ h₂ : Nat) :
    (h₁, h₂) ∈ loopTree V E r ↔
      (∃ t, BackEdge E r t h₁) ∧ (∃ t, BackEdge E r t h₂) ∧ h₁ ≠ h₂ ∧ InLoop E r h₁ h₂ :=
  GA.loopTree_spec V E r h₁ h₂

/-- every vertex of a natural loop is dominated by its header -/
theorem loop_header_dominates (E : EL) (r h v : Nat) (hb : ∃ t, BackEdge E r t h) (hv : InLoop E r h v) :
    Dom E r h v := GA.inLoop_dom hb hv

/-- **nesting_inclusion**: falcon's nesting test (different headers, inner header inside the outer loop)
    is the textbook one (the inner loop's node set is contained in the outer loop's) -/
theorem nesting_inclusion (E : EL) (r h₁ h₂ : Nat) (hb₁ : ∃ t, BackEdge E r t h₁) (hb₂ : ∃ t, BackEdge E r t h₂)
    (hne : h₁ ≠ h₂) : InLoop E r h₁ h₂ ↔ ∀ v, InLoop E r h₂ v → InLoop E r h₁ v :=
  GA.nesting_inclusion hb₁ hb₂ hne

theorem acyclic_spec (V : List Nat) (E : EL) (r : Nat) :
    acyclic V E r = true ↔ ¬ ∃ v, Path (succE E) r v ∧ PathPlus (succE E) v v :=
  GA.acyclic_spec V E r

theorem reducible_spec (V : List Nat) (E : EL) (r : Nat) :
    reducible V E r = true ↔ ¬ ∃ v, Path (succE E) r v ∧ PathPlus (succE (fwdEdges V E r)) v v :=
  GA.reducible_spec V E r

/-- the forward-edge graph used by `reducible_spec` is the graph minus its back edges -/
theorem fwdEdges_spec (V : List Nat) (E : EL) (r : Nat) (e : Nat × Nat) :
    e ∈ fwdEdges V E r ↔ e ∈ E ∧ ¬ BackEdge E r e.1 e.2 :=
  GA.mem_fwdEdges V E r e

theorem tpreds_spec (V : List Nat) (E : EL) (v u : Nat) : u ∈ tpreds V E v ↔ PathPlus (succE E) u v :=
  GA.tpreds_spec V E v u

theorem hasCycle_spec (V : List Nat) (E : EL) : hasCycle V E = true ↔ ∃ v, PathPlus (succE E) v v :=
  GA.hasCycle_spec V E

/-- the shared evaluation the driver uses (tables) computes the definitional objects -/
theorem analyse_sound (V : List Nat) (E : EL) (r : Nat) :
    (analyse V E r).R = reachE V E r ∧ (analyse V E r).dom = dominates V E r ∧ (analyse V E r).rs = reachE V E :=
  ⟨analyse_R V E r, analyse_dom V E r, analyse_rs V E r⟩

-- the irreducible triangle is not reducible and is cyclic; the nested-loop graph is reducible
example : reducible [1,2,3] [(1,2),(1,3),(2,3),(3,2)] 1 = false ∧ acyclic [1,2,3] [(1,2),(1,3),(2,3),(3,2)] 1 = false
    ∧ reducible [1,2,3,4,5] [(1,2),(2,3),(3,4),(3,2),(4,5),(4,1)] 1 = true := by decide

example : loops [1,2,3,4,5] [(1,2),(2,3),(3,4),(3,2),(4,5),(4,1)] 1 = [(2, [2, 3]), (1, [1, 2, 3, 4])] := by decide

/-! ## order-valued functions: verified checkers -/

theorem isTopo_sound (V : List Nat) (E : EL) (xs : List Nat) : isTopo V E xs = true ↔ IsTopo V E xs :=
  GA.isTopo_sound V E xs

theorem topo_implies_acyclic (V : List Nat) (E : EL) (xs : List Nat) (h : isTopo V E xs = true) :
    ¬ ∃ v, PathPlus (succE E) v v :=
  GA.topo_acyclic ((GA.isTopo_sound V E xs).mp h)

theorem cycle_excludes_topo (V : List Nat) (E : EL) (h : hasCycle V E = true) (xs : List Nat) :
    isTopo V E xs = false :=
  GA.cycle_excludes_topo V E h xs

theorem isPreorder_sound (V : List Nat) (E : EL) (r : Nat) (pre : List Nat) (h : isPreorder V E r pre = true) :
    (∃ post, IsDfs (succE E) r pre post) ∧ pre.Nodup ∧ ∀ v, v ∈ pre ↔ Path (succE E) r v :=
  GA.isPreorder_sound V E r pre h

theorem isPostorder_sound (V : List Nat) (E : EL) (r : Nat) (post : List Nat) (h : isPostorder V E r post = true) :
    (∃ pre, IsDfs (succE E) r pre post) ∧ post.Nodup ∧ ∀ v, v ∈ post ↔ Path (succE E) r v :=
  GA.isPostorder_sound V E r post h

theorem checkAcyclicGraph_sound (V : List Nat) (E : EL) (r : Nat) (V' : List Nat) (E' : EL)
    (h : checkAcyclicGraph V E r V' E' = true) :
    (∀ v, v ∈ V' ↔ v ∈ V) ∧ E'.Nodup ∧ (∀ e, e ∈ E' → e ∈ E) ∧ (¬ ∃ v, PathPlus (succE E') v v) ∧
      ∀ v, Path (succE E') r v ↔ Path (succE E) r v :=
  GA.checkAcyclicGraph_sound V E r V' E' h

-- falcon's own test vectors are accepted, a wrong order is rejected
example : isPreorder [1,2,3,4,5,6] [(1,2),(2,3),(2,4),(2,6),(3,5),(4,5),(5,2)] 1 [1,2,6,4,5,3] = true
    ∧ isPostorder [1,2,3,4,5,6] [(1,2),(2,3),(2,4),(2,6),(3,5),(4,5),(5,2)] 1 [5,3,4,6,2,1] = true
    ∧ isPreorder [1,2,3,4,5,6] [(1,2),(2,3),(2,4),(2,6),(3,5),(4,5),(5,2)] 1 [1,2,6,4,3,5] = false
    ∧ isTopo [1,2,3] [(1,2),(2,3)] [1,2,3] = true ∧ isTopo [1,2,3] [(1,2),(2,3)] [2,1,3] = false := by decide

end Falcon.C11
