/-
  FalconProofs.Props.C19 — ELF loading maps exactly the image and rebases uniformly.

  The model (FalconModel/Elf.lean) is the definition the property states, computed from a structured
  description of the file (what the goblin parser hands to falcon); the correspondence check compares
  it with the real loader on generated files.  The theorems below say that this definition has the
  shape the property's sentence gives it.
-/
import FalconProofs.C19.Image
import FalconProofs.C19.Entries
import FalconProofs.C19.Symbols
import FalconProofs.C19.Link
import FalconProofs.C19.History
import FalconProofs.C19.Additive

namespace Falcon.C19
open Falcon.Elf

/-- **The image is exact.**  For a well-formed description (every PT_LOAD has exactly `filesz` bytes,
    `filesz ≤ memsz`, memory ranges pairwise disjoint), loaded at any base `B`, for every loadable
    segment `p`: the file byte `i` is at `p_vaddr + B + i` with the segment's permissions; the
    addresses from `filesz` up to `memsz` hold zero with the same permissions; and nothing else is
    mapped: every mapped address lies in the memory range of some loadable segment. -/
theorem image_exact (d : ElfDesc) (hwf : d.wf = true) (B : Nat) :
    (∀ p ∈ d.phdrs, p.isLoad = true →
        (∀ i b, p.bytes[i]? = some b → image d B (p.vaddr + B + i) = some (b, permOf p.flags)) ∧
        (∀ i, p.filesz ≤ i → i < p.memsz → image d B (p.vaddr + B + i) = some (0, permOf p.flags))) ∧
    (∀ a x, image d B a = some x →
        ∃ p ∈ d.phdrs, p.isLoad = true ∧ p.vaddr + B ≤ a ∧ a < p.vaddr + B + p.memsz) := by
  simp only [ElfDesc.wf, Bool.and_eq_true, List.all_eq_true] at hwf
  refine ⟨fun p hp hl => ⟨fun i b hb => ?_, fun i h1 h2 => ?_⟩, fun a x h => ?_⟩
  · have hw := hwf.1 p hp
    simp only [PHdr.wf, hl, Bool.not_true, Bool.false_or, Bool.and_eq_true, beq_iff_eq,
      decide_eq_true_eq] at hw
    have hi : i < p.bytes.length := by
      rcases Nat.lt_or_ge i p.bytes.length with h | h
      · exact h
      · rw [List.getElem?_eq_none h] at hb; cases hb
    have hc : p.covers B (p.vaddr + B + i) = true := by rw [covers_iff]; exact ⟨hl, by omega, by omega⟩
    rw [image, imageOf_covers d.phdrs B _ hwf.2 p hp hc]
    have e : p.vaddr + B + i - (p.vaddr + B) = i := by omega
    have hf : i < p.filesz := by omega
    simp only [e, PHdr.byteAt, hf, if_true, List.getD_eq_getElem?_getD, hb, Option.getD_some]
  · have hc : p.covers B (p.vaddr + B + i) = true := by rw [covers_iff]; exact ⟨hl, by omega, by omega⟩
    rw [image, imageOf_covers d.phdrs B _ hwf.2 p hp hc]
    have e : p.vaddr + B + i - (p.vaddr + B) = i := by omega
    have hf : ¬ i < p.filesz := by omega
    simp only [e, PHdr.byteAt, hf, if_false]
  · obtain ⟨p, hp, hc, _⟩ := imageOf_some d.phdrs B a x h
    rw [covers_iff] at hc
    exact ⟨p, hp, hc⟩

/-- Permissions are the R/W/X bits of `p_flags`, nothing else of it. -/
theorem perm_bits (flags : Nat) :
    permOf flags = (if flags.testBit 2 then 1 else 0) + (if flags.testBit 1 then 2 else 0)
      + (if flags.testBit 0 then 4 else 0) := rfl

/-- **Architecture and endianness are those named in the header** (for the seven consistent
    combinations of machine, class and data encoding). -/
theorem arch_named (d : ElfDesc) (h : headerConsistent d = true) :
    ∃ a, arch d = .ok a ∧ a.big = (d.enc == .msb) ∧
      (d.machine = EM_386 → a.name = "x86") ∧ (d.machine = EM_X86_64 → a.name = "amd64") ∧
      (d.machine = EM_MIPS → a.name = if d.enc == .msb then "mips" else "mipsel") ∧
      (d.machine = EM_PPC → a.name = "ppc") ∧
      (d.machine = EM_AARCH64 → a.name = if d.enc == .msb then "aarch64eb" else "aarch64") := by
  simp only [headerConsistent, Bool.or_eq_true, Bool.and_eq_true, beq_iff_eq] at h
  unfold arch
  rcases h with (((h | h) | h) | h) | h
  · obtain ⟨⟨hm, _⟩, he⟩ := h
    simp [hm, he, EM_386, EM_X86_64, EM_MIPS, EM_PPC, EM_AARCH64]
  · obtain ⟨⟨hm, _⟩, he⟩ := h
    simp [hm, he, EM_386, EM_X86_64, EM_MIPS, EM_PPC, EM_AARCH64]
  · obtain ⟨hm, _⟩ := h
    cases he : d.enc <;> simp [hm, EM_386, EM_X86_64, EM_MIPS, EM_PPC, EM_AARCH64]
  · obtain ⟨⟨hm, _⟩, he⟩ := h
    simp [hm, he, EM_386, EM_X86_64, EM_MIPS, EM_PPC, EM_AARCH64]
  · obtain ⟨hm, _⟩ := h
    cases he : d.enc <;> simp [hm, EM_386, EM_X86_64, EM_MIPS, EM_PPC, EM_AARCH64]

/-- **Function entries are the defined function symbols, the program entry and the user-supplied
    entries**, each once, in ascending order. -/
theorem entries_exact (d : ElfDesc) (B : Nat) (users : List Nat) (a : Nat) :
    (a ∈ (entries d B users).map (·.1) ↔
      (∃ s ∈ d.dynsyms ++ d.syms, s.stType = STT_FUNC ∧ s.value ≠ 0 ∧ s.shndx ≠ 0 ∧ a = s.value + B)
      ∨ a = d.entry + B ∨ ∃ u ∈ users, a = u + B) ∧
    ((entries d B users).map (·.1)).Pairwise (· < ·) := by
  constructor
  · have hk := keys_entriesRaw d users
    simp only [entries, List.map_map, List.mem_map, Function.comp_def, shiftEntry]
    constructor
    · rintro ⟨e, he, rfl⟩
      have : e.1 ∈ keys (entriesRaw d users) := List.mem_map.mpr ⟨e, he, rfl⟩
      rcases (hk e.1).mp this with ⟨s, hs, hf, hv⟩ | h | h
      · left
        simp only [Sym.isFuncDef, Bool.and_eq_true, beq_iff_eq, bne_iff_ne, ne_eq] at hf
        exact ⟨s, hs, hf.1.1, hf.1.2, hf.2, by rw [hv]⟩
      · right; left; rw [h]
      · right; right; exact ⟨e.1, h, rfl⟩
    · intro h
      have : a - B ∈ keys (entriesRaw d users) ∧ a = a - B + B := by
        rcases h with ⟨s, hs, h1, h2, h3, rfl⟩ | rfl | ⟨u, hu, rfl⟩
        · refine ⟨(hk _).mpr (Or.inl ⟨s, hs, ?_, by omega⟩), by omega⟩
          simp [Sym.isFuncDef, h1, h2, h3]
        · exact ⟨(hk _).mpr (Or.inr (Or.inl (by omega))), by omega⟩
        · exact ⟨(hk _).mpr (Or.inr (Or.inr (by simpa using hu))), by omega⟩
      obtain ⟨e, he, hea⟩ := List.mem_map.mp this.1
      exact ⟨e, he, by rw [hea]; exact this.2.symm⟩
  · have hs := sorted_entriesRaw d users
    unfold Sorted at hs
    simp only [entries, List.map_map]
    rw [List.pairwise_map]
    exact hs.imp (fun h => by simp only [Function.comp, shiftEntry]; omega)

/-- **Rebasing is uniform.**  Loading at base `B` reports exactly what loading at base 0 reports,
    `B` higher: the image (byte and permissions of every address, and nothing below `B`), the function
    entries, the symbols and the program entry. -/
theorem rebase_uniform (d : ElfDesc) (B : Nat) (users : List Nat) :
    (∀ a, image d B (a + B) = image d 0 a) ∧ (∀ a, a < B → image d B a = none) ∧
    entries d B users = (entries d 0 users).map (fun e => (e.1 + B, e.2)) ∧
    symbols d B = (symbols d 0).map (fun s => (s.1 + B, s.2)) ∧
    programEntry d B = programEntry d 0 + B := by
  refine ⟨fun a => imageOf_shift _ B a, fun a h => imageOf_below _ B a h, ?_, symbols_shift d B, ?_⟩
  · simp [entries, shiftEntry, List.map_map, Function.comp_def]
  · simp [programEntry]

/-- The `u64` arithmetic of the loader does not interfere: when every address stays below 2^64 the
    calls return the pure definitions above (otherwise the model has them panic, as falcon built
    with overflow checks does). -/
theorem fits_ok (d : ElfDesc) (B : Nat) (users : List Nat) (h : fits d B users = true) :
    memoryRes d B = .ok (image d B) ∧ entriesRes d B users = .ok (entries d B users) ∧
    symbolsRes d B = .ok (symbols d B) ∧ programEntryRes d B = .ok (programEntry d B) := by
  simp only [fits, Bool.and_eq_true, List.all_eq_true, decide_eq_true_eq, Bool.or_eq_true,
    Bool.not_eq_true'] at h
  obtain ⟨⟨⟨⟨h1, h2⟩, h3⟩, h4⟩, h5⟩ := h
  refine ⟨?_, ?_, ?_, ?_⟩
  · unfold memoryRes
    rw [if_pos]
    simp only [List.all_eq_true, Bool.or_eq_true, Bool.not_eq_true', decide_eq_true_eq]
    intro p hp
    rcases h1 p hp with h | h
    · exact Or.inl h
    · exact Or.inr (by omega)
  · unfold entriesRes
    rw [if_pos]
    simp only [Bool.and_eq_true, List.all_eq_true, Bool.or_eq_true, Bool.not_eq_true', decide_eq_true_eq]
    exact ⟨⟨fun s hs => Or.inr (h2 s hs), h4⟩, h5⟩
  · unfold symbolsRes
    rw [if_pos]
    simp only [Bool.and_eq_true, List.all_eq_true, Bool.or_eq_true, beq_iff_eq, decide_eq_true_eq]
    exact ⟨fun s hs => Or.inr (h2 s hs), fun r hr => Or.inr (h3 r hr)⟩
  · unfold programEntryRes
    rw [if_pos h4]

/-- **Linked objects, any history of the public linker API: each relocated word holds the once-rebased
    address of the symbol it names, after any number of further `load_elf` calls.**

    `runCalls files big LinkState.empty calls` is the model of `ElfLinker::new` followed by further calls
    of the public `load_elf` (`calls` = the (file name, base) arguments; the first call is the one `new`
    makes, `link_is_history`): each call places the object and the DT_NEEDED objects not placed yet, adds
    their exported symbols to the table (existing names are kept) and relocates THE NEW PLACEMENTS, once.
    `trace` lists every placement `(d, B)` of the history with the linker's state `s` at the end of the
    call that placed it; these are exactly the placements of the final state (`trace_complete`).

    If the history succeeds, no two placements share an address (`Sep`) and inside every object the
    relocation sites do not collide (`ObjOk`), then for EVERY placement, at the END of the history:
    * every word of `objWords d B big s.tab` - the x86 `R_386_32`/`GLOB_DAT`/`JMP_SLOT` words and the
      external entries of the MIPS o32 global GOT, see its definition - holds the value the table
      `s.tab` gives for the symbol the word names (so it was not touched again, in particular not
      relocated a second time, by any later call); and
    * whatever `s.tab` answers for a name `n` is `st_value + B'` of a defined global or weak dynamic
      symbol named `n` of the FIRST placement `(d', B')` of the final state that exports `n`: the base
      of the defining object added exactly once.
    (`R_386_RELATIVE` and `R_MIPS_REL32` name no symbol; the model adds the base to them once, when the
    object is placed, and `history_words`' frame argument - `runCalls_frame` - shows that no later call
    changes any byte of an object placed earlier.) -/
theorem link_once (files : List ElfDesc) (big : Bool) (calls : List (String × Nat)) (stF : LinkState)
    (h : runCalls files big LinkState.empty calls = .ok stF)
    (hsep : Sep stF.placed) (hok : ∀ y ∈ stF.placed, ObjOk y.1)
    (e : ElfDesc × Nat × LinkState) (he : e ∈ trace files big LinkState.empty calls) :
    (∀ w, objWords e.1 e.2.1 big e.2.2.tab w → read32 stF.mem w.2.1 w.1 = some w.2.2) ∧
    (∀ n v, e.2.2.tab.lookup n = some v →
      ∃ pre d' B' post s, stF.placed = pre ++ (d', B') :: post ∧
        (∀ x ∈ pre, (exportedTab x.1 x.2).lookup n = none) ∧
        s ∈ d'.dynsyms ∧ s.name = n ∧ s.value ≠ 0 ∧ s.shndx ≠ 0 ∧
        (s.stBind = STB_GLOBAL ∨ s.stBind = STB_WEAK) ∧ v = s.value + B') := by
  refine ⟨fun w hw => history_words files big _ stF calls h hsep hok e he w hw, fun n v hv => ?_⟩
  obtain ⟨ht, _, more, hm⟩ := trace_tab files big _ stF calls h rfl e he
  rw [ht] at hv
  obtain ⟨pre, d', B', post, hp, hpre, s, hs, h1, h2, h3, h4, h5⟩ := lookup_globalTab _ n v hv
  exact ⟨pre, d', B', post ++ more, s, by rw [hm, hp]; simp, hpre, hs, h1, h2, h3, h4, h5⟩

/-- `link_once` spelled out for x86: the word of a symbol-naming relocation. -/
theorem link_once_x86 (files : List ElfDesc) (big : Bool) (calls : List (String × Nat)) (stF : LinkState)
    (h : runCalls files big LinkState.empty calls = .ok stF)
    (hsep : Sep stF.placed) (hok : ∀ y ∈ stF.placed, ObjOk y.1)
    (e : ElfDesc × Nat × LinkState) (he : e ∈ trace files big LinkState.empty calls)
    (hm : e.1.machine = EM_386) (r : Rel) (hr : r ∈ e.1.relas ++ e.1.rels ++ e.1.plt)
    (hk : r.namesSymbolX86 = true) (n : String) (hn : symName e.1 r.sym = some n)
    (v : Nat) (hv : e.2.2.tab.lookup n = some v) :
    read32 stF.mem false (r.offset + e.2.1) = some (v % U32) :=
  (link_once files big calls stF h hsep hok e he).1 (r.offset + e.2.1, false, v % U32)
    (Or.inl ⟨hm, r, hr, hk, n, v, hn, hv, rfl⟩)

/-- `link_once` spelled out for the MIPS o32 global GOT (`relocations_mips`): entry
    `DT_MIPS_LOCAL_GOTNO + k` belongs to dynamic symbol `DT_MIPS_GOTSYM + k`, however many defined or
    undefined symbols precede it; if that symbol is undefined and the table knows its name, the entry
    holds the table's address. -/
theorem link_once_mips_got (files : List ElfDesc) (big : Bool) (calls : List (String × Nat)) (stF : LinkState)
    (h : runCalls files big LinkState.empty calls = .ok stF)
    (hsep : Sep stF.placed) (hok : ∀ y ∈ stF.placed, ObjOk y.1)
    (e : ElfDesc × Nat × LinkState) (he : e ∈ trace files big LinkState.empty calls)
    (hm : e.1.machine = EM_MIPS) (lg gs sn pg : Nat)
    (h1 : getDyn e.1 DT_MIPS_LOCAL_GOTNO = some lg) (h2 : getDyn e.1 DT_MIPS_GOTSYM = some gs)
    (h3 : getDyn e.1 DT_MIPS_SYMTABNO = some sn) (h4 : getDyn e.1 DT_PLTGOT = some pg)
    (k : Nat) (hk : k < sn - gs) (s : Sym) (hs : e.1.dynsyms[gs + k]? = some s) (hu : s.shndx = 0)
    (v : Nat) (hv : e.2.2.tab.lookup s.name = some v) :
    read32 stF.mem big (pg + e.2.1 + (lg + k) * 4) = some (v % U32) :=
  (link_once files big calls stF h hsep hok e he).1 (pg + e.2.1 + (lg + k) * 4, big, v % U32)
    (Or.inr ⟨hm, lg, gs, sn, pg, k, s, v, h1, h2, h3, h4, hk, hs, hu, hv, rfl⟩)

/-- **Additive relocations are applied exactly once, whatever calls follow** (the sentence the seeded
    change C19-m4 violated: a later `load_elf` re-applied `R_386_RELATIVE` to objects loaded earlier).
    Same hypotheses as `link_once`.  For every placement `(d, B)` of the history of an x86 object and
    every `R_386_RELATIVE` relocation `r` of it (any of the three tables): if the FILE IMAGE of the
    placement holds the word `v0` at `r_offset + B`, then at the END of the history the word there is
    `B + v0` - the base of its own placement added once, not twice, not zero times.

    PARTIAL.  Full statement: the same for every additive kind of the linker.  Proved: x86
    `R_386_RELATIVE`.  Missing: MIPS `R_MIPS_REL32` (word + base) and the MIPS local-GOT rebase
    (`mipsGotBase`: entries `0 .. LOCAL_GOTNO + SYMTABNO - GOTSYM` += base); for those the frame lemma
    `runCalls_frame` still shows that no later call changes them, and the correspondence check compares
    them, but "= original + base" is not stated as a theorem (it needs `ObjOk` to also keep REL32 sites
    apart from the whole GOT and from each other). -/
theorem link_once_additive_partial (files : List ElfDesc) (big : Bool) (calls : List (String × Nat))
    (stF : LinkState) (h : runCalls files big LinkState.empty calls = .ok stF)
    (hsep : Sep stF.placed) (hok : ∀ y ∈ stF.placed, ObjOk y.1)
    (e : ElfDesc × Nat × LinkState) (he : e ∈ trace files big LinkState.empty calls)
    (hm : e.1.machine = EM_386) (r : Rel) (hr : r ∈ e.1.relas ++ e.1.rels ++ e.1.plt)
    (hty : r.rtype = R_386_RELATIVE) (v0 : Nat)
    (hv : read32 (image e.1 e.2.1) false (r.offset + e.2.1) = some v0) :
    read32 stF.mem false (r.offset + e.2.1) = some (e.2.1 % U32 + v0) :=
  history_add files big _ stF calls h hsep hok e he (r.offset + e.2.1, false, e.2.1 % U32 + v0)
    ⟨hm, r, hr, hty, v0, hv, rfl⟩

/-! ## non-vacuity: a concrete two-segment object with bss, symbols and a PLT relocation -/

def exText : PHdr := ⟨1, 5, 120, 0x401000, 4, 4, [0x55, 0x89, 0xe5, 0xc3], 0x30000000, 0x1000⟩
def exData : PHdr := ⟨1, 6, 124, 0x402000, 2, 6, [0xaa, 0xbb], 0x402000, 4⟩
def exStack : PHdr := ⟨0x6474e551, 6, 0, 0x403000, 0, 16, [], 0, 16⟩   -- not PT_LOAD: not mapped
def exObj : ElfDesc :=
  { name := "a.out", cls := .c64, enc := .lsb, machine := EM_X86_64, etype := 2, entry := 0x401000,
    phdrs := [exText, exStack, exData],
    syms := [⟨"", 0, 0, 0, 0, 0⟩, ⟨"main", 0x401002, 2, 0x12, 0, 1⟩, ⟨"buf", 0x402002, 4, 0x11, 0, 2⟩],
    dynsyms := [⟨"", 0, 0, 0, 0, 0⟩, ⟨"puts", 0, 0, 0x12, 0, 0⟩],
    dyns := [], needed := [], relas := [], rels := [], plt := [⟨0x402004, 1, 7, 0⟩] }

example : exObj.wf = true ∧ headerConsistent exObj = true ∧ fits exObj 0x1000 [0x401003] = true := by decide
example : image exObj 0x1000 0x403001 = some (0xbb, 3) := by decide          -- file byte, RW
example : image exObj 0x1000 0x403005 = some (0, 3) := by decide             -- zero fill
example : image exObj 0x1000 0x403006 = none := by decide                    -- nothing else
example : image exObj 0x1000 0x404000 = none ∧ image exObj 0x1000 0x30001000 = none := by decide  -- not the GNU_STACK header, not p_paddr
example : image exObj 0x1000 0x402003 = some (0xc3, 5) := by decide          -- R+X
example : (entries exObj 0x1000 [0x401003]).map (·.1) = [0x402000, 0x402002, 0x402003] := by decide
example : symbols exObj 0x1000 = [(0x402002, "main"), (0x403002, "buf"), (0x403004, "puts")] := by decide
example : programEntry exObj 0x1000 = 0x402000 := by decide

/-! ## non-vacuity of `link_once`: a program importing `puts` from a library placed at 0x42000000, then a
    further `load_elf` of a second library at 0x50000000 that imports `puts` too -/

def exProg : ElfDesc :=
  { name := "prog", cls := .c32, enc := .lsb, machine := EM_386, etype := 2, entry := 0x8048000,
    phdrs := [⟨1, 5, 116, 0x8048000, 4, 4, [0x90, 0x90, 0x90, 0xc3], 0x70000000, 1⟩,
              ⟨1, 6, 120, 0x8049000, 8, 8, [0, 0, 0, 0, 0x10, 0x80, 0x04, 0x08], 0x8049000, 4⟩],
    syms := [], dynsyms := [⟨"", 0, 0, 0, 0, 0⟩, ⟨"puts", 0, 0, 0x12, 0, 0⟩],
    dyns := [], needed := ["libc.so"], relas := [], rels := [⟨0x8049004, 0, 8, 0⟩],
    plt := [⟨0x8049000, 1, 7, 0⟩] }
def exLib : ElfDesc :=
  { name := "libc.so", cls := .c32, enc := .lsb, machine := EM_386, etype := 3, entry := 0x1000,
    phdrs := [⟨1, 5, 116, 0x1000, 4, 4, [0x90, 0x90, 0x90, 0xc3], 0x70000000, 1⟩,
              ⟨1, 6, 120, 0x2000, 4, 4, [0x02, 0x10, 0, 0], 0x2000, 4⟩],
    syms := [], dynsyms := [⟨"", 0, 0, 0, 0, 0⟩, ⟨"puts", 0x1002, 2, 0x12, 0, 1⟩],
    dyns := [], needed := [], relas := [], rels := [⟨0x2000, 0, 8, 0⟩], plt := [] }
def exLib2 : ElfDesc :=
  { name := "libx.so", cls := .c32, enc := .lsb, machine := EM_386, etype := 3, entry := 0x1000,
    phdrs := [⟨1, 6, 116, 0x3000, 4, 4, [0, 0, 0, 0], 0x3000, 4⟩],
    syms := [], dynsyms := [⟨"", 0, 0, 0, 0, 0⟩, ⟨"puts", 0, 0, 0x12, 0, 0⟩],
    dyns := [], needed := [], relas := [], rels := [⟨0x3000, 1, 6, 0⟩], plt := [] }
def exFiles : List ElfDesc := [exProg, exLib, exLib2]

/-- after `new(prog)` and `load_elf(libx.so, 0x50000000)`: prog's PLT slot and libx's GOT slot hold `puts` of
    libc.so rebased once; the R_386_RELATIVE word of libc.so (0x1002) was rebased once - not again by the
    second call (`link_once_additive_partial`) -; three placements -/
def exHistory : Bool :=
  match runCalls exFiles false LinkState.empty [("prog", 0), ("libx.so", 0x50000000)] with
  | .ok st =>
    read32 st.mem false 0x8049000 == some 0x42001002 && read32 st.mem false 0x50003000 == some 0x42001002
      && read32 st.mem false 0x42002000 == some 0x42001002 && read32 st.mem false 0x8049004 == some 0x8048010
      && st.placed.map (fun x => (x.1.name, x.2)) == [("prog", 0), ("libc.so", 0x42000000), ("libx.so", 0x50000000)]
  | _ => false
example : exHistory = true := by decide

/-! the hypotheses of `link_once` hold for the example history -/

example : Falcon.Elf.Sep [(exProg, 0), (exLib, 0x42000000), (exLib2, 0x50000000)] := by
  simp only [Falcon.Elf.Sep, List.pairwise_cons, List.mem_cons, List.not_mem_nil, or_false, forall_eq_or_imp, forall_eq,
    List.Pairwise.nil, and_true, SepRel, false_imp_iff, implies_true]
  refine ⟨⟨?_, ?_⟩, ?_⟩ <;>
  · rintro a ⟨h1, h2⟩
    obtain ⟨p, hp, hp1, hp2⟩ := inRange_bounds _ _ _ h1
    obtain ⟨q, hq, hq1, hq2⟩ := inRange_bounds _ _ _ h2
    simp only [exProg, exLib, exLib2, List.mem_cons, List.not_mem_nil, or_false] at hp hq
    rcases hp with rfl | rfl <;> rcases hq with rfl | rfl <;> simp only at hp1 hp2 hq1 hq2 <;> omega

example : ObjOk exProg ∧ ObjOk exLib ∧ ObjOk exLib2 := by
  refine ⟨⟨fun _ => ?_, fun h => by simp [exProg, EM_386, EM_MIPS] at h⟩,
          ⟨fun _ => ?_, fun h => by simp [exLib, EM_386, EM_MIPS] at h⟩,
          ⟨fun _ => ?_, fun h => by simp [exLib2, EM_386, EM_MIPS] at h⟩⟩ <;>
  simp [allRels, exProg, exLib, exLib2, Apart]

end Falcon.C19
