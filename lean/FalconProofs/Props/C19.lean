/-
  FalconProofs.Props.C19 — ELF loading maps exactly the image and rebases uniformly.

  The model (FalconModel/Elf.lean) is the definition the property states, computed from a structured
  description of the file (what the goblin parser hands to falcon); the correspondence check compares
  it with the real loader on generated files.  The theorems below say that this definition has the
  shape the property's sentence gives it.
-/
import FalconProofs.C19.Image
import FalconProofs.C19.Entries
import FalconProofs.C19.Symbols
import FalconProofs.C19.Link

namespace Falcon.C19
open Falcon.Elf

/-- **The image is exact.**  For a well-formed description (every PT_LOAD has exactly `filesz` bytes,
    `filesz ≤ memsz`, memory ranges pairwise disjoint), loaded at any base `B`, for every loadable
    segment `p`: the file byte `i` is at `p_vaddr + B + i` with the segment's permissions; the
    addresses from `filesz` up to `memsz` hold zero with the same permissions; and nothing else is
    mapped: every mapped address lies in the memory range of some loadable segment. -/
theorem image_exact (d : ElfDesc) (hwf : d.wf = true) (B : Nat) :
    (∀ p ∈ d.phdrs, p.isLoad = true →
        (∀ i b, p.bytes[i]? = some b → image d B (p.vaddr + B + i) = some (b, permOf p.flags)) ∧
        (∀ i, p.filesz ≤ i → i < p.memsz → image d B (p.vaddr + B + i) = some (0, permOf p.flags))) ∧
    (∀ a x, image d B a = some x →
        ∃ p ∈ d.phdrs, p.isLoad = true ∧ p.vaddr + B ≤ a ∧ a < p.vaddr + B + p.memsz) := by
  simp only [ElfDesc.wf, Bool.and_eq_true, List.all_eq_true] at hwf
  refine ⟨fun p hp hl => ⟨fun i b hb => ?_, fun i h1 h2 => ?_⟩, fun a x h => ?_⟩
  · have hw := hwf.1 p hp
    simp only [PHdr.wf, hl, Bool.not_true, Bool.false_or, Bool.and_eq_true, beq_iff_eq,
      decide_eq_true_eq] at hw
    have hi : i < p.bytes.length := by
      rcases Nat.lt_or_ge i p.bytes.length with h | h
      · exact h
      · rw [List.getElem?_eq_none h] at hb; cases hb
    have hc : p.covers B (p.vaddr + B + i) = true := by rw [covers_iff]; exact ⟨hl, by omega, by omega⟩
    rw [image, imageOf_covers d.phdrs B _ hwf.2 p hp hc]
    have e : p.vaddr + B + i - (p.vaddr + B) = i := by omega
    have hf : i < p.filesz := by omega
    simp only [e, PHdr.byteAt, hf, if_true, List.getD_eq_getElem?_getD, hb, Option.getD_some]
  · have hc : p.covers B (p.vaddr + B + i) = true := by rw [covers_iff]; exact ⟨hl, by omega, by omega⟩
    rw [image, imageOf_covers d.phdrs B _ hwf.2 p hp hc]
    have e : p.vaddr + B + i - (p.vaddr + B) = i := by omega
    have hf : ¬ i < p.filesz := by omega
    simp only [e, PHdr.byteAt, hf, if_false]
  · obtain ⟨p, hp, hc, _⟩ := imageOf_some d.phdrs B a x h
    rw [covers_iff] at hc
    exact ⟨p, hp, hc⟩

/-- Permissions are the R/W/X bits of `p_flags`, nothing else of it. -/
theorem perm_bits (flags : Nat) :
    permOf flags = (if flags.testBit 2 then 1 else 0) + (if flags.testBit 1 then 2 else 0)
      + (if flags.testBit 0 then 4 else 0) := rfl

/-- **Architecture and endianness are those named in the header** (for the seven consistent
    combinations of machine, class and data encoding). -/
theorem arch_named (d : ElfDesc) (h : headerConsistent d = true) :
    ∃ a, arch d = .ok a ∧ a.big = (d.enc == .msb) ∧
      (d.machine = EM_386 → a.name = "x86") ∧ (d.machine = EM_X86_64 → a.name = "amd64") ∧
      (d.machine = EM_MIPS → a.name = if d.enc == .msb then "mips" else "mipsel") ∧
      (d.machine = EM_PPC → a.name = "ppc") ∧
      (d.machine = EM_AARCH64 → a.name = if d.enc == .msb then "aarch64eb" else "aarch64") := by
  simp only [headerConsistent, Bool.or_eq_true, Bool.and_eq_true, beq_iff_eq] at h
  unfold arch
  rcases h with (((h | h) | h) | h) | h
  · obtain ⟨⟨hm, _⟩, he⟩ := h
    simp [hm, he, EM_386, EM_X86_64, EM_MIPS, EM_PPC, EM_AARCH64]
  · obtain ⟨⟨hm, _⟩, he⟩ := h
    simp [hm, he, EM_386, EM_X86_64, EM_MIPS, EM_PPC, EM_AARCH64]
  · obtain ⟨hm, _⟩ := h
    cases he : d.enc <;> simp [hm, EM_386, EM_X86_64, EM_MIPS, EM_PPC, EM_AARCH64]
  · obtain ⟨⟨hm, _⟩, he⟩ := h
    simp [hm, he, EM_386, EM_X86_64, EM_MIPS, EM_PPC, EM_AARCH64]
  · obtain ⟨hm, _⟩ := h
    cases he : d.enc <;> simp [hm, EM_386, EM_X86_64, EM_MIPS, EM_PPC, EM_AARCH64]

/-- **Function entries are the defined function symbols, the program entry and the user-supplied
    entries**, each once, in ascending order. -/
theorem entries_exact (d : ElfDesc) (B : Nat) (users : List Nat) (a : Nat) :
    (a ∈ (entries d B users).map (·.1) ↔
      (∃ s ∈ d.dynsyms ++ d.syms, s.stType = STT_FUNC ∧ s.value ≠ 0 ∧ s.shndx ≠ 0 ∧ a = s.value + B)
      ∨ a = d.entry + B ∨ ∃ u ∈ users, a = u + B) ∧
    ((entries d B users).map (·.1)).Pairwise (· < ·) := by
  constructor
  · have hk := keys_entriesRaw d users
    simp only [entries, List.map_map, List.mem_map, Function.comp_def, shiftEntry]
    constructor
    · rintro ⟨e, he, rfl⟩
      have : e.1 ∈ keys (entriesRaw d users) := List.mem_map.mpr ⟨e, he, rfl⟩
      rcases (hk e.1).mp this with ⟨s, hs, hf, hv⟩ | h | h
      · left
        simp only [Sym.isFuncDef, Bool.and_eq_true, beq_iff_eq, bne_iff_ne, ne_eq] at hf
        exact ⟨s, hs, hf.1.1, hf.1.2, hf.2, by rw [hv]⟩
      · right; left; rw [h]
      · right; right; exact ⟨e.1, h, rfl⟩
    · intro h
      have : a - B ∈ keys (entriesRaw d users) ∧ a = a - B + B := by
        rcases h with ⟨s, hs, h1, h2, h3, rfl⟩ | rfl | ⟨u, hu, rfl⟩
        · refine ⟨(hk _).mpr (Or.inl ⟨s, hs, ?_, by omega⟩), by omega⟩
          simp [Sym.isFuncDef, h1, h2, h3]
        · exact ⟨(hk _).mpr (Or.inr (Or.inl (by omega))), by omega⟩
        · exact ⟨(hk _).mpr (Or.inr (Or.inr (by simpa using hu))), by omega⟩
      obtain ⟨e, he, hea⟩ := List.mem_map.mp this.1
      exact ⟨e, he, by rw [hea]; exact this.2.symm⟩
  · have hs := sorted_entriesRaw d users
    unfold Sorted at hs
    simp only [entries, List.map_map]
    rw [List.pairwise_map]
    exact hs.imp (fun h => by simp only [Function.comp, shiftEntry]; omega)

/-- **Rebasing is uniform.**  Loading at base `B` reports exactly what loading at base 0 reports,
    `B` higher: the image (byte and permissions of every address, and nothing below `B`), the function
    entries, the symbols and the program entry. -/
theorem rebase_uniform (d : ElfDesc) (B : Nat) (users : List Nat) :
    (∀ a, image d B (a + B) = image d 0 a) ∧ (∀ a, a < B → image d B a = none) ∧
    entries d B users = (entries d 0 users).map (fun e => (e.1 + B, e.2)) ∧
    symbols d B = (symbols d 0).map (fun s => (s.1 + B, s.2)) ∧
    programEntry d B = programEntry d 0 + B := by
  refine ⟨fun a => imageOf_shift _ B a, fun a h => imageOf_below _ B a h, ?_, symbols_shift d B, ?_⟩
  · simp [entries, shiftEntry, List.map_map, Function.comp_def]
  · simp [programEntry]

/-- The `u64` arithmetic of the loader does not interfere: when every address stays below 2^64 the
    calls return the pure definitions above (otherwise the model has them panic, as falcon built
    with overflow checks does). -/
theorem fits_ok (d : ElfDesc) (B : Nat) (users : List Nat) (h : fits d B users = true) :
    memoryRes d B = .ok (image d B) ∧ entriesRes d B users = .ok (entries d B users) ∧
    symbolsRes d B = .ok (symbols d B) ∧ programEntryRes d B = .ok (programEntry d B) := by
  simp only [fits, Bool.and_eq_true, List.all_eq_true, decide_eq_true_eq, Bool.or_eq_true,
    Bool.not_eq_true'] at h
  obtain ⟨⟨⟨⟨h1, h2⟩, h3⟩, h4⟩, h5⟩ := h
  refine ⟨?_, ?_, ?_, ?_⟩
  · unfold memoryRes
    rw [if_pos]
    simp only [List.all_eq_true, Bool.or_eq_true, Bool.not_eq_true', decide_eq_true_eq]
    intro p hp
    rcases h1 p hp with h | h
    · exact Or.inl h
    · exact Or.inr (by omega)
  · unfold entriesRes
    rw [if_pos]
    simp only [Bool.and_eq_true, List.all_eq_true, Bool.or_eq_true, Bool.not_eq_true', decide_eq_true_eq]
    exact ⟨⟨fun s hs => Or.inr (h2 s hs), h4⟩, h5⟩
  · unfold symbolsRes
    rw [if_pos]
    simp only [Bool.and_eq_true, List.all_eq_true, Bool.or_eq_true, beq_iff_eq, decide_eq_true_eq]
    exact ⟨fun s hs => Or.inr (h2 s hs), fun r hr => Or.inr (h3 r hr)⟩
  · unfold programEntryRes
    rw [if_pos h4]

/-- **Linked objects: each relocated word holds the once-rebased address of the symbol it names.**
    `placed` are the linked objects in load order with their bases; `linkSpecX86` maps them all and
    applies every x86 relocation against the table of exported symbols.  If that succeeds and the
    relocation sites are pairwise apart (no two within 4 bytes of each other), then for every
    relocation `r` of a placed object `(d, B)` that names a symbol (`R_386_32`, `R_386_GLOB_DAT`,
    `R_386_JMP_SLOT`) whose name `n` some placed object exports, the little-endian word at
    `r_offset + B` is `st_value + B'` (mod 2^32) of a defined global or weak dynamic symbol `s` named
    `n` of the FIRST placed object `(d', B')` that exports `n` — its base added exactly once.

    PARTIAL.  Full statement of the property: "when several objects are linked, each relocated word
    holds the once-rebased address of the symbol it names", for every relocation kind the linker
    implements.  Proved here: the three symbol-naming x86 kinds (REL, RELA and JMPREL tables).  Missing:
    the same statement for the external GOT entries of MIPS o32 objects (`mipsGotSyms`: entry
    `DT_MIPS_LOCAL_GOTNO + k` names dynamic symbol `DT_MIPS_GOTSYM + k`); those words are covered by the
    correspondence check only (model `link` = falcon on every generated MIPS link).  `R_386_RELATIVE`
    and `R_MIPS_REL32` name no symbol (word += base, see `relocX86`, `relocMipsRel`). -/
theorem link_once_partial (placed : List (ElfDesc × Nat)) (img : Img) (h : linkSpecX86 placed = .ok img)
    (hap : (steps placed).Pairwise (fun s s' => Apart s.site s'.site))
    (d : ElfDesc) (B : Nat) (hd : (d, B) ∈ placed)
    (r : Rel) (hr : r ∈ d.relas ++ d.rels ++ d.plt) (hk : r.namesSymbolX86 = true)
    (n : String) (hn : symName d r.sym = some n)
    (v : Nat) (hv : (globalTab placed).lookup n = some v) :
    ∃ pre d' B' post s, placed = pre ++ (d', B') :: post ∧
      (∀ x ∈ pre, (exportedTab x.1 x.2).lookup n = none) ∧
      s ∈ d'.dynsyms ∧ s.name = n ∧ s.value ≠ 0 ∧ s.shndx ≠ 0 ∧
      (s.stBind = STB_GLOBAL ∨ s.stBind = STB_WEAK) ∧
      read32 img false (r.offset + B) = some ((s.value + B') % U32) := by
  obtain ⟨pre, d', B', post, he, hpre, s, hs, h1, h2, h3, h4, h5⟩ := lookup_globalTab placed n v hv
  refine ⟨pre, d', B', post, s, he, hpre, hs, h1, h2, h3, h4, ?_⟩
  rw [linkSpecX86_eq] at h
  have hmem : ((d, B, r) : Step) ∈ steps placed := (mem_steps placed (d, B, r)).mpr ⟨hd, hr⟩
  have := runSteps_word (globalTab placed) (steps placed) (baseImage placed) img h hap
    (fun s' hs' hok i hi => by
      obtain ⟨hp, _⟩ := (mem_steps placed s').mp hs'
      exact baseImage_mapped placed s'.1 s'.2.1 hp _ (siteOk_mapped s'.1 s'.2.1 s'.site hok i hi))
    (d, B, r) hmem n v hk hn hv
  rw [← h5]
  exact this

/-! ## non-vacuity: a concrete two-segment object with bss, symbols and a PLT relocation -/

def exText : PHdr := ⟨1, 5, 120, 0x401000, 4, 4, [0x55, 0x89, 0xe5, 0xc3], 0x30000000, 0x1000⟩
def exData : PHdr := ⟨1, 6, 124, 0x402000, 2, 6, [0xaa, 0xbb], 0x402000, 4⟩
def exStack : PHdr := ⟨0x6474e551, 6, 0, 0x403000, 0, 16, [], 0, 16⟩   -- not PT_LOAD: not mapped
def exObj : ElfDesc :=
  { name := "a.out", cls := .c64, enc := .lsb, machine := EM_X86_64, etype := 2, entry := 0x401000,
    phdrs := [exText, exStack, exData],
    syms := [⟨"", 0, 0, 0, 0, 0⟩, ⟨"main", 0x401002, 2, 0x12, 0, 1⟩, ⟨"buf", 0x402002, 4, 0x11, 0, 2⟩],
    dynsyms := [⟨"", 0, 0, 0, 0, 0⟩, ⟨"puts", 0, 0, 0x12, 0, 0⟩],
    dyns := [], needed := [], relas := [], rels := [], plt := [⟨0x402004, 1, 7, 0⟩] }

example : exObj.wf = true ∧ headerConsistent exObj = true ∧ fits exObj 0x1000 [0x401003] = true := by decide
example : image exObj 0x1000 0x403001 = some (0xbb, 3) := by decide          -- file byte, RW
example : image exObj 0x1000 0x403005 = some (0, 3) := by decide             -- zero fill
example : image exObj 0x1000 0x403006 = none := by decide                    -- nothing else
example : image exObj 0x1000 0x404000 = none ∧ image exObj 0x1000 0x30001000 = none := by decide  -- not the GNU_STACK header, not p_paddr
example : image exObj 0x1000 0x402003 = some (0xc3, 5) := by decide          -- R+X
example : (entries exObj 0x1000 [0x401003]).map (·.1) = [0x402000, 0x402002, 0x402003] := by decide
example : symbols exObj 0x1000 = [(0x402002, "main"), (0x403002, "buf"), (0x403004, "puts")] := by decide
example : programEntry exObj 0x1000 = 0x402000 := by decide

/-! ## non-vacuity of `link_once_partial`: a program importing `puts` from a library placed at 0x42000000 -/

def exProg : ElfDesc :=
  { name := "prog", cls := .c32, enc := .lsb, machine := EM_386, etype := 2, entry := 0x8048000,
    phdrs := [⟨1, 5, 116, 0x8048000, 4, 4, [0x90, 0x90, 0x90, 0xc3], 0x70000000, 1⟩,
              ⟨1, 6, 120, 0x8049000, 8, 8, [0, 0, 0, 0, 0x10, 0x80, 0x04, 0x08], 0x8049000, 4⟩],
    syms := [], dynsyms := [⟨"", 0, 0, 0, 0, 0⟩, ⟨"puts", 0, 0, 0x12, 0, 0⟩],
    dyns := [], needed := ["libc.so"], relas := [], rels := [⟨0x8049004, 0, 8, 0⟩],
    plt := [⟨0x8049000, 1, 7, 0⟩] }
def exLib : ElfDesc :=
  { name := "libc.so", cls := .c32, enc := .lsb, machine := EM_386, etype := 3, entry := 0x1000,
    phdrs := [⟨1, 5, 116, 0x1000, 4, 4, [0x90, 0x90, 0x90, 0xc3], 0x70000000, 1⟩],
    syms := [], dynsyms := [⟨"", 0, 0, 0, 0, 0⟩, ⟨"puts", 0x1002, 2, 0x12, 0, 1⟩],
    dyns := [], needed := [], relas := [], rels := [], plt := [] }
def exPlaced : List (ElfDesc × Nat) := [(exProg, 0), (exLib, 0x42000000)]

example : (globalTab exPlaced).lookup "puts" = some 0x42001002 := by decide
/-- the link succeeds; the PLT slot holds `puts` of the library rebased once, the RELATIVE word its own base + value -/
def exLinked : Bool :=
  match linkSpecX86 exPlaced with
  | .ok img => read32 img false 0x8049000 == some 0x42001002 && read32 img false 0x8049004 == some 0x8048010
  | _ => false
example : exLinked = true := by decide
example : (steps exPlaced).Pairwise (fun s s' => Apart s.site s'.site) := by
  simp [steps, exPlaced, exProg, exLib, Apart, Step.site]

end Falcon.C19
