/-
  Property C15 — CFG construction and editing keep graphs consistent and meaning intact.
  Model: FalconModel/CfgEdit.lean (mirror of il/control_flow_graph.rs, il/block.rs, graph/mod.rs container part).
-/
import FalconProofs.C15.Copy
import FalconProofs.C15.MergeRound
import FalconProofs.C15.AppendView
import FalconProofs.C15.MergeTotal
import FalconProofs.C15.NoPanic
import FalconProofs.C15.CopyTotal
import FalconProofs.C15.Blockify
import FalconProofs.C15.Sorted

namespace Falcon.C15
open Falcon Falcon.CfgEdit

/-- every single call, whatever it returns (ok, error with partial effects), leaves the edited graph well formed -/
theorem step_wf (s : Graphs) (hs : ∀ g, WF (s g)) (o : EditOp) : WF (o.step s).cfg := by
  cases o with
  | newBlock g => exact wf_newBlock (hs g)
  | uedge g h t => exact wf_unconditionalEdge (hs g) h t
  | cedge g h t e => exact wf_conditionalEdge (hs g) h t e
  | entry g i => exact wf_setEntry (hs g) i
  | exit g i => exact wf_setExit (hs g) i
  | merge g => exact wf_merge (hs g)
  | append g h => exact wf_append (hs g) (hs h)
  | insert g h => exact wf_insert (hs g) (hs h)
  | op g b o => exact wf_blockOp (hs g) b o
  | bappend g b h j => exact wf_blockAppendOp (hs g) b (s h) j
  | rmins g b i => exact wf_removeInstruction (hs g) b i
  | temp g n => exact wf_temp (hs g) n
  | blockify g hs' =>
    show WF (match CfgEdit.blockify (hs'.map s) with
      | .ok c => (⟨c, .ok .unit⟩ : Step Outcome)
      | .err e => ⟨s g, .err e⟩
      | .panic => ⟨s g, .panic⟩).cfg
    cases hb : CfgEdit.blockify (hs'.map s) with
    | ok c =>
      exact blockify_wf' (by intro d hd; obtain ⟨i, _, rfl⟩ := List.mem_map.mp hd; exact hs i) hb
    | err e => exact hs g
    | panic => exact hs g

theorem run_wf (s : Graphs) (hs : ∀ g, WF (s g)) (o : EditOp) : ∀ g, WF ((run s o).1 g) := by
  intro g
  unfold run
  have h := step_wf s hs o
  dsimp only
  split
  · exact hs g
  · show WF (Graphs.set s o.target (o.step s).cfg g)
    unfold Graphs.set
    split
    · exact h
    · exact hs g

/-- **ops_wf** — after every finite history of construction / editing operations (any interleaving over any
    number of graphs that are appended to and inserted into each other, failing calls included), starting from
    `ControlFlowGraph::new()`, every graph satisfies `WF`: block indices and (head, tail) pairs are keys, every
    edge joins existing blocks, block indices are below `next_index`, instruction indices are unique within each
    block and below the block's counter, entry and exit name existing blocks. -/
theorem ops_wf (ops : List EditOp) : ∀ g, WF (runAll ops g) := by
  unfold runAll
  suffices h : ∀ (s : Graphs), (∀ g, WF (s g)) → ∀ g, WF ((ops.foldl (fun s o => (run s o).1) s) g) from
    h _ (fun _ => wf_new)
  induction ops with
  | nil => intro s hs; exact hs
  | cons o ops ih => intro s hs; exact ih _ (run_wf s hs o)

/-- **ops_sorted** — in every reachable state the model's block list is strictly sorted by index and its edge list by
    (head, tail): the model iterates blocks and edges (e.g. the pair selection of `merge`, the re-indexing order of
    `append`) in the order of falcon's `BTreeMap`s.  Instance of `Closed.runAll`: every predicate closed under the
    container primitives is preserved by every operation. -/
theorem ops_sorted (ops : List EditOp) : ∀ g, Sorted (runAll ops g) :=
  sorted_closed.runAll sorted_new ops

/-- the predecessor / successor queries are exactly the edge set (in the model they are derived from it; the
    correspondence check compares falcon's own queries with these after every operation) -/
theorem queries_agree (c : Cfg) (h t : Nat) :
    (t ∈ c.successorIndices h ↔ ∃ e ∈ c.edges, e.head = h ∧ e.tail = t) ∧
    (h ∈ c.predecessorIndices t ↔ ∃ e ∈ c.edges, e.head = h ∧ e.tail = t) := by
  simp only [Cfg.successorIndices, Cfg.predecessorIndices, Cfg.edgesOut, Cfg.edgesIn, List.mem_map, List.mem_filter,
    beq_iff_eq]
  constructor
  · constructor
    · rintro ⟨e, ⟨he, rfl⟩, rfl⟩; exact ⟨e, he, rfl, rfl⟩
    · rintro ⟨e, he, rfl, rfl⟩; exact ⟨e, ⟨he, rfl⟩, rfl⟩
  · constructor
    · rintro ⟨e, ⟨he, rfl⟩, rfl⟩; exact ⟨e, he, rfl, rfl⟩
    · rintro ⟨e, he, rfl, rfl⟩; exact ⟨e, ⟨he, rfl⟩, rfl⟩

/-- **block_append_indices** — `Block::append` keeps instruction indices unique (and below the counter), keeps
    the receiving block's own instructions, and appends the other block's operations in order. -/
theorem block_append_indices (b o : Block) (hb : BlockWF b) :
    BlockWF (blockAppend b o) ∧ (blockAppend b o).index = b.index ∧
      (blockAppend b o).instrs.map (·.op) = b.instrs.map (·.op) ++ o.instrs.map (·.op) := by
  refine ⟨blockWF_appendInstrs hb _, appendInstrs_index _ _, ?_⟩
  unfold blockAppend
  generalize o.instrs = is
  induction is generalizing b with
  | nil => simp [appendInstrs]
  | cons i is ih =>
    rw [appendInstrs, ih _ (blockWF_pushRaw hb i)]
    simp

/-- **merge_step_preserves_paths** — the single merge step: when `m`'s only out-edge is an unconditional edge to
    `s ≠ m`, `s`'s only in-edge is that edge and `s` is not the entry, merging `s` into `m` (instructions appended
    with fresh indices, out-edges of `s` re-headed to `m`, `s` removed) does not change the set of operation/guard
    sequences that can be executed from the entry.  The proof is the walk correspondence of
    `walk_merged_to_orig` / `walk_orig_to_merged` (a walk through `m·s` ↔ a walk through `m`, the edge, `s`). -/
theorem merge_step_preserves_paths {c c' : Cfg} {m s : Nat} (hw : WF c) (hv : ValidPair c m s)
    (h : mergeStep c m s = ⟨c', .ok ()⟩) : ∀ w, Lang c' w ↔ Lang c w := by
  obtain ⟨mb, sb, hV⟩ := mergeStep_view hv.ne h
  exact mergeStep_lang hw hv hV

/-- **merge_ok** — on every well-formed graph `ControlFlowGraph::merge` returns `Ok`: the selection loop does not
    panic, no merge step fails (in particular no "duplicate edge": a block whose only successor is itself is
    skipped), and the loop terminates (every round that merges removes a block; `blocks.length + 1` rounds of
    fuel are never exhausted). -/
theorem merge_ok {c : Cfg} (hw : WF c) : (merge c).res = .ok () := merge_total hw

/-- **merge_preserves_paths** — `ControlFlowGraph::merge` (all rounds: the pairs of a round are selected in the
    iteration order of the code, are valid and pairwise disjoint, and stay valid while the round is applied; the
    outer loop runs until no pair is left) succeeds and does not change the language of operation/guard
    sequences that can be executed from the entry, on every well-formed graph — including graphs with cycles,
    self-loops, conditional edges, empty blocks and unreachable parts. -/
theorem merge_preserves_paths {c : Cfg} (hw : WF c) :
    (merge c).res = .ok () ∧ ∀ w, Lang (merge c).cfg w ↔ Lang c w := by
  have h := merge_total hw
  refine ⟨h, ?_⟩
  have : merge c = ⟨(merge c).cfg, .ok ()⟩ := by
    cases hm : merge c with
    | mk c' r => rw [hm] at h; simp only at h; subst h; rfl
  exact mergeLoop_lang _ hw this

/-- the pairs `merge` selects in a round satisfy the hypothesis of `merge_step_preserves_paths` -/
theorem merge_selects_valid_pairs {c : Cfg} {ms : List (Nat × Nat)} (h : collect c c.blocks [] = .ok ms) :
    (∀ p ∈ ms, ValidPair c p.1 p.2) ∧ DisjointPairs ms :=
  ⟨fun p hp => ((collect_valid _ _ _ h).1 p hp).1, (collect_valid _ _ _ h).2⟩

/-- **append_paths** — on well-formed graphs a successful `append` runs the first graph and then the second: the
    complete entry→exit runs of the result are exactly the concatenations of an entry→exit run of `c` and an
    entry→exit run of `d` (the unconditional transition edge spells nothing); appended to the empty graph, the
    runs are those of `d`. -/
theorem append_paths {c d c' : Cfg} (hw : WF c) (hd : WF d) (h : CfgEdit.append c d = ⟨c', .ok ()⟩) (w : List Sym) :
    LangEE c' w ↔ if c.blocks = [] then LangEE d w else ∃ u v, w = u ++ v ∧ LangEE c u ∧ LangEE d v :=
  append_langEE hw hd h w

/-- appending to the empty graph is the identity up to the renumbering `f` of block indices -/
theorem append_empty_iso {c d c' : Cfg} (hw : WF c) (hd : WF d) (h : CfgEdit.append c d = ⟨c', .ok ()⟩)
    (hemp : c.blocks = []) :
    ∃ f : Nat → Nat, (∀ b1 ∈ d.blocks, ∀ b2 ∈ d.blocks, f b1.index = f b2.index → b1.index = b2.index) ∧
      (∀ x, x ∈ c'.blocks ↔ ∃ b ∈ d.blocks, x = copyBlock f b) ∧
      (∀ e, e ∈ c'.edges ↔ ∃ e0 ∈ d.edges, e = copyEdge f e0) ∧
      c'.entry = d.entry.map f ∧ c'.exit = d.exit.map f := by
  obtain ⟨f, den, dex, A⟩ := append_view hw hd h
  obtain ⟨hen, hed⟩ := A.empty hemp
  refine ⟨f, A.glue.inj, ?_, hed, by rw [hen, A.dentry]; rfl, by rw [A.exit, A.dexit]; rfl⟩
  intro x
  rw [A.glue.blocks x, hemp]
  simp

/-- **insert_disjoint** — a successful `insert` adds a copy of `d` that is isomorphic to `d` under an injective
    renumbering `f` into fresh indices (≥ the old `next_index`, hence disjoint from every old block), returns the
    images of `d`'s entry and exit, leaves the old blocks and edges untouched, and clears entry and exit. -/
theorem insert_disjoint {c d c' : Cfg} {en ex : Nat} (hd : WF d) (h : CfgEdit.insert c d = ⟨c', .ok (en, ex)⟩) :
    ∃ f : Nat → Nat,
      (∀ x, x ∈ c'.blocks ↔ x ∈ c.blocks ∨ ∃ b ∈ d.blocks, x = copyBlock f b) ∧
      (∀ e, e ∈ c'.edges ↔ e ∈ c.edges ∨ ∃ e0 ∈ d.edges, e = copyEdge f e0) ∧
      (∀ b ∈ d.blocks, c.nextIndex ≤ f b.index) ∧
      (∀ b1 ∈ d.blocks, ∀ b2 ∈ d.blocks, f b1.index = f b2.index → b1.index = b2.index) ∧
      d.entry.map f = some en ∧ d.exit.map f = some ex ∧ c'.entry = none ∧ c'.exit = none := by
  unfold CfgEdit.insert at h
  split at h
  · rename_i dEntry dExit hden hdex
    dsimp only at h
    split at h
    · rename_i c1 m hcb
      split at h
      · rename_i c2 hce
        obtain ⟨V, hen2, hex2, hlook⟩ := copy_view hd hcb hce
        obtain ⟨be, hbe, hbei⟩ := (hasBlock_iff d _).mp (hd.entryOk dEntry hden)
        obtain ⟨bx, hbx, hbxi⟩ := (hasBlock_iff d _).mp (hd.exitOk dExit hdex)
        have hlen : m.lookup dEntry = some (renameOf m dEntry) := by rw [← hbei]; exact hlook be hbe
        have hlex : m.lookup dExit = some (renameOf m dExit) := by rw [← hbxi]; exact hlook bx hbx
        rw [hlen, hlex] at h
        simp only [Step.mk.injEq, Res.ok.injEq, Prod.mk.injEq] at h
        obtain ⟨rfl, rfl, rfl⟩ := h
        exact ⟨renameOf m, V.blocks, V.edges, V.fresh, V.inj, by rw [hden]; rfl, by rw [hdex]; rfl, hen2, hex2⟩
      · simp at h
      · simp at h
    · simp at h
    · simp at h
  · simp at h

/-- **append_ok** — on well-formed graphs `append` fails only in the documented cases: it returns `Ok` whenever the
    source has entry and exit and the destination is empty or has entry and exit (fresh indices never collide,
    copied edges and the transition edge are never duplicates). -/
theorem append_ok {c d : Cfg} (hw : WF c) (hd : WF d) (hen : d.entry.isSome = true) (hex : d.exit.isSome = true)
    (hc : c.blocks = [] ∨ (c.entry.isSome = true ∧ c.exit.isSome = true)) : (CfgEdit.append c d).res = .ok () := by
  obtain ⟨den, hden⟩ := Option.isSome_iff_exists.mp hen
  obtain ⟨dex, hdex⟩ := Option.isSome_iff_exists.mp hex
  exact append_total hw hd hden hdex hc

/-- **insert_ok** — on well-formed graphs `insert` returns `Ok` whenever the source has entry and exit. -/
theorem insert_ok {c d : Cfg} (hw : WF c) (hd : WF d) (hen : d.entry.isSome = true) (hex : d.exit.isSome = true) :
    ∃ p, (CfgEdit.insert c d).res = .ok p := by
  obtain ⟨den, hden⟩ := Option.isSome_iff_exists.mp hen
  obtain ⟨dex, hdex⟩ := Option.isSome_iff_exists.mp hex
  exact insert_total hw hd hden hdex

/-- **blockify_wf_paths** — `BlockTranslationResult::blockify` of well-formed instruction graphs: the result is
    well formed (in particular its `exit` names an existing block — false before the repair for every block of more
    than one instruction); the graph `c0` it builds by appending runs the instruction graphs one after the other
    (`ConcatLang`), and the final `merge` does not change what can be executed from the entry. -/
theorem blockify_wf_paths {ds : List Cfg} {c : Cfg} (hds : ∀ d ∈ ds, WF d) (h : blockify ds = .ok c) :
    WF c ∧ ∃ c0, (∀ w, LangEE c0 w ↔ ConcatLang ds w) ∧ (∀ w, Lang c w ↔ Lang c0 w) := by
  refine ⟨blockify_wf' hds h, ?_⟩
  obtain ⟨c0, happ, _, rfl⟩ := blockify_ok_iff h
  have hw0 : WF c0 := by
    have := blockifyAppends_wf ds blockifyInit_wf hds
    rw [happ] at this; exact this
  refine ⟨c0, ?_, (merge_preserves_paths hw0).2⟩
  intro w
  rw [blockifyAppends_paths ds blockifyInit_wf hds (by simp [blockifyInit]) happ w]
  constructor
  · rintro ⟨u, v, rfl, hu, hv⟩
    rw [(langEE_blockifyInit u).mp hu]; simpa using hv
  · intro hv
    exact ⟨[], w, by simp, (langEE_blockifyInit []).mpr rfl, hv⟩

/-- **blockify_ok** — `blockify` succeeds whenever every instruction graph is well formed and has entry and exit
    (before the repair it failed with "duplicate edge" when an instruction graph contained an unconditional
    self-loop off its entry). -/
theorem blockify_ok {ds : List Cfg} (hds : ∀ d ∈ ds, WF d ∧ d.entry.isSome = true ∧ d.exit.isSome = true) :
    ∃ c, blockify ds = .ok c := blockify_total hds

/-- **history_no_panic** — in every history that starts from `ControlFlowGraph::new()` no call panics
    (`block_map[&…]` in `append`/`insert`, `edges_in(successor).unwrap()` in `merge` always succeed, because the
    graphs they read are well formed by `ops_wf`); so the convention "a panicking call leaves the graphs
    unchanged" of `run` is never exercised. -/
theorem history_no_panic (ops : List EditOp) (o : EditOp) : (run (runAll ops) o).2 ≠ .panic := by
  have h := step_no_panic (runAll ops) (ops_wf ops) o
  unfold run
  dsimp only
  split
  · rename_i hp; exact absurd hp h
  · rename_i hnp; exact fun hp => hnp hp

-- non-vacuity ------------------------------------------------------------------------------------------

/-- a history with a merge that merges, an append and an insert -/
example : WF (runAll [.newBlock 0, .newBlock 0, .uedge 0 0 1, .entry 0 0, .exit 0 1, .op 0 1 .nop,
    .merge 0, .append 1 0, .insert 2 1] 2) := ops_wf _ 2

/-- the graph `0 → 1` (entry 0, exit 1, one instruction in block 1) -/
def exG : Cfg := runAll [.newBlock 0, .newBlock 0, .uedge 0 0 1, .entry 0 0, .exit 0 1, .op 0 1 .nop] 0

/-- `merge` selects the pair (0, 1) on it, the pair is valid, the step succeeds and really merges -/
example : collect exG exG.blocks [] = .ok [(0, 1)] := by decide
example : ValidPair exG 0 1 := (merge_selects_valid_pairs (c := exG) (ms := [(0, 1)]) (by decide)).1 (0, 1) (by simp)
example : (mergeStep exG 0 1).res = .ok () ∧ (mergeStep exG 0 1).cfg.blocks.length = 1 ∧
    (mergeStep exG 0 1).cfg.exit = some 0 := by decide

/-- `append` of it to itself succeeds (non-empty destination), and to the empty graph -/
example : (CfgEdit.append exG exG).res = .ok () ∧ exG.blocks ≠ [] := by decide
example : (CfgEdit.append CfgEdit.new exG).res = .ok () := by decide
example : ∃ p, (CfgEdit.insert exG exG).res = .ok p := ⟨(2, 3), by decide⟩
example : ∃ c, blockify [exG, exG] = .ok c ∧ c.blocks.length = 1 ∧ c.exit = some 0 := ⟨_, rfl, by decide, by decide⟩

end Falcon.C15
