import FalconModel.CfgEdit
namespace Falcon.C15
open Falcon Falcon.CfgEdit

theorem new_wf : WF CfgEdit.new := by
  constructor <;> simp [CfgEdit.new, Cfg.hasBlock]

end Falcon.C15
