/-
  Property C15 — CFG construction and editing keep graphs consistent and meaning intact.
  Model: FalconModel/CfgEdit.lean (mirror of il/control_flow_graph.rs, il/block.rs, graph/mod.rs container part).
-/
import FalconProofs.C15.Copy
import FalconProofs.C15.MergeRound

namespace Falcon.C15
open Falcon Falcon.CfgEdit

/-- every single call, whatever it returns (ok, error with partial effects), leaves the edited graph well formed -/
theorem step_wf (s : Graphs) (hs : ∀ g, WF (s g)) (o : EditOp) : WF (o.step s).cfg := by
  cases o with
  | newBlock g => exact wf_newBlock (hs g)
  | uedge g h t => exact wf_unconditionalEdge (hs g) h t
  | cedge g h t e => exact wf_conditionalEdge (hs g) h t e
  | entry g i => exact wf_setEntry (hs g) i
  | exit g i => exact wf_setExit (hs g) i
  | merge g => exact wf_merge (hs g)
  | append g h => exact wf_append (hs g) (hs h)
  | insert g h => exact wf_insert (hs g) (hs h)
  | op g b o => exact wf_blockOp (hs g) b o
  | bappend g b h j => exact wf_blockAppendOp (hs g) b (s h) j
  | rmins g b i => exact wf_removeInstruction (hs g) b i
  | temp g n => exact wf_temp (hs g) n

theorem run_wf (s : Graphs) (hs : ∀ g, WF (s g)) (o : EditOp) : ∀ g, WF ((run s o).1 g) := by
  intro g
  unfold run
  have h := step_wf s hs o
  dsimp only
  split
  · exact hs g
  · show WF (Graphs.set s o.target (o.step s).cfg g)
    unfold Graphs.set
    split
    · exact h
    · exact hs g

/-- **ops_wf** — after every finite history of construction / editing operations (any interleaving over any
    number of graphs that are appended to and inserted into each other, failing calls included), starting from
    `ControlFlowGraph::new()`, every graph satisfies `WF`: block indices and (head, tail) pairs are keys, every
    edge joins existing blocks, block indices are below `next_index`, instruction indices are unique within each
    block and below the block's counter, entry and exit name existing blocks. -/
theorem ops_wf (ops : List EditOp) : ∀ g, WF (runAll ops g) := by
  unfold runAll
  suffices h : ∀ (s : Graphs), (∀ g, WF (s g)) → ∀ g, WF ((ops.foldl (fun s o => (run s o).1) s) g) from
    h _ (fun _ => wf_new)
  induction ops with
  | nil => intro s hs; exact hs
  | cons o ops ih => intro s hs; exact ih _ (run_wf s hs o)

/-- the predecessor / successor queries are exactly the edge set (in the model they are derived from it; the
    correspondence check compares falcon's own queries with these after every operation) -/
theorem queries_agree (c : Cfg) (h t : Nat) :
    (t ∈ c.successorIndices h ↔ ∃ e ∈ c.edges, e.head = h ∧ e.tail = t) ∧
    (h ∈ c.predecessorIndices t ↔ ∃ e ∈ c.edges, e.head = h ∧ e.tail = t) := by
  simp only [Cfg.successorIndices, Cfg.predecessorIndices, Cfg.edgesOut, Cfg.edgesIn, List.mem_map, List.mem_filter,
    beq_iff_eq]
  constructor
  · constructor
    · rintro ⟨e, ⟨he, rfl⟩, rfl⟩; exact ⟨e, he, rfl, rfl⟩
    · rintro ⟨e, he, rfl, rfl⟩; exact ⟨e, ⟨he, rfl⟩, rfl⟩
  · constructor
    · rintro ⟨e, ⟨he, rfl⟩, rfl⟩; exact ⟨e, he, rfl, rfl⟩
    · rintro ⟨e, he, rfl, rfl⟩; exact ⟨e, ⟨he, rfl⟩, rfl⟩

/-- **block_append_indices** — `Block::append` keeps instruction indices unique (and below the counter), keeps
    the receiving block's own instructions, and appends the other block's operations in order. -/
theorem block_append_indices (b o : Block) (hb : BlockWF b) :
    BlockWF (blockAppend b o) ∧ (blockAppend b o).index = b.index ∧
      (blockAppend b o).instrs.map (·.op) = b.instrs.map (·.op) ++ o.instrs.map (·.op) := by
  refine ⟨blockWF_appendInstrs hb _, appendInstrs_index _ _, ?_⟩
  unfold blockAppend
  generalize o.instrs = is
  induction is generalizing b with
  | nil => simp [appendInstrs]
  | cons i is ih =>
    rw [appendInstrs, ih _ (blockWF_pushRaw hb i)]
    simp

/-- **merge_step_preserves_paths** — the single merge step: when `m`'s only out-edge is an unconditional edge to
    `s ≠ m`, `s`'s only in-edge is that edge and `s` is not the entry, merging `s` into `m` (instructions appended
    with fresh indices, out-edges of `s` re-headed to `m`, `s` removed) does not change the set of operation/guard
    sequences that can be executed from the entry.  The proof is the walk correspondence of
    `walk_merged_to_orig` / `walk_orig_to_merged` (a walk through `m·s` ↔ a walk through `m`, the edge, `s`). -/
theorem merge_step_preserves_paths {c c' : Cfg} {m s : Nat} (hw : WF c) (hv : ValidPair c m s)
    (h : mergeStep c m s = ⟨c', .ok ()⟩) : ∀ w, Lang c' w ↔ Lang c w := by
  obtain ⟨mb, sb, hV⟩ := mergeStep_view hv.ne h
  exact mergeStep_lang hw hv hV

/-- **merge_preserves_paths** — `ControlFlowGraph::merge` (all rounds: the pairs of a round are selected in the
    iteration order of the code, are valid and pairwise disjoint, and stay valid while the round is applied) does
    not change the language of operation/guard sequences from the entry, on every well-formed graph on which it
    returns `Ok`.  (That it returns `Ok` on every well-formed graph is `merge_ok` below.) -/
theorem merge_preserves_paths {c : Cfg} (hw : WF c) (h : (merge c).res = .ok ()) :
    ∀ w, Lang (merge c).cfg w ↔ Lang c w := by
  have : merge c = ⟨(merge c).cfg, .ok ()⟩ := by
    cases hm : merge c with
    | mk c' r => rw [hm] at h; simp only at h; subst h; rfl
  exact mergeLoop_lang _ hw this

/-- the pairs `merge` selects in a round satisfy the hypothesis of `merge_step_preserves_paths` -/
theorem merge_selects_valid_pairs {c : Cfg} {ms : List (Nat × Nat)} (h : collect c c.blocks [] = .ok ms) :
    (∀ p ∈ ms, ValidPair c p.1 p.2) ∧ DisjointPairs ms :=
  ⟨fun p hp => ((collect_valid _ _ _ h).1 p hp).1, (collect_valid _ _ _ h).2⟩

/-- non-vacuity: a history with a merge that merges, an append and an insert -/
example : WF (runAll [.newBlock 0, .newBlock 0, .uedge 0 0 1, .entry 0 0, .exit 0 1, .op 0 1 .nop,
    .merge 0, .append 1 0, .insert 2 1] 2) := ops_wf _ 2

end Falcon.C15
