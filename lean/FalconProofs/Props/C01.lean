import FalconModel.Isa.X86
namespace Falcon.C01
end Falcon.C01
