/-
  C01 — the x86/amd64 lifter agrees with the processor on every instruction and state.

  FULL PROPERTY (properties.jsonl): for every 32-bit x86 or x86-64 encoding the lifter accepts and every state in which
  the architecture defines the outcome, running the lifted IL ends with the same general/XMM registers, memory,
  CF/ZF/SF/OF/DF and next instruction address as the processor; lifting never fails with a sort error.

      theorem lift_correct (i : X86.Ins) (r : BTR) : lift i = .ok r → ∀ σ st, Rel σ st →
          runBTR r σ  agrees with  X86.step i st   on every register, flag, memory byte and the next address

  WHAT IS PROVED HERE (all of it universal over operand values / register contents / states; nothing is bounded):
    (A) mirror + theorem, INSTRUCTION LEVEL (`lift_correct_rr/ri/un/rm/mr/mi/lea/setcc/cmov/jcc/test/xchg/extend/push64/pop64/ret64/call64/ret_imm16/leave/push_imm64/call_r64`): 64-bit mode,
        {mov add sub cmp and or xor} x (reg,reg | reg,imm | reg,[mem] | [mem],reg | [mem],imm), lea, and
        {inc dec neg not} x register, setcc r8, cmovcc r,r and jcc rel (14 codes each), test r,r|r,imm, xchg r,r, movzx/movsx/movsxd r,r, push r64, pop r64, ret, ret imm16 (immediate zero-extended), call rel32, call r64 (next address = the loaded value / the target), leave, push imm (64-bit operand); memory operands = base + index*scale + disp with 64-bit registers or rip, mapped
        and non-wrapping accesses; registers at every operand size and shape — 64-bit, 32-bit (zero-extending), 16-bit, low byte, and the high-byte
        registers ah/ch/dh/bh — every pair of registers (aliasing included), every state: `runBTR` of the mirrored
        `BlockTranslationResult` agrees with `X86.step` on all sixteen general registers, CF ZF SF OF, memory and the
        next address.  The driver compares the mirror SYNTACTICALLY with falcon's dumped IL on every generated case of
        the class; a difference is a broken correspondence.
    (A) at the level of the lifter's shared helpers (every builder is assembled from them):
        * flag formulas of add/adc/sub/sbb/cmp/inc/dec/neg equal the SDM definitions at 8/16/32/64 bits  — flags_*
        * the IL expressions those helpers build denote these formulas in every state — il_*, add_flags_il, sub_flags_il
        * shift CF/result formulas of shl/shr/sar equal the SDM's for every masked count  — shift_*
        * `cc_condition` equals the SDM condition table for all 16 codes               — il_cc_condition
        * sub-register algebra of `X86Register::get/set`: bit-vector level (subreg_*) and IL level (il_reg_get/set)
    (B) none (no regenerated per-encoding theorems).
    (C) differential only — falcon's executor vs Lean IL semantics vs this specification vs the host CPU (amd64):
        every other mnemonic and operand form; 32-bit mode for every form; listed as `unproved_mnemonics` in the evidence.
  MISSING for the full `lift_correct`: memory operands (effective address, load/store through `bytesOf`), every other
  mnemonic, 32-bit mode (the same algebra over 32-bit full registers), DF and the XMM file in the state relation, and the
  step from the mirror to the Rust source itself (syntactic comparison on generated cases, not a proof).
-/
import FalconProofs.C01.Flags
import FalconProofs.C01.Shifts
import FalconProofs.C01.SubReg
import FalconProofs.C01.FlagsIL
import FalconProofs.C01.Cond
import FalconProofs.C01.RegIL
import FalconProofs.C01.Alu
import FalconProofs.C01.Unary
import FalconProofs.C01.MemForms
import FalconProofs.C01.Setcc
import FalconProofs.C01.Cmov
import FalconProofs.C01.Misc
import FalconProofs.C01.Stack
import FalconProofs.C01.Flow

namespace Falcon.C01.Props
open Falcon Falcon.X86 Falcon.X86Lift Falcon.Const Falcon.Sem Falcon.C01

/-! ### flag formulas = SDM definitions, all values, widths 8/16/32/64 -/

theorem flags_sf {w : Nat} (hw : OpWidth w) (r : BitVec w) : fSf r = msb r := sf_eq hw r

theorem flags_add {w : Nat} (hw : OpWidth w) (a b : BitVec w) :
    fCfAdd (a + b) a = carryAdd a b false ∧ fOf (a + b) a b false = overflowAdd a b false :=
  ⟨add_cf_eq hw a b, add_of_eq hw a b⟩

theorem flags_adc {w : Nat} (hw : OpWidth w) (a b : BitVec w) (c : Bool) :
    fCfAdc a b c = carryAdd a b c ∧ fOf (a + b + (BitVec.ofBool c).setWidth w) a b false = overflowAdd a b c :=
  ⟨adc_cf_eq hw a b c, adc_of_eq hw a b c⟩

/-- sub and cmp -/
theorem flags_sub {w : Nat} (hw : OpWidth w) (a b : BitVec w) :
    fCfSub (a - b) a = borrowSub a b false ∧ fOf (a - b) a b true = overflowSub a b false :=
  ⟨sub_cf_eq hw a b, sub_of_eq hw a b⟩

theorem flags_sbb {w : Nat} (hw : OpWidth w) (a b : BitVec w) (c : Bool) :
    fCfSbb a b c = borrowSub a b c ∧ fOf (a - b - (BitVec.ofBool c).setWidth w) a b true = overflowSub a b c :=
  ⟨sbb_cf_eq hw a b c, sbb_of_eq hw a b c⟩

/-- inc and dec are add/sub of one with CF left alone: OF by the same formula -/
theorem flags_inc_dec {w : Nat} (hw : OpWidth w) (a : BitVec w) :
    fOf (a + 1) a 1 false = overflowAdd a 1 false ∧ fOf (a - 1) a 1 true = overflowSub a 1 false :=
  ⟨add_of_eq hw a 1, sub_of_eq hw a 1⟩

/-- neg is `0 - a`; its CF is `a != 0` -/
theorem flags_neg {w : Nat} (hw : OpWidth w) (a : BitVec w) :
    (a != 0) = borrowSub 0 a false ∧ fOf (0 - a) 0 a true = overflowSub 0 a false :=
  ⟨neg_cf_eq hw a, sub_of_eq hw 0 a⟩

/-! ### shifts -/

theorem shift_shl_cf8 (a c : BitVec 8) (h0 : c ≠ 0) (h : c ≤ 31) : fCfShl a c = (shlSpec a c.toNat).cf := shl_cf_eq8 a c h0 h
theorem shift_shl_cf16 (a c : BitVec 16) (h0 : c ≠ 0) (h : c ≤ 31) : fCfShl a c = (shlSpec a c.toNat).cf := shl_cf_eq16 a c h0 h
theorem shift_shl_cf32 (a c : BitVec 32) (h0 : c ≠ 0) (h : c ≤ 31) : fCfShl a c = (shlSpec a c.toNat).cf := shl_cf_eq32 a c h0 h
theorem shift_shl_cf64 (a c : BitVec 64) (h0 : c ≠ 0) (h : c ≤ 63) : fCfShl a c = (shlSpec a c.toNat).cf := shl_cf_eq64 a c h0 h
theorem shift_shr_cf {w : Nat} (hw : OpWidth w) (a c : BitVec w) (h0 : c ≠ 0) : fCfShr a c = (shrSpec a c.toNat).cf := shr_cf_eq hw a c h0
theorem shift_sar_cf {w : Nat} (hw : OpWidth w) (a c : BitVec w) (h0 : c ≠ 0) : fCfSar a c = (sarSpec a c.toNat).cf := sar_cf_eq hw a c h0
theorem shift_results {w : Nat} (a c : BitVec w) :
    a <<< c = (shlSpec a c.toNat).r ∧ a >>> c = (shrSpec a c.toNat).r ∧ a.sshiftRight' c = (sarSpec a c.toNat).r :=
  ⟨rfl, rfl, rfl⟩

/-! ### sub-registers, bit-vector level -/

theorem subreg_get (σ : St) (i : Nat) :
    getReg σ ⟨i, 64, 0⟩ 64 = σ.gpr i ∧ getReg σ ⟨i, 32, 0⟩ 32 = fGetLow (σ.gpr i) 32 ∧
    getReg σ ⟨i, 16, 0⟩ 16 = fGetLow (σ.gpr i) 16 ∧ getReg σ ⟨i, 8, 0⟩ 8 = fGetLow (σ.gpr i) 8 ∧
    getReg σ ⟨i, 8, 8⟩ 8 = fGetHigh (σ.gpr i) :=
  ⟨get64 σ i, get32 σ i, get16 σ i, get8 σ i, get8h σ i⟩

theorem subreg_set (old : BitVec 64) (i : Nat) (v64 : BitVec 64) (v32 : BitVec 32) (v16 : BitVec 16) (v8 : BitVec 8) :
    mergeReg old ⟨i, 64, 0⟩ v64 = v64 ∧ mergeReg old ⟨i, 32, 0⟩ (v32.setWidth 64) = fSet32 v32 ∧
    mergeReg old ⟨i, 16, 0⟩ (v16.setWidth 64) = fSetLow old v16 ∧ mergeReg old ⟨i, 8, 0⟩ (v8.setWidth 64) = fSetLow old v8 ∧
    mergeReg old ⟨i, 8, 8⟩ (v8.setWidth 64) = fSetHigh old v8 :=
  ⟨set64 old v64 i, set32 old v32 i, set16 old v16 i, set8 old v8 i, set8h old v8 i⟩

/-- the architecture's rules: 32-bit writes zero the upper half, 16/8-bit writes keep the rest, ah..bh are bits 8..15 -/
theorem subreg_rules (old : BitVec 64) (i : Nat) (v32 : BitVec 32) (v16 : BitVec 16) (v8 : BitVec 8) :
    ((mergeReg old ⟨i, 32, 0⟩ (v32.setWidth 64)) >>> 32 = 0 ∧ (mergeReg old ⟨i, 32, 0⟩ (v32.setWidth 64)).setWidth 32 = v32) ∧
    ((mergeReg old ⟨i, 16, 0⟩ (v16.setWidth 64)) >>> 16 = old >>> 16 ∧ (mergeReg old ⟨i, 16, 0⟩ (v16.setWidth 64)).setWidth 16 = v16) ∧
    ((mergeReg old ⟨i, 8, 0⟩ (v8.setWidth 64)) >>> 8 = old >>> 8 ∧ (mergeReg old ⟨i, 8, 0⟩ (v8.setWidth 64)).setWidth 8 = v8) ∧
    ((mergeReg old ⟨i, 8, 8⟩ (v8.setWidth 64)) >>> 16 = old >>> 16 ∧ (mergeReg old ⟨i, 8, 8⟩ (v8.setWidth 64)).setWidth 8 = old.setWidth 8 ∧
      ((mergeReg old ⟨i, 8, 8⟩ (v8.setWidth 64)) >>> 8).setWidth 8 = v8) :=
  ⟨write32_zero_extends old v32 i, write16_preserves old v16 i, write8_preserves old v8 i, write_high_byte old v8 i⟩

/-- the defect repaired by da452c2 is a defect: the old expression differs from the architecture for some contents -/
theorem subreg_old_high_byte_defect :
    ∃ (old : BitVec 64) (v : BitVec 8), ((old &&& (0xff#64 <<< 8)) ||| (v.setWidth 64 <<< 8)) ≠ mergeReg old ⟨0, 8, 8⟩ (v.setWidth 64) :=
  old_high_byte_mask_wrong

/-! ### the helpers' IL expressions denote the formulas, in every state -/

theorem il_zf (σ : State) (res : Expr) {w : Nat} (r : BitVec w) (h : Val σ res r) :
    ∃ e, zfExpr res = .ok e ∧ value σ e = .ok (bit (fZf r)) := zf_value σ res r h

theorem il_sf (σ : State) (res : Expr) {w : Nat} (hw : 2 ≤ w) (h64 : w < 2 ^ 64) (r : BitVec w) (h : Val σ res r) :
    ∃ e, sfExpr res = .ok e ∧ value σ e = .ok (bit (fSf r)) := sf_value σ res hw h64 r h

theorem il_of (σ : State) (res lhs rhs : Expr) {w : Nat} (hw : 2 ≤ w) (h64 : w ≤ 64) (r a b : BitVec w) (sub : Bool)
    (hr : Val σ res r) (ha : Val σ lhs a) (hb : Val σ rhs b) :
    ∃ e, ofExpr res lhs rhs sub = .ok e ∧ value σ e = .ok (bit (fOf r a b sub)) := of_value σ res lhs rhs hw h64 r a b sub hr ha hb

theorem il_cf_sub (σ : State) (res lhs : Expr) {w : Nat} (r a : BitVec w) (hr : Val σ res r) (ha : Val σ lhs a) :
    ∃ e, cfSubExpr res lhs = .ok e ∧ value σ e = .ok (bit (fCfSub r a)) := cfSub_value σ res lhs r a hr ha

theorem il_cf_add (σ : State) (res lhs : Expr) {w : Nat} (r a : BitVec w) (hr : Val σ res r) (ha : Val σ lhs a) :
    ∃ e, cfAddExpr res lhs = .ok e ∧ value σ e = .ok (bit (fCfAdd r a)) := cfAdd_value σ res lhs r a hr ha

/-- add: the four flag expressions the builder emits exist (no sort error) and denote exactly the flags the SDM
    defines (`X86.addWith`), whatever the operand values, at every operand width -/
theorem add_flags_il (σ : State) (st : St) (res lhs rhs : Expr) {w : Nat} (hw : OpWidth w) (a b : BitVec w)
    (ha : Val σ lhs a) (hb : Val σ rhs b) (hr : Val σ res (a + b)) :
    ∃ ez es eo ec, zfExpr res = .ok ez ∧ sfExpr res = .ok es ∧ ofExpr res lhs rhs false = .ok eo ∧ cfAddExpr res lhs = .ok ec ∧
      value σ ez = .ok (bit (addWith st a b false).2.zf) ∧ value σ es = .ok (bit (addWith st a b false).2.sf) ∧
      value σ eo = .ok (bit (addWith st a b false).2.of) ∧ value σ ec = .ok (bit (addWith st a b false).2.cf) := by
  have h2 : 2 ≤ w := by rcases hw with rfl | rfl | rfl | rfl <;> omega
  have h64 : w ≤ 64 := by rcases hw with rfl | rfl | rfl | rfl <;> omega
  obtain ⟨ez, hz1, hz2⟩ := zf_value σ res (a + b) hr
  obtain ⟨es, hs1, hs2⟩ := sf_value σ res h2 (by omega) (a + b) hr
  obtain ⟨eo, ho1, ho2⟩ := of_value σ res lhs rhs h2 h64 (a + b) a b false hr ha hb
  obtain ⟨ec, hc1, hc2⟩ := cfAdd_value σ res lhs (a + b) a hr ha
  refine ⟨ez, es, eo, ec, hz1, hs1, ho1, hc1, ?_, ?_, ?_, ?_⟩
  · simpa [addWith, setSZ, fZf] using hz2
  · rw [hs2, sf_eq hw]; simp [addWith, setSZ]
  · rw [ho2, add_of_eq hw]; simp [addWith, setSZ]
  · rw [hc2, add_cf_eq hw]; simp [addWith, setSZ]

/-- sub and cmp: likewise against `X86.subWith` -/
theorem sub_flags_il (σ : State) (st : St) (res lhs rhs : Expr) {w : Nat} (hw : OpWidth w) (a b : BitVec w)
    (ha : Val σ lhs a) (hb : Val σ rhs b) (hr : Val σ res (a - b)) :
    ∃ ez es eo ec, zfExpr res = .ok ez ∧ sfExpr res = .ok es ∧ ofExpr res lhs rhs true = .ok eo ∧ cfSubExpr res lhs = .ok ec ∧
      value σ ez = .ok (bit (subWith st a b false).2.zf) ∧ value σ es = .ok (bit (subWith st a b false).2.sf) ∧
      value σ eo = .ok (bit (subWith st a b false).2.of) ∧ value σ ec = .ok (bit (subWith st a b false).2.cf) := by
  have h2 : 2 ≤ w := by rcases hw with rfl | rfl | rfl | rfl <;> omega
  have h64 : w ≤ 64 := by rcases hw with rfl | rfl | rfl | rfl <;> omega
  obtain ⟨ez, hz1, hz2⟩ := zf_value σ res (a - b) hr
  obtain ⟨es, hs1, hs2⟩ := sf_value σ res h2 (by omega) (a - b) hr
  obtain ⟨eo, ho1, ho2⟩ := of_value σ res lhs rhs h2 h64 (a - b) a b true hr ha hb
  obtain ⟨ec, hc1, hc2⟩ := cfSub_value σ res lhs (a - b) a hr ha
  refine ⟨ez, es, eo, ec, hz1, hs1, ho1, hc1, ?_, ?_, ?_, ?_⟩
  · simpa [subWith, setSZ, fZf] using hz2
  · rw [hs2, sf_eq hw]; simp [subWith, setSZ]
  · rw [ho2, sub_of_eq hw]; simp [subWith, setSZ]
  · rw [hc2, sub_cf_eq hw]; simp [subWith, setSZ]

/-- `cc_condition` (jcc, setcc, cmovcc): all sixteen codes -/
theorem il_cc_condition (σ : State) (s : St) (h : FlagsHeld σ s) (c : Nat) (hc : c < 16) :
    ∃ e, ccExpr c = .ok e ∧ value σ e = .ok (bit (X86.cond s c)) := cc_value σ s h c hc

/-- `X86Register::get`, 64-bit mode, all five shapes -/
theorem il_reg_get (σ : State) (r : GReg) (hr : Shape r) (x : BitVec 64)
    (h : σ.get (fullName .amd64 r.idx) = some (ofBV x)) :
    ∃ e, regGet .amd64 r = .ok e ∧ Val σ e (((x >>> r.off).setWidth r.bits).setWidth r.bits) := regGet_value σ r hr x h

/-- `X86Register::set`, 64-bit mode, all five shapes: the full register receives the architecture's merge -/
theorem il_reg_set (σ : State) (r : GReg) (hr : Shape r) (x : BitVec 64) (ve : Expr) (v : BitVec r.bits)
    (h : σ.get (fullName .amd64 r.idx) = some (ofBV x)) (hv : Val σ ve v) :
    ∃ e, regSetExpr .amd64 r ve = .ok e ∧ Val σ e (mergeReg x r (v.setWidth 64)) := regSet_value σ r hr x ve v h hv

/-! ### instruction level: option (A) `lift_correct` for the register-register class, 64-bit mode -/

/-- `StateOK`: the IL state defines every architectural register and CF ZF SF OF at their widths — i.e. it holds
    some machine state `st` (`Abs σ st`: rax…r15 as 64-bit scalars, the four flags as 1-bit scalars, memory = st.mem) -/
def StateOK (σ : State) : Prop := ∃ st, Abs σ st

/-- **lift_correct_rr.**  For every mnemonic of {mov add sub cmp and or xor}, every pair of general registers of equal
    width in any of the five shapes (64-bit, 32-bit, 16-bit, low byte, HIGH byte ah/ch/dh/bh — `Shape`), every address and
    length, and every IL state `σ` holding a machine state `st`:
    the mirror produces a `BlockTranslationResult` (no sort error) and running it with the IL semantics (`runBTR`: what
    falcon's executor does, property C07) ends at `address + length` in a state `σ'` such that the x86 specification's
    result `st'` for the same instruction from `st` is defined (no trap, nothing undefined) and
      * every general register of `σ'` is the register of `st'`   (ALL sixteen, not only the destination),
      * CF ZF SF OF of `σ'` are those of `st'`,
      * memory is unchanged and equals the specification's.
    The mirror is compared syntactically with falcon's dumped IL on every generated case of the class (driver). -/
theorem lift_correct_rr {m : String} (hm : m ∈ aluMn) {d s : GReg} (hd : Shape d) (hs : Shape s)
    (hb : s.bits = d.bits) (hdi : d.idx < 16) (hsi : s.idx < 16) (addr len asz : Nat) (haddr : addr + len < 2 ^ 64)
    (σ : State) (st : St) (hok : Abs σ st) :
    ∃ r σ' st', liftRR .amd64 m addr len d s = .ok r ∧
      runBTR r σ = .next σ' [addr + len] ∧
      X86.step (insRR m addr len asz d s) st = .ok st' (addr + len) [] ∧
      (∀ i, i < 16 → σ'.get (rName i) = some (ofBV (st'.gpr i))) ∧
      σ'.get "CF" = some (ofBV (BitVec.ofBool st'.cf)) ∧ σ'.get "ZF" = some (ofBV (BitVec.ofBool st'.zf)) ∧
      σ'.get "SF" = some (ofBV (BitVec.ofBool st'.sf)) ∧ σ'.get "OF" = some (ofBV (BitVec.ofBool st'.of)) ∧
      σ'.mem = σ.mem ∧ σ'.mem = st'.mem := by
  obtain ⟨r, hr, σ', st', h1, h2, h3, h4⟩ := lift_rr hm hd hs hb hdi hsi addr len asz haddr σ st hok
  exact ⟨r, σ', st', hr, h1, h2, h3.gpr, h3.cf, h3.zf, h3.sf, h3.of, h4, h3.mem⟩

/-- the same for every `StateOK` state (the machine state it holds is the one the specification starts from) -/
theorem lift_correct_rr_stateOK {m : String} (hm : m ∈ aluMn) {d s : GReg} (hd : Shape d) (hs : Shape s)
    (hb : s.bits = d.bits) (hdi : d.idx < 16) (hsi : s.idx < 16) (addr len asz : Nat) (haddr : addr + len < 2 ^ 64)
    (σ : State) (hok : StateOK σ) :
    ∃ st r, Abs σ st ∧ liftRR .amd64 m addr len d s = .ok r ∧ Agrees r σ (insRR m addr len asz d s) st := by
  obtain ⟨st, ha⟩ := hok
  exact ⟨st, (lift_rr hm hd hs hb hdi hsi addr len asz haddr σ st ha).choose, ha,
    (lift_rr hm hd hs hb hdi hsi addr len asz haddr σ st ha).choose_spec⟩

/-- **lift_correct_ri.**  The same for `<mnemonic> r, imm` with an immediate of the register's width (what capstone
    reports: the encoded imm8/imm32 already sign-extended), every immediate value, all five register shapes. -/
theorem lift_correct_ri {m : String} (hm : m ∈ aluMn) {d : GReg} (hd : Shape d) (hdi : d.idx < 16) (v bytes : Nat)
    (hb : 8 * bytes = d.bits) (addr len asz : Nat) (haddr : addr + len < 2 ^ 64) (σ : State) (st : St) (hok : Abs σ st) :
    ∃ r σ' st', liftRI .amd64 m addr len d v bytes = .ok r ∧
      runBTR r σ = .next σ' [addr + len] ∧
      X86.step (insRI m addr len asz d v bytes) st = .ok st' (addr + len) [] ∧
      (∀ i, i < 16 → σ'.get (rName i) = some (ofBV (st'.gpr i))) ∧
      σ'.get "CF" = some (ofBV (BitVec.ofBool st'.cf)) ∧ σ'.get "ZF" = some (ofBV (BitVec.ofBool st'.zf)) ∧
      σ'.get "SF" = some (ofBV (BitVec.ofBool st'.sf)) ∧ σ'.get "OF" = some (ofBV (BitVec.ofBool st'.of)) ∧
      σ'.mem = σ.mem ∧ σ'.mem = st'.mem := by
  obtain ⟨r, hr, σ', st', h1, h2, h3, h4⟩ := lift_ri hm hd hdi v bytes hb addr len asz haddr σ st hok
  exact ⟨r, σ', st', hr, h1, h2, h3.gpr, h3.cf, h3.zf, h3.sf, h3.of, h4, h3.mem⟩

/-- **lift_correct_un.**  `inc / dec / neg / not  r` (inc/dec leave CF alone, neg sets CF = (r != 0), not changes no
    flag), all five register shapes. -/
theorem lift_correct_un {m : String} (hm : m ∈ unMn) {d : GReg} (hd : Shape d) (hdi : d.idx < 16)
    (addr len asz : Nat) (haddr : addr + len < 2 ^ 64) (σ : State) (st : St) (hok : Abs σ st) :
    ∃ r σ' st', liftUn .amd64 m addr len d = .ok r ∧
      runBTR r σ = .next σ' [addr + len] ∧
      X86.step (ins1 m addr len asz d) st = .ok st' (addr + len) [] ∧
      (∀ i, i < 16 → σ'.get (rName i) = some (ofBV (st'.gpr i))) ∧
      σ'.get "CF" = some (ofBV (BitVec.ofBool st'.cf)) ∧ σ'.get "ZF" = some (ofBV (BitVec.ofBool st'.zf)) ∧
      σ'.get "SF" = some (ofBV (BitVec.ofBool st'.sf)) ∧ σ'.get "OF" = some (ofBV (BitVec.ofBool st'.of)) ∧
      σ'.mem = σ.mem ∧ σ'.mem = st'.mem := by
  obtain ⟨r, hr, σ', st', h1, h2, h3, h4⟩ := lift_un hm hd hdi addr len asz haddr σ st hok
  exact ⟨r, σ', st', hr, h1, h2, h3.gpr, h3.cf, h3.zf, h3.sf, h3.of, h4, h3.mem⟩

/-! ### memory operands (64-bit mode, 64-bit address size, no segment override)

  `MemOk mo`: base and index are 64-bit general registers (any of the sixteen) or rip, any scale, any displacement
  (capstone's i64 as a u64), operand width 8/16/32/64.  `eaOf st addr len mo` is the architecture's effective address
  (`effAddr_is_eaOf`).  Hypotheses of every theorem: the `mo.bytes` bytes at the effective address are mapped
  (`readBytes … = some bs`) and the access does not wrap 2^64.  `Agrees r σ i st`: `runBTR r σ` ends at `addr + len`
  in a state `σ'` with `Abs σ' st'` for the `st'` with `X86.step i st = .ok st' (addr+len) []`, and `σ'.mem = σ.mem`;
  `AgreesM` is the same without the last clause (stores).  `Abs σ' st'` = all sixteen registers, CF ZF SF OF, the
  whole memory, and little-endian byte order. -/

/-- the mirror's address expression denotes the specification's effective address -/
theorem effAddr_is_eaOf (i : Ins) (hm : i.mode = .amd64) (hz : i.asz = 8) (st : St) (mo : MemOp) (hmo : MemOk mo) :
    effAddr i st none mo.base mo.index mo.scale mo.disp = eaOf st i.addr i.len mo :=
  effAddr_eq i hm hz st hmo.base hmo.index mo.scale mo.disp

/-- `mode.rs::operand_value` never fails on these operands and evaluates to that address in every state -/
theorem il_mem_address (σ : State) (st : St) (ha : Abs σ st) (addr len : Nat) (mo : MemOp) (hmo : MemOk mo) :
    memAddr .amd64 addr len mo.base mo.index mo.scale mo.disp = .ok (memAddrE addr len mo.base mo.index mo.scale mo.disp) ∧
    σ.evalIn (memAddrE addr len mo.base mo.index mo.scale mo.disp) =
      .ok (ofBV (memAddrV st addr len mo.base mo.index mo.scale mo.disp)) :=
  ⟨memAddr_eq hmo.base hmo.index addr len mo.scale mo.disp,
   (ev_memAddrE ha rfl hmo.base hmo.index addr len mo.scale mo.disp hmo.disp).1.evalIn⟩

/-- **lift_correct_rm**: `mov/add/sub/cmp/and/or/xor  r, [mem]` -/
theorem lift_correct_rm {m : String} (hm : m ∈ aluMn) {d : GReg} (hd : Shape d) (hdi : d.idx < 16) (mo : MemOp) (hmo : MemOk mo)
    (hk : 8 * mo.bytes = d.bits) (addr len : Nat) (haddr : addr + len < 2 ^ 64) (σ : State) (st : St) (hok : Abs σ st)
    (bs : List UInt8) (hmap : st.mem.readBytes (eaOf st addr len mo) mo.bytes = some bs)
    (hwrap : eaOf st addr len mo + mo.bytes ≤ 2 ^ 64) :
    ∃ ops, opsRM .amd64 m addr len d mo = .ok ops ∧
      Agrees (straight addr len ops) σ (insG m addr len (.reg d) (memOpnd mo)) st :=
  lift_rm hm hd hdi mo hmo hk addr len haddr σ st hok bs hmap hwrap

/-- **lift_correct_mr**: `mov/add/sub/cmp/and/or/xor  [mem], r` (load, compute, store back; `mov` stores; `cmp` loads) -/
theorem lift_correct_mr {m : String} (hm : m ∈ aluMn) (mo : MemOp) (hmo : MemOk mo) {s : GReg} (hs : Shape s)
    (hb : 8 * mo.bytes = s.bits) (hsi : s.idx < 16) (addr len : Nat) (haddr : addr + len < 2 ^ 64) (σ : State) (st : St)
    (hok : Abs σ st) (bs : List UInt8) (hmap : st.mem.readBytes (eaOf st addr len mo) mo.bytes = some bs)
    (hwrap : eaOf st addr len mo + mo.bytes ≤ 2 ^ 64) :
    ∃ ops, opsMR .amd64 m addr len mo s = .ok ops ∧
      AgreesM (straight addr len ops) σ (insG m addr len (memOpnd mo) (.reg s)) st :=
  lift_mr hm mo hmo hs hb hsi addr len haddr σ st hok bs hmap hwrap

/-- **lift_correct_mi**: `mov/add/sub/cmp/and/or/xor  [mem], imm` -/
theorem lift_correct_mi {m : String} (hm : m ∈ aluMn) (mo : MemOp) (hmo : MemOk mo) (v : Nat)
    (addr len : Nat) (haddr : addr + len < 2 ^ 64) (σ : State) (st : St) (hok : Abs σ st) (bs : List UInt8)
    (hmap : st.mem.readBytes (eaOf st addr len mo) mo.bytes = some bs) (hwrap : eaOf st addr len mo + mo.bytes ≤ 2 ^ 64) :
    ∃ ops, opsMI .amd64 m addr len mo v mo.bytes = .ok ops ∧
      AgreesM (straight addr len ops) σ (insG m addr len (memOpnd mo) (.imm v mo.bytes)) st :=
  lift_mi hm mo hmo v addr len haddr σ st hok bs hmap hwrap

/-- **lift_correct_lea**: `lea r64/r32/r16, [mem]` — the effective address, truncated; no access, no flags -/
theorem lift_correct_lea {d : GReg} (hd : Shape d) (hd16 : 16 ≤ d.bits) (hdi : d.idx < 16) (mo : MemOp) (hmo : MemOk mo)
    (addr len : Nat) (haddr : addr + len < 2 ^ 64) (σ : State) (st : St) (hok : Abs σ st) :
    ∃ ops, opsLea .amd64 addr len d mo = .ok ops ∧
      Agrees (straight addr len ops) σ (insG "lea" addr len (.reg d) (memOpnd mo)) st :=
  lift_lea hd hd16 hdi mo hmo addr len haddr σ st hok

/-- what a store leaves in memory: exactly the specification's little-endian bytes at the effective address, and the
    instruction `mov [mem], r` as an instance (the final IL memory is the specification's) -/
theorem store_bytes {σ : State} {st : St} (ha : Abs σ st) (m' : ByteMem) : Abs { σ with mem := m' } { st with mem := m' } :=
  abs_store ha m'

/-! ### flag consumers -/

/-- `cc_condition` under the state relation: for the fourteen condition codes that do not read PF the expression
    exists and `State::symbolize_and_eval` yields the SDM's condition (this is `il_cc_condition` in the form the
    instruction-level theorems use) -/
theorem il_cc_condition_ev {σ : State} {st : St} (hok : Abs σ st) (c : Nat) (hc : c < 16) (hp : c ≠ 10 ∧ c ≠ 11) :
    ∃ e, ccExpr c = .ok e ∧ e.bits = 1 ∧ σ.evalIn e = .ok (ofBV (BitVec.ofBool (X86.cond st c))) := by
  obtain ⟨e, h1, h2, h3⟩ := ev_cc hok c hc hp
  exact ⟨e, h1, h2, h3.evalIn⟩

/-- **lift_correct_setcc**: `setcc r8` for a low- or high-byte register, every mnemonic `m` that capstone maps to
    condition code `c` (`splitCc m = some ("set", c)`), fourteen codes -/
theorem lift_correct_setcc {m : String} {c : Nat} (hs : splitCc m = some ("set", c)) (hc : c < 16) (hp : c ≠ 10 ∧ c ≠ 11)
    {d : GReg} (hd : Shape d) (hd8 : d.bits = 8) (hdi : d.idx < 16) (addr len : Nat) (haddr : addr + len < 2 ^ 64)
    (σ : State) (st : St) (hok : Abs σ st) :
    ∃ ops, opsSetcc .amd64 c d = .ok ops ∧ Agrees (straight addr len ops) σ (ins1m m addr len d) st :=
  lift_setcc hs hc hp hd hd8 hdi addr len haddr σ st hok

/-- `mov r32, r32` with the SAME register (e.g. `mov eax, eax`) clears bits 63:32 of the 64-bit register: the lifted
    IL's final value of the full register is the zero-extension of its low half.  (A lifter that emits nothing for this
    instruction — seeded change C01-m3 — differs from the mirror syntactically and cannot satisfy this statement.) -/
theorem mov_r32_self_clears_upper (i : Nat) (hi : i < 16) (addr len asz : Nat) (haddr : addr + len < 2 ^ 64)
    (σ : State) (st : St) (hok : Abs σ st) :
    ∃ r σ', liftRR .amd64 "mov" addr len ⟨i, 32, 0⟩ ⟨i, 32, 0⟩ = .ok r ∧ runBTR r σ = .next σ' [addr + len] ∧
      σ'.get (rName i) = some (ofBV (((st.gpr i).setWidth 32).setWidth 64)) := by
  obtain ⟨r, hr, σ', st', h1, h2, h3, _⟩ :=
    lift_rr (m := "mov") (by decide) (Shape.r32 i) (Shape.r32 i) rfl hi hi addr len asz haddr σ st hok
  have hsp := step_mov addr len asz ⟨i, 32, 0⟩ st (src_reg st (Shape.r32 i) rfl hi) haddr
  rw [hsp] at h2
  injection h2 with h2 _ _
  refine ⟨r, σ', hr, h1, ?_⟩
  rw [h3.gpr i hi, ← h2]
  simp [setReg, mergeReg, getReg]

/-- **lift_correct_cmov**: `cmovcc r, r` at 64, 32 and 16 bits, fourteen condition codes, every register pair.  The
    mirror's four-block graph (head, not-taken arm, taken arm, exit) run by `runBTR` agrees with the specification,
    whose result is `setReg st d (if cond then src else dst)`: for a 32-bit destination the register is ZERO-EXTENDED
    whether or not the condition holds (`cmov_r32_not_taken_zero_extends` below spells that out). -/
theorem lift_correct_cmov {m : String} {c : Nat} (hsp : splitCc m = some ("cmov", c)) (hc : c < 16) (hp : c ≠ 10 ∧ c ≠ 11)
    {d s : GReg} (hd : Shape d) (hs : Shape s) (hb : s.bits = d.bits) (hd16 : 16 ≤ d.bits) (hdi : d.idx < 16) (hsi : s.idx < 16)
    (addr len asz : Nat) (haddr : addr + len < 2 ^ 64) (σ : State) (st : St) (hok : Abs σ st) :
    ∃ r, liftCmov .amd64 c addr len d s = .ok r ∧ Agrees r σ (insRR m addr len asz d s) st :=
  lift_cmov hsp hc hp hd hs hb hd16 hdi hsi addr len asz haddr σ st hok

/-- the not-taken 32-bit cmov: the lifted IL's final 64-bit register is the zero-extension of its low half -/
theorem cmov_r32_not_taken_zero_extends {m : String} {c : Nat} (hsp : splitCc m = some ("cmov", c)) (hc : c < 16)
    (hp : c ≠ 10 ∧ c ≠ 11) (i j : Nat) (hi : i < 16) (hj : j < 16) (addr len asz : Nat) (haddr : addr + len < 2 ^ 64)
    (σ : State) (st : St) (hok : Abs σ st) (hcond : X86.cond st c = false) :
    ∃ r σ', liftCmov .amd64 c addr len ⟨i, 32, 0⟩ ⟨j, 32, 0⟩ = .ok r ∧ runBTR r σ = .next σ' [addr + len] ∧
      σ'.get (rName i) = some (ofBV (((st.gpr i).setWidth 32).setWidth 64)) := by
  obtain ⟨r, hr, σ', st', h1, h2, h3, _⟩ :=
    lift_cmov hsp hc hp (Shape.r32 i) (Shape.r32 j) rfl (by simp) hi hj addr len asz haddr σ st hok
  rw [step_cmov m c hsp addr len asz _ _ st haddr] at h2
  injection h2 with h2 _ _
  refine ⟨r, σ', hr, h1, ?_⟩
  rw [h3.gpr i hi, ← h2]
  simp [setReg, mergeReg, getReg, hcond]

/-- **lift_correct_jcc**: `jcc target`, fourteen condition codes: the three-block graph leaves the state alone and the
    guarded successors select `target` exactly when the SDM's condition holds, `addr + len` otherwise; the
    specification's step is the same -/
theorem lift_correct_jcc {m : String} {c : Nat} (hsp : splitCc m = some ("j", c)) (hc : c < 16) (hp : c ≠ 10 ∧ c ≠ 11)
    (addr len target tb : Nat) (haddr : addr + len < 2 ^ 64) (ht : target < 2 ^ 64) (σ : State) (st : St) (hok : Abs σ st) :
    ∃ r, liftJcc c addr len target = .ok r ∧
      runBTR r σ = .next σ [if X86.cond st c then target else addr + len] ∧
      X86.step (insJ m addr len target tb) st = .ok st (if X86.cond st c then target else addr + len) [] :=
  lift_jcc hsp hc hp addr len target tb haddr ht σ st hok

/-! ### test, xchg, movzx / movsx / movsxd (registers) -/

/-- **lift_correct_test_rr**: `test r, r` — flags of `dst & src` (CF = OF = 0), nothing written -/
theorem lift_correct_test_rr {d s : GReg} (hd : Shape d) (hs : Shape s) (hb : s.bits = d.bits) (hdi : d.idx < 16) (hsi : s.idx < 16)
    (addr len asz : Nat) (haddr : addr + len < 2 ^ 64) (σ : State) (st : St) (hok : Abs σ st) :
    ∃ ops, opsTestRR .amd64 d s = .ok ops ∧ Agrees (straight addr len ops) σ (insRR "test" addr len asz d s) st :=
  lift_test_rr hd hs hb hdi hsi addr len asz haddr σ st hok

/-- **lift_correct_test_ri**: `test r, imm` -/
theorem lift_correct_test_ri {d : GReg} (hd : Shape d) (hdi : d.idx < 16) (v bytes : Nat) (hb : 8 * bytes = d.bits)
    (addr len asz : Nat) (haddr : addr + len < 2 ^ 64) (σ : State) (st : St) (hok : Abs σ st) :
    ∃ ops, opsTestRI .amd64 d v bytes = .ok ops ∧ Agrees (straight addr len ops) σ (insRI "test" addr len asz d v bytes) st :=
  lift_test_ri hd hdi v bytes hb addr len asz haddr σ st hok

/-- **lift_correct_xchg**: `xchg a, b` on registers of equal width, all shapes, aliasing included
    (`xchg al, ah`; `xchg eax, eax` zero-extends) -/
theorem lift_correct_xchg {a b : GReg} (hA : Shape a) (hB : Shape b) (hb : b.bits = a.bits) (hai : a.idx < 16) (hbi : b.idx < 16)
    (addr len asz : Nat) (haddr : addr + len < 2 ^ 64) (σ : State) (st : St) (hok : Abs σ st) :
    ∃ ops, opsXchg .amd64 addr a b = .ok ops ∧ Agrees (straight addr len ops) σ (insRR "xchg" addr len asz a b) st :=
  lift_xchg hA hB hb hai hbi addr len asz haddr σ st hok

/-- **lift_correct_extend**: `movzx r, r` (`signed = false`) and `movsx` / `movsxd r, r` (`signed = true`) from any
    narrower register, including the high-byte registers -/
theorem lift_correct_extend {m : String} (signed : Bool) (hm : if signed then (m = "movsx" ∨ m = "movsxd") else m = "movzx")
    {d s : GReg} (hd : Shape d) (hs : Shape s) (hlt : s.bits < d.bits) (hdi : d.idx < 16) (hsi : s.idx < 16)
    (addr len asz : Nat) (haddr : addr + len < 2 ^ 64) (σ : State) (st : St) (hok : Abs σ st) :
    ∃ ops, opsExtend .amd64 signed d s = .ok ops ∧ Agrees (straight addr len ops) σ (insRR m addr len asz d s) st :=
  lift_extend signed hm hd hs hlt hdi hsi addr len asz haddr σ st hok

/-- **lift_correct_pop64**: `pop r64` for every register (`pop rsp` included: the loaded value wins) — the IL loads
    eight bytes at `rsp`, adds 8 to `rsp`, then writes the register; premise: the eight bytes at `rsp` are mapped and do
    not wrap the address space. -/
theorem lift_correct_pop64 (i : Nat) (hi : i < 16) (addr len : Nat) (haddr : addr + len < 2 ^ 64) (σ : State) (st : St)
    (hok : Abs σ st) (bs : List UInt8) (hmap : st.mem.readBytes (st.gpr 4).toNat 8 = some bs)
    (hwrap : (st.gpr 4).toNat + 8 ≤ 2 ^ 64) :
    ∃ ops, opsPop64 addr ⟨i, 64, 0⟩ = .ok ops ∧ Agrees (straight addr len ops) σ (ins1g "pop" addr len ⟨i, 64, 0⟩) st :=
  lift_pop64 i hi addr len haddr σ st hok bs hmap hwrap

/-- **lift_correct_push64**: `push r64` for every register (`push rsp` included: the OLD stack pointer is stored) — the
    IL stores the register at `rsp - 8`, then subtracts 8 from `rsp`; memory is compared as well (`AgreesM`); premise:
    the eight bytes at `rsp - 8` are mapped and do not wrap the address space. -/
theorem lift_correct_push64 (i : Nat) (hi : i < 16) (addr len : Nat) (haddr : addr + len < 2 ^ 64) (σ : State) (st : St)
    (hok : Abs σ st) (bs : List UInt8) (hmap : st.mem.readBytes (st.gpr 4 - 8#64).toNat 8 = some bs)
    (hwrap : (st.gpr 4 - 8#64).toNat + 8 ≤ 2 ^ 64) :
    ∃ ops, opsPush64 ⟨i, 64, 0⟩ = .ok ops ∧ AgreesM (straight addr len ops) σ (ins1g "push" addr len ⟨i, 64, 0⟩) st :=
  lift_push64 i hi addr len haddr σ st hok bs hmap hwrap

/-- **lift_correct_ret64**: `ret` — the IL loads eight bytes at `rsp`, adds 8 to `rsp` and branches to the loaded value:
    the IL run ends with the single successor `natOfLE bs` (the return address read from the stack), `X86.step` does not
    trap and continues at the same address, and the end states agree (`AgreesTo`); premise: the eight bytes at `rsp`
    are mapped and do not wrap the address space. -/
theorem lift_correct_ret64 (addr len : Nat) (σ : State) (st : St) (hok : Abs σ st) (bs : List UInt8)
    (hmap : st.mem.readBytes (st.gpr 4).toNat 8 = some bs) (hwrap : (st.gpr 4).toNat + 8 ≤ 2 ^ 64) :
    ∃ ops, opsRet64 addr = .ok ops ∧
      AgreesTo { addr := addr, length := len, instrs := [oneBlock addr ops], succs := [] } σ (insRet addr len) st (natOfLE bs) :=
  lift_ret64 addr len σ st hok bs hmap hwrap

/-- **lift_correct_call64**: `call rel32` (absolute target `t` as the decoder reports it) — the IL stores the return
    address `addr + len` at `rsp - 8`, subtracts 8 from `rsp` and branches to the target: the IL run ends with the single
    successor `t % 2^64`, `X86.step` continues there, and the end states agree including memory (`Abs` relates the
    memories); premise: the eight bytes at `rsp - 8` are mapped and do not wrap the address space. -/
theorem lift_correct_call64 (addr len t bytes : Nat) (haddr : addr + len < 2 ^ 64) (σ : State) (st : St) (hok : Abs σ st)
    (bs : List UInt8) (hmap : st.mem.readBytes (st.gpr 4 - 8#64).toNat 8 = some bs)
    (hwrap : (st.gpr 4 - 8#64).toNat + 8 ≤ 2 ^ 64) :
    ∃ ops, opsCall64 addr len t = .ok ops ∧ AgreesTo (straight addr len ops) σ (insCall addr len t bytes) st (t % 2 ^ 64) :=
  lift_call64 addr len t bytes haddr σ st hok bs hmap hwrap

/-- **lift_correct_ret_imm16**: `ret imm16` — the IL pops the return address (load at `rsp`, `rsp += 8`), adds the
    immediate to `rsp` and branches to the loaded value.  The end state is given explicitly: the new stack pointer is
    `rsp + 8 + (v mod 2^16)`, the immediate ZERO-extended (`v`: the decoder's immediate, of any reported width), both for
    the IL run of the mirrored `BlockTranslationResult` and for `X86.step`.  Premise: the eight bytes at `rsp` are mapped
    and do not wrap. -/
theorem lift_correct_ret_imm16 (addr len v bytes : Nat) (σ : State) (st : St) (hok : Abs σ st) (bs : List UInt8)
    (hmap : st.mem.readBytes (st.gpr 4).toNat 8 = some bs) (hwrap : (st.gpr 4).toNat + 8 ≤ 2 ^ 64) :
    ∃ ops σ', opsRetImm64 addr v = .ok ops ∧
      runBTR { addr := addr, length := len, instrs := [oneBlock addr ops], succs := [] } σ = .next σ' [natOfLE bs] ∧
      X86.step (insRetImm addr len v bytes) st =
        .ok (setReg st (rsp 64) (st.gpr 4 + 8#64 + BitVec.ofNat 64 (v % 2 ^ 16))) (natOfLE bs) [] ∧
      Abs σ' (setReg st (rsp 64) (st.gpr 4 + 8#64 + BitVec.ofNat 64 (v % 2 ^ 16))) :=
  lift_retImm64 addr len v bytes σ st hok bs hmap hwrap

/-- **ret_imm16_zero_extends**: `ret 0x8000` from `rsp = 0x1000` ends with `rsp = 0x9008` in the IL state; a lifter that
    sign-extends the immediate would end with `rsp = 0xffff_ffff_ffff_9008`, and its IL differs from the mirror. -/
theorem ret_imm16_zero_extends (addr len : Nat) (σ : State) (st : St) (hok : Abs σ st) (bs : List UInt8)
    (hsp : st.gpr 4 = 0x1000#64) (hmap : st.mem.readBytes 0x1000 8 = some bs) :
    ∃ ops σ', opsRetImm64 addr 0x8000 = .ok ops ∧
      runBTR { addr := addr, length := len, instrs := [oneBlock addr ops], succs := [] } σ = .next σ' [natOfLE bs] ∧
      σ'.get "rsp" = some (ofBV 0x9008#64) := by
  obtain ⟨ops, σ', h1, h2, _, h4⟩ := lift_retImm64 addr len 0x8000 2 σ st hok bs (by rw [hsp]; exact hmap) (by rw [hsp]; decide)
  refine ⟨ops, σ', h1, h2, ?_⟩
  have := h4.gpr 4 (by decide)
  rw [show rsp 64 = ⟨4, 64, 0⟩ from rfl, gpr_setReg64, hsp] at this
  exact this

/-- **lift_correct_leave**: `leave` — `rsp := rbp`, load eight bytes there, `rsp += 8`, `rbp :=` the loaded value;
    premise: the eight bytes at `rbp` are mapped and do not wrap. -/
theorem lift_correct_leave (addr len : Nat) (haddr : addr + len < 2 ^ 64) (σ : State) (st : St) (hok : Abs σ st)
    (bs : List UInt8) (hmap : st.mem.readBytes (st.gpr 5).toNat 8 = some bs) (hwrap : (st.gpr 5).toNat + 8 ≤ 2 ^ 64) :
    ∃ ops, opsLeave64 addr = .ok ops ∧ Agrees (straight addr len ops) σ (insLeave addr len) st :=
  lift_leave64 addr len haddr σ st hok bs hmap hwrap

/-- **lift_correct_push_imm64**: `push imm8` / `push imm32` with the 64-bit operand size — `v` is the immediate as the
    decoder reports it (capstone: already sign-extended to 64 bits, operand size 8 bytes); the IL stores `v mod 2^64`
    at `rsp - 8` and subtracts 8 from `rsp`, as `X86.step` does (whose value is `sext` of the 64-bit immediate).  The
    sign extension from 8 or 32 bits itself is the decoder's, not the lifter's, and is outside this theorem. -/
theorem lift_correct_push_imm64 (addr len v : Nat) (haddr : addr + len < 2 ^ 64) (σ : State) (st : St) (hok : Abs σ st)
    (bs : List UInt8) (hmap : st.mem.readBytes (st.gpr 4 - 8#64).toNat 8 = some bs)
    (hwrap : (st.gpr 4 - 8#64).toNat + 8 ≤ 2 ^ 64) :
    ∃ ops, opsPushImm64 v = .ok ops ∧ AgreesM (straight addr len ops) σ (insPushImm addr len v) st :=
  lift_pushImm64 addr len v haddr σ st hok bs hmap hwrap

/-- **lift_correct_call_r64**: `call r64` for every register — the target is copied to a temporary BEFORE the return
    address is stored at `rsp - 8` and `rsp` is decremented; the IL run's single successor and the next address of
    `X86.step` are both the register's value in the START state. -/
theorem lift_correct_call_r64 (i : Nat) (hi : i < 16) (addr len : Nat) (haddr : addr + len < 2 ^ 64) (σ : State) (st : St)
    (hok : Abs σ st) (bs : List UInt8) (hmap : st.mem.readBytes (st.gpr 4 - 8#64).toNat 8 = some bs)
    (hwrap : (st.gpr 4 - 8#64).toNat + 8 ≤ 2 ^ 64) :
    ∃ ops, opsCallReg64 addr len ⟨i, 64, 0⟩ = .ok ops ∧
      AgreesTo (straight addr len ops) σ (insCallReg addr len ⟨i, 64, 0⟩) st (st.gpr i).toNat :=
  lift_callReg64 i hi addr len haddr σ st hok bs hmap hwrap

/-- **call_rsp_targets_old_rsp**: `call rsp` continues at the OLD stack pointer (not at `rsp - 8`) -/
theorem call_rsp_targets_old_rsp (addr len : Nat) (haddr : addr + len < 2 ^ 64) (σ : State) (st : St)
    (hok : Abs σ st) (bs : List UInt8) (hmap : st.mem.readBytes (st.gpr 4 - 8#64).toNat 8 = some bs)
    (hwrap : (st.gpr 4 - 8#64).toNat + 8 ≤ 2 ^ 64) :
    ∃ ops, opsCallReg64 addr len (rsp 64) = .ok ops ∧
      AgreesTo (straight addr len ops) σ (insCallReg addr len (rsp 64)) st (st.gpr 4).toNat :=
  lift_callReg64 4 (by decide) addr len haddr σ st hok bs hmap hwrap

/-! ### non-vacuity -/

/-- a state that is `StateOK`: all sixteen registers and the four flags defined, holding the all-zero machine state -/
def σ₀ : State :=
  { scalars := (gprNames.map fun n => (n, ofBV 0#64)) ++ ["CF", "ZF", "SF", "OF"].map fun n => (n, ofBV (BitVec.ofBool false)) }

example : StateOK σ₀ :=
  ⟨default, { gpr := by decide, cf := by decide, zf := by decide, sf := by decide, of := by decide, mem := rfl, endian := rfl }⟩

/-- the class is inhabited: `add bh, cl` (high byte destination) meets the hypotheses of `lift_correct_rr` -/
example : ("add" ∈ aluMn) ∧ Shape ⟨3, 8, 8⟩ ∧ Shape ⟨1, 8, 0⟩ := ⟨by decide, .h8 3, .r8 1⟩


/-- a state holding rbx and a constant: the hypotheses of `il_reg_set` for `mov bh, 0xb0` are met -/
example : ∃ (σ : State), σ.get (fullName .amd64 3) = some (ofBV 0x30ba02d9baf74b65#64) ∧ Val σ (Expr.ec 0xb0 8) (0xb0#8) :=
  ⟨{ scalars := [("rbx", ofBV 0x30ba02d9baf74b65#64)] }, rfl, val_ec _ 0xb0 8⟩

/-- the flag hypotheses of `il_cc_condition` are satisfiable -/
example : FlagsHeld { scalars := [("CF", bit true), ("ZF", bit false), ("SF", bit true), ("OF", bit false), ("PF", bit false)] }
    { (default : St) with cf := true, sf := true } :=
  ⟨rfl, rfl, rfl, rfl, rfl⟩

/-- a carry and an overflow really occur: the formulas are not constantly false -/
example : carryAdd 0xff#8 1#8 false = true ∧ overflowAdd 0x7f#8 1#8 false = true ∧ borrowSub 0#8 1#8 false = true := by decide

end Falcon.C01.Props
