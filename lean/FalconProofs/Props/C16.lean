import FalconModel.Backing
namespace Falcon.C16
open Falcon Falcon.Backing

theorem placeholder_new_abs (e : Endian) : abs (Memory.new e).sections = ByteMap.empty := by
  funext x; simp [abs, Memory.new, ByteMap.empty]

end Falcon.C16
