/-
  Property C16 — backing memory is a permissioned byte map under overlapping writes.

  Model: `FalconModel/Backing.lean` (mirror of lib/memory/backing.rs, panics and `Err` explicit).
  Specification: `ByteMap = Nat → Option (UInt8 × Perm)`, `override` (a region write), `overrideBytes`
  (a 4-byte store that keeps permissions), `readBytes`/`assemble`/`specGet` (multi-byte reads).
  `abs m.sections` is the byte map a section list stands for; `Inv` is the representation invariant
  (keys ascending, sections pairwise disjoint, none empty, every section ends below 2^64).

  Side condition carried by the theorems: a region satisfies `address + length < 2^64`.  A region that
  contains the byte 2^64-1 makes the u64 end-address arithmetic of falcon overflow (known finding
  `C16/topwin/top/*`, see known_findings.d/C16.json); lengths are unbounded otherwise, histories are arbitrary.
-/
import FalconProofs.Backing.SetMemory
import FalconProofs.Backing.Get
import FalconProofs.Backing.Word

namespace Falcon.C16
open Falcon Falcon.Backing Falcon.Backing.Memory

/-! ## `set_memory` -/

theorem override_nil (f : ByteMap) (a : Nat) (p : Perm) : override f a [] p = f := by
  funext x; simp [override]; omega

/-- **set_memory_spec.** On a well-formed memory, for every region below 2^64 (empty ones included),
    `set_memory` answers (no panic), keeps the endianness and the invariant (sorted, pairwise disjoint,
    no empty section), and the byte map becomes the old one overridden on exactly `[a, a + |d|)` with the
    new bytes and permissions. -/
theorem set_memory_spec (m : Memory) (a : Nat) (d : List UInt8) (p : Perm) (hinv : Inv m.sections)
    (hE : a + d.length < U64) :
    ∃ m', m.setMemory a d p = .ok m' ∧ m'.endian = m.endian ∧ Inv m'.sections ∧
      abs m'.sections = override (abs m.sections) a d p := by
  cases d with
  | nil => exact ⟨m, setMemory_empty m a p, rfl, hinv, (override_nil _ a p).symm⟩
  | cons b bs => exact setMemory_sections m a (b :: bs) p hinv (by simp) hE

/-- **the stored sections never overlap** (and are kept in ascending order, none empty) -/
theorem sections_disjoint {m : SMap} (hinv : Inv m) {e1 e2 : Entry} (h1 : e1 ∈ m) (h2 : e2 ∈ m) (hne : e1 ≠ e2) :
    e1.1 + e1.2.data.length ≤ e2.1 ∨ e2.1 + e2.2.data.length ≤ e1.1 := by
  have hp := hinv.pairwise
  induction m with
  | nil => simp at h1
  | cons hd t ih =>
    rw [List.pairwise_cons] at hp
    have hinv' : Inv t := ⟨hp.2, fun e he => hinv.nonempty e (by simp [he]), fun e he => hinv.bounded e (by simp [he])⟩
    rcases List.mem_cons.mp h1 with h1 | h1 <;> rcases List.mem_cons.mp h2 with h2 | h2
    · exact absurd (h1.trans h2.symm) hne
    · have := hp.1 e2 h2; rw [← h1] at this; exact Or.inl this.2
    · have := hp.1 e1 h1; rw [← h2] at this; exact Or.inr this.2
    · exact ih hinv' h1 h2 hp.2

/-! ## single-byte reads -/

/-- **get8_spec / permissions_spec.** Every address reads the byte and the permissions the byte map holds
    for it, `none` when unmapped; never a panic. -/
theorem get8_spec (m : Memory) (hinv : Inv m.sections) (x : Nat) :
    m.get8 x = .ok ((abs m.sections x).map Prod.fst) := get8_eq hinv x

theorem permissions_spec (m : Memory) (hinv : Inv m.sections) (x : Nat) :
    m.permissions x = .ok ((abs m.sections x).map Prod.snd) := permissions_eq hinv x

/-! ## arbitrary-width reads -/

/-- `readBytes` answers `none` exactly when some byte of the range is unmapped (or not an address) -/
theorem readBytes_eq_none_iff (f : ByteMap) (a n : Nat) :
    readBytes f a n = none ↔ ∃ i, i < n ∧ (U64 ≤ a + i ∨ f (a + i) = none) := by
  induction n generalizing a with
  | zero => simp [readBytes]
  | succ n ih =>
    simp only [readBytes]
    constructor
    · intro h
      by_cases ha : a < U64
      · simp only [ha, ↓reduceIte] at h
        cases hf : f a with
        | none => exact ⟨0, by omega, Or.inr (by simpa using hf)⟩
        | some v =>
          obtain ⟨b, p⟩ := v
          cases hr : readBytes f (a + 1) n with
          | none =>
            obtain ⟨i, hi, hc⟩ := (ih (a + 1)).mp hr
            refine ⟨i + 1, by omega, ?_⟩
            have e : a + (i + 1) = a + 1 + i := by omega
            rw [e]; exact hc
          | some bs => rw [hf, hr] at h; simp at h
      · exact ⟨0, by omega, Or.inl (by omega)⟩
    · rintro ⟨i, hi, hc⟩
      by_cases ha : a < U64
      · simp only [ha, ↓reduceIte]
        cases hf : f a with
        | none => rfl
        | some v =>
          obtain ⟨b, p⟩ := v
          cases i with
          | zero =>
            rcases hc with hc | hc
            · simp only [Nat.add_zero] at hc; omega
            · simp only [Nat.add_zero] at hc; rw [hf] at hc; cases hc
          | succ i =>
            have e : a + (i + 1) = a + 1 + i := by omega
            rw [e] at hc
            have := (ih (a + 1)).mpr ⟨i, by omega, hc⟩
            rw [this]
      · simp [ha]

/-- **get_spec.** For every address and width, `get` answers what the specification reads off the byte map:
    the bytes `a … a + bits/8 - 1` assembled in the memory's endianness as a `bits`-wide constant, and `none` —
    never a panic — when `bits` is 0 or no multiple of 8, or when any byte of the range is unmapped. -/
theorem get_spec (m : Memory) (hinv : Inv m.sections) (a bits : Nat) (ha : a < U64) (hbits : bits < U64) :
    m.get a bits = .ok (specGet m.endian (abs m.sections) a bits) := get_eq m hinv a bits ha hbits

theorem get_never_panics (m : Memory) (hinv : Inv m.sections) (a bits : Nat) (ha : a < U64) (hbits : bits < U64) :
    m.get a bits ≠ .panic := by rw [get_spec m hinv a bits ha hbits]; exact fun h => by cases h

/-- `get` answers `none` iff the width is unusable or some byte of the range is unmapped -/
theorem get_none_iff (m : Memory) (hinv : Inv m.sections) (a bits : Nat) (ha : a < U64) (hbits : bits < U64) :
    m.get a bits = .ok none ↔
      (bits % 8 ≠ 0 ∨ bits = 0) ∨ ∃ i, i < bits / 8 ∧ (U64 ≤ a + i ∨ abs m.sections (a + i) = none) := by
  rw [get_spec m hinv a bits ha hbits]
  unfold specGet
  by_cases h : bits % 8 ≠ 0 ∨ bits = 0
  · simp [h]
  · simp only [h, ↓reduceIte, false_or, Res.ok.injEq, Option.map_eq_none_iff]
    exact readBytes_eq_none_iff _ _ _

/-! ## 32-bit accesses within one section -/

/-- **get32_spec.** When `[a, a+4)` lies within one stored section, `get32` answers the four bytes of the
    byte map assembled in the memory's endianness. -/
theorem get32_spec (m : Memory) (hinv : Inv m.sections) (a : Nat) (h : within32 m.sections a = true) :
    m.get32 a = .ok (specGet32 m.endian (abs m.sections) a) ∧
      (specGet32 m.endian (abs m.sections) a).isSome := by
  simp only [within32, List.any_eq_true, Bool.and_eq_true, decide_eq_true_eq] at h
  obtain ⟨e, he, h1, h2⟩ := h
  exact get32_within hinv he h1 h2

/-- **set32_spec.** When `[a, a+4)` lies within one stored section, `set32` answers `Ok`, and the byte map
    changes on exactly those four addresses, to the bytes of the value in the memory's endianness, with the
    permissions unchanged; the invariant is kept. -/
theorem set32_spec (m : Memory) (hinv : Inv m.sections) (a v : Nat) (h : within32 m.sections a = true) :
    ∃ m', m.set32 a v = .ok m' ∧ m'.endian = m.endian ∧ Inv m'.sections ∧
      abs m'.sections = overrideBytes (abs m.sections) a (bytes32 m.endian v) := by
  simp only [within32, List.any_eq_true, Bool.and_eq_true, decide_eq_true_eq] at h
  obtain ⟨e, he, h1, h2⟩ := h
  exact set32_within hinv he v h1 h2

/-- outside the property, mirrored: a 32-bit access that starts in a section but runs past its end is refused
    (`get32` answers `None`, `set32` answers `Err`) even when the following bytes are mapped by the next section;
    `set32` at an unmapped address panics ("Address … has no section"). -/
theorem get32_across (m : Memory) (hinv : Inv m.sections) (a : Nat) {e : Entry} (he : e ∈ m.sections)
    (h1 : e.1 ≤ a) (h2 : a < e.1 + e.2.data.length) (h3 : e.1 + e.2.data.length < a + 4) : m.get32 a = .ok none := by
  unfold get32
  rw [sectionAddress_covered hinv he h1 h2]
  have : a - e.1 + 4 > e.2.data.length := by omega
  simp [find_of_mem hinv.pairwise he, this]

theorem set32_across (m : Memory) (hinv : Inv m.sections) (a v : Nat) {e : Entry} (he : e ∈ m.sections)
    (h1 : e.1 ≤ a) (h2 : a < e.1 + e.2.data.length) (h3 : e.1 + e.2.data.length < a + 4) :
    m.set32 a v = .err .other := by
  unfold set32
  rw [sectionAddress_covered hinv he h1 h2]
  have : a - e.1 + 4 > e.2.data.length := by omega
  simp [find_of_mem hinv.pairwise he, this]

theorem set32_unmapped_panics (m : Memory) (hinv : Inv m.sections) (a v : Nat) (h : abs m.sections a = none) :
    m.set32 a v = .panic := by
  rcases abs_cases hinv.pairwise a with ⟨e, he, h1, h2, habs⟩ | ⟨hnone, _⟩
  · rw [habs] at h
    have : a - e.1 < e.2.data.length := by omega
    simp [List.getElem?_eq_getElem this] at h
  · unfold set32
    rw [sectionAddress_unmapped hinv hnone]

/-- a 32-bit store is read back by `get32`: the value modulo 2^32 -/
theorem assemble_bytes32 (e : Endian) (v : Nat) : assemble e (bytes32 e v) = v % 2 ^ 32 := by
  have key : ∀ w : BitVec 32,
      (((w >>> 24).toNat % 256 * 256 + (w >>> 16).toNat % 256) * 256 + (w >>> 8).toNat % 256) * 256 + w.toNat % 256
        = w.toNat := by
    intro w
    have h24 : (w >>> 24).toNat = w.toNat / 16777216 := by simp [BitVec.toNat_ushiftRight, Nat.shiftRight_eq_div_pow]
    have h16 : (w >>> 16).toNat = w.toNat / 65536 := by simp [BitVec.toNat_ushiftRight, Nat.shiftRight_eq_div_pow]
    have h8 : (w >>> 8).toNat = w.toNat / 256 := by simp [BitVec.toNat_ushiftRight, Nat.shiftRight_eq_div_pow]
    have hw : w.toNat < 4294967296 := w.isLt
    rw [h24, h16, h8]
    generalize w.toNat = n at *
    clear h24 h16 h8
    omega
  have hmod : ∀ k, (v >>> k) % 256 = ((BitVec.ofNat 32 v) >>> k).toNat % 256 ∨ 24 < k := by
    intro k
    by_cases hk : 24 < k
    · exact Or.inr hk
    · left
      simp only [BitVec.toNat_ushiftRight, BitVec.toNat_ofNat, Nat.shiftRight_eq_div_pow]
      have h2 : (2 : Nat) ^ 32 = 2 ^ k * 2 ^ (32 - k) := by rw [← Nat.pow_add]; congr 1; omega
      have h3 : (2 : Nat) ^ (32 - k) = 256 * 2 ^ (32 - k - 8) := by
        have : (256 : Nat) = 2 ^ 8 := by decide
        rw [this, ← Nat.pow_add]; congr 1; omega
      rw [h2, Nat.mod_mul_right_div_self, h3, Nat.mod_mul_right_mod]
  have b0 := (hmod 0).resolve_right (by omega)
  have b8 := (hmod 8).resolve_right (by omega)
  have b16 := (hmod 16).resolve_right (by omega)
  have b24 := (hmod 24).resolve_right (by omega)
  simp only [Nat.shiftRight_zero, BitVec.ushiftRight_zero] at b0
  have hk := key (BitVec.ofNat 32 v)
  have hv : (BitVec.ofNat 32 v).toNat = v % 2 ^ 32 := by simp
  cases e with
  | big =>
    simp only [bytes32, assemble, List.foldl_cons, List.foldl_nil, UInt8.toNat_ofNat', Nat.zero_mul, Nat.zero_add]
    rw [b0, b8, b16, b24, hk, hv]
  | little =>
    simp only [bytes32, assemble, List.foldr_cons, List.foldr_nil, UInt8.toNat_ofNat', Nat.mul_zero, Nat.add_zero]
    rw [b0, b8, b16, b24, ← hv, ← hk]
    omega

/-! ## histories -/

/-- the mutating operations of a history -/
inductive Op where
  | setMemory (a : Nat) (d : List UInt8) (p : Perm)
  | set32 (a v : Nat)

/-- a region must be a region of the 64-bit address space not containing its last byte (see the header) -/
def Op.Valid : Op → Prop
  | .setMemory a d _ => a + d.length < U64
  | .set32 _ _ => True

/-- one operation on the model (a failing operation — `set32` returning `Err` or panicking before it mutates —
    leaves the memory as it was) and, alongside, on the specification: a region write overrides the range; a
    32-bit store inside one section overrides four bytes, outside it changes nothing. -/
def step (s : Memory × ByteMap) : Op → Memory × ByteMap
  | .setMemory a d p =>
    (match s.1.setMemory a d p with | .ok m' => m' | _ => s.1, override s.2 a d p)
  | .set32 a v =>
    (match s.1.set32 a v with | .ok m' => m' | _ => s.1,
     if within32 s.1.sections a then overrideBytes s.2 a (bytes32 s.1.endian v) else s.2)

def run (e : Endian) (ops : List Op) : Memory × ByteMap := ops.foldl step (Memory.new e, ByteMap.empty)

/-- `set32` answers `Ok` only inside one section -/
theorem set32_ok_within (m : Memory) (hinv : Inv m.sections) (a v : Nat) (m' : Memory) (h : m.set32 a v = .ok m') :
    within32 m.sections a = true := by
  simp only [within32, List.any_eq_true, Bool.and_eq_true, decide_eq_true_eq]
  rcases abs_cases hinv.pairwise a with ⟨e, he, h1, h2, _⟩ | ⟨hnone, _⟩
  · refine ⟨e, he, h1, ?_⟩
    unfold set32 at h
    rw [sectionAddress_covered hinv he h1 h2] at h
    simp only [find_of_mem hinv.pairwise he] at h
    split at h
    · cases h
    · omega
  · unfold set32 at h
    rw [sectionAddress_unmapped hinv hnone] at h
    cases h

theorem step_inv (e : Endian) (s : Memory × ByteMap) (op : Op) (hv : op.Valid)
    (h : Inv s.1.sections ∧ abs s.1.sections = s.2 ∧ s.1.endian = e) :
    Inv (step s op).1.sections ∧ abs (step s op).1.sections = (step s op).2 ∧ (step s op).1.endian = e := by
  obtain ⟨hinv, habs, hend⟩ := h
  cases op with
  | setMemory a d p =>
    obtain ⟨m', hok, he, hi, ha⟩ := set_memory_spec s.1 a d p hinv hv
    simp only [step, hok]
    exact ⟨hi, by rw [ha, habs], by rw [he, hend]⟩
  | set32 a v =>
    by_cases hw : within32 s.1.sections a = true
    · obtain ⟨m', hok, he, hi, ha⟩ := set32_spec s.1 hinv a v hw
      simp only [step, hok, hw, ↓reduceIte]
      exact ⟨hi, by rw [ha, habs], by rw [he, hend]⟩
    · have hfail : ∀ m', s.1.set32 a v ≠ .ok m' := fun m' hok => hw (set32_ok_within s.1 hinv a v m' hok)
      simp only [step, hw, Bool.false_eq_true, ↓reduceIte]
      cases hr : s.1.set32 a v with
      | ok m' => exact absurd hr (hfail m')
      | err _ => exact ⟨hinv, habs, hend⟩
      | panic => exact ⟨hinv, habs, hend⟩

/-- **history.** After every finite sequence of `set_memory` / `set32` on a fresh memory (regions arbitrary:
    overlapping, nested, adjacent, identical, empty), the stored sections are sorted, pairwise disjoint and
    non-empty, and the byte map of the memory is the specification's: the fold of `override` (most recent
    region wins) and of the 4-byte overrides of the 32-bit stores that lay within one section. -/
theorem history (e : Endian) (ops : List Op) (hv : ∀ op ∈ ops, op.Valid) :
    Inv (run e ops).1.sections ∧ abs (run e ops).1.sections = (run e ops).2 ∧ (run e ops).1.endian = e := by
  unfold run
  have gen : ∀ (ops : List Op) (s : Memory × ByteMap), (∀ op ∈ ops, op.Valid) →
      (Inv s.1.sections ∧ abs s.1.sections = s.2 ∧ s.1.endian = e) →
      Inv (ops.foldl step s).1.sections ∧ abs (ops.foldl step s).1.sections = (ops.foldl step s).2 ∧
        (ops.foldl step s).1.endian = e := by
    intro ops
    induction ops with
    | nil => intro s _ h; exact h
    | cons op t ih =>
      intro s hv h
      rw [List.foldl_cons]
      exact ih (step s op) (fun o ho => hv o (by simp [ho])) (step_inv e s op (hv op (by simp)) h)
  apply gen ops _ hv
  refine ⟨inv_nil, ?_, rfl⟩
  funext x; simp [abs, Memory.new, ByteMap.empty]

/-- **history, as seen by the reads**: after any history every address reads the byte and the permissions of
    the specification's byte map, multi-byte reads assemble it, nothing panics. -/
theorem history_reads (e : Endian) (ops : List Op) (hv : ∀ op ∈ ops, op.Valid) (x : Nat) :
    let m := (run e ops).1
    let f := (run e ops).2
    m.get8 x = .ok ((f x).map Prod.fst) ∧ m.permissions x = .ok ((f x).map Prod.snd) ∧
      ∀ bits, x < U64 → bits < U64 → m.get x bits = .ok (specGet e f x bits) := by
  obtain ⟨hinv, habs, hend⟩ := history e ops hv
  refine ⟨?_, ?_, ?_⟩
  · rw [← habs]; exact get8_spec _ hinv x
  · rw [← habs]; exact permissions_spec _ hinv x
  · intro bits hx hb
    have := get_spec _ hinv x bits hx hb
    rw [hend, habs] at this
    exact this

/-- the region writes of a history, most recent last -/
abbrev Region := Nat × List UInt8 × Perm

/-- the byte and permissions of the most recent region covering `x`; `none` if no region ever covered it -/
def mostRecent (rs : List Region) (x : Nat) : Option (UInt8 × Perm) :=
  match rs.reverse.find? (fun r => decide (r.1 ≤ x) && decide (x < r.1 + r.2.1.length)) with
  | some r => (r.2.1[x - r.1]?).map (fun b => (b, r.2.2))
  | none => none

/-- **the fold of `override` is "most recent covering region, else unmapped"** -/
theorem override_fold_mostRecent (rs : List Region) :
    rs.foldl (fun f r => override f r.1 r.2.1 r.2.2) ByteMap.empty = mostRecent rs := by
  have gen : ∀ (rs : List Region) (f0 : ByteMap) (x : Nat),
      rs.foldl (fun f r => override f r.1 r.2.1 r.2.2) f0 x =
        match rs.reverse.find? (fun r => decide (r.1 ≤ x) && decide (x < r.1 + r.2.1.length)) with
        | some r => (r.2.1[x - r.1]?).map (fun b => (b, r.2.2))
        | none => f0 x := by
    intro rs
    induction rs with
    | nil => intro f0 x; simp
    | cons r t ih =>
      intro f0 x
      rw [List.foldl_cons, ih, List.reverse_cons, List.find?_append]
      cases List.find? (fun r => decide (r.1 ≤ x) && decide (x < r.1 + r.2.1.length)) t.reverse with
      | some r' => simp
      | none =>
        simp only [Option.none_or, List.find?_cons, List.find?_nil, override]
        by_cases hc : r.1 ≤ x ∧ x < r.1 + r.2.1.length
        · simp [hc]
        · have : (decide (r.1 ≤ x) && decide (x < r.1 + r.2.1.length)) = false := by
            simp only [Bool.and_eq_false_iff, decide_eq_false_iff_not]; omega
          simp [hc, this]
  funext x
  rw [gen rs ByteMap.empty x]
  unfold mostRecent
  cases List.find? (fun r => decide (r.1 ≤ x) && decide (x < r.1 + r.2.1.length)) rs.reverse <;> rfl

/-- **history of region writes**: after any sequence of `set_memory`, every address reads the byte and
    permissions of the most recent region covering it, and addresses never covered are unmapped. -/
theorem history_regions (e : Endian) (rs : List Region) (hv : ∀ r ∈ rs, r.1 + r.2.1.length < U64) (x : Nat) :
    let m := (run e (rs.map (fun r => Op.setMemory r.1 r.2.1 r.2.2))).1
    Inv m.sections ∧ m.get8 x = .ok ((mostRecent rs x).map Prod.fst) ∧
      m.permissions x = .ok ((mostRecent rs x).map Prod.snd) := by
  have hv' : ∀ op ∈ rs.map (fun r => Op.setMemory r.1 r.2.1 r.2.2), op.Valid := by
    intro op hop
    rw [List.mem_map] at hop
    obtain ⟨r, hr, rfl⟩ := hop
    exact hv r hr
  have hspec : (run e (rs.map (fun r => Op.setMemory r.1 r.2.1 r.2.2))).2 = mostRecent rs := by
    rw [← override_fold_mostRecent]
    unfold run
    generalize ByteMap.empty = f0
    generalize Memory.new e = m0
    induction rs generalizing f0 m0 with
    | nil => rfl
    | cons r t ih =>
      simp only [List.map_cons, List.foldl_cons]
      rw [ih (fun r hr => hv r (by simp [hr])) (fun op hop => hv' op (by simp [List.mem_map] at hop ⊢; right; exact hop))]
      rfl
  have hr := history_reads e _ hv' x
  obtain ⟨hinv, _, _⟩ := history e _ hv'
  simp only at hr
  rw [hspec] at hr
  exact ⟨hinv, hr.1, hr.2.1⟩

/-! ## non-vacuity -/

/-- a concrete overlapping history: the second region splits the first; the invariant and the map are as stated -/
example :
    ((run .big [.setMemory 16 [0xaa, 0xbb, 0xcc, 0xdd] 5, .setMemory 17 [0x11] 3]).1.sections
      = [(16, ⟨[0xaa], 5⟩), (17, ⟨[0x11], 3⟩), (18, ⟨[0xcc, 0xdd], 5⟩)]) := by decide

example : (∀ op ∈ [Op.setMemory 16 [0xaa, 0xbb, 0xcc, 0xdd] 5, Op.setMemory 17 [0x11] 3, Op.set32 18 7], op.Valid) := by
  intro op hop
  simp only [List.mem_cons, List.not_mem_nil, or_false] at hop
  rcases hop with rfl | rfl | rfl <;> simp only [Op.Valid] <;> decide

/-- the hypotheses of the read theorems are met by a non-trivial memory, and a read across two sections
    assembles: `get(16, 32)` on the memory above is `0xaa11ccdd` -/
example : (run .big [.setMemory 16 [0xaa, 0xbb, 0xcc, 0xdd] 5, .setMemory 17 [0x11] 3]).1.get 16 32
    = .ok (some ⟨32, 0xaa11ccdd⟩) := by decide

/-- and a read running past the end is `none`, not a panic -/
example : (run .big [.setMemory 16 [0xaa, 0xbb, 0xcc, 0xdd] 5]).1.get 18 32 = .ok none := by decide

example : within32 (run .little [.setMemory 16 [1, 2, 3, 4, 5, 6] 7]).1.sections 17 = true := by decide

end Falcon.C16
