/-
  Property C09 — the fixed-point engine returns the least solution of the data-flow equations.

  Model: `FalconModel/FixedPoint.lean` — `fpLoop P force fuel states queue`, the literal work-list loop of
  `fixed_point_forward_options` / `fixed_point_backward_options`, generic over locations `L`, states `S` and the
  record `P = (succs, preds, trans, join, cmp)`; `fixedPointForward` / `fixedPointBackward` instantiate it over
  the location model of C18.  A run starts from the empty map and the queue `[e]`.

  Named hypotheses:
    `ConvR P e`     `preds` is contained in the converse of `succs` on the locations reachable from `e`
                    (discharged for both solvers on well-formed functions by C18: `forward_conv`, `backward_conv`);
    `LawfulEq`      `cmp a b = some .eq → a = b`  (`partial_cmp` answers `Equal` only for equal states);
    `JoinLub P le`  `le` is a preorder and `join` its least upper bound;
    `Mono P le`     every `trans l` is monotone, `None` being below every state.
  All theorems are for every `P`, every fuel / step budget and every run; nothing is bounded.
-/
import FalconProofs.C09.Inst
import FalconProofs.C09.Term
import FalconProofs.C09.Mono

namespace Falcon.C09
open Falcon

variable {L S : Type} [DecidableEq L]

/-- the state stored for `l` satisfies the equation
    `st l = trans l (fold join over {st p | p ∈ preds l, p has a state})` — the fold is the code's own
    (left to right over the predecessor list; for an associative-commutative `join` it is `⨆`) -/
def Eqn (P : FPParams L S) (st : List (L × S)) (l : L) : Prop := EqnR P (· = ·) st l

/-- **Keys.** A successful run (with or without `force`) has a state for exactly the locations reachable from
    the root by `succs` steps.  No hypothesis on the analysis. -/
theorem fp_ok_keys (P : FPParams L S) (e : L) (force : Bool) (fuel : Nat) (st : List (L × S))
    (h : fpLoop P force fuel [] [e] = .ok st) (l : L) :
    alGet st l ≠ none ↔ Reach P.succL e l := by
  have := fpLoop_inv P force (InvK P e) (fun _ _ _ _ _ hI hs => hI.step hs) fuel [] [e] st (InvK.init P e) h
  exact this.keys l

/-- **Solution.** Without `force`, a successful run satisfies the data-flow equation at every key — with *no*
    monotonicity assumption.  Since the only other outcomes of the loop are `maxSteps`, `ordering`, `err`,
    `panic` (type `FPOut`), this is the clause "an error rather than an unsound answer". -/
theorem fp_ok_solution (P : FPParams L S) (e : L) (fuel : Nat) (st : List (L × S))
    (hconv : ConvR P e) (hlaw : ∀ a b, P.cmp a b = some .eq → a = b)
    (h : fpLoop P false fuel [] [e] = .ok st) :
    ∀ l, alGet st l ≠ none → Eqn P st l := by
  have := fpLoop_inv P false (InvE P e (· = ·))
    (fun _ _ _ _ _ hI hs => hI.step hconv (fun _ => rfl) hlaw (by intro hf; cases hf) hs)
    fuel [] [e] st (InvE.init P e _) h
  intro l hl
  exact this.eqn l hl (by simp)

/-- **Least.** For a monotone analysis whose `join` is the least upper bound, the result is pointwise below
    every solution of the equations on the reachable locations. -/
theorem fp_least (P : FPParams L S) (e : L) (fuel : Nat) (st : List (L × S)) (le : S → S → Prop)
    (hj : JoinLub P le) (hm : Mono P le) (h : fpLoop P false fuel [] [e] = .ok st)
    (sol : List (L × S)) (hsol : IsSolution P e sol) :
    ∀ l v, alGet st l = some v → ∃ v', alGet sol l = some v' ∧ le v v' := by
  have := fpLoop_inv P false (InvL P e le sol)
    (fun _ _ _ _ _ hI hs => hI.step hj hm hsol hs) fuel [] [e] st (InvL.init P e le sol) h
  exact this.below

/-- **Non-monotone ⇒ error.** Whenever the loop (without `force`) pops a location whose recomputed state is
    not `≥` the stored one (`Less` or incomparable), the run ends with `FixedPointOrdering` for that location —
    whatever the fuel, the rest of the queue and the rest of the map. -/
theorem fp_nonmono_err (P : FPParams L S) (n : Nat) (st : List (L × S)) (l : L) (q ps : List L)
    (inS : Option S) (s old : S) (hp : P.preds l = .ok ps) (hj : joinIn P st ps none = .ok inS)
    (ht : P.trans l inS = .ok s) (hold : alGet st l = some old)
    (hc : P.cmp s old = some .lt ∨ P.cmp s old = none) :
    fpLoop P false (n + 1) st (l :: q) = .ordering (decide (P.cmp s old = some .lt)) l := by
  rcases hc with hc | hc <;> simp [fpLoop, fpStep, hp, hj, ht, hold, hc]

/-- **force (partial by design).** With `force = true` only the weaker `trans l (…) ≤ st l` is claimed:
    every key's stored state is above the recomputed one (the engine stores `join(new, old)`). -/
theorem fp_force_partial (P : FPParams L S) (e : L) (fuel : Nat) (st : List (L × S)) (le : S → S → Prop)
    (hconv : ConvR P e) (hj : JoinLub P le) (hlaw : ∀ a b, P.cmp a b = some .eq → a = b)
    (h : fpLoop P true fuel [] [e] = .ok st) :
    ∀ l, alGet st l ≠ none → EqnR P le st l := by
  have := fpLoop_inv P true (InvE P e le)
    (fun _ _ _ _ _ hI hs => hI.step hconv hj.refl (fun a b hab => by rw [hlaw a b hab]; exact hj.refl b)
      (fun _ a b c hab => hj.ub_left a b c hab) hs)
    fuel [] [e] st (InvE.init P e _) h
  intro l hl
  exact this.eqn l hl (by simp)

/-- **Termination.** Without `force` a stored state is only ever replaced by one that `cmp` calls `Greater`.
    If `Greater` raises a rank bounded by `h` (finite height), `U` lists the reachable locations and `D` bounds
    their out-degree, then `1 + |U|·(h+1)·(D+1)` iterations suffice: neither solver answers
    `FixedPointMaxSteps` when its budget (`max_analysis_steps`, resp. `DEFAULT_MAX_ANALYSIS_STEPS`) is at least
    `|U|·(h+1)·(D+1)`.  Neither monotonicity nor `JoinLub` is needed for this (DESIGN listed them).  With
    `force` the claim is false: a non-monotone analysis on a cyclic CFG is re-stored and re-queued until the
    budget is exhausted (the witness in known_findings.d/C09.json made the budget-less backward solver of the
    original code run for ever). -/
theorem fp_terminates (P : FPParams L S) (e : L) (rank : S → Nat) (h D : Nat) (U : List L)
    (hrank : ∀ s, rank s ≤ h) (hgt : ∀ a b, P.cmp a b = some .gt → rank b < rank a)
    (hU : ∀ l, Reach P.succL e l → l ∈ U) (hD : ∀ l, Reach P.succL e l → (P.succL l).length ≤ D)
    (fuel : Nat) (hfuel : 1 + U.length * (h + 1) * (D + 1) ≤ fuel) :
    fpLoop P false fuel [] [e] ≠ .maxSteps := by
  apply fpLoop_terminates rank h D U hrank hgt hU hD fuel [] [e] (InvK.init P e)
  have hphi : phi rank h U ([] : List (L × S)) = U.length * (h + 1) := phi_nil rank h U
  simp only [measureM, hphi, List.length_singleton]
  omega

/-- **The property at full strength.** For a monotone analysis over a lattice of finite height — `join` the
    least upper bound of `le`, `cmp` the order `le` with `Greater` raising a rank bounded by `h`, operations that
    do not fail on the reachable locations — and a step budget of at least `|U|·(h+1)·(D+1)`, the solver
    (without `force`) terminates and returns a map `st` such that: its keys are exactly the locations reachable
    from the root; every key satisfies its data-flow equation; and `st` is pointwise below every solution of
    the equations: the least solution.  `U` lists the reachable locations, `D` bounds their out-degree. -/
theorem fp_monotone_least_solution (P : FPParams L S) (e : L) (le : S → S → Prop) (rank : S → Nat)
    (h D : Nat) (U : List L) (hj : JoinLub P le) (hm : Mono P le) (hl : LawfulCmp P le rank h)
    (htot : Total P e) (hconv : ConvR P e)
    (hU : ∀ l, Reach P.succL e l → l ∈ U) (hD : ∀ l, Reach P.succL e l → (P.succL l).length ≤ D)
    (fuel : Nat) (hfuel : 1 + U.length * (h + 1) * (D + 1) ≤ fuel) :
    ∃ st, fpLoop P false fuel [] [e] = .ok st ∧
      (∀ l, alGet st l ≠ none ↔ Reach P.succL e l) ∧
      (∀ l, alGet st l ≠ none → Eqn P st l) ∧
      (∀ sol, IsSolution P e sol → ∀ l v, alGet st l = some v → ∃ v', alGet sol l = some v' ∧ le v v') := by
  rcases fpLoop_mono_ok hj hm hl.ge hl.gt_le htot fuel [] [e] (InvK.init P e) (InvH.init P le) with hmax | ⟨st, hst⟩
  · exact absurd hmax (fp_terminates P e rank h D U hl.rank_le hl.gt_rank hU hD fuel hfuel)
  · exact ⟨st, hst, fp_ok_keys P e false fuel st hst, fp_ok_solution P e fuel st hconv hl.eq_eq hst,
      fun sol hsol => fp_least P e fuel st le hj hm hst sol hsol⟩

/-- `ConvR` holds for the forward solver on a well-formed function (C18: forward and backward are converse) -/
theorem forward_conv {f : Function} (hf : WFf f) (A : Analysis S) {b : Block} (hb : b ∈ f.cfg.blocks) :
    ConvR (fwdParams f A) b.firstLoc.toOwned :=
  fwd_conv hf A (firstLoc_mem hb)

/-- `ConvR` holds for the backward solver on a well-formed function -/
theorem backward_conv {f : Function} (hf : WFf f) (A : Analysis S) {b : Block} (hb : b ∈ f.cfg.blocks) :
    ConvR (bwdParams f A) b.lastLoc :=
  bwd_conv hf A (lastLoc_mem hb)

/-- The forward solver on a well-formed function: a successful answer has a state for exactly the owned forms
    of the locations reachable by `forward` steps from the first location of the entry block (by C18's
    `forward_closure`: the locations on CFG paths from the entry block), and satisfies the equations. -/
theorem forward_solver_ok {f : Function} (hf : WFf f) (A : Analysis S)
    (hlaw : ∀ a b, A.cmp a b = some .eq → a = b) (maxSteps : Nat) (st : List (OFLoc × S))
    (h : fixedPointForward f A false maxSteps = .ok st) :
    ∃ en b, f.cfg.entry = some en ∧ f.cfg.block en = some b ∧
      (∀ o, alGet st o ≠ none ↔ ∃ l, l ∈ f.locations ∧ o = l.toOwned ∧ Reach (FLoc.stepF f) b.firstLoc l) ∧
      (∀ o, alGet st o ≠ none → Eqn (fwdParams f A) st o) := by
  unfold fixedPointForward at h
  cases hen : f.cfg.entry with
  | none => rw [hen] at h; cases h
  | some en =>
    rw [hen] at h
    simp only at h
    cases hb : f.cfg.block en with
    | none => rw [hb] at h; cases h
    | some b =>
      rw [hb] at h
      simp only at h
      have hbm := (Cfg.block_some hb).1
      refine ⟨en, b, rfl, hb, ?_, ?_⟩
      · intro o
        rw [fp_ok_keys _ _ _ _ _ h]
        constructor
        · exact fwd_reach_owned hf A (firstLoc_mem hbm)
        · rintro ⟨l, _, rfl, hr⟩
          have key : ∀ l, Reach (FLoc.stepF f) b.firstLoc l →
              l ∈ f.locations ∧ Reach (fwdParams f A).succL b.firstLoc.toOwned l.toOwned := by
            intro l hr
            induction hr with
            | refl => exact ⟨firstLoc_mem hbm, Reach.refl _⟩
            | tail _ hs ih =>
              refine ⟨((mem_stepF_iff hf ih.1 _).mp hs).1, Reach.tail ih.2 ?_⟩
              rw [fwd_succL hf A ih.1]
              exact List.mem_map.mpr ⟨_, hs, rfl⟩
          exact (key l hr).2
      · exact fp_ok_solution _ _ _ _ (forward_conv hf A hbm) hlaw h

/-- The backward solver on a well-formed function: a successful answer has a state for exactly the locations
    reachable by `backward` steps from the last location of the exit block, and satisfies the equations (whose
    "predecessors" are the `forward` successors). -/
theorem backward_solver_ok {f : Function} (hf : WFf f) (A : Analysis S)
    (hlaw : ∀ a b, A.cmp a b = some .eq → a = b) (st : List (FLoc × S))
    (h : fixedPointBackward f A false = .ok st) :
    ∃ ex b, f.cfg.exit = some ex ∧ f.cfg.block ex = some b ∧
      (∀ l, alGet st l ≠ none ↔ Reach (FLoc.stepB f) b.lastLoc l) ∧
      (∀ l, alGet st l ≠ none → Eqn (bwdParams f A) st l) := by
  unfold fixedPointBackward at h
  cases hex : f.cfg.exit with
  | none => rw [hex] at h; cases h
  | some ex =>
    rw [hex] at h
    simp only at h
    cases hb : f.cfg.block ex with
    | none => rw [hb] at h; cases h
    | some b =>
      rw [hb] at h
      simp only at h
      have hbm := (Cfg.block_some hb).1
      have hfun : (bwdParams f A).succL = FLoc.stepB f := funext (bwd_succL f A)
      refine ⟨ex, b, rfl, hb, ?_, fp_ok_solution _ _ _ _ (backward_conv hf A hbm) hlaw h⟩
      intro l
      rw [fp_ok_keys _ _ _ _ _ h, hfun]

/-! ### Non-vacuity: a two-location loop with a union/subset analysis -/

private def exP : FPParams Bool Nat where
  succs l := .ok [!l]
  preds l := .ok [!l]
  trans l x := .ok ((match x with | none => 0 | some s => s) ||| (if l then 2 else 1))
  join a b := .ok (a ||| b)
  cmp a b := if a = b then some .eq else if a &&& b = a then some .lt else if a &&& b = b then some .gt else none

/-- the run succeeds, visits both locations, and needs re-computations (the first state changes twice) -/
example : fpLoop exP false 10 [] [false] = .ok [(false, 3), (true, 3)] := by decide

example : ConvR exP false := by
  intro k _ p hp
  simp only [FPParams.predL, FPParams.succL, exP, List.mem_singleton] at hp ⊢
  subst hp; simp

/-- a non-monotone transfer function makes the same loop answer `FixedPointOrdering` -/
private def exBad : FPParams Bool Nat :=
  { exP with trans := fun l x => .ok (match x with | none => 3 | some _ => if l then 2 else 1) }

example : fpLoop exBad false 10 [] [false] = .ordering true false := by decide

/-- the step budget: with one unit of fuel the same run answers `FixedPointMaxSteps` -/
example : fpLoop exP false 1 [] [false] = .maxSteps := by decide

/-! ### Non-vacuity of the full-strength theorem: a monotone analysis on a two-location loop, states `Bool`
    (`false ≤ true`, join = `or`, rank = 0/1, height 1) -/

private def exM : FPParams Bool Bool where
  succs l := .ok [!l]
  preds l := .ok [!l]
  trans l x := .ok ((match x with | none => false | some s => s) || l)
  join a b := .ok (a || b)
  cmp a b := some (compare a b)

private def leB (a b : Bool) : Prop := a = false ∨ b = true

example : ∃ st, fpLoop exM false 9 [] [false] = .ok st ∧
    (∀ l, alGet st l ≠ none ↔ Reach exM.succL false l) ∧
    (∀ l, alGet st l ≠ none → Eqn exM st l) ∧
    (∀ sol, IsSolution exM false sol → ∀ l v, alGet st l = some v → ∃ v', alGet sol l = some v' ∧ leB v v') := by
  refine fp_monotone_least_solution exM false leB (fun b => b.toNat) 1 1 [false, true] ?_ ?_ ?_ ?_ ?_ ?_ ?_ 9
    (by decide)
  · refine ⟨?_, ?_, ?_, ?_, ?_⟩
    · intro a; cases a <;> simp [leB]
    · intro a b c; cases a <;> cases b <;> cases c <;> simp [leB]
    · intro a b c hc; simp only [exM, Res.ok.injEq] at hc; subst hc; cases a <;> cases b <;> simp [leB]
    · intro a b c hc; simp only [exM, Res.ok.injEq] at hc; subst hc; cases a <;> cases b <;> simp [leB]
    · intro a b c u hc; simp only [exM, Res.ok.injEq] at hc; subst hc
      cases a <;> cases b <;> cases u <;> simp [leB]
  · intro l x x' y y' hy hy' hx
    simp only [exM, Res.ok.injEq] at hy hy'
    subst hy; subst hy'
    cases l <;> cases x <;> cases x' <;> simp_all [leB, leO]
  · refine ⟨?_, ?_, ?_, ?_, ?_⟩
    · intro a b; cases a <;> cases b <;> simp [exM, compare]
    · intro a b; cases a <;> cases b <;> simp [exM, leB, compare]
    · intro a b; cases a <;> cases b <;> simp [exM, leB, compare]
    · intro a b; cases a <;> cases b <;> simp [exM, compare]
    · intro s; cases s <;> simp
  · exact ⟨fun l _ => ⟨_, rfl⟩, fun l _ => ⟨_, rfl⟩, fun l _ x => ⟨_, rfl⟩, fun a b => ⟨_, rfl⟩⟩
  · intro k _ p hp
    simp only [FPParams.predL, FPParams.succL, exM, List.mem_singleton] at hp ⊢
    subst hp; simp
  · intro l _; cases l <;> simp
  · intro l _; simp [FPParams.succL, exM]

end Falcon.C09
