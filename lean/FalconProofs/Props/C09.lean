import FalconModel.FixedPoint
namespace Falcon.C09
open Falcon
end Falcon.C09
