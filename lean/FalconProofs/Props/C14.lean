/-
  Property C14 — dead-code elimination preserves observable behaviour (pattern P3: verified checker).

  `Dce.dceCheck f g : Bool` (FalconModel/DceCert.lean) is run by `./check C14` on every output `g` that
  falcon's `analysis::dead_code_elimination` returns for an input `f`.  This file proves what a `true`
  answer means, for ALL functions `f`, `g`, all start configurations, all states and runs of any length:

    only_nops            g is f with some assign/load operations replaced by nop: header, edges, blocks,
                         phi nodes, instruction indices, addresses and positions are unchanged
    dceCheck_sound       every fault-free run of f (a list of configurations linked by `FStep f`, from any
                         common start configuration) is matched, position by position, by a run of g through
                         the same (block, position)s, with equal memories, the same store event at every
                         step (hence the same memory writes in the same order), states that agree on every
                         name outside the dead set `deadAt` of the position; at indirect branches and
                         intrinsics g stands at the same operation and the states agree on EVERY name; at
                         the end of a block without successors likewise
    dceCheck_sound_run   the same for the reflexive-transitive closure `FRun` of Exec.lean
    dceCheck_sound_entry the instance "from the function's entry, any initial state"
    certOk_sound         the same for any certificate accepted by `certOk` (the certificate computation
                         `computeCert` is not trusted)

  A run "without fault" is a run in the sense of `FStep` (FalconModel/Exec.lean): every instruction
  executed returned `.ok (_, fallThrough)`; a removed load cannot fault in g (it is `nop` there), and in f
  it did not fault by the premise.  `Operation::Branch` and intrinsics end a run of the model; what the
  property demands there is that both runs present the same scalar state, which is the last-but-one
  clause.  Names are identified as the executor does: by the scalar's name.
-/
import FalconProofs.C14.Obs
import FalconProofs.C14.Shape

namespace Falcon.C14
open Falcon Falcon.Dce

/-- what is related at each position of the two runs (`c` of the input `f`, `d` of the output `g`) -/
structure Related (f g : Function) (cert : Cert) (c d : Config) : Prop where
  /-- same path -/
  block : d.block = c.block
  pos : d.pos = c.pos
  /-- same memory, same byte order -/
  mem : d.state.mem = c.state.mem
  endian : d.state.endian = c.state.endian
  /-- the step leaving this position performs the same memory write (or none in both) -/
  store : storeEvent g d = storeEvent f c
  /-- the states agree on every name outside the dead set of the position -/
  agree : ∀ n, n ∉ deadAt f g cert c.block c.pos → c.state.get n = d.state.get n
  /-- at an indirect branch or an intrinsic: same operation in `g`, states agree on every name -/
  observable : ∀ op, opAt f c = some op → isObservable op = true →
    opAt g d = some op ∧ ∀ n, c.state.get n = d.state.get n
  /-- at the end of a block without successors: `g` is there too, states agree on every name -/
  exit : atExit f c = true → atExit g d = true ∧ ∀ n, c.state.get n = d.state.get n

theorem related_of_sim {f g : Function} {cert : Cert} (hc : certOk f g cert = true) {c d : Config}
    (hs : Sim f g cert c d) : Related f g cert c d := by
  have hcd : d = ⟨c.block, c.pos, d.state⟩ := by
    obtain ⟨db, dp, dσ⟩ := d
    have h1 := hs.block
    have h2 := hs.pos
    simp only at h1 h2
    subst h1 h2
    rfl
  refine ⟨hs.block, hs.pos, hs.same.mem, hs.same.endian, (sim_storeEvent hc hs).symm, hs.agree, ?_, ?_⟩
  · intro op hop ho
    obtain ⟨hnil, hg⟩ := observable_dead_nil hc hop ho
    refine ⟨?_, fun n => ?_⟩
    · rw [hcd]; exact hg
    · have := hs.agree
      rw [hnil] at this
      exact this.nil n
  · intro hx
    obtain ⟨hnil, hg⟩ := exit_dead_nil hc hx
    refine ⟨?_, fun n => ?_⟩
    · rw [hcd]; exact hg
    · have := hs.agree
      rw [hnil] at this
      exact this.nil n

/-- SOUNDNESS for any accepted certificate -/
theorem certOk_sound (f g : Function) (cert : Cert) (hc : certOk f g cert = true)
    (c₀ : Config) (t : List Config) (ht : Trace f (c₀ :: t)) :
    ∃ t', Trace g (c₀ :: t') ∧ t'.length = t.length ∧
      ∀ (k : Nat) (c : Config), (c₀ :: t)[k]? = some c →
        ∃ d, (c₀ :: t')[k]? = some d ∧ Related f g cert c d := by
  obtain ⟨t', htr, hpw⟩ := trace_sim hc (Sim.init f g cert c₀) ht
  refine ⟨t', htr, ?_, ?_⟩
  · have := hpw.length
    simp only [List.length_cons, Nat.add_right_cancel_iff] at this
    exact this.symm
  · intro k c hk
    obtain ⟨d, hd, hs⟩ := hpw.get hk
    exact ⟨d, hd, related_of_sim hc hs⟩

/-- THE SHAPE CLAUSE: an accepted output is the input with assigns/loads replaced by `nop`
    (`FunctionNopOf`, FalconProofs/C14/Shape.lean: header, edges, entry, exit, counters equal; blocks
    position by position with equal index, phi nodes, instruction count; instructions position by
    position with equal index and address and either the same operation or `nop` for an assign/load) -/
theorem only_nops (f g : Function) (h : dceCheck f g = true) : FunctionNopOf f g :=
  certOk_shape h

/-- THE MAIN THEOREM.  If the checker accepts `g` for `f`, then for every start configuration `c₀`
    (in particular the entry with any initial state) and every run `c₀ :: t` of `f` — `t.length`
    fault-free steps — there is a run `c₀ :: t'` of `g` with as many steps that is `Related` to it at
    every position `k`. -/
theorem dceCheck_sound (f g : Function) (h : dceCheck f g = true)
    (c₀ : Config) (t : List Config) (ht : Trace f (c₀ :: t)) :
    ∃ t', Trace g (c₀ :: t') ∧ t'.length = t.length ∧
      ∀ (k : Nat) (c : Config), (c₀ :: t)[k]? = some c →
        ∃ d, (c₀ :: t')[k]? = some d ∧ Related f g (computeCert f g) c d :=
  certOk_sound f g (computeCert f g) h c₀ t ht

/-- the same for `FRun`: whatever `f` reaches, `g` reaches a related configuration -/
theorem dceCheck_sound_run (f g : Function) (h : dceCheck f g = true) (c₀ c : Config)
    (hr : FRun f c₀ c) : ∃ d, FRun g c₀ d ∧ Related f g (computeCert f g) c d := by
  obtain ⟨d, hrun, hs⟩ := run_sim h hr
  exact ⟨d, hrun, related_of_sim h hs⟩

/-- from the entry of the function, for every initial state: `g` has the same entry, and every run of
    `f` from it is matched by a run of `g` -/
theorem dceCheck_sound_entry (f g : Function) (h : dceCheck f g = true) (σ₀ : State) (c₀ : Config)
    (h0 : f.initial σ₀ = some c₀) :
    g.initial σ₀ = some c₀ ∧
    ∀ t, Trace f (c₀ :: t) →
      ∃ t', Trace g (c₀ :: t') ∧ t'.length = t.length ∧
        ∀ (k : Nat) (c : Config), (c₀ :: t)[k]? = some c →
          ∃ d, (c₀ :: t')[k]? = some d ∧ Related f g (computeCert f g) c d := by
  refine ⟨?_, fun t ht => dceCheck_sound f g h c₀ t ht⟩
  unfold Function.initial at *
  rw [← certOk_entry h]
  exact h0

/-- the guards of `g` are enabled exactly like those of `f` in related configurations at the end of a
    block: the nondeterminism of `FStep` (several enabled out-edges) is the same on both sides -/
theorem enabled_edges_same (f g : Function) (h : dceCheck f g = true) (c d : Config)
    (hs : Sim f g (computeCert f g) c d) (c' : Config) (hstep : FStep f c c') :
    ∃ d', FStep g d d' ∧ d'.block = c'.block ∧ d'.pos = c'.pos := by
  obtain ⟨d', hg, hs'⟩ := step_sim h hs hstep
  exact ⟨d', hg, hs'.block, hs'.pos⟩

-- ------------------------------------------------------------------ non-vacuity

section examples

private def sa : Scalar := ⟨"a", 32, none⟩
private def sb : Scalar := ⟨"b", 32, none⟩
private def sc : Scalar := ⟨"c", 32, none⟩
private def k (v : Nat) : Expr := .const ⟨32, v⟩

private def mkF (ops : List Op) : Function :=
  { addr := 4096,
    cfg := { blocks := [{ index := 0, nextInstr := ops.length,
                          instrs := (List.range ops.length).zip ops |>.map (fun (i, o) => ⟨i, none, o⟩) }],
             entry := some 0, exit := some 0, nextIndex := 1 } }

/-- `b := 5 ; a := 2 ; b := a` — the first assignment is dead -/
private def f1 : Function := mkF [.assign sb (k 5), .assign sa (k 2), .assign sb (.scalar sa)]
/-- what falcon returns for it -/
private def g1 : Function := mkF [.nop, .assign sa (k 2), .assign sb (.scalar sa)]

/-- the checker accepts a genuine elimination … -/
example : dceCheck f1 g1 = true := by decide

/-- … and the premise of `dceCheck_sound` is met by a run of three steps to the exit -/
example : ∃ t, t.length = 3 ∧ Trace f1 (⟨0, 0, {}⟩ :: t) := by
  let σ0 : State := {}
  let σ1 := σ0.set "b" ⟨32, 5⟩
  let σ2 := σ1.set "a" ⟨32, 2⟩
  let σ3 := σ2.set "b" ⟨32, 2⟩
  refine ⟨[⟨0, 1, σ1⟩, ⟨0, 2, σ2⟩, ⟨0, 3, σ3⟩], rfl, ?_⟩
  refine Trace.cons (FStep.instr (c := ⟨0, 0, σ0⟩) (b := f1.cfg.blocks.head!) rfl rfl rfl) ?_
  refine Trace.cons (FStep.instr (c := ⟨0, 1, σ1⟩) (b := f1.cfg.blocks.head!) rfl rfl rfl) ?_
  refine Trace.cons (FStep.instr (c := ⟨0, 2, σ2⟩) (b := f1.cfg.blocks.head!) rfl rfl rfl) ?_
  exact Trace.single _

/-- `c := a + b ; a := c + a ; c := 0` with the first assignment removed (what falcon returned before
    the repair of def_use): rejected -/
private def f2 : Function :=
  mkF [.assign sc (.bin .add (.scalar sa) (.scalar sb)), .assign sa (.bin .add (.scalar sc) (.scalar sa)),
       .assign sc (k 0)]
private def g2 : Function :=
  mkF [.nop, .assign sa (.bin .add (.scalar sc) (.scalar sa)), .assign sc (k 0)]
example : dceCheck f2 g2 = false := by decide

/-- a removed intrinsic is rejected -/
private def f3 : Function := mkF [.assign sa (k 1), .intrinsic { mnemonic := "syscall" }, .assign sa (k 2)]
private def g3 : Function := mkF [.assign sa (k 1), .nop, .assign sa (k 2)]
example : dceCheck f3 g3 = false := by decide

end examples

end Falcon.C14
