/-
  FalconProofs.C05.Sorted — a well-sorted expression evaluates, in every state that defines the scalars it
  reads at their declared widths, to a value of the expression's width (or to the division error):
  never a sort error, never a missing-scalar error, never a panic.
-/
import FalconModel.WfIL
import FalconProofs.Props.C04

namespace Falcon
open Const

/-- the state holds, under the scalar's name, a good constant of the scalar's width -/
def State.Defines (σ : State) (s : Scalar) : Prop :=
  ∃ c, σ.get s.name = some c ∧ c.Good ∧ c.bits = s.bits

namespace Expr

theorem wellSorted_bits {e : Expr} (h : e.wellSorted = true) : 0 < e.bits ∧ e.bits < 2 ^ 64 := by
  induction e with
  | scalar s => simp [wellSorted] at h; exact ⟨h.1, h.2⟩
  | const c => simp [wellSorted] at h; exact ⟨h.1.1, h.1.2⟩
  | bin op l r ihl ihr =>
    simp only [wellSorted, Bool.and_eq_true, decide_eq_true_eq] at h
    simp only [bits]
    split
    · exact ⟨by decide, by decide⟩
    · exact ihl h.1.1
  | ext op m e ih =>
    cases op <;> simp only [wellSorted, Bool.and_eq_true, decide_eq_true_eq] at h <;> simp only [bits]
    · have := ih h.1.1; omega
    · have := ih h.1.1; omega
    · have := ih h.1.1; omega
  | ite c t e _ iht _ =>
    simp only [wellSorted, Bool.and_eq_true, decide_eq_true_eq] at h
    exact iht h.1.1.1.2

/-- no scalar leaves -/
def closed (e : Expr) : Prop := e.scalars = []

end Expr

open Expr in
/-- symbolising a well-sorted expression in a defining state succeeds and yields a closed, well-sorted
    expression of the same width whose constants are good -/
theorem symbolize_wellSorted (σ : State) (e : Expr) (hw : e.wellSorted = true)
    (hd : ∀ s ∈ e.scalars, σ.Defines s) :
    ∃ e', σ.symbolize e = .ok e' ∧ e'.bits = e.bits ∧ e'.wellSorted = true ∧ e'.closed ∧ e'.WidthsOK := by
  induction e with
  | scalar s =>
    obtain ⟨c, hget, hg, hb⟩ := hd s (by simp [Expr.scalars])
    refine ⟨.const c, by simp [State.symbolize, hget], by simpa [Expr.bits] using hb, ?_, rfl, hg⟩
    simp only [Expr.wellSorted, Bool.and_eq_true, decide_eq_true_eq]
    exact ⟨⟨hg.pos, hg.usz⟩, hg.wf⟩
  | const c =>
    refine ⟨.const c, rfl, rfl, hw, rfl, ?_⟩
    simp only [Expr.wellSorted, Bool.and_eq_true, decide_eq_true_eq] at hw
    exact ⟨hw.2, hw.1.1, hw.1.2⟩
  | bin op l r ihl ihr =>
    simp only [Expr.wellSorted, Bool.and_eq_true, decide_eq_true_eq] at hw
    obtain ⟨l', hl, hlb, hlw, hlc, hlo⟩ := ihl hw.1.1 (fun s hs => hd s (by simp [Expr.scalars, hs]))
    obtain ⟨r', hr, hrb, hrw, hrc, hro⟩ := ihr hw.1.2 (fun s hs => hd s (by simp [Expr.scalars, hs]))
    have hbits : l'.bits = r'.bits := by rw [hlb, hrb]; exact hw.2
    refine ⟨.bin op l' r', ?_, ?_, ?_, ?_, ⟨hlo, hro⟩⟩
    · simp [State.symbolize, hl, hr, Expr.mkBin, hbits]
    · simp only [Expr.bits, hlb]
    · simp [Expr.wellSorted, hlw, hrw, hbits]
    · simp only [Expr.closed, Expr.scalars] at *; simp [hlc, hrc]
  | ext op m e ih =>
    have hbe : e.wellSorted = true := by
      cases op <;> simp only [Expr.wellSorted, Bool.and_eq_true] at hw
      · exact hw.1.1
      · exact hw.1.1
      · exact hw.1.1
    obtain ⟨e', he, heb, hew, hec, heo⟩ := ih hbe (fun s hs => hd s (by simpa [Expr.scalars] using hs))
    have hpos := wellSorted_bits hbe
    cases op
    case zext =>
      simp only [Expr.wellSorted, Bool.and_eq_true, decide_eq_true_eq] at hw
      refine ⟨.ext .zext m e', ?_, rfl, ?_, by simpa [Expr.closed, Expr.scalars] using hec, ⟨by omega, hw.2, heo⟩⟩
      · have : ¬ (e'.bits ≥ m ∨ e'.bits = 0) := by rw [heb]; omega
        simp [State.symbolize, he, Expr.mkExt, this]
      · simp [Expr.wellSorted, hew, heb, hw.1.2, hw.2]
    case sext =>
      simp only [Expr.wellSorted, Bool.and_eq_true, decide_eq_true_eq] at hw
      refine ⟨.ext .sext m e', ?_, rfl, ?_, by simpa [Expr.closed, Expr.scalars] using hec, ⟨by omega, hw.2, heo⟩⟩
      · have : ¬ (e'.bits ≥ m ∨ e'.bits = 0) := by rw [heb]; omega
        simp [State.symbolize, he, Expr.mkExt, this]
      · simp [Expr.wellSorted, hew, heb, hw.1.2, hw.2]
    case trun =>
      simp only [Expr.wellSorted, Bool.and_eq_true, decide_eq_true_eq] at hw
      refine ⟨.ext .trun m e', ?_, rfl, ?_, by simpa [Expr.closed, Expr.scalars] using hec, ⟨hw.1.2, by omega, heo⟩⟩
      · have : ¬ (e'.bits ≤ m ∨ e'.bits = 0) := by rw [heb]; omega
        simp [State.symbolize, he, Expr.mkExt, this]
      · simp [Expr.wellSorted, hew, heb, hw.1.2, hw.2]
  | ite c t e ihc iht ihe =>
    simp only [Expr.wellSorted, Bool.and_eq_true, decide_eq_true_eq] at hw
    obtain ⟨c', hc, hcb, hcw, hcc, hco⟩ := ihc hw.1.1.1.1 (fun s hs => hd s (by simp [Expr.scalars, hs]))
    obtain ⟨t', ht, htb, htw, htc, hto⟩ := iht hw.1.1.1.2 (fun s hs => hd s (by simp [Expr.scalars, hs]))
    obtain ⟨e', he, heb, hew, hec, heo⟩ := ihe hw.1.1.2 (fun s hs => hd s (by simp [Expr.scalars, hs]))
    have h1 : c'.bits = 1 := by rw [hcb]; exact hw.1.2
    have h2 : t'.bits = e'.bits := by rw [htb, heb]; exact hw.2
    refine ⟨.ite c' t' e', ?_, ?_, ?_, ?_, ⟨hco, hto, heo⟩⟩
    · simp [State.symbolize, hc, ht, he, Expr.mkIte, h1, h2]
    · simp only [Expr.bits, htb]
    · simp [Expr.wellSorted, hcw, htw, hew, h1, h2]
    · simp only [Expr.closed, Expr.scalars] at *; simp [hcc, htc, hec]

/-- result width of the specification's binary operators -/
theorem Spec.bin_bits (op : BinOp) (a b c : Const) (h : Spec.bin op a b = .ok c) :
    c.bits = if op.isCmp then 1 else a.bits := by
  unfold Spec.bin at h
  split at h
  · split at h
    · rename_i c' hc
      injection h with h; subst h
      cases op <;> simp only [Spec.binBV] at hc <;>
        first
        | (injection hc with hc; subst hc; simp [BinOp.isCmp])
        | (split at hc
           · cases hc
           · injection hc with hc; subst hc; simp [BinOp.isCmp])
    · cases h
  · cases h

theorem Spec.bin_ok_or_div0 (op : BinOp) (a b : Const) (h : a.bits = b.bits) :
    (∃ c, Spec.bin op a b = .ok c) ∨ Spec.bin op a b = .err .div0 := by
  unfold Spec.bin
  rw [dif_pos h]
  split
  · exact .inl ⟨_, rfl⟩
  · exact .inr rfl

/-- a closed well-sorted expression denotes a good constant of its width, or the division error -/
theorem denote_wellSorted (e : Expr) (hw : e.wellSorted = true) (hc : e.closed) (ho : e.WidthsOK) :
    (∃ c, Spec.denote e = .ok c ∧ c.bits = e.bits ∧ c.Good) ∨ Spec.denote e = .err .div0 := by
  induction e with
  | scalar s => simp [Expr.closed, Expr.scalars] at hc
  | const c => exact .inl ⟨c, rfl, rfl, ho⟩
  | bin op l r ihl ihr =>
    simp only [Expr.wellSorted, Bool.and_eq_true, decide_eq_true_eq] at hw
    have hcl : l.closed := by simp only [Expr.closed, Expr.scalars, List.append_eq_nil_iff] at hc; exact hc.1
    have hcr : r.closed := by simp only [Expr.closed, Expr.scalars, List.append_eq_nil_iff] at hc; exact hc.2
    simp only [Spec.denote]
    rcases ihl hw.1.1 hcl ho.1 with ⟨a, ha, hab, hag⟩ | ha
    · rcases ihr hw.1.2 hcr ho.2 with ⟨b, hb, hbb, hbg⟩ | hb
      · rw [ha, hb]; simp only [Res.bind_ok]
        have hbits : a.bits = b.bits := by rw [hab, hbb]; exact hw.2
        rcases Spec.bin_ok_or_div0 op a b hbits with ⟨c, hc'⟩ | hd
        · refine .inl ⟨c, hc', ?_, Spec.bin_good op a b c hag hc'⟩
          rw [Spec.bin_bits op a b c hc', Expr.bits, hab]
        · exact .inr hd
      · rw [ha, hb]; exact .inr rfl
    · rw [ha]; exact .inr rfl
  | ext op m e ih =>
    have hce : e.closed := by simpa [Expr.closed, Expr.scalars] using hc
    have hwe : e.wellSorted = true := by
      cases op <;> simp only [Expr.wellSorted, Bool.and_eq_true] at hw
      · exact hw.1.1
      · exact hw.1.1
      · exact hw.1.1
    simp only [Spec.denote]
    rcases ih hwe hce ho.2.2 with ⟨a, ha, hab, hag⟩ | ha
    · rw [ha]; simp only [Res.bind_ok]
      cases op
      case zext =>
        simp only [Expr.wellSorted, Bool.and_eq_true, decide_eq_true_eq] at hw
        have : ¬ m ≤ a.bits := by rw [hab]; omega
        simp only [Spec.ext, this, ↓reduceIte]
        exact .inl ⟨_, rfl, rfl, good_ofBV _ ho.1 ho.2.1⟩
      case sext =>
        simp only [Expr.wellSorted, Bool.and_eq_true, decide_eq_true_eq] at hw
        have : ¬ m ≤ a.bits := by rw [hab]; omega
        simp only [Spec.ext, this, ↓reduceIte]
        exact .inl ⟨_, rfl, rfl, good_ofBV _ ho.1 ho.2.1⟩
      case trun =>
        simp only [Expr.wellSorted, Bool.and_eq_true, decide_eq_true_eq] at hw
        have : ¬ m ≥ a.bits := by rw [hab]; omega
        simp only [Spec.ext, this, ↓reduceIte]
        exact .inl ⟨_, rfl, rfl, good_ofBV _ ho.1 ho.2.1⟩
    · rw [ha]; exact .inr rfl
  | ite c t e ihc iht ihe =>
    simp only [Expr.wellSorted, Bool.and_eq_true, decide_eq_true_eq] at hw
    simp only [Expr.closed, Expr.scalars, List.append_eq_nil_iff] at hc
    simp only [Spec.denote]
    rcases ihc hw.1.1.1.1 hc.1.1 ho.1 with ⟨cv, hcv, _, _⟩ | hcd
    · rw [hcv]; simp only [Res.bind_ok]
      split
      · rcases iht hw.1.1.1.2 hc.1.2 ho.2.1 with ⟨v, hv, hvb, hvg⟩ | hv
        · exact .inl ⟨v, hv, by simpa [Expr.bits] using hvb, hvg⟩
        · exact .inr hv
      · rcases ihe hw.1.1.2 hc.2 ho.2.2 with ⟨v, hv, hvb, hvg⟩ | hv
        · exact .inl ⟨v, hv, by rw [hvb]; simp [Expr.bits, hw.2], hvg⟩
        · exact .inr hv
    · rw [hcd]; exact .inr rfl

/-- **no sort error**: in every state defining its scalars, a well-sorted expression evaluates to a good
    constant of its width or to the division error -/
theorem evalIn_wellSorted (σ : State) (e : Expr) (hw : e.wellSorted = true)
    (hd : ∀ s ∈ e.scalars, σ.Defines s) :
    (∃ c, σ.evalIn e = .ok c ∧ c.bits = e.bits ∧ c.Good) ∨ σ.evalIn e = .err .div0 := by
  obtain ⟨e', hs, hb, hw', hc', ho'⟩ := symbolize_wellSorted σ e hw hd
  have : σ.evalIn e = Spec.denote e' := by
    simp only [State.evalIn, hs, Res.bind_ok]
    exact C04.eval_denote e' ho'
  rw [this]
  rcases denote_wellSorted e' hw' hc' ho' with ⟨c, h1, h2, h3⟩ | h
  · exact .inl ⟨c, h1, by rw [h2, hb], h3⟩
  · exact .inr h

end Falcon
